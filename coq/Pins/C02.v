(* Pins for C02: restated statements + assumptions. Generated once by tools/mkpins.py, then committed. *)
Require Import VT.Tac VT.ListN VT.Attrs VT.Cell VT.Row VT.Grid VT.Screen VT.Vte VT.Perform VT.Parser VT.Term VT.Emit.
Require Import VT.GridInv VT.ScreenInv VT.ParseSer VT.CellWf VT.WfInv VT.SgrSpec VT.EmitSafe VT.AttrsInv VT.EmitTokens VT.ObsSpec VT.DiffRound VT.DiffHistory.
Require Import VT.Tac VT.ListN VT.Utf8 VT.Width VT.Attrs VT.Cell VT.Row VT.Grid VT.Screen VT.Vte VT.Perform VT.Parser VT.Term VT.Emit.
Require Import VT.RowInv VT.GridInv VT.TextInv VT.ScreenInv VT.ParseSer VT.CellWf VT.WfInv VT.WrapInv VT.WrapInvScreen VT.SgrSpec VT.EmitSafe VT.ObsSpec.
Require Import VT.AttrsInv VT.EmitTokens VT.CellInv VT.Recv VT.RowPaint VT.Redraw VT.Cursor VT.C01Main VT.C15Main VT.CapInv VT.Idem VT.LastRow VT.C01Examples VT.Bytes.
Require Import VT.DiffRound VT.DiffPaint VT.DiffGrid VT.DiffMain VT.DiffRoundU.
Require Import VT.Tac VT.ListN VT.Utf8 VT.Width VT.Attrs VT.Cell VT.Row VT.Grid VT.Screen VT.Vte VT.Perform VT.Parser VT.Term VT.Emit.
Require Import VT.RowInv VT.GridInv VT.TextInv VT.ScreenInv VT.ParseSer VT.CellWf VT.WfGrid VT.WfInv VT.WrapInv VT.WrapInvScreen VT.SgrSpec VT.EmitSafe VT.ObsSpec.
Require Import VT.AttrsInv VT.EmitTokens VT.CellInv VT.Recv VT.RowPaint VT.Redraw VT.Cursor VT.C01Main VT.C15Main VT.CapInv VT.Idem VT.LastRow VT.C01Examples VT.Bytes.
Require Import VT.DiffRound VT.DiffPaint VT.DiffGrid VT.DiffMain VT.DiffRoundU VT.DiffWrap VT.DiffK10 VT.DiffRoundK.
Require Import VT.Tac VT.ListN VT.Utf8 VT.Width VT.Attrs VT.Cell VT.Row VT.Grid VT.Screen VT.Vte VT.Perform VT.Parser VT.Term VT.Emit.
Require Import VT.RowInv VT.GridInv VT.TextInv VT.ScreenInv VT.ParseSer VT.CellWf VT.WfGrid VT.WfInv VT.WrapInv VT.WrapInvScreen VT.SgrSpec VT.EmitSafe VT.ObsSpec.
Require Import VT.AttrsInv VT.EmitTokens VT.CellInv VT.Recv VT.RowPaint VT.Redraw VT.Cursor VT.C01Main VT.C15Main VT.CapInv VT.Idem VT.LastRow VT.C01Examples VT.Bytes.
Require Import VT.DiffRound VT.DiffHistory VT.DiffPaint VT.DiffGrid VT.DiffMain VT.DiffRoundU VT.DiffWrap VT.DiffK10 VT.DiffRoundK VT.DiffRoundAll.
Require Import VT.Props.C02 VT.Props.C02sem VT.Props.C02k10 VT.Props.C02all.
Open Scope N_scope.
Check C02_statement_def : forall Pr Sc,
  diff_round_ok Pr Sc <->
  exists r o,
    (do r0 <- (do r <- parser_new (grows (cur Pr)) (gcols (cur Pr)) 0 false;
               do ts <- state_formatted_t Pr; process r (ser_all ts));
     do ts <- state_diff_t Sc Pr; process r0 (ser_all ts)) = Ok r /\
    obs (scr r) = Ok o /\ obs Sc = Ok o.
Print Assumptions C02_statement_def.
Check C02_old_loop_refuted : exists Pr Sc,
  reachable Pr /\ reachable Sc /\ grows (cur Pr) = grows (cur Sc) /\ gcols (cur Pr) = gcols (cur Sc) /\
  ~ diff_round_old_ok Pr Sc.
Print Assumptions C02_old_loop_refuted.
Check C02_old_loop_witness : d10_check_old = Ok (false, [false; false], [true; false]).
Print Assumptions C02_old_loop_witness.
Check C02_d10_repaired : d10_check = Ok (true, [true; false], [true; false]).
Print Assumptions C02_d10_repaired.
Check C02_d10_round_trips : exists Pr Sc,
  after 2 2 d10_P = Ok Pr /\ after 2 2 d10_S = Ok Sc /\ reachable Pr /\ reachable Sc /\ diff_round_ok Pr Sc.
Print Assumptions C02_d10_round_trips.
Check C02_total : forall s p, reachable s -> reachable p ->
  (exists ts, contents_diff_t s p = Ok ts /\ forallb token_ok ts = true /\ reparses ts) /\
  (exists ts, state_diff_t s p = Ok ts /\ forallb token_ok ts = true /\ reparses ts).
Print Assumptions C02_total.
Check C02_reparses_def : forall ts, reparses ts <->
  forall v, ground v -> exists v',
    advance v (ser_all ts) = (v', flat_map acts_of ts) /\ ground v' /\
    forall r l rz,
      process (mkParser v r l rz []) (ser_all ts) =
      (do '(r', evs) <- perform_all rz r (flat_map acts_of ts) []; Ok (mkParser v' r' (l ++ evs) rz [])).
Print Assumptions C02_reparses_def.
Check C02_bytes : forall s p ts v,
  screen_ok s -> screen_wf s -> screen_attrs_ok s -> pen_ok (pen p) -> contents_diff_t s p = Ok ts -> ground v ->
  exists v',
    advance v (ser_all ts) = (v', flat_map acts_of ts) /\ ground v' /\
    forall r l rz,
      process (mkParser v r l rz []) (ser_all ts) =
      (do '(r', evs) <- perform_all rz r (flat_map acts_of ts) []; Ok (mkParser v' r' (l ++ evs) rz [])).
Print Assumptions C02_bytes.
Check C02_no_panic : forall s p, screen_ok s -> screen_ok p ->
  (exists ts, contents_diff_t s p = Ok ts) /\ (exists ts, state_diff_t s p = Ok ts).
Print Assumptions C02_no_panic.
Check C02_equal_obs : forall s p o, screen_ok s -> screen_wf s -> screen_ok p -> obs s = Ok o -> obs p = Ok o ->
  contents_diff_t s p = Ok [] /\ state_diff_t s p = Ok [] /\ input_mode_diff_t s p = [].
Print Assumptions C02_equal_obs.
Check C02_equal_obs_round : forall Pr Sc o r, reachable Sc -> reachable Pr -> obs Sc = Ok o -> obs Pr = Ok o ->
  reproduce Pr = Ok r -> diff_round Pr Sc = Ok r.
Print Assumptions C02_equal_obs_round.
Check C02_example : exists Pr Sc, reachable Pr /\ reachable Sc /\ diff_round_ok Pr Sc.
Print Assumptions C02_example.
Check C02sem_in_U_def : forall s, in_U s <->
  (sb_off (cur s) = 0 /\ Forall (fun rw => wrapped rw = false) (live (cur s))).
Print Assumptions C02sem_in_U_def.
Check C02sem_visible_def : forall s, sb_off (cur s) = 0 -> visible_rows (cur s) = Ok (live (cur s)).
Print Assumptions C02sem_visible_def.
Check C02sem_round_def : forall Pr Sc, diff_round_ok Pr Sc <->
  exists r o,
    (do r0 <- (do r <- parser_new (grows (cur Pr)) (gcols (cur Pr)) 0 false;
               do ts <- state_formatted_t Pr; process r (ser_all ts));
     do ts <- state_diff_t Sc Pr; process r0 (ser_all ts)) = Ok r /\
    obs (scr r) = Ok o /\ obs Sc = Ok o.
Print Assumptions C02sem_round_def.
Check C02sem_shows_def : forall S R vr, shows S R vr <->
  (canvas R /\ grows (g R) = grows (cur S) /\ gcols (g R) = gcols (cur S) /\ live (g R) = vr /\
   prow (g R) = prow (cur S) /\ pcol (g R) = pcol (cur S) /\ hide R = hide S /\ pen R = pen S).
Print Assumptions C02sem_shows_def.
Check C02sem_U : forall P S,
  reachable P -> reachable S -> in_U P -> in_U S ->
  grows (cur P) = grows (cur S) -> gcols (cur P) = gcols (cur S) ->
  diff_round_ok P S.
Print Assumptions C02sem_U.
Check C02sem_U_strong : forall P S,
  reachable P -> reachable S -> in_U P -> in_U S ->
  grows (cur P) = grows (cur S) -> gcols (cur P) = gcols (cur S) ->
  exists r, diff_round P S = Ok r /\ obs (scr r) = obs S /\ log r = [] /\ ground (vt r) /\ canvas (scr r).
Print Assumptions C02sem_U_strong.
Check C02sem_untouched_wraps_def : forall vr pvr, untouched_wraps vr pvr <->
  forall i src prev, get vr i = Some src -> get pvr i = Some prev ->
    wrapped src = true \/ wrapped prev = true ->
    wrapped src = true /\ wrapped prev = true /\ cells src = cells prev /\
    forall s1 p1, get vr (i + 1) = Some s1 -> get pvr (i + 1) = Some p1 -> cells s1 = cells p1.
Print Assumptions C02sem_untouched_wraps_def.
Check C02sem_in_W_def : forall P S, in_W P S <->
  (sb_off (cur P) = 0 /\ sb_off (cur S) = 0 /\ untouched_wraps (live (cur S)) (live (cur P))).
Print Assumptions C02sem_in_W_def.
Check C02sem_U_in_W : forall P S, in_U P -> in_U S -> in_W P S.
Print Assumptions C02sem_U_in_W.
Check C02sem_W : forall P S,
  reachable P -> reachable S -> in_W P S ->
  grows (cur P) = grows (cur S) -> gcols (cur P) = gcols (cur S) ->
  diff_round_ok P S.
Print Assumptions C02sem_W.
Check C02sem_W_strong : forall P S,
  reachable P -> reachable S -> in_W P S ->
  grows (cur P) = grows (cur S) -> gcols (cur P) = gcols (cur S) ->
  exists r, diff_round P S = Ok r /\ obs (scr r) = obs S /\ log r = [] /\ ground (vt r) /\ canvas (scr r).
Print Assumptions C02sem_W_strong.
Check C02sem_chain_W_def : forall rows cols prev s rest,
  chain_W rows cols prev (s :: rest) <->
  (reachable s /\ grows (cur s) = rows /\ gcols (cur s) = cols /\ in_W prev s /\ chain_W rows cols s rest).
Print Assumptions C02sem_chain_W_def.
Check C02sem_chain_W : forall rows cols S0 snaps,
  reachable S0 -> sb_off (cur S0) = 0 -> grows (cur S0) = rows -> gcols (cur S0) = cols ->
  chain_W rows cols S0 snaps ->
  exists r r', reproduce S0 = Ok r /\ diff_chain r S0 snaps = Ok r' /\
               obs (scr r') = obs (last_snap S0 snaps) /\ log r' = [] /\ ground (vt r').
Print Assumptions C02sem_chain_W.
Check C02sem_state_diff_W : forall S P R vr pvr ts,
  source_ok S vr -> source_ok P pvr -> untouched_wraps vr pvr ->
  grows (cur S) = grows (cur P) -> gcols (cur S) = gcols (cur P) ->
  shows P R pvr -> same_modes P R -> state_diff_t S P = Ok ts ->
  exists R', plays R ts R' /\ shows S R' vr /\ same_modes S R'.
Print Assumptions C02sem_state_diff_W.
Check C02sem_grid_diff_W : forall R x px vr pvr pa,
  canvas R -> vrows_ok (gcols (g R)) vr -> Forall (srow_ok (gcols (g R))) pvr ->
  untouched_wraps vr pvr ->
  visible_rows x = Ok vr -> visible_rows px = Ok pvr ->
  len vr = grows (g R) -> len pvr = grows (g R) -> gcols x = gcols (g R) ->
  prow x < grows (g R) -> pcol x <= gcols (g R) ->
  cv R pvr (prow px) (pcol px) -> pen_ok pa ->
  exists ts a' R2,
    grid_contents_diff x px pa = Ok (ts, a') /\
    plays (rcv R pvr (prow px) (pcol px) pa) ts (rcv R2 vr (prow x) (pcol x) a') /\
    cv R2 vr (prow x) (pcol x) /\ same_base R R2 /\ pen_ok a'.
Print Assumptions C02sem_grid_diff_W.
Check C02sem_chain_U : forall rows cols S0 snaps,
  snap_ok rows cols S0 -> Forall (snap_ok rows cols) snaps ->
  exists r r', reproduce S0 = Ok r /\ diff_chain r S0 snaps = Ok r' /\
               obs (scr r') = obs (last_snap S0 snaps) /\ log r' = [] /\ ground (vt r').
Print Assumptions C02sem_chain_U.
Check C02sem_snap_ok_def : forall rows cols s, snap_ok rows cols s <->
  (reachable s /\ in_U s /\ grows (cur s) = rows /\ gcols (cur s) = cols).
Print Assumptions C02sem_snap_ok_def.
Check C02sem_chain_step : forall rows cols snaps prev r,
  snap_ok rows cols prev -> Forall (snap_ok rows cols) snaps ->
  pend r = [] ->   
  ground (vt r) -> shows prev (scr r) (live (cur prev)) -> same_modes prev (scr r) ->
  exists r', diff_chain r prev snaps = Ok r' /\ log r' = log r /\ ground (vt r') /\
             shows (last_snap prev snaps) (scr r') (live (cur (last_snap prev snaps))) /\
             same_modes (last_snap prev snaps) (scr r') /\
             obs (scr r') = obs (last_snap prev snaps).
Print Assumptions C02sem_chain_step.
Check C02sem_play_U : forall P S R tsP tsD,
  source_ok P (live (cur P)) -> source_ok S (live (cur S)) ->
  unwrapped_rows (live (cur P)) -> unwrapped_rows (live (cur S)) -> sb_off (cur S) = 0 ->
  grows (cur S) = grows (cur P) -> gcols (cur S) = gcols (cur P) ->
  canvas R -> grows (g R) = grows (cur P) -> gcols (g R) = gcols (cur P) ->
  mmode R = MNone -> menc R = EDefault ->
  state_formatted_t P = Ok tsP -> state_diff_t S P = Ok tsD ->
  exists R1 R2, play false R tsP = Ok (R1, []) /\ play false R1 tsD = Ok (R2, []) /\
                canvas R2 /\ obs R2 = obs S.
Print Assumptions C02sem_play_U.
Check C02sem_state_diff : forall S P R vr pvr ts,
  source_ok S vr -> source_ok P pvr -> unwrapped_rows vr -> unwrapped_rows pvr ->
  grows (cur S) = grows (cur P) -> gcols (cur S) = gcols (cur P) ->
  shows P R pvr -> same_modes P R -> state_diff_t S P = Ok ts ->
  exists R', plays R ts R' /\ shows S R' vr /\ same_modes S R'.
Print Assumptions C02sem_state_diff.
Check C02sem_contents_diff : forall S P R vr pvr ts,
  source_ok S vr -> source_ok P pvr -> unwrapped_rows vr -> unwrapped_rows pvr ->
  grows (cur S) = grows (cur P) -> gcols (cur S) = gcols (cur P) ->
  shows P R pvr -> contents_diff_t S P = Ok ts ->
  exists R', plays R ts R' /\ shows S R' vr /\
             keypad R' = keypad R /\ appcur R' = appcur R /\ paste R' = paste R /\
             mmode R' = mmode R /\ menc R' = menc R.
Print Assumptions C02sem_contents_diff.
Check C02sem_grid_diff : forall R x px vr pvr pa,
  canvas R -> vrows_ok (gcols (g R)) vr -> Forall (srow_ok (gcols (g R))) pvr ->
  unwrapped_rows vr -> unwrapped_rows pvr ->
  visible_rows x = Ok vr -> visible_rows px = Ok pvr ->
  len vr = grows (g R) -> len pvr = grows (g R) -> gcols x = gcols (g R) ->
  prow x < grows (g R) -> pcol x <= gcols (g R) ->
  cv R pvr (prow px) (pcol px) -> pen_ok pa ->
  exists ts a' R2,
    grid_contents_diff x px pa = Ok (ts, a') /\
    plays (rcv R pvr (prow px) (pcol px) pa) ts (rcv R2 vr (prow x) (pcol x) a') /\
    cv R2 vr (prow x) (pcol x) /\ same_base R R2 /\ pen_ok a'.
Print Assumptions C02sem_grid_diff.
Check C02sem_row_diff : forall R i src prev l ri0 r c a,
  i < grows (g R) -> srow_ok (gcols (g R)) src -> srow_ok (gcols (g R)) prev ->
  cv R l r c -> pen_ok a -> get l i = Some ri0 -> cells ri0 = cells prev -> wrapped ri0 = false ->
  wrapped src = false -> wrapped prev = false ->
  exists ts r1 c1 a1 ri,
    row_diff src prev 0 (gcols (g R)) i false false (r, c) a = Ok (ts, (r1, c1), a1) /\
    plays (rcv R l r c a) ts (rcv R (set_at l i ri) r1 c1 a1) /\
    cv R (set_at l i ri) r1 c1 /\ pen_ok a1 /\
    cells ri = cells src /\ wrapped ri = false /\
    (cells src = cells prev -> ts = [] /\ r1 = r /\ c1 = c /\ a1 = a).
Print Assumptions C02sem_row_diff.
Check C02sem_print_cell_gen : forall R l r j a rw c, cv R l r j -> get l r = Some rw ->
  cell_wf c -> cell_cap c -> has_contents c = true ->
  j + adv_n c <= gcols (g R) -> fc (cells rw) j = false ->
  exists rw', printed rw rw' j c a /\
    plays (rcv R l r j a) [TChars (ctext c)] (rcv R (set_at l r rw') r (j + adv_n c) a).
Print Assumptions C02sem_print_cell_gen.
Check C02sem_example : exists Pr Sc,
  after 3 6 exU_P = Ok Pr /\ after 3 6 exU_S = Ok Sc /\
  reachable Pr /\ reachable Sc /\ in_U Pr /\ in_U Sc /\
  grows (cur Pr) = grows (cur Sc) /\ gcols (cur Pr) = gcols (cur Sc) /\
  pcol (cur Pr) = gcols (cur Pr) /\ pcol (cur Sc) = gcols (cur Sc) /\ prow (cur Pr) <> prow (cur Sc) /\
  diff_round_ok Pr Sc.
Print Assumptions C02sem_example.
Check C02sem_example_W : exists Pr Sc,
  after 3 4 exW_P = Ok Pr /\ after 3 4 exW_S = Ok Sc /\
  reachable Pr /\ reachable Sc /\ in_W Pr Sc /\ ~ in_U Pr /\
  grows (cur Pr) = grows (cur Sc) /\ gcols (cur Pr) = gcols (cur Sc) /\
  diff_round_ok Pr Sc.
Print Assumptions C02sem_example_W.
Check C02k10_cellat_def : forall r c, cellat r c = match get (cells r) c with Some x => x | None => cell_new end.
Print Assumptions C02k10_cellat_def.
Check C02k10_at_def : forall cols p s p1 s1, k10_at cols p s p1 s1 =
  wrapped p && wrapped s && cwide (cellat p (cols - 2)) && negb (has_contents (cellat s (cols - 2)))
  && cell_eqb (cellat p1 0) (cellat s1 0).
Print Assumptions C02k10_at_def.
Check C02k10_rows_def : forall cols pv sv, k10_rows cols pv sv = true <->
  exists i p s p1 s1, get pv i = Some p /\ get sv i = Some s /\ get pv (i + 1) = Some p1 /\ get sv (i + 1) = Some s1 /\
                      k10_at cols p s p1 s1 = true.
Print Assumptions C02k10_rows_def.
Check C02k10_def : forall P S, k10 P S =
  (2 <=? gcols (cur P)) && k10_rows (gcols (cur P)) (live (cur P)) (live (cur S)).
Print Assumptions C02k10_def.
Check C02sem_K : forall P S, reachable P -> reachable S -> sb_off (cur P) = 0 -> sb_off (cur S) = 0 ->
  grows (cur P) = grows (cur S) -> gcols (cur P) = gcols (cur S) ->
  k10 P S = false -> diff_round_ok P S.
Print Assumptions C02sem_K.
Check C02sem_K_strong : forall P S, reachable P -> reachable S -> sb_off (cur P) = 0 -> sb_off (cur S) = 0 ->
  grows (cur P) = grows (cur S) -> gcols (cur P) = gcols (cur S) ->
  k10 P S = false ->
  exists r, diff_round P S = Ok r /\ obs (scr r) = obs S /\ log r = [] /\ ground (vt r) /\ canvas (scr r).
Print Assumptions C02sem_K_strong.
Check C02k10_W_inside : forall P S, reachable P -> in_W P S -> k10 P S = false.
Print Assumptions C02k10_W_inside.
Check C02k10_U_inside : forall P S, reachable P -> in_U P -> in_U S -> k10 P S = false.
Print Assumptions C02k10_U_inside.
Check C02k10_d10 :
  (do Pr <- after 2 2 d10_P; do Sc <- after 2 2 d10_S; Ok (k10 Pr Sc)) = Ok true.
Print Assumptions C02k10_d10.
Check C02k10_chain_def : forall rows cols prev s rest,
  chain_K rows cols prev (s :: rest) <->
  (reachable s /\ sb_off (cur s) = 0 /\ grows (cur s) = rows /\ gcols (cur s) = cols /\
   k10 prev s = false /\ chain_K rows cols s rest).
Print Assumptions C02k10_chain_def.
Check C02sem_K_chain : forall rows cols S0 snaps,
  reachable S0 -> sb_off (cur S0) = 0 -> grows (cur S0) = rows -> gcols (cur S0) = cols ->
  chain_K rows cols S0 snaps ->
  exists r r', reproduce S0 = Ok r /\ diff_chain r S0 snaps = Ok r' /\
               obs (scr r') = obs (last_snap S0 snaps) /\ log r' = [] /\ ground (vt r').
Print Assumptions C02sem_K_chain.
Check C02sem_K_chain_step : forall rows cols snaps prev r,
  reachable prev -> sb_off (cur prev) = 0 -> grows (cur prev) = rows -> gcols (cur prev) = cols ->
  chain_K rows cols prev snaps ->
  pend r = [] ->   
  ground (vt r) -> shows prev (scr r) (live (cur prev)) -> same_modes prev (scr r) ->
  exists r', diff_chain r prev snaps = Ok r' /\ log r' = log r /\ ground (vt r') /\
             shows (last_snap prev snaps) (scr r') (live (cur (last_snap prev snaps))) /\
             same_modes (last_snap prev snaps) (scr r') /\
             obs (scr r') = obs (last_snap prev snaps).
Print Assumptions C02sem_K_chain_step.
Check C02k10_free_def : forall cols pvr vr, K10free cols pvr vr <->
  forall i p s p1 s1, get pvr i = Some p -> get vr i = Some s -> get pvr (i + 1) = Some p1 -> get vr (i + 1) = Some s1 ->
    wrapped p = true -> wrapped s = true -> 2 <= cols -> fw (cells p) (cols - 2) = true ->
    (forall x, get (cells s) (cols - 2) = Some x -> has_contents x = false) ->
    get (cells s1) 0 <> get (cells p1) 0.
Print Assumptions C02k10_free_def.
Check C02sem_K_state_diff : forall S P R vr pvr ts,
  source_ok S vr -> source_ok P pvr -> K10free (gcols (cur S)) pvr vr ->
  (forall src, get vr (grows (cur S) - 1) = Some src -> wrapped src = false) ->
  grows (cur S) = grows (cur P) -> gcols (cur S) = gcols (cur P) ->
  shows P R pvr -> same_modes P R -> state_diff_t S P = Ok ts ->
  exists R', plays R ts R' /\ shows S R' vr /\ same_modes S R'.
Print Assumptions C02sem_K_state_diff.
Check C02sem_K_grid_diff : forall R x px vr pvr pa,
  canvas R -> vrows_ok (gcols (g R)) vr -> vrows_ok (gcols (g R)) pvr ->
  K10free (gcols (g R)) pvr vr ->
  (forall src, get vr (grows (g R) - 1) = Some src -> wrapped src = false) ->
  visible_rows x = Ok vr -> visible_rows px = Ok pvr ->
  len vr = grows (g R) -> len pvr = grows (g R) -> gcols x = gcols (g R) ->
  prow x < grows (g R) -> pcol x <= gcols (g R) ->
  cv R pvr (prow px) (pcol px) -> pen_ok pa ->
  exists ts a' R2,
    grid_contents_diff x px pa = Ok (ts, a') /\
    plays (rcv R pvr (prow px) (pcol px) pa) ts (rcv R2 vr (prow x) (pcol x) a') /\
    cv R2 vr (prow x) (pcol x) /\ same_base R R2 /\ pen_ok a'.
Print Assumptions C02sem_K_grid_diff.
Check C02sem_K_row_diff : forall R i src prev w pw l0 rprev r0 c0 a0,
  i < grows (g R) -> srow_ok (gcols (g R)) src -> srow_ok (gcols (g R)) prev ->
  row_wrapinv src -> row_wrapinv prev -> cv R l0 r0 c0 -> pen_ok a0 -> get l0 i = Some prev ->
  (w = true ->
     1 <= i /\ get l0 (i - 1) = Some rprev /\
     (exists lc, get (cells rprev) (gcols (g R) - 1) = Some lc /\ has_contents lc || ccont lc = true) /\
     (wrapped rprev = true \/ (r0 + 1 = i /\ c0 = gcols (g R) /\ (pw = true -> get (cells src) 0 <> get (cells prev) 0)))) ->
  exists ts r1 c1 a1 ri,
    row_diff src prev 0 (gcols (g R)) i w pw (r0, c0) a0 = Ok (ts, (r1, c1), a1) /\
    plays (rcv R l0 r0 c0 a0) ts (rcv R (set_at (wLfin i w l0 rprev) i ri) r1 c1 a1) /\
    cv R (set_at (wLfin i w l0 rprev) i ri) r1 c1 /\ pen_ok a1 /\ cells ri = cells src /\
    (wrapped src = false -> wrapped ri = false) /\
    (wrapped src = true -> wrapped ri = true \/
       (wrapped ri = false /\ r1 = i /\ c1 = gcols (g R) /\ (wrapped prev = true -> Wcond R src prev))).
Print Assumptions C02sem_K_row_diff.
Check C02k10_wLfin_def : forall i w l0 rprev,
  wLfin i w l0 rprev = if w then set_at l0 (i - 1) (row_wrap true rprev) else l0.
Print Assumptions C02k10_wLfin_def.
Check C02k10_Wcond_def : forall R src prev, Wcond R src prev <->
  (2 <= gcols (g R) /\ fw (cells prev) (gcols (g R) - 2) = true /\
   forall x, get (cells src) (gcols (g R) - 2) = Some x -> has_contents x = false).
Print Assumptions C02k10_Wcond_def.
Check C02sem_K_example : exists A B C,
  after 3 4 exK_A = Ok A /\ after 3 4 exK_B = Ok B /\ after 3 4 exK_C = Ok C /\
  ~ in_W A B /\ ~ in_W C A /\ ~ in_W A C /\
  diff_round_ok A B /\ diff_round_ok C A /\ diff_round_ok A C.
Print Assumptions C02sem_K_example.
Check C02all_clears_wrap_def : forall cols rw prw, clears_wrap cols rw prw =
  (2 <=? cols)
  && (match row_get prw (cols - 2) with Some c => cwide c | None => false end)
  && negb (match row_get rw (cols - 2) with Some c => has_contents c | None => false end).
Print Assumptions C02all_clears_wrap_def.
Check C02all_loop_def : forall cols rw prw rest i w pw pos a acc,
  rows_diff_loop cols ((rw, prw) :: rest) i w pw pos a acc =
  (do '(ts, pos', a') <- row_diff rw prw 0 cols i w pw pos a;
   rows_diff_loop cols rest (i + 1) (wrapped rw) (wrapped prw && negb (clears_wrap cols rw prw)) pos' a' (acc ++ ts)).
Print Assumptions C02all_loop_def.
Check C02sem_all : forall P S, reachable P -> reachable S -> sb_off (cur P) = 0 -> sb_off (cur S) = 0 ->
  grows (cur P) = grows (cur S) -> gcols (cur P) = gcols (cur S) -> diff_round_ok P S.
Print Assumptions C02sem_all.
Check C02sem_all_strong : forall P S, reachable P -> reachable S -> sb_off (cur P) = 0 -> sb_off (cur S) = 0 ->
  grows (cur P) = grows (cur S) -> gcols (cur P) = gcols (cur S) ->
  exists r, diff_round P S = Ok r /\ obs (scr r) = obs S /\ log r = [] /\ ground (vt r) /\ canvas (scr r).
Print Assumptions C02sem_all_strong.
Check C02all_snap_def : forall rows cols s, snap_all rows cols s <->
  (reachable s /\ sb_off (cur s) = 0 /\ grows (cur s) = rows /\ gcols (cur s) = cols).
Print Assumptions C02all_snap_def.
Check C02sem_all_chain : forall rows cols S0 snaps,
  snap_all rows cols S0 -> Forall (snap_all rows cols) snaps ->
  exists r r', reproduce S0 = Ok r /\ diff_chain r S0 snaps = Ok r' /\
               obs (scr r') = obs (last_snap S0 snaps) /\ log r' = [] /\ ground (vt r').
Print Assumptions C02sem_all_chain.
Check C02sem_all_chain_step : forall rows cols snaps prev r,
  snap_all rows cols prev -> Forall (snap_all rows cols) snaps ->
  pend r = [] ->   
  ground (vt r) -> shows prev (scr r) (live (cur prev)) -> same_modes prev (scr r) ->
  exists r', diff_chain r prev snaps = Ok r' /\ log r' = log r /\ ground (vt r') /\
             shows (last_snap prev snaps) (scr r') (live (cur (last_snap prev snaps))) /\
             same_modes (last_snap prev snaps) (scr r') /\
             obs (scr r') = obs (last_snap prev snaps).
Print Assumptions C02sem_all_chain_step.
Check C02sem_all_state_diff : forall S P R vr pvr ts,
  source_ok S vr -> source_ok P pvr ->
  (forall src, get vr (grows (cur S) - 1) = Some src -> wrapped src = false) ->
  grows (cur S) = grows (cur P) -> gcols (cur S) = gcols (cur P) ->
  shows P R pvr -> same_modes P R -> state_diff_t S P = Ok ts ->
  exists R', plays R ts R' /\ shows S R' vr /\ same_modes S R'.
Print Assumptions C02sem_all_state_diff.
Check C02sem_all_grid_diff : forall R x px vr pvr pa,
  canvas R -> vrows_ok (gcols (g R)) vr -> vrows_ok (gcols (g R)) pvr ->
  (forall src, get vr (grows (g R) - 1) = Some src -> wrapped src = false) ->
  visible_rows x = Ok vr -> visible_rows px = Ok pvr ->
  len vr = grows (g R) -> len pvr = grows (g R) -> gcols x = gcols (g R) ->
  prow x < grows (g R) -> pcol x <= gcols (g R) ->
  cv R pvr (prow px) (pcol px) -> pen_ok pa ->
  exists ts a' R2,
    grid_contents_diff x px pa = Ok (ts, a') /\
    plays (rcv R pvr (prow px) (pcol px) pa) ts (rcv R2 vr (prow x) (pcol x) a') /\
    cv R2 vr (prow x) (pcol x) /\ same_base R R2 /\ pen_ok a'.
Print Assumptions C02sem_all_grid_diff.
Check C02all_Wcond_clears : forall R s' p', Wcond R s' p' -> clears_wrap (gcols (g R)) s' p' = true.
Print Assumptions C02all_Wcond_clears.
Check C02all_d10 : exists Pr Sc,
  after 2 2 d10_P = Ok Pr /\ after 2 2 d10_S = Ok Sc /\ k10 Pr Sc = true /\ diff_round_ok Pr Sc.
Print Assumptions C02all_d10.
