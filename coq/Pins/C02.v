(* Pins for C02: restated statements + assumptions. Generated once by tools/mkpins.py, then committed. *)
Require Import VT.Tac VT.ListN VT.Attrs VT.Cell VT.Row VT.Grid VT.Screen VT.Vte VT.Perform VT.Parser VT.Term VT.Emit.
Require Import VT.GridInv VT.ScreenInv VT.ParseSer VT.CellWf VT.WfInv VT.SgrSpec VT.EmitSafe VT.AttrsInv VT.EmitTokens VT.ObsSpec VT.DiffRound.
Require Import VT.Props.C02.
Open Scope N_scope.
Check C02_statement_def : forall Pr Sc,
  diff_round_ok Pr Sc <->
  exists r o,
    (do r0 <- (do r <- parser_new (grows (cur Pr)) (gcols (cur Pr)) 0 false;
               do ts <- state_formatted_t Pr; process r (ser_all ts));
     do ts <- state_diff_t Sc Pr; process r0 (ser_all ts)) = Ok r /\
    obs (scr r) = Ok o /\ obs Sc = Ok o.
Print Assumptions C02_statement_def.
Check C02_refuted : exists Pr Sc,
  reachable Pr /\ reachable Sc /\ grows (cur Pr) = grows (cur Sc) /\ gcols (cur Pr) = gcols (cur Sc) /\
  ~ diff_round_ok Pr Sc.
Print Assumptions C02_refuted.
Check C02_refuted_witness : d10_check = Ok (false, [false; false], [true; false]).
Print Assumptions C02_refuted_witness.
Check C02_total : forall s p, reachable s -> reachable p ->
  (exists ts, contents_diff_t s p = Ok ts /\ forallb token_ok ts = true /\ reparses ts) /\
  (exists ts, state_diff_t s p = Ok ts /\ forallb token_ok ts = true /\ reparses ts).
Print Assumptions C02_total.
Check C02_reparses_def : forall ts, reparses ts <->
  forall v, ground v -> exists v',
    advance v (ser_all ts) = (v', flat_map acts_of ts) /\ ground v' /\
    forall r l rz,
      process (mkParser v r l rz) (ser_all ts) =
      (do '(r', evs) <- perform_all rz r (flat_map acts_of ts) []; Ok (mkParser v' r' (l ++ evs) rz)).
Print Assumptions C02_reparses_def.
Check C02_bytes : forall s p ts v,
  screen_ok s -> screen_wf s -> screen_attrs_ok s -> pen_ok (pen p) -> contents_diff_t s p = Ok ts -> ground v ->
  exists v',
    advance v (ser_all ts) = (v', flat_map acts_of ts) /\ ground v' /\
    forall r l rz,
      process (mkParser v r l rz) (ser_all ts) =
      (do '(r', evs) <- perform_all rz r (flat_map acts_of ts) []; Ok (mkParser v' r' (l ++ evs) rz)).
Print Assumptions C02_bytes.
Check C02_no_panic : forall s p, screen_ok s -> screen_ok p ->
  (exists ts, contents_diff_t s p = Ok ts) /\ (exists ts, state_diff_t s p = Ok ts).
Print Assumptions C02_no_panic.
Check C02_equal_obs : forall s p o, screen_ok s -> screen_ok p -> obs s = Ok o -> obs p = Ok o ->
  contents_diff_t s p = Ok [] /\ state_diff_t s p = Ok [] /\ input_mode_diff_t s p = [].
Print Assumptions C02_equal_obs.
Check C02_equal_obs_round : forall Pr Sc o r, reachable Sc -> reachable Pr -> obs Sc = Ok o -> obs Pr = Ok o ->
  reproduce Pr = Ok r -> diff_round Pr Sc = Ok r.
Print Assumptions C02_equal_obs_round.
Check C02_example : exists Pr Sc, reachable Pr /\ reachable Sc /\ diff_round_ok Pr Sc.
Print Assumptions C02_example.
