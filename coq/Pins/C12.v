(* Pins for C12: restated statements + assumptions. Generated once by tools/mkpins.py, then committed. *)
Require Import VT.Tac VT.ListN VT.Width VT.Attrs VT.Cell VT.Row VT.Grid VT.Screen VT.Vte VT.Perform VT.Parser VT.RowInv VT.GridInv.
Require Import VT.SbSpec VT.SbStrip VT.SbFrame.
Require Import VT.Props.C12.
Open Scope N_scope.
Check C12_scroll_up_closed_form : forall x n, grid_ok x ->
  scroll_up x n = Ok (su_result x (su_count x n)).
Print Assumptions C12_scroll_up_closed_form.
Check C12_scroll_up : forall x n y, grid_ok x -> scroll_up x n = Ok y ->
  let k := N.min n (grows x - top x) in
  let h := bot x - top x + 1 in
  live y = firstnN (top x) (live x) ++ firstnN (h - k) (skipnN (top x + k) (live x)) ++
           repeatN (row_new (gcols x)) (N.min k h) ++ skipnN (bot x + 1) (live x) /\
  (0 < sb_cap x /\ top x = 0 /\ bot x = grows x - 1 ->
     sb y = trim_front (sb x ++ firstnN k (live x)) (sb_cap x) /\
     sb_off y = (if 0 <? sb_off x then N.min (len (sb y)) (sb_off x + k) else 0)) /\
  (sb_cap x = 0 \/ top x <> 0 \/ bot x <> grows x - 1 -> sb y = sb x /\ sb_off y = sb_off x) /\
  y = with_sb (with_live x (live y)) (sb y) (sb_off y).
Print Assumptions C12_scroll_up.
Check C12_scroll_up_never_panics : forall x n, grid_ok x -> exists y, scroll_up x n = Ok y /\ grid_ok y.
Print Assumptions C12_scroll_up_never_panics.
Check C12_scroll_up_outside_region : forall x n y i, grid_ok x -> scroll_up x n = Ok y ->
  i < top x \/ bot x < i -> get (live y) i = get (live x) i.
Print Assumptions C12_scroll_up_outside_region.
Check C12_scroll_up_inside_region : forall x n y i, grid_ok x -> scroll_up x n = Ok y ->
  top x <= i <= bot x ->
  get (live y) i = if i + N.min n (grows x - top x) <=? bot x then get (live x) (i + N.min n (grows x - top x))
                   else Some (row_new (gcols x)).
Print Assumptions C12_scroll_up_inside_region.
Check C12_history_is_suffix : forall x n y, grid_ok x -> scroll_up x n = Ok y ->
  0 < sb_cap x -> top x = 0 -> bot x = grows x - 1 ->
  let k := N.min n (grows x) in
  let all := sb x ++ firstnN k (live x) in
  all = firstnN (len all - sb_cap x) all ++ sb y /\
  len (sb y) = N.min (len (sb x) + k) (sb_cap x) /\
  (forall i, i < k -> get (firstnN k (live x)) i = get (live x) i).
Print Assumptions C12_history_is_suffix.
Check C12_trim_front_app : forall (a b : list row) cap,
  trim_front (trim_front a cap ++ b) cap = trim_front (a ++ b) cap.
Print Assumptions C12_trim_front_app.
Check C12_capacity_new : forall rows cols cap rz p,
  parser_new rows cols cap rz = Ok p -> sb_cap (g (scr p)) = cap.
Print Assumptions C12_capacity_new.
Check C12_capacity_step : forall p o q, step p o = Ok q -> sb_cap (g (scr q)) = sb_cap (g (scr p)).
Print Assumptions C12_capacity_step.
Check C12_capacity_run : forall p ops q, run p ops = Ok q -> sb_cap (g (scr q)) = sb_cap (g (scr p)).
Print Assumptions C12_capacity_run.
Check C12_history_bound : forall x n y, grid_ok x -> scroll_up x n = Ok y -> len (sb y) <= sb_cap y.
Print Assumptions C12_history_bound.
Check C12_not_recorded : forall x n y, scroll_up x n = Ok y ->
  sb_cap y = sb_cap x /\
  (sb_cap x = 0 \/ scroll_region_active x = Ok true -> sb y = sb x /\ sb_cap y = sb_cap x /\ sb_off y = sb_off x).
Print Assumptions C12_not_recorded.
Check C12_visible_rows : forall x, grid_ok x ->
  visible_rows x = Ok (firstnN (grows x) (lastnN (sb_off x) (sb x)) ++ firstnN (grows x - sb_off x) (live x)).
Print Assumptions C12_visible_rows.
Check C12_visible_rows_small : forall x, grid_ok x -> sb_off x <= grows x ->
  visible_rows x = Ok (lastnN (sb_off x) (sb x) ++ firstnN (grows x - sb_off x) (live x)).
Print Assumptions C12_visible_rows_small.
Check C12_visible_rows_large : forall x, grid_ok x -> grows x <= sb_off x ->
  visible_rows x = Ok (firstnN (grows x) (skipnN (len (sb x) - sb_off x) (sb x))).
Print Assumptions C12_visible_rows_large.
Check C12_visible_rows_len : forall x v, grid_ok x -> visible_rows x = Ok v -> len v = grows x.
Print Assumptions C12_visible_rows_len.
Check C12_visible_rows_get : forall x v i, grid_ok x -> visible_rows x = Ok v -> i < grows x ->
  get v i = if i <? sb_off x then get (sb x) (len (sb x) - sb_off x + i) else get (live x) (i - sb_off x).
Print Assumptions C12_visible_rows_get.
Check C12_visible_rows_off0 : forall x, grid_ok x -> sb_off x = 0 -> visible_rows x = Ok (live x).
Print Assumptions C12_visible_rows_off0.
Check C12_set_scrollback : forall x k,
  grid_set_scrollback x k = with_sb x (sb x) (N.min k (len (sb x))).
Print Assumptions C12_set_scrollback.
Check C12_set_scrollback_view : forall x k, grid_ok x ->
  let k' := N.min k (len (sb x)) in
  sb_off (grid_set_scrollback x k) = k' /\
  grid_ok (grid_set_scrollback x k) /\
  (k' <= grows x ->
     visible_rows (grid_set_scrollback x k) = Ok (lastnN k' (sb x) ++ firstnN (grows x - k') (live x))).
Print Assumptions C12_set_scrollback_view.
Check C12_view_stable : forall x n y, grid_ok x -> scroll_up x n = Ok y ->
  0 < sb_cap x -> top x = 0 -> bot x = grows x - 1 ->
  0 < sb_off x -> sb_off x + N.min n (grows x) <= sb_cap x ->
  sb_off y = sb_off x + N.min n (grows x) /\ visible_rows y = visible_rows x.
Print Assumptions C12_view_stable.
Check C12_view_only_eq : forall ops p,
  run (strip p) (filter not_sb ops) = mapr strip (run p ops).
Print Assumptions C12_view_only_eq.
Check C12_view_only : forall p ops q, run p ops = Ok q ->
  exists q', run (strip p) (filter (fun o => negb (is_sb o)) ops) = Ok q' /\ strip q = strip q'.
Print Assumptions C12_view_only.
Check C12_view_only_panic_free : forall p ops,
  is_ok (run p ops) = is_ok (run (strip p) (filter (fun o => negb (is_sb o)) ops)).
Print Assumptions C12_view_only_panic_free.
Check C12_view_only_same_panic : forall p ops k, run p ops = Panic k ->
  run (strip p) (filter (fun o => negb (is_sb o)) ops) = Panic k.
Print Assumptions C12_view_only_same_panic.
Check C12_offset_irrelevant : forall p p' ops, strip p = strip p' ->
  mapr strip (run p ops) = mapr strip (run p' ops).
Print Assumptions C12_offset_irrelevant.
Check C12_view_only_fields : forall p ops q q',
  run p ops = Ok q -> run (strip p) (filter (fun o => negb (is_sb o)) ops) = Ok q' ->
  live (cur (scr q)) = live (cur (scr q')) /\
  prow (cur (scr q)) = prow (cur (scr q')) /\ pcol (cur (scr q)) = pcol (cur (scr q')) /\
  sb (cur (scr q)) = sb (cur (scr q')) /\ log q = log q' /\ vt q = vt q' /\
  sb_off (g (scr q')) = 0 /\ sb_off (alt (scr q')) = 0.
Print Assumptions C12_view_only_fields.
Check C12_strip_meaning : forall x y, sg x = sg y <-> x = with_sb y (sb y) (sb_off x).
Print Assumptions C12_strip_meaning.
Check C12_alt_nosb_new : forall rows cols cap rz p, parser_new rows cols cap rz = Ok p -> alt_nosb (scr p).
Print Assumptions C12_alt_nosb_new.
Check C12_alt_nosb_step : forall p o q, step p o = Ok q -> alt_nosb (scr p) -> alt_nosb (scr q).
Print Assumptions C12_alt_nosb_step.
Check C12_alt_nosb_run : forall p ops q, run p ops = Ok q -> alt_nosb (scr p) -> alt_nosb (scr q).
Print Assumptions C12_alt_nosb_run.
Check C12_alt_nosb_reachable : forall rows cols cap rz p0 ops p,
  parser_new rows cols cap rz = Ok p0 -> run p0 ops = Ok p ->
  sb (alt (scr p)) = [] /\ sb_cap (alt (scr p)) = 0 /\ sb_cap (g (scr p)) = cap.
Print Assumptions C12_alt_nosb_reachable.
Check C12_alt_screen_does_not_record : forall rz s a s' e,
  perform rz s a = Ok (s', e) -> altmode s = true -> sb (g s') = sb (g s) \/ sb (g s') = [].
Print Assumptions C12_alt_screen_does_not_record.
Check C12_enter_alt_resets_offset : forall s, altmode s = false ->
  sb_off (g (enter_alternate_grid s)) = 0 /\ sb (g (enter_alternate_grid s)) = sb (g s) /\
  altmode (enter_alternate_grid s) = true.
Print Assumptions C12_enter_alt_resets_offset.
Check C12_decset_47 : forall s s' k, altmode s = false -> decset1 s [47] = Ok (s', k) ->
  sb_off (g s') = 0 /\ sb (g s') = sb (g s) /\ altmode s' = true.
Print Assumptions C12_decset_47.
Check C12_decset_1049 : forall s s' k, altmode s = false -> decset1 s [1049] = Ok (s', k) ->
  sb_off (g s') = 0 /\ sb (g s') = sb (g s) /\ altmode s' = true.
Print Assumptions C12_decset_1049.
