(* Pins for C13: restated statements + assumptions. Generated once by tools/mkpins.py, then committed. *)
Require Import VT.Tac VT.ListN VT.Utf8 VT.Width VT.Attrs VT.Cell VT.Row VT.Grid VT.Screen VT.Vte VT.Perform VT.Parser VT.RowInv VT.GridInv VT.TextInv VT.ScreenInv VT.CellWf VT.WfGrid VT.WfVte VT.WfInv.
Require Import VT.Tac VT.ListN VT.Utf8 VT.Width VT.Attrs VT.Cell VT.Row VT.Grid VT.Screen VT.Vte VT.Perform VT.Parser.
Require Import VT.RowInv VT.GridInv VT.TextInv VT.ScreenInv VT.PrintSpec VT.ResizeSpec VT.PendingSpec.
Require Import VT.Props.C13 VT.Props.C13b.
Open Scope N_scope.
Check C13_reachable : forall rows cols cap rz ops,
  1 <= rows <= MAXDIM -> 1 <= cols <= MAXDIM -> Forall op_ok ops ->
  exists p q, parser_new rows cols cap rz = Ok p /\ run p ops = Ok q /\ parser_ok q.
Print Assumptions C13_reachable.
Check C13_step : forall p o, parser_ok p -> op_ok o -> exists q, step p o = Ok q /\ parser_ok q.
Print Assumptions C13_step.
Check C13_shape : forall s r c, screen_ok s ->
  ((exists rw cl, get (live (cur s)) r = Some rw /\ get (cells rw) c = Some cl) <->
   (r < grows (cur s) /\ c < gcols (cur s))).
Print Assumptions C13_shape.
Check C13_visible_live : forall s, screen_ok s -> sb_off (cur s) = 0 ->
  visible_rows (cur s) = Ok (live (cur s)).
Print Assumptions C13_visible_live.
Check C13_cursor : forall s, screen_ok s ->
  prow (cur s) < grows (cur s) /\ pcol (cur s) <= gcols (cur s).
Print Assumptions C13_cursor.
Check C13_wide : forall s r rw c cl, screen_ok s ->
  get (live (cur s)) r = Some rw -> get (cells rw) c = Some cl -> cwide cl = true ->
  c + 1 < gcols (cur s) /\ ccont cl = false /\
  exists d, get (cells rw) (c + 1) = Some d /\ ccont d = true /\ cwide d = false.
Print Assumptions C13_wide.
Check C13_cont : forall s r rw c cl, screen_ok s ->
  get (live (cur s)) r = Some rw -> get (cells rw) c = Some cl -> ccont cl = true ->
  0 < c /\ cwide cl = false /\
  exists d, get (cells rw) (c - 1) = Some d /\ cwide d = true /\ ccont d = false.
Print Assumptions C13_cont.
Check C13_cells_reachable : forall rows cols cap rz ops p q,
  1 <= rows <= MAXDIM -> 1 <= cols <= MAXDIM -> Forall op_ok ops ->
  parser_new rows cols cap rz = Ok p -> run p ops = Ok q -> screen_wf (scr q).
Print Assumptions C13_cells_reachable.
Check C13_cell_wf_meaning : forall c, cell_wf c ->
  (ccont c = true -> ctext c = [] /\ cattrs c = dflt) /\
  (has_contents c = true <-> ctext c <> []) /\
  (ctext c = [] -> cwide c = false) /\
  (forall ch rest, ctext c = ch :: rest ->
     wd ch <> Some 0 /\ (cwide c = true <-> wd ch = Some 2) /\ Forall (fun z => wd z = Some 0) rest) /\
  text_len (ctext c) <= 22 /\
  Forall (fun z => is_scalar z = true) (ctext c).
Print Assumptions C13_cell_wf_meaning.
Check C13b_print_keeps_meaning : forall cols c,
  print_keeps cols c <->
  ((128 <= c < 160)                      
   \/ c = 65533                          
   \/ (wd c = None /\ c < 256)           
   \/ wd c = Some 0                      
   \/ cols < cwidth c).
Print Assumptions C13b_print_keeps_meaning.
Check C13b_printed_last_meaning : forall s s' c,
  printed_last s s' c <->
  (~ (128 <= c < 160) /\ c <> 65533 /\ altmode s' = altmode s /\
   1 <= cwidth c <= 2 /\ gcols (cur s') = gcols (cur s) /\ pcol (cur s') = gcols (cur s') /\
   (
    (pcol (cur s) + cwidth c = gcols (cur s) /\ prow (cur s') = prow (cur s)) \/
    
    (gcols (cur s) < pcol (cur s) + cwidth c /\ cwidth c = gcols (cur s) /\ prow (cur s') = wrap_row (cur s))) /\
   
   drawing_cell (cur s') (prow (cur s')) (gcols (cur s') - cwidth c) = Some (glyph c (pen s)) /\
   (cwidth c = 2 -> drawing_cell (cur s') (prow (cur s')) (gcols (cur s') - 1) = Some cont_cell)).
Print Assumptions C13b_printed_last_meaning.
Check C13b_csi_moves_col_meaning : forall c,
  csi_moves_col c <-> (c = 67 \/ c = 68 \/ c = 69 \/ c = 70 \/ c = 71 \/ c = 72 \/ c = 114).
Print Assumptions C13b_csi_moves_col_meaning.
Check C13b_col_keeper_meaning : forall cols,
  (forall c, col_keeper cols (APrint c) <-> print_keeps cols c) /\
  (forall b, col_keeper cols (AExecute b) <-> (b <> 8 /\ b <> 9 /\ b <> 13)) /\             
  (forall ps ig c, col_keeper cols (ACsi ps [] ig c) <-> ~ csi_moves_col c) /\
  (forall ps i rest ig c, col_keeper cols (ACsi ps (i :: rest) ig c) <->
                          (i = 63 -> c = 104 \/ c = 108 -> ~ In [6] ps)) /\                 
  (forall ig b, col_keeper cols (AEsc [] ig b) <-> (b <> 56 /\ b <> 99)) /\                 
  (forall i rest ig b, col_keeper cols (AEsc (i :: rest) ig b)) /\
  (forall ps bell, col_keeper cols (AOsc ps bell)) /\
  (forall ps inter ig c, col_keeper cols (AHook ps inter ig c)) /\
  (forall b, col_keeper cols (APut b)) /\ col_keeper cols AUnhook.
Print Assumptions C13b_col_keeper_meaning.
Check C13b_pending_only_by_print : forall rz s a s' evs,
  screen_ok s -> perform rz s a = Ok (s', evs) -> pcol (cur s') = gcols (cur s') ->
  gcols (cur s') = gcols (cur s) /\
  ( (pcol (cur s) = gcols (cur s) /\ altmode s' = altmode s /\ col_keeper (gcols (cur s)) a)
    \/ (exists c, a = APrint c /\ printed_last s s' c)
    \/ (exists ig, a = AEsc [] ig 56 /\ altmode s' = altmode s /\ spcol (cur s) = gcols (cur s))
    \/ (exists ps i ig, a = ACsi ps (63 :: i) ig 108 /\ In [1049] ps /\ altmode s' = false /\
                        spcol (g s) = gcols (g s))
    \/ (exists ps i ig, a = ACsi ps (63 :: i) ig 108 /\ In [47] ps /\ altmode s = true /\ altmode s' = false /\
                        pcol (g s) = gcols (g s))
    \/ (exists ps i ig, a = ACsi ps (63 :: i) ig 104 /\ In [47] ps /\ altmode s = false /\ altmode s' = true /\
                        pcol (alt s) = gcols (alt s)) ).
Print Assumptions C13b_pending_only_by_print.
Check C13b_col_fixed_meaning : forall cols,
  (forall c, col_fixed cols (APrint c) <-> print_keeps cols c) /\
  (forall b, col_fixed cols (AExecute b) <-> (b <> 8 /\ b <> 9 /\ b <> 13)) /\
  (forall ps ig c, col_fixed cols (ACsi ps [] ig c) <-> (~ csi_moves_col c /\ c <> 116)) /\
  (forall ps i rest ig c, col_fixed cols (ACsi ps (i :: rest) ig c) <->
                          (i = 63 -> c = 104 \/ c = 108 -> ~ In [6] ps /\ ~ In [47] ps /\ ~ In [1049] ps)) /\
  (forall ig b, col_fixed cols (AEsc [] ig b) <-> (b <> 56 /\ b <> 99)) /\
  (forall i rest ig b, col_fixed cols (AEsc (i :: rest) ig b)) /\
  (forall ps bell, col_fixed cols (AOsc ps bell)) /\
  (forall ps inter ig c, col_fixed cols (AHook ps inter ig c)) /\
  (forall b, col_fixed cols (APut b)) /\ col_fixed cols AUnhook.
Print Assumptions C13b_col_fixed_meaning.
Check C13b_col_fixed_keeps : forall rz s a s' evs,
  screen_ok s -> perform rz s a = Ok (s', evs) -> col_fixed (gcols (cur s)) a ->
  altmode s' = altmode s /\ pcol (cur s') = pcol (cur s) /\ gcols (cur s') = gcols (cur s).
Print Assumptions C13b_col_fixed_keeps.
Check C13b_pending_kept : forall rz s a s' evs,
  screen_ok s -> perform rz s a = Ok (s', evs) -> col_fixed (gcols (cur s)) a ->
  pcol (cur s) = gcols (cur s) -> pcol (cur s') = gcols (cur s').
Print Assumptions C13b_pending_kept.
Check C13b_col_mover_meaning :
  (forall b, col_mover (AExecute b) <-> (b = 8 \/ b = 9 \/ b = 13)) /\                        
  (forall ps ig c, col_mover (ACsi ps [] ig c) <-> csi_moves_col c) /\
  (forall ps i rest ig c, col_mover (ACsi ps (i :: rest) ig c) <->
     (i = 63 /\ (c = 104 \/ c = 108) /\ In [6] ps /\ ~ In [47] ps /\ ~ In [1049] ps)) /\    
  (forall ig b, col_mover (AEsc [] ig b) <-> b = 99).
Print Assumptions C13b_col_mover_meaning.
Check C13b_movers_not_pending : forall rz s a s' evs,
  screen_ok s -> perform rz s a = Ok (s', evs) -> col_mover a -> pcol (cur s') < gcols (cur s').
Print Assumptions C13b_movers_not_pending.
Check C13b_ris_not_pending : forall s s', screen_ok s -> scr_ris s = Ok s' ->
  altmode s' = false /\ pcol (cur s') = 0 /\ gcols (cur s') = gcols (cur s) /\ pcol (cur s') < gcols (cur s').
Print Assumptions C13b_ris_not_pending.
Check C13b_resize_request_not_pending : forall rz s ps ig s' evs,
  screen_ok s -> perform rz s (ACsi ps [] ig 116) = Ok (s', evs) ->
  s' = s \/
  (rz = true /\ exists r c, 1 <= r /\ 1 <= c /\ screen_set_size s r c = Ok s' /\
                            pcol (cur s') < gcols (cur s') /\ spcol (cur s') < gcols (cur s')).
Print Assumptions C13b_resize_request_not_pending.
Check C13b_set_size_not_pending : forall s r c s', screen_ok s -> 1 <= r -> 1 <= c ->
  screen_set_size s r c = Ok s' ->
  gcols (g s') = c /\ gcols (alt s') = c /\
  pcol (g s') < gcols (g s') /\ spcol (g s') < gcols (g s') /\
  pcol (alt s') < gcols (alt s') /\ spcol (alt s') < gcols (alt s') /\
  pcol (cur s') < gcols (cur s') /\ spcol (cur s') < gcols (cur s').
Print Assumptions C13b_set_size_not_pending.
Check C13b_print_to_last_col_pending : forall rz s c,
  screen_ok s -> ~ (128 <= c < 160) -> c <> REPL -> ~ (wd c = None /\ c < 256) ->
  1 <= cwidth c -> pcol (cur s) + cwidth c = gcols (cur s) ->
  exists s', perform rz s (APrint c) = Ok (s', []) /\
             pcol (cur s') = gcols (cur s') /\ prow (cur s') = prow (cur s) /\ altmode s' = altmode s /\
             printed_last s s' c.
Print Assumptions C13b_print_to_last_col_pending.
Check C13b_print_ascii_last_col_pending : forall rz s c,
  screen_ok s -> 32 <= c < 127 -> pcol (cur s) + 1 = gcols (cur s) ->
  exists s', perform rz s (APrint c) = Ok (s', []) /\
             pcol (cur s') = gcols (cur s') /\ prow (cur s') = prow (cur s) /\
             drawing_cell (cur s') (prow (cur s')) (gcols (cur s') - 1) = Some (glyph c (pen s)).
Print Assumptions C13b_print_ascii_last_col_pending.
Check C13b_pending_is_not_occupancy :
  probe [97; 98; 99] = Ok (3, 0, 3, Some (glyph 99 dflt)) /\                        
  probe [97; 98; 99; 27; 91; 50; 75] = Ok (3, 0, 3, Some (blank dflt)) /\           
  probe [10; 97; 98; 99; 27; 91; 65] = Ok (3, 0, 3, Some (blank dflt)) /\           
  probe [97; 98; 99; 13] = Ok (0, 0, 3, Some (glyph 99 dflt)) /\                    
  probe [97; 98; 99; 27; 55; 13; 27; 56] = Ok (3, 0, 3, Some (glyph 99 dflt)).
Print Assumptions C13b_pending_is_not_occupancy.
