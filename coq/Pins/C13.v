(* Pins for C13: restated statements + assumptions. Generated once by tools/mkpins.py, then committed. *)
Require Import VT.Tac VT.ListN VT.Utf8 VT.Width VT.Attrs VT.Cell VT.Row VT.Grid VT.Screen VT.Vte VT.Perform VT.Parser VT.RowInv VT.GridInv VT.TextInv VT.ScreenInv VT.CellWf VT.WfGrid VT.WfVte VT.WfInv.
Require Import VT.Props.C13.
Open Scope N_scope.
Check C13_reachable : forall rows cols cap rz ops,
  1 <= rows <= MAXDIM -> 1 <= cols <= MAXDIM -> Forall op_ok ops ->
  exists p q, parser_new rows cols cap rz = Ok p /\ run p ops = Ok q /\ parser_ok q.
Print Assumptions C13_reachable.
Check C13_step : forall p o, parser_ok p -> op_ok o -> exists q, step p o = Ok q /\ parser_ok q.
Print Assumptions C13_step.
Check C13_shape : forall s r c, screen_ok s ->
  ((exists rw cl, get (live (cur s)) r = Some rw /\ get (cells rw) c = Some cl) <->
   (r < grows (cur s) /\ c < gcols (cur s))).
Print Assumptions C13_shape.
Check C13_visible_live : forall s, screen_ok s -> sb_off (cur s) = 0 ->
  visible_rows (cur s) = Ok (live (cur s)).
Print Assumptions C13_visible_live.
Check C13_cursor : forall s, screen_ok s ->
  prow (cur s) < grows (cur s) /\ pcol (cur s) <= gcols (cur s).
Print Assumptions C13_cursor.
Check C13_wide : forall s r rw c cl, screen_ok s ->
  get (live (cur s)) r = Some rw -> get (cells rw) c = Some cl -> cwide cl = true ->
  c + 1 < gcols (cur s) /\ ccont cl = false /\
  exists d, get (cells rw) (c + 1) = Some d /\ ccont d = true /\ cwide d = false.
Print Assumptions C13_wide.
Check C13_cont : forall s r rw c cl, screen_ok s ->
  get (live (cur s)) r = Some rw -> get (cells rw) c = Some cl -> ccont cl = true ->
  0 < c /\ cwide cl = false /\
  exists d, get (cells rw) (c - 1) = Some d /\ cwide d = true /\ ccont d = false.
Print Assumptions C13_cont.
Check C13_cells_reachable : forall rows cols cap rz ops p q,
  1 <= rows <= MAXDIM -> 1 <= cols <= MAXDIM -> Forall op_ok ops ->
  parser_new rows cols cap rz = Ok p -> run p ops = Ok q -> screen_wf (scr q).
Print Assumptions C13_cells_reachable.
Check C13_cell_wf_meaning : forall c, cell_wf c ->
  (ccont c = true -> ctext c = [] /\ cattrs c = dflt) /\
  (has_contents c = true <-> ctext c <> []) /\
  (ctext c = [] -> cwide c = false) /\
  (forall ch rest, ctext c = ch :: rest ->
     wd ch <> Some 0 /\ (cwide c = true <-> wd ch = Some 2) /\ Forall (fun z => wd z = Some 0) rest) /\
  text_len (ctext c) <= 22 /\
  Forall (fun z => is_scalar z = true) (ctext c).
Print Assumptions C13_cell_wf_meaning.
