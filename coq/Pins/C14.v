(* Pins for C14: restated statements + assumptions. Generated once by tools/mkpins.py, then committed. *)
Require Import VT.Tac VT.ListN VT.Cell VT.Row VT.Grid VT.Screen VT.Emit VT.RowInv VT.TextSpec.
Require Import VT.Props.C14.
Open Scope N_scope.
Check C14_rows : forall s start width vr,
  visible_rows (cur s) = Ok vr ->
  Forall (fun r => len (cells r) <= 65520) vr ->
  rows_text s start width = Ok (map (fun r => row_text_spec (cells r) start width) vr).
Print Assumptions C14_rows.
Check C14_contents : forall s vr,
  visible_rows (cur s) = Ok vr ->
  Forall (fun r => len (cells r) <= 65520) vr ->
  contents_text s = Ok (contents_spec vr (gcols (cur s))).
Print Assumptions C14_contents.
Check C14_between : forall s vr r1 c1 r2 c2,
  visible_rows (cur s) = Ok vr ->
  Forall (fun r => len (cells r) <= 65520) vr ->
  contents_between s r1 c1 r2 c2 = Ok (between_spec vr (gcols (cur s)) r1 c1 r2 c2).
Print Assumptions C14_between.
Check C14_row : forall r start width wrapping,
  len (cells r) <= 65520 ->
  row_text r start width wrapping
  = Ok (row_text_spec (cells r) start width
        ++ (if wrapping && nilb (row_text_spec (cells r) start width) then [10] else [])).
Print Assumptions C14_row.
Check C14_rows_no_panic : forall s start width vr,
  visible_rows (cur s) = Ok vr -> Forall (fun r => len (cells r) <= 65520) vr ->
  is_ok (rows_text s start width) = true.
Print Assumptions C14_rows_no_panic.
Check C14_contents_no_panic : forall s vr,
  visible_rows (cur s) = Ok vr -> Forall (fun r => len (cells r) <= 65520) vr ->
  is_ok (contents_text s) = true.
Print Assumptions C14_contents_no_panic.
Check C14_between_no_panic : forall s vr r1 c1 r2 c2,
  visible_rows (cur s) = Ok vr -> Forall (fun r => len (cells r) <= 65520) vr ->
  is_ok (contents_between s r1 c1 r2 c2) = true.
Print Assumptions C14_between_no_panic.
Check C14_strip : forall l, strip_trailing_nl l = drop_trailing_nl l.
Print Assumptions C14_strip.
Check C14_drop_trailing_nl_char : forall l,
  exists k, l = drop_trailing_nl l ++ repeat 10 k /\ (forall p, drop_trailing_nl l <> p ++ [10]).
Print Assumptions C14_drop_trailing_nl_char.
Check C14_row_empty : forall cs, nilb (cells_text cs) = negb (existsb has_contents cs).
Print Assumptions C14_row_empty.
Check C14_one_space : forall cs,
  Forall (fun c => cwide c = true -> has_contents c = true) cs -> cells_text cs = cells_text1 cs.
Print Assumptions C14_one_space.
Check C14_continuations_skipped : forall cs start width,
  cells_ok cs -> fc cs start = false ->
  row_text_spec cs start width
  = cells_text (filter (fun c => negb (ccont c)) (window start width cs)).
Print Assumptions C14_continuations_skipped.
