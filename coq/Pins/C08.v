(* Pins for C08: restated statements + assumptions. Generated once by tools/mkpins.py, then committed. *)
Require Import VT.Tac VT.ListN VT.Attrs VT.Cell VT.Row VT.Grid VT.Screen VT.RowInv VT.GridInv VT.ScreenInv VT.ShiftSpec VT.ShiftExamples.
Require Import VT.Props.C08.
Open Scope N_scope.
Check C08_get_shift_down : forall blank l a b m j, a <= b -> b < len l -> m <= b + 1 - a ->
  get (shift_down blank l a b m) j =
  if j <? a then get l j else if j <? a + m then Some blank else if j <=? b then get l (j - m) else get l j.
Print Assumptions C08_get_shift_down.
Check C08_get_shift_up : forall blank l a b m j, a <= b -> b < len l -> m <= b + 1 - a ->
  get (shift_up blank l a b m) j =
  if j <? a then get l j else if j <? b + 1 - m then get l (j + m) else if j <=? b then Some blank else get l j.
Print Assumptions C08_get_shift_up.
Check C08_get_clear_wrap_at : forall l i j,
  get (clear_wrap_at l i) j = if j =? i then option_map (row_wrap false) (get l i) else get l j.
Print Assumptions C08_get_clear_wrap_at.
Check C08_down_form_def : forall blank l a b n,
  down_form blank l a b n =
  if n =? 0 then l else clear_wrap_at (shift_down blank l a b (N.min n (b + 1 - a))) b.
Print Assumptions C08_down_form_def.
Check C08_lines_down_def : forall cols l l' a b m clr,
  lines_down cols l l' a b m clr <->
  (len l' = len l /\
   (forall j, j < a \/ b < j -> get l' j = get l j) /\
   (forall j, a <= j < a + m -> get l' j = Some (row_new cols)) /\
   (forall j, a + m <= j <= b ->
      get l' j = option_map (fun r => if clr && (j =? b) then row_wrap false r else r) (get l (j - m)))).
Print Assumptions C08_lines_down_def.
Check C08_lines_up_def : forall cols l l' a b m,
  lines_up cols l l' a b m <->
  (len l' = len l /\
   (forall j, j < a \/ b < j -> get l' j = get l j) /\
   (forall j, a <= j -> j + m <= b -> get l' j = get l (j + m)) /\
   (forall j, a <= j -> b < j + m -> j <= b -> get l' j = Some (row_new cols))).
Print Assumptions C08_lines_up_def.
Check C08_get_dch_cells : forall cs c k j, 1 <= k -> c + k <= len cs ->
  get (dch_cells cs c k) j =
  if j <? c then (if (j =? c - 1) && fc cs c then option_map clear_own (get cs j) else get cs j)
  else if j <? len cs - k then
         (if (j =? c) && fc cs (c + k) then option_map clear_own (get cs (j + k)) else get cs (j + k))
  else if j <? len cs then Some cell_new else None.
Print Assumptions C08_get_dch_cells.
Check C08_get_ich_cells : forall cs c k j, c < len cs -> 1 <= k ->
  get (ich_cells cs c k) j =
  if j <? c then get cs j
  else if j <? c + k then (if j <? len cs then Some (if (j =? c) && fc cs c then cont_blank else cell_new) else None)
  else if j <? len cs then option_map (ich_moved cs c k j) (get cs (j - k)) else None.
Print Assumptions C08_get_ich_cells.
Check C08_ich_moved_def : forall cs c k j x,
  ich_moved cs c k j x =
  let x1 := if (j =? c + k) && fc cs c then cell_set_cont false x else x in
  if (j =? len cs - 1) && cwide x1 then clear_own x1 else x1.
Print Assumptions C08_ich_moved_def.
Check C08_ich_moved_same : forall cs c k j x,
  j <> c + k \/ fc cs c = false -> j <> len cs - 1 \/ cwide x = false -> ich_moved cs c k j x = x.
Print Assumptions C08_ich_moved_same.
Check C08_same_shape_def : forall x y,
  same_shape x y <->
  (grows y = grows x /\ gcols y = gcols x /\ prow y = prow x /\ pcol y = pcol x /\
   sprow y = sprow x /\ spcol y = spcol x /\ top y = top x /\ bot y = bot x /\
   origin y = origin x /\ sorigin y = sorigin x /\ sb_cap y = sb_cap x).
Print Assumptions C08_same_shape_def.
Check C08_k0_cells : forall cs c, dch_cells cs c 0 = cs /\ (cells_ok cs -> ich_cells cs c 0 = cs).
Print Assumptions C08_k0_cells.
Check C08_SD_closed : forall x n, grid_ok x ->
  scroll_down x n = Ok (with_live x (down_form (row_new (gcols x)) (live x) (top x) (bot x) n)).
Print Assumptions C08_SD_closed.
Check C08_IL_closed : forall x n, grid_ok x -> top x <= prow x <= bot x ->
  insert_lines x n = Ok (with_live x (down_form (row_new (gcols x)) (live x) (prow x) (bot x) n)).
Print Assumptions C08_IL_closed.
Check C08_DL_closed : forall x n, grid_ok x -> top x <= prow x <= bot x ->
  delete_lines x n =
  Ok (with_live x (shift_up (row_new (gcols x)) (live x) (prow x) (bot x) (N.min n (bot x + 1 - prow x)))).
Print Assumptions C08_DL_closed.
Check C08_SU_closed : forall x n y, grid_ok x -> scroll_up x n = Ok y ->
  live y = shift_up (row_new (gcols x)) (live x) (top x) (bot x) (N.min n (bot x + 1 - top x)) /\
  (grows y = grows x /\ gcols y = gcols x /\ prow y = prow x /\ pcol y = pcol x /\
   sprow y = sprow x /\ spcol y = spcol x /\ top y = top x /\ bot y = bot x /\
   origin y = origin x /\ sorigin y = sorigin x /\ sb_cap y = sb_cap x).
Print Assumptions C08_SU_closed.
Check C08_LF_closed : forall x, grid_ok x ->
  row_inc_scroll x 1 =
  if in_scroll_region x then
    if prow x =? bot x then (do y <- scroll_up x 1; Ok (y, 1))
    else Ok (with_prow x (prow x + 1), 0)
  else if prow x <? grows x - 1 then Ok (with_prow x (prow x + 1), 0)
  else Ok (x, 0).
Print Assumptions C08_LF_closed.
Check C08_RI_closed : forall x, grid_ok x ->
  row_dec_scroll x 1 =
  if in_scroll_region x then
    if prow x =? top x then scroll_down x 1
    else Ok (with_prow x (prow x - 1))
  else if 0 <? prow x then Ok (with_prow x (prow x - 1))
  else scroll_down x 1.
Print Assumptions C08_RI_closed.
Check C08_DCH_closed : forall x n rw, grid_ok x -> get (live x) (prow x) = Some rw ->
  delete_cells x n =
  Ok (with_live x (set_at (live x) (prow x)
        (mkRow (dch_cells (cells rw) (pcol x) (N.min n (gcols x - pcol x))) false))).
Print Assumptions C08_DCH_closed.
Check C08_ICH_closed : forall x n rw, grid_ok x -> get (live x) (prow x) = Some rw ->
  insert_cells x n =
  Ok (with_live x (set_at (live x) (prow x)
        (mkRow (ich_cells (cells rw) (pcol x) (N.min n (gcols x - pcol x))) false))).
Print Assumptions C08_ICH_closed.
Check C08_SD : forall x n, grid_ok x ->
  exists y, scroll_down x n = Ok y /\ y = with_live x (live y) /\
    lines_down (gcols x) (live x) (live y) (top x) (bot x) (N.min n (bot x + 1 - top x)) (0 <? n).
Print Assumptions C08_SD.
Check C08_IL : forall x n, grid_ok x -> top x <= prow x <= bot x ->
  exists y, insert_lines x n = Ok y /\ y = with_live x (live y) /\
    lines_down (gcols x) (live x) (live y) (prow x) (bot x) (N.min n (bot x + 1 - prow x)) (0 <? n).
Print Assumptions C08_IL.
Check C08_DL : forall x n, grid_ok x -> top x <= prow x <= bot x ->
  exists y, delete_lines x n = Ok y /\ y = with_live x (live y) /\
    lines_up (gcols x) (live x) (live y) (prow x) (bot x) (N.min n (bot x + 1 - prow x)).
Print Assumptions C08_DL.
Check C08_SU : forall x n, grid_ok x ->
  exists y, scroll_up x n = Ok y /\ grid_ok y /\ same_shape x y /\
    lines_up (gcols x) (live x) (live y) (top x) (bot x) (N.min n (bot x + 1 - top x)).
Print Assumptions C08_SU.
Check C08_LF : forall x, grid_ok x ->
  (top x <= prow x -> prow x = bot x ->
     exists y, row_inc_scroll x 1 = Ok (y, 1) /\ grid_ok y /\ same_shape x y /\
       lines_up (gcols x) (live x) (live y) (top x) (bot x) 1) /\
  ((top x <= prow x < bot x) \/ ((prow x < top x \/ bot x < prow x) /\ prow x < grows x - 1) ->
     row_inc_scroll x 1 = Ok (with_prow x (prow x + 1), 0)) /\
  (bot x < prow x -> prow x = grows x - 1 -> row_inc_scroll x 1 = Ok (x, 0)).
Print Assumptions C08_LF.
Check C08_RI : forall x, grid_ok x ->
  (prow x = top x ->
     exists y, row_dec_scroll x 1 = Ok y /\ y = with_live x (live y) /\
       lines_down (gcols x) (live x) (live y) (top x) (bot x) 1 true) /\
  (prow x <> top x -> 0 < prow x -> row_dec_scroll x 1 = Ok (with_prow x (prow x - 1))).
Print Assumptions C08_RI.
Check C08_DCH : forall x n rw, grid_ok x -> get (live x) (prow x) = Some rw ->
  let cs := cells rw in let c := pcol x in let cols := gcols x in let k := N.min n (cols - c) in
  exists rw', delete_cells x n = Ok (with_live x (set_at (live x) (prow x) rw')) /\
    wrapped rw' = false /\ row_ok cols rw' /\
    (k = 0 -> cells rw' = cs) /\
    (1 <= k ->
       (forall j, j < c -> j + 1 <> c \/ fc cs c = false -> get (cells rw') j = get cs j) /\
       (fc cs c = true -> get (cells rw') (c - 1) = option_map clear_own (get cs (c - 1))) /\
       (forall j, c <= j -> j + k < cols -> j <> c \/ fc cs (c + k) = false -> get (cells rw') j = get cs (j + k)) /\
       (fc cs (c + k) = true -> get (cells rw') c = option_map clear_own (get cs (c + k))) /\
       (forall j, cols <= j + k -> j < cols -> get (cells rw') j = Some cell_new)).
Print Assumptions C08_DCH.
Check C08_ICH : forall x n rw, grid_ok x -> get (live x) (prow x) = Some rw -> pcol x < gcols x ->
  let cs := cells rw in let c := pcol x in let cols := gcols x in let k := N.min n (cols - c) in
  exists rw', insert_cells x n = Ok (with_live x (set_at (live x) (prow x) rw')) /\
    wrapped rw' = false /\ row_ok cols rw' /\
    (k = 0 -> cells rw' = cs) /\
    (1 <= k ->
       (forall j, j < c -> get (cells rw') j = get cs j) /\
       get (cells rw') c = Some (if fc cs c then cont_blank else cell_new) /\
       (forall j, c < j < c + k -> get (cells rw') j = Some cell_new) /\
       (forall j, c + k <= j < cols -> get (cells rw') j = option_map (ich_moved cs c k j) (get cs (j - k)))).
Print Assumptions C08_ICH.
Check C08_ICH_DCH_k0 : forall x n rw, grid_ok x -> get (live x) (prow x) = Some rw ->
  N.min n (gcols x - pcol x) = 0 ->
  insert_cells x n = Ok (with_live x (set_at (live x) (prow x) (row_wrap false rw))) /\
  delete_cells x n = Ok (with_live x (set_at (live x) (prow x) (row_wrap false rw))).
Print Assumptions C08_ICH_DCH_k0.
Check C08_ICH_DCH_pending_wrap : forall x n rw, grid_ok x -> get (live x) (prow x) = Some rw ->
  pcol x = gcols x ->
  insert_cells x n = Ok (with_live x (set_at (live x) (prow x) (row_wrap false rw))) /\
  delete_cells x n = Ok (with_live x (set_at (live x) (prow x) (row_wrap false rw))).
Print Assumptions C08_ICH_DCH_pending_wrap.
Check C08_ICH_DCH_frame : forall x n y, grid_ok x -> insert_cells x n = Ok y \/ delete_cells x n = Ok y ->
  y = with_live x (live y) /\ len (live y) = len (live x) /\
  prow y = prow x /\ pcol y = pcol x /\
  (forall j, j <> prow x -> get (live y) j = get (live x) j).
Print Assumptions C08_ICH_DCH_frame.
Check C08_RI_row0_above_region : forall x, grid_ok x -> prow x = 0 -> 0 < top x ->
  row_dec_scroll x 1 = scroll_down x 1.
Print Assumptions C08_RI_row0_above_region.
Check C08_scr_ops : forall s n,
  scr_il s n = on_cur s (fun x => insert_lines x n) /\
  scr_dl s n = on_cur s (fun x => delete_lines x n) /\
  scr_su s n = on_cur s (fun x => scroll_up x n) /\
  scr_sd s n = on_cur s (fun x => scroll_down x n) /\
  scr_ich s n = on_cur s (fun x => insert_cells x n) /\
  scr_dch s n = on_cur s (fun x => delete_cells x n) /\
  scr_lf s = on_cur s (fun x => do '(x1, _) <- row_inc_scroll x 1; Ok x1) /\
  scr_ri s = on_cur s (fun x => row_dec_scroll x 1).
Print Assumptions C08_scr_ops.
Check C08_on_cur : forall s f s', on_cur s f = Ok s' <-> exists y, f (cur s) = Ok y /\ s' = with_cur s y.
Print Assumptions C08_on_cur.
Check C08_with_cur : forall s y,
  cur (with_cur s y) = y /\ noncur (with_cur s y) = noncur s /\ altmode (with_cur s y) = altmode s /\
  pen (with_cur s y) = pen s /\ spen (with_cur s y) = spen s /\ keypad (with_cur s y) = keypad s /\
  appcur (with_cur s y) = appcur s /\ hide (with_cur s y) = hide s /\ paste (with_cur s y) = paste s /\
  mmode (with_cur s y) = mmode s /\ menc (with_cur s y) = menc s.
Print Assumptions C08_with_cur.
Check C08_cur_ok : forall s, screen_ok s -> grid_ok (cur s).
Print Assumptions C08_cur_ok.
Check C08_scr_il : forall s n, screen_ok s -> top (cur s) <= prow (cur s) <= bot (cur s) ->
  exists y, scr_il s n = Ok (with_cur s y) /\ y = with_live (cur s) (live y) /\
    lines_down (gcols (cur s)) (live (cur s)) (live y) (prow (cur s)) (bot (cur s))
               (N.min n (bot (cur s) + 1 - prow (cur s))) (0 <? n).
Print Assumptions C08_scr_il.
Check C08_scr_lf_bottom : forall s, screen_ok s ->
  top (cur s) <= prow (cur s) -> prow (cur s) = bot (cur s) ->
  exists y, scr_lf s = Ok (with_cur s y) /\ grid_ok y /\ same_shape (cur s) y /\
    lines_up (gcols (cur s)) (live (cur s)) (live y) (top (cur s)) (bot (cur s)) 1.
Print Assumptions C08_scr_lf_bottom.
