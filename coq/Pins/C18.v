(* Pins for C18: restated statements + assumptions. Generated once by tools/mkpins.py, then committed. *)
Require Import VT.Tac VT.ListN VT.Utf8 VT.Attrs VT.Cell VT.Row VT.Grid VT.Screen VT.Vte VT.Perform VT.Parser VT.Term.
Require Import VT.VteInv VT.VteChunk VT.ParseSer VT.ScreenInv VT.EventSpec VT.SeqSpec VT.EventSeq VT.Chunking.
Require Import VT.Props.C18.
Open Scope N_scope.
Check C18_exact : forall rz s a s' evs,
  perform rz s a = Ok (s', evs) -> evs = events_of rz s a.
Print Assumptions C18_exact.
Check C18_exact_all : forall rz acts s evs0 s' evs,
  perform_all rz s acts evs0 = Ok (s', evs) -> evs = evs0 ++ events_all rz s acts.
Print Assumptions C18_exact_all.
Check C18_process : forall p bs q,
  process p bs = Ok q ->
  log q = log p ++ events_all (resizing p) (scr p) (snd (advance (vt p) (delivered p bs))).
Print Assumptions C18_process.
Check C18_events_all_app : forall rz a1 a2 s s1 e1,
  perform_all rz s a1 [] = Ok (s1, e1) ->
  events_all rz s (a1 ++ a2) = events_all rz s a1 ++ events_all rz s1 a2.
Print Assumptions C18_events_all_app.
Check C18_table_depends_on_size_only : forall rz rz' s t a,
  grows (cur s) = grows (cur t) -> gcols (cur s) = gcols (cur t) ->
  events_of rz s a = events_of rz' t a.
Print Assumptions C18_table_depends_on_size_only.
Check C18_payload_bel : forall rz s, events_of rz s (AExecute 7) = [EBell].
Print Assumptions C18_payload_bel.
Check C18_payload_vbel : forall rz s ig, events_of rz s (AEsc [] ig 103) = [EVisualBell].
Print Assumptions C18_payload_vbel.
Check C18_payload_osc0 : forall rz s t bell, events_of rz s (AOsc [[48]; t] bell) = [EIconName t; ETitle t].
Print Assumptions C18_payload_osc0.
Check C18_payload_osc1 : forall rz s t bell, events_of rz s (AOsc [[49]; t] bell) = [EIconName t].
Print Assumptions C18_payload_osc1.
Check C18_payload_osc2 : forall rz s t bell, events_of rz s (AOsc [[50]; t] bell) = [ETitle t].
Print Assumptions C18_payload_osc2.
Check C18_payload_osc_other : forall rz s ps bell,
  (forall t, ps <> [[48]; t] /\ ps <> [[49]; t] /\ ps <> [[50]; t]) ->
  events_of rz s (AOsc ps bell) = [EUnhOsc ps].
Print Assumptions C18_payload_osc_other.
Check C18_payload_resize : forall rz s ig,
  (forall r c x y, events_of rz s (ACsi ([8] :: (r :: x) :: (c :: y) :: nil) [] ig 116) = [EResize r c]) /\
  (forall r x, events_of rz s (ACsi ([8] :: (r :: x) :: nil) [] ig 116) = [EResize r (gcols (cur s))]) /\
  events_of rz s (ACsi [[8]] [] ig 116) = [EResize (grows (cur s)) (gcols (cur s))].
Print Assumptions C18_payload_resize.
Check C18_payload_control : forall rz s b, b <> 7 -> ~ (8 <= b <= 15) ->
  events_of rz s (AExecute b) = [EUnhControl b].
Print Assumptions C18_payload_control.
Check C18_payload_c1 : forall rz s c, 128 <= c < 160 -> events_of rz s (APrint c) = [EUnhControl c].
Print Assumptions C18_payload_c1.
Check C18_payload_replacement : forall rz s, events_of rz s (APrint 65533) = [EUnhChar 65533].
Print Assumptions C18_payload_replacement.
Check C18_payload_esc_inter : forall rz s i r ig b,
  events_of rz s (AEsc (i :: r) ig b) = [EUnhEscape (Some i) (hd_error r) b].
Print Assumptions C18_payload_esc_inter.
Check C18_payload_csi_final : forall rz s ps ig c,
  mem c csi_plain = false -> c <> 74 -> c <> 75 -> c <> 109 -> c <> 116 ->
  events_of rz s (ACsi ps [] ig c) = [EUnhCsi None None ps c].
Print Assumptions C18_payload_csi_final.
Check C18_payload_csi_inter : forall rz s ps i r ig c,
  i <> 63 -> events_of rz s (ACsi ps (i :: r) ig c) = [EUnhCsi (Some i) (hd_error r) ps c].
Print Assumptions C18_payload_csi_inter.
Check C18_inert : forall s a,
  reported a = true ->
  perform false s a = Ok (s, events_of false s a) /\ events_of false s a <> [].
Print Assumptions C18_inert.
Check C18_inert_gen : forall rz s a,
  reported a = true -> resize_applies rz s a = false ->
  perform rz s a = Ok (s, events_of rz s a) /\ events_of rz s a <> [].
Print Assumptions C18_inert_gen.
Check C18_resize_applied : forall s a s' evs,
  resize_applies true s a = true -> perform true s a = Ok (s', evs) ->
  exists r c, evs = [EResize r c] /\ 1 <= r <= 512 /\ 1 <= c <= 512 /\ screen_set_size s r c = Ok s'.
Print Assumptions C18_resize_applied.
Check C18_ignored : forall rz s a, ignored a = true -> perform rz s a = Ok (s, []).
Print Assumptions C18_ignored.
Check C18_ignored_list : forall rz s,
  perform rz s (AExecute 14) = Ok (s, []) /\ perform rz s (AExecute 15) = Ok (s, []) /\
  (forall ps i ig c, perform rz s (AHook ps i ig c) = Ok (s, [])) /\
  (forall b, perform rz s (APut b) = Ok (s, [])) /\ perform rz s AUnhook = Ok (s, []).
Print Assumptions C18_ignored_list.
Check C18_silent_iff : forall rz s a, silent s a = true <-> events_of rz s a = [].
Print Assumptions C18_silent_iff.
Check C18_silent : forall rz s a s' evs,
  silent s a = true -> perform rz s a = Ok (s', evs) -> evs = [].
Print Assumptions C18_silent.
Check C18_classification : forall s a,
  (silent s a = true /\ reported a = false /\ partly_unknown s a = false) \/
  (silent s a = false /\ reported a = true /\ partly_unknown s a = false) \/
  (silent s a = false /\ reported a = false /\ partly_unknown s a = true).
Print Assumptions C18_classification.
Check C18_csi_vte : forall p mk G ins f,
  ground p -> csi_ok mk G ins f ->
  exists q, ground q /\
    advance p (csi_bytes mk G ins f) = (q, [ACsi (params_val G) (mk ++ ins) false f]).
Print Assumptions C18_csi_vte.
Check C18_csi_vte_stream : forall p mk G ins f rest,
  ground p -> csi_ok mk G ins f ->
  exists q, ground q /\
    VteChunk.run p (csi_bytes mk G ins f ++ rest) =
    cat [ACsi (params_val G) (mk ++ ins) false f] (VteChunk.run q rest).
Print Assumptions C18_csi_vte_stream.
Check C18_csi_numeric : forall p mk ps ins f,
  ground p -> marker_ok mk ->
  ps <> [] -> Forall (fun g => g <> []) ps -> Forall (Forall (fun x => x <= 65535)) ps ->
  len (concat ps) <= 32 -> Forall ibyte ins -> len mk + len ins <= 2 -> 64 <= f <= 126 ->
  exists q, ground q /\ advance p (csi_num_bytes mk ps ins f) = (q, [ACsi ps (mk ++ ins) false f]).
Print Assumptions C18_csi_numeric.
Check C18_esc_vte : forall p ins f,
  ground p -> esc_ok ins f ->
  advance p (esc_bytes ins f) = (K Ground ins [] [] 0, [AEsc ins false f]) /\
  ground (K Ground ins [] [] 0).
Print Assumptions C18_esc_vte.
Check C18_osc_bel_vte : forall p fs, ground p -> osc_ok fs ->
  advance p (osc_bytes_bel fs) = (p_init, [AOsc fs true]).
Print Assumptions C18_osc_bel_vte.
Check C18_osc_st_vte : forall p fs, ground p -> osc_ok fs ->
  advance p (osc_bytes_st fs) = (p_init, [AOsc fs false; AEsc [] false 92]).
Print Assumptions C18_osc_st_vte.
Check C18_osc_fits_small : forall fs used, used + len (concat fs) < 1024 -> osc_fits used fs.
Print Assumptions C18_osc_fits_small.
Check C18_char_vte : forall p c,
  ground p -> is_scalar c = true -> c <> 27 ->
  advance p (utf8_encode c) = (p, [ground_action c]).
Print Assumptions C18_char_vte.
Check C18_csi : forall p mk G ins f q,
  pend p = [] ->
  ground (vt p) -> csi_ok mk G ins f ->
  process p (csi_bytes mk G ins f) = Ok q ->
  ground (vt q) /\
  log q = log p ++ events_of (resizing p) (scr p) (ACsi (params_val G) (mk ++ ins) false f).
Print Assumptions C18_csi.
Check C18_esc : forall p ins f q,
  pend p = [] ->
  ground (vt p) -> esc_ok ins f ->
  process p (esc_bytes ins f) = Ok q ->
  ground (vt q) /\
  log q = log p ++ events_of (resizing p) (scr p) (AEsc ins false f).
Print Assumptions C18_esc.
Check C18_osc_bel : forall p fs,
  pend p = [] ->
  ground (vt p) -> osc_ok fs ->
  process p (osc_bytes_bel fs) =
  Ok (mkParser p_init (scr p) (log p ++ osc_events fs) (resizing p) []).
Print Assumptions C18_osc_bel.
Check C18_osc_st : forall p fs,
  pend p = [] ->
  ground (vt p) -> osc_ok fs ->
  process p (osc_bytes_st fs) =
  Ok (mkParser p_init (scr p) (log p ++ osc_events fs) (resizing p) []).
Print Assumptions C18_osc_st.
Check C18_char : forall p c q,
  pend p = [] ->
  ground (vt p) -> is_scalar c = true -> c <> 27 ->
  process p (utf8_encode c) = Ok q ->
  vt q = vt p /\ log q = log p ++ events_of (resizing p) (scr p) (ground_action c).
Print Assumptions C18_char.
Check C18_reported_sequence : forall p bs v' a q,
  resizing p = false ->
  advance (vt p) (delivered p bs) = (v', [a]) -> reported a = true -> process p bs = Ok q ->
  scr q = scr p /\ log q = log p ++ events_of false (scr p) a /\ events_of false (scr p) a <> [].
Print Assumptions C18_reported_sequence.
