(* Pins for C06: restated statements + assumptions. Generated once by tools/mkpins.py, then committed. *)
Require Import VT.Tac VT.ListN VT.Attrs VT.Cell VT.Row VT.Grid VT.Screen VT.Vte VT.Perform VT.Parser VT.RowInv VT.GridInv VT.ScreenInv VT.MoveSpec.
Require Import VT.Props.C06.
Open Scope N_scope.
Check C06_move : forall rz s m, screen_ok s -> mv_wf m ->
  perform rz s (action_of_mv m) =
  Ok (with_cur s (with_pos (cur s) (fst (move_spec (cst_of (cur s)) m)) (snd (move_spec (cst_of (cur s)) m))), []).
Print Assumptions C06_move.
Check C06_move_raw : forall rz s m, screen_ok s ->
  perform rz s (action_of_mv m) = Ok (smoved s (norm_mv m), []).
Print Assumptions C06_move_raw.
Check C06_move_csi : forall rz s ps ign c m, screen_ok s -> mv_of_csi ps c = Some m ->
  perform rz s (ACsi ps [] ign c) = Ok (smoved s m, []).
Print Assumptions C06_move_csi.
Check C06_move_exec : forall rz s b m, screen_ok s -> mv_of_exec b = Some m ->
  perform rz s (AExecute b) = Ok (smoved s m, []).
Print Assumptions C06_move_exec.
Check C06_canon1_zero : canon1 [[0]] 1 = 1.
Print Assumptions C06_canon1_zero.
Check C06_canon1_pos : forall n, 1 <= n -> canon1 [[n]] 1 = n.
Print Assumptions C06_canon1_pos.
Check C06_canon1_general : forall n subs rest d, canon1 ((n :: subs) :: rest) d = if n =? 0 then d else n.
Print Assumptions C06_canon1_general.
Check C06_canon1_none : forall d rest, canon1 [] d = d /\ canon1 ([] :: rest) d = d.
Print Assumptions C06_canon1_none.
Check C06_canon2_two : forall r c, canon2 [[r]; [c]] 1 1 = (if r =? 0 then 1 else r, if c =? 0 then 1 else c).
Print Assumptions C06_canon2_two.
Check C06_canon2_one : forall r, canon2 [[r]] 1 1 = (if r =? 0 then 1 else r, 1).
Print Assumptions C06_canon2_one.
Check C06_canon2_zero : canon2 [[0]; [0]] 1 1 = (1, 1).
Print Assumptions C06_canon2_zero.
Check C06_move_frame : forall rz s m s' evs, screen_ok s -> mv_wf m ->
  perform rz s (action_of_mv m) = Ok (s', evs) ->
  evs = [] /\
  live (cur s') = live (cur s) /\
  sb (cur s') = sb (cur s) /\ sb_off (cur s') = sb_off (cur s) /\
  pen s' = pen s /\ spen s' = spen s /\
  top (cur s') = top (cur s) /\ bot (cur s') = bot (cur s) /\
  origin (cur s') = origin (cur s) /\
  sprow (cur s') = sprow (cur s) /\ spcol (cur s') = spcol (cur s) /\ sorigin (cur s') = sorigin (cur s) /\
  grows (cur s') = grows (cur s) /\ gcols (cur s') = gcols (cur s) /\
  altmode s' = altmode s /\
  (if altmode s then g s' = g s else alt s' = alt s) /\
  (prow (cur s'), pcol (cur s')) = move_spec (cst_of (cur s)) m.
Print Assumptions C06_move_frame.
Check C06_cursor_only : forall s m, cursor_only s (smoved s m).
Print Assumptions C06_cursor_only.
Check C06_move_bounds : forall s m, screen_ok s -> mv_wf m ->
  let x := cur s in
  let '(r', c') := move_spec (cst_of x) m in
  r' < grows x /\ c' <= gcols x /\
  (c' < gcols x \/ (touches_col m = false /\ c' = pcol x /\ pcol x = gcols x)).
Print Assumptions C06_move_bounds.
Check C06_move_ok : forall s m, screen_ok s -> mv_wf m -> screen_ok (smoved s m).
Print Assumptions C06_move_ok.
Check C06_spec_bounds : forall c m, cst_ok c -> mv_wf m ->
  let '(r', k') := move_spec c m in
  r' < c_rows c /\ k' <= c_cols c /\
  (k' < c_cols c \/ (touches_col m = false /\ k' = c_col c /\ c_col c = c_cols c)).
Print Assumptions C06_spec_bounds.
Check C06_spec_region : forall c m n, cst_ok c -> in_region c = true ->
  (m = MCuu n \/ m = MCud n \/ m = MCnl n \/ m = MCpl n) ->
  c_top c <= fst (move_spec c m) <= c_bot c.
Print Assumptions C06_spec_region.
Check C06_spec_cup_origin : forall c r k, cst_ok c -> c_origin c = true ->
  c_top c <= fst (move_spec c (MCup r k)) <= c_bot c.
Print Assumptions C06_spec_cup_origin.
Check C06_spec_cnl_cpl : forall c n,
  move_spec c (MCnl n) = move_spec (cst_at c (move_spec c MCr)) (MCud n) /\
  move_spec c (MCpl n) = move_spec (cst_at c (move_spec c MCr)) (MCuu n).
Print Assumptions C06_spec_cnl_cpl.
Check C06_spec_tab : forall col,
  let t := (col / 8 + 1) * 8 in
  t mod 8 = 0 /\ col < t /\ (forall u, u mod 8 = 0 -> col < u -> t <= u).
Print Assumptions C06_spec_tab.
Check C06_spec_saturation : forall c m lim, cst_ok c -> c_rows c <= lim -> c_cols c <= lim ->
  let cl n := N.min n (lim + 1) in
  move_spec c m =
  move_spec c match m with
              | MBs => MBs | MHt => MHt | MCr => MCr
              | MCuu n => MCuu (cl n) | MCud n => MCud (cl n) | MCuf n => MCuf (cl n) | MCub n => MCub (cl n)
              | MCnl n => MCnl (cl n) | MCpl n => MCpl (cl n) | MCha n => MCha (cl n) | MVpa n => MVpa (cl n)
              | MCup r k => MCup (cl r) (cl k)
              end.
Print Assumptions C06_spec_saturation.
Check C06_decstbm : forall rz s t b, screen_ok s ->
  perform rz s (ACsi [[t]; [b]] [] false 114) =
  Ok (with_cur s (set_region (cur s) (decstbm_spec (grows (cur s)) t b)), []).
Print Assumptions C06_decstbm.
Check C06_decstbm_general : forall rz s ps ign, screen_ok s ->
  perform rz s (ACsi ps [] ign 114) =
  Ok (with_cur s (set_region (cur s)
        (decstbm_spec (grows (cur s)) (first_sub (hd_error ps)) (first_sub (hd_error (tl ps))))), []).
Print Assumptions C06_decstbm_general.
Check C06_decstbm_spec_unfolded : forall rows t b,
  decstbm_spec rows t b =
  let t' := (if t =? 0 then 1 else t) - 1 in
  let b' := N.min ((if b =? 0 then rows else b) - 1) (rows - 1) in
  if t' <? b' then (t', b') else (0, rows - 1).
Print Assumptions C06_decstbm_spec_unfolded.
Check C06_decstbm_spec_region : forall rows t b, 1 <= rows ->
  let '(t', b') := decstbm_spec rows t b in
  b' < rows /\ (t' < b' \/ (t' = 0 /\ b' = rows - 1)).
Print Assumptions C06_decstbm_spec_region.
Check C06_decstbm_frame : forall rz s t b s' evs, screen_ok s ->
  perform rz s (ACsi [[t]; [b]] [] false 114) = Ok (s', evs) ->
  let tb := decstbm_spec (grows (cur s)) t b in
  evs = [] /\
  top (cur s') = fst tb /\ bot (cur s') = snd tb /\
  prow (cur s') = fst tb /\ pcol (cur s') = 0 /\
  live (cur s') = live (cur s) /\ sb (cur s') = sb (cur s) /\ sb_off (cur s') = sb_off (cur s) /\
  pen s' = pen s /\ spen s' = spen s /\
  origin (cur s') = origin (cur s) /\
  sprow (cur s') = sprow (cur s) /\ spcol (cur s') = spcol (cur s) /\ sorigin (cur s') = sorigin (cur s) /\
  grows (cur s') = grows (cur s) /\ gcols (cur s') = gcols (cur s) /\
  altmode s' = altmode s /\
  (if altmode s then g s' = g s else alt s' = alt s) /\
  screen_ok s'.
Print Assumptions C06_decstbm_frame.
Check C06_decstbm_ok : forall s t b, screen_ok s ->
  screen_ok (with_cur s (set_region (cur s) (decstbm_spec (grows (cur s)) t b))).
Print Assumptions C06_decstbm_ok.
Check C06_origin_ok : forall s m, screen_ok s -> screen_ok (with_cur s (set_origin (cur s) m)).
Print Assumptions C06_origin_ok.
Check C06_origin_set : forall rz s ign, screen_ok s ->
  perform rz s (ACsi [[6]] [63] ign 104) =
  Ok (with_cur s (with_pos (with_origin (cur s) true) (top (cur s)) 0), []).
Print Assumptions C06_origin_set.
Check C06_origin_reset : forall rz s ign, screen_ok s ->
  perform rz s (ACsi [[6]] [63] ign 108) =
  Ok (with_cur s (with_pos (with_origin (cur s) false) 0 0), []).
Print Assumptions C06_origin_reset.
Check C06_origin_frame : forall rz s (m : bool) s' evs, screen_ok s ->
  perform rz s (ACsi [[6]] [63] false (if m then 104 else 108)) = Ok (s', evs) ->
  evs = [] /\ origin (cur s') = m /\
  prow (cur s') = (if m then top (cur s) else 0) /\ pcol (cur s') = 0 /\
  top (cur s') = top (cur s) /\ bot (cur s') = bot (cur s) /\
  live (cur s') = live (cur s) /\ sb (cur s') = sb (cur s) /\ sb_off (cur s') = sb_off (cur s) /\
  pen s' = pen s /\ spen s' = spen s /\
  sprow (cur s') = sprow (cur s) /\ spcol (cur s') = spcol (cur s) /\ sorigin (cur s') = sorigin (cur s) /\
  grows (cur s') = grows (cur s) /\ gcols (cur s') = gcols (cur s) /\
  altmode s' = altmode s /\
  (if altmode s then g s' = g s else alt s' = alt s) /\
  screen_ok s'.
Print Assumptions C06_origin_frame.
Check C06_example_ok : exists s, s510 = Ok s /\ screen_ok s /\
  grows (cur s) = 5 /\ gcols (cur s) = 10 /\ top (cur s) = 2 /\ bot (cur s) = 4 /\
  (prow (cur s), pcol (cur s)) = (2, 0).
Print Assumptions C06_example_ok.
