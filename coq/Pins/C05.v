(* Pins for C05: restated statements + assumptions. Generated once by tools/mkpins.py, then committed. *)
Require Import VT.Tac VT.ListN VT.Utf8 VT.Width VT.Attrs VT.Cell VT.Row VT.Grid VT.Screen VT.Vte VT.Perform VT.RowInv VT.GridInv VT.PrintSpec.
Require Import VT.Props.C05.
Open Scope N_scope.
Check C05_width_range : forall ch, wd ch = None \/ wd ch = Some 0 \/ wd ch = Some 1 \/ wd ch = Some 2.
Print Assumptions C05_width_range.
Check C05_width_none : forall ch, wd ch = None -> ch < 160 \/ ch = 6104.
Print Assumptions C05_width_none.
Check C05_control : forall x ch a, wd ch = None -> ch < 256 -> grid_text x ch a = Ok x.
Print Assumptions C05_control.
Check C05_too_wide : forall x ch a, gcols x < cwidth ch -> grid_text x ch a = Ok x.
Print Assumptions C05_too_wide.
Check C05_fits : forall x ch a, grid_ok x -> ~ (wd ch = None /\ ch < 256) ->
  1 <= cwidth ch -> pcol x + cwidth ch <= gcols x ->
  grid_text x ch a = Ok (place x ch (cwidth ch) a).
Print Assumptions C05_fits.
Check C05_place_cells : forall x ch w a r' c', grid_ok x -> (w = 1 \/ w = 2) -> pcol x + w <= gcols x ->
  drawing_cell (place x ch w a) r' c' =
  if r' =? prow x then
    (let cs := cells (lrow x (prow x)) in let c := pcol x in
     if c' =? c then Some (glyph ch a)
     else if (c' =? c + 1) && (1 <? w) then Some cont_cell
     else if (c' + 1 =? c) && fc cs c then Some (blank a)
     else if (c' =? c + 1) && fw cs c then Some (glyph 32 a)
     else if (c' =? c + 2) && (1 <? w) && fw cs (c + 1) then Some (blank a)
     else get cs c')
  else drawing_cell x r' c'.
Print Assumptions C05_place_cells.
Check C05_no_other_cell : forall x ch w a r' c', grid_ok x -> (w = 1 \/ w = 2) -> pcol x + w <= gcols x ->
  r' <> prow x \/
  ~ (let cs := cells (lrow x (prow x)) in let c := pcol x in
     c' = c \/ (c' = c + 1 /\ (w = 2 \/ fw cs c = true)) \/ (c' + 1 = c /\ fc cs c = true) \/
     (c' = c + 2 /\ w = 2 /\ fw cs (c + 1) = true)) ->
  drawing_cell (place x ch w a) r' c' = drawing_cell x r' c'.
Print Assumptions C05_no_other_cell.
Check C05_place_frame : forall x ch w a,
  let y := place x ch w a in
  grows y = grows x /\ gcols y = gcols x /\ prow y = prow x /\ pcol y = pcol x + w /\ sprow y = sprow x /\
  spcol y = spcol x /\ top y = top x /\ bot y = bot x /\ origin y = origin x /\ sorigin y = sorigin x /\
  sb y = sb x /\ sb_cap y = sb_cap x /\ sb_off y = sb_off x /\
  live y = set_at (live x) (prow x) (place_row (lrow x (prow x)) (pcol x) ch w a).
Print Assumptions C05_place_frame.
Check C05_glyph : forall ch a,
  ctext (glyph ch a) = [ch] /\ cwide (glyph ch a) = (1 <? cwidth ch) /\ ccont (glyph ch a) = false /\
  cattrs (glyph ch a) = a.
Print Assumptions C05_glyph.
Check C05_place_wrapped : forall x ch w a r', grid_ok x ->
  wrapped (lrow (place x ch w a) r') =
  if (r' =? prow x) && (1 <? w) && fw (cells (lrow x (prow x))) (pcol x + 1) && (pcol x + 2 =? gcols x - 1)
  then false else wrapped (lrow x r').
Print Assumptions C05_place_wrapped.
Check C05_place_ok : forall x ch w a, grid_ok x -> (w = 1 \/ w = 2) -> pcol x + w <= gcols x ->
  char_is_wide ch = (1 <? w) -> grid_ok (place x ch w a) /\ frame x (place x ch w a).
Print Assumptions C05_place_ok.
Check C05_wraps : forall x ch a, grid_ok x -> ~ (wd ch = None /\ ch < 256) ->
  1 <= cwidth ch -> cwidth ch <= gcols x -> gcols x < pcol x + cwidth ch ->
  grid_text x ch a = Ok (place (wrap_grid x (last_occupied x)) ch (cwidth ch) a).
Print Assumptions C05_wraps.
Check C05_wrap_grid_ok : forall x w b, grid_ok x -> w <= gcols x -> gcols x < pcol x + w ->
  grid_ok (wrap_grid x b) /\ frame x (wrap_grid x b).
Print Assumptions C05_wrap_grid_ok.
Check C05_col_wrap : forall x w b, grid_ok x -> w <= gcols x -> gcols x < pcol x + w ->
  col_wrap x w b = Ok (wrap_grid x b).
Print Assumptions C05_col_wrap.
Check C05_wrap_cursor : forall x b,
  pcol (wrap_grid x b) = 0 /\
  prow (wrap_grid x b) = (if in_scroll_region x && (prow x =? bot x) then prow x
                          else if prow x + 1 <? grows x then prow x + 1 else prow x).
Print Assumptions C05_wrap_cursor.
Check C05_wrap_cases : forall x, grid_ok x ->
  (in_scroll_region x = true /\ prow x = bot x) \/
  (in_scroll_region x && (prow x =? bot x) = false /\ prow x + 1 < grows x) \/
  (in_scroll_region x = false /\ prow x + 1 = grows x /\ bot x < prow x).
Print Assumptions C05_wrap_cases.
Check C05_wrap_next : forall x b, in_scroll_region x && (prow x =? bot x) = false -> prow x + 1 < grows x ->
  wrap_grid x b = with_pos (set_row x (prow x) (row_wrap b (lrow x (prow x)))) (prow x + 1) 0.
Print Assumptions C05_wrap_next.
Check C05_wrap_stay : forall x b, in_scroll_region x = false -> prow x + 1 = grows x ->
  wrap_grid x b = with_pos (set_row x (prow x) (row_wrap false (lrow x (prow x)))) (prow x) 0.
Print Assumptions C05_wrap_stay.
Check C05_wrap_scroll : forall x b, in_scroll_region x = true -> prow x = bot x ->
  wrap_grid x b =
  let y := scroll1 (with_pos x (prow x) 0) in
  if 1 <=? prow x then set_row y (prow x - 1) (row_wrap b (lrow x (prow x))) else y.
Print Assumptions C05_wrap_scroll.
Check C05_scroll_up_1 : forall x, grid_ok x -> scroll_up x 1 = Ok (scroll1 x).
Print Assumptions C05_scroll_up_1.
Check C05_wrap_scroll_rows : forall x b j, grid_ok x -> in_scroll_region x = true -> prow x = bot x -> j < grows x ->
  lrow (wrap_grid x b) j =
  if j <? top x then lrow x j
  else if j <? bot x then (if j + 1 =? bot x then row_wrap b (lrow x (bot x)) else lrow x (j + 1))
  else if j =? bot x then new_row x else lrow x j.
Print Assumptions C05_wrap_scroll_rows.
Check C05_wrap_left_line : forall x b, grid_ok x ->
  (in_scroll_region x && (prow x =? bot x) = false -> prow x + 1 < grows x ->
     lrow (wrap_grid x b) (prow x) = row_wrap b (lrow x (prow x))) /\
  (in_scroll_region x = false -> prow x + 1 = grows x ->
     lrow (wrap_grid x b) (prow x) = row_wrap false (lrow x (prow x))) /\
  (in_scroll_region x = true -> prow x = bot x -> 1 <= prow x ->
     lrow (wrap_grid x b) (prow x - 1) = row_wrap b (lrow x (prow x)) /\
     lrow (wrap_grid x b) (prow x) = new_row x) /\
  (in_scroll_region x = true -> prow x = bot x -> prow x = 0 ->
     wrap_grid x b = scroll1 (with_pos x 0 0) /\ lrow (wrap_grid x b) 0 = new_row x).
Print Assumptions C05_wrap_left_line.
Check C05_zero : forall x ch a, grid_ok x -> wd ch = Some 0 ->
  grid_text x ch a = Ok (match zero_target x with Some (r, c) => append_cell x r c ch | None => x end).
Print Assumptions C05_zero.
Check C05_zero_target : forall x,
  zero_target x =
  if 0 <? pcol x then
    Some (prow x, if ccont (lcell x (prow x) (pcol x - 1)) then pcol x - 1 - 1 else pcol x - 1)
  else if (0 <? prow x) && wrapped (lrow x (prow x - 1)) then
    Some (prow x - 1, if ccont (lcell x (prow x - 1) (gcols x - 1)) then gcols x - 1 - 1 else gcols x - 1)
  else None.
Print Assumptions C05_zero_target.
Check C05_append_cell : forall x r c ch r' c', grid_ok x -> r < grows x -> c < gcols x ->
  lcell (append_cell x r c ch) r' c' =
  if (r' =? r) && (c' =? c) then cell_append ch (lcell x r c) else lcell x r' c'.
Print Assumptions C05_append_cell.
Check C05_append_rest : forall x r c ch,
  let y := append_cell x r c ch in
  grows y = grows x /\ gcols y = gcols x /\ prow y = prow x /\ pcol y = pcol x /\ sprow y = sprow x /\
  spcol y = spcol x /\ top y = top x /\ bot y = bot x /\ origin y = origin x /\ sorigin y = sorigin x /\
  sb y = sb x /\ sb_cap y = sb_cap x /\ sb_off y = sb_off x /\
  (forall r', wrapped (lrow y r') = wrapped (lrow x r')).
Print Assumptions C05_append_rest.
Check C05_zero_target_bounds : forall x r c, grid_ok x -> zero_target x = Some (r, c) -> r < grows x /\ c < gcols x.
Print Assumptions C05_zero_target_bounds.
Check C05_cell_append : forall ch cl,
  (18 <= cell_len cl -> cell_append ch cl = cl) /\
  (ctext cl = [] -> cell_append ch cl = mkCell [32; ch] (cwide cl) (ccont cl) (cattrs cl)) /\
  (ctext cl <> [] -> cell_len cl < 18 ->
     cell_append ch cl = mkCell (ctext cl ++ [ch]) (cwide cl) (ccont cl) (cattrs cl)).
Print Assumptions C05_cell_append.
Check C05_cases : forall x ch a, grid_ok x ->
  (wd ch = None /\ ch < 256 /\ grid_text x ch a = Ok x) \/
  (~ (wd ch = None /\ ch < 256) /\ gcols x < cwidth ch /\ grid_text x ch a = Ok x) \/
  (wd ch = Some 0 /\ grid_text x ch a = Ok (zero_result x ch)) \/
  (~ (wd ch = None /\ ch < 256) /\ 1 <= cwidth ch <= 2 /\ pcol x + cwidth ch <= gcols x /\
     grid_text x ch a = Ok (place x ch (cwidth ch) a)) \/
  (~ (wd ch = None /\ ch < 256) /\ 1 <= cwidth ch <= 2 /\ cwidth ch <= gcols x /\ gcols x < pcol x + cwidth ch /\
     grid_text x ch a = Ok (place (wrap_grid x (last_occupied x)) ch (cwidth ch) a)).
Print Assumptions C05_cases.
Check C05_post : forall x ch a, grid_ok x -> post x (grid_text x ch a).
Print Assumptions C05_post.
Check C05_scr_text : forall s ch, scr_text s ch = do y <- grid_text (cur s) ch (pen s); Ok (with_cur s y).
Print Assumptions C05_scr_text.
Check C05_scr_text_pen : forall s ch s', scr_text s ch = Ok s' ->
  pen s' = pen s /\ spen s' = spen s /\ altmode s' = altmode s /\ grid_text (cur s) ch (pen s) = Ok (cur s') /\
  (if altmode s then g s' = g s else alt s' = alt s).
Print Assumptions C05_scr_text_pen.
Check C05_print_c1 : forall s c, 128 <= c < 160 -> do_print s c = do_execute s c.
Print Assumptions C05_print_c1.
Check C05_print_repl : forall s, do_print s 65533 = Ok (s, [EUnhChar 65533]).
Print Assumptions C05_print_repl.
Check C05_print_text : forall s c, ~ (128 <= c < 160) -> c <> 65533 ->
  do_print s c = do s1 <- scr_text s c; Ok (s1, []).
Print Assumptions C05_print_text.
