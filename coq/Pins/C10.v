(* Pins for C10: restated statements + assumptions. Generated once by tools/mkpins.py, then committed. *)
Require Import VT.Tac VT.Screen VT.Vte VT.Perform VT.Term VT.Emit VT.ModeSpec VT.ModeState VT.ModeLast.
Require Import VT.Props.C10.
Open Scope N_scope.
Check C10_all_modes : forall m : modes, In m all_modes.
Print Assumptions C10_all_modes.
Check C10_all_modes_240 : length all_modes = 240%nat /\ NoDup all_modes.
Print Assumptions C10_all_modes_240.
Check C10_independent : forall rz s a s' evs,
  perform rz s a = Ok (s', evs) -> modes_of s' = mode_effect a (modes_of s).
Print Assumptions C10_independent.
Check C10_independent_all : forall rz acts s evs0 s' evs,
  perform_all rz s acts evs0 = Ok (s', evs) -> modes_of s' = run_actions acts (modes_of s).
Print Assumptions C10_independent_all.
Check C10_most_recent : forall rz acts s evs0 s' evs,
  perform_all rz s acts evs0 = Ok (s', evs) ->
  keypad s' = last_write keypad_write acts (keypad s) /\
  appcur s' = last_write (dec_write 1 true) acts (appcur s) /\
  hide s' = last_write (dec_write 25 false) acts (hide s) /\
  paste s' = last_write (dec_write 2004 true) acts (paste s).
Print Assumptions C10_most_recent.
Check C10_mouse_enc_automata : forall a m,
  m_mouse (mode_effect a m) = mouse_step a (m_mouse m) /\ m_enc (mode_effect a m) = enc_step a (m_enc m).
Print Assumptions C10_mouse_enc_automata.
Check C10_fieldwise : forall a m m',
  (m_keypad m = m_keypad m' -> m_keypad (mode_effect a m) = m_keypad (mode_effect a m')) /\
  (m_appcur m = m_appcur m' -> m_appcur (mode_effect a m) = m_appcur (mode_effect a m')) /\
  (m_hide m = m_hide m' -> m_hide (mode_effect a m) = m_hide (mode_effect a m')) /\
  (m_paste m = m_paste m' -> m_paste (mode_effect a m) = m_paste (mode_effect a m')) /\
  (m_mouse m = m_mouse m' -> m_mouse (mode_effect a m) = m_mouse (mode_effect a m')) /\
  (m_enc m = m_enc m' -> m_enc (mode_effect a m) = m_enc (mode_effect a m')).
Print Assumptions C10_fieldwise.
Check C10_table : forall m, In m all_modes ->
  forall a f, In (a, f) elem_table -> mode_effect a m = f m.
Print Assumptions C10_table.
Check C10_reset_other_is_noop : forall m,
  (forall x, m_mouse m <> x -> clear_mouse x m = m) /\ (forall x, m_mouse m = x -> clear_mouse x m = set_mouse MNone m) /\
  (forall x, m_enc m <> x -> clear_enc x m = m) /\ (forall x, m_enc m = x -> clear_enc x m = set_enc EDefault m).
Print Assumptions C10_reset_other_is_noop.
Check C10_params_in_order : forall ps qs inter ign c m,
  mode_effect (ACsi (ps ++ qs) inter ign c) m =
  mode_effect (ACsi qs inter ign c) (mode_effect (ACsi ps inter ign c) m).
Print Assumptions C10_params_in_order.
Check C10_params_split : forall ps inter ign c m,
  mode_effect (ACsi ps inter ign c) m = fold_left (fun m p => mode_effect (ACsi [p] inter ign c) m) ps m.
Print Assumptions C10_params_split.
Check C10_tokens_in_order : forall priv ps qs f m, ps <> [] -> qs <> [] ->
  run_modes [TCsi priv (ps ++ qs) f] m = run_modes [TCsi priv ps f; TCsi priv qs f] m.
Print Assumptions C10_tokens_in_order.
Check C10_formatted : forall s,
  five (run_modes (input_mode_formatted_t s) m_fresh) = five (modes_of s).
Print Assumptions C10_formatted.
Check C10_formatted_gen : forall s m0, m_mouse m0 = MNone -> m_enc m0 = EDefault ->
  run_modes (input_mode_formatted_t s) m0 = set_hide (m_hide m0) (modes_of s).
Print Assumptions C10_formatted_gen.
Check C10_formatted_not_from_arbitrary_state : exists s m0,
  five (run_modes (input_mode_formatted_t s) m0) <> five (modes_of s).
Print Assumptions C10_formatted_not_from_arbitrary_state.
Check C10_diff : forall s p,
  five (run_modes (input_mode_diff_t s p) (modes_of p)) = five (modes_of s).
Print Assumptions C10_diff.
Check C10_diff_gen : forall s p,
  run_modes (input_mode_diff_t s p) (modes_of p) = set_hide (hide p) (modes_of s).
Print Assumptions C10_diff_gen.
Check C10_diff_empty : forall s p,
  input_mode_diff_t s p = [] <-> five (modes_of s) = five (modes_of p).
Print Assumptions C10_diff_empty.
Check C10_hide_token : forall b m, run_modes [t_hide_cursor b] m = set_hide b m.
Print Assumptions C10_hide_token.
Check C10_state_formatted_modes : forall s,
  run_modes (t_hide_cursor (hide s) :: input_mode_formatted_t s) m_fresh = modes_of s.
Print Assumptions C10_state_formatted_modes.
Check C10_state_diff_modes : forall s p,
  run_modes ((if Bool.eqb (hide s) (hide p) then [] else [t_hide_cursor (hide s)])
               ++ input_mode_diff_t s p) (modes_of p) = modes_of s.
Print Assumptions C10_state_diff_modes.
Check C10_contents_formatted : forall s ts m,
  contents_formatted_t s = Ok ts -> run_modes ts m = set_hide (hide s) m.
Print Assumptions C10_contents_formatted.
Check C10_contents_diff : forall s p ts,
  contents_diff_t s p = Ok ts -> run_modes ts (modes_of p) = set_hide (hide s) (modes_of p).
Print Assumptions C10_contents_diff.
Check C10_state_formatted : forall s ts,
  state_formatted_t s = Ok ts -> run_modes ts m_fresh = modes_of s.
Print Assumptions C10_state_formatted.
Check C10_state_diff : forall s p ts,
  state_diff_t s p = Ok ts -> run_modes ts (modes_of p) = modes_of s.
Print Assumptions C10_state_diff.
Check C10_mode_action_screen : forall a, In a mode_actions ->
  forall rz s, exists s', perform rz s a = Ok (s', []) /\
    g s' = g s /\ alt s' = alt s /\ pen s' = pen s /\ spen s' = spen s /\ altmode s' = altmode s.
Print Assumptions C10_mode_action_screen.
Check C10_emitted_tokens_are_mode_tokens : forall s p b,
  forallb is_mode_token (input_mode_formatted_t s) = true /\
  forallb is_mode_token (input_mode_diff_t s p) = true /\
  is_mode_token (t_hide_cursor b) = true /\
  (forall t, is_mode_token t = true -> incl (acts_of t) mode_actions).
Print Assumptions C10_emitted_tokens_are_mode_tokens.
Check C10_mode_tokens_screen : forall ts, forallb is_mode_token ts = true ->
  forall rz s evs0, exists s',
    perform_all rz s (flat_map acts_of ts) evs0 = Ok (s', evs0) /\
    same_rest s s' /\ modes_of s' = run_modes ts (modes_of s).
Print Assumptions C10_mode_tokens_screen.
Check C10_diff_replay : forall s p q rz evs0, modes_of q = modes_of p ->
  exists q', perform_all rz q (flat_map acts_of (input_mode_diff_t s p)) evs0 = Ok (q', evs0) /\
             same_rest q q' /\ five (modes_of q') = five (modes_of s) /\ hide q' = hide q.
Print Assumptions C10_diff_replay.
Check C10_formatted_replay : forall s q rz evs0, mmode q = MNone -> menc q = EDefault ->
  exists q', perform_all rz q (flat_map acts_of (input_mode_formatted_t s)) evs0 = Ok (q', evs0) /\
             same_rest q q' /\ five (modes_of q') = five (modes_of s) /\ hide q' = hide q.
Print Assumptions C10_formatted_replay.
