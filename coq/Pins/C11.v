(* Pins for C11: restated statements + assumptions. Generated once by tools/mkpins.py, then committed. *)
Require Import VT.Tac VT.ListN VT.Width VT.Attrs VT.Cell VT.Row VT.Grid VT.Screen VT.Vte VT.Perform VT.Parser VT.RowInv VT.GridInv VT.ScreenInv VT.SbFrame.
Require Import VT.Chunking.
Require Import VT.AltSpec VT.AltSaved VT.AltRound VT.AltExamples.
Require Import VT.Props.C11.
Open Scope N_scope.
Check C11_switch_free_meaning : forall rz a, switch_free rz a = false <->
  (exists ign, a = AEsc [] ign 99) \/
  (exists ps rest ign c, a = ACsi ps (63 :: rest) ign c /\ (c = 104 \/ c = 108) /\ (In [47] ps \/ In [1049] ps)) \/
  (rz = true /\ exists sub ps ign, a = ACsi ((8 :: sub) :: ps) [] ign 116).
Print Assumptions C11_switch_free_meaning.
Check C11_save_free_meaning : forall rz a, save_free rz a = true <->
  switch_free rz a = true /\ forall ign, a <> AEsc [] ign 55.
Print Assumptions C11_save_free_meaning.
Check C11_perform_DECSC : forall rz s i, perform rz s (DECSC i) = Ok (scr_save_cursor s, []).
Print Assumptions C11_perform_DECSC.
Check C11_perform_DECRC : forall rz s i, perform rz s (DECRC i) = Ok (scr_restore_cursor s, []).
Print Assumptions C11_perform_DECRC.
Check C11_save_only_saved : forall s,
  scr_save_cursor s =
  with_spen (with_cur s (with_saved (cur s) (prow (cur s)) (pcol (cur s)) (origin (cur s)))) (pen s).
Print Assumptions C11_save_only_saved.
Check C11_save_fields : forall s,
  saved (scr_save_cursor s) = (prow (cur s), pcol (cur s), origin (cur s), pen s) /\
  altmode (scr_save_cursor s) = altmode s.
Print Assumptions C11_save_fields.
Check C11_restore_fields : forall s,
  let s' := scr_restore_cursor s in
  (prow (cur s'), pcol (cur s'), origin (cur s'), pen s') = saved s /\ altmode s' = altmode s.
Print Assumptions C11_restore_fields.
Check C11_restore_after_save : forall s, scr_restore_cursor (scr_save_cursor s) = scr_save_cursor s.
Print Assumptions C11_restore_after_save.
Check C11_restore_after_save_fields : forall s,
  let s' := scr_restore_cursor (scr_save_cursor s) in
  prow (cur s') = prow (cur s) /\ pcol (cur s') = pcol (cur s) /\ origin (cur s') = origin (cur s) /\
  pen s' = pen s /\ altmode s' = altmode s /\
  live (cur s') = live (cur s) /\ top (cur s') = top (cur s) /\ bot (cur s') = bot (cur s) /\
  sb (cur s') = sb (cur s) /\ sb_off (cur s') = sb_off (cur s).
Print Assumptions C11_restore_after_save_fields.
Check C11_saved_untouched : forall rz s a s' evs, save_free rz a = true ->
  perform rz s a = Ok (s', evs) -> saved s' = saved s /\ altmode s' = altmode s.
Print Assumptions C11_saved_untouched.
Check C11_saved_untouched_all : forall rz acts s evs0 s' evs,
  Forall (fun a => save_free rz a = true) acts ->
  perform_all rz s acts evs0 = Ok (s', evs) -> saved s' = saved s /\ altmode s' = altmode s.
Print Assumptions C11_saved_untouched_all.
Check C11_decsc_acts_decrc : forall rz s acts i1 i2 evs0 s' evs,
  Forall (fun a => save_free rz a = true) acts ->
  perform_all rz s (DECSC i1 :: acts ++ [DECRC i2]) evs0 = Ok (s', evs) ->
  prow (cur s') = prow (cur s) /\ pcol (cur s') = pcol (cur s) /\ origin (cur s') = origin (cur s) /\
  pen s' = pen s /\ altmode s' = altmode s.
Print Assumptions C11_decsc_acts_decrc.
Check C11_alt_isolation : forall rz s a s' evs, altmode s = true -> switch_free rz a = true ->
  perform rz s a = Ok (s', evs) -> g s' = g s /\ altmode s' = true.
Print Assumptions C11_alt_isolation.
Check C11_alt_isolation_all : forall rz acts s evs0 s' evs, altmode s = true ->
  Forall (fun a => switch_free rz a = true) acts ->
  perform_all rz s acts evs0 = Ok (s', evs) -> g s' = g s /\ altmode s' = true.
Print Assumptions C11_alt_isolation_all.
Check C11_primary_isolation : forall rz s a s' evs, altmode s = false -> switch_free rz a = true ->
  perform rz s a = Ok (s', evs) -> alt s' = alt s /\ altmode s' = false.
Print Assumptions C11_primary_isolation.
Check C11_primary_isolation_all : forall rz acts s evs0 s' evs, altmode s = false ->
  Forall (fun a => switch_free rz a = true) acts ->
  perform_all rz s acts evs0 = Ok (s', evs) -> alt s' = alt s /\ altmode s' = false.
Print Assumptions C11_primary_isolation_all.
Check C11_process_alt_isolation : forall p bs q, altmode (scr p) = true ->
  Forall (fun a => switch_free (resizing p) a = true) (snd (advance (vt p) (delivered p bs))) ->
  process p bs = Ok q -> g (scr q) = g (scr p) /\ altmode (scr q) = true.
Print Assumptions C11_process_alt_isolation.
Check C11_process_primary_isolation : forall p bs q, altmode (scr p) = false ->
  Forall (fun a => switch_free (resizing p) a = true) (snd (advance (vt p) (delivered p bs))) ->
  process p bs = Ok q -> alt (scr q) = alt (scr p) /\ altmode (scr q) = false.
Print Assumptions C11_process_primary_isolation.
Check C11_set_scrollback_alt_isolation : forall s k, altmode s = true ->
  g (screen_set_scrollback s k) = g s /\ altmode (screen_set_scrollback s k) = true.
Print Assumptions C11_set_scrollback_alt_isolation.
Check C11_enter_47 : forall s, altmode s = false ->
  decset1 s [47] = Ok (mkScreen (with_sb (g s) (sb (g s)) 0) (allocate_rows (alt s)) (pen s) (spen s)
                                (keypad s) (appcur s) (hide s) true (paste s) (mmode s) (menc s), 0).
Print Assumptions C11_enter_47.
Check C11_enter_1049 : forall s, altmode s = false -> screen_ok s ->
  decset1 s [1049] =
  Ok (mkScreen (with_sb (save_cursor (g s)) (sb (g s)) 0) (blank_grid (grows (g s)) (gcols (g s)))
               (pen s) (pen s) (keypad s) (appcur s) (hide s) true (paste s) (mmode s) (menc s), 0).
Print Assumptions C11_enter_1049.
Check C11_enter_1049_raw : forall s, altmode s = false -> 1 <= grows (alt s) ->
  decset1 s [1049] =
  Ok (mkScreen (with_sb (save_cursor (g s)) (sb (g s)) 0) (allocate_rows (cleared (alt s)))
               (pen s) (pen s) (keypad s) (appcur s) (hide s) true (paste s) (mmode s) (menc s), 0).
Print Assumptions C11_enter_1049_raw.
Check C11_blank_grid : forall rows cols,
  blank_grid rows cols =
  mkGrid rows cols 0 0 0 0 (repeatN (row_new cols) rows) 0 (rows - 1) false false [] 0 0.
Print Assumptions C11_blank_grid.
Check C11_blank_grid_cell : forall rows cols r c, r < rows -> c < cols ->
  drawing_cell (blank_grid rows cols) r c = Some cell_new /\
  option_map wrapped (drawing_row (blank_grid rows cols) r) = Some false.
Print Assumptions C11_blank_grid_cell.
Check C11_leave_47 : forall s, decrst1 s [47] = Ok (with_altmode s false, 0).
Print Assumptions C11_leave_47.
Check C11_leave_1049 : forall s, decrst1 s [1049] =
  Ok (mkScreen (restore_cursor (g s)) (alt s) (spen s) (spen s) (keypad s) (appcur s) (hide s) false
               (paste s) (mmode s) (menc s), 0).
Print Assumptions C11_leave_1049.
Check C11_leave_1049_is_restore : forall s,
  decrst1 s [1049] = Ok (scr_restore_cursor (exit_alternate_grid s), 0).
Print Assumptions C11_leave_1049_is_restore.
Check C11_perform_ENTER : forall rz s n i s1, decset1 s [n] = Ok (s1, 0) -> perform rz s (ENTER n i) = Ok (s1, []).
Print Assumptions C11_perform_ENTER.
Check C11_perform_LEAVE : forall rz s n i s1, decrst1 s [n] = Ok (s1, 0) -> perform rz s (LEAVE n i) = Ok (s1, []).
Print Assumptions C11_perform_LEAVE.
Check C11_round_trip : forall rz s e x i1 i2 acts evs0 s3 evs,
  altmode s = false -> e = 47 \/ e = 1049 -> x = 47 \/ x = 1049 ->
  Forall (fun a => switch_free rz a = true) acts ->
  perform_all rz s (ENTER e i1 :: acts ++ [LEAVE x i2]) evs0 = Ok (s3, evs) ->
  g s3 = exit_g x (with_sb (entry_g e (g s)) (sb (g s)) 0) /\ altmode s3 = false.
Print Assumptions C11_round_trip.
Check C11_round_trip_common : forall rz s e x i1 i2 acts evs0 s3 evs,
  altmode s = false -> e = 47 \/ e = 1049 -> x = 47 \/ x = 1049 ->
  Forall (fun a => switch_free rz a = true) acts ->
  perform_all rz s (ENTER e i1 :: acts ++ [LEAVE x i2]) evs0 = Ok (s3, evs) ->
  altmode s3 = false /\
  grows (g s3) = grows (g s) /\ gcols (g s3) = gcols (g s) /\
  live (g s3) = live (g s) /\ top (g s3) = top (g s) /\ bot (g s3) = bot (g s) /\
  sb (g s3) = sb (g s) /\ sb_cap (g s3) = sb_cap (g s) /\ sb_off (g s3) = 0.
Print Assumptions C11_round_trip_common.
Check C11_round_trip_47_47 : forall rz s i1 i2 acts evs0 s3 evs,
  altmode s = false -> Forall (fun a => switch_free rz a = true) acts ->
  perform_all rz s (ENTER 47 i1 :: acts ++ [LEAVE 47 i2]) evs0 = Ok (s3, evs) ->
  g s3 = with_sb (g s) (sb (g s)) 0.
Print Assumptions C11_round_trip_47_47.
Check C11_round_trip_1049_47 : forall rz s i1 i2 acts evs0 s3 evs,
  altmode s = false -> Forall (fun a => switch_free rz a = true) acts ->
  perform_all rz s (ENTER 1049 i1 :: acts ++ [LEAVE 47 i2]) evs0 = Ok (s3, evs) ->
  g s3 = with_sb (save_cursor (g s)) (sb (g s)) 0 /\
  prow (g s3) = prow (g s) /\ pcol (g s3) = pcol (g s) /\ origin (g s3) = origin (g s) /\
  sprow (g s3) = prow (g s) /\ spcol (g s3) = pcol (g s) /\ sorigin (g s3) = origin (g s).
Print Assumptions C11_round_trip_1049_47.
Check C11_round_trip_47_1049 : forall rz s i1 i2 acts evs0 s3 evs,
  altmode s = false -> Forall (fun a => switch_free rz a = true) acts ->
  perform_all rz s (ENTER 47 i1 :: acts ++ [LEAVE 1049 i2]) evs0 = Ok (s3, evs) ->
  g s3 = restore_cursor (with_sb (g s) (sb (g s)) 0) /\
  prow (g s3) = sprow (g s) /\ pcol (g s3) = spcol (g s) /\ origin (g s3) = sorigin (g s) /\
  sprow (g s3) = sprow (g s) /\ spcol (g s3) = spcol (g s) /\ sorigin (g s3) = sorigin (g s).
Print Assumptions C11_round_trip_47_1049.
Check C11_round_trip_1049_1049 : forall rz s i1 i2 acts evs0 s3 evs,
  altmode s = false -> Forall (fun a => switch_free rz a = true) acts ->
  perform_all rz s (ENTER 1049 i1 :: acts ++ [LEAVE 1049 i2]) evs0 = Ok (s3, evs) ->
  g s3 = with_sb (save_cursor (g s)) (sb (g s)) 0 /\
  prow (g s3) = prow (g s) /\ pcol (g s3) = pcol (g s) /\ origin (g s3) = origin (g s) /\
  sprow (g s3) = prow (g s) /\ spcol (g s3) = pcol (g s) /\ sorigin (g s3) = origin (g s).
Print Assumptions C11_round_trip_1049_1049.
Check C11_round_trip_pen : forall rz s e i1 i2 acts evs0 s3 evs,
  altmode s = false -> e = 47 \/ e = 1049 ->
  Forall (fun a => save_free rz a = true) acts ->
  perform_all rz s (ENTER e i1 :: acts ++ [LEAVE 1049 i2]) evs0 = Ok (s3, evs) ->
  pen s3 = (if e =? 1049 then pen s else spen s).
Print Assumptions C11_round_trip_pen.
Check C11_round_trip_total : forall rz s e x i1 i2 acts evs0, screen_ok s ->
  exists s3 evs, perform_all rz s (ENTER e i1 :: acts ++ [LEAVE x i2]) evs0 = Ok (s3, evs) /\ screen_ok s3.
Print Assumptions C11_round_trip_total.
Check C11_round_trip_reachable : forall rows cols cap rz p0 ops p e x i1 i2 acts bs,
  1 <= rows <= MAXDIM -> 1 <= cols <= MAXDIM -> parser_new rows cols cap rz = Ok p0 ->
  Forall op_ok ops -> run p0 ops = Ok p ->
  altmode (scr p) = false -> e = 47 \/ e = 1049 -> x = 47 \/ x = 1049 ->
  snd (advance (vt p) (delivered p bs)) = ENTER e i1 :: acts ++ [LEAVE x i2] ->
  Forall (fun a => switch_free (resizing p) a = true) acts ->
  exists q, process p bs = Ok q /\ screen_ok (scr q) /\ altmode (scr q) = false /\
    g (scr q) = exit_g x (with_sb (entry_g e (g (scr p))) (sb (g (scr p))) 0).
Print Assumptions C11_round_trip_reachable.
Check C11_alt_nosb_new : forall rows cols cap rz p, parser_new rows cols cap rz = Ok p ->
  sb (alt (scr p)) = [] /\ sb_cap (alt (scr p)) = 0.
Print Assumptions C11_alt_nosb_new.
Check C11_alt_nosb_run : forall p ops q, run p ops = Ok q ->
  sb (alt (scr p)) = [] /\ sb_cap (alt (scr p)) = 0 -> sb (alt (scr q)) = [] /\ sb_cap (alt (scr q)) = 0.
Print Assumptions C11_alt_nosb_run.
Check C11_alt_does_not_record : forall rz s a s' e,
  perform rz s a = Ok (s', e) -> altmode s = true -> sb (g s') = sb (g s) \/ sb (g s') = [].
Print Assumptions C11_alt_does_not_record.
Check C11_decset_47_offset : forall s s' k, altmode s = false -> decset1 s [47] = Ok (s', k) ->
  sb_off (g s') = 0 /\ sb (g s') = sb (g s) /\ altmode s' = true.
Print Assumptions C11_decset_47_offset.
Check C11_decset_1049_offset : forall s s' k, altmode s = false -> decset1 s [1049] = Ok (s', k) ->
  sb_off (g s') = 0 /\ sb (g s') = sb (g s) /\ altmode s' = true.
Print Assumptions C11_decset_1049_offset.
