(* Pins for C15: restated statements + assumptions. Generated once by tools/mkpins.py, then committed. *)
Require Import VT.Tac VT.ListN VT.Utf8 VT.Width VT.Attrs VT.Cell VT.Row VT.Grid VT.Screen VT.Vte VT.Perform VT.Parser VT.Term VT.Emit.
Require Import VT.RowInv VT.GridInv VT.TextInv VT.ScreenInv VT.ParseSer VT.CellWf VT.WfInv VT.WrapInv VT.WrapInvScreen VT.SgrSpec VT.EmitSafe VT.ObsSpec.
Require Import VT.CellInv VT.Recv VT.RowPaint VT.Redraw VT.Cursor VT.C01Main VT.C15Main VT.CapInv VT.Idem VT.LastRow VT.C01Examples.
Require Import VT.Tac VT.ListN VT.Utf8 VT.Width VT.Attrs VT.Cell VT.Row VT.Grid VT.Screen VT.Vte VT.Perform VT.Term VT.Emit VT.RowInv VT.GridInv VT.TextInv VT.ScreenInv VT.ParseSer VT.CellWf VT.WfGrid VT.WfVte VT.WfInv VT.EraseSpec VT.SgrSpec VT.MoveSpec VT.PrintSpec VT.CellBytes VT.EmitSafe VT.WrapInv VT.WrapInvScreen VT.ObsSpec VT.Recv VT.RowPaint VT.Redraw VT.Cursor VT.C01Main VT.C15Main VT.DiffPaint VT.DiffGrid VT.DiffMain VT.DiffWindow.
Require Import VT.Tac VT.ListN VT.Utf8 VT.Width VT.Attrs VT.Cell VT.Row VT.Grid VT.Screen VT.Vte VT.Perform VT.Term VT.Emit VT.RowInv VT.GridInv VT.TextInv VT.ScreenInv VT.ParseSer VT.CellWf VT.WfGrid VT.WfVte VT.WfInv VT.EraseSpec VT.SgrSpec VT.MoveSpec VT.PrintSpec VT.CellBytes VT.EmitSafe VT.WrapInv VT.WrapInvScreen VT.ObsSpec VT.Recv VT.RowPaint VT.Redraw VT.Cursor VT.C01Main VT.C15Main VT.DiffPaint VT.DiffGrid VT.DiffMain VT.DiffWrap VT.DiffWindowK.
Require Import VT.Props.C15 VT.Props.C15diff VT.Props.C15diffK.
Open Scope N_scope.
Check C15_window_protocol_def : forall start i toks,
  window_protocol start i toks =
  match toks with
  | [] => []
  | ts :: rest => t_clear_attrs :: TCsi false [i + 1; start + 1] 72 :: ts ++ window_protocol start (i + 1) rest
  end.
Print Assumptions C15_window_protocol_def.
Check C15_full_protocol_def : forall S vr toks ctoks,
  full_protocol S vr toks ctoks =
  full_rows_protocol 0 false vr toks ++ t_clear_attrs :: ctoks ++ attributes_formatted_t S ++ input_mode_formatted_t S.
Print Assumptions C15_full_protocol_def.
Check C15_full_rows_protocol_def : forall i prevw vr toks,
  full_rows_protocol i prevw vr toks =
  match vr, toks with
  | rw :: vr', ts :: rest =>
      t_clear_attrs :: (if prevw then [] else [TCsi false [i + 1] 72]) ++ ts
        ++ full_rows_protocol (i + 1) (wrapped rw) vr' rest
  | _, _ => []
  end.
Print Assumptions C15_full_rows_protocol_def.
Check C15_window_row : forall R l i src start width ri0,
  cv R l i start -> srow_ok (gcols (g R)) src ->
  start < gcols (g R) -> 1 <= width -> start + width <= gcols (g R) ->
  fc (cells src) start = false -> fw (cells src) (start + width - 1) = false ->
  get l i = Some ri0 -> blank_from start (gcols (g R)) ri0 ->
  exists ts r' c' a' ri,
    row_formatted src start width i false None None = Ok (ts, (r', c'), a') /\
    plays (rcv R l i start dflt) ts (rcv R (set_at l i ri) r' c' a') /\
    cv R (set_at l i ri) r' c' /\ pen_ok a' /\
    wrapped ri = false /\
    (forall k, k < start -> get (cells ri) k = get (cells ri0) k) /\
    (forall k, start <= k < start + width -> get (cells ri) k = get (cells src) k) /\
    (exists ea, forall k, start + width <= k < gcols (g R) -> get (cells ri) k = Some (EraseSpec.blank ea)).
Print Assumptions C15_window_row.
Check C15_window : forall S R vr start width toks,
  source_ok S vr -> canvas R -> grows (g R) = grows (cur S) -> gcols (g R) = gcols (cur S) ->
  (forall i ri, get (live (g R)) i = Some ri -> blank_from start (gcols (g R)) ri) ->
  start < gcols (cur S) -> 1 <= width -> start + width <= gcols (cur S) ->
  (start =? 0) && (width =? gcols (cur S)) = false ->
  Forall (aligned start width) vr ->
  rows_formatted_t S start width = Ok toks ->
  exists R', play false R (window_protocol start 0 toks) = Ok (R', []) /\ canvas R' /\
    forall i, i < grows (cur S) -> exists ri src,
      get (live (g R')) i = Some ri /\ get vr i = Some src /\
      forall k, start <= k < start + width -> get (cells ri) k = get (cells src) k.
Print Assumptions C15_window.
Check C15_full : forall S R vr toks ctoks,
  source_ok S vr -> canvas R -> grows (g R) = grows (cur S) -> gcols (g R) = gcols (cur S) ->
  live (g R) = blank_rows (grows (g R)) (gcols (g R)) ->
  mmode R = MNone -> menc R = EDefault ->
  rows_formatted_t S 0 (gcols (cur S)) = Ok toks -> cursor_state_formatted_t S = Ok ctoks ->
  exists R', play false R (full_protocol S vr toks ctoks) = Ok (R', []) /\ canvas R' /\
             same_obs_minus S R' vr /\ same_modes S R'.
Print Assumptions C15_full.
Check C15_full_reachable_obs : forall rows cols cap rz ops p q cap' rz' r toks ctoks,
  1 <= rows <= MAXDIM -> 1 <= cols <= MAXDIM ->
  parser_new rows cols cap rz = Ok p -> Forall op_ok ops -> run p ops = Ok q ->
  sb_off (cur (scr q)) = 0 ->
  parser_new (grows (cur (scr q))) (gcols (cur (scr q))) cap' rz' = Ok r ->
  rows_formatted_t (scr q) 0 (gcols (cur (scr q))) = Ok toks -> cursor_state_formatted_t (scr q) = Ok ctoks ->
  exists R', play false (scr r) (full_protocol (scr q) (live (cur (scr q))) toks ctoks) = Ok (R', []) /\ canvas R' /\
             obs R' = obs (scr q).
Print Assumptions C15_full_reachable_obs.
Check C15diff_lalign_def : forall start r, lalign start r <-> fc (cells r) start = false.
Print Assumptions C15diff_lalign_def.
Check C15diff_win_done_def : forall start width ri src prev, win_done start width ri src prev <->
  (wrapped ri = false /\
   (forall k, k < start -> get (cells ri) k = get (cells prev) k) /\
   (forall k, start <= k < start + width -> get (cells ri) k = get (cells src) k)).
Print Assumptions C15diff_win_done_def.
Check C15diff_window_row : forall R l i src prev start width,
  cv R l i start -> srow_ok (gcols (g R)) src -> srow_ok (gcols (g R)) prev ->
  start < gcols (g R) -> 1 <= width -> start + width <= gcols (g R) ->
  lalign start src -> lalign start prev ->
  get l i = Some prev -> wrapped src = false -> wrapped prev = false ->
  exists ts r' c' a' ri,
    row_diff src prev start width i false false (i, start) dflt = Ok (ts, (r', c'), a') /\
    plays (rcv R l i start dflt) ts (rcv R (set_at l i ri) r' c' a') /\
    cv R (set_at l i ri) r' c' /\ pen_ok a' /\ win_done start width ri src prev.
Print Assumptions C15diff_window_row.
Check C15diff_window : forall S P R vr pvr start width toks,
  source_ok S vr -> source_ok P pvr -> unwrapped_rows vr -> unwrapped_rows pvr ->
  grows (cur S) = grows (cur P) -> gcols (cur S) = gcols (cur P) ->
  canvas R -> grows (g R) = grows (cur P) -> gcols (g R) = gcols (cur P) -> live (g R) = pvr ->
  start < gcols (cur S) -> 1 <= width -> start + width <= gcols (cur S) ->
  Forall (lalign start) vr -> Forall (lalign start) pvr ->
  rows_diff_t S P start width = Ok toks ->
  exists R', play false R (window_protocol start 0 toks) = Ok (R', []) /\ canvas R' /\
    grows (g R') = grows (g R) /\ gcols (g R') = gcols (g R) /\
    forall i, i < grows (cur S) -> exists ri src prev,
      get (live (g R')) i = Some ri /\ get vr i = Some src /\ get pvr i = Some prev /\
      win_done start width ri src prev.
Print Assumptions C15diff_window.
Check C15diff_full : forall S P R vr pvr toks,
  source_ok S vr -> source_ok P pvr -> unwrapped_rows vr -> unwrapped_rows pvr ->
  grows (cur S) = grows (cur P) -> gcols (cur S) = gcols (cur P) ->
  canvas R -> grows (g R) = grows (cur P) -> gcols (g R) = gcols (cur P) -> live (g R) = pvr ->
  rows_diff_t S P 0 (gcols (cur S)) = Ok toks ->
  exists R', play false R (window_protocol 0 0 toks) = Ok (R', []) /\ canvas R' /\ live (g R') = vr.
Print Assumptions C15diff_full.
Check C15diff_row_diff_window : forall R i src prev start l0 ri0 r0 c0 a0,
  i < grows (g R) -> srow_ok (gcols (g R)) src -> srow_ok (gcols (g R)) prev ->
  start < gcols (g R) -> fc (cells src) start = false -> fc (cells prev) start = false ->
  cv R l0 r0 c0 -> pen_ok a0 -> get l0 i = Some ri0 -> cells ri0 = cells prev -> wrapped ri0 = false ->
  forall width, 1 <= width -> start + width <= gcols (g R) -> wrapped src = wrapped prev ->
  exists ts r' c' a' ri,
    row_diff src prev start width i false false (r0, c0) a0 = Ok (ts, (r', c'), a') /\
    plays (rcv R l0 r0 c0 a0) ts (rcv R (set_at l0 i ri) r' c' a') /\
    cv R (set_at l0 i ri) r' c' /\ pen_ok a' /\
    dpainted src prev start ri (start + width).
Print Assumptions C15diff_row_diff_window.
Check C15diffK_full_done_def : forall ri src, full_done ri src <->
  (cells ri = cells src /\ (wrapped src = false -> wrapped ri = false)).
Print Assumptions C15diffK_full_done_def.
Check C15diffK_full : forall S P R vr pvr toks,
  source_ok S vr -> source_ok P pvr ->
  grows (cur S) = grows (cur P) -> gcols (cur S) = gcols (cur P) ->
  canvas R -> grows (g R) = grows (cur P) -> gcols (g R) = gcols (cur P) -> live (g R) = pvr ->
  rows_diff_t S P 0 (gcols (cur S)) = Ok toks ->
  exists R', play false R (window_protocol 0 0 toks) = Ok (R', []) /\ canvas R' /\
    grows (g R') = grows (g R) /\ gcols (g R') = gcols (g R) /\
    forall i, i < grows (cur S) -> exists ri src,
      get (live (g R')) i = Some ri /\ get vr i = Some src /\ full_done ri src.
Print Assumptions C15diffK_full.
