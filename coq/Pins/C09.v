(* Pins for C09: restated statements + assumptions. Generated once by tools/mkpins.py, then committed. *)
Require Import VT.Tac VT.Attrs VT.Screen VT.Vte VT.Perform VT.Term VT.Emit VT.SgrSpec.
Require Import VT.Props.C09.
Open Scope N_scope.
Check C09_single : forall n rest a, n <> 38 -> n <> 48 ->
  sgr1 [n] rest a =
  match sgr_single n a with Some a' => SCont a' rest 0 | None => SCont a rest 1 end.
Print Assumptions C09_single.
Check C09_known : forall n,
  sgr_known n = true <->
  (n = 0 \/ n = 1 \/ n = 2 \/ n = 3 \/ n = 4 \/ n = 7 \/ n = 22 \/ n = 23 \/ n = 24 \/ n = 27 \/
   30 <= n <= 37 \/ n = 39 \/ 40 <= n <= 47 \/ n = 49 \/ 90 <= n <= 97 \/ 100 <= n <= 107).
Print Assumptions C09_known.
Check C09_single_known : forall n a, sgr_single n a = None <-> sgr_known n = false.
Print Assumptions C09_single_known.
Check C09_intensity : forall rest a,
  (exists a', sgr1 [1] rest a = SCont a' rest 0 /\ bold a' = true /\ dim a' = false) /\
  (exists a', sgr1 [2] rest a = SCont a' rest 0 /\ bold a' = false /\ dim a' = true) /\
  (exists a', sgr1 [22] rest a = SCont a' rest 0 /\ bold a' = false /\ dim a' = false).
Print Assumptions C09_intensity.
Check C09_fg_256 : forall i rest a, i <= 255 ->
  sgr1 [38] ([5] :: [i] :: rest) a = SCont (set_fg (CIdx i) a) rest 0.
Print Assumptions C09_fg_256.
Check C09_bg_256 : forall i rest a, i <= 255 ->
  sgr1 [48] ([5] :: [i] :: rest) a = SCont (set_bg (CIdx i) a) rest 0.
Print Assumptions C09_bg_256.
Check C09_fg_rgb : forall r g b rest a, r <= 255 -> g <= 255 -> b <= 255 ->
  sgr1 [38] ([2] :: [r] :: [g] :: [b] :: rest) a = SCont (set_fg (CRgb r g b) a) rest 0.
Print Assumptions C09_fg_rgb.
Check C09_bg_rgb : forall r g b rest a, r <= 255 -> g <= 255 -> b <= 255 ->
  sgr1 [48] ([2] :: [r] :: [g] :: [b] :: rest) a = SCont (set_bg (CRgb r g b) a) rest 0.
Print Assumptions C09_bg_rgb.
Check C09_fg_256_colon : forall i rest a, i <= 255 ->
  sgr1 [38; 5; i] rest a = SCont (set_fg (CIdx i) a) rest 0.
Print Assumptions C09_fg_256_colon.
Check C09_bg_256_colon : forall i rest a, i <= 255 ->
  sgr1 [48; 5; i] rest a = SCont (set_bg (CIdx i) a) rest 0.
Print Assumptions C09_bg_256_colon.
Check C09_fg_rgb_colon : forall r g b rest a, r <= 255 -> g <= 255 -> b <= 255 ->
  sgr1 [38; 2; r; g; b] rest a = SCont (set_fg (CRgb r g b) a) rest 0.
Print Assumptions C09_fg_rgb_colon.
Check C09_bg_rgb_colon : forall r g b rest a, r <= 255 -> g <= 255 -> b <= 255 ->
  sgr1 [48; 2; r; g; b] rest a = SCont (set_bg (CRgb r g b) a) rest 0.
Print Assumptions C09_bg_rgb_colon.
Check C09_fg_256_range : forall i rest a, 255 < i -> sgr1 [38] ([5] :: [i] :: rest) a = SStop a 0.
Print Assumptions C09_fg_256_range.
Check C09_fg_rgb_range : forall r g b rest a, 255 < r \/ 255 < g \/ 255 < b ->
  sgr1 [38] ([2] :: [r] :: [g] :: [b] :: rest) a = SStop a 0.
Print Assumptions C09_fg_rgb_range.
Check C09_bg_256_range : forall i rest a, 255 < i -> sgr1 [48] ([5] :: [i] :: rest) a = SStop a 0.
Print Assumptions C09_bg_256_range.
Check C09_bg_rgb_range : forall r g b rest a, 255 < r \/ 255 < g \/ 255 < b ->
  sgr1 [48] ([2] :: [r] :: [g] :: [b] :: rest) a = SStop a 0.
Print Assumptions C09_bg_rgb_range.
Check C09_fg_truncated : forall a r g,
  sgr1 [38] [] a = SStop a 0 /\ sgr1 [38] [[5]] a = SStop a 0 /\ sgr1 [38] [[2]] a = SStop a 0 /\
  sgr1 [38] [[2]; [r]] a = SStop a 0 /\ sgr1 [38] [[2]; [r]; [g]] a = SStop a 0.
Print Assumptions C09_fg_truncated.
Check C09_bg_truncated : forall a r g,
  sgr1 [48] [] a = SStop a 0 /\ sgr1 [48] [[5]] a = SStop a 0 /\ sgr1 [48] [[2]] a = SStop a 0 /\
  sgr1 [48] [[2]; [r]] a = SStop a 0 /\ sgr1 [48] [[2]; [r]; [g]] a = SStop a 0.
Print Assumptions C09_bg_truncated.
Check C09_fg_bad_selector : forall x rest a, x <> 2 -> x <> 5 -> sgr1 [38] ([x] :: rest) a = SStop a 1.
Print Assumptions C09_fg_bad_selector.
Check C09_bg_bad_selector : forall x rest a, x <> 2 -> x <> 5 -> sgr1 [48] ([x] :: rest) a = SStop a 1.
Print Assumptions C09_bg_bad_selector.
Check C09_skip : forall p rest a, sgr1 p rest a = SCont a rest 1 ->
  forall fuel u, sgr_loop (S fuel) (p :: rest) a u = sgr_loop fuel rest a (u + 1).
Print Assumptions C09_skip.
Check C09_unknown_single : forall n rest a, n <> 38 -> n <> 48 -> sgr_known n = false ->
  sgr1 [n] rest a = SCont a rest 1.
Print Assumptions C09_unknown_single.
Check C09_unknown_first : forall p rest a, sgr1 p rest a = SCont a rest 1 -> rest <> [] ->
  sgr (p :: rest) a = (fst (sgr rest a), 1 + snd (sgr rest a)).
Print Assumptions C09_unknown_first.
Check C09_reset : forall a, sgr [] a = (dflt, 0) /\ sgr [[0]] a = (dflt, 0).
Print Assumptions C09_reset.
Check C09_app : forall ps qs a a' u, sgr_run ps a = Some (a', u) -> qs <> [] ->
  fst (sgr (ps ++ qs) a) = fst (sgr qs a').
Print Assumptions C09_app.
Check C09_app_full : forall ps qs a a' u, sgr_run ps a = Some (a', u) -> qs <> [] ->
  sgr (ps ++ qs) a = (fst (sgr qs a'), u + snd (sgr qs a')).
Print Assumptions C09_app_full.
Check C09_run_exact : forall ps a a' u, sgr_run ps a = Some (a', u) -> ps <> [] -> sgr ps a = (a', u).
Print Assumptions C09_run_exact.
Check C09_eval : forall ps a a' u, ps <> [] -> (sgr ps a = (a', u) <-> sgr_eval ps a 0 a' u).
Print Assumptions C09_eval.
Check C09_diff : forall a b, pen_ok a ->
  match sgr_diff a b with
  | None => a = b
  | Some ps => sgr (csi_params ps) b = (a, 0)
  end.
Print Assumptions C09_diff.
Check C09_diff_reset_iff : forall a b, sgr_diff a b = Some [] <-> (a = dflt /\ a <> b).
Print Assumptions C09_diff_reset_iff.
Check C09_diff_none_iff : forall a b, sgr_diff a b = None <-> a = b.
Print Assumptions C09_diff_none_iff.
Check C09_diff_perform : forall rz s a ps, pen_ok a -> sgr_diff a (pen s) = Some ps ->
  perform rz s (ACsi (csi_params ps) [] false 109) = Ok (with_pen s a, []).
Print Assumptions C09_diff_perform.
Check C09_attrs_eqb : forall a b, attrs_eqb a b = true <-> a = b.
Print Assumptions C09_attrs_eqb.
Check C09_attributes_formatted_tokens : forall s,
  attributes_formatted_t s = t_clear_attrs :: t_attrs_diff (pen s) dflt.
Print Assumptions C09_attributes_formatted_tokens.
Check C09_attributes_formatted : forall s, pen_ok (pen s) -> forall b,
  let a1 := fst (sgr (csi_params []) b) in
  match sgr_diff (pen s) dflt with
  | None => a1 = pen s
  | Some ps => fst (sgr (csi_params ps) a1) = pen s
  end.
Print Assumptions C09_attributes_formatted.
Check C09_pen_ok_dflt : pen_ok dflt.
Print Assumptions C09_pen_ok_dflt.
Check C09_pen_ok : forall ps a, pen_ok a -> pen_ok (fst (sgr ps a)).
Print Assumptions C09_pen_ok.
Check C09_pen_ok_scr : forall s ps, pen_ok (pen s) -> pen_ok (pen (fst (scr_sgr s ps))).
Print Assumptions C09_pen_ok_scr.
Check C09_sweep_256 : forall n, n <= 255 ->
  sgr1 [n] [] dflt = sweep_expect n dflt /\ sgr1 [n] [] sweep_pen = sweep_expect n sweep_pen.
Print Assumptions C09_sweep_256.
