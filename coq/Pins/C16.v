(* Pins for C16: restated statements + assumptions. Generated once by tools/mkpins.py, then committed. *)
Require Import VT.Tac VT.ListN VT.Cell VT.Row VT.Grid VT.Screen VT.Vte VT.Perform VT.Parser VT.RowInv VT.GridInv VT.TextInv VT.ScreenInv.
Require Import VT.Props.C16.
Open Scope N_scope.
Check C16_safe : forall s r c, screen_ok s -> 1 <= r <= MAXDIM -> 1 <= c <= MAXDIM ->
  exists s', screen_set_size s r c = Ok s' /\ screen_ok s' /\
    grows (g s') = r /\ gcols (g s') = c /\ grows (alt s') = r /\ gcols (alt s') = c.
Print Assumptions C16_safe.
Check C16_clamp : forall s, screen_ok s ->
  let x := cur s in
  prow x < grows x /\ pcol x <= gcols x /\ sprow x < grows x /\ spcol x <= gcols x /\
  bot x < grows x /\ (top x < bot x \/ (top x = 0 /\ bot x = grows x - 1)).
Print Assumptions C16_clamp.
Check C16_after : forall p r c ops, parser_ok p -> 1 <= r <= MAXDIM -> 1 <= c <= MAXDIM -> Forall op_ok ops ->
  exists q, run p (OpSetSize r c :: ops) = Ok q /\ parser_ok q.
Print Assumptions C16_after.
Check C16_callback : forall s ps, screen_ok s ->
  exists s' evs, perform true s (ACsi ps [] false 116) = Ok (s', evs) /\ screen_ok s'.
Print Assumptions C16_callback.
Check C16_history : forall s r c s', screen_ok s -> 1 <= r <= MAXDIM -> 1 <= c <= MAXDIM ->
  screen_set_size s r c = Ok s' -> sb (g s') = sb (g s) /\ sb_cap (g s') = sb_cap (g s).
Print Assumptions C16_history.
