(* Pins for C16: restated statements + assumptions. Generated once by tools/mkpins.py, then committed. *)
Require Import VT.Tac VT.ListN VT.Cell VT.Row VT.Grid VT.Screen VT.Vte VT.Perform VT.Parser VT.RowInv VT.GridInv VT.TextInv VT.ScreenInv.
Require Import VT.Tac VT.ListN VT.Attrs VT.Cell VT.Row VT.Grid VT.Screen VT.Vte VT.Perform VT.Parser VT.RowInv VT.GridInv VT.TextInv VT.ScreenInv VT.ResizeSpec.
Require Import VT.Props.C16 VT.Props.C16b.
Open Scope N_scope.
Check C16_safe : forall s r c, screen_ok s -> 1 <= r <= MAXDIM -> 1 <= c <= MAXDIM ->
  exists s', screen_set_size s r c = Ok s' /\ screen_ok s' /\
    grows (g s') = r /\ gcols (g s') = c /\ grows (alt s') = r /\ gcols (alt s') = c.
Print Assumptions C16_safe.
Check C16_clamp : forall s, screen_ok s ->
  let x := cur s in
  prow x < grows x /\ pcol x <= gcols x /\ sprow x < grows x /\ spcol x <= gcols x /\
  bot x < grows x /\ (top x < bot x \/ (top x = 0 /\ bot x = grows x - 1)).
Print Assumptions C16_clamp.
Check C16_after : forall p r c ops, parser_ok p -> 1 <= r <= MAXDIM -> 1 <= c <= MAXDIM -> Forall op_ok ops ->
  exists q, run p (OpSetSize r c :: ops) = Ok q /\ parser_ok q.
Print Assumptions C16_after.
Check C16_callback : forall s ps, screen_ok s ->
  exists s' evs, perform true s (ACsi ps [] false 116) = Ok (s', evs) /\ screen_ok s'.
Print Assumptions C16_callback.
Check C16_history : forall s r c s', screen_ok s -> 1 <= r <= MAXDIM -> 1 <= c <= MAXDIM ->
  screen_set_size s r c = Ok s' -> sb (g s') = sb (g s) /\ sb_cap (g s') = sb_cap (g s).
Print Assumptions C16_history.
Check C16_screen : forall s r c, screen_ok s -> 1 <= r <= MAXDIM -> 1 <= c <= MAXDIM ->
  exists g1 a1, grid_set_size (g s) r c = Ok g1 /\ grid_set_size (alt s) r c = Ok a1 /\
    grid_ok g1 /\ grid_ok a1 /\
    screen_set_size s r c =
    Ok (mkScreen g1 a1 (pen s) (spen s) (keypad s) (appcur s) (hide s) (altmode s) (paste s) (mmode s) (menc s)) /\
    screen_ok (mkScreen g1 a1 (pen s) (spen s) (keypad s) (appcur s) (hide s) (altmode s) (paste s) (mmode s) (menc s)).
Print Assumptions C16_screen.
Check C16_screen_only_grids : forall s r c s', screen_set_size s r c = Ok s' ->
  exists g1 a1, grid_set_size (g s) r c = Ok g1 /\ grid_set_size (alt s) r c = Ok a1 /\
    s' = mkScreen g1 a1 (pen s) (spen s) (keypad s) (appcur s) (hide s) (altmode s) (paste s) (mmode s) (menc s).
Print Assumptions C16_screen_only_grids.
Check C16_cell : forall x r c y i j, grid_ok0 x -> 1 <= r <= MAXDIM -> 1 <= c <= MAXDIM ->
  grid_set_size x r c = Ok y -> i < r -> j < c ->
  drawing_cell y i j =
  Some (match drawing_cell x i j with
        | Some cl => if (j =? c - 1) && cwide cl then mkCell [] false false (cattrs cl) else cl
        | None => cell_new
        end).
Print Assumptions C16_cell.
Check C16_cell_outside : forall x r c y i j, grid_ok0 x -> 1 <= r <= MAXDIM -> 1 <= c <= MAXDIM ->
  grid_set_size x r c = Ok y -> r <= i \/ c <= j -> drawing_cell y i j = None.
Print Assumptions C16_cell_outside.
Check C16_cell_intersection : forall x r c y i j, grid_ok x -> 1 <= r -> 1 <= c ->
  grid_set_size x r c = Ok y -> i < r -> j < c -> i < grows x -> j < gcols x ->
  exists cl, drawing_cell x i j = Some cl /\
    drawing_cell y i j = Some (if (j =? c - 1) && cwide cl then mkCell [] false false (cattrs cl) else cl).
Print Assumptions C16_cell_intersection.
Check C16_cell_exposed : forall x r c y i j, grid_ok x -> 1 <= r -> 1 <= c ->
  grid_set_size x r c = Ok y -> i < r -> j < c -> grows x <= i \/ gcols x <= j ->
  drawing_cell y i j = Some cell_new.
Print Assumptions C16_cell_exposed.
Check C16_cell_unallocated : forall x r c y i j, 1 <= grows x -> live x = [] -> 1 <= r -> 1 <= c ->
  grid_set_size x r c = Ok y -> i < r -> j < c -> drawing_cell y i j = Some cell_new.
Print Assumptions C16_cell_unallocated.
Check C16_cell_kept : forall x r c y i j, grid_ok x -> 1 <= r -> 1 <= c ->
  grid_set_size x r c = Ok y -> i < r -> j < c -> i < grows x -> j < gcols x ->
  j + 1 < c \/ gcols x <= c -> drawing_cell y i j = drawing_cell x i j.
Print Assumptions C16_cell_kept.
Check C16_cell_cut : forall x r c y i cl, grid_ok x -> 1 <= r -> 1 <= c ->
  grid_set_size x r c = Ok y -> i < r -> i < grows x ->
  drawing_cell x i (c - 1) = Some cl -> cwide cl = true ->
  c < gcols x /\
  (exists d, drawing_cell x i c = Some d /\ ccont d = true) /\
  drawing_cell y i (c - 1) = Some (mkCell [] false false (cattrs cl)).
Print Assumptions C16_cell_cut.
Check C16_cont_keeps_partner : forall x r c y i j cl, grid_ok x -> 1 <= r -> 1 <= c ->
  grid_set_size x r c = Ok y -> i < r -> j < c -> i < grows x ->
  drawing_cell x i j = Some cl -> ccont cl = true ->
  0 < j /\ drawing_cell y i j = Some cl /\
  exists w, cwide w = true /\ drawing_cell x i (j - 1) = Some w /\ drawing_cell y i (j - 1) = Some w.
Print Assumptions C16_cont_keeps_partner.
Check C16_unwrapped : forall x r c y, grid_ok0 x -> 1 <= r <= MAXDIM -> 1 <= c <= MAXDIM ->
  grid_set_size x r c = Ok y -> Forall (fun rw => wrapped rw = false) (live y).
Print Assumptions C16_unwrapped.
Check C16_clamps_exact : forall x r c y, grid_ok0 x -> 1 <= r <= MAXDIM -> 1 <= c <= MAXDIM ->
  grid_set_size x r c = Ok y ->
  let b1 := if bot x =? grows x - 1 then r - 1 else bot x in
  let b2 := if r <=? b1 then r - 1 else b1 in
  grows y = r /\ gcols y = c /\
  prow y = N.min (prow x) (r - 1) /\ pcol y = N.min (pcol x) (c - 1) /\
  sprow y = N.min (sprow x) (r - 1) /\ spcol y = N.min (spcol x) (c - 1) /\
  origin y = origin x /\ sorigin y = sorigin x /\
  bot y = b2 /\ top y = (if b2 <=? top x then 0 else top x).
Print Assumptions C16_clamps_exact.
Check C16_region_cases : forall x r c y, grid_ok0 x -> 1 <= r <= MAXDIM -> 1 <= c <= MAXDIM ->
  grid_set_size x r c = Ok y ->
  (bot x = grows x - 1 /\ top x < r - 1 /\ top y = top x /\ bot y = r - 1) \/
  (bot x <> grows x - 1 /\ bot x < r /\ top y = top x /\ bot y = bot x) \/
  (bot x <> grows x - 1 /\ r <= bot x /\ top x < r - 1 /\ top y = top x /\ bot y = r - 1) \/
  (r - 1 <= top x /\ (r <= bot x \/ bot x = grows x - 1) /\ top y = 0 /\ bot y = r - 1).
Print Assumptions C16_region_cases.
Check C16_region_full_stays_full : forall x r c y, grid_ok0 x -> 1 <= r <= MAXDIM -> 1 <= c <= MAXDIM ->
  grid_set_size x r c = Ok y -> top x = 0 -> bot x = grows x - 1 -> top y = 0 /\ bot y = r - 1.
Print Assumptions C16_region_full_stays_full.
Check C16_scrollback_untouched : forall x r c y, grid_set_size x r c = Ok y ->
  sb y = sb x /\ sb_off y = sb_off x /\ sb_cap y = sb_cap x.
Print Assumptions C16_scrollback_untouched.
Check C16_callback_exact : forall rz s sub1 rest ign,
  perform rz s (ACsi ((8 :: sub1) :: rest) [] ign 116) =
  let r := match rest with (x :: _) :: _ => x | _ => grows (cur s) end in
  let c := match rest with _ :: (x :: _) :: _ => x | _ => gcols (cur s) end in
  if rz && (1 <=? r) && (r <=? 512) && (1 <=? c) && (c <=? 512)
  then do s1 <- screen_set_size s r c; Ok (s1, [EResize r c])
  else Ok (s, [EResize r c]).
Print Assumptions C16_callback_exact.
Check C16_callback_iff : forall s sub1 rest ign s' evs, screen_ok s ->
  let r := req_rows s rest in let c := req_cols s rest in
  perform true s (ACsi ((8 :: sub1) :: rest) [] ign 116) = Ok (s', evs) ->
  evs = [EResize r c] /\
  (((1 <= r <= 512 /\ 1 <= c <= 512) /\ screen_set_size s r c = Ok s') \/
   (~ (1 <= r <= 512 /\ 1 <= c <= 512) /\ s' = s)).
Print Assumptions C16_callback_iff.
Check C16_callback_resizes : forall s sub1 rest ign, screen_ok s ->
  let r := req_rows s rest in let c := req_cols s rest in
  1 <= r <= 512 /\ 1 <= c <= 512 ->
  exists s1, screen_set_size s r c = Ok s1 /\ screen_ok s1 /\
             perform true s (ACsi ((8 :: sub1) :: rest) [] ign 116) = Ok (s1, [EResize r c]).
Print Assumptions C16_callback_resizes.
Check C16_callback_out_of_policy : forall s sub1 rest ign,
  let r := req_rows s rest in let c := req_cols s rest in
  ~ (1 <= r <= 512 /\ 1 <= c <= 512) ->
  perform true s (ACsi ((8 :: sub1) :: rest) [] ign 116) = Ok (s, [EResize r c]).
Print Assumptions C16_callback_out_of_policy.
Check C16_callback_not_resizing : forall s sub1 rest ign,
  perform false s (ACsi ((8 :: sub1) :: rest) [] ign 116) = Ok (s, [EResize (req_rows s rest) (req_cols s rest)]).
Print Assumptions C16_callback_not_resizing.
Check C16_window_op_other : forall rz s op sub1 rest ign, op <> 8 ->
  perform rz s (ACsi ((op :: sub1) :: rest) [] ign 116) = Ok (s, [EUnhCsi None None ((op :: sub1) :: rest) 116]).
Print Assumptions C16_window_op_other.
Check C16_screen_current_grid : forall s r c s', screen_set_size s r c = Ok s' ->
  altmode s' = altmode s /\ grid_set_size (cur s) r c = Ok (cur s').
Print Assumptions C16_screen_current_grid.
