(* Pins for C07: restated statements + assumptions. Generated once by tools/mkpins.py, then committed. *)
Require Import VT.Tac VT.ListN VT.Attrs VT.Cell VT.Row VT.Grid VT.Screen VT.Vte VT.Perform VT.Parser VT.RowInv VT.GridInv VT.ScreenInv VT.EraseSpec.
Require Import VT.Props.C07.
Open Scope N_scope.
Check C07_row : forall cols rw a lo hi,
  row_ok cols rw -> cols <= 65535 -> lo <= hi -> hi <= cols ->
  exists rw', for_range (N.to_nat (hi - lo)) lo (fun col r => row_erase r col a) rw = Ok rw' /\
    row_ok cols rw' /\
    (forall c, get (cells rw') c =
       if (lo <=? c) && (c <? hi) then Some (mkCell [] false false a)
       else if ((lo <? hi) && (c + 1 =? lo) && fc (cells rw) lo) || ((lo <? hi) && (c =? hi) && fw (cells rw) (hi - 1))
            then option_map clear_own (get (cells rw) c)
       else get (cells rw) c) /\
    wrapped rw' = if blanked (cells rw) lo hi (cols - 1) then false else wrapped rw.
Print Assumptions C07_row.
Check C07_row_wrap_condition : forall cols cs lo hi,
  len cs = cols -> cells_ok cs -> lo <= hi -> hi <= cols -> 1 <= cols ->
  blanked cs lo hi (cols - 1) = (lo <? hi) && ((hi =? cols) || ((hi =? cols - 1) && fw cs (cols - 2))).
Print Assumptions C07_row_wrap_condition.
Check C07_row_wrap_model : forall cols cs lo hi,
  len cs = cols -> cells_ok cs -> lo <= hi -> hi <= cols -> 1 <= cols ->
  (blanked cs lo hi (cols - 1) = true <-> exists i, lo <= i < hi /\ i = cols - (if fw cs i then 2 else 1)).
Print Assumptions C07_row_wrap_model.
Check C07_grid : forall op x a, grid_ok x ->
  exists rows', erase_grid op x a = Ok (with_live x rows') /\ erase_post op a x rows'.
Print Assumptions C07_grid.
Check C07_grid_unique : forall op a x l1 l2, erase_post op a x l1 -> erase_post op a x l2 -> l1 = l2.
Print Assumptions C07_grid_unique.
Check C07_cells : forall op a x rows', grid_ok x -> erase_post op a x rows' ->
  forall r c, drawing_cell (with_live x rows') r c =
    if in_range op (gcols x) (prow x) (pcol x) r c
    then (if (r <? grows x) && (c <? gcols x) then Some (blank a) else None)
    else if cut_half op x r c then option_map clear_own (drawing_cell x r c)
    else drawing_cell x r c.
Print Assumptions C07_cells.
Check C07_wrap : forall op a x rows', grid_ok x -> erase_post op a x rows' ->
  forall r, option_map wrapped (get rows' r) =
    option_map (fun rw => if in_range op (gcols x) (prow x) (pcol x) r (gcols x - 1) || cut_half op x r (gcols x - 1)
                          then false else wrapped rw) (get (live x) r).
Print Assumptions C07_wrap.
Check C07_rows_untouched : forall op a x rows', erase_post op a x rows' ->
  forall r, r <> prow x -> whole_row op (prow x) r = false -> get rows' r = get (live x) r.
Print Assumptions C07_rows_untouched.
Check C07_rows_cleared : forall op a x rows', erase_post op a x rows' ->
  forall r, r <> prow x -> whole_row op (prow x) r = true -> get rows' r = option_map (row_clear a) (get (live x) r).
Print Assumptions C07_rows_cleared.
Check C07_screen : forall op s, screen_ok s ->
  exists rows', scr_erase op s = Ok (with_cur s (with_live (cur s) rows'), 0) /\
                erase_post op (pen s) (cur s) rows' /\
                screen_ok (with_cur s (with_live (cur s) rows')).
Print Assumptions C07_screen.
Check C07_perform_ed_el : forall rz s ps inter ig c op,
  screen_ok s -> erase_inter inter -> csi_erase_op c ps = Some op ->
  exists rows', perform rz s (ACsi ps inter ig c) = Ok (with_cur s (with_live (cur s) rows'), []) /\
                erase_post op (pen s) (cur s) rows'.
Print Assumptions C07_perform_ed_el.
Check C07_perform_ech : forall rz s ps ig, screen_ok s ->
  exists rows', perform rz s (ACsi ps [] ig 88) = Ok (with_cur s (with_live (cur s) rows'), []) /\
                erase_post (ECH (canon1 ps 1)) (pen s) (cur s) rows'.
Print Assumptions C07_perform_ech.
Check C07_unknown_mode : forall rz s ps inter ig c,
  erase_inter inter -> c = 74 \/ c = 75 -> 2 < canon1 ps 0 ->
  perform rz s (ACsi ps inter ig c) = Ok (s, [EUnhCsi (nth_error inter 0) (nth_error inter 1) ps c]).
Print Assumptions C07_unknown_mode.
Check C07_unknown_mode_scr : forall s m, 2 < m -> scr_ed s m = Ok (s, 1) /\ scr_el s m = Ok (s, 1).
Print Assumptions C07_unknown_mode_scr.
Check C07_dec_selective : forall rz s ps rest ig ig' c, c = 74 \/ c = 75 ->
  res_map (fun r => (fst r, map forget_inter (snd r))) (perform rz s (ACsi ps (63 :: rest) ig c)) =
  perform rz s (ACsi ps [] ig' c).
Print Assumptions C07_dec_selective.
Check C07_ech_clipped : forall x n a, grid_ok x -> gcols x <= pcol x + n ->
  erase_cells x n a = erase_row_forward x a.
Print Assumptions C07_ech_clipped.
