(* Pins for C01: restated statements + assumptions. Generated once by tools/mkpins.py, then committed. *)
Require Import VT.Tac VT.ListN VT.Utf8 VT.Width VT.Attrs VT.Cell VT.Row VT.Grid VT.Screen VT.Vte VT.Perform VT.Parser VT.Term VT.Emit.
Require Import VT.RowInv VT.GridInv VT.TextInv VT.ScreenInv VT.ParseSer VT.CellWf VT.WfInv VT.WrapInv VT.WrapInvScreen VT.SgrSpec VT.EmitSafe VT.ObsSpec.
Require Import VT.AttrsInv VT.EmitTokens VT.CellInv VT.Recv VT.RowPaint VT.Redraw VT.Cursor VT.C01Main VT.CapInv VT.Idem VT.LastRow VT.C01Examples VT.Bytes.
Require Import VT.Tac VT.ListN VT.Utf8 VT.Width VT.Attrs VT.Cell VT.Row VT.Grid VT.Screen VT.Vte VT.Perform VT.Parser.
Require Import VT.RowInv VT.GridInv VT.TextInv VT.ScreenInv VT.CellWf VT.WfGrid VT.WfVte VT.WfInv VT.WrapInv VT.WrapInvScreen.
Require Import VT.Tac VT.ListN VT.Attrs VT.Cell VT.Row VT.Grid VT.Screen VT.Vte VT.Perform VT.Parser VT.Term VT.Emit.
Require Import VT.GridInv VT.ScreenInv VT.ParseSer VT.CellWf VT.WfInv VT.SgrSpec VT.EmitSafe VT.AttrsInv VT.EmitTokens.
Require Import VT.Props.C01 VT.Props.C01wrap VT.Props.C01tok.
Open Scope N_scope.
Check C01_play_def : forall rz R ts, play rz R ts = perform_all rz R (flat_map acts_of ts) [].
Print Assumptions C01_play_def.
Check C01_canvas_def : forall R, canvas R <->
  (screen_ok R /\ screen_wf R /\ altmode R = false /\ top (g R) = 0 /\ bot (g R) = grows (g R) - 1 /\
   origin (g R) = false /\ sb_off (g R) = 0).
Print Assumptions C01_canvas_def.
Check C01_cell_cap_def : forall c, cell_cap c <->
  (forall p z q, ctext c = p ++ z :: q -> p <> [] -> text_len p < 18).
Print Assumptions C01_cell_cap_def.
Check C01_print_cell : forall R l r j a rw c, cv R l r j -> get l r = Some rw ->
  cell_wf c -> cell_cap c -> has_contents c = true ->
  j + adv_n c <= gcols (g R) -> slot_ok (cells rw) j (cwide c) ->
  plays (rcv R l r j a) [TChars (ctext c)] (rcv R (set_at l r (put_cell rw j c a)) r (j + adv_n c) a).
Print Assumptions C01_print_cell.
Check C01_clear : forall R h, canvas R ->
  plays R (t_hide_cursor h :: t_clear_attrs :: t_clear_screen)
        (rcv (with_hide R h) (blank_rows (grows (g R)) (gcols (g R))) 0 0 dflt) /\
  cv (with_hide R h) (blank_rows (grows (g R)) (gcols (g R))) 0 0.
Print Assumptions C01_clear.
Check C01_row : forall R i src wrapping start l0 ri0 rprev r0 c0 a0,
  i < grows (g R) -> srow_ok (gcols (g R)) src -> start < gcols (g R) -> fc (cells src) start = false ->
  cv R l0 r0 c0 -> pen_ok a0 -> get l0 i = Some ri0 ->
  (forall k, start <= k < gcols (g R) -> get (cells ri0) k = Some cell_new) -> wrapped ri0 = false ->
  (wrapping = true ->
     start = 0 /\ r0 + 1 = i /\ c0 = gcols (g R) /\ get l0 r0 = Some rprev /\
     exists lc, get (cells rprev) (gcols (g R) - 1) = Some lc /\ has_contents lc || ccont lc = true) ->
  forall width, 1 <= width -> start + width <= gcols (g R) ->
  exists ts r' c' a' ri,
    row_formatted src start width i wrapping (Some (r0, c0)) (Some a0) = Ok (ts, (r', c'), a') /\
    plays (rcv R l0 r0 c0 a0) ts (rcv R (set_at (Lfin i wrapping l0 rprev) i ri) r' c' a') /\
    cv R (set_at (Lfin i wrapping l0 rprev) i ri) r' c' /\ pen_ok a' /\
    painted_row R src start ri0 ri (if fc (cells src) (start + width) then start + width + 1 else start + width) /\
    (wrapping = true -> r' = i) /\
    (occ src (start + width) = true ->
       r' = i /\ c' = (if fc (cells src) (start + width) then start + width + 1 else start + width)).
Print Assumptions C01_row.
Check C01_rows : forall R vr, canvas R -> vrows_ok (gcols (g R)) vr -> len vr = grows (g R) ->
  exists ts r' c' a' l',
    rows_formatted_loop (gcols (g R)) vr 0 false (0, 0) dflt [] = Ok (ts, (r', c'), a') /\
    plays (rcv R (blank_rows (grows (g R)) (gcols (g R))) 0 0 dflt) ts (rcv R l' r' c' a') /\
    cv R l' r' c' /\ pen_ok a' /\ Jinv R vr (grows (g R)) l' r' c'.
Print Assumptions C01_rows.
Check C01_cursor : forall R l r c a x vr,
  cv R l r c -> pen_ok a -> rows_agree l vr (grows (g R)) ->
  vrows_ok (gcols (g R)) vr -> len vr = grows (g R) ->
  visible_rows x = Ok vr -> gcols x = gcols (g R) -> prow x < grows (g R) -> pcol x <= gcols (g R) ->
  exists toks R2,
    cursor_position_formatted x (Some (r, c)) (Some a) = Ok toks /\
    plays (rcv R l r c a) toks (rcv R2 l (prow x) (pcol x) a) /\
    cv R2 l (prow x) (pcol x) /\ same_base R R2.
Print Assumptions C01_cursor.
Check C01_dirty : forall S R vr ts,
  source_ok S vr -> canvas R -> grows (g R) = grows (cur S) -> gcols (g R) = gcols (cur S) ->
  contents_formatted_t S = Ok ts ->
  exists R', play false R ts = Ok (R', []) /\ canvas R' /\ same_obs_minus S R' vr /\
             keypad R' = keypad R /\ appcur R' = appcur R /\ paste R' = paste R /\
             mmode R' = mmode R /\ menc R' = menc R.
Print Assumptions C01_dirty.
Check C01_fresh : forall S R vr ts,
  source_ok S vr -> canvas R -> grows (g R) = grows (cur S) -> gcols (g R) = gcols (cur S) ->
  mmode R = MNone -> menc R = EDefault ->
  state_formatted_t S = Ok ts ->
  exists R', play false R ts = Ok (R', []) /\ canvas R' /\ same_obs_minus S R' vr /\ same_modes S R'.
Print Assumptions C01_fresh.
Check C01_idem : forall S R ts,
  source_ok S (live (cur S)) -> sb_off (cur S) = 0 ->
  (forall src, get (live (cur S)) (grows (cur S) - 1) = Some src -> wrapped src = false) ->
  canvas R -> grows (g R) = grows (cur S) -> gcols (g R) = gcols (cur S) ->
  mmode R = MNone -> menc R = EDefault ->
  state_formatted_t S = Ok ts ->
  exists R', play false R ts = Ok (R', []) /\ canvas R' /\ obs R' = obs S /\ state_formatted_t R' = Ok ts.
Print Assumptions C01_idem.
Check C01_source_ok : forall S vr,
  screen_ok S -> screen_wf S -> screen_wrapinv S -> pen_ok (pen S) ->
  visible_rows (cur S) = Ok vr -> rows_width (gcols (cur S)) vr -> rows_cap vr -> rows_attrs_ok vr ->
  source_ok S vr.
Print Assumptions C01_source_ok.
Check C01_idem_strong : forall S R vr ts,
  source_ok S vr -> canvas R -> grows (g R) = grows (cur S) -> gcols (g R) = gcols (cur S) ->
  mmode R = MNone -> menc R = EDefault ->
  state_formatted_t S = Ok ts ->
  exists R', play false R ts = Ok (R', []) /\ canvas R' /\ state_formatted_t R' = Ok ts.
Print Assumptions C01_idem_strong.
Check C01_cap_invariant : forall rows cols cap rz p ops q,
  parser_new rows cols cap rz = Ok p -> run p ops = Ok q -> screen_cap (scr q).
Print Assumptions C01_cap_invariant.
Check C01_attrs_invariant : forall rows cols cap rz p ops q,
  parser_new rows cols cap rz = Ok p -> run p ops = Ok q -> screen_attrs_ok (scr q).
Print Assumptions C01_attrs_invariant.
Check C01_cap_needed :
  cell_wf cex_cell /\ ~ cell_cap cex_cell /\
  fold_left (fun d z => cell_append z d) (repeat 768 9) (cell_set 128512 dflt cell_new) <> cex_cell.
Print Assumptions C01_cap_needed.
Check C01_reachable_source_ok : forall rows cols cap rz ops p q,
  1 <= rows <= MAXDIM -> 1 <= cols <= MAXDIM ->
  parser_new rows cols cap rz = Ok p -> Forall op_ok ops -> run p ops = Ok q ->
  sb_off (cur (scr q)) = 0 -> source_ok (scr q) (live (cur (scr q))).
Print Assumptions C01_reachable_source_ok.
Check C01_fresh_reachable : forall rows cols cap rz ops p q cap' rz' r ts,
  1 <= rows <= MAXDIM -> 1 <= cols <= MAXDIM ->
  parser_new rows cols cap rz = Ok p -> Forall op_ok ops -> run p ops = Ok q ->
  sb_off (cur (scr q)) = 0 ->
  parser_new (grows (cur (scr q))) (gcols (cur (scr q))) cap' rz' = Ok r ->
  state_formatted_t (scr q) = Ok ts ->
  exists R', play false (scr r) ts = Ok (R', []) /\ canvas R' /\
             same_obs_minus (scr q) R' (live (cur (scr q))) /\ same_modes (scr q) R'.
Print Assumptions C01_fresh_reachable.
Check C01_last_row_invariant : forall rows cols cap rz ops p q,
  1 <= rows <= MAXDIM -> 1 <= cols <= MAXDIM ->
  parser_new rows cols cap rz = Ok p -> Forall op_ok ops -> run p ops = Ok q ->
  forall src, get (live (cur (scr q))) (grows (cur (scr q)) - 1) = Some src -> wrapped src = false.
Print Assumptions C01_last_row_invariant.
Check C01_reachable_obs : forall rows cols cap rz ops p q cap' rz' r ts,
  1 <= rows <= MAXDIM -> 1 <= cols <= MAXDIM ->
  parser_new rows cols cap rz = Ok p -> Forall op_ok ops -> run p ops = Ok q ->
  sb_off (cur (scr q)) = 0 ->
  parser_new (grows (cur (scr q))) (gcols (cur (scr q))) cap' rz' = Ok r ->
  state_formatted_t (scr q) = Ok ts ->
  exists R', play false (scr r) ts = Ok (R', []) /\ canvas R' /\ obs R' = obs (scr q) /\
             state_formatted_t R' = Ok ts.
Print Assumptions C01_reachable_obs.
Check C01_any_rz : forall rz R ts R', play false R ts = Ok (R', []) -> play rz R ts = Ok (R', []).
Print Assumptions C01_any_rz.
Check C01_fresh_bytes : forall S p vr ts,
  pend p = [] ->   
  source_ok S vr -> canvas (scr p) -> ground (vt p) ->
  grows (g (scr p)) = grows (cur S) -> gcols (g (scr p)) = gcols (cur S) ->
  mmode (scr p) = MNone -> menc (scr p) = EDefault ->
  state_formatted_t S = Ok ts -> forallb token_ok ts = true ->
  exists q, process p (ser_all ts) = Ok q /\ log q = log p /\ ground (vt q) /\
            canvas (scr q) /\ same_obs_minus S (scr q) vr /\ same_modes S (scr q).
Print Assumptions C01_fresh_bytes.
Check C01_reachable_bytes : forall rows cols cap rz ops p q cap' rz' r ts,
  1 <= rows <= MAXDIM -> 1 <= cols <= MAXDIM ->
  parser_new rows cols cap rz = Ok p -> Forall op_ok ops -> run p ops = Ok q ->
  sb_off (cur (scr q)) = 0 ->
  parser_new (grows (cur (scr q))) (gcols (cur (scr q))) cap' rz' = Ok r ->
  state_formatted_t (scr q) = Ok ts ->
  exists r', process r (ser_all ts) = Ok r' /\ log r' = [] /\ ground (vt r') /\
             canvas (scr r') /\ obs (scr r') = obs (scr q) /\ state_formatted_t (scr r') = Ok ts.
Print Assumptions C01_reachable_bytes.
Check C01w_meaning : forall s,
  screen_wrapinv s <->
  (forall x, x = g s \/ x = alt s ->
   forall r, In r (live x) \/ In r (sb x) -> wrapped r = true ->
   exists c, get (cells r) (len (cells r) - 1) = Some c /\ (has_contents c = true \/ ccont c = true)).
Print Assumptions C01w_meaning.
Check C01w_new : forall rows cols cap rz p,
  parser_new rows cols cap rz = Ok p -> screen_wrapinv (scr p).
Print Assumptions C01w_new.
Check C01w_perform : forall rz s a s' evs,
  perform rz s a = Ok (s', evs) -> screen_ok s -> screen_wrapinv s -> screen_wrapinv s'.
Print Assumptions C01w_perform.
Check C01w_step : forall p o q,
  step p o = Ok q -> parser_ok p -> screen_wrapinv (scr p) -> screen_wrapinv (scr q).
Print Assumptions C01w_step.
Check C01w_run : forall ops p q,
  parser_ok p -> screen_wf (scr p) -> screen_wrapinv (scr p) ->
  Forall op_ok ops -> run p ops = Ok q -> screen_wrapinv (scr q).
Print Assumptions C01w_run.
Check C01w_reachable : forall rows cols cap rz ops p q,
  1 <= rows <= MAXDIM -> 1 <= cols <= MAXDIM ->
  parser_new rows cols cap rz = Ok p -> Forall op_ok ops -> run p ops = Ok q ->
  screen_wrapinv (scr q).
Print Assumptions C01w_reachable.
Check C01w_last_cell : forall x r rw,
  grid_ok x -> grid_wrapinv x -> get (live x) r = Some rw -> wrapped rw = true ->
  exists c, get (cells rw) (gcols x - 1) = Some c /\ (has_contents c = true \/ ccont c = true).
Print Assumptions C01w_last_cell.
Check C01w_visible : forall x l,
  visible_rows x = Ok l -> grid_wrapinv x -> Forall row_wrapinv l.
Print Assumptions C01w_visible.
Check C01w_col_wrap : forall x width wrap y,
  col_wrap x width wrap = Ok y -> grid_wrapinv x -> grid_ok x ->
  (wrap = true -> exists rw, get (live x) (prow x) = Some rw /\ last_occupied (cells rw)) ->
  grid_wrapinv y.
Print Assumptions C01w_col_wrap.
Check C01w_text : forall x ch a y,
  grid_text x ch a = Ok y -> grid_wrapinv x -> grid_ok x -> grid_wrapinv y.
Print Assumptions C01w_text.
Check C01w_row_erase : forall r i a r',
  row_erase r i a = Ok r' -> row_wrapinv r -> row_wrapinv r'.
Print Assumptions C01w_row_erase.
Check C01tok_attrs_def : forall s,
  screen_attrs_ok s <-> (grid_aok (g s) /\ grid_aok (alt s) /\ pen_ok (pen s) /\ pen_ok (spen s)).
Print Assumptions C01tok_attrs_def.
Check C01tok_attrs_new : forall rows cols cap rz p,
  parser_new rows cols cap rz = Ok p -> screen_attrs_ok (scr p).
Print Assumptions C01tok_attrs_new.
Check C01tok_attrs_perform : forall rz s a s' evs,
  perform rz s a = Ok (s', evs) -> screen_attrs_ok s -> screen_attrs_ok s'.
Print Assumptions C01tok_attrs_perform.
Check C01tok_attrs_run : forall ops p q,
  screen_attrs_ok (scr p) -> run p ops = Ok q -> screen_attrs_ok (scr q).
Print Assumptions C01tok_attrs_run.
Check C01tok_char : forall z, storable z -> char_ok z = true.
Print Assumptions C01tok_char.
Check C01tok_cell_text : forall c, cell_wf c -> token_ok (TChars (ctext c)) = true.
Print Assumptions C01tok_cell_text.
Check C01tok_spaces : token_ok (TChars [32]) = true /\ forall n, token_ok (TChars (repeatN 32 n)) = true.
Print Assumptions C01tok_spaces.
Check C01tok_sgr_params : forall a b ps, pen_ok a -> sgr_diff a b = Some ps ->
  len ps <= 14 /\ Forall (fun x => x <= 255) ps.
Print Assumptions C01tok_sgr_params.
Check C01tok_attrs_diff : forall a b, pen_ok a -> forallb token_ok (t_attrs_diff a b) = true.
Print Assumptions C01tok_attrs_diff.
Check C01tok_move_to : forall r c ts, t_move_to r c = Ok ts -> forallb token_ok ts = true.
Print Assumptions C01tok_move_to.
Check C01tok_move_to_bounded : forall r c, r <= 65534 -> c <= 65534 ->
  exists ts, t_move_to r c = Ok ts /\ forallb token_ok ts = true.
Print Assumptions C01tok_move_to_bounded.
Check C01tok_move_from_to : forall fr fc tr tc ts, tc <= 65535 ->
  t_move_from_to fr fc tr tc = Ok ts -> forallb token_ok ts = true.
Print Assumptions C01tok_move_from_to.
Check C01tok_move_from_to_bounded : forall fr fc tr tc, fr <= 65534 -> tr <= 65534 -> tc <= 65534 ->
  exists ts, t_move_from_to fr fc tr tc = Ok ts /\ forallb token_ok ts = true.
Print Assumptions C01tok_move_from_to_bounded.
Check C01tok_move_right : forall n, n <= 65535 -> forallb token_ok (t_move_right n) = true.
Print Assumptions C01tok_move_right.
Check C01tok_erase_char : forall n, n <= 65535 -> forallb token_ok (t_erase_char n) = true.
Print Assumptions C01tok_erase_char.
Check C01tok_fixed :
  forallb token_ok t_clear_screen = true /\ token_ok t_clear_row_forward = true /\
  token_ok t_clear_attrs = true /\ forallb token_ok t_crlf = true /\ token_ok t_bs = true /\
  token_ok t_save_cursor = true /\ token_ok t_restore_cursor = true /\
  (forall b, token_ok (t_hide_cursor b) = true) /\ (forall b, token_ok (t_keypad b) = true) /\
  (forall b, token_ok (t_appcur b) = true) /\ (forall b, token_ok (t_paste b) = true) /\
  (forall m p, forallb token_ok (t_mouse_mode m p) = true) /\
  (forall m p, forallb token_ok (t_mouse_enc m p) = true).
Print Assumptions C01tok_fixed.
Check C01tok_row_formatted : forall r start width rowi wrapping ppos pattrs ts pos a',
  row_tok r -> (forall a, pattrs = Some a -> pen_ok a) ->
  row_formatted r start width rowi wrapping ppos pattrs = Ok (ts, pos, a') ->
  forallb token_ok ts = true /\ pen_ok a'.
Print Assumptions C01tok_row_formatted.
Check C01tok_row_diff : forall r prev start width rowi wrapping pwrapping ppos pattrs ts pos a',
  row_tok r -> pen_ok pattrs ->
  row_diff r prev start width rowi wrapping pwrapping ppos pattrs = Ok (ts, pos, a') ->
  forallb token_ok ts = true /\ pen_ok a'.
Print Assumptions C01tok_row_diff.
Check C01tok_row_formatted_total : forall r start width rowi wrapping pr pc a,
  vrow_ok r -> row_wf r -> row_aok r -> rowi <= MAXDIM -> pr <= MAXDIM -> pen_ok a ->
  exists ts pos' a',
    row_formatted r start width rowi wrapping (Some (pr, pc)) (Some a) = Ok (ts, pos', a') /\
    forallb token_ok ts = true /\ pen_ok a'.
Print Assumptions C01tok_row_formatted_total.
Check C01tok_row_diff_total : forall r prev start width rowi wrapping pwrapping pr pc a,
  vrow_ok r -> row_wf r -> row_aok r -> rowi <= MAXDIM -> pr <= MAXDIM -> pen_ok a ->
  exists ts pos' a',
    row_diff r prev start width rowi wrapping pwrapping (pr, pc) a = Ok (ts, pos', a') /\
    forallb token_ok ts = true /\ pen_ok a'.
Print Assumptions C01tok_row_diff_total.
Check C01tok_grid_tok : forall x, grid_ok x -> grid_wf x -> grid_aok x -> grid_tok x.
Print Assumptions C01tok_grid_tok.
Check C01tok_cursor_position : forall x ppos pattrs ts,
  grid_tok x -> (forall a, pattrs = Some a -> pen_ok a) ->
  cursor_position_formatted x ppos pattrs = Ok ts -> forallb token_ok ts = true.
Print Assumptions C01tok_cursor_position.
Check C01tok_grid_formatted : forall x ts a,
  grid_tok x -> grid_contents_formatted x = Ok (ts, a) -> forallb token_ok ts = true /\ pen_ok a.
Print Assumptions C01tok_grid_formatted.
Check C01tok_grid_diff : forall x prev pattrs ts a,
  grid_tok x -> pen_ok pattrs -> grid_contents_diff x prev pattrs = Ok (ts, a) ->
  forallb token_ok ts = true /\ pen_ok a.
Print Assumptions C01tok_grid_diff.
Check C01tok_contents_formatted : forall s ts,
  screen_ok s -> screen_wf s -> screen_attrs_ok s -> contents_formatted_t s = Ok ts ->
  forallb token_ok ts = true.
Print Assumptions C01tok_contents_formatted.
Check C01tok_state_formatted : forall s ts,
  screen_ok s -> screen_wf s -> screen_attrs_ok s -> state_formatted_t s = Ok ts ->
  forallb token_ok ts = true.
Print Assumptions C01tok_state_formatted.
Check C01tok_cursor_state_formatted : forall s ts,
  screen_ok s -> screen_wf s -> screen_attrs_ok s -> cursor_state_formatted_t s = Ok ts ->
  forallb token_ok ts = true.
Print Assumptions C01tok_cursor_state_formatted.
Check C01tok_contents_diff : forall s p ts,
  screen_ok s -> screen_wf s -> screen_attrs_ok s -> screen_ok p -> screen_wf p -> screen_attrs_ok p ->
  contents_diff_t s p = Ok ts -> forallb token_ok ts = true.
Print Assumptions C01tok_contents_diff.
Check C01tok_state_diff : forall s p ts,
  screen_ok s -> screen_wf s -> screen_attrs_ok s -> screen_ok p -> screen_wf p -> screen_attrs_ok p ->
  state_diff_t s p = Ok ts -> forallb token_ok ts = true.
Print Assumptions C01tok_state_diff.
Check C01tok_contents_diff_strong : forall s p ts,
  screen_ok s -> screen_wf s -> screen_attrs_ok s -> pen_ok (pen p) ->
  contents_diff_t s p = Ok ts -> forallb token_ok ts = true.
Print Assumptions C01tok_contents_diff_strong.
Check C01tok_state_diff_strong : forall s p ts,
  screen_ok s -> screen_wf s -> screen_attrs_ok s -> pen_ok (pen p) ->
  state_diff_t s p = Ok ts -> forallb token_ok ts = true.
Print Assumptions C01tok_state_diff_strong.
Check C01tok_rows_formatted : forall s start width out,
  screen_ok s -> screen_wf s -> screen_attrs_ok s -> rows_formatted_t s start width = Ok out ->
  Forall (fun ts => forallb token_ok ts = true) out.
Print Assumptions C01tok_rows_formatted.
Check C01tok_rows_diff : forall s p start width out,
  screen_ok s -> screen_wf s -> screen_attrs_ok s -> screen_ok p -> screen_wf p -> screen_attrs_ok p ->
  rows_diff_t s p start width = Ok out -> Forall (fun ts => forallb token_ok ts = true) out.
Print Assumptions C01tok_rows_diff.
Check C01tok_rows_diff_strong : forall s p start width out,
  screen_ok s -> screen_wf s -> screen_attrs_ok s ->
  rows_diff_t s p start width = Ok out -> Forall (fun ts => forallb token_ok ts = true) out.
Print Assumptions C01tok_rows_diff_strong.
Check C01tok_input_mode_formatted : forall s, forallb token_ok (input_mode_formatted_t s) = true.
Print Assumptions C01tok_input_mode_formatted.
Check C01tok_input_mode_diff : forall s p, forallb token_ok (input_mode_diff_t s p) = true.
Print Assumptions C01tok_input_mode_diff.
Check C01tok_attributes_formatted : forall s, pen_ok (pen s) ->
  forallb token_ok (attributes_formatted_t s) = true.
Print Assumptions C01tok_attributes_formatted.
Check C01tok_reparse : forall ts, forallb token_ok ts = true ->
  forall v, ground v -> exists v',
    advance v (ser_all ts) = (v', flat_map acts_of ts) /\ ground v' /\
    forall r l rz,
      process (mkParser v r l rz []) (ser_all ts) =
      (do '(r', evs) <- perform_all rz r (flat_map acts_of ts) []; Ok (mkParser v' r' (l ++ evs) rz [])).
Print Assumptions C01tok_reparse.
Check C01tok_contents_formatted_bytes : forall s ts v,
  screen_ok s -> screen_wf s -> screen_attrs_ok s -> contents_formatted_t s = Ok ts -> ground v ->
  exists v',
    advance v (ser_all ts) = (v', flat_map acts_of ts) /\ ground v' /\
    forall r l rz,
      process (mkParser v r l rz []) (ser_all ts) =
      (do '(r', evs) <- perform_all rz r (flat_map acts_of ts) []; Ok (mkParser v' r' (l ++ evs) rz [])).
Print Assumptions C01tok_contents_formatted_bytes.
Check C01tok_contents_diff_bytes : forall s p ts v,
  screen_ok s -> screen_wf s -> screen_attrs_ok s -> pen_ok (pen p) -> contents_diff_t s p = Ok ts -> ground v ->
  exists v',
    advance v (ser_all ts) = (v', flat_map acts_of ts) /\ ground v' /\
    forall r l rz,
      process (mkParser v r l rz []) (ser_all ts) =
      (do '(r', evs) <- perform_all rz r (flat_map acts_of ts) []; Ok (mkParser v' r' (l ++ evs) rz [])).
Print Assumptions C01tok_contents_diff_bytes.
Check C01tok_reachable_inv : forall s, reachable s -> screen_ok s /\ screen_wf s /\ screen_attrs_ok s.
Print Assumptions C01tok_reachable_inv.
Check C01tok_reachable : forall s p start width, reachable s -> reachable p ->
  (exists ts, contents_formatted_t s = Ok ts /\ toks_ok ts /\ reparses ts) /\
  (exists ts, state_formatted_t s = Ok ts /\ toks_ok ts /\ reparses ts) /\
  (exists ts, cursor_state_formatted_t s = Ok ts /\ toks_ok ts /\ reparses ts) /\
  (exists ts, contents_diff_t s p = Ok ts /\ toks_ok ts /\ reparses ts) /\
  (exists ts, state_diff_t s p = Ok ts /\ toks_ok ts /\ reparses ts) /\
  (exists out, rows_formatted_t s start width = Ok out /\ Forall toks_ok out /\ Forall reparses out) /\
  (exists out, rows_diff_t s p start width = Ok out /\ Forall toks_ok out /\ Forall reparses out) /\
  (toks_ok (input_mode_formatted_t s) /\ reparses (input_mode_formatted_t s)) /\
  (toks_ok (input_mode_diff_t s p) /\ reparses (input_mode_diff_t s p)) /\
  (toks_ok (attributes_formatted_t s) /\ reparses (attributes_formatted_t s)).
Print Assumptions C01tok_reachable.
