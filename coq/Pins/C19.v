(* Pins for C19: restated statements + assumptions. Generated once by tools/mkpins.py, then committed. *)
Require Import VT.Tac VT.ListN VT.Utf8 VT.Attrs VT.Cell VT.Row VT.Grid VT.Screen VT.Vte VT.Perform VT.Parser VT.Term VT.Emit.
Require Import VT.RowInv VT.GridInv VT.TextInv VT.ScreenInv VT.EmitSafe VT.ObsSpec VT.CellBytes.
Require Import VT.Props.C19.
Open Scope N_scope.
Check C19_obs_def : forall s,
  obs s = (do vr <- visible_rows (cur s);
           Ok (mkObs (grows (cur s)) (gcols (cur s)) vr (prow (cur s), pcol (cur s)) (hide s) (pen s)
                     (keypad s, appcur s, paste s, mmode s, menc s))).
Print Assumptions C19_obs_def.
Check C19_obs_offset0 : forall s, sb_off (cur s) = 0 ->
  obs s = Ok (mkObs (grows (cur s)) (gcols (cur s)) (live (cur s)) (prow (cur s), pcol (cur s)) (hide s) (pen s)
                    (keypad s, appcur s, paste s, mmode s, menc s)).
Print Assumptions C19_obs_offset0.
Check C19_obs_total : forall s, screen_ok s -> exists o, obs s = Ok o /\ len (o_vis o) = o_rows o.
Print Assumptions C19_obs_total.
Check C19_factor : forall s1 s2 o, screen_ok s1 -> screen_ok s2 -> obs s1 = Ok o -> obs s2 = Ok o ->
  contents_formatted_t s1 = contents_formatted_t s2 /\
  state_formatted_t s1 = state_formatted_t s2 /\
  cursor_state_formatted_t s1 = cursor_state_formatted_t s2 /\
  (forall start width, rows_formatted_t s1 start width = rows_formatted_t s2 start width) /\
  input_mode_formatted_t s1 = input_mode_formatted_t s2 /\
  attributes_formatted_t s1 = attributes_formatted_t s2.
Print Assumptions C19_factor.
Check C19_factor_bytes : forall s1 s2 o, screen_ok s1 -> screen_ok s2 -> obs s1 = Ok o -> obs s2 = Ok o ->
  res_map ser_all (contents_formatted_t s1) = res_map ser_all (contents_formatted_t s2) /\
  res_map ser_all (state_formatted_t s1) = res_map ser_all (state_formatted_t s2) /\
  res_map ser_all (cursor_state_formatted_t s1) = res_map ser_all (cursor_state_formatted_t s2) /\
  (forall start width, res_map (map ser_all) (rows_formatted_t s1 start width)
                       = res_map (map ser_all) (rows_formatted_t s2 start width)) /\
  ser_all (input_mode_formatted_t s1) = ser_all (input_mode_formatted_t s2) /\
  ser_all (attributes_formatted_t s1) = ser_all (attributes_formatted_t s2).
Print Assumptions C19_factor_bytes.
Check C19_factor_noinv : forall s1 s2 o, obs s1 = Ok o -> obs s2 = Ok o ->
  contents_formatted_t s1 = contents_formatted_t s2 /\
  state_formatted_t s1 = state_formatted_t s2 /\
  cursor_state_formatted_t s1 = cursor_state_formatted_t s2 /\
  input_mode_formatted_t s1 = input_mode_formatted_t s2 /\
  attributes_formatted_t s1 = attributes_formatted_t s2 /\
  (gcols (g s1) = gcols (g s2) ->
   forall start width, rows_formatted_t s1 start width = rows_formatted_t s2 start width).
Print Assumptions C19_factor_noinv.
Check C19_canonical : forall s o, screen_ok s -> obs s = Ok o ->
  contents_formatted_t s = contents_formatted_t (screen_of_obs o) /\
  state_formatted_t s = state_formatted_t (screen_of_obs o) /\
  cursor_state_formatted_t s = cursor_state_formatted_t (screen_of_obs o) /\
  (forall start width, rows_formatted_t s start width = rows_formatted_t (screen_of_obs o) start width) /\
  input_mode_formatted_t s = input_mode_formatted_t (screen_of_obs o) /\
  attributes_formatted_t s = attributes_formatted_t (screen_of_obs o).
Print Assumptions C19_canonical.
Check C19_histories : forall p ops1 ops2 p1 p2 o,
  parser_ok p -> screen_wf (scr p) -> Forall op_ok ops1 -> Forall op_ok ops2 ->
  run p ops1 = Ok p1 -> run p ops2 = Ok p2 ->
  obs (scr p1) = Ok o -> obs (scr p2) = Ok o ->
  contents_formatted_t (scr p1) = contents_formatted_t (scr p2) /\
  state_formatted_t (scr p1) = state_formatted_t (scr p2) /\
  cursor_state_formatted_t (scr p1) = cursor_state_formatted_t (scr p2) /\
  (forall start width, rows_formatted_t (scr p1) start width = rows_formatted_t (scr p2) start width) /\
  input_mode_formatted_t (scr p1) = input_mode_formatted_t (scr p2) /\
  attributes_formatted_t (scr p1) = attributes_formatted_t (scr p2) /\
  contents_diff_t (scr p1) (scr p2) = Ok [] /\ state_diff_t (scr p1) (scr p2) = Ok [] /\
  input_mode_diff_t (scr p1) (scr p2) = [] /\
  (forall start width, rows_diff_t (scr p1) (scr p2) start width = Ok (repeatN [] (grows (cur (scr p1))))).
Print Assumptions C19_histories.
Check C19_row_selfdiff : forall r start width rowi wrapping pr pc a,
  row_diff r r start width rowi wrapping wrapping (pr, pc) a = Ok ([], (pr, pc), a).
Print Assumptions C19_row_selfdiff.
Check C19_selfdiff : forall s, screen_ok s -> screen_wf s ->
  contents_diff_t s s = Ok [] /\
  state_diff_t s s = Ok [] /\
  input_mode_diff_t s s = [] /\
  (forall start width, rows_diff_t s s start width = Ok (repeatN [] (grows (cur s)))).
Print Assumptions C19_selfdiff.
Check C19_selfdiff_bytes : forall s, screen_ok s -> screen_wf s ->
  res_map ser_all (contents_diff_t s s) = Ok [] /\
  res_map ser_all (state_diff_t s s) = Ok [] /\
  ser_all (input_mode_diff_t s s) = [] /\
  (forall start width, res_map (map ser_all) (rows_diff_t s s start width) = Ok (repeatN [] (grows (cur s)))).
Print Assumptions C19_selfdiff_bytes.
Check C19_obsdiff : forall s1 s2 o, screen_ok s1 -> screen_wf s1 -> screen_ok s2 -> obs s1 = Ok o -> obs s2 = Ok o ->
  contents_diff_t s1 s2 = Ok [] /\
  state_diff_t s1 s2 = Ok [] /\
  input_mode_diff_t s1 s2 = [] /\
  (forall start width, rows_diff_t s1 s2 start width = Ok (repeatN [] (grows (cur s1)))).
Print Assumptions C19_obsdiff.
Check C19_obsdiff_minimal : forall s1 s2 o, obs s1 = Ok o -> obs s2 = Ok o ->
  (screen_ok s1 -> screen_wf s1 -> contents_diff_t s1 s2 = Ok [] /\ state_diff_t s1 s2 = Ok []) /\
  input_mode_diff_t s1 s2 = [] /\
  (forall start width, rows_diff_t s1 s2 start width = Ok (repeatN [] (len (o_vis o)))).
Print Assumptions C19_obsdiff_minimal.
Check C19_concat_formatted : forall s,
  state_formatted_t s = (do ts <- contents_formatted_t s; Ok (ts ++ input_mode_formatted_t s)).
Print Assumptions C19_concat_formatted.
Check C19_concat_diff : forall s prev,
  state_diff_t s prev = (do ts <- contents_diff_t s prev; Ok (ts ++ input_mode_diff_t s prev)).
Print Assumptions C19_concat_diff.
Check C19_ser_all_app : forall a b, ser_all (a ++ b) = ser_all a ++ ser_all b.
Print Assumptions C19_ser_all_app.
Check C19_concat_formatted_bytes : forall s,
  res_map ser_all (state_formatted_t s) =
  res_map (fun bs => bs ++ ser_all (input_mode_formatted_t s)) (res_map ser_all (contents_formatted_t s)).
Print Assumptions C19_concat_formatted_bytes.
Check C19_concat_diff_bytes : forall s prev,
  res_map ser_all (state_diff_t s prev) =
  res_map (fun bs => bs ++ ser_all (input_mode_diff_t s prev)) (res_map ser_all (contents_diff_t s prev)).
Print Assumptions C19_concat_diff_bytes.
Check C19_cell_new : bwf bnew /\ abs bnew = cell_new.
Print Assumptions C19_cell_new.
Check C19_cell_set : forall c a b, bwf b -> is_scalar c = true ->
  exists b', bset c a b = Ok b' /\ bwf b' /\ abs b' = cell_set c a (abs b).
Print Assumptions C19_cell_set.
Check C19_cell_append : forall c b, bwf b -> is_scalar c = true ->
  exists b', bappend c b = Ok b' /\ bwf b' /\ abs b' = cell_append c (abs b).
Print Assumptions C19_cell_append.
Check C19_cell_clear : forall a b, len (bytes b) = CONTENT_BYTES ->
  bytes (bclear a b) = bytes b /\ bwf (bclear a b) /\ abs (bclear a b) = cell_clear a (abs b).
Print Assumptions C19_cell_clear.
Check C19_cell_set_cont : forall w b, bwf b ->
  bwf (bset_cont w b) /\ abs (bset_cont w b) = cell_set_cont w (abs b).
Print Assumptions C19_cell_set_cont.
Check C19_cell_eq : forall b1 b2, bwf b1 -> bwf b2 -> beq b1 b2 = Ok (cell_eqb (abs b1) (abs b2)).
Print Assumptions C19_cell_eq.
Check C19_cell_eqb_is_eq : forall c d, cell_eqb c d = true <-> c = d.
Print Assumptions C19_cell_eqb_is_eq.
Check C19_cell_observers : forall b, bwf b ->
  bcontents b = Ok (ctext (abs b)) /\                      
  bcontents_bytes b = Ok (encode_str (ctext (abs b))) /\   
  bhas_contents b = has_contents (abs b) /\
  bis_wide b = cwide (abs b) /\ bis_cont b = ccont (abs b) /\ battrs b = cattrs (abs b) /\
  cell_len (abs b) = blen b.
Print Assumptions C19_cell_observers.
Check C19_utf8_roundtrip : forall t, scalars t -> from_utf8 (encode_str t) = (t, text_len t, UOk).
Print Assumptions C19_utf8_roundtrip.
Check C19_stale_bytes_unobservable : forall b1 b2, bwf b1 -> bwf b2 -> abs b1 = abs b2 ->
  beq b1 b2 = Ok true /\
  bcontents b1 = bcontents b2 /\ bcontents_bytes b1 = bcontents_bytes b2 /\
  bhas_contents b1 = bhas_contents b2 /\ bis_wide b1 = bis_wide b2 /\ bis_cont b1 = bis_cont b2 /\
  battrs b1 = battrs b2 /\
  (forall c a, is_scalar c = true -> res_abs (bset c a b1) = res_abs (bset c a b2)) /\
  (forall c, is_scalar c = true -> res_abs (bappend c b1) = res_abs (bappend c b2)) /\
  (forall a, abs (bclear a b1) = abs (bclear a b2)) /\
  (forall w, abs (bset_cont w b1) = abs (bset_cont w b2)).
Print Assumptions C19_stale_bytes_unobservable.
Check C19_cell_reachable_wf : forall b, breach b -> bwf b.
Print Assumptions C19_cell_reachable_wf.
Check C19_cell_no_panic : forall b c a, breach b -> is_scalar c = true ->
  (exists b', bset c a b = Ok b') /\ (exists b', bappend c b = Ok b') /\
  (forall b2, breach b2 -> exists r, beq b b2 = Ok r) /\ (exists t, bcontents b = Ok t).
Print Assumptions C19_cell_no_panic.
Check C19_cell_representable : forall c, scalars (ctext c) -> text_len (ctext c) <= CONTENT_BYTES ->
  bwf (brepr c) /\ abs (brepr c) = c.
Print Assumptions C19_cell_representable.
Check C19_example_cleared :
  (do b <- bset 20013 dflt bnew; Ok (bclear dflt b)) = Ok ex_cleared /\
  bytes ex_cleared <> bytes bnew /\ abs ex_cleared = abs bnew /\ beq ex_cleared bnew = Ok true.
Print Assumptions C19_example_cleared.
Check C19_example_overwritten :
  (do b <- bset 20013 dflt bnew; bset 97 dflt b) = Ok ex_over /\ bset 97 dflt bnew = Ok ex_fresh /\
  bytes ex_over <> bytes ex_fresh /\ abs ex_over = abs ex_fresh /\ beq ex_over ex_fresh = Ok true.
Print Assumptions C19_example_overwritten.
