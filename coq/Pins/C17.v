(* Pins for C17: restated statements + assumptions. Generated once by tools/mkpins.py, then committed. *)
Require Import VT.Tac VT.ListN VT.Utf8 VT.Attrs VT.Cell VT.Row VT.Grid VT.Screen VT.Vte VT.Perform VT.Parser.
Require Import VT.VteInv VT.GridInv VT.ScreenInv VT.EventSpec VT.RisSpec.
Require Import VT.Props.C17.
Open Scope N_scope.
Check C17_new_closed : forall r c cap s0,
  screen_new r c cap = Ok s0 -> 1 <= r /\ s0 = fresh_screen r c cap.
Print Assumptions C17_new_closed.
Check C17_new_total : forall r c cap, 1 <= r -> screen_new r c cap = Ok (fresh_screen r c cap).
Print Assumptions C17_new_total.
Check C17_new_spec : forall r c cap s0,
  screen_new r c cap = Ok s0 ->
  grows (g s0) = r /\ gcols (g s0) = c /\
  len (live (g s0)) = r /\
  Forall (fun rw => rw = row_new c) (live (g s0)) /\
  (forall i j, i < r -> j < c -> drawing_cell (g s0) i j = Some cell_new) /\
  prow (g s0) = 0 /\ pcol (g s0) = 0 /\ sprow (g s0) = 0 /\ spcol (g s0) = 0 /\
  top (g s0) = 0 /\ bot (g s0) = r - 1 /\ origin (g s0) = false /\ sorigin (g s0) = false /\
  sb (g s0) = [] /\ sb_off (g s0) = 0 /\ sb_cap (g s0) = cap /\
  pen s0 = dflt /\ spen s0 = dflt /\
  keypad s0 = false /\ appcur s0 = false /\ hide s0 = false /\ paste s0 = false /\
  mmode s0 = MNone /\ menc s0 = EDefault /\ altmode s0 = false /\
  alt s0 = fresh_alt r c /\ live (alt s0) = [] /\ sb_cap (alt s0) = 0 /\ sb (alt s0) = [] /\
  grows (alt s0) = r /\ gcols (alt s0) = c.
Print Assumptions C17_new_spec.
Check C17_blank_row : forall c,
  wrapped (row_new c) = false /\ len (cells (row_new c)) = c /\
  Forall (fun x => x = cell_new) (cells (row_new c)) /\
  forall i, i < c -> row_get (row_new c) i = Some cell_new.
Print Assumptions C17_blank_row.
Check C17_blank_cell :
  ctext cell_new = [] /\ cwide cell_new = false /\ ccont cell_new = false /\ cattrs cell_new = dflt.
Print Assumptions C17_blank_cell.
Check C17_fresh_visible : forall r c cap i j, i < r -> j < c ->
  visible_cell (fresh_grid r c cap) i j = Ok (Some cell_new).
Print Assumptions C17_fresh_visible.
Check C17_vte : forall p, pwf p ->
  advance p [27; 99] = (p_init, ris_pre p ++ [AEsc [] false 99]).
Print Assumptions C17_vte.
Check C17_vte_pre : forall p,
  (vst p = Ground -> partial p = [] -> ris_pre p = []) /\
  (vst p = Ground -> partial p <> [] -> ris_pre p = [APrint 65533]) /\
  (vst p = DcsPassthrough -> ris_pre p = [AUnhook]) /\
  (vst p = OscString -> ris_pre p = [AOsc (osc_slices (osc_put_param p)) false]) /\
  (vst p <> Ground -> vst p <> DcsPassthrough -> vst p <> OscString -> ris_pre p = []).
Print Assumptions C17_vte_pre.
Check C17_process : forall p q,
  pend p = [] ->
  pwf (vt p) -> process p [27; 99] = Ok q ->
  let s0 := fresh_screen (grows (g (scr p))) (gcols (g (scr p))) (sb_cap (g (scr p))) in
  screen_new (grows (g (scr p))) (gcols (g (scr p))) (sb_cap (g (scr p))) = Ok s0 /\
  vt q = p_init /\ scr q = s0 /\ resizing q = resizing p /\
  log q = log p ++ ris_events (vt p).
Print Assumptions C17_process.
Check C17_events_nil : forall v,
  ris_pre v = [] \/ ris_pre v = [AUnhook] -> ris_events v = [].
Print Assumptions C17_events_nil.
Check C17_callbacks_untouched : forall p q,
  pend p = [] ->
  pwf (vt p) -> vst (vt p) = Ground -> partial (vt p) = [] ->
  process p [27; 99] = Ok q -> log q = log p.
Print Assumptions C17_callbacks_untouched.
Check C17_total : forall p, pend p = [] -> pwf (vt p) -> 1 <= grows (g (scr p)) ->
  process p [27; 99] =
  Ok (mkParser p_init (fresh_screen (grows (g (scr p))) (gcols (g (scr p))) (sb_cap (g (scr p))))
               (log p ++ ris_events (vt p)) (resizing p) []).
Print Assumptions C17_total.
Check C17_ok : forall p, parser_ok p -> exists q, process p [27; 99] = Ok q /\ parser_ok q.
Print Assumptions C17_ok.
Check C17_any : forall p q, parser_ok p -> process p [27; 99] = Ok q -> vt q = p_init /\ pend q = [].
Print Assumptions C17_any.
Check C17_log_prefix_ok : forall ops v s l rz pd v' s' l' rz' pd',
  Parser.run (mkParser v s l rz pd) ops = Ok (mkParser v' s' l' rz' pd') <->
  exists e, Parser.run (mkParser v s [] rz pd) ops = Ok (mkParser v' s' e rz' pd') /\ l' = l ++ e.
Print Assumptions C17_log_prefix_ok.
Check C17_log_prefix_panic : forall ops v s l rz pd k,
  Parser.run (mkParser v s l rz pd) ops = Panic k <-> Parser.run (mkParser v s [] rz pd) ops = Panic k.
Print Assumptions C17_log_prefix_panic.
Check C17_main : forall p q,
  pend p = [] ->
  pwf (vt p) -> process p [27; 99] = Ok q ->
  exists pf,
    parser_new (grows (g (scr p))) (gcols (g (scr p))) (sb_cap (g (scr p))) (resizing p) = Ok pf /\
    q = with_log pf (log q) /\ log pf = [] /\
    log q = log p ++ ris_events (vt p) /\
    forall ops,
      match Parser.run pf ops with
      | Ok qf => exists q', Parser.run q ops = Ok q' /\
                   vt q' = vt qf /\ scr q' = scr qf /\ resizing q' = resizing qf /\
                   log q' = log q ++ log qf
      | Panic k => Parser.run q ops = Panic k
      end.
Print Assumptions C17_main.
Check C17_reachable : forall r c cap rz ops p0 p,
  1 <= r <= MAXDIM -> 1 <= c <= MAXDIM ->
  parser_new r c cap rz = Ok p0 -> Forall op_ok ops -> Parser.run p0 ops = Ok p ->
  pend p = [] ->
  exists q pf,
    process p [27; 99] = Ok q /\
    parser_new (grows (g (scr p))) (gcols (g (scr p))) (sb_cap (g (scr p))) (resizing p) = Ok pf /\
    vt q = vt pf /\ scr q = scr pf /\ resizing q = resizing pf /\
    log pf = [] /\ log q = log p ++ ris_events (vt p) /\
    forall ops',
      match Parser.run pf ops' with
      | Ok qf => exists q', Parser.run q ops' = Ok q' /\
                   vt q' = vt qf /\ scr q' = scr qf /\ resizing q' = resizing qf /\
                   log q' = log q ++ log qf
      | Panic k => Parser.run q ops' = Panic k
      end.
Print Assumptions C17_reachable.
