(* Pins for C04: restated statements + assumptions. Generated once by tools/mkpins.py, then committed. *)
Require Import VT.Tac VT.Vte VT.Screen VT.Perform VT.Parser VT.VteInv VT.VteChunk VT.Chunking.
Require Import VT.Props.C04.
Open Scope N_scope.
Check C04_main : forall p cs1 cs2,
  pwf (vt p) -> concat cs1 = concat cs2 -> clean (vt p) cs1 -> clean (vt p) cs2 ->
  process_chunks p cs1 = process_chunks p cs2.
Print Assumptions C04_main.
Check C04_reachable_pwf : forall rows cols cap rz p, parser_new rows cols cap rz = Ok p -> pwf (vt p).
Print Assumptions C04_reachable_pwf.
Check C04_pwf_step : forall p bs q, pwf (vt p) -> process p bs = Ok q -> pwf (vt q).
Print Assumptions C04_pwf_step.
Check C04_vte_app : forall p a b, pwf p ->
  let '(q, x) := advance' p a in let '(r, y) := advance' q b in
  exists z, advance' p (a ++ b) = (r, z) /\ norms z = norms (x ++ y).
Print Assumptions C04_vte_app.
Check C04_vte_bug_exact : forall p bs, k04a p bs = false -> advance p bs = advance' p bs.
Print Assumptions C04_vte_bug_exact.
Check C04_write : forall p bs, write p bs = (do q <- process p bs; Ok (q, len bs)).
Print Assumptions C04_write.
Check C04_flush : forall p, flush p = p.
Print Assumptions C04_flush.
Check C04_refuted : exists p a b,
  pwf p /\ k04a (fst (advance p a)) b = true /\
  snd (advance (fst (advance p a)) b) = [APrint 233; APrint 233] /\
  snd (advance p (a ++ b)) = [APrint 233; APrint 65; APrint 233].
Print Assumptions C04_refuted.
