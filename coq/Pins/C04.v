(* Pins for C04: restated statements + assumptions. Generated once by tools/mkpins.py, then committed. *)
Require Import VT.Tac VT.Utf8 VT.Vte VT.Screen VT.Perform VT.Parser VT.Utf8Lemmas VT.VteInv VT.VteChunk VT.Pend VT.Chunking.
Require Import VT.GridInv VT.ScreenInv.
Require Import VT.Props.C04.
Open Scope N_scope.
Check C04_parser_ok_unfold : forall p,
  parser_ok p <->
  screen_ok (scr p) /\ pwf (vt p) /\ (pend p = [] -> partial (vt p) = []) /\
  incomplete_tail (pend p) = len (pend p).
Print Assumptions C04_parser_ok_unfold.
Check C04_all : forall p cs1 cs2,
  parser_ok p -> concat cs1 = concat cs2 -> process_chunks p cs1 = process_chunks p cs2.
Print Assumptions C04_all.
Check C04_unsplit : forall p cs, parser_ok p -> process_chunks p cs = process p (concat cs).
Print Assumptions C04_unsplit.
Check C04_reachable_ok : forall rows cols cap rz, 1 <= rows <= MAXDIM -> 1 <= cols <= MAXDIM ->
  exists p, parser_new rows cols cap rz = Ok p /\ parser_ok p.
Print Assumptions C04_reachable_ok.
Check C04_ok_step : forall p bs, parser_ok p -> exists q, process p bs = Ok q /\ parser_ok q.
Print Assumptions C04_ok_step.
Check C04_reachable_pwf : forall rows cols cap rz p, parser_new rows cols cap rz = Ok p -> pwf (vt p).
Print Assumptions C04_reachable_pwf.
Check C04_pwf_step : forall p bs q, pwf (vt p) -> process p bs = Ok q -> pwf (vt q).
Print Assumptions C04_pwf_step.
Check C04_process_split : forall p bs,
  delivered p bs ++ held p bs = pend p ++ bs /\
  len (held p bs) = incomplete_tail (pend p ++ bs) /\ len (held p bs) <= 3 /\
  (held p bs = [] \/ decode1 (held p bs) = DIncomplete) /\
  process p bs =
    (let '(v, acts) := advance (vt p) (delivered p bs) in
     do '(s, evs) <- perform_all (resizing p) (scr p) acts [];
     Ok (mkParser v s (log p ++ evs) (resizing p) (held p bs))).
Print Assumptions C04_process_split.
Check C04_process_shields_vte : forall p bs, parser_ok p ->
  k04a (vt p) (delivered p bs) = false /\
  advance (vt p) (delivered p bs) = advance' (vt p) (delivered p bs) /\
  forall q, process p bs = Ok q -> (pend q = [] -> partial (vt q) = []).
Print Assumptions C04_process_shields_vte.
Check C04_complete_chunk : forall p bs q, parser_ok p -> pend p = [] -> incomplete_tail bs = 0 ->
  process p bs = Ok q ->
  delivered p bs = bs /\ pend q = [] /\ partial (vt q) = [].
Print Assumptions C04_complete_chunk.
Check C04_vte_app : forall p a b, pwf p ->
  let '(q, x) := advance' p a in let '(r, y) := advance' q b in
  exists z, advance' p (a ++ b) = (r, z) /\ norms z = norms (x ++ y).
Print Assumptions C04_vte_app.
Check C04_vte_bug_exact : forall p bs, k04a p bs = false -> advance p bs = advance' p bs.
Print Assumptions C04_vte_bug_exact.
Check C04_vte_clean : forall p cs1 cs2,
  pwf p -> concat cs1 = concat cs2 -> clean p cs1 -> clean p cs2 ->
  fst (advance_chunks p cs1) = fst (advance_chunks p cs2) /\
  norms (snd (advance_chunks p cs1)) = norms (snd (advance_chunks p cs2)).
Print Assumptions C04_vte_clean.
Check C04_write : forall p bs, write p bs = (do q <- process p bs; Ok (q, len bs)).
Print Assumptions C04_write.
Check C04_flush : forall p, flush p = p.
Print Assumptions C04_flush.
Check C04_vte_refuted : exists p a b,
  pwf p /\ k04a (fst (advance p a)) b = true /\
  snd (advance (fst (advance p a)) b) = [APrint 233; APrint 233] /\
  snd (advance p (a ++ b)) = [APrint 233; APrint 65; APrint 233].
Print Assumptions C04_vte_refuted.
Check C04_vte_no_partial : forall v bs,
  pwf v -> partial v = [] -> incomplete_tail bs = 0 -> partial (fst (advance v bs)) = [].
Print Assumptions C04_vte_no_partial.
Check C04_incomplete_tail_spec : forall bs,
  incomplete_tail bs <= 3 /\ incomplete_tail bs <= len bs /\
  (0 < incomplete_tail bs -> decode1 (skipnN (len bs - incomplete_tail bs) bs) = DIncomplete) /\
  (forall a t, bs = a ++ t -> decode1 t = DIncomplete -> len t <= incomplete_tail bs).
Print Assumptions C04_incomplete_tail_spec.
Check C04_incomplete_tail_app : forall bs c,
  incomplete_tail (bs ++ c) = incomplete_tail (skipnN (len bs - incomplete_tail bs) bs ++ c).
Print Assumptions C04_incomplete_tail_app.
Check C04_tail_ascii : forall xs b, b < 128 -> incomplete_tail (xs ++ [b]) = 0.
Print Assumptions C04_tail_ascii.
Check C04_tail_char : forall xs t c, decode1 t = DChar c (len t) -> incomplete_tail (xs ++ t) = 0.
Print Assumptions C04_tail_char.
