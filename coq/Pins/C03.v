(* Pins for C03: restated statements + assumptions. Generated once by tools/mkpins.py, then committed. *)
Require Import VT.Tac VT.ListN VT.Cell VT.Row VT.Grid VT.Screen VT.Vte VT.Perform VT.Parser VT.Emit VT.RowInv VT.GridInv VT.TextInv VT.ScreenInv VT.EmitSafe VT.EmitTextSafe.
Require Import VT.Tac VT.ListN VT.Grid VT.Screen VT.Vte VT.Perform VT.GridInv VT.ScreenInv VT.CostMonad VT.CostModel VT.CostGrid VT.CostSpec VT.CostParser.
Require Import VT.Props.C03 VT.Props.C03cost.
Open Scope N_scope.
Check C03_process : forall rows cols cap rz ops,
  size_ok rows -> size_ok cols -> Forall api_ok ops ->
  exists p q, parser_new rows cols cap rz = Ok p /\ run p ops = Ok q.
Print Assumptions C03_process.
Check C03_perform : forall rz s a, screen_ok s -> exists s' evs, perform rz s a = Ok (s', evs) /\ screen_ok s'.
Print Assumptions C03_perform.
Check C03_emitters : forall s p start width,
  screen_ok s -> screen_ok p ->
  grows (g p) = grows (g s) -> gcols (g p) = gcols (g s) ->
  (exists ts, contents_formatted_t s = Ok ts) /\
  (exists ts, state_formatted_t s = Ok ts) /\
  (exists ts, cursor_state_formatted_t s = Ok ts) /\
  (exists ts, contents_diff_t s p = Ok ts) /\
  (exists ts, state_diff_t s p = Ok ts) /\
  (exists out, rows_formatted_t s start width = Ok out) /\
  (exists out, rows_diff_t s p start width = Ok out).
Print Assumptions C03_emitters.
Check C03_text_views : forall s start width sr sc er ecol r c,
  screen_ok s ->
  (exists t, contents_text s = Ok t) /\
  (exists out, rows_text s start width = Ok out) /\
  (exists t, contents_between s sr sc er ecol = Ok t) /\
  (exists o, visible_row (cur s) r = Ok o) /\
  (exists o, visible_cell (cur s) r c = Ok o).
Print Assumptions C03_text_views.
Check C03cost_tied : forall rz s a, fst (perform_c rz s a) = perform rz s a.
Print Assumptions C03cost_tied.
Check C03cost_iter_erase : forall A (f : A -> cres A) (h : A -> res A) n a,
  (forall a, fst (f a) = h a) -> fst (iter_c n f a) = iter_res n h a.
Print Assumptions C03cost_iter_erase.
Check C03cost_iter_count : forall A (f : A -> cres A) k n,
  (forall a, snd (f a) = k) ->
  forall a b, fst (iter_c n f a) = Ok b -> snd (iter_c n f a) = N.of_nat n * k.
Print Assumptions C03cost_iter_count.
Check C03cost_bound : forall s a,
  screen_ok s -> params_ok a -> first_param a <= 65535 ->
  action_cost false s a <=
  65535 * line_cost (grows (g s)) (gcols (g s)) + base_bound (grows (g s)) (gcols (g s)).
Print Assumptions C03cost_bound.
Check C03cost_bound_n : forall s a, screen_ok s -> params_ok a ->
  action_cost false s a <=
  first_param a * line_cost (grows (g s)) (gcols (g s)) + base_bound (grows (g s)) (gcols (g s)).
Print Assumptions C03cost_bound_n.
Check C03cost_param_free : forall s a,
  screen_ok s -> params_ok a -> is_il_sd a = false ->
  action_cost false s a <= base_bound (grows (g s)) (gcols (g s)).
Print Assumptions C03cost_param_free.
Check C03cost_il : forall rz s ps ig, screen_ok s ->
  action_cost rz s (ACsi ps [] ig 76) = 1 + canon1 ps 1 * line_cost (grows (g s)) (gcols (g s)).
Print Assumptions C03cost_il.
Check C03cost_sd : forall rz s ps ig, screen_ok s ->
  action_cost rz s (ACsi ps [] ig 84) = 1 + canon1 ps 1 * line_cost (grows (g s)) (gcols (g s)).
Print Assumptions C03cost_sd.
Check C03cost_ich_iterations : forall x n, grid_ok x ->
  snd (insert_cells_c x n) <=
  N.min n (gcols x - pcol x) * (gcols x + N.min n (gcols x - pcol x) + 4) + 2.
Print Assumptions C03cost_ich_iterations.
Check C03cost_ich : forall rz s ps ig, screen_ok s ->
  action_cost rz s (ACsi ps [] ig 64) <= 2 * gcols (g s) * gcols (g s) + 4 * gcols (g s) + 3.
Print Assumptions C03cost_ich.
Check C03cost_ich_132 : forall x n, grid_ok x -> gcols x <= 132 -> snd (insert_cells_c x n) <= 35378.
Print Assumptions C03cost_ich_132.
Check C03cost_ich_old_tied : forall x n, fst (insert_cells_old_c x n) = insert_cells_old x n.
Print Assumptions C03cost_ich_old_tied.
Check C03cost_ich_old_refuted : forall x n, grid_ok x -> pcol x < gcols x ->
  2 * n * (gcols x + 1) + n * n <= 2 * snd (insert_cells_old_c x n) + n.
Print Assumptions C03cost_ich_old_refuted.
Check C03cost_ich_old_65535 : forall x, grid_ok x -> pcol x < gcols x ->
  65535 * gcols x + 2147450880 <= snd (insert_cells_old_c x 65535).
Print Assumptions C03cost_ich_old_65535.
Check C03cost_numeric : forall s a,
  screen_ok s -> params_ok a -> first_param a <= 65535 ->
  grows (g s) <= 50 -> gcols (g s) <= 132 -> action_cost false s a <= 15600000.
Print Assumptions C03cost_numeric.
Check C03cost_numeric_transposed : forall s a,
  screen_ok s -> params_ok a -> first_param a <= 65535 ->
  grows (g s) <= 132 -> gcols (g s) <= 50 -> action_cost false s a <= 21000000.
Print Assumptions C03cost_numeric_transposed.
Check C03cost_numeric_param_free : forall s a,
  screen_ok s -> params_ok a -> is_il_sd a = false ->
  grows (g s) <= 132 -> gcols (g s) <= 132 -> action_cost false s a <= 650000.
Print Assumptions C03cost_numeric_param_free.
Check C03cost_parser_init : pb p_init.
Print Assumptions C03cost_parser_init.
Check C03cost_parser : forall p bs, pb p ->
  pb (fst (advance p bs)) /\
  Forall (fun a => params_ok a /\ first_param a <= 65535) (snd (advance p bs)).
Print Assumptions C03cost_parser.
Check C03cost_parsed_action : forall p bs s a,
  pb p -> In a (snd (advance p bs)) -> screen_ok s ->
  action_cost false s a <=
  65535 * line_cost (grows (g s)) (gcols (g s)) + base_bound (grows (g s)) (gcols (g s)).
Print Assumptions C03cost_parsed_action.
Check C03cost_resize : forall s a, screen_ok s ->
  action_cost true s a <= action_cost false s a + resize_bound (grows (g s)) (gcols (g s)).
Print Assumptions C03cost_resize.
