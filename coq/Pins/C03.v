(* Pins for C03: restated statements + assumptions. Generated once by tools/mkpins.py, then committed. *)
Require Import VT.Tac VT.ListN VT.Cell VT.Row VT.Grid VT.Screen VT.Vte VT.Perform VT.Parser VT.Emit VT.RowInv VT.GridInv VT.TextInv VT.ScreenInv VT.EmitSafe VT.EmitTextSafe.
Require Import VT.Props.C03.
Open Scope N_scope.
Check C03_process : forall rows cols cap rz ops,
  size_ok rows -> size_ok cols -> Forall api_ok ops ->
  exists p q, parser_new rows cols cap rz = Ok p /\ run p ops = Ok q.
Print Assumptions C03_process.
Check C03_perform : forall rz s a, screen_ok s -> exists s' evs, perform rz s a = Ok (s', evs) /\ screen_ok s'.
Print Assumptions C03_perform.
Check C03_emitters : forall s p start width,
  screen_ok s -> screen_ok p ->
  grows (g p) = grows (g s) -> gcols (g p) = gcols (g s) ->
  (exists ts, contents_formatted_t s = Ok ts) /\
  (exists ts, state_formatted_t s = Ok ts) /\
  (exists ts, cursor_state_formatted_t s = Ok ts) /\
  (exists ts, contents_diff_t s p = Ok ts) /\
  (exists ts, state_diff_t s p = Ok ts) /\
  (exists out, rows_formatted_t s start width = Ok out) /\
  (exists out, rows_diff_t s p start width = Ok out).
Print Assumptions C03_emitters.
Check C03_text_views : forall s start width sr sc er ecol r c,
  screen_ok s ->
  (exists t, contents_text s = Ok t) /\
  (exists out, rows_text s start width = Ok out) /\
  (exists t, contents_between s sr sc er ecol = Ok t) /\
  (exists o, visible_row (cur s) r = Ok o) /\
  (exists o, visible_cell (cur s) r c = Ok o).
Print Assumptions C03_text_views.
