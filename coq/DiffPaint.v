(* DiffPaint.v — Stage 1 of C02: the row painter of the diff emitter.
   Playing the tokens of Row::write_contents_diff (row_diff, no wrap carry) for a source row
   [src] against [prev] on a canvas receiver whose row i shows [prev] turns that row into [src]
   inside the window; nothing else on the receiver changes. *)
Require Import Tac ListN Utf8 Width Attrs Cell Row Grid Screen Vte Perform Term Emit
  RowInv GridInv TextInv ScreenInv ParseSer CellWf WfGrid WfVte WfInv EraseSpec SgrSpec MoveSpec PrintSpec
  CellBytes EmitSafe ObsSpec Recv RowPaint.
Open Scope N_scope.

(* ------------------------------------------------------------------ *)
(* 1. printing the text of a cell on an arbitrary slot                  *)
(* ------------------------------------------------------------------ *)
(* [plays_cell] of Recv.v asks for a free slot (slot_ok).  The diff emitter prints over whatever
   the previous screen had there: over the first half of a wide character (the second half
   becomes a SPACE cell) or, with a wide character, over the cell before a wide character (whose
   second half is blanked).  The only thing that never happens is printing on a second half. *)

Lemma put_raw_same rw j P (wide : bool) : j + (if wide then 2 else 1) <= len (cells rw) ->
  get (cells rw) j = Some P -> (wide = true -> get (cells rw) (j + 1) = Some cont_cell) ->
  put_raw rw j P wide = rw.
Proof.
  intros Hfit Hj Hc. apply row_ext; [|apply put_raw_wrapped].
  apply list_ext_get. intros k. rewrite put_raw_cells by exact Hfit.
  destruct (N.eqb_spec k j) as [->|Nj]; [now rewrite Hj|].
  destruct (N.eqb_spec k (j + 1)) as [->|Nj1]; cbn [andb]; [|reflexivity].
  destruct wide; [|reflexivity]. now rewrite Hc.
Qed.

(* what printing cell c with pen a at column j leaves in the row *)
Record printed (rw rw' : row) (j : N) (c : cell) (a : attrs) : Prop := mkPrinted {
  pt_at : get (cells rw') j = Some (painted c a);
  pt_cont : cwide c = true -> get (cells rw') (j + 1) = Some cont_cell;
  pt_far : forall k, k < j \/ j + adv_n c < k -> get (cells rw') k = get (cells rw) k;
  pt_next : fw (cells rw) (j + adv_n c - 1) = false ->
            get (cells rw') (j + adv_n c) = get (cells rw) (j + adv_n c);
  pt_unw : wrapped rw = false -> wrapped rw' = false }.

Theorem plays_cell_gen R l r j a rw c : cv R l r j -> get l r = Some rw ->
  cell_wf c -> cell_cap c -> has_contents c = true ->
  j + adv_n c <= gcols (g R) -> fc (cells rw) j = false ->
  exists rw', printed rw rw' j c a /\
    plays (rcv R l r j a) [TChars (ctext c)] (rcv R (set_at l r rw') r (j + adv_n c) a).
Proof.
  intros H Hg W Cap Hc Hfit Fcj.
  destruct (ctext c) as [|ch rest] eqn:Et; [unfold has_contents in Hc; rewrite Et in Hc; discriminate|].
  destruct (wf_cwidth c ch rest W Et) as (Ew & Ecw & Hw1).
  pose proof (wf_rest_zero _ _ _ W Et) as Hz. pose proof (wf_storable _ W) as Hs. rewrite Et in Hs. inv Hs.
  destruct (cv_get _ _ _ _ r H ltac:(apply H)) as (rw0 & Hg' & (Lrw & Okrw) & _). rewrite Hg in Hg'. inv Hg'.
  assert (adv_n c = if cwide c then 2 else 1) as Ea by reflexivity.
  assert (r < len l) as Hr by (eapply get_some_lt; eauto).
  pose proof (plays_char_fits R l r j a rw0 ch H Hg H2 Hw1 ltac:(lia)) as P1.
  rewrite Ew in P1.
  set (rw1 := place_row rw0 j ch (adv_n c) a) in *.
  assert (adv_n c = 1 \/ adv_n c = 2) as Hw12 by (rewrite Ea; destruct (cwide c); auto).
  assert (forall k, get (cells rw1) k = placed (cells rw0) j ch (adv_n c) a k) as Hpl.
  { intros k. unfold rw1. apply place_row_get; [exact Okrw|exact Hw12|lia]. }
  assert (len (cells rw1) = len (cells rw0)) as L1 by apply place_row_len.
  assert ((1 <? adv_n c) = cwide c) as Ew2 by (rewrite Ea; destruct (cwide c); reflexivity).
  assert (glyph ch a = mkCell [ch] (cwide c) false a) as Egl by (unfold glyph; now rewrite Ecw).
  assert (get (cells rw1) j = Some (mkCell [ch] (cwide c) false a)) as G1j.
  { rewrite Hpl. unfold placed. rewrite N.eqb_refl. now rewrite Egl. }
  assert (cwide c = true -> get (cells rw1) (j + 1) = Some cont_cell) as G1c.
  { intros Hwd. rewrite Hpl. unfold placed. destruct (N.eqb_spec (j + 1) j); [lia|].
    rewrite N.eqb_refl, Ew2, Hwd. reflexivity. }
  assert (put_raw rw1 j (mkCell [ch] (cwide c) false a) (cwide c) = rw1) as Eself.
  { apply put_raw_same; [rewrite L1, Lrw, <- Ea; exact Hfit|exact G1j|exact G1c]. }
  rewrite <- Eself in P1. rewrite Ea in P1.
  pose proof (plays_zero_run R l r j a rw1 (cwide c) rest [ch]) as PZ.
  rewrite <- Ea in PZ.
  assert (cv R (set_at l r (put_raw rw1 j (mkCell [ch] (cwide c) false a) (cwide c))) r (j + adv_n c)) as C1.
  { rewrite Ea. eapply plays_cv; [exact H|exact P1|]. apply toks_scalar_chars. constructor; [exact H2|constructor]. }
  specialize (PZ C1 Hr ltac:(rewrite L1, Lrw; exact Hfit) ltac:(discriminate) Hz H3).
  specialize (PZ ltac:(intros p z q E; apply (Cap ([ch] ++ p) z q); [rewrite Et, E; reflexivity|discriminate])).
  exists (put_raw rw1 j (mkCell ([ch] ++ rest) (cwide c) false a) (cwide c)).
  split.
  - assert (j + (if cwide c then 2 else 1) <= len (cells rw1)) as Hfit1 by (rewrite L1, Lrw, <- Ea; exact Hfit).
    split.
    + rewrite put_raw_cells by exact Hfit1. rewrite N.eqb_refl. unfold painted. now rewrite Et.
    + intros Hwd. rewrite put_raw_cells by exact Hfit1. destruct (N.eqb_spec (j + 1) j); [lia|].
      rewrite N.eqb_refl, Hwd. reflexivity.
    + intros k Hk. rewrite put_raw_cells by exact Hfit1.
      destruct (N.eqb_spec k j); [lia|]. destruct (N.eqb_spec k (j + 1)) as [->|Nk1]; cbn [andb].
      * destruct (cwide c) eqn:Ewd; [rewrite Ea in Hk; lia|]. rewrite Ea in Hk. lia.
      * rewrite Hpl. unfold placed. rewrite Fcj, Ew2.
        destruct (N.eqb_spec k j); [lia|]. destruct (N.eqb_spec k (j + 1)); [lia|]. cbn [andb].
        rewrite andb_false_r.
        destruct (N.eqb_spec k (j + 2)) as [->|Nk2]; cbn [andb]; [|reflexivity].
        destruct (cwide c) eqn:Ewd; cbn [andb]; [rewrite Ea in Hk; lia|reflexivity].
    + intros Hfw. rewrite put_raw_cells by exact Hfit1. rewrite Hpl. unfold placed. rewrite Fcj, Ew2.
      rewrite Ea in *. destruct (cwide c) eqn:Ewd.
      * destruct (N.eqb_spec (j + 2) j); [lia|]. destruct (N.eqb_spec (j + 2) (j + 1)); [lia|]. cbn [andb].
        rewrite andb_false_r. rewrite N.eqb_refl. replace (j + 2 - 1) with (j + 1) in Hfw by lia.
        rewrite Hfw. reflexivity.
      * destruct (N.eqb_spec (j + 1) j); [lia|]. rewrite N.eqb_refl. cbn [andb].
        rewrite andb_false_r. replace (j + 1 - 1) with j in Hfw by lia. rewrite Hfw. cbn [andb].
        destruct (N.eqb_spec (j + 1) (j + 2)); [lia|reflexivity].
    + intros Hun. rewrite put_raw_wrapped. unfold rw1. rewrite place_row_wrapped, Hun.
      destruct (_ && _); reflexivity.
  - eapply plays_chars_cons; [exact P1|]. rewrite <- Ea. exact PZ.
Qed.

(* ------------------------------------------------------------------ *)
(* 2. the row painter                                                   *)
(* ------------------------------------------------------------------ *)
Section DiffPaint.
Variable R : screen.
Variable i : N.
Variables src prev : row.
Variable start : N.
Variable l0 : list row.
Variable ri0 : row.
Variables r0 c0 : N.
Variable a0 : attrs.

Local Notation cols := (gcols (g R)).
Local Notation rows := (grows (g R)).
Local Notation sc := (cells src).
Local Notation pcs := (cells prev).

Hypothesis Hi : i < rows.
Hypothesis Hsrc : srow_ok cols src.
Hypothesis Hprev : srow_ok cols prev.
Hypothesis Hstart : start < cols.
Hypothesis Halign : fc sc start = false.
Hypothesis Hpalign : fc pcs start = false.
Hypothesis Hcv0 : cv R l0 r0 c0.
Hypothesis Hpen0 : pen_ok a0.
Hypothesis Hri0 : get l0 i = Some ri0.
Hypothesis Hcells0 : cells ri0 = pcs.
Hypothesis Hunw0 : wrapped ri0 = false.

(* the receiver row while the emitter stands at boundary b: the window reproduced before b, the
   previous contents after b; the cell AT b is the previous one unless that was the second half
   of a wide character whose first half has just been overwritten or erased *)
Record dinvrow (ri : row) (b : N) : Prop := mkDinvrow {
  dv_unw : wrapped ri = false;
  dv_pre : forall k, k < start -> get (cells ri) k = get pcs k;
  dv_mid : forall k, start <= k < b -> get (cells ri) k = get sc k;
  dv_post : forall k, b < k -> get (cells ri) k = get pcs k;
  dv_at : fc pcs b = false -> get (cells ri) b = get pcs b }.

Definition drun_ok (j : N) (e : est) : Prop :=
  match eerase e with
  | Some (pc, ea) => start <= pc /\ pc < j /\ pen_ok ea /\
                     forall k, pc <= k < j -> get sc k = Some (EraseSpec.blank ea)
  | None => True
  end.

Definition dinv (j : N) (pw : bool) (e : est) : Prop :=
  exists ri,
    plays (rcv R l0 r0 c0 a0) (eout e) (rcv R (set_at l0 i ri) (er e) (ec e) (eattrs e)) /\
    cv R (set_at l0 i ri) (er e) (ec e) /\
    dinvrow ri (bnd j pw e) /\ pen_ok (eattrs e) /\ drun_ok j e /\
    fc sc j = pw /\ start <= j /\ bnd j pw e <= cols /\ (pw = true -> eerase e = None).

Lemma dp_dims : 1 <= rows <= MAXDIM /\ 1 <= cols <= MAXDIM.
Proof. exact (cv_dims _ _ _ _ Hcv0). Qed.

Lemma dp_get_i ri : get (set_at l0 i ri) i = Some ri.
Proof.
  rewrite get_set_at. destruct (N.eqb_spec i i); [|lia].
  assert (len l0 = rows) as -> by apply Hcv0.
  destruct (N.ltb_spec i rows); [reflexivity|lia].
Qed.

Lemma dp_ri_ok ri r c : cv R (set_at l0 i ri) r c -> row_ok cols ri /\ row_wf ri.
Proof.
  intros Hcv. destruct (cv_get _ _ _ _ i Hcv Hi) as (x & Gx & Ok' & Wf'). rewrite dp_get_i in Gx. inv Gx. auto.
Qed.

Lemma dp_src_get j : j < cols -> exists c, get sc j = Some c /\ cell_wf c /\ cell_cap c /\ pen_ok (cattrs c).
Proof.
  intros Hj. destruct Hsrc as [L O W C P]. destruct (get_lt_some sc j) as (c & Hc); [lia|].
  exists c. split; [exact Hc|]. split; [eapply row_wf_get; eauto|].
  split; [exact (Forall_get _ _ _ _ C Hc)|exact (Forall_get _ _ _ _ P Hc)].
Qed.

(* a wide cell of the receiver at or after the boundary is a wide cell of prev *)
Lemma dp_fw_ge ri b k : row_ok cols ri -> dinvrow ri b -> b <= k -> fw (cells ri) k = true ->
  fc pcs (k + 1) = true.
Proof.
  intros [Lri Okri] [U P M Q A] Hk Hfw.
  pose proof (sr_ok _ _ Hprev) as Okp.
  destruct (N.eq_dec k b) as [->|Hne].
  - destruct (fc pcs b) eqn:Efc.
    + exfalso. rewrite (ok_pair _ Okri b) in Hfw. unfold fc in Hfw at 1. rewrite (Q (b + 1)) in Hfw by lia.
      change (fc pcs (b + 1) = true) in Hfw. rewrite <- (ok_pair _ Okp b) in Hfw.
      pose proof (ok_both _ Okp b) as B. rewrite Hfw, Efc in B. discriminate.
    + rewrite <- (ok_pair _ Okp b). unfold fw in *. rewrite <- (A eq_refl). exact Hfw.
  - rewrite <- (ok_pair _ Okp k). unfold fw in *. rewrite <- (Q k) by lia. exact Hfw.
Qed.

(* the receiver cell at the boundary is never a second half *)
Lemma dp_fc_at ri b : row_ok cols ri -> dinvrow ri b -> start <= b -> fc sc b = false ->
  fc (cells ri) b = false.
Proof.
  intros [Lri Okri] [U P M Q A] Hb Hfc.
  destruct (N.eq_dec b start) as [->|Hne].
  - unfold fc at 1. rewrite (A Hpalign). exact Hpalign.
  - pose proof (ok_pair _ Okri (b - 1)) as E. replace (b - 1 + 1) with b in E by lia. rewrite <- E.
    unfold fw. rewrite (M (b - 1)) by lia. change (fw sc (b - 1) = false).
    rewrite (ok_pair _ (sr_ok _ _ Hsrc) (b - 1)). replace (b - 1 + 1) with b by lia. exact Hfc.
Qed.

(* moving the boundary over cells that already agree *)
Lemma dinvrow_adv ri b b' : dinvrow ri b -> b <= b' ->
  (forall k, b <= k < b' -> get (cells ri) k = get sc k) -> dinvrow ri b'.
Proof.
  intros [U P M Q A] Hb Hk. split; auto.
  - intros k Hr. destruct (N.lt_ge_cases k b); [apply M; lia|apply Hk; lia].
  - intros k Hr. apply Q. lia.
  - intros Hf. destruct (N.eq_dec b' b) as [->|]; [now apply A|apply Q; lia].
Qed.

Lemma dp_move e ri tc : cv R (set_at l0 i ri) (er e) (ec e) -> tc < cols ->
  exists ts, e_move e i tc = Ok (e_out e ts) /\ toks_scalar ts /\
    plays (rcv R (set_at l0 i ri) (er e) (ec e) (eattrs e)) ts (rcv R (set_at l0 i ri) i tc (eattrs e)) /\
    cv R (set_at l0 i ri) i tc.
Proof.
  intros Hcv Htc. destruct dp_dims as [D1 D2]. unfold MAXDIM in *.
  pose proof (cv_r _ _ _ _ Hcv) as Hr.
  unfold e_move.
  destruct (t_move_from_to_ok (er e) (ec e) i tc) as (ts & Ets); try (unfold POSMAX; lia).
  rewrite Ets. cbn [bind]. exists ts. split; [reflexivity|].
  split; [eapply move_toks_scalar; eauto|].
  split; [eapply plays_move_from_to; eauto|]. eapply cv_pos; eauto. lia.
Qed.

(* erasing [pc, hi) at the boundary pc *)
Lemma erased_dinvrow ri ri' pc hi ea : row_ok cols ri -> dinvrow ri pc -> start <= pc -> pc < hi -> hi <= cols ->
  fc sc pc = false -> (forall k, pc <= k < hi -> get sc k = Some (EraseSpec.blank ea)) ->
  erased ea cols pc hi ri ri' -> dinvrow ri' hi.
Proof.
  intros Okri Hri Hst Hlt Hhi Hfc Hrun [EC EW].
  pose proof (dp_fc_at ri pc Okri Hri Hst Hfc) as Fri.
  assert (forall k, cut_lo (cells ri) pc hi k = false) as NL.
  { intros k. unfold cut_lo. rewrite Fri. apply andb_false_r. }
  assert (forall k, k <> hi -> cut (cells ri) pc hi k = false) as NC.
  { intros k Hk. unfold cut. rewrite NL. unfold cut_hi. destruct (N.eqb_spec k hi); [lia|].
    rewrite andb_false_r. reflexivity. }
  destruct Hri as [U P M Q A]. split.
  - rewrite EW, U. destruct (blanked _ _ _ _); reflexivity.
  - intros k Hk. rewrite EC. unfold erased_cell, in_rng. destruct (N.leb_spec pc k); [lia|]. cbn [andb].
    rewrite NC by lia. now apply P.
  - intros k Hk. rewrite EC. unfold erased_cell, in_rng.
    destruct (N.leb_spec pc k); cbn [andb].
    + destruct (N.ltb_spec k hi); [|lia]. symmetry. apply Hrun. lia.
    + rewrite NC by lia. apply M. lia.
  - intros k Hk. rewrite EC. unfold erased_cell, in_rng.
    destruct (N.ltb_spec k hi); [lia|]. rewrite andb_false_r. rewrite NC by lia. apply Q. lia.
  - intros Hf. rewrite EC. unfold erased_cell, in_rng.
    destruct (N.ltb_spec hi hi); [lia|]. rewrite andb_false_r.
    assert (cut (cells ri) pc hi hi = false) as ->; [|apply Q; lia].
    unfold cut. rewrite NL. unfold cut_hi. cbn [orb].
    destruct (fw (cells ri) (hi - 1)) eqn:Efw; [|apply andb_false_r].
    exfalso. pose proof (dp_fw_ge ri pc (hi - 1) Okri (mkDinvrow ri pc U P M Q A) ltac:(lia) Efw) as C.
    replace (hi - 1 + 1) with hi in C by lia. congruence.
Qed.

(* the receiver row at the end: prev before the window, src inside it *)
Record dpainted (ri : row) (hi : N) : Prop := mkDpainted {
  dq_unw : wrapped ri = false;
  dq_pre : forall k, k < start -> get (cells ri) k = get pcs k;
  dq_mid : forall k, start <= k < hi -> get (cells ri) k = get sc k }.

(* erasing [pc, hi) when the run is only known up to m <= hi (a window ending inside the row:
   EL also clears what follows the window) *)
Lemma erased_dpainted ri ri' pc hi m ea : row_ok cols ri -> dinvrow ri pc -> start <= pc -> pc < m -> m <= hi ->
  fc sc pc = false -> (forall k, pc <= k < m -> get sc k = Some (EraseSpec.blank ea)) ->
  erased ea cols pc hi ri ri' -> dpainted ri' m.
Proof.
  intros Okri Hri Hst Hlt Hhi Hfc Hrun [EC EW].
  pose proof (dp_fc_at ri pc Okri Hri Hst Hfc) as Fri.
  assert (forall k, k < hi -> cut (cells ri) pc hi k = false) as NC.
  { intros k Hk. unfold cut, cut_lo, cut_hi. rewrite Fri. destruct (N.eqb_spec k hi); [lia|].
    rewrite !andb_false_r. reflexivity. }
  destruct Hri as [U P M Q A]. split.
  - rewrite EW, U. destruct (blanked _ _ _ _); reflexivity.
  - intros k Hk. rewrite EC. unfold erased_cell, in_rng. destruct (N.leb_spec pc k); [lia|]. cbn [andb].
    rewrite NC by lia. now apply P.
  - intros k Hk. rewrite EC. unfold erased_cell, in_rng.
    destruct (N.leb_spec pc k); cbn [andb].
    + destruct (N.ltb_spec k hi); [|lia]. symmetry. apply Hrun. lia.
    + rewrite NC by lia. apply M. lia.
Qed.

Lemma dp_flush e ri pc ea stop hi :
  plays (rcv R l0 r0 c0 a0) (eout e) (rcv R (set_at l0 i ri) (er e) (ec e) (eattrs e)) ->
  cv R (set_at l0 i ri) (er e) (ec e) -> pen_ok ea ->
  (stop = Some hi /\ pc < hi <= cols) \/ (stop = None /\ hi = cols /\ pc < cols) ->
  exists e' ri',
    flush_erase true false cols i e pc ea stop = Ok e' /\
    plays (rcv R l0 r0 c0 a0) (eout e') (rcv R (set_at l0 i ri') i pc ea) /\
    cv R (set_at l0 i ri') i pc /\
    er e' = i /\ ec e' = pc /\ eattrs e' = ea /\ eerase e' = None /\
    row_ok cols ri /\ erased ea cols pc hi ri ri'.
Proof.
  intros Hp Hcv Pea Hstop. destruct dp_dims as [D1 D2]. unfold MAXDIM in *.
  assert (pc < hi /\ hi <= cols) as [Hlt Hhi] by (destruct Hstop as [(_ & ?)|(_ & -> & ?)]; lia).
  destruct (dp_move e ri pc Hcv ltac:(lia)) as (ts & Em & Sc & Pm & Cm).
  unfold flush_erase. cbn [bind]. rewrite Em. cbn [bind].
  set (e1 := e_pos (e_out e ts) i pc).
  destruct (eout_e_attrs_plays R (set_at l0 i ri) i pc e1 ea Pea) as (ts2 & Eo2 & Sc2 & P2 & Ea2).
  change (eattrs e1) with (eattrs e) in P2. change (eout e1) with (eout e ++ ts) in Eo2.
  rewrite Ea2 in P2.
  destruct (dp_ri_ok ri _ _ Cm) as [Okri Wri].
  pose proof (dp_get_i ri) as Gi.
  destruct Hstop as [(-> & _)|(-> & Ehi & _)].
  - rewrite sub16_ok by lia. cbn [bind].
    destruct (plays_ech R (set_at l0 i ri) i pc ea (hi - pc) ri Cm Gi Wri ltac:(lia))
      as (rw' & Er & Ok' & W' & P3).
    replace (N.min (pc + (hi - pc)) cols) with hi in Er by lia.
    rewrite set_at_set_at in P3.
    eexists _, rw'. split; [reflexivity|].
    cbn [e_erase e_out eout er ec eattrs eerase]. rewrite er_e_attrs, ec_e_attrs, Ea2, Eo2.
    split; [|split; [|do 4 (split; [reflexivity|]); split; [exact Okri|exact Er]]].
    + rewrite <- !app_assoc. eapply plays_app; [exact Hp|]. eapply plays_app; [exact Pm|].
      eapply plays_app; [exact P2|exact P3].
    + eapply plays_cv; [exact Cm|exact P3|apply erase_toks_scalar].
  - subst hi. destruct (plays_el0 R (set_at l0 i ri) i pc ea ri Cm Gi Wri) as (rw' & Er & Ok' & W' & P3).
    rewrite set_at_set_at in P3.
    eexists _, rw'. split; [reflexivity|].
    cbn [e_erase e_out eout er ec eattrs eerase]. rewrite er_e_attrs, ec_e_attrs, Ea2, Eo2.
    split; [|split; [|do 4 (split; [reflexivity|]); split; [exact Okri|exact Er]]].
    + rewrite <- !app_assoc. eapply plays_app; [exact Hp|]. eapply plays_app; [exact Pm|].
      eapply plays_app; [exact P2|exact P3].
    + eapply plays_cv; [exact Cm|exact P3|]. apply toks_scalar_nochars. intros cs Hin. cbn in Hin; intuition discriminate.
Qed.

(* closing the run at column j keeps the invariant *)
Lemma dp_flush_inv j e pc ea : dinv j false e -> eerase e = Some (pc, ea) -> j <= cols ->
  exists e', flush_erase true false cols i e pc ea (Some j) = Ok e' /\ dinv j false e' /\ eerase e' = None.
Proof.
  intros (ri & Hp & Hcv & Hri & Pa & Hrun & Hfc & Hst & Hb & Hpw) Ee Hj.
  unfold drun_ok in Hrun. unfold bnd in Hri, Hb. rewrite Ee in Hrun, Hri, Hb.
  destruct Hrun as (R1 & R2 & R3 & R4).
  destruct (dp_flush e ri pc ea (Some j) j Hp Hcv R3) as (e' & ri' & Ef & P' & C' & E1 & E2 & E3 & E4 & Okri & Er).
  { left. split; [reflexivity|lia]. }
  assert (fc sc pc = false) as Hfcp by (unfold fc; rewrite (R4 pc) by lia; reflexivity).
  pose proof (erased_dinvrow ri ri' pc j ea Okri Hri R1 R2 Hj Hfcp R4 Er) as Hri'.
  exists e'. split; [exact Ef|]. split; [|exact E4].
  exists ri'. rewrite E1, E2, E3. unfold bnd, drun_ok. rewrite E4.
  split; [exact P'|]. split; [exact C'|]. split; [exact Hri'|]. split; [exact R3|]. split; [exact I|].
  split; [exact Hfc|]. split; [exact Hst|]. split; [lia|]. discriminate.
Qed.

(* the first phase of emit_cell *)
Lemma dp_phase1 j e c : dinv j false e -> get sc j = Some c -> j < cols ->
  exists e1,
    match eerase e with
    | Some (pc, a) =>
        if has_contents c || negb (attrs_eqb (cattrs c) a)
        then flush_erase true false cols i e pc a (Some j) else Ok e
    | None => Ok e
    end = Ok e1 /\ dinv j false e1 /\
    (eerase e1 = None \/ exists pc, eerase e1 = Some (pc, cattrs c) /\ has_contents c = false).
Proof.
  intros Hinv Hc Hj. destruct (eerase e) as [[pc a]|] eqn:Ee.
  - destruct (has_contents c) eqn:Hhc; cbn [orb].
    + destruct (dp_flush_inv j e pc a Hinv Ee ltac:(lia)) as (e' & Ef & Hi' & En). exists e'. auto.
    + destruct (attrs_eqb (cattrs c) a) eqn:Ea; cbn [negb].
      * apply attrs_eqb_eq in Ea. subst a. exists e. split; [reflexivity|]. split; [exact Hinv|]. right. eauto.
      * destruct (dp_flush_inv j e pc a Hinv Ee ltac:(lia)) as (e' & Ef & Hi' & En). exists e'. auto.
  - exists e. auto.
Qed.

Lemma dp_fc_next j c : get sc j = Some c -> fc sc (j + 1) = cwide c.
Proof. intros H. rewrite <- (ok_pair _ (sr_ok _ _ Hsrc) j). now apply fw_get. Qed.

(* the second half of a wide cell: the same cell in every well-formed row *)
Lemma dp_cont_next (rw : row) j c : srow_ok cols rw -> get (cells rw) j = Some c -> cwide c = true ->
  get (cells rw) (j + 1) = Some cont_cell.
Proof.
  intros Hrw Hc Hw. destruct (ok_wide_next _ _ _ (sr_ok _ _ Hrw) Hc Hw) as (d & Hd & Dc & _).
  rewrite Hd. f_equal. apply wf_cont_cell; [|exact Dc]. eapply row_wf_get; [apply (sr_wf _ _ Hrw)|exact Hd].
Qed.

(* a skipped cell (equal in src and prev) *)
Lemma dp_skip j e c : dinv j false e -> get sc j = Some c -> get pcs j = Some c -> j < cols ->
  cell_wf c ->
  (eerase e = None \/ exists pc, eerase e = Some (pc, cattrs c) /\ has_contents c = false) ->
  dinv (j + 1) (cwide c) e.
Proof.
  intros (ri & Hp & Hcv & Hri & Pa & Hrun & Hfc & Hst & Hb & Hpw) Hc Hpc Hj Wc Hcase.
  assert (ccont c = false) as Hk by (rewrite <- (fc_get _ _ _ Hc); exact Hfc).
  exists ri. split; [exact Hp|]. split; [exact Hcv|].
  destruct Hcase as [En|(pc & Ee & Hhc)].
  - unfold bnd, drun_ok in *. rewrite En in *.
    split; [|split; [exact Pa|split; [exact I|]]].
    + eapply dinvrow_adv; [exact Hri|destruct (cwide c); lia|].
      intros k Hk'. assert (fc pcs j = false) as Fp by (rewrite (fc_get _ _ _ Hpc); exact Hk).
      destruct (N.eq_dec k j) as [->|Hne].
      * rewrite (dv_at _ _ Hri Fp). congruence.
      * destruct (cwide c) eqn:Ew; [|lia]. assert (k = j + 1) as -> by lia.
        rewrite (dv_post _ _ Hri) by lia.
        rewrite (dp_cont_next src j c Hsrc Hc Ew), (dp_cont_next prev j c Hprev Hpc Ew). reflexivity.
    + split; [apply (dp_fc_next j c Hc)|]. split; [lia|]. split; [|reflexivity].
      pose proof (adv_fits _ _ _ (sr_ok _ _ Hsrc) Hc) as Hfit. rewrite (sr_len _ _ Hsrc) in Hfit.
      unfold adv_n in Hfit. destruct (cwide c); lia.
  - assert (cwide c = false) as Ew.
    { destruct Wc as (_ & _ & W3 & _). apply W3. unfold has_contents in Hhc. destruct (ctext c); [reflexivity|discriminate]. }
    pose proof (wf_empty_blank c Wc Hhc Hk) as Eb.
    rewrite Ew. unfold bnd, drun_ok in *. rewrite Ee in *. destruct Hrun as (R1 & R2 & R3 & R4).
    split; [exact Hri|]. split; [exact Pa|]. split.
    { split; [exact R1|]. split; [lia|]. split; [exact R3|]. intros k Hk'.
      destruct (N.eq_dec k j) as [->|]; [now rewrite Hc, Eb at 1|apply R4; lia]. }
    split; [rewrite (dp_fc_next j c Hc); exact Ew|]. split; [lia|]. split; [lia|]. discriminate.
Qed.

(* an empty cell that differs from prev: opens or continues an erase run *)
Lemma dp_run j e c : dinv j false e -> get sc j = Some c -> j < cols -> has_contents c = false ->
  cell_wf c -> pen_ok (cattrs c) ->
  (eerase e = None \/ exists pc, eerase e = Some (pc, cattrs c)) ->
  dinv (j + 1) false (match eerase e with None => e_erase e (Some (j, cattrs c)) | Some _ => e end).
Proof.
  intros (ri & Hp & Hcv & Hri & Pa & Hrun & Hfc & Hst & Hb & Hpw) Hc Hj Hhc Wc Pc Hcase.
  assert (ccont c = false) as Hk by (rewrite <- (fc_get _ _ _ Hc); exact Hfc).
  pose proof (wf_empty_blank c Wc Hhc Hk) as Eb.
  assert (fc sc (j + 1) = false) as Hfc'.
  { rewrite (dp_fc_next j _ Hc). rewrite Eb. reflexivity. }
  destruct Hcase as [En|(pc & Ee)].
  - rewrite En. exists ri. unfold bnd, drun_ok in *. rewrite En in *.
    cbn [e_erase eout er ec eattrs eerase].
    split; [exact Hp|]. split; [exact Hcv|]. split; [exact Hri|]. split; [exact Pa|]. split.
    { split; [exact Hst|]. split; [lia|]. split; [exact Pc|]. intros k Hk'. assert (k = j) as -> by lia. now rewrite Hc, Eb at 1. }
    split; [exact Hfc'|]. split; [lia|]. split; [lia|]. discriminate.
  - rewrite Ee. exists ri. unfold bnd, drun_ok in *. rewrite Ee in *. destruct Hrun as (R1 & R2 & R3 & R4).
    split; [exact Hp|]. split; [exact Hcv|]. split; [exact Hri|]. split; [exact Pa|]. split.
    { split; [exact R1|]. split; [lia|]. split; [exact R3|]. intros k Hk'.
      destruct (N.eq_dec k j) as [->|]; [now rewrite Hc, Eb at 1|apply R4; lia]. }
    split; [exact Hfc'|]. split; [lia|]. split; [lia|]. discriminate.
Qed.

(* a cell with contents: moved to, pen set, text printed over whatever prev had there *)
Lemma dp_print j e c : dinv j false e -> eerase e = None -> get sc j = Some c -> j < cols ->
  has_contents c = true -> cell_wf c -> cell_cap c -> pen_ok (cattrs c) ->
  exists e',
    (do e2 <- (if (er e =? i) && (ec e =? j) then Ok e
               else
                 do need <- Ok true;
                 do e' <- (if need then e_move e i j else Ok e);
                 Ok (e_pos e' i j));
     let e3 := e_attrs e2 (cattrs c) in
     do nc <- add16 (ec e3) (adv_n c);
     Ok (e_out (e_pos e3 (er e3) nc) [TChars (ctext c)])) = Ok e' /\
    dinv (j + 1) (cwide c) e'.
Proof.
  intros (ri & Hp & Hcv & Hri & Pa & Hrun & Hfc & Hst & Hb & Hpw) En Hc Hj Hhc Wc Cc Pc.
  destruct dp_dims as [D1 D2]. unfold MAXDIM in *.
  unfold bnd in Hri, Hb. rewrite En in Hri, Hb.
  pose proof (adv_fits _ _ _ (sr_ok _ _ Hsrc) Hc) as Hfit. rewrite (sr_len _ _ Hsrc) in Hfit.
  (* arrive at (i, j) *)
  assert (exists e2, (if (er e =? i) && (ec e =? j) then Ok e
                      else do need <- Ok true; do e' <- (if need then e_move e i j else Ok e); Ok (e_pos e' i j)) = Ok e2 /\
            er e2 = i /\ ec e2 = j /\ eattrs e2 = eattrs e /\ eerase e2 = None /\
            plays (rcv R l0 r0 c0 a0) (eout e2) (rcv R (set_at l0 i ri) i j (eattrs e)) /\
            cv R (set_at l0 i ri) i j) as (e2 & -> & E1 & E2 & E3 & E4 & Pn & Cn).
  { destruct (N.eqb_spec (er e) i) as [Ei|Ni]; [destruct (N.eqb_spec (ec e) j) as [Ej|Nj]|]; cbn [andb bind].
    - exists e. rewrite Ei, Ej in Hp, Hcv. split; [reflexivity|]. split; [exact Ei|]. split; [exact Ej|].
      split; [reflexivity|]. split; [exact En|]. split; [exact Hp|exact Hcv].
    - destruct (dp_move e ri j Hcv Hj) as (ts & -> & Sc & Pm & Cm). cbn [bind].
      eexists; split; [reflexivity|]. cbn [e_pos e_out er ec eattrs eerase eout].
      do 3 (split; [reflexivity|]). split; [exact En|]. split; [eapply plays_app; eauto|exact Cm].
    - destruct (dp_move e ri j Hcv Hj) as (ts & -> & Sc & Pm & Cm). cbn [bind].
      eexists; split; [reflexivity|]. cbn [e_pos e_out er ec eattrs eerase eout].
      do 3 (split; [reflexivity|]). split; [exact En|]. split; [eapply plays_app; eauto|exact Cm]. }
  cbn [bind]. cbv zeta.
  rewrite ec_e_attrs, er_e_attrs, E1, E2. rewrite add16_ok by (pose proof (adv_n_le c); lia). cbn [bind].
  eexists; split; [reflexivity|].
  destruct (dp_ri_ok ri _ _ Cn) as [Okri Wri].
  pose proof (dp_fc_at ri j Okri Hri Hst Hfc) as Fri.
  destruct (eout_e_attrs_plays R (set_at l0 i ri) i j e2 (cattrs c) Pc) as (ts2 & Eo2 & Sc2 & P2 & Ea2).
  rewrite E3, Ea2 in P2.
  destruct (plays_cell_gen R (set_at l0 i ri) i j (cattrs c) ri c Cn (dp_get_i ri) Wc Cc Hhc Hfit Fri)
    as (ri' & [T1 T2 T3 T4 T5] & P3).
  rewrite set_at_set_at in P3.
  exists ri'. unfold bnd, drun_ok.
  cbn [e_out e_pos eout er ec eattrs eerase]. rewrite !eerase_e_attrs, !E4.
  rewrite Ea2, Eo2.
  split; [eapply plays_app; [eapply plays_app; [exact Pn|exact P2]|exact P3]|].
  split; [eapply plays_cv; [exact Cn|exact P3|]; apply toks_scalar_chars, (wf_storable _ Wc)|].
  assert ((if cwide c then j + 1 + 1 else j + 1) = j + adv_n c) as Eb by (unfold adv_n; destruct (cwide c); lia).
  rewrite Eb.
  split; [|split; [exact Pc|split; [exact I|split; [apply (dp_fc_next j c Hc)|split; [lia|split; [lia|reflexivity]]]]]].
  pose proof (adv_n_le c) as Hadv.
  split.
  - apply T5, (dv_unw _ _ Hri).
  - intros k Hk. rewrite T3 by lia. apply (dv_pre _ _ Hri), Hk.
  - intros k Hk. destruct (N.lt_ge_cases k j) as [Hl|Hg].
    + rewrite T3 by lia. apply (dv_mid _ _ Hri). lia.
    + destruct (N.eq_dec k j) as [->|Nk].
      * rewrite T1, (painted_self c Wc Hhc). now rewrite Hc.
      * assert (k = j + 1 /\ cwide c = true) as [-> Ew] by (unfold adv_n in Hk; destruct (cwide c); split; auto; lia).
        rewrite (T2 Ew). symmetry. exact (dp_cont_next src j c Hsrc Hc Ew).
  - intros k Hk. rewrite T3 by lia. apply (dv_post _ _ Hri). lia.
  - intros Hf. rewrite T4.
    + apply (dv_post _ _ Hri). lia.
    + destruct (fw (cells ri) (j + adv_n c - 1)) eqn:Efw; [|reflexivity]. exfalso.
      pose proof (dp_fw_ge ri j (j + adv_n c - 1) Okri Hri ltac:(lia) Efw) as C.
      replace (j + adv_n c - 1 + 1) with (j + adv_n c) in C by lia. congruence.
Qed.

(* one cell of the loop; p is the cell of prev in that column *)
Lemma dp_emit_cell j e c p : dinv j false e -> get sc j = Some c -> get pcs j = Some p -> j < cols ->
  exists e', emit_cell true false cols i e j c (cell_eqb c p) = Ok e' /\ dinv (j + 1) (cwide c) e'.
Proof.
  intros Hinv Hc Hp Hj. destruct (dp_src_get j Hj) as (c' & Hc' & Wc & Cc & Pc). rewrite Hc in Hc'. inv Hc'.
  unfold emit_cell.
  destruct (dp_phase1 j e c' Hinv Hc Hj) as (e1 & -> & Hinv1 & Hcase). cbn [bind].
  destruct (cell_eqb c' p) eqn:Esk.
  - apply cell_eqb_eq in Esk. subst p. eexists; split; [reflexivity|].
    apply dp_skip; auto.
  - destruct (has_contents c') eqn:Hhc.
    + destruct Hcase as [En|(pc & _ & ?)]; [|discriminate].
      exact (dp_print j e1 c' Hinv1 En Hc Hj Hhc Wc Cc Pc).
    + assert (cwide c' = false) as ->.
      { destruct Wc as (_ & _ & W3 & _). apply W3. unfold has_contents in Hhc. destruct (ctext c'); [reflexivity|discriminate]. }
      pose proof (dp_run j e1 c' Hinv1 Hc Hj Hhc Wc Pc) as Hr.
      destruct (eerase e1) as [[pc a]|] eqn:Ee1.
      * eexists; split; [reflexivity|]. apply Hr. destruct Hcase as [?|(pc' & E & _)]; [discriminate|]. right. inv E. eauto.
      * eexists; split; [reflexivity|]. apply Hr. now left.
Qed.

(* the second half of a wide cell of src is skipped by the loop *)
Lemma dp_cont_skip j e : dinv j true e -> j < cols -> dinv (j + 1) false e.
Proof.
  intros (ri & Hp & Hcv & Hri & Pa & Hrun & Hfc & Hst & Hb & Hpw) Hj.
  pose proof (Hpw eq_refl) as En. unfold bnd, drun_ok in *. rewrite En in *.
  apply fc_true in Hfc as (d & Hd & Dc).
  destruct (ok_cont_prev _ _ _ (sr_ok _ _ Hsrc) Hd Dc) as (Hpos & d' & Hd' & Dw' & _ & Dw).
  exists ri. unfold bnd, drun_ok. rewrite !En.
  split; [exact Hp|]. split; [exact Hcv|]. split; [exact Hri|]. split; [exact Pa|]. split; [exact I|].
  split; [rewrite (dp_fc_next j d Hd); exact Dw|]. split; [lia|]. split; [exact Hb|]. discriminate.
Qed.

Lemma dp_emit_loop : forall zs j pw e, dinv j pw e ->
  (forall k, k < len zs -> exists c p, get zs k = Some (c, p) /\ get sc (j + k) = Some c /\ get pcs (j + k) = Some p) ->
  j + len zs <= cols ->
  exists e' pw', emit_loop true false cols i (map (fun cp : cell * cell => (fst cp, cell_eqb (fst cp) (snd cp))) zs) j pw e = Ok e' /\
                 dinv (j + len zs) pw' e'.
Proof.
  induction zs as [|[c p] zs IH]; intros j pw e Hinv Hseg Hlen.
  - exists e, pw. split; [reflexivity|]. rewrite len_nil. replace (j + 0) with j by lia. exact Hinv.
  - rewrite len_cons in *. cbn [map emit_loop fst snd].
    assert (get sc j = Some c /\ get pcs j = Some p) as [Hc Hp].
    { destruct (Hseg 0 ltac:(lia)) as (c' & p' & G & G1 & G2). replace (j + 0) with j in * by lia.
      rewrite get_cons in G. cbn in G. inv G. auto. }
    assert (forall k, k < len zs -> exists c p, get zs k = Some (c, p) /\ get sc (j + 1 + k) = Some c /\ get pcs (j + 1 + k) = Some p) as Hseg'.
    { intros k Hk. destruct (Hseg (k + 1) ltac:(lia)) as (c' & p' & G & G1 & G2). rewrite get_cons in G.
      destruct (N.eqb_spec (k + 1) 0); [lia|]. replace (k + 1 - 1) with k in G by lia.
      replace (j + 1 + k) with (j + (k + 1)) by lia. eauto. }
    destruct pw.
    + destruct (IH (j + 1) false e (dp_cont_skip j e Hinv ltac:(lia)) Hseg' ltac:(lia)) as (e' & pw' & E & Hi').
      exists e', pw'. split; [exact E|]. replace (j + (len zs + 1)) with (j + 1 + len zs) by lia. exact Hi'.
    + destruct (dp_emit_cell j e c p Hinv Hc Hp ltac:(lia)) as (e1 & -> & Hi1). cbn [bind].
      destruct (IH (j + 1) (cwide c) e1 Hi1 Hseg' ltac:(lia)) as (e' & pw' & E & Hi').
      exists e', pw'. split; [exact E|]. replace (j + (len zs + 1)) with (j + 1 + len zs) by lia. exact Hi'.
Qed.

Lemma dp_finish j pw e : dinv j pw e -> j <= cols ->
  exists e' ri, finish_erase true false cols i e = Ok e' /\
    plays (rcv R l0 r0 c0 a0) (eout e') (rcv R (set_at l0 i ri) (er e') (ec e') (eattrs e')) /\
    cv R (set_at l0 i ri) (er e') (ec e') /\ pen_ok (eattrs e') /\
    dpainted ri j.
Proof.
  intros (ri & Hp & Hcv & Hri & Pa & Hrun & Hfc & Hst & Hb & Hpw) Hj.
  unfold finish_erase. destruct (eerase e) as [[pc ea]|] eqn:Ee.
  - unfold drun_ok, bnd in *. rewrite Ee in *. destruct Hrun as (R1 & R2 & R3 & R4).
    destruct (dp_flush e ri pc ea None cols Hp Hcv R3) as (e' & ri' & Ef & P' & C' & E1 & E2 & E3 & E4 & Okri & Er).
    { right. repeat split; auto. lia. }
    assert (fc sc pc = false) as Hfcp by (unfold fc; rewrite (R4 pc) by lia; reflexivity).
    exists e', ri'. split; [exact Ef|]. rewrite E1, E2, E3.
    split; [exact P'|]. split; [exact C'|]. split; [exact R3|].
    exact (erased_dpainted ri ri' pc cols j ea Okri Hri R1 R2 Hj Hfcp R4 Er).
  - exists e, ri. split; [reflexivity|]. unfold bnd, drun_ok in *. rewrite Ee in *.
    split; [exact Hp|]. split; [exact Hcv|]. split; [exact Pa|].
    destruct Hri as [U P M Q A]. split; auto. intros k Hk. apply M. destruct pw; lia.
Qed.

Definition dest0 : est := mkE [] r0 c0 a0 None.

Lemma dp_init : dinv start false dest0.
Proof.
  exists ri0. rewrite (set_at_self _ _ _ Hri0). unfold bnd, drun_ok, dest0. cbn [eout er ec eattrs eerase].
  split; [apply plays_nil|]. split; [exact Hcv0|]. split.
  { split; auto; intros; try lia; rewrite Hcells0; reflexivity. }
  split; [exact Hpen0|]. split; [exact I|]. split; [exact Halign|]. split; [lia|]. split; [lia|]. discriminate.
Qed.

Lemma len_zip {A B} (a : list A) (b : list B) : len (zip a b) = N.min (len a) (len b).
Proof.
  revert b. induction a as [|x a IH]; intros b.
  - cbn [zip]. change (len (@nil (A * B))) with 0. change (len (@nil A)) with 0. lia.
  - destruct b as [|y b]; cbn [zip].
    + change (len (@nil (A * B))) with 0. change (len (@nil B)) with 0. lia.
    + rewrite !len_cons, IH. lia.
Qed.

Lemma dp_window_seg width k : start + width <= cols -> k < len (window start width (zip sc pcs)) ->
  exists c p, get (window start width (zip sc pcs)) k = Some (c, p) /\
              get sc (start + k) = Some c /\ get pcs (start + k) = Some p.
Proof.
  intros Hw Hk. destruct (get_lt_some _ _ Hk) as ([c p] & G). exists c, p. split; [exact G|].
  apply get_window in G. now apply get_zip in G.
Qed.

Lemma dp_len_window width : start + width <= cols -> len (window start width (zip sc pcs)) = width.
Proof.
  intros Hw. unfold window. rewrite len_firstnN, len_skipnN, len_zip, (sr_len _ _ Hsrc), (sr_len _ _ Hprev). lia.
Qed.

(* ------------------------------------------------------------------ *)
(* the row painter of the diff                                          *)
(* ------------------------------------------------------------------ *)
Theorem row_diff_paints_win width : 1 <= width -> start + width <= cols -> wrapped src = wrapped prev ->
  exists ts r' c' a' ri,
    row_diff src prev start width i false false (r0, c0) a0 = Ok (ts, (r', c'), a') /\
    plays (rcv R l0 r0 c0 a0) ts (rcv R (set_at l0 i ri) r' c' a') /\
    cv R (set_at l0 i ri) r' c' /\ pen_ok a' /\
    dpainted ri (start + width).
Proof.
  intros Hw1 Hw2 Hwr. destruct (dp_src_get start Hstart) as (cs0 & Hcs0 & _).
  destruct (get_lt_some pcs start) as (ps0 & Hps0); [rewrite (sr_len _ _ Hprev); exact Hstart|].
  unfold row_diff. unfold row_cols. rewrite (sr_len _ _ Hsrc).
  unfold row_get. rewrite Hcs0, Hps0. cbn [andb bind fst snd]. fold dest0.
  destruct (dp_emit_loop (window start width (zip sc pcs)) start false dest0 dp_init) as (e2 & pw' & -> & Hinv2).
  { intros k Hk. now apply dp_window_seg. }
  { rewrite dp_len_window by exact Hw2. exact Hw2. }
  cbn [bind]. rewrite dp_len_window in Hinv2 by exact Hw2.
  destruct (dp_finish (start + width) pw' e2 Hinv2 Hw2) as (e3 & ri & -> & P3 & C3 & Pa3 & Hpr).
  cbn [bind]. rewrite Hwr, eqb_reflx. cbn [negb bind].
  exists (eout e3), (er e3), (ec e3), (eattrs e3), ri. auto 10.
Qed.

End DiffPaint.

(* ------------------------------------------------------------------ *)
(* 3. full-width statement (Stage 1 of C02)                             *)
(* ------------------------------------------------------------------ *)
(* Receiver row i shows prev (cells equal, not flagged), neither src nor prev is soft-wrapped, no
   wrap carry: the tokens of row_diff turn row i into src, leave every other row alone, keep the
   receiver a canvas, and the emitter's idea of cursor and pen is the receiver's. *)
Theorem row_diff_paints R i src prev l ri0 r c a :
  i < grows (g R) -> srow_ok (gcols (g R)) src -> srow_ok (gcols (g R)) prev ->
  cv R l r c -> pen_ok a -> get l i = Some ri0 -> cells ri0 = cells prev -> wrapped ri0 = false ->
  wrapped src = false -> wrapped prev = false ->
  exists ts r1 c1 a1 ri,
    row_diff src prev 0 (gcols (g R)) i false false (r, c) a = Ok (ts, (r1, c1), a1) /\
    plays (rcv R l r c a) ts (rcv R (set_at l i ri) r1 c1 a1) /\
    cv R (set_at l i ri) r1 c1 /\ pen_ok a1 /\
    cells ri = cells src /\ wrapped ri = false /\
    (cells src = cells prev -> ts = [] /\ r1 = r /\ c1 = c /\ a1 = a).
Proof.
  intros Hi Hsrc Hprev Hcv Pa Hg Hc0 Hu0 Hws Hwp.
  pose proof (cv_dims _ _ _ _ Hcv) as [D1 D2].
  destruct (row_diff_paints_win R i src prev 0 l ri0 r c a Hi Hsrc Hprev ltac:(lia)
              (ok_first _ (sr_ok _ _ Hsrc)) (ok_first _ (sr_ok _ _ Hprev)) Hcv Pa Hg Hc0 Hu0
              (gcols (g R)) ltac:(lia) ltac:(lia) ltac:(congruence))
    as (ts & r1 & c1 & a1 & ri & E & P & C & Pa1 & [U Pre Mid]).
  exists ts, r1, c1, a1, ri. split; [exact E|]. split; [exact P|]. split; [exact C|]. split; [exact Pa1|].
  split; [|split; [exact U|]].
  - assert (len (cells ri) = gcols (g R)) as Lri.
    { destruct (cv_get _ _ _ _ i C Hi) as (x & Gx & (Lx & _) & _).
      rewrite get_set_at in Gx. destruct (N.eqb_spec i i); [|lia].
      assert (len l = grows (g R)) as Ll by apply Hcv. rewrite Ll in Gx.
      destruct (N.ltb_spec i (grows (g R))); [|lia]. inv Gx. exact Lx. }
    apply list_ext_get. intros k. destruct (N.lt_ge_cases k (gcols (g R))) as [Hk|Hk].
    + apply Mid. lia.
    + assert (get (cells ri) k = None) as -> by (apply get_none_ge; lia).
      symmetry. apply get_none_ge. rewrite (sr_len _ _ Hsrc). lia.
  - intros Eq. assert (src = prev) as -> by (apply row_ext; congruence).
    rewrite row_diff_self in E. inv E. auto.
Qed.

(* the same with the receiver row literally equal to prev and the result literally src *)
Corollary row_diff_paints_eq R i src prev l r c a :
  i < grows (g R) -> srow_ok (gcols (g R)) src -> srow_ok (gcols (g R)) prev ->
  cv R l r c -> pen_ok a -> get l i = Some prev -> wrapped src = false -> wrapped prev = false ->
  exists ts r1 c1 a1,
    row_diff src prev 0 (gcols (g R)) i false false (r, c) a = Ok (ts, (r1, c1), a1) /\
    plays (rcv R l r c a) ts (rcv R (set_at l i src) r1 c1 a1) /\
    cv R (set_at l i src) r1 c1 /\ pen_ok a1.
Proof.
  intros Hi Hsrc Hprev Hcv Pa Hg Hws Hwp.
  destruct (row_diff_paints R i src prev l prev r c a Hi Hsrc Hprev Hcv Pa Hg eq_refl Hwp Hws Hwp)
    as (ts & r1 & c1 & a1 & ri & E & P & C & Pa1 & Ec & U & _).
  assert (ri = src) as -> by (apply row_ext; congruence).
  exists ts, r1, c1, a1. auto.
Qed.
