(* Bytes.v — from actions to bytes, and independence of the resize-callback policy.
   (a) a token list that plays without events under the recording policy (resizing = false) plays
       identically under the resizing policy: the only action whose effect depends on the policy,
       CSI 8;r;c t, always produces an event;
   (b) with ParseSer.parse_ser: processing the BYTES of state_formatted on a parser whose vte state
       is ground reproduces the screen (C01 at byte level), given that the emitted tokens satisfy
       ParseSer.token_ok (proved separately by the token work). *)
Require Import Tac ListN Utf8 Width Attrs Cell Row Grid Screen Vte Perform Parser Term Emit.
Require Import RowInv GridInv TextInv ScreenInv ParseSer PendTok CellWf WfInv WrapInv WrapInvScreen SgrSpec EmitSafe ObsSpec.
Require Import AttrsInv EmitTokens CellInv Recv RowPaint Redraw Cursor C01Main C15Main CapInv Idem LastRow C01Examples.
Open Scope N_scope.

Lemma perform_all_evs rz acts : forall s evs s' evs', perform_all rz s acts evs = Ok (s', evs') ->
  exists e, evs' = evs ++ e.
Proof.
  induction acts as [|a r IH]; intros s evs s' evs' E; cbn [perform_all] in E.
  - inv E. exists []. now rewrite app_nil_r.
  - bind_inv E. destruct v as [s1 e]. destruct (IH _ _ _ _ E) as (e2 & ->). exists (e ++ e2). now rewrite app_assoc.
Qed.

Lemma do_csi_rz s ps it c s1 : do_csi false s ps it c = Ok (s1, []) -> do_csi true s ps it c = Ok (s1, []).
Proof.
  destruct it as [|i0 it]; [|exact (fun H => H)].
  destruct (N.eqb_spec c 116) as [->|Hne].
  - unfold do_csi. lsimp. destruct ps as [|[|op sub] rest]; auto. destruct (op =? 8); auto.
    intros H. discriminate.
  - apply N.eqb_neq in Hne. unfold do_csi. rewrite Hne. exact (fun H => H).
Qed.

Lemma perform_rz s a s1 : perform false s a = Ok (s1, []) -> perform true s a = Ok (s1, []).
Proof.
  destruct a as [c|b|ps it ig c|b| |ps bl|ps it ig c|it ig b]; cbn [perform].
  - exact (fun H => H).
  - exact (fun H => H).
  - exact (fun H => H).
  - exact (fun H => H).
  - exact (fun H => H).
  - exact (fun H => H).
  - apply do_csi_rz.
  - exact (fun H => H).
Qed.

Lemma perform_all_rz acts : forall s s', perform_all false s acts [] = Ok (s', []) ->
  perform_all true s acts [] = Ok (s', []).
Proof.
  induction acts as [|a r IH]; intros s s' E; cbn [perform_all] in *; [exact E|].
  bind_inv E. destruct v as [s1 e]. cbn [app] in E.
  destruct (perform_all_evs _ _ _ _ _ _ E) as (e2 & Ee). destruct e; [|discriminate].
  rewrite (perform_rz _ _ _ E0). cbn [bind app]. apply IH. exact E.
Qed.

Theorem play_any_rz rz R ts R' : play false R ts = Ok (R', []) -> play rz R ts = Ok (R', []).
Proof. destruct rz; [apply perform_all_rz|auto]. Qed.

(* processing the serialised tokens *)
Theorem process_tokens p ts R' : pend p = [] -> ground (vt p) -> forallb token_ok ts = true ->
  play false (scr p) ts = Ok (R', []) ->
  exists q, process p (ser_all ts) = Ok q /\ scr q = R' /\ log q = log p /\ ground (vt q) /\ resizing q = resizing p.
Proof.
  intros Hpd Hg Hok Hp. destruct (parse_ser ts (vt p) Hg Hok) as (v & Ea & Gv).
  rewrite (process_ser_all p ts Hpd Hok). rewrite Ea. apply (play_any_rz (resizing p)) in Hp. unfold play in Hp. rewrite Hp. cbn [bind].
  eexists; split; [reflexivity|]. cbn. rewrite app_nil_r. auto.
Qed.

(* C01, byte level *)
Theorem C01_fresh_bytes S p vr ts :
  pend p = [] ->
  source_ok S vr -> canvas (scr p) -> ground (vt p) ->
  grows (g (scr p)) = grows (cur S) -> gcols (g (scr p)) = gcols (cur S) ->
  mmode (scr p) = MNone -> menc (scr p) = EDefault ->
  state_formatted_t S = Ok ts -> forallb token_ok ts = true ->
  exists q, process p (ser_all ts) = Ok q /\ log q = log p /\ ground (vt q) /\
            canvas (scr q) /\ same_obs_minus S (scr q) vr /\ same_modes S (scr q).
Proof.
  intros Hpd Hs CR Hg Er Ec Hm He Ets Hok.
  destruct (C01_fresh S (scr p) vr ts Hs CR Er Ec Hm He Ets) as (R' & P & C' & So & Sm).
  destruct (process_tokens p ts R' Hpd Hg Hok P) as (q & Eq & <- & El & Gq & _).
  exists q. auto 10.
Qed.

Theorem C01_dirty_bytes S p vr ts :
  pend p = [] ->
  source_ok S vr -> canvas (scr p) -> ground (vt p) ->
  grows (g (scr p)) = grows (cur S) -> gcols (g (scr p)) = gcols (cur S) ->
  contents_formatted_t S = Ok ts -> forallb token_ok ts = true ->
  exists q, process p (ser_all ts) = Ok q /\ log q = log p /\ ground (vt q) /\
            canvas (scr q) /\ same_obs_minus S (scr q) vr.
Proof.
  intros Hpd Hs CR Hg Er Ec Ets Hok.
  destruct (C01_dirty S (scr p) vr ts Hs CR Er Ec Ets) as (R' & P & C' & So & _).
  destruct (process_tokens p ts R' Hpd Hg Hok P) as (q & Eq & <- & El & Gq & _).
  exists q. auto 10.
Qed.

(* ------------------------------------------------------------------ *)
(* (c) reachable screens, bytes                                          *)
(* ------------------------------------------------------------------ *)
Lemma fresh_ground rows cols cap rz r : parser_new rows cols cap rz = Ok r -> ground (vt r) /\ log r = [].
Proof. unfold parser_new. intros E. bind_inv E. inv E. cbn. split; [apply ground_init|reflexivity]. Qed.
Lemma fresh_pend rows cols cap rz r : parser_new rows cols cap rz = Ok r -> pend r = [].
Proof. unfold parser_new. intros E. bind_inv E. inv E. reflexivity. Qed.

(* Parser::new(R, C, _); any history -> S (scrollback offset 0).  b := state_formatted(S) as BYTES.
   Parser::new(rows(S), cols(S), _).process(b): no panic, no callback event, vte state ground again,
   and the resulting screen has exactly the observation of S. *)
Theorem C01_reachable_bytes rows cols cap rz ops p q cap' rz' r ts :
  1 <= rows <= MAXDIM -> 1 <= cols <= MAXDIM ->
  parser_new rows cols cap rz = Ok p -> Forall op_ok ops -> run p ops = Ok q ->
  sb_off (cur (scr q)) = 0 ->
  parser_new (grows (cur (scr q))) (gcols (cur (scr q))) cap' rz' = Ok r ->
  state_formatted_t (scr q) = Ok ts ->
  exists r', process r (ser_all ts) = Ok r' /\ log r' = [] /\ ground (vt r') /\
             canvas (scr r') /\ obs (scr r') = obs (scr q) /\ state_formatted_t (scr r') = Ok ts.
Proof.
  intros Hr Hc En Fo E Off Er Ets.
  destruct (C01_reachable_obs rows cols cap rz ops p q cap' rz' r ts Hr Hc En Fo E Off Er Ets)
    as (R' & P & C' & Eo & Es).
  assert (reachable (scr q)) as Hreach by (exists rows, cols, cap, rz, ops, p, q; auto 10).
  destruct (reachable_inv _ Hreach) as (I1 & I2 & I3).
  pose proof (state_formatted_tok (scr q) ts I1 I2 I3 Ets) as Tok.
  destruct (fresh_ground _ _ _ _ _ Er) as [Gr Lr].
  destruct (process_tokens r ts R' (fresh_pend _ _ _ _ _ Er) Gr Tok P) as (r' & Ep & <- & El & Gq & _).
  exists r'. rewrite El, Lr. auto 10.
Qed.
