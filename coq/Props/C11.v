(* C11 — DECSC/DECRC and the alternate screen.
   "DECSC/DECRC save and restore the cursor position, origin mode and pen.  Switching to the
   alternate screen (modes 47 and 1049) and back never changes the primary screen's cells, wrap
   flags, scroll region or scrollback, whatever is drawn in between; 1049 additionally clears the
   alternate screen on entry and restores the primary cursor position on exit.  The alternate
   screen never accrues scrollback, and entering it resets the scrollback view to offset 0."
   Quantifier: every reachable primary state x every input stream processed while on the
   alternate screen (anything except 47/1049 switches and RIS) x {47,1049} entry and exit in all
   four combinations x all sizes and scrollback capacities.

   Vocabulary (AltSpec.v, AltSaved.v, AltRound.v):
     cur s                = the grid shown: if altmode s then alt s else g s
     saved s              = (sprow (cur s), spcol (cur s), sorigin (cur s), spen s); the saved pen
                            spen is ONE field of the screen, shared by both grids
     DECSC i / DECRC i    = AEsc [] i 55 / AEsc [] i 56          (ESC 7 / ESC 8)
     ENTER n i / LEAVE n i = ACsi [[n]] [63] i 104 / ... 108      (CSI ? n h / CSI ? n l)
     switch_free rz a     = a is not RIS, not a DECSET/DECRST with a parameter 47 or 1049, and
                            (when the callbacks resize, rz = true) not CSI 8 ; .. t
     save_free rz a       = switch_free and not DECSC
     blank_grid r c       = the grid of r rows of c default blank cells, cursor and saved cursor
                            (0,0), full region, origin mode off, no history
   Unless screen_ok is mentioned no invariant is assumed: the statements cover every screen
   value, and are conditional on the operations returning Ok.  Every state reachable through the
   API satisfies screen_ok, and then nothing panics (C11_round_trip_reachable). *)
Require Import Tac ListN Width Attrs Cell Row Grid Screen Vte Perform Parser RowInv GridInv ScreenInv SbFrame.
Require Import Chunking.
Require Import AltSpec AltSaved AltRound AltExamples.
Open Scope N_scope.

(* ------------------------------------------------------------------------------------------ *)
(* 0. the side conditions spelled out *)
Theorem C11_switch_free_meaning : forall rz a, switch_free rz a = false <->
  (exists ign, a = AEsc [] ign 99) \/
  (exists ps rest ign c, a = ACsi ps (63 :: rest) ign c /\ (c = 104 \/ c = 108) /\ (In [47] ps \/ In [1049] ps)) \/
  (rz = true /\ exists sub ps ign, a = ACsi ((8 :: sub) :: ps) [] ign 116).
Proof. exact switch_free_spec. Qed.
Theorem C11_save_free_meaning : forall rz a, save_free rz a = true <->
  switch_free rz a = true /\ forall ign, a <> AEsc [] ign 55.
Proof. exact save_free_spec. Qed.

(* ------------------------------------------------------------------------------------------ *)
(* 1. DECSC / DECRC *)
Theorem C11_perform_DECSC : forall rz s i, perform rz s (DECSC i) = Ok (scr_save_cursor s, []).
Proof. exact perform_DECSC. Qed.
Theorem C11_perform_DECRC : forall rz s i, perform rz s (DECRC i) = Ok (scr_restore_cursor s, []).
Proof. exact perform_DECRC. Qed.

(* DECSC writes the saved slot and nothing else *)
Theorem C11_save_only_saved : forall s,
  scr_save_cursor s =
  with_spen (with_cur s (with_saved (cur s) (prow (cur s)) (pcol (cur s)) (origin (cur s)))) (pen s).
Proof. exact save_cursor_only_saved. Qed.
Theorem C11_save_fields : forall s,
  saved (scr_save_cursor s) = (prow (cur s), pcol (cur s), origin (cur s), pen s) /\
  altmode (scr_save_cursor s) = altmode s.
Proof. exact save_cursor_fields. Qed.
(* DECRC sets position, origin mode and pen from the saved slot *)
Theorem C11_restore_fields : forall s,
  let s' := scr_restore_cursor s in
  (prow (cur s'), pcol (cur s'), origin (cur s'), pen s') = saved s /\ altmode s' = altmode s.
Proof. exact restore_cursor_fields. Qed.

(* DECRC directly after DECSC is the identity *)
Theorem C11_restore_after_save : forall s, scr_restore_cursor (scr_save_cursor s) = scr_save_cursor s.
Proof. exact restore_after_save. Qed.
Theorem C11_restore_after_save_fields : forall s,
  let s' := scr_restore_cursor (scr_save_cursor s) in
  prow (cur s') = prow (cur s) /\ pcol (cur s') = pcol (cur s) /\ origin (cur s') = origin (cur s) /\
  pen s' = pen s /\ altmode s' = altmode s /\
  live (cur s') = live (cur s) /\ top (cur s') = top (cur s) /\ bot (cur s') = bot (cur s) /\
  sb (cur s') = sb (cur s) /\ sb_off (cur s') = sb_off (cur s).
Proof. exact restore_after_save_fields. Qed.

(* ordinary input never touches the saved slot *)
Theorem C11_saved_untouched : forall rz s a s' evs, save_free rz a = true ->
  perform rz s a = Ok (s', evs) -> saved s' = saved s /\ altmode s' = altmode s.
Proof. exact saved_untouched. Qed.
Theorem C11_saved_untouched_all : forall rz acts s evs0 s' evs,
  Forall (fun a => save_free rz a = true) acts ->
  perform_all rz s acts evs0 = Ok (s', evs) -> saved s' = saved s /\ altmode s' = altmode s.
Proof. exact saved_untouched_all. Qed.

(* DECSC; any ordinary input; DECRC: position, origin mode and pen are those at the DECSC *)
Theorem C11_decsc_acts_decrc : forall rz s acts i1 i2 evs0 s' evs,
  Forall (fun a => save_free rz a = true) acts ->
  perform_all rz s (DECSC i1 :: acts ++ [DECRC i2]) evs0 = Ok (s', evs) ->
  prow (cur s') = prow (cur s) /\ pcol (cur s') = pcol (cur s) /\ origin (cur s') = origin (cur s) /\
  pen s' = pen s /\ altmode s' = altmode s.
Proof. exact decsc_acts_decrc. Qed.

(* ------------------------------------------------------------------------------------------ *)
(* 2. isolation: the grid that is not shown is not touched (the whole record: cells, wrap flags,
      cursor, saved cursor, region, origin mode, history, view offset) *)
Theorem C11_alt_isolation : forall rz s a s' evs, altmode s = true -> switch_free rz a = true ->
  perform rz s a = Ok (s', evs) -> g s' = g s /\ altmode s' = true.
Proof. exact alt_isolation. Qed.
Theorem C11_alt_isolation_all : forall rz acts s evs0 s' evs, altmode s = true ->
  Forall (fun a => switch_free rz a = true) acts ->
  perform_all rz s acts evs0 = Ok (s', evs) -> g s' = g s /\ altmode s' = true.
Proof. exact alt_isolation_all. Qed.
Theorem C11_primary_isolation : forall rz s a s' evs, altmode s = false -> switch_free rz a = true ->
  perform rz s a = Ok (s', evs) -> alt s' = alt s /\ altmode s' = false.
Proof. exact primary_isolation. Qed.
Theorem C11_primary_isolation_all : forall rz acts s evs0 s' evs, altmode s = false ->
  Forall (fun a => switch_free rz a = true) acts ->
  perform_all rz s acts evs0 = Ok (s', evs) -> alt s' = alt s /\ altmode s' = false.
Proof. exact primary_isolation_all. Qed.
(* through Parser::process; [delivered p bs] (Chunking.v) is what process hands to vte: pend p ++ bs
   without its incomplete utf-8 tail (= bs when pend p = [] and bs ends in a complete character) *)
Theorem C11_process_alt_isolation : forall p bs q, altmode (scr p) = true ->
  Forall (fun a => switch_free (resizing p) a = true) (snd (advance (vt p) (delivered p bs))) ->
  process p bs = Ok q -> g (scr q) = g (scr p) /\ altmode (scr q) = true.
Proof. exact process_alt_isolation. Qed.
Theorem C11_process_primary_isolation : forall p bs q, altmode (scr p) = false ->
  Forall (fun a => switch_free (resizing p) a = true) (snd (advance (vt p) (delivered p bs))) ->
  process p bs = Ok q -> alt (scr q) = alt (scr p) /\ altmode (scr q) = false.
Proof. exact process_primary_isolation. Qed.
(* the API call set_scrollback while the alternate screen is shown *)
Theorem C11_set_scrollback_alt_isolation : forall s k, altmode s = true ->
  g (screen_set_scrollback s k) = g s /\ altmode (screen_set_scrollback s k) = true.
Proof. exact set_scrollback_alt_isolation. Qed.

(* ------------------------------------------------------------------------------------------ *)
(* 3. entry and exit: closed forms *)
(* 47: the primary grid only gets its view offset reset; the alternate grid is NOT cleared (its
   rows are allocated if it was never shown); pens and modes untouched *)
Theorem C11_enter_47 : forall s, altmode s = false ->
  decset1 s [47] = Ok (mkScreen (with_sb (g s) (sb (g s)) 0) (allocate_rows (alt s)) (pen s) (spen s)
                                (keypad s) (appcur s) (hide s) true (paste s) (mmode s) (menc s), 0).
Proof. exact enter_47. Qed.
(* 1049: the primary cursor, origin mode and the pen are saved (in the DECSC slot), the view offset
   is reset, the alternate grid is the blank grid *)
Theorem C11_enter_1049 : forall s, altmode s = false -> screen_ok s ->
  decset1 s [1049] =
  Ok (mkScreen (with_sb (save_cursor (g s)) (sb (g s)) 0) (blank_grid (grows (g s)) (gcols (g s)))
               (pen s) (pen s) (keypad s) (appcur s) (hide s) true (paste s) (mmode s) (menc s), 0).
Proof. exact enter_1049. Qed.
(* without the invariant: Grid::clear of whatever the alternate grid was *)
Theorem C11_enter_1049_raw : forall s, altmode s = false -> 1 <= grows (alt s) ->
  decset1 s [1049] =
  Ok (mkScreen (with_sb (save_cursor (g s)) (sb (g s)) 0) (allocate_rows (cleared (alt s)))
               (pen s) (pen s) (keypad s) (appcur s) (hide s) true (paste s) (mmode s) (menc s), 0).
Proof. exact enter_1049_raw. Qed.
Theorem C11_blank_grid : forall rows cols,
  blank_grid rows cols =
  mkGrid rows cols 0 0 0 0 (repeatN (row_new cols) rows) 0 (rows - 1) false false [] 0 0.
Proof. reflexivity. Qed.
Theorem C11_blank_grid_cell : forall rows cols r c, r < rows -> c < cols ->
  drawing_cell (blank_grid rows cols) r c = Some cell_new /\
  option_map wrapped (drawing_row (blank_grid rows cols) r) = Some false.
Proof. exact blank_grid_cell. Qed.

(* exits (from any state) *)
Theorem C11_leave_47 : forall s, decrst1 s [47] = Ok (with_altmode s false, 0).
Proof. exact leave_47. Qed.
Theorem C11_leave_1049 : forall s, decrst1 s [1049] =
  Ok (mkScreen (restore_cursor (g s)) (alt s) (spen s) (spen s) (keypad s) (appcur s) (hide s) false
               (paste s) (mmode s) (menc s), 0).
Proof. exact leave_1049. Qed.
Theorem C11_leave_1049_is_restore : forall s,
  decrst1 s [1049] = Ok (scr_restore_cursor (exit_alternate_grid s), 0).
Proof. exact decrst1_1049. Qed.

(* the actions *)
Theorem C11_perform_ENTER : forall rz s n i s1, decset1 s [n] = Ok (s1, 0) -> perform rz s (ENTER n i) = Ok (s1, []).
Proof. exact perform_ENTER. Qed.
Theorem C11_perform_LEAVE : forall rz s n i s1, decrst1 s [n] = Ok (s1, 0) -> perform rz s (LEAVE n i) = Ok (s1, []).
Proof. exact perform_LEAVE. Qed.

(* ------------------------------------------------------------------------------------------ *)
(* 4. round trips.  The primary grid afterwards, as a whole record:
        exit_g x (with_sb (entry_g e (g s)) (sb (g s)) 0)
      where entry_g 1049 = save_cursor, entry_g 47 = id, exit_g 1049 = restore_cursor, exit_g 47 = id *)
Theorem C11_round_trip : forall rz s e x i1 i2 acts evs0 s3 evs,
  altmode s = false -> e = 47 \/ e = 1049 -> x = 47 \/ x = 1049 ->
  Forall (fun a => switch_free rz a = true) acts ->
  perform_all rz s (ENTER e i1 :: acts ++ [LEAVE x i2]) evs0 = Ok (s3, evs) ->
  g s3 = exit_g x (with_sb (entry_g e (g s)) (sb (g s)) 0) /\ altmode s3 = false.
Proof. exact round_trip. Qed.

(* all four combinations: size, cells and wrap flags (live), region, history and capacity are
   unchanged, the view offset is 0 *)
Theorem C11_round_trip_common : forall rz s e x i1 i2 acts evs0 s3 evs,
  altmode s = false -> e = 47 \/ e = 1049 -> x = 47 \/ x = 1049 ->
  Forall (fun a => switch_free rz a = true) acts ->
  perform_all rz s (ENTER e i1 :: acts ++ [LEAVE x i2]) evs0 = Ok (s3, evs) ->
  altmode s3 = false /\
  grows (g s3) = grows (g s) /\ gcols (g s3) = gcols (g s) /\
  live (g s3) = live (g s) /\ top (g s3) = top (g s) /\ bot (g s3) = bot (g s) /\
  sb (g s3) = sb (g s) /\ sb_cap (g s3) = sb_cap (g s) /\ sb_off (g s3) = 0.
Proof. exact round_trip_common. Qed.

(* 47 / 47: nothing but the view offset changes *)
Theorem C11_round_trip_47_47 : forall rz s i1 i2 acts evs0 s3 evs,
  altmode s = false -> Forall (fun a => switch_free rz a = true) acts ->
  perform_all rz s (ENTER 47 i1 :: acts ++ [LEAVE 47 i2]) evs0 = Ok (s3, evs) ->
  g s3 = with_sb (g s) (sb (g s)) 0.
Proof. exact round_trip_47_47. Qed.
(* 1049 / 47: the cursor is unchanged; the saved slot now holds the cursor at entry *)
Theorem C11_round_trip_1049_47 : forall rz s i1 i2 acts evs0 s3 evs,
  altmode s = false -> Forall (fun a => switch_free rz a = true) acts ->
  perform_all rz s (ENTER 1049 i1 :: acts ++ [LEAVE 47 i2]) evs0 = Ok (s3, evs) ->
  g s3 = with_sb (save_cursor (g s)) (sb (g s)) 0 /\
  prow (g s3) = prow (g s) /\ pcol (g s3) = pcol (g s) /\ origin (g s3) = origin (g s) /\
  sprow (g s3) = prow (g s) /\ spcol (g s3) = pcol (g s) /\ sorigin (g s3) = origin (g s).
Proof. exact round_trip_1049_47. Qed.
(* 47 / 1049: the cursor and origin mode are set to the primary's previously saved ones *)
Theorem C11_round_trip_47_1049 : forall rz s i1 i2 acts evs0 s3 evs,
  altmode s = false -> Forall (fun a => switch_free rz a = true) acts ->
  perform_all rz s (ENTER 47 i1 :: acts ++ [LEAVE 1049 i2]) evs0 = Ok (s3, evs) ->
  g s3 = restore_cursor (with_sb (g s) (sb (g s)) 0) /\
  prow (g s3) = sprow (g s) /\ pcol (g s3) = spcol (g s) /\ origin (g s3) = sorigin (g s) /\
  sprow (g s3) = sprow (g s) /\ spcol (g s3) = spcol (g s) /\ sorigin (g s3) = sorigin (g s).
Proof. exact round_trip_47_1049. Qed.
(* 1049 / 1049: cursor position and origin mode are those at entry (and so is the saved slot) *)
Theorem C11_round_trip_1049_1049 : forall rz s i1 i2 acts evs0 s3 evs,
  altmode s = false -> Forall (fun a => switch_free rz a = true) acts ->
  perform_all rz s (ENTER 1049 i1 :: acts ++ [LEAVE 1049 i2]) evs0 = Ok (s3, evs) ->
  g s3 = with_sb (save_cursor (g s)) (sb (g s)) 0 /\
  prow (g s3) = prow (g s) /\ pcol (g s3) = pcol (g s) /\ origin (g s3) = origin (g s) /\
  sprow (g s3) = prow (g s) /\ spcol (g s3) = pcol (g s) /\ sorigin (g s3) = origin (g s).
Proof. exact round_trip_1049_1049. Qed.

(* the pen after a 1049 exit, when the input in between contains no DECSC: the pen at a 1049 entry,
   or, after a 47 entry, the pen saved before.  (With a DECSC on the alternate screen the shared
   saved pen is overwritten: see C11_example_pen.) *)
Theorem C11_round_trip_pen : forall rz s e i1 i2 acts evs0 s3 evs,
  altmode s = false -> e = 47 \/ e = 1049 ->
  Forall (fun a => save_free rz a = true) acts ->
  perform_all rz s (ENTER e i1 :: acts ++ [LEAVE 1049 i2]) evs0 = Ok (s3, evs) ->
  pen s3 = (if e =? 1049 then pen s else spen s).
Proof. exact round_trip_pen. Qed.

(* with the invariant the round trip never panics *)
Theorem C11_round_trip_total : forall rz s e x i1 i2 acts evs0, screen_ok s ->
  exists s3 evs, perform_all rz s (ENTER e i1 :: acts ++ [LEAVE x i2]) evs0 = Ok (s3, evs) /\ screen_ok s3.
Proof. exact round_trip_total. Qed.

(* every reachable primary state, all sizes and capacities, through Parser::process *)
Theorem C11_round_trip_reachable : forall rows cols cap rz p0 ops p e x i1 i2 acts bs,
  1 <= rows <= MAXDIM -> 1 <= cols <= MAXDIM -> parser_new rows cols cap rz = Ok p0 ->
  Forall op_ok ops -> run p0 ops = Ok p ->
  altmode (scr p) = false -> e = 47 \/ e = 1049 -> x = 47 \/ x = 1049 ->
  snd (advance (vt p) (delivered p bs)) = ENTER e i1 :: acts ++ [LEAVE x i2] ->
  Forall (fun a => switch_free (resizing p) a = true) acts ->
  exists q, process p bs = Ok q /\ screen_ok (scr q) /\ altmode (scr q) = false /\
    g (scr q) = exit_g x (with_sb (entry_g e (g (scr p))) (sb (g (scr p))) 0).
Proof. exact round_trip_reachable. Qed.

(* ------------------------------------------------------------------------------------------ *)
(* 5. from C12 (SbFrame.v): the alternate grid never has a history; entering resets the offset *)
Theorem C11_alt_nosb_new : forall rows cols cap rz p, parser_new rows cols cap rz = Ok p ->
  sb (alt (scr p)) = [] /\ sb_cap (alt (scr p)) = 0.
Proof. exact parser_new_alt_nosb. Qed.
Theorem C11_alt_nosb_run : forall p ops q, run p ops = Ok q ->
  sb (alt (scr p)) = [] /\ sb_cap (alt (scr p)) = 0 -> sb (alt (scr q)) = [] /\ sb_cap (alt (scr q)) = 0.
Proof. exact run_alt_nosb. Qed.
Theorem C11_alt_does_not_record : forall rz s a s' e,
  perform rz s a = Ok (s', e) -> altmode s = true -> sb (g s') = sb (g s) \/ sb (g s') = [].
Proof. exact perform_alt_norecord. Qed.
Theorem C11_decset_47_offset : forall s s' k, altmode s = false -> decset1 s [47] = Ok (s', k) ->
  sb_off (g s') = 0 /\ sb (g s') = sb (g s) /\ altmode s' = true.
Proof. exact decset_47_offset. Qed.
Theorem C11_decset_1049_offset : forall s s' k, altmode s = false -> decset1 s [1049] = Ok (s', k) ->
  sb_off (g s') = 0 /\ sb (g s') = sb (g s) /\ altmode s' = true.
Proof. exact decset_1049_offset. Qed.

(* ------------------------------------------------------------------------------------------ *)
(* 6. non-vacuity (AltExamples.v): a 3x4 screen with wrapped text, region rows 1-2, two history
      lines (capacity 5) viewed at offset 1, origin mode on, cursor (1,1), saved cursor (1,2) *)
Definition C11_example_primary_state := ex_primary_state.
Definition C11_example_actions := ex_actions.
Definition C11_example_inside := ex_inside.
Definition C11_example_round_trips := ex_round_trips.
Definition C11_example_pen := ex_pen.
Definition C11_example_decsc_decrc := ex_decsc_decrc.
Definition C11_example_side_conditions := ex_side_conditions.
Definition C11_example_theorem_applies := ex_theorem_applies.

Print Assumptions C11_switch_free_meaning.
Print Assumptions C11_save_free_meaning.
Print Assumptions C11_perform_DECSC.
Print Assumptions C11_perform_DECRC.
Print Assumptions C11_save_only_saved.
Print Assumptions C11_save_fields.
Print Assumptions C11_restore_fields.
Print Assumptions C11_restore_after_save.
Print Assumptions C11_restore_after_save_fields.
Print Assumptions C11_saved_untouched.
Print Assumptions C11_saved_untouched_all.
Print Assumptions C11_decsc_acts_decrc.
Print Assumptions C11_alt_isolation.
Print Assumptions C11_alt_isolation_all.
Print Assumptions C11_primary_isolation.
Print Assumptions C11_primary_isolation_all.
Print Assumptions C11_process_alt_isolation.
Print Assumptions C11_process_primary_isolation.
Print Assumptions C11_set_scrollback_alt_isolation.
Print Assumptions C11_enter_47.
Print Assumptions C11_enter_1049.
Print Assumptions C11_enter_1049_raw.
Print Assumptions C11_blank_grid.
Print Assumptions C11_blank_grid_cell.
Print Assumptions C11_leave_47.
Print Assumptions C11_leave_1049.
Print Assumptions C11_leave_1049_is_restore.
Print Assumptions C11_perform_ENTER.
Print Assumptions C11_perform_LEAVE.
Print Assumptions C11_round_trip.
Print Assumptions C11_round_trip_common.
Print Assumptions C11_round_trip_47_47.
Print Assumptions C11_round_trip_1049_47.
Print Assumptions C11_round_trip_47_1049.
Print Assumptions C11_round_trip_1049_1049.
Print Assumptions C11_round_trip_pen.
Print Assumptions C11_round_trip_total.
Print Assumptions C11_round_trip_reachable.
Print Assumptions C11_alt_nosb_new.
Print Assumptions C11_alt_nosb_run.
Print Assumptions C11_alt_does_not_record.
Print Assumptions C11_decset_47_offset.
Print Assumptions C11_decset_1049_offset.
Print Assumptions C11_example_primary_state.
Print Assumptions C11_example_actions.
Print Assumptions C11_example_inside.
Print Assumptions C11_example_round_trips.
Print Assumptions C11_example_pen.
Print Assumptions C11_example_decsc_decrc.
Print Assumptions C11_example_side_conditions.
Print Assumptions C11_example_theorem_applies.
