(* C01 — a full redraw reproduces the screen.

   "Feeding the bytes of contents_formatted() / state_formatted() of a screen S to a parser of the
    same size reproduces S's observable state."

   Byte level is ParseSer.parse_ser (emitted tokens re-parse to their actions); this file is the
   semantic core, at the level of actions:  play rz R ts = perform_all rz R (flat_map acts_of ts) [].

   Receiver class (DESIGN 5.2, "redraw-dirty receiver"): Recv.canvas — primary screen, full scroll
   region, origin mode off, scrollback offset 0, the structural and cell invariants.
   Source hypotheses: C01Main.source_ok — the structural invariant, the visible rows vr, and for
   every visible row: width = gcols (no mixed-width view), wide/continuation pairing, cell_wf,
   the capacity clause cell_cap (NEW, see below), colours in range, wrapped => last column occupied;
   colours of the pen in range.  source_ok_of_inv derives it from the proved invariants.

   Conclusion: same_obs_minus — size, every visible cell (text, wide, continuation, attributes),
   the wrap flag of every row except the last one, cursor position, hide flag, pen; plus the five
   input modes (state_formatted, on a receiver whose mouse mode / encoding are the defaults) or
   "modes untouched" (contents_formatted).

   The last row's wrap flag is NOT reproduced (the receiver's is clear): the source's last VISIBLE
   row can be flagged in a scrolled-back view (C01Examples.ex_last_row_flag), and no emitted byte
   could set it without scrolling.  The emitters never read that flag (Idem.v), so the receiver
   still re-emits exactly the same tokens (C01_idem_strong).  At scrollback offset 0 the exemption
   is vacuous: the last LIVE row of a reachable screen is never flagged (LastRow.v), hence
   C01_reachable_obs: the receiver's observation EQUALS the source's.

   The two cell clauses beyond the existing invariants — capacity (cell_cap) and colours in range —
   are proved to be invariants of every history (CellInv.v / CapInv.v), so the source hypotheses hold
   for every reachable screen: C01_fresh_reachable states C01 purely in API terms. *)
Require Import Tac ListN Utf8 Width Attrs Cell Row Grid Screen Vte Perform Parser Term Emit.
Require Import RowInv GridInv TextInv ScreenInv ParseSer CellWf WfInv WrapInv WrapInvScreen SgrSpec EmitSafe ObsSpec.
Require Import AttrsInv EmitTokens CellInv Recv RowPaint Redraw Cursor C01Main CapInv Idem LastRow C01Examples Bytes.
Open Scope N_scope.

(* ---- the notions of the statement, restated ---- *)
Theorem C01_play_def : forall rz R ts, play rz R ts = perform_all rz R (flat_map acts_of ts) [].
Proof. reflexivity. Qed.

Theorem C01_canvas_def : forall R, canvas R <->
  (screen_ok R /\ screen_wf R /\ altmode R = false /\ top (g R) = 0 /\ bot (g R) = grows (g R) - 1 /\
   origin (g R) = false /\ sb_off (g R) = 0).
Proof. intros R. reflexivity. Qed.

(* the capacity clause that cell_wf lacks: every non-empty proper prefix of a cell's text is shorter
   than 18 bytes (Cell::append refuses to grow a text of 18 bytes or more).  cell_wf only bounds the
   whole text by 22 bytes, which allows texts that no history produces and that cannot be replayed. *)
Theorem C01_cell_cap_def : forall c, cell_cap c <->
  (forall p z q, ctext c = p ++ z :: q -> p <> [] -> text_len p < 18).
Proof. intros c. reflexivity. Qed.

(* ---- Stage 1: the key receiver lemma ---- *)
(* printing the text of a well-formed cell at (r, j), on a slot that is not the second half of a wide
   character (and, for a narrow cell, not a first half; for a wide cell, column j+1 not a first half),
   re-creates the cell with the current pen, creates the continuation cell, moves the cursor behind
   it, and changes nothing else (no event, the receiver stays a canvas) *)
Theorem C01_print_cell : forall R l r j a rw c, cv R l r j -> get l r = Some rw ->
  cell_wf c -> cell_cap c -> has_contents c = true ->
  j + adv_n c <= gcols (g R) -> slot_ok (cells rw) j (cwide c) ->
  plays (rcv R l r j a) [TChars (ctext c)] (rcv R (set_at l r (put_cell rw j c a)) r (j + adv_n c) a).
Proof. exact plays_cell. Qed.

Theorem C01_clear : forall R h, canvas R ->
  plays R (t_hide_cursor h :: t_clear_attrs :: t_clear_screen)
        (rcv (with_hide R h) (blank_rows (grows (g R)) (gcols (g R))) 0 0 dflt) /\
  cv (with_hide R h) (blank_rows (grows (g R)) (gcols (g R))) 0 0.
Proof. exact clear_lemma. Qed.

(* ---- Stage 2/3: one row ---- *)
Theorem C01_row : forall R i src wrapping start l0 ri0 rprev r0 c0 a0,
  i < grows (g R) -> srow_ok (gcols (g R)) src -> start < gcols (g R) -> fc (cells src) start = false ->
  cv R l0 r0 c0 -> pen_ok a0 -> get l0 i = Some ri0 ->
  (forall k, start <= k < gcols (g R) -> get (cells ri0) k = Some cell_new) -> wrapped ri0 = false ->
  (wrapping = true ->
     start = 0 /\ r0 + 1 = i /\ c0 = gcols (g R) /\ get l0 r0 = Some rprev /\
     exists lc, get (cells rprev) (gcols (g R) - 1) = Some lc /\ has_contents lc || ccont lc = true) ->
  forall width, 1 <= width -> start + width <= gcols (g R) ->
  exists ts r' c' a' ri,
    row_formatted src start width i wrapping (Some (r0, c0)) (Some a0) = Ok (ts, (r', c'), a') /\
    plays (rcv R l0 r0 c0 a0) ts (rcv R (set_at (Lfin i wrapping l0 rprev) i ri) r' c' a') /\
    cv R (set_at (Lfin i wrapping l0 rprev) i ri) r' c' /\ pen_ok a' /\
    painted_row R src start ri0 ri (if fc (cells src) (start + width) then start + width + 1 else start + width) /\
    (wrapping = true -> r' = i) /\
    (occ src (start + width) = true ->
       r' = i /\ c' = (if fc (cells src) (start + width) then start + width + 1 else start + width)).
Proof. exact row_formatted_paints. Qed.

(* ---- Stage 3: all rows (invariant J of DESIGN Appendix A) ---- *)
Theorem C01_rows : forall R vr, canvas R -> vrows_ok (gcols (g R)) vr -> len vr = grows (g R) ->
  exists ts r' c' a' l',
    rows_formatted_loop (gcols (g R)) vr 0 false (0, 0) dflt [] = Ok (ts, (r', c'), a') /\
    plays (rcv R (blank_rows (grows (g R)) (gcols (g R))) 0 0 dflt) ts (rcv R l' r' c' a') /\
    cv R l' r' c' /\ pen_ok a' /\ Jinv R vr (grows (g R)) l' r' c'.
Proof.
  intros R vr CR Hv Lv.
  assert (cv R (blank_rows (grows (g R)) (gcols (g R))) 0 0) as C0.
  { pose proof (canvas_dims _ CR) as D. split; auto; try lia. apply rows_good_blank. }
  destruct (rows_loop_paints R vr CR Hv Lv vr 0 false _ 0 0 dflt [] ltac:(intros; reflexivity) ltac:(lia) C0
              pen_ok_dflt (Jinv_blank R vr) ltac:(left; auto)) as (ts & r' & c' & a' & l' & E & P & C & Pa & HJ).
  exists ts, r', c', a', l'. auto.
Qed.

(* ---- Stage 4: the cursor fix-up ---- *)
Theorem C01_cursor : forall R l r c a x vr,
  cv R l r c -> pen_ok a -> rows_agree l vr (grows (g R)) ->
  vrows_ok (gcols (g R)) vr -> len vr = grows (g R) ->
  visible_rows x = Ok vr -> gcols x = gcols (g R) -> prow x < grows (g R) -> pcol x <= gcols (g R) ->
  exists toks R2,
    cursor_position_formatted x (Some (r, c)) (Some a) = Ok toks /\
    plays (rcv R l r c a) toks (rcv R2 l (prow x) (pcol x) a) /\
    cv R2 l (prow x) (pcol x) /\ same_base R R2.
Proof. exact cursor_fixup. Qed.

(* ---- the property ---- *)
(* contents_formatted on ANY canvas of the same size *)
Theorem C01_dirty : forall S R vr ts,
  source_ok S vr -> canvas R -> grows (g R) = grows (cur S) -> gcols (g R) = gcols (cur S) ->
  contents_formatted_t S = Ok ts ->
  exists R', play false R ts = Ok (R', []) /\ canvas R' /\ same_obs_minus S R' vr /\
             keypad R' = keypad R /\ appcur R' = appcur R /\ paste R' = paste R /\
             mmode R' = mmode R /\ menc R' = menc R.
Proof. exact C01Main.C01_dirty. Qed.

(* state_formatted on a canvas whose mouse mode and encoding are the defaults (a fresh receiver,
   or one that only ever processed full redraws of screens without mouse modes) *)
Theorem C01_fresh : forall S R vr ts,
  source_ok S vr -> canvas R -> grows (g R) = grows (cur S) -> gcols (g R) = gcols (cur S) ->
  mmode R = MNone -> menc R = EDefault ->
  state_formatted_t S = Ok ts ->
  exists R', play false R ts = Ok (R', []) /\ canvas R' /\ same_obs_minus S R' vr /\ same_modes S R'.
Proof. exact C01Main.C01_fresh. Qed.

(* at scrollback offset 0, with an unflagged last row, the receiver's observation IS the source's,
   so (C19) it re-emits exactly the same tokens *)
Theorem C01_idem : forall S R ts,
  source_ok S (live (cur S)) -> sb_off (cur S) = 0 ->
  (forall src, get (live (cur S)) (grows (cur S) - 1) = Some src -> wrapped src = false) ->
  canvas R -> grows (g R) = grows (cur S) -> gcols (g R) = gcols (cur S) ->
  mmode R = MNone -> menc R = EDefault ->
  state_formatted_t S = Ok ts ->
  exists R', play false R ts = Ok (R', []) /\ canvas R' /\ obs R' = obs S /\ state_formatted_t R' = Ok ts.
Proof. exact C01Main.C01_idem. Qed.

(* the hypotheses on the source follow from the invariants of the development plus the two cell
   clauses (capacity, colour ranges) and the no-mixed-width condition *)
Theorem C01_source_ok : forall S vr,
  screen_ok S -> screen_wf S -> screen_wrapinv S -> pen_ok (pen S) ->
  visible_rows (cur S) = Ok vr -> rows_width (gcols (cur S)) vr -> rows_cap vr -> rows_attrs_ok vr ->
  source_ok S vr.
Proof. exact source_ok_of_inv. Qed.

(* without any hypothesis on the last row's flag, and at any scrollback offset of the source: the
   receiver re-emits the same tokens (the emitters do not read the last visible row's flag) *)
Theorem C01_idem_strong : forall S R vr ts,
  source_ok S vr -> canvas R -> grows (g R) = grows (cur S) -> gcols (g R) = gcols (cur S) ->
  mmode R = MNone -> menc R = EDefault ->
  state_formatted_t S = Ok ts ->
  exists R', play false R ts = Ok (R', []) /\ canvas R' /\ state_formatted_t R' = Ok ts.
Proof. exact Idem.C01_idem_strong. Qed.

(* ---- the new cell clauses are invariants ---- *)
Theorem C01_cap_invariant : forall rows cols cap rz p ops q,
  parser_new rows cols cap rz = Ok p -> run p ops = Ok q -> screen_cap (scr q).
Proof. intros rows cols cap rz p ops q En E. exact (run_cap ops p q E (parser_new_cap _ _ _ _ _ En)). Qed.

Theorem C01_attrs_invariant : forall rows cols cap rz p ops q,
  parser_new rows cols cap rz = Ok p -> run p ops = Ok q -> screen_attrs_ok (scr q).
Proof. intros rows cols cap rz p ops q En E. exact (AttrsInv.run_attrs_ok ops p q (AttrsInv.parser_new_attrs_ok _ _ _ _ _ En) E). Qed.

(* cell_wf does not imply the capacity clause, and without it the replay fails *)
Theorem C01_cap_needed :
  cell_wf cex_cell /\ ~ cell_cap cex_cell /\
  fold_left (fun d z => cell_append z d) (repeat 768 9) (cell_set 128512 dflt cell_new) <> cex_cell.
Proof. exact (conj cex_cell_wf (conj cex_cell_not_cap cex_replay)). Qed.

(* every reachable screen satisfies the source hypotheses (offset 0; or any view of uniform width) *)
Theorem C01_reachable_source_ok : forall rows cols cap rz ops p q,
  1 <= rows <= MAXDIM -> 1 <= cols <= MAXDIM ->
  parser_new rows cols cap rz = Ok p -> Forall op_ok ops -> run p ops = Ok q ->
  sb_off (cur (scr q)) = 0 -> source_ok (scr q) (live (cur (scr q))).
Proof. exact reachable_source_ok. Qed.

(* ---- C01 in API terms ---- *)
Theorem C01_fresh_reachable : forall rows cols cap rz ops p q cap' rz' r ts,
  1 <= rows <= MAXDIM -> 1 <= cols <= MAXDIM ->
  parser_new rows cols cap rz = Ok p -> Forall op_ok ops -> run p ops = Ok q ->
  sb_off (cur (scr q)) = 0 ->
  parser_new (grows (cur (scr q))) (gcols (cur (scr q))) cap' rz' = Ok r ->
  state_formatted_t (scr q) = Ok ts ->
  exists R', play false (scr r) ts = Ok (R', []) /\ canvas R' /\
             same_obs_minus (scr q) R' (live (cur (scr q))) /\ same_modes (scr q) R'.
Proof. exact C01Examples.C01_fresh_reachable. Qed.

(* the last live row of a reachable screen is never flagged as wrapped *)
Theorem C01_last_row_invariant : forall rows cols cap rz ops p q,
  1 <= rows <= MAXDIM -> 1 <= cols <= MAXDIM ->
  parser_new rows cols cap rz = Ok p -> Forall op_ok ops -> run p ops = Ok q ->
  forall src, get (live (cur (scr q))) (grows (cur (scr q)) - 1) = Some src -> wrapped src = false.
Proof. exact history_lastu. Qed.

(* THE HEADLINE: any screen reached through the API, at scrollback offset 0; a fresh parser of its
   size; state_formatted played on it: no panic, no event, the observation (DESIGN 5.1: size, all
   visible cells and wrap flags, cursor, hide, pen, five input modes) is that of the source, and the
   receiver would emit the same tokens again *)
Theorem C01_reachable_obs : forall rows cols cap rz ops p q cap' rz' r ts,
  1 <= rows <= MAXDIM -> 1 <= cols <= MAXDIM ->
  parser_new rows cols cap rz = Ok p -> Forall op_ok ops -> run p ops = Ok q ->
  sb_off (cur (scr q)) = 0 ->
  parser_new (grows (cur (scr q))) (gcols (cur (scr q))) cap' rz' = Ok r ->
  state_formatted_t (scr q) = Ok ts ->
  exists R', play false (scr r) ts = Ok (R', []) /\ canvas R' /\ obs R' = obs (scr q) /\
             state_formatted_t R' = Ok ts.
Proof. exact C01Examples.C01_reachable_obs. Qed.

(* ---- byte level ---- *)
(* the policy of the resize callback is irrelevant for token lists that play without events *)
Theorem C01_any_rz : forall rz R ts R', play false R ts = Ok (R', []) -> play rz R ts = Ok (R', []).
Proof. exact play_any_rz. Qed.

(* processing the bytes of state_formatted(S) with a parser whose vte state is ground (e.g. a fresh
   parser, or one that has only processed complete sequences) and whose screen is a canvas of S's
   size with default mouse modes: no callback event, the vte state is ground again, and the screen
   reproduces S.  The side condition token_ok on the emitted tokens (parameters <= 65535, printable
   scalar values, ...) is ParseSer's; it is discharged by the token work. *)
Theorem C01_fresh_bytes : forall S p vr ts,
  pend p = [] ->   (* the parser holds no bytes of an unfinished utf-8 character back (K04a repair) *)
  source_ok S vr -> canvas (scr p) -> ground (vt p) ->
  grows (g (scr p)) = grows (cur S) -> gcols (g (scr p)) = gcols (cur S) ->
  mmode (scr p) = MNone -> menc (scr p) = EDefault ->
  state_formatted_t S = Ok ts -> forallb token_ok ts = true ->
  exists q, process p (ser_all ts) = Ok q /\ log q = log p /\ ground (vt q) /\
            canvas (scr q) /\ same_obs_minus S (scr q) vr /\ same_modes S (scr q).
Proof. exact Bytes.C01_fresh_bytes. Qed.

(* bytes, API only: the property as the brief states it *)
Theorem C01_reachable_bytes : forall rows cols cap rz ops p q cap' rz' r ts,
  1 <= rows <= MAXDIM -> 1 <= cols <= MAXDIM ->
  parser_new rows cols cap rz = Ok p -> Forall op_ok ops -> run p ops = Ok q ->
  sb_off (cur (scr q)) = 0 ->
  parser_new (grows (cur (scr q))) (gcols (cur (scr q))) cap' rz' = Ok r ->
  state_formatted_t (scr q) = Ok ts ->
  exists r', process r (ser_all ts) = Ok r' /\ log r' = [] /\ ground (vt r') /\
             canvas (scr r') /\ obs (scr r') = obs (scr q) /\ state_formatted_t (scr r') = Ok ts.
Proof. exact Bytes.C01_reachable_bytes. Qed.

Print Assumptions C01_print_cell.
Print Assumptions C01_clear.
Print Assumptions C01_row.
Print Assumptions C01_rows.
Print Assumptions C01_cursor.
Print Assumptions C01_dirty.
Print Assumptions C01_fresh.
Print Assumptions C01_idem.
Print Assumptions C01_source_ok.
Print Assumptions C01_idem_strong.
Print Assumptions C01_cap_invariant.
Print Assumptions C01_attrs_invariant.
Print Assumptions C01_cap_needed.
Print Assumptions C01_reachable_source_ok.
Print Assumptions C01_fresh_reachable.
Print Assumptions C01_last_row_invariant.
Print Assumptions C01_reachable_obs.
Print Assumptions C01_any_rz.
Print Assumptions C01_fresh_bytes.
Print Assumptions C01_reachable_bytes.
