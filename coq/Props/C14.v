(* C14 — the plain-text views contents(), rows(start,width), contents_between()
   return exactly the text determined by the visible cells and wrap flags.
   The declarative specification (row_text_spec, contents_spec, between_spec and the
   helpers visible_cells, cells_text, drop_trailing_nl, contents_lines, line_spec) is in
   TextSpec.v.  All theorems hold for arbitrary N arguments, hence for all u16 values. *)
Require Import Tac ListN Cell Row Grid Screen Emit RowInv TextSpec.
Open Scope N_scope.

(* rows(start, width): every visible row projected on the column window *)
Theorem C14_rows : forall s start width vr,
  visible_rows (cur s) = Ok vr ->
  Forall (fun r => len (cells r) <= 65520) vr ->
  rows_text s start width = Ok (map (fun r => row_text_spec (cells r) start width) vr).
Proof. exact rows_text_ok. Qed.

(* contents() *)
Theorem C14_contents : forall s vr,
  visible_rows (cur s) = Ok vr ->
  Forall (fun r => len (cells r) <= 65520) vr ->
  contents_text s = Ok (contents_spec vr (gcols (cur s))).
Proof. exact contents_text_ok. Qed.

(* contents_between(r1, c1, r2, c2) *)
Theorem C14_between : forall s vr r1 c1 r2 c2,
  visible_rows (cur s) = Ok vr ->
  Forall (fun r => len (cells r) <= 65520) vr ->
  contents_between s r1 c1 r2 c2 = Ok (between_spec vr (gcols (cur s)) r1 c1 r2 c2).
Proof. exact contents_between_ok. Qed.

(* one row (Row::write_contents), with the [wrapping] argument used by contents() *)
Theorem C14_row : forall r start width wrapping,
  len (cells r) <= 65520 ->
  row_text r start width wrapping
  = Ok (row_text_spec (cells r) start width
        ++ (if wrapping && nilb (row_text_spec (cells r) start width) then [10] else [])).
Proof. exact row_text_ok. Qed.

(* no panic *)
Theorem C14_rows_no_panic : forall s start width vr,
  visible_rows (cur s) = Ok vr -> Forall (fun r => len (cells r) <= 65520) vr ->
  is_ok (rows_text s start width) = true.
Proof. exact rows_text_no_panic. Qed.
Theorem C14_contents_no_panic : forall s vr,
  visible_rows (cur s) = Ok vr -> Forall (fun r => len (cells r) <= 65520) vr ->
  is_ok (contents_text s) = true.
Proof. exact contents_text_no_panic. Qed.
Theorem C14_between_no_panic : forall s vr r1 c1 r2 c2,
  visible_rows (cur s) = Ok vr -> Forall (fun r => len (cells r) <= 65520) vr ->
  is_ok (contents_between s r1 c1 r2 c2) = true.
Proof. exact contents_between_no_panic. Qed.

(* the model's strip_trailing_nl is the declarative drop_trailing_nl, which is characterised by:
   the input is the result followed only by newlines, and the result does not end in a newline *)
Theorem C14_strip : forall l, strip_trailing_nl l = drop_trailing_nl l.
Proof. exact strip_trailing_nl_spec. Qed.
Theorem C14_drop_trailing_nl_char : forall l,
  exists k, l = drop_trailing_nl l ++ repeat 10 k /\ (forall p, drop_trailing_nl l <> p ++ [10]).
Proof. exact drop_trailing_nl_char. Qed.

(* reading the specification on well-formed rows *)
(* a row's text is empty exactly when no kept cell has contents *)
Theorem C14_row_empty : forall cs, nilb (cells_text cs) = negb (existsb has_contents cs).
Proof. exact cells_text_nilb. Qed.
(* when no wide cell is empty, an empty cell is rendered as exactly one space *)
Theorem C14_one_space : forall cs,
  Forall (fun c => cwide c = true -> has_contents c = true) cs -> cells_text cs = cells_text1 cs.
Proof. exact cells_text_one_space. Qed.
(* under the pairing invariant, for a window starting on a cell boundary, the dropped cells are
   exactly the continuation cells *)
Theorem C14_continuations_skipped : forall cs start width,
  cells_ok cs -> fc cs start = false ->
  row_text_spec cs start width
  = cells_text (filter (fun c => negb (ccont c)) (window start width cs)).
Proof. exact row_text_spec_ok_row. Qed.

(* non-vacuity: rows with a wide character, a gap of empty cells, wrapped rows, a blank wrapped row *)
Example C14_example :
  Forall (fun r => cells_ok (cells r)) ex_rows
  /\ Forall (fun r => len (cells r) <= 65520) ex_rows
  /\ visible_rows (cur ex_screen) = Ok ex_rows
  /\ rows_text ex_screen 2 4 = Ok [[32; 32; 32; 98]; [32; 32; 32; 98]; []; []; []]
  /\ map (fun r => row_text_spec (cells r) 2 4) ex_rows = [[32; 32; 32; 98]; [32; 32; 32; 98]; []; []; []]
  /\ contents_text ex_screen = Ok [97; 19990; 32; 32; 98; 97; 19990; 32; 32; 98; 10; 99]
  /\ contents_spec ex_rows 7 = [97; 19990; 32; 32; 98; 97; 19990; 32; 32; 98; 10; 99]
  /\ contents_between ex_screen 0 1 3 1 = Ok [19990; 32; 32; 98; 97; 19990; 32; 32; 98; 99]
  /\ between_spec ex_rows 7 0 1 3 1 = [19990; 32; 32; 98; 97; 19990; 32; 32; 98; 99]
  /\ contents_between ex_screen 1 1 1 6 = Ok [19990; 32; 32; 98]
  /\ between_spec ex_rows 7 1 1 1 6 = [19990; 32; 32; 98]
  /\ contents_between ex_screen 3 0 1 7 = Ok []
  /\ between_spec ex_rows 7 3 0 1 7 = [].
Proof.
  split; [exact ex_rows_ok|]. split.
  { repeat constructor; vm_compute; discriminate. }
  vm_compute. repeat split.
Qed.

(* the size hypothesis is needed *)
Example C14_size_needed :
  row_text (mkRow (repeatN cell_new 65534 ++ [wch 19990]) false) 0 65535 false = Panic POverflow.
Proof. exact ex_size_needed. Qed.

Print Assumptions C14_rows.
Print Assumptions C14_contents.
Print Assumptions C14_between.
Print Assumptions C14_row.
Print Assumptions C14_rows_no_panic.
Print Assumptions C14_contents_no_panic.
Print Assumptions C14_between_no_panic.
Print Assumptions C14_strip.
Print Assumptions C14_drop_trailing_nl_char.
Print Assumptions C14_row_empty.
Print Assumptions C14_one_space.
Print Assumptions C14_continuations_skipped.
Print Assumptions C14_example.
Print Assumptions C14_size_needed.
