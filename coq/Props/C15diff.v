(* C15diff — the rows_diff clause of property C15.

   "rows_diff(prev, start, width) yields, per visible row, the bytes that turn that row of a
    terminal showing prev into the current row, inside the window."

   Protocol (the same as for rows_formatted, C15Main.window_protocol): for every row i, reset the
   attributes (ESC[m), move to (i, start) (CUP), write string i.
   Proved for unwrapped rows and windows that start on a cell boundary in both screens (the
   first window column is not the second half of a wide character).  Conclusion, per row: the
   cells inside the window are the current ones, the cells to the left of the window are
   untouched, the row stays unflagged.  Cells to the right of the window may be cleared (a
   trailing erase run is closed with EL, exactly as in rows_formatted).  With the full-width
   window every receiver row becomes the current row. *)
Require Import Tac ListN Utf8 Width Attrs Cell Row Grid Screen Vte Perform Term Emit
  RowInv GridInv TextInv ScreenInv ParseSer CellWf WfGrid WfVte WfInv EraseSpec SgrSpec MoveSpec PrintSpec
  CellBytes EmitSafe WrapInv WrapInvScreen ObsSpec Recv RowPaint Redraw Cursor C01Main C15Main
  DiffPaint DiffGrid DiffMain DiffWindow.
Open Scope N_scope.

Theorem C15diff_lalign_def : forall start r, lalign start r <-> fc (cells r) start = false.
Proof. intros. reflexivity. Qed.
Print Assumptions C15diff_lalign_def.

Theorem C15diff_win_done_def : forall start width ri src prev, win_done start width ri src prev <->
  (wrapped ri = false /\
   (forall k, k < start -> get (cells ri) k = get (cells prev) k) /\
   (forall k, start <= k < start + width -> get (cells ri) k = get (cells src) k)).
Proof. intros. reflexivity. Qed.
Print Assumptions C15diff_win_done_def.

(* one row: the cursor has been put at (i, start) with default attributes *)
Theorem C15diff_window_row : forall R l i src prev start width,
  cv R l i start -> srow_ok (gcols (g R)) src -> srow_ok (gcols (g R)) prev ->
  start < gcols (g R) -> 1 <= width -> start + width <= gcols (g R) ->
  lalign start src -> lalign start prev ->
  get l i = Some prev -> wrapped src = false -> wrapped prev = false ->
  exists ts r' c' a' ri,
    row_diff src prev start width i false false (i, start) dflt = Ok (ts, (r', c'), a') /\
    plays (rcv R l i start dflt) ts (rcv R (set_at l i ri) r' c' a') /\
    cv R (set_at l i ri) r' c' /\ pen_ok a' /\ win_done start width ri src prev.
Proof. exact C15_diff_window_row. Qed.
Print Assumptions C15diff_window_row.

(* all rows *)
Theorem C15diff_window : forall S P R vr pvr start width toks,
  source_ok S vr -> source_ok P pvr -> unwrapped_rows vr -> unwrapped_rows pvr ->
  grows (cur S) = grows (cur P) -> gcols (cur S) = gcols (cur P) ->
  canvas R -> grows (g R) = grows (cur P) -> gcols (g R) = gcols (cur P) -> live (g R) = pvr ->
  start < gcols (cur S) -> 1 <= width -> start + width <= gcols (cur S) ->
  Forall (lalign start) vr -> Forall (lalign start) pvr ->
  rows_diff_t S P start width = Ok toks ->
  exists R', play false R (window_protocol start 0 toks) = Ok (R', []) /\ canvas R' /\
    grows (g R') = grows (g R) /\ gcols (g R') = gcols (g R) /\
    forall i, i < grows (cur S) -> exists ri src prev,
      get (live (g R')) i = Some ri /\ get vr i = Some src /\ get pvr i = Some prev /\
      win_done start width ri src prev.
Proof. exact C15_diff_window. Qed.
Print Assumptions C15diff_window.

(* full width: the receiver's rows become the visible rows of S *)
Theorem C15diff_full : forall S P R vr pvr toks,
  source_ok S vr -> source_ok P pvr -> unwrapped_rows vr -> unwrapped_rows pvr ->
  grows (cur S) = grows (cur P) -> gcols (cur S) = gcols (cur P) ->
  canvas R -> grows (g R) = grows (cur P) -> gcols (g R) = gcols (cur P) -> live (g R) = pvr ->
  rows_diff_t S P 0 (gcols (cur S)) = Ok toks ->
  exists R', play false R (window_protocol 0 0 toks) = Ok (R', []) /\ canvas R' /\ live (g R') = vr.
Proof. exact C15_diff_full. Qed.
Print Assumptions C15diff_full.

(* the row painter in window form (what the three statements above rest on) *)
Theorem C15diff_row_diff_window : forall R i src prev start l0 ri0 r0 c0 a0,
  i < grows (g R) -> srow_ok (gcols (g R)) src -> srow_ok (gcols (g R)) prev ->
  start < gcols (g R) -> fc (cells src) start = false -> fc (cells prev) start = false ->
  cv R l0 r0 c0 -> pen_ok a0 -> get l0 i = Some ri0 -> cells ri0 = cells prev -> wrapped ri0 = false ->
  forall width, 1 <= width -> start + width <= gcols (g R) -> wrapped src = wrapped prev ->
  exists ts r' c' a' ri,
    row_diff src prev start width i false false (r0, c0) a0 = Ok (ts, (r', c'), a') /\
    plays (rcv R l0 r0 c0 a0) ts (rcv R (set_at l0 i ri) r' c' a') /\
    cv R (set_at l0 i ri) r' c' /\ pen_ok a' /\
    dpainted src prev start ri (start + width).
Proof. exact row_diff_paints_win. Qed.
Print Assumptions C15diff_row_diff_window.
