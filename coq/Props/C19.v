(* C19 — the emitted bytes depend only on the observable visible state.

   "The byte strings returned by contents_formatted, rows_formatted, input_mode_formatted,
    attributes_formatted and cursor_state_formatted depend only on the observable visible state,
    not on the history that produced it: two screens with equal observable state return identical
    bytes.  Consequently contents_diff, rows_diff, input_mode_diff and state_diff between two such
    screens - in particular a screen against itself or its clone - are empty.  state_formatted and
    state_diff are exactly the concatenation of their contents and input-mode parts."

   Part A (ObsSpec.v): the statement on the abstract model.
   Part B (CellBytes.v): the abstract cell is a faithful image of the 22-byte Rust cell; stale
   bytes beyond the live length are unobservable. *)
Require Import Tac ListN Utf8 Attrs Cell Row Grid Screen Vte Perform Parser Term Emit.
Require Import RowInv GridInv TextInv ScreenInv EmitSafe ObsSpec CellBytes.
Require CellWf WfInv.
Notation screen_wf := CellWf.screen_wf (only parsing).
Open Scope N_scope.

(* ------------------------------------------------------------------------------------------ *)
(* A.1  The observation of a screen (DESIGN 5.1): size, every visible row (all cells with text,
        wide/continuation flags and attributes, and the row's wrap flag), cursor position, hide
        flag, pen, and the five input modes.  It is defined through visible_rows, so it is the
        state *as shown at the current scrollback offset*; at offset 0 the visible rows are the
        live rows. *)
Theorem C19_obs_def : forall s,
  obs s = (do vr <- visible_rows (cur s);
           Ok (mkObs (grows (cur s)) (gcols (cur s)) vr (prow (cur s), pcol (cur s)) (hide s) (pen s)
                     (keypad s, appcur s, paste s, mmode s, menc s))).
Proof. reflexivity. Qed.

Theorem C19_obs_offset0 : forall s, sb_off (cur s) = 0 ->
  obs s = Ok (mkObs (grows (cur s)) (gcols (cur s)) (live (cur s)) (prow (cur s), pcol (cur s)) (hide s) (pen s)
                    (keypad s, appcur s, paste s, mmode s, menc s)).
Proof. exact obs_off0. Qed.

(* the observation exists for every screen satisfying the invariant (hence for every reachable one) *)
Theorem C19_obs_total : forall s, screen_ok s -> exists o, obs s = Ok o /\ len (o_vis o) = o_rows o.
Proof. exact obs_ok. Qed.

(* ------------------------------------------------------------------------------------------ *)
(* A.2  Two screens with the same observation return the same result from every formatted
        emitter: the same token lists, hence the same bytes.  No hypothesis on the scrollback
        offset, the scrollback contents, the saved cursor, the scroll region, origin mode, the
        saved pen, or the grid that is not shown.
        cursor_position_formatted reads nothing outside the observation.  rows_formatted reads
        the width of the PRIMARY grid (gcols (g s)) also when the alternate grid is shown; this
        is the only place where the invariant is used (both grids have the same size). *)
Theorem C19_factor : forall s1 s2 o, screen_ok s1 -> screen_ok s2 -> obs s1 = Ok o -> obs s2 = Ok o ->
  contents_formatted_t s1 = contents_formatted_t s2 /\
  state_formatted_t s1 = state_formatted_t s2 /\
  cursor_state_formatted_t s1 = cursor_state_formatted_t s2 /\
  (forall start width, rows_formatted_t s1 start width = rows_formatted_t s2 start width) /\
  input_mode_formatted_t s1 = input_mode_formatted_t s2 /\
  attributes_formatted_t s1 = attributes_formatted_t s2.
Proof. exact ObsSpec.C19_factor. Qed.

(* the same at byte level *)
Theorem C19_factor_bytes : forall s1 s2 o, screen_ok s1 -> screen_ok s2 -> obs s1 = Ok o -> obs s2 = Ok o ->
  res_map ser_all (contents_formatted_t s1) = res_map ser_all (contents_formatted_t s2) /\
  res_map ser_all (state_formatted_t s1) = res_map ser_all (state_formatted_t s2) /\
  res_map ser_all (cursor_state_formatted_t s1) = res_map ser_all (cursor_state_formatted_t s2) /\
  (forall start width, res_map (map ser_all) (rows_formatted_t s1 start width)
                       = res_map (map ser_all) (rows_formatted_t s2 start width)) /\
  ser_all (input_mode_formatted_t s1) = ser_all (input_mode_formatted_t s2) /\
  ser_all (attributes_formatted_t s1) = ser_all (attributes_formatted_t s2).
Proof. exact ObsSpec.C19_factor_bytes. Qed.

(* the emitters that do not look at the primary grid's width need no invariant at all *)
Theorem C19_factor_noinv : forall s1 s2 o, obs s1 = Ok o -> obs s2 = Ok o ->
  contents_formatted_t s1 = contents_formatted_t s2 /\
  state_formatted_t s1 = state_formatted_t s2 /\
  cursor_state_formatted_t s1 = cursor_state_formatted_t s2 /\
  input_mode_formatted_t s1 = input_mode_formatted_t s2 /\
  attributes_formatted_t s1 = attributes_formatted_t s2 /\
  (gcols (g s1) = gcols (g s2) ->
   forall start width, rows_formatted_t s1 start width = rows_formatted_t s2 start width).
Proof.
  intros s1 s2 o H1 H2. repeat apply conj.
  - eapply contents_formatted_obs; eassumption.
  - eapply state_formatted_obs; eassumption.
  - eapply cursor_state_formatted_obs; eassumption.
  - eapply input_mode_formatted_obs; eassumption.
  - eapply attributes_formatted_obs; eassumption.
  - intros G start width. eapply rows_formatted_obs_gen; eassumption.
Qed.

(* "factors through": each emitter is a function of the observation alone — it equals the
   emitter of a canonical screen built from the observation and nothing else *)
Theorem C19_canonical : forall s o, screen_ok s -> obs s = Ok o ->
  contents_formatted_t s = contents_formatted_t (screen_of_obs o) /\
  state_formatted_t s = state_formatted_t (screen_of_obs o) /\
  cursor_state_formatted_t s = cursor_state_formatted_t (screen_of_obs o) /\
  (forall start width, rows_formatted_t s start width = rows_formatted_t (screen_of_obs o) start width) /\
  input_mode_formatted_t s = input_mode_formatted_t (screen_of_obs o) /\
  attributes_formatted_t s = attributes_formatted_t (screen_of_obs o).
Proof. exact ObsSpec.C19_canonical. Qed.

(* "not on the history that produced it": two histories (byte input, resizes, scrollback
   changes, in any interleaving) from any well-formed parser *)
Theorem C19_histories : forall p ops1 ops2 p1 p2 o,
  parser_ok p -> screen_wf (scr p) -> Forall op_ok ops1 -> Forall op_ok ops2 ->
  run p ops1 = Ok p1 -> run p ops2 = Ok p2 ->
  obs (scr p1) = Ok o -> obs (scr p2) = Ok o ->
  contents_formatted_t (scr p1) = contents_formatted_t (scr p2) /\
  state_formatted_t (scr p1) = state_formatted_t (scr p2) /\
  cursor_state_formatted_t (scr p1) = cursor_state_formatted_t (scr p2) /\
  (forall start width, rows_formatted_t (scr p1) start width = rows_formatted_t (scr p2) start width) /\
  input_mode_formatted_t (scr p1) = input_mode_formatted_t (scr p2) /\
  attributes_formatted_t (scr p1) = attributes_formatted_t (scr p2) /\
  contents_diff_t (scr p1) (scr p2) = Ok [] /\ state_diff_t (scr p1) (scr p2) = Ok [] /\
  input_mode_diff_t (scr p1) (scr p2) = [] /\
  (forall start width, rows_diff_t (scr p1) (scr p2) start width = Ok (repeatN [] (grows (cur (scr p1))))).
Proof.
  intros p ops1 ops2 p1 p2 o H W F1 F2 R1 R2 O1 O2.
  pose proof (WfInv.run_wf_strong ops1 p p1 H W F1 R1) as W1.
  destruct (run_ok ops1 p H F1) as (q1 & E1 & K1). destruct (run_ok ops2 p H F2) as (q2 & E2 & K2).
  rewrite R1 in E1. rewrite R2 in E2. inv E1. inv E2. apply parser_ok_scr in K1. apply parser_ok_scr in K2.
  destruct (ObsSpec.C19_factor _ _ o K1 K2 O1 O2) as (A1 & A2 & A3 & A4 & A5 & A6).
  destruct (C19_obsdiff _ _ o K1 W1 K2 O1 O2) as (B1 & B2 & B3 & B4).
  repeat apply conj; assumption.
Qed.

(* ------------------------------------------------------------------------------------------ *)
(* A.3  Diffs of observationally equal screens are empty. *)

(* row level: a row against itself (equal wrap state) emits nothing and leaves the tracked
   position and attributes alone; no bound is needed because no checked arithmetic is reached *)
Theorem C19_row_selfdiff : forall r start width rowi wrapping pr pc a,
  row_diff r r start width rowi wrapping wrapping (pr, pc) a = Ok ([], (pr, pc), a).
Proof. exact row_diff_self. Qed.

(* a screen against itself; a clone is the same value, so this is also "against its clone".
   rows_diff returns one empty string per visible row. *)
Theorem C19_selfdiff : forall s, screen_ok s -> screen_wf s ->
  contents_diff_t s s = Ok [] /\
  state_diff_t s s = Ok [] /\
  input_mode_diff_t s s = [] /\
  (forall start width, rows_diff_t s s start width = Ok (repeatN [] (grows (cur s)))).
Proof. exact ObsSpec.C19_selfdiff. Qed.

Theorem C19_selfdiff_bytes : forall s, screen_ok s -> screen_wf s ->
  res_map ser_all (contents_diff_t s s) = Ok [] /\
  res_map ser_all (state_diff_t s s) = Ok [] /\
  ser_all (input_mode_diff_t s s) = [] /\
  (forall start width, res_map (map ser_all) (rows_diff_t s s start width) = Ok (repeatN [] (grows (cur s)))).
Proof. exact ObsSpec.C19_selfdiff_bytes. Qed.

(* any two observationally equal screens *)
Theorem C19_obsdiff : forall s1 s2 o, screen_ok s1 -> screen_wf s1 -> screen_ok s2 -> obs s1 = Ok o -> obs s2 = Ok o ->
  contents_diff_t s1 s2 = Ok [] /\
  state_diff_t s1 s2 = Ok [] /\
  input_mode_diff_t s1 s2 = [] /\
  (forall start width, rows_diff_t s1 s2 start width = Ok (repeatN [] (grows (cur s1)))).
Proof. exact ObsSpec.C19_obsdiff. Qed.

(* what is really needed: the invariant of the first screen only, and only for contents_diff /
   state_diff (the one checked addition "cursor row + 1" inside MoveFromTo) *)
Theorem C19_obsdiff_minimal : forall s1 s2 o, obs s1 = Ok o -> obs s2 = Ok o ->
  (screen_ok s1 -> screen_wf s1 -> contents_diff_t s1 s2 = Ok [] /\ state_diff_t s1 s2 = Ok []) /\
  input_mode_diff_t s1 s2 = [] /\
  (forall start width, rows_diff_t s1 s2 start width = Ok (repeatN [] (len (o_vis o)))).
Proof.
  intros s1 s2 o H1 H2. repeat apply conj.
  - intros K W. split; [eapply contents_diff_obs|eapply state_diff_obs]; eassumption.
  - eapply input_mode_diff_obs; eassumption.
  - intros start width. eapply rows_diff_obs; eassumption.
Qed.

(* ------------------------------------------------------------------------------------------ *)
(* A.4  state_* = contents_* followed by input_mode_* (tokens, then bytes). *)
Theorem C19_concat_formatted : forall s,
  state_formatted_t s = (do ts <- contents_formatted_t s; Ok (ts ++ input_mode_formatted_t s)).
Proof. exact C19_concat_formatted. Qed.

Theorem C19_concat_diff : forall s prev,
  state_diff_t s prev = (do ts <- contents_diff_t s prev; Ok (ts ++ input_mode_diff_t s prev)).
Proof. exact C19_concat_diff. Qed.

Theorem C19_ser_all_app : forall a b, ser_all (a ++ b) = ser_all a ++ ser_all b.
Proof. exact ser_all_app. Qed.

Theorem C19_concat_formatted_bytes : forall s,
  res_map ser_all (state_formatted_t s) =
  res_map (fun bs => bs ++ ser_all (input_mode_formatted_t s)) (res_map ser_all (contents_formatted_t s)).
Proof. exact C19_concat_formatted_bytes. Qed.

Theorem C19_concat_diff_bytes : forall s prev,
  res_map ser_all (state_diff_t s prev) =
  res_map (fun bs => bs ++ ser_all (input_mode_diff_t s prev)) (res_map ser_all (contents_diff_t s prev)).
Proof. exact C19_concat_diff_bytes. Qed.

(* ------------------------------------------------------------------------------------------ *)
(* B.  The concrete 22-byte cell (src/cell.rs) refines the abstract cell of Cell.v.
       Representation of the len byte: bit 7 (128) IS_WIDE, bit 6 (64) IS_WIDE_CONTINUATION,
       bits 0..4 (mask 31) the length; the operations use N.lor / N.land literally, and the
       lemma u8_bits (exhaustive over 0..255) gives their arithmetic meaning.
       bwf b: 22 bytes, len byte < 256 with bit 5 clear, len() <= 22, and the first len() bytes
       are the UTF-8 encoding of a list of scalar values. *)

Theorem C19_cell_new : bwf bnew /\ abs bnew = cell_new.
Proof. split; [exact bnew_wf|exact abs_bnew]. Qed.

(* set never panics, keeps bwf, and is cell_set on the abstraction (the wide bit is
   c.width().unwrap_or(1) > 1 = char_is_wide c; both flag bits are cleared by len := 0) *)
Theorem C19_cell_set : forall c a b, bwf b -> is_scalar c = true ->
  exists b', bset c a b = Ok b' /\ bwf b' /\ abs b' = cell_set c a (abs b).
Proof. exact bset_abs. Qed.

(* append: the capacity test len() >= 18 guarantees room for the (at most 1 + 4) new bytes *)
Theorem C19_cell_append : forall c b, bwf b -> is_scalar c = true ->
  exists b', bappend c b = Ok b' /\ bwf b' /\ abs b' = cell_append c (abs b).
Proof. exact bappend_abs. Qed.

(* clear leaves all 22 bytes as they are (stale); only the buffer size is needed *)
Theorem C19_cell_clear : forall a b, len (bytes b) = CONTENT_BYTES ->
  bytes (bclear a b) = bytes b /\ bwf (bclear a b) /\ abs (bclear a b) = cell_clear a (abs b).
Proof. intros a b H. split; [reflexivity|]. now apply bclear_abs. Qed.

Theorem C19_cell_set_cont : forall w b, bwf b ->
  bwf (bset_cont w b) /\ abs (bset_cont w b) = cell_set_cont w (abs b).
Proof. exact bset_cont_abs. Qed.

(* PartialEq is equality of abstractions *)
Theorem C19_cell_eq : forall b1 b2, bwf b1 -> bwf b2 -> beq b1 b2 = Ok (cell_eqb (abs b1) (abs b2)).
Proof. exact beq_abs. Qed.

Theorem C19_cell_eqb_is_eq : forall c d, cell_eqb c d = true <-> c = d.
Proof. exact cell_eqb_eq. Qed.

(* observers *)
Theorem C19_cell_observers : forall b, bwf b ->
  bcontents b = Ok (ctext (abs b)) /\                      (* contents(): from_utf8(..).unwrap() succeeds *)
  bcontents_bytes b = Ok (encode_str (ctext (abs b))) /\   (* the str is the encoding of the abstract text *)
  bhas_contents b = has_contents (abs b) /\
  bis_wide b = cwide (abs b) /\ bis_cont b = ccont (abs b) /\ battrs b = cattrs (abs b) /\
  cell_len (abs b) = blen b.
Proof.
  intros b W. repeat apply conj; try reflexivity.
  - now apply bcontents_abs.
  - now apply bcontents_bytes_abs.
  - now apply bhas_contents_abs.
  - now apply cell_len_abs.
Qed.

(* the UTF-8 fact underneath: decoding the encoding of scalar values gives them back *)
Theorem C19_utf8_roundtrip : forall t, scalars t -> from_utf8 (encode_str t) = (t, text_len t, UOk).
Proof. exact from_utf8_encode_str. Qed.

(* conclusion: same abstraction => indistinguishable, now and after any further operation *)
Theorem C19_stale_bytes_unobservable : forall b1 b2, bwf b1 -> bwf b2 -> abs b1 = abs b2 ->
  beq b1 b2 = Ok true /\
  bcontents b1 = bcontents b2 /\ bcontents_bytes b1 = bcontents_bytes b2 /\
  bhas_contents b1 = bhas_contents b2 /\ bis_wide b1 = bis_wide b2 /\ bis_cont b1 = bis_cont b2 /\
  battrs b1 = battrs b2 /\
  (forall c a, is_scalar c = true -> res_abs (bset c a b1) = res_abs (bset c a b2)) /\
  (forall c, is_scalar c = true -> res_abs (bappend c b1) = res_abs (bappend c b2)) /\
  (forall a, abs (bclear a b1) = abs (bclear a b2)) /\
  (forall w, abs (bset_cont w b1) = abs (bset_cont w b2)).
Proof. exact stale_bytes_unobservable. Qed.

(* every cell built from Cell::new by the operations is well-formed, and nothing panics on it *)
Theorem C19_cell_reachable_wf : forall b, breach b -> bwf b.
Proof. exact breach_wf. Qed.

Theorem C19_cell_no_panic : forall b c a, breach b -> is_scalar c = true ->
  (exists b', bset c a b = Ok b') /\ (exists b', bappend c b = Ok b') /\
  (forall b2, breach b2 -> exists r, beq b b2 = Ok r) /\ (exists t, bcontents b = Ok t).
Proof. exact breach_no_panic. Qed.

(* abs is onto: every abstract cell with scalar text of at most 22 bytes is represented *)
Theorem C19_cell_representable : forall c, scalars (ctext c) -> text_len (ctext c) <= CONTENT_BYTES ->
  bwf (brepr c) /\ abs (brepr c) = c.
Proof. exact abs_brepr. Qed.

(* concrete witnesses: different bytes, same abstraction, equal under PartialEq *)
Theorem C19_example_cleared :
  (do b <- bset 20013 dflt bnew; Ok (bclear dflt b)) = Ok ex_cleared /\
  bytes ex_cleared <> bytes bnew /\ abs ex_cleared = abs bnew /\ beq ex_cleared bnew = Ok true.
Proof.
  split; [exact ex_cleared_origin|]. destruct ex_cleared_stale as (A & B & C & _). repeat split; assumption.
Qed.

Theorem C19_example_overwritten :
  (do b <- bset 20013 dflt bnew; bset 97 dflt b) = Ok ex_over /\ bset 97 dflt bnew = Ok ex_fresh /\
  bytes ex_over <> bytes ex_fresh /\ abs ex_over = abs ex_fresh /\ beq ex_over ex_fresh = Ok true.
Proof.
  split; [exact ex_over_origin|]. split; [exact ex_fresh_origin|].
  destruct ex_over_stale as (A & B & C & _). repeat split; assumption.
Qed.

Print Assumptions C19_obs_def.
Print Assumptions C19_obs_offset0.
Print Assumptions C19_obs_total.
Print Assumptions C19_factor.
Print Assumptions C19_factor_bytes.
Print Assumptions C19_factor_noinv.
Print Assumptions C19_canonical.
Print Assumptions C19_histories.
Print Assumptions C19_row_selfdiff.
Print Assumptions C19_selfdiff.
Print Assumptions C19_selfdiff_bytes.
Print Assumptions C19_obsdiff.
Print Assumptions C19_obsdiff_minimal.
Print Assumptions C19_concat_formatted.
Print Assumptions C19_concat_diff.
Print Assumptions C19_ser_all_app.
Print Assumptions C19_concat_formatted_bytes.
Print Assumptions C19_concat_diff_bytes.
Print Assumptions C19_cell_new.
Print Assumptions C19_cell_set.
Print Assumptions C19_cell_append.
Print Assumptions C19_cell_clear.
Print Assumptions C19_cell_set_cont.
Print Assumptions C19_cell_eq.
Print Assumptions C19_cell_eqb_is_eq.
Print Assumptions C19_cell_observers.
Print Assumptions C19_utf8_roundtrip.
Print Assumptions C19_stale_bytes_unobservable.
Print Assumptions C19_cell_reachable_wf.
Print Assumptions C19_cell_no_panic.
Print Assumptions C19_cell_representable.
Print Assumptions C19_example_cleared.
Print Assumptions C19_example_overwritten.
