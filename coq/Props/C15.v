(* C15 — rows_formatted.

   "Drawing the rows returned by rows_formatted(start, width) at their positions on a blank
    receiver of the same size reproduces the cells inside the window (aligned windows: no
    continuation cell at `start`, no wide cell at `start+width-1`); for the full width, followed by
    cursor_state_formatted, attributes_formatted and input_mode_formatted, it reproduces the
    observable state."

   Semantic core at the level of actions (Recv.play); byte level: ParseSer.parse_ser.
   Protocols: DESIGN 5.2.
     window (proper sub-window): for every row i:  ESC[m  ESC[<i+1>;<start+1>H  <row bytes>
     full width: for every row i: ESC[m; unless row i-1 is wrapped, ESC[<i+1>H; <row bytes>;
                 then ESC[m, cursor_state_formatted, attributes_formatted, input_mode_formatted.
   Cells outside a proper sub-window are not constrained (an erase run open at the end of the
   window is flushed with EL, which blanks the rest of the line with the run's attributes). *)
Require Import Tac ListN Utf8 Width Attrs Cell Row Grid Screen Vte Perform Parser Term Emit.
Require Import RowInv GridInv TextInv ScreenInv ParseSer CellWf WfInv WrapInv WrapInvScreen SgrSpec EmitSafe ObsSpec.
Require Import CellInv Recv RowPaint Redraw Cursor C01Main C15Main CapInv Idem LastRow C01Examples.
Open Scope N_scope.

(* ---- the protocols, restated ---- *)
Theorem C15_window_protocol_def : forall start i toks,
  window_protocol start i toks =
  match toks with
  | [] => []
  | ts :: rest => t_clear_attrs :: TCsi false [i + 1; start + 1] 72 :: ts ++ window_protocol start (i + 1) rest
  end.
Proof. intros start i [|ts rest]; reflexivity. Qed.

Theorem C15_full_protocol_def : forall S vr toks ctoks,
  full_protocol S vr toks ctoks =
  full_rows_protocol 0 false vr toks ++ t_clear_attrs :: ctoks ++ attributes_formatted_t S ++ input_mode_formatted_t S.
Proof. reflexivity. Qed.

Theorem C15_full_rows_protocol_def : forall i prevw vr toks,
  full_rows_protocol i prevw vr toks =
  match vr, toks with
  | rw :: vr', ts :: rest =>
      t_clear_attrs :: (if prevw then [] else [TCsi false [i + 1] 72]) ++ ts
        ++ full_rows_protocol (i + 1) (wrapped rw) vr' rest
  | _, _ => []
  end.
Proof. intros i prevw [|rw vr] [|ts rest]; reflexivity. Qed.

(* ---- one row of an aligned window ---- *)
(* receiver: a canvas with the cursor at (i, start), pen default, row i blank from column `start` to
   the end of the line and not flagged.  Result: inside the window the row equals the source row
   (text, wide, continuation, attributes); columns before `start` and all other rows are unchanged
   (the new list of rows is set_at l i ri); the row stays unflagged; columns behind the window are
   blank with some attributes. *)
Theorem C15_window_row : forall R l i src start width ri0,
  cv R l i start -> srow_ok (gcols (g R)) src ->
  start < gcols (g R) -> 1 <= width -> start + width <= gcols (g R) ->
  fc (cells src) start = false -> fw (cells src) (start + width - 1) = false ->
  get l i = Some ri0 -> blank_from start (gcols (g R)) ri0 ->
  exists ts r' c' a' ri,
    row_formatted src start width i false None None = Ok (ts, (r', c'), a') /\
    plays (rcv R l i start dflt) ts (rcv R (set_at l i ri) r' c' a') /\
    cv R (set_at l i ri) r' c' /\ pen_ok a' /\
    wrapped ri = false /\
    (forall k, k < start -> get (cells ri) k = get (cells ri0) k) /\
    (forall k, start <= k < start + width -> get (cells ri) k = get (cells src) k) /\
    (exists ea, forall k, start + width <= k < gcols (g R) -> get (cells ri) k = Some (EraseSpec.blank ea)).
Proof. exact C15Main.C15_window_row. Qed.

(* ---- a proper sub-window, all rows, sequentially on one receiver ---- *)
Theorem C15_window : forall S R vr start width toks,
  source_ok S vr -> canvas R -> grows (g R) = grows (cur S) -> gcols (g R) = gcols (cur S) ->
  (forall i ri, get (live (g R)) i = Some ri -> blank_from start (gcols (g R)) ri) ->
  start < gcols (cur S) -> 1 <= width -> start + width <= gcols (cur S) ->
  (start =? 0) && (width =? gcols (cur S)) = false ->
  Forall (aligned start width) vr ->
  rows_formatted_t S start width = Ok toks ->
  exists R', play false R (window_protocol start 0 toks) = Ok (R', []) /\ canvas R' /\
    forall i, i < grows (cur S) -> exists ri src,
      get (live (g R')) i = Some ri /\ get vr i = Some src /\
      forall k, start <= k < start + width -> get (cells ri) k = get (cells src) k.
Proof. exact C15Main.C15_window. Qed.

(* ---- the full width: the row-wise protocol reproduces the observable state ---- *)
Theorem C15_full : forall S R vr toks ctoks,
  source_ok S vr -> canvas R -> grows (g R) = grows (cur S) -> gcols (g R) = gcols (cur S) ->
  live (g R) = blank_rows (grows (g R)) (gcols (g R)) ->
  mmode R = MNone -> menc R = EDefault ->
  rows_formatted_t S 0 (gcols (cur S)) = Ok toks -> cursor_state_formatted_t S = Ok ctoks ->
  exists R', play false R (full_protocol S vr toks ctoks) = Ok (R', []) /\ canvas R' /\
             same_obs_minus S R' vr /\ same_modes S R'.
Proof. exact C15Main.C15_full. Qed.

(* in API terms: any reachable screen at scrollback offset 0, a fresh parser of its size: the row-wise
   protocol reproduces the observation exactly *)
Theorem C15_full_reachable_obs : forall rows cols cap rz ops p q cap' rz' r toks ctoks,
  1 <= rows <= MAXDIM -> 1 <= cols <= MAXDIM ->
  parser_new rows cols cap rz = Ok p -> Forall op_ok ops -> run p ops = Ok q ->
  sb_off (cur (scr q)) = 0 ->
  parser_new (grows (cur (scr q))) (gcols (cur (scr q))) cap' rz' = Ok r ->
  rows_formatted_t (scr q) 0 (gcols (cur (scr q))) = Ok toks -> cursor_state_formatted_t (scr q) = Ok ctoks ->
  exists R', play false (scr r) (full_protocol (scr q) (live (cur (scr q))) toks ctoks) = Ok (R', []) /\ canvas R' /\
             obs R' = obs (scr q).
Proof. exact C01Examples.C15_full_reachable_obs. Qed.

Print Assumptions C15_window_row.
Print Assumptions C15_window.
Print Assumptions C15_full.
Print Assumptions C15_full_reachable_obs.
