(* C03 — totality: no input can make processing panic or overflow.
   (Accessor/emitter totality: C03_emitters below when EmitSafe is available; plain-text
   accessors: C14_*_no_panic.) *)
Require Import Tac ListN Cell Row Grid Screen Vte Perform Parser Emit RowInv GridInv TextInv ScreenInv EmitSafe EmitTextSafe.
Open Scope N_scope.

(* the property's size bound *)
Definition size_ok (n : N) : Prop := 1 <= n <= 512.

Definition api_ok (o : api_op) : Prop :=
  match o with OpSetSize r c => 1 <= r <= MAXDIM /\ 1 <= c <= MAXDIM | _ => True end.

(* Constructing a parser of any size up to 512x512 (indeed up to 65520x65520) with any scrollback
   capacity, then processing any byte strings in any chunking (process or io::Write),
   set_scrollback with any value and set_size within bounds, never reaches a Panic of the model:
   no failed unwrap, no out-of-range index, no u16/usize overflow in the overflow-checked build. *)
Theorem C03_process : forall rows cols cap rz ops,
  size_ok rows -> size_ok cols -> Forall api_ok ops ->
  exists p q, parser_new rows cols cap rz = Ok p /\ run p ops = Ok q.
Proof.
  intros rows cols cap rz ops [Hr1 Hr2] [Hc1 Hc2] Hops.
  destruct (parser_new_ok rows cols cap rz) as (p & Ep & Op); [unfold MAXDIM; lia|unfold MAXDIM; lia|].
  destruct (run_ok ops p Op) as (q & Eq & _).
  { eapply Forall_impl; [|exact Hops]. intros o Ho. destruct o; exact Ho. }
  eauto.
Qed.

(* each single action is total on a reachable screen, whatever its parameters (0..65535 and beyond) *)
Theorem C03_perform : forall rz s a, screen_ok s -> exists s' evs, perform rz s a = Ok (s', evs) /\ screen_ok s'.
Proof. intros rz s a H. exact (perform_ok rz s a H). Qed.

(* every *_formatted / *_diff emitter, against any reachable same-size screen, for ALL start/width
   arguments, returns normally *)
Theorem C03_emitters : forall s p start width,
  screen_ok s -> screen_ok p ->
  grows (g p) = grows (g s) -> gcols (g p) = gcols (g s) ->
  (exists ts, contents_formatted_t s = Ok ts) /\
  (exists ts, state_formatted_t s = Ok ts) /\
  (exists ts, cursor_state_formatted_t s = Ok ts) /\
  (exists ts, contents_diff_t s p = Ok ts) /\
  (exists ts, state_diff_t s p = Ok ts) /\
  (exists out, rows_formatted_t s start width = Ok out) /\
  (exists out, rows_diff_t s p start width = Ok out).
Proof. exact EmitSafe.C03_emitters. Qed.

(* contents(), rows(start,width), contents_between(..), cell(r,c), row_wrapped(r) for ALL arguments *)
Theorem C03_text_views : forall s start width sr sc er ecol r c,
  screen_ok s ->
  (exists t, contents_text s = Ok t) /\
  (exists out, rows_text s start width = Ok out) /\
  (exists t, contents_between s sr sc er ecol = Ok t) /\
  (exists o, visible_row (cur s) r = Ok o) /\
  (exists o, visible_cell (cur s) r c = Ok o).
Proof. exact EmitTextSafe.C03_text_views. Qed.

(* Gallina functions are total, so the model cannot diverge; the loops of the code are mirrored by
   structural recursions whose iteration counts are bounded by the screen dimensions except IL/SD
   (bounded by the u16 parameter).  CPU time itself is measured by the check, not proved. *)
