(* C06 — cursor movement: BS, HT, CR, CUU, CUD, CUF, CUB, CNL, CPL, CHA, VPA, CUP, DECSTBM homing
   and origin-mode changes leave every cell, wrap flag and the pen unchanged and put the cursor
   where xterm semantics prescribe.  Specification: MoveSpec.move_spec / decstbm_spec (declarative,
   over the abstract cursor state MoveSpec.cst).  All statements are restated here in full. *)
Require Import Tac ListN Attrs Cell Row Grid Screen Vte Perform Parser RowInv GridInv ScreenInv MoveSpec.
Open Scope N_scope.

(* ---- 1. movement commands ---- *)

(* the action of each command, with well-formed (already defaulted, >= 1) parameters, is total on
   every screen satisfying the invariant, emits no event, and changes nothing but the cursor
   position of the current grid, which becomes what move_spec says.  Parameters are arbitrary
   N >= 1: no upper bound is needed (the clamps absorb the parser's saturation at 65535). *)
Theorem C06_move : forall rz s m, screen_ok s -> mv_wf m ->
  perform rz s (action_of_mv m) =
  Ok (with_cur s (with_pos (cur s) (fst (move_spec (cst_of (cur s)) m)) (snd (move_spec (cst_of (cur s)) m))), []).
Proof. exact MoveSpec.C06_move. Qed.

(* raw parameters: 0 means 1 *)
Theorem C06_move_raw : forall rz s m, screen_ok s ->
  perform rz s (action_of_mv m) = Ok (smoved s (norm_mv m), []).
Proof. exact perform_action_of_mv. Qed.

(* arbitrary parameter lists (sub-parameters, extra groups, empty groups) and ignore flag *)
Theorem C06_move_csi : forall rz s ps ign c m, screen_ok s -> mv_of_csi ps c = Some m ->
  perform rz s (ACsi ps [] ign c) = Ok (smoved s m, []).
Proof. exact perform_csi_move. Qed.
Theorem C06_move_exec : forall rz s b m, screen_ok s -> mv_of_exec b = Some m ->
  perform rz s (AExecute b) = Ok (smoved s m, []).
Proof. exact perform_exec_move. Qed.

(* defaulting of parameters *)
Theorem C06_canon1_zero : canon1 [[0]] 1 = 1.
Proof. reflexivity. Qed.
Theorem C06_canon1_pos : forall n, 1 <= n -> canon1 [[n]] 1 = n.
Proof. intros n H. now apply canon1_pos1. Qed.
Theorem C06_canon1_general : forall n subs rest d, canon1 ((n :: subs) :: rest) d = if n =? 0 then d else n.
Proof. reflexivity. Qed.
Theorem C06_canon1_none : forall d rest, canon1 [] d = d /\ canon1 ([] :: rest) d = d.
Proof. split; reflexivity. Qed.
Theorem C06_canon2_two : forall r c, canon2 [[r]; [c]] 1 1 = (if r =? 0 then 1 else r, if c =? 0 then 1 else c).
Proof. reflexivity. Qed.
Theorem C06_canon2_one : forall r, canon2 [[r]] 1 1 = (if r =? 0 then 1 else r, 1).
Proof. reflexivity. Qed.
Theorem C06_canon2_zero : canon2 [[0]; [0]] 1 1 = (1, 1).
Proof. reflexivity. Qed.

(* the frame, in plain terms *)
Theorem C06_move_frame : forall rz s m s' evs, screen_ok s -> mv_wf m ->
  perform rz s (action_of_mv m) = Ok (s', evs) ->
  evs = [] /\
  live (cur s') = live (cur s) /\
  sb (cur s') = sb (cur s) /\ sb_off (cur s') = sb_off (cur s) /\
  pen s' = pen s /\ spen s' = spen s /\
  top (cur s') = top (cur s) /\ bot (cur s') = bot (cur s) /\
  origin (cur s') = origin (cur s) /\
  sprow (cur s') = sprow (cur s) /\ spcol (cur s') = spcol (cur s) /\ sorigin (cur s') = sorigin (cur s) /\
  grows (cur s') = grows (cur s) /\ gcols (cur s') = gcols (cur s) /\
  altmode s' = altmode s /\
  (if altmode s then g s' = g s else alt s' = alt s) /\
  (prow (cur s'), pcol (cur s')) = move_spec (cst_of (cur s)) m.
Proof. exact MoveSpec.C06_move_frame. Qed.

Theorem C06_cursor_only : forall s m, cursor_only s (smoved s m).
Proof. exact smoved_frame. Qed.

(* ---- 4. the new cursor is in bounds; the pending-wrap column survives only untouched ---- *)
Theorem C06_move_bounds : forall s m, screen_ok s -> mv_wf m ->
  let x := cur s in
  let '(r', c') := move_spec (cst_of x) m in
  r' < grows x /\ c' <= gcols x /\
  (c' < gcols x \/ (touches_col m = false /\ c' = pcol x /\ pcol x = gcols x)).
Proof. exact MoveSpec.C06_move_bounds. Qed.

Theorem C06_move_ok : forall s m, screen_ok s -> mv_wf m -> screen_ok (smoved s m).
Proof. exact smoved_ok. Qed.

(* properties of the specification itself *)
Theorem C06_spec_bounds : forall c m, cst_ok c -> mv_wf m ->
  let '(r', k') := move_spec c m in
  r' < c_rows c /\ k' <= c_cols c /\
  (k' < c_cols c \/ (touches_col m = false /\ k' = c_col c /\ c_col c = c_cols c)).
Proof. exact move_spec_bounds. Qed.
Theorem C06_spec_region : forall c m n, cst_ok c -> in_region c = true ->
  (m = MCuu n \/ m = MCud n \/ m = MCnl n \/ m = MCpl n) ->
  c_top c <= fst (move_spec c m) <= c_bot c.
Proof. exact move_spec_region. Qed.
Theorem C06_spec_cup_origin : forall c r k, cst_ok c -> c_origin c = true ->
  c_top c <= fst (move_spec c (MCup r k)) <= c_bot c.
Proof. exact move_spec_cup_origin. Qed.
Theorem C06_spec_cnl_cpl : forall c n,
  move_spec c (MCnl n) = move_spec (cst_at c (move_spec c MCr)) (MCud n) /\
  move_spec c (MCpl n) = move_spec (cst_at c (move_spec c MCr)) (MCuu n).
Proof. exact move_spec_cnl_cpl. Qed.
Theorem C06_spec_tab : forall col,
  let t := (col / 8 + 1) * 8 in
  t mod 8 = 0 /\ col < t /\ (forall u, u mod 8 = 0 -> col < u -> t <= u).
Proof. exact tab_stop_least. Qed.
Theorem C06_spec_saturation : forall c m lim, cst_ok c -> c_rows c <= lim -> c_cols c <= lim ->
  let cl n := N.min n (lim + 1) in
  move_spec c m =
  move_spec c match m with
              | MBs => MBs | MHt => MHt | MCr => MCr
              | MCuu n => MCuu (cl n) | MCud n => MCud (cl n) | MCuf n => MCuf (cl n) | MCub n => MCub (cl n)
              | MCnl n => MCnl (cl n) | MCpl n => MCpl (cl n) | MCha n => MCha (cl n) | MVpa n => MVpa (cl n)
              | MCup r k => MCup (cl r) (cl k)
              end.
Proof. exact move_spec_sat. Qed.

(* ---- 2. DECSTBM ---- *)
Theorem C06_decstbm : forall rz s t b, screen_ok s ->
  perform rz s (ACsi [[t]; [b]] [] false 114) =
  Ok (with_cur s (set_region (cur s) (decstbm_spec (grows (cur s)) t b)), []).
Proof. exact MoveSpec.C06_decstbm. Qed.

Theorem C06_decstbm_general : forall rz s ps ign, screen_ok s ->
  perform rz s (ACsi ps [] ign 114) =
  Ok (with_cur s (set_region (cur s)
        (decstbm_spec (grows (cur s)) (first_sub (hd_error ps)) (first_sub (hd_error (tl ps))))), []).
Proof. exact perform_decstbm. Qed.

Theorem C06_decstbm_spec_unfolded : forall rows t b,
  decstbm_spec rows t b =
  let t' := (if t =? 0 then 1 else t) - 1 in
  let b' := N.min ((if b =? 0 then rows else b) - 1) (rows - 1) in
  if t' <? b' then (t', b') else (0, rows - 1).
Proof. reflexivity. Qed.

Theorem C06_decstbm_spec_region : forall rows t b, 1 <= rows ->
  let '(t', b') := decstbm_spec rows t b in
  b' < rows /\ (t' < b' \/ (t' = 0 /\ b' = rows - 1)).
Proof. exact decstbm_spec_region. Qed.

Theorem C06_decstbm_frame : forall rz s t b s' evs, screen_ok s ->
  perform rz s (ACsi [[t]; [b]] [] false 114) = Ok (s', evs) ->
  let tb := decstbm_spec (grows (cur s)) t b in
  evs = [] /\
  top (cur s') = fst tb /\ bot (cur s') = snd tb /\
  prow (cur s') = fst tb /\ pcol (cur s') = 0 /\
  live (cur s') = live (cur s) /\ sb (cur s') = sb (cur s) /\ sb_off (cur s') = sb_off (cur s) /\
  pen s' = pen s /\ spen s' = spen s /\
  origin (cur s') = origin (cur s) /\
  sprow (cur s') = sprow (cur s) /\ spcol (cur s') = spcol (cur s) /\ sorigin (cur s') = sorigin (cur s) /\
  grows (cur s') = grows (cur s) /\ gcols (cur s') = gcols (cur s) /\
  altmode s' = altmode s /\
  (if altmode s then g s' = g s else alt s' = alt s) /\
  screen_ok s'.
Proof. exact MoveSpec.C06_decstbm_frame. Qed.

Theorem C06_decstbm_ok : forall s t b, screen_ok s ->
  screen_ok (with_cur s (set_region (cur s) (decstbm_spec (grows (cur s)) t b))).
Proof. exact set_region_ok. Qed.

(* ---- 3. origin mode ---- *)
Theorem C06_origin_ok : forall s m, screen_ok s -> screen_ok (with_cur s (set_origin (cur s) m)).
Proof. exact set_origin_ok. Qed.
Theorem C06_origin_set : forall rz s ign, screen_ok s ->
  perform rz s (ACsi [[6]] [63] ign 104) =
  Ok (with_cur s (with_pos (with_origin (cur s) true) (top (cur s)) 0), []).
Proof. exact MoveSpec.C06_origin_set. Qed.
Theorem C06_origin_reset : forall rz s ign, screen_ok s ->
  perform rz s (ACsi [[6]] [63] ign 108) =
  Ok (with_cur s (with_pos (with_origin (cur s) false) 0 0), []).
Proof. exact MoveSpec.C06_origin_reset. Qed.

Theorem C06_origin_frame : forall rz s (m : bool) s' evs, screen_ok s ->
  perform rz s (ACsi [[6]] [63] false (if m then 104 else 108)) = Ok (s', evs) ->
  evs = [] /\ origin (cur s') = m /\
  prow (cur s') = (if m then top (cur s) else 0) /\ pcol (cur s') = 0 /\
  top (cur s') = top (cur s) /\ bot (cur s') = bot (cur s) /\
  live (cur s') = live (cur s) /\ sb (cur s') = sb (cur s) /\ sb_off (cur s') = sb_off (cur s) /\
  pen s' = pen s /\ spen s' = spen s /\
  sprow (cur s') = sprow (cur s) /\ spcol (cur s') = spcol (cur s) /\ sorigin (cur s') = sorigin (cur s) /\
  grows (cur s') = grows (cur s) /\ gcols (cur s') = gcols (cur s) /\
  altmode s' = altmode s /\
  (if altmode s then g s' = g s else alt s' = alt s) /\
  screen_ok s'.
Proof. exact MoveSpec.C06_origin_frame. Qed.

(* ================================================================== *)
(* Non-vacuity: a concrete 5 x 10 screen with scroll region (2, 4)    *)
(* ================================================================== *)

Definition s510 : res screen :=
  do s <- screen_new 5 10 0;
  do '(s1, _) <- perform false s (ACsi [[3]; [5]] [] false 114);
  Ok s1.

(* the hypotheses are satisfiable: the example screen satisfies the invariant *)
Theorem C06_example_ok : exists s, s510 = Ok s /\ screen_ok s /\
  grows (cur s) = 5 /\ gcols (cur s) = 10 /\ top (cur s) = 2 /\ bot (cur s) = 4 /\
  (prow (cur s), pcol (cur s)) = (2, 0).
Proof.
  unfold s510. destruct (screen_new_ok 5 10 0) as (s & E & O & _); [unfold MAXDIM; lia|unfold MAXDIM; lia|].
  rewrite E. cbn [bind]. rewrite (MoveSpec.C06_decstbm false s 3 5 O). cbn [bind].
  eexists; split; [reflexivity|]. split; [apply set_region_ok; exact O|].
  vm_compute in E. inv E. vm_compute. auto.
Qed.

(* run actions on the example screen and report region and cursor *)
Definition after (acts : list action) : res (N * N * bool * (N * N)) :=
  do s <- s510;
  do '(s1, _) <- perform_all false s acts [];
  Ok (top (cur s1), bot (cur s1), origin (cur s1), (prow (cur s1), pcol (cur s1))).

Definition cup r c := ACsi [[r]; [c]] [] false 72.
Definition csi1 n c := ACsi [[n]] [] false c.

(* CUU stops at the top margin when started inside the region, at the screen edge otherwise *)
Example ex_cuu_inside : after [cup 4 6; csi1 10 65] = Ok (2, 4, false, (2, 5)).
Proof. vm_compute. reflexivity. Qed.
Example ex_cuu_outside : after [cup 2 6; csi1 10 65] = Ok (2, 4, false, (0, 5)).
Proof. vm_compute. reflexivity. Qed.
Example ex_cuu_default : after [cup 4 6; csi1 0 65] = Ok (2, 4, false, (2, 5)).
Proof. vm_compute. reflexivity. Qed.
(* CUD: bottom margin = last line here; from above the region it still runs to the screen edge *)
Example ex_cud_inside : after [cup 3 1; csi1 65535 66] = Ok (2, 4, false, (4, 0)).
Proof. vm_compute. reflexivity. Qed.
Example ex_cud_outside : after [cup 1 1; csi1 2 66] = Ok (2, 4, false, (2, 0)).
Proof. vm_compute. reflexivity. Qed.
(* a region (1,3) inside the screen: CUD from below the region reaches the last line,
   from inside it stops at the bottom margin *)
Example ex_cud_region13_inside :
  after [ACsi [[2]; [4]] [] false 114; cup 3 1; csi1 9 66] = Ok (1, 3, false, (3, 0)).
Proof. vm_compute. reflexivity. Qed.
Example ex_cud_region13_below :
  after [ACsi [[2]; [4]] [] false 114; cup 5 1; csi1 9 66] = Ok (1, 3, false, (4, 0)).
Proof. vm_compute. reflexivity. Qed.
(* CUF / CUB / BS / CR / HT *)
Example ex_cuf : after [cup 1 8; csi1 5 67] = Ok (2, 4, false, (0, 9)).
Proof. vm_compute. reflexivity. Qed.
Example ex_cub : after [cup 1 8; csi1 3 68] = Ok (2, 4, false, (0, 4)).
Proof. vm_compute. reflexivity. Qed.
Example ex_cub_edge : after [cup 1 3; csi1 9 68] = Ok (2, 4, false, (0, 0)).
Proof. vm_compute. reflexivity. Qed.
Example ex_bs : after [cup 1 3; AExecute 8] = Ok (2, 4, false, (0, 1)).
Proof. vm_compute. reflexivity. Qed.
Example ex_cr : after [cup 2 7; AExecute 13] = Ok (2, 4, false, (1, 0)).
Proof. vm_compute. reflexivity. Qed.
Example ex_ht : after [cup 1 4; AExecute 9] = Ok (2, 4, false, (0, 8)).
Proof. vm_compute. reflexivity. Qed.
Example ex_ht_last : after [cup 1 4; AExecute 9; AExecute 9] = Ok (2, 4, false, (0, 9)).
Proof. vm_compute. reflexivity. Qed.
(* pending wrap: after 10 characters the column is 10 = cols; BS goes to 9, CUU keeps 10 *)
Definition ten_x : list action := repeat (APrint 120) 10.
Example ex_pending : after (cup 4 1 :: ten_x) = Ok (2, 4, false, (3, 10)).
Proof. vm_compute. reflexivity. Qed.
Example ex_pending_bs : after (cup 4 1 :: ten_x ++ [AExecute 8]) = Ok (2, 4, false, (3, 9)).
Proof. vm_compute. reflexivity. Qed.
Example ex_pending_cuu : after (cup 4 1 :: ten_x ++ [csi1 1 65]) = Ok (2, 4, false, (2, 10)).
Proof. vm_compute. reflexivity. Qed.
Example ex_pending_cub : after (cup 4 1 :: ten_x ++ [csi1 2 68]) = Ok (2, 4, false, (3, 8)).
Proof. vm_compute. reflexivity. Qed.
(* CNL / CPL / CHA / VPA / CUP *)
Example ex_cnl : after [cup 3 6; csi1 1 69] = Ok (2, 4, false, (3, 0)).
Proof. vm_compute. reflexivity. Qed.
Example ex_cpl : after [cup 4 6; csi1 7 70] = Ok (2, 4, false, (2, 0)).
Proof. vm_compute. reflexivity. Qed.
Example ex_cha : after [cup 4 6; csi1 99 71] = Ok (2, 4, false, (3, 9)).
Proof. vm_compute. reflexivity. Qed.
Example ex_vpa : after [cup 4 6; csi1 2 100] = Ok (2, 4, false, (1, 5)).
Proof. vm_compute. reflexivity. Qed.
Example ex_cup_clamp : after [cup 99 99] = Ok (2, 4, false, (4, 9)).
Proof. vm_compute. reflexivity. Qed.
Example ex_cup_default : after [cup 4 6; cup 0 0] = Ok (2, 4, false, (0, 0)).
Proof. vm_compute. reflexivity. Qed.
(* origin mode: homing, CUP relative to and confined to the region; VPA is NOT origin-relative *)
Definition decom_on := ACsi [[6]] [63] false 104.
Definition decom_off := ACsi [[6]] [63] false 108.
Example ex_origin_on : after [cup 5 5; decom_on] = Ok (2, 4, true, (2, 0)).
Proof. vm_compute. reflexivity. Qed.
Example ex_origin_off : after [decom_on; cup 2 5; decom_off] = Ok (2, 4, false, (0, 0)).
Proof. vm_compute. reflexivity. Qed.
Example ex_origin_cup : after [decom_on; cup 2 5] = Ok (2, 4, true, (3, 4)).
Proof. vm_compute. reflexivity. Qed.
Example ex_origin_cup_clamp : after [decom_on; cup 65535 5] = Ok (2, 4, true, (4, 4)).
Proof. vm_compute. reflexivity. Qed.
Example ex_origin_vpa : after [decom_on; csi1 1 100] = Ok (2, 4, true, (0, 0)).
Proof. vm_compute. reflexivity. Qed.
(* DECSTBM: rejected regions give the full screen; the cursor homes to the region's first line *)
Example ex_decstbm_reject : after [ACsi [[4]; [2]] [] false 114] = Ok (0, 4, false, (0, 0)).
Proof. vm_compute. reflexivity. Qed.
Example ex_decstbm_equal : after [ACsi [[3]; [3]] [] false 114] = Ok (0, 4, false, (0, 0)).
Proof. vm_compute. reflexivity. Qed.
Example ex_decstbm_default : after [cup 4 4; ACsi [[0]] [] false 114] = Ok (0, 4, false, (0, 0)).
Proof. vm_compute. reflexivity. Qed.
Example ex_decstbm_clamp : after [cup 4 4; ACsi [[2]; [99]] [] false 114] = Ok (1, 4, false, (1, 0)).
Proof. vm_compute. reflexivity. Qed.

(* the specification evaluated on the same situations *)
Definition c510 (o : bool) (r c : N) : cst := mkCst 5 10 2 4 o r c.
Example spec_cuu_inside : move_spec (c510 false 3 5) (MCuu 10) = (2, 5).
Proof. vm_compute. reflexivity. Qed.
Example spec_cuu_outside : move_spec (c510 false 1 5) (MCuu 10) = (0, 5).
Proof. vm_compute. reflexivity. Qed.
Example spec_cud_sat : move_spec (c510 false 2 0) (MCud 65535) = (4, 0).
Proof. vm_compute. reflexivity. Qed.
Example spec_ht : move_spec (c510 false 0 3) MHt = (0, 8) /\ move_spec (c510 false 0 8) MHt = (0, 9).
Proof. vm_compute. auto. Qed.
Example spec_bs_pending : move_spec (c510 false 3 10) MBs = (3, 9).
Proof. vm_compute. reflexivity. Qed.
Example spec_cup_origin : move_spec (c510 true 2 0) (MCup 2 5) = (3, 4) /\ move_spec (c510 true 2 0) (MCup 65535 5) = (4, 4).
Proof. vm_compute. auto. Qed.
Example spec_decstbm : decstbm_spec 5 3 5 = (2, 4) /\ decstbm_spec 5 4 2 = (0, 4) /\ decstbm_spec 5 0 0 = (0, 4)
  /\ decstbm_spec 5 3 3 = (0, 4) /\ decstbm_spec 5 2 99 = (1, 4).
Proof. vm_compute. auto 6. Qed.

(* from bytes: what the vte parser hands to perform (a missing parameter arrives as [[0]],
   large parameters arrive saturated at 65535) *)
Example bytes_cuu_default : snd (advance p_init [27; 91; 65]) = [ACsi [[0]] [] false 65].
Proof. vm_compute. reflexivity. Qed.
Example bytes_cup_partial : snd (advance p_init [27; 91; 59; 53; 72]) = [ACsi [[0]; [5]] [] false 72].
Proof. vm_compute. reflexivity. Qed.
Example bytes_cuu_saturated : snd (advance p_init [27; 91; 57; 57; 57; 57; 57; 57; 65]) = [ACsi [[65535]] [] false 65].
Proof. vm_compute. reflexivity. Qed.
Example bytes_decom : snd (advance p_init [27; 91; 63; 54; 104]) = [ACsi [[6]] [63] false 104].
Proof. vm_compute. reflexivity. Qed.
Example bytes_c0 : snd (advance p_init [8; 9; 13]) = [AExecute 8; AExecute 9; AExecute 13].
Proof. vm_compute. reflexivity. Qed.

