(* C01 (support) — "a wrapped row's last column is occupied".
   The redraw emitters rely on this: after painting a row whose `wrapped` flag is
   set, the receiver's cursor sits in the pending-wrap position, because the
   row's last column holds a character or the second half of a wide character. *)
Require Import Tac ListN Utf8 Width Attrs Cell Row Grid Screen Vte Perform Parser.
Require Import RowInv GridInv TextInv ScreenInv CellWf WfGrid WfVte WfInv WrapInv WrapInvScreen.
Open Scope N_scope.

(* The invariant, spelled out: in both grids of the screen, every live row and
   every scrollback row whose flag is set has, at its own last index, a cell
   with contents or a wide-continuation cell. *)
Theorem C01w_meaning : forall s,
  screen_wrapinv s <->
  (forall x, x = g s \/ x = alt s ->
   forall r, In r (live x) \/ In r (sb x) -> wrapped r = true ->
   exists c, get (cells r) (len (cells r) - 1) = Some c /\ (has_contents c = true \/ ccont c = true)).
Proof.
  intros s. unfold screen_wrapinv, grid_wrapinv, row_wrapinv, last_occupied. rewrite !Forall_forall. split.
  - intros [[G1 G2] [A1 A2]] x Hx r Hr.
    destruct Hx as [Hx|Hx]; subst x; destruct Hr as [Hr|Hr]; auto.
  - intros H. split; split; intros r Hr.
    + apply (H (g s)); auto.
    + apply (H (g s)); auto.
    + apply (H (alt s)); auto.
    + apply (H (alt s)); auto.
Qed.
Print Assumptions C01w_meaning.

(* A fresh parser satisfies it (no row is flagged). *)
Theorem C01w_new : forall rows cols cap rz p,
  parser_new rows cols cap rz = Ok p -> screen_wrapinv (scr p).
Proof. exact parser_new_wrapinv. Qed.
Print Assumptions C01w_new.

(* Every vte action preserves it; the structural invariant of C13 is needed
   (only) because printing a character consults the cursor row. *)
Theorem C01w_perform : forall rz s a s' evs,
  perform rz s a = Ok (s', evs) -> screen_ok s -> screen_wrapinv s -> screen_wrapinv s'.
Proof. exact perform_wrapinv. Qed.
Print Assumptions C01w_perform.

(* Every API step (process / write of arbitrary bytes, set_size, set_scrollback) preserves it. *)
Theorem C01w_step : forall p o q,
  step p o = Ok q -> parser_ok p -> screen_wrapinv (scr p) -> screen_wrapinv (scr q).
Proof. exact step_wrapinv. Qed.
Print Assumptions C01w_step.

(* ... hence every history does (statement of the task; screen_wf is not used). *)
Theorem C01w_run : forall ops p q,
  parser_ok p -> screen_wf (scr p) -> screen_wrapinv (scr p) ->
  Forall op_ok ops -> run p ops = Ok q -> screen_wrapinv (scr q).
Proof. exact run_wrapinv. Qed.
Print Assumptions C01w_run.

(* Every state reachable through the API: construction with legal dimensions,
   then any sequence of process/write chunks of arbitrary bytes, set_size within
   1..65520 and set_scrollback. *)
Theorem C01w_reachable : forall rows cols cap rz ops p q,
  1 <= rows <= MAXDIM -> 1 <= cols <= MAXDIM ->
  parser_new rows cols cap rz = Ok p -> Forall op_ok ops -> run p ops = Ok q ->
  screen_wrapinv (scr q).
Proof. exact history_wrapinv. Qed.
Print Assumptions C01w_reachable.

(* What the emitter reads off: in a reachable grid a flagged live row has an
   occupied cell in column cols-1 ... *)
Theorem C01w_last_cell : forall x r rw,
  grid_ok x -> grid_wrapinv x -> get (live x) r = Some rw -> wrapped rw = true ->
  exists c, get (cells rw) (gcols x - 1) = Some c /\ (has_contents c = true \/ ccont c = true).
Proof. exact wrapped_row_last_cell. Qed.
Print Assumptions C01w_last_cell.

(* ... and the same holds for every row of the visible window (scrollback rows
   included, each with respect to its own width). *)
Theorem C01w_visible : forall x l,
  visible_rows x = Ok l -> grid_wrapinv x -> Forall row_wrapinv l.
Proof. exact visible_rows_wrapinv. Qed.
Print Assumptions C01w_visible.

(* The flag is set in exactly one place, Grid::col_wrap, with the value computed
   by Screen::text from the last cell of the cursor row. *)
Theorem C01w_col_wrap : forall x width wrap y,
  col_wrap x width wrap = Ok y -> grid_wrapinv x -> grid_ok x ->
  (wrap = true -> exists rw, get (live x) (prow x) = Some rw /\ last_occupied (cells rw)) ->
  grid_wrapinv y.
Proof. exact col_wrap_wrapinv. Qed.
Print Assumptions C01w_col_wrap.

Theorem C01w_text : forall x ch a y,
  grid_text x ch a = Ok y -> grid_wrapinv x -> grid_ok x -> grid_wrapinv y.
Proof. exact grid_text_wrapinv. Qed.
Print Assumptions C01w_text.

(* Row::erase clears the flag whenever it blanks the last column. *)
Theorem C01w_row_erase : forall r i a r',
  row_erase r i a = Ok r' -> row_wrapinv r -> row_wrapinv r'.
Proof. exact row_erase_wrapinv. Qed.
Print Assumptions C01w_row_erase.
