(* C18 — callback events.
   "Each BEL, ESC g, OSC 0/1/2, CSI 8;r;c t, and each control character, C1/replacement
   character, ESC, CSI or OSC sequence the crate does not implement is reported to the Callbacks
   object exactly once, in stream order, with the exact payload (title/icon bytes; requested size
   with absent trailing values defaulting to the current size; intermediates, parameters and
   final byte), and implemented sequences produce no callback.  None of the reported sequences,
   nor SI/SO or DCS strings, changes any observable screen state."

   OBSERVATION (not a refutation of the model, a qualification of the property): a string
   terminated by the 7-bit ST "ESC \" — OSC, but also DCS, SOS, PM, APC — makes the vte parser
   dispatch the ESC sequence "ESC \" after the string.  The crate does not implement it, so it is
   reported as unhandled_escape(None, None, 0x5C): an OSC 0/1/2 ended by ESC \ produces its
   title/icon callbacks AND one unhandled-escape callback; a DCS string ended by ESC \ produces
   one unhandled-escape callback.  With BEL (OSC) or the C1 ST 0x9C (DCS) nothing extra is
   reported.  See C18_osc_st, C18_examples_strings. *)
Require Import Tac ListN Utf8 Attrs Cell Row Grid Screen Vte Perform Parser Term.
Require Import VteInv VteChunk ParseSer ScreenInv EventSpec SeqSpec EventSeq Chunking.
Open Scope N_scope.

(* ---- 5. the table ---- *)
(* [events_of rz s a] (EventSpec.v) is the declarative table:
   execute b     : 7 -> [EBell]; 8..15 -> [] (BS HT LF VT FF CR; SO SI ignored); else [EUnhControl b]
   print c       : C1 (0x80..0x9F) -> as execute; U+FFFD -> [EUnhChar c]; else []
   ESC           : no intermediate: 7 8 = > M c -> []; g -> [EVisualBell]; else [EUnhEscape None None b];
                   with intermediates i1 (i2): [EUnhEscape (Some i1) i2 b]
   CSI           : no intermediate: @ A B C D E F G H L M P S T X d r -> [];
                   J K: mode 0/1/2 -> [], else one EUnhCsi;  m: one EUnhCsi per unknown parameter;
                   t: first parameter 8 -> [EResize r c] (defaults: current size), else EUnhCsi;
                   any other final -> EUnhCsi;
                   '?' : J K as above; h l: one EUnhCsi per unrecognised mode; else EUnhCsi;
                   any other intermediate -> EUnhCsi with the first two intermediates
   OSC           : ["0";t] -> [EIconName t; ETitle t]; ["1";t] -> [EIconName t]; ["2";t] -> [ETitle t];
                   else [EUnhOsc fields]
   DCS hook/put/unhook : []                                                                  *)

Theorem C18_exact : forall rz s a s' evs,
  perform rz s a = Ok (s', evs) -> evs = events_of rz s a.
Proof. exact EventSpec.C18_exact. Qed.

(* in stream order, over a list of actions; the screen is threaded because the table reads the
   current size (resize defaults) *)
Theorem C18_exact_all : forall rz acts s evs0 s' evs,
  perform_all rz s acts evs0 = Ok (s', evs) -> evs = evs0 ++ events_all rz s acts.
Proof. exact EventSpec.C18_exact_all. Qed.

(* [delivered p bs] (Chunking.v) is what process hands to vte: pend p ++ bs without its incomplete
   utf-8 tail, which is held back for the next call (K04a repair); it is bs itself when pend p = []
   and bs ends in a complete character (Chunking.delivered_clean) *)
Theorem C18_process : forall p bs q,
  process p bs = Ok q ->
  log q = log p ++ events_all (resizing p) (scr p) (snd (advance (vt p) (delivered p bs))).
Proof. exact EventSpec.C18_process. Qed.

Theorem C18_events_all_app : forall rz a1 a2 s s1 e1,
  perform_all rz s a1 [] = Ok (s1, e1) ->
  events_all rz s (a1 ++ a2) = events_all rz s a1 ++ events_all rz s1 a2.
Proof. exact events_all_app. Qed.

(* the table depends only on the size of the current grid (not on rz, not on the pen) *)
Theorem C18_table_depends_on_size_only : forall rz rz' s t a,
  grows (cur s) = grows (cur t) -> gcols (cur s) = gcols (cur t) ->
  events_of rz s a = events_of rz' t a.
Proof. intros rz rz' s t a H1 H2. rewrite (events_of_rz rz rz'). apply events_of_size_only; assumption. Qed.

(* payloads *)
Theorem C18_payload_bel : forall rz s, events_of rz s (AExecute 7) = [EBell].
Proof. exact ev_bel. Qed.
Theorem C18_payload_vbel : forall rz s ig, events_of rz s (AEsc [] ig 103) = [EVisualBell].
Proof. exact ev_esc_g. Qed.
Theorem C18_payload_osc0 : forall rz s t bell, events_of rz s (AOsc [[48]; t] bell) = [EIconName t; ETitle t].
Proof. exact ev_osc0. Qed.
Theorem C18_payload_osc1 : forall rz s t bell, events_of rz s (AOsc [[49]; t] bell) = [EIconName t].
Proof. exact ev_osc1. Qed.
Theorem C18_payload_osc2 : forall rz s t bell, events_of rz s (AOsc [[50]; t] bell) = [ETitle t].
Proof. exact ev_osc2. Qed.
Theorem C18_payload_osc_other : forall rz s ps bell,
  (forall t, ps <> [[48]; t] /\ ps <> [[49]; t] /\ ps <> [[50]; t]) ->
  events_of rz s (AOsc ps bell) = [EUnhOsc ps].
Proof. exact ev_osc_other. Qed.
Theorem C18_payload_resize : forall rz s ig,
  (forall r c x y, events_of rz s (ACsi ([8] :: (r :: x) :: (c :: y) :: nil) [] ig 116) = [EResize r c]) /\
  (forall r x, events_of rz s (ACsi ([8] :: (r :: x) :: nil) [] ig 116) = [EResize r (gcols (cur s))]) /\
  events_of rz s (ACsi [[8]] [] ig 116) = [EResize (grows (cur s)) (gcols (cur s))].
Proof. intros rz s ig. repeat split. Qed.
Theorem C18_payload_control : forall rz s b, b <> 7 -> ~ (8 <= b <= 15) ->
  events_of rz s (AExecute b) = [EUnhControl b].
Proof. exact ev_unh_control. Qed.
Theorem C18_payload_c1 : forall rz s c, 128 <= c < 160 -> events_of rz s (APrint c) = [EUnhControl c].
Proof. exact ev_c1_char. Qed.
Theorem C18_payload_replacement : forall rz s, events_of rz s (APrint 65533) = [EUnhChar 65533].
Proof. exact ev_replacement. Qed.
Theorem C18_payload_esc_inter : forall rz s i r ig b,
  events_of rz s (AEsc (i :: r) ig b) = [EUnhEscape (Some i) (hd_error r) b].
Proof. exact ev_unh_esc_inter. Qed.
Theorem C18_payload_csi_final : forall rz s ps ig c,
  mem c csi_plain = false -> c <> 74 -> c <> 75 -> c <> 109 -> c <> 116 ->
  events_of rz s (ACsi ps [] ig c) = [EUnhCsi None None ps c].
Proof. exact ev_unh_csi_final. Qed.
Theorem C18_payload_csi_inter : forall rz s ps i r ig c,
  i <> 63 -> events_of rz s (ACsi ps (i :: r) ig c) = [EUnhCsi (Some i) (hd_error r) ps c].
Proof. exact ev_unh_csi_inter. Qed.

(* ---- 6. inertness ---- *)
(* [reported a]: BEL, unknown C0/C1, U+FFFD, ESC g and unknown ESC, every OSC, ED/EL/DECSED/DECSEL
   with a mode outside {0,1,2}, CSI .. t, CSI with unknown final or intermediate.  Under the
   recording Callbacks (rz = false) the screen is literally unchanged and at least one event is
   reported.  SGR / DECSET / DECRST with partly unknown parameter lists are NOT in this class:
   they report one event per unknown parameter and apply the known ones (C09, C10). *)
Theorem C18_inert : forall s a,
  reported a = true ->
  perform false s a = Ok (s, events_of false s a) /\ events_of false s a <> [].
Proof. exact EventSpec.C18_inert. Qed.

(* for any policy: inert unless it is a resize request that the Resizing callbacks apply
   (CSI 8;r;c t with 1 <= r, c <= 512 and rz = true) *)
Theorem C18_inert_gen : forall rz s a,
  reported a = true -> resize_applies rz s a = false ->
  perform rz s a = Ok (s, events_of rz s a) /\ events_of rz s a <> [].
Proof. exact EventSpec.C18_inert_gen. Qed.

Theorem C18_resize_applied : forall s a s' evs,
  resize_applies true s a = true -> perform true s a = Ok (s', evs) ->
  exists r c, evs = [EResize r c] /\ 1 <= r <= 512 /\ 1 <= c <= 512 /\ screen_set_size s r c = Ok s'.
Proof. exact EventSpec.C18_resize_applied. Qed.

(* SI / SO and DCS strings (hook, put, unhook): no event, no change *)
Theorem C18_ignored : forall rz s a, ignored a = true -> perform rz s a = Ok (s, []).
Proof. exact EventSpec.C18_ignored. Qed.
Theorem C18_ignored_list : forall rz s,
  perform rz s (AExecute 14) = Ok (s, []) /\ perform rz s (AExecute 15) = Ok (s, []) /\
  (forall ps i ig c, perform rz s (AHook ps i ig c) = Ok (s, [])) /\
  (forall b, perform rz s (APut b) = Ok (s, [])) /\ perform rz s AUnhook = Ok (s, []).
Proof. intros rz s. repeat split. Qed.

(* ---- 7. implemented sequences are silent ---- *)
(* [silent s a]: BS HT LF VT FF CR SO SI; printable characters; DCS; ESC 7 8 = > M c; CSI finals
   @ A B C D E F G H L M P S T X d r; ED/EL/DECSED/DECSEL with mode 0/1/2; SGR with only known
   parameters; DECSET/DECRST with only known modes.  Exactly these report nothing. *)
Theorem C18_silent_iff : forall rz s a, silent s a = true <-> events_of rz s a = [].
Proof. exact EventSpec.C18_silent_iff. Qed.
Theorem C18_silent : forall rz s a s' evs,
  silent s a = true -> perform rz s a = Ok (s', evs) -> evs = [].
Proof. exact EventSpec.C18_silent. Qed.

(* every action is exactly one of: silent / reported (inert) / SGR-DECSET-DECRST with an unknown
   parameter *)
Theorem C18_classification : forall s a,
  (silent s a = true /\ reported a = false /\ partly_unknown s a = false) \/
  (silent s a = false /\ reported a = true /\ partly_unknown s a = false) \/
  (silent s a = false /\ reported a = false /\ partly_unknown s a = true).
Proof. exact EventSpec.C18_classification. Qed.

(* ---- 8. exactly once: one well-formed sequence = one action ---- *)

(* general CSI: ESC [ marker? params inters final.  A number is a string of digits (value
   saturating at 65535, empty = 0), a parameter is >= 1 numbers joined by ':', the parameter
   string is >= 1 parameters joined by ';', at most 32 numbers, marker + intermediates <= 2 *)
Theorem C18_csi_vte : forall p mk G ins f,
  ground p -> csi_ok mk G ins f ->
  exists q, ground q /\
    advance p (csi_bytes mk G ins f) = (q, [ACsi (params_val G) (mk ++ ins) false f]).
Proof. exact advance_csi_general. Qed.

(* followed by arbitrary further bytes *)
Theorem C18_csi_vte_stream : forall p mk G ins f rest,
  ground p -> csi_ok mk G ins f ->
  exists q, ground q /\
    VteChunk.run p (csi_bytes mk G ins f ++ rest) =
    cat [ACsi (params_val G) (mk ++ ins) false f] (VteChunk.run q rest).
Proof. exact run_csi_general. Qed.

(* numbers printed in decimal: the exact parameter groups come back *)
Theorem C18_csi_numeric : forall p mk ps ins f,
  ground p -> marker_ok mk ->
  ps <> [] -> Forall (fun g => g <> []) ps -> Forall (Forall (fun x => x <= 65535)) ps ->
  len (concat ps) <= 32 -> Forall ibyte ins -> len mk + len ins <= 2 -> 64 <= f <= 126 ->
  exists q, ground q /\ advance p (csi_num_bytes mk ps ins f) = (q, [ACsi ps (mk ++ ins) false f]).
Proof. exact advance_csi_numeric. Qed.

(* general ESC: ESC inters final, final in 0x30..0x7E, not P X [ ] ^ _ when there is no intermediate *)
Theorem C18_esc_vte : forall p ins f,
  ground p -> esc_ok ins f ->
  advance p (esc_bytes ins f) = (K Ground ins [] [] 0, [AEsc ins false f]) /\
  ground (K Ground ins [] [] 0).
Proof. exact advance_esc_general. Qed.

(* OSC: ESC ] f1 ; f2 ; ... ; fk terminator, 1 <= k <= 16, bytes >= 0x20 other than ';'
   (including DEL and all bytes >= 0x80), at most 1024 bytes with room left at each ';' *)
Theorem C18_osc_bel_vte : forall p fs, ground p -> osc_ok fs ->
  advance p (osc_bytes_bel fs) = (p_init, [AOsc fs true]).
Proof. exact advance_osc_bel. Qed.
Theorem C18_osc_st_vte : forall p fs, ground p -> osc_ok fs ->
  advance p (osc_bytes_st fs) = (p_init, [AOsc fs false; AEsc [] false 92]).
Proof. exact advance_osc_st. Qed.
Theorem C18_osc_fits_small : forall fs used, used + len (concat fs) < 1024 -> osc_fits used fs.
Proof. exact osc_fits_small. Qed.

(* one character (any scalar value but ESC), UTF-8 encoded: one action *)
Theorem C18_char_vte : forall p c,
  ground p -> is_scalar c = true -> c <> 27 ->
  advance p (utf8_encode c) = (p, [ground_action c]).
Proof. exact advance_one_char. Qed.

(* ---- end to end: bytes -> log ([pend p = []]: the parser holds no bytes back) ---- *)
Theorem C18_csi : forall p mk G ins f q,
  pend p = [] ->
  ground (vt p) -> csi_ok mk G ins f ->
  process p (csi_bytes mk G ins f) = Ok q ->
  ground (vt q) /\
  log q = log p ++ events_of (resizing p) (scr p) (ACsi (params_val G) (mk ++ ins) false f).
Proof. exact C18_csi_once. Qed.

Theorem C18_esc : forall p ins f q,
  pend p = [] ->
  ground (vt p) -> esc_ok ins f ->
  process p (esc_bytes ins f) = Ok q ->
  ground (vt q) /\
  log q = log p ++ events_of (resizing p) (scr p) (AEsc ins false f).
Proof. exact C18_esc_once. Qed.

Theorem C18_osc_bel : forall p fs,
  pend p = [] ->
  ground (vt p) -> osc_ok fs ->
  process p (osc_bytes_bel fs) =
  Ok (mkParser p_init (scr p) (log p ++ osc_events fs) (resizing p) []).
Proof. exact C18_osc_bel_once. Qed.

(* OBSERVATION: the ST terminator is itself reported *)
Theorem C18_osc_st : forall p fs,
  pend p = [] ->
  ground (vt p) -> osc_ok fs ->
  process p (osc_bytes_st fs) =
  Ok (mkParser p_init (scr p) (log p ++ osc_events fs) (resizing p) []).
Proof. exact C18_osc_st_once. Qed.

Theorem C18_char : forall p c q,
  pend p = [] ->
  ground (vt p) -> is_scalar c = true -> c <> 27 ->
  process p (utf8_encode c) = Ok q ->
  vt q = vt p /\ log q = log p ++ events_of (resizing p) (scr p) (ground_action c).
Proof. exact C18_char_once. Qed.

Theorem C18_reported_sequence : forall p bs v' a q,
  resizing p = false ->
  advance (vt p) (delivered p bs) = (v', [a]) -> reported a = true -> process p bs = Ok q ->
  scr q = scr p /\ log q = log p ++ events_of false (scr p) a /\ events_of false (scr p) a <> [].
Proof. exact C18_reported_sequence_inert. Qed.

(* non-vacuity *)
Example C18_examples_misc :
  log_of (process p0 [7]) = [EBell] /\
  log_of (process p0 [1]) = [EUnhControl 1] /\
  log_of (process p0 [14; 15; 8; 9; 10; 13]) = [] /\
  log_of (process p0 [194; 133]) = [EUnhControl 133] /\
  log_of (process p0 [239; 191; 189]) = [EUnhChar 65533] /\
  log_of (process p0 [255]) = [EUnhChar 65533] /\
  log_of (process p0 [27; 91; 56; 59; 51; 48; 116]) = [EResize 30 80] /\
  log_of (process p0 [27; 91; 56; 116]) = [EResize 24 80] /\
  log_of (process p0 [27; 91; 49; 52; 116]) = [EUnhCsi None None [[14]] 116] /\
  log_of (process p0 [27; 91; 51; 74]) = [EUnhCsi None None [[3]] 74] /\
  log_of (process p0 [27; 91; 49; 59; 53; 59; 50; 49; 109]) =
    [EUnhCsi None None [[1]; [5]; [21]] 109; EUnhCsi None None [[1]; [5]; [21]] 109] /\
  log_of (process p0 [27; 91; 63; 50; 53; 59; 55; 104]) =
    [EUnhCsi (Some 63) None [[25]; [7]] 104] /\
  log_of (process p0 [65; 27; 91; 72; 27; 91; 50; 74; 27; 91; 51; 49; 109]) = [].
Proof. exact ex_misc. Qed.

Example C18_examples_strings :
  log_of (process p0 [27; 80; 113; 35; 48; 27; 92]) = [] /\
  log_of (process p0 [27; 88; 120; 27; 92]) = [] /\
  log_of (process p0 [27; 95; 120; 27; 92]) = [] /\
  log_of (process p0 [27; 80; 113; 35; 48; 156]) = [] /\
  scr_same (process p0 [27; 80; 113; 35; 48; 27; 92]) p0.
Proof. exact ex_strings_st. Qed.

Print Assumptions C18_exact.
Print Assumptions C18_exact_all.
Print Assumptions C18_process.
Print Assumptions C18_table_depends_on_size_only.
Print Assumptions C18_inert.
Print Assumptions C18_inert_gen.
Print Assumptions C18_resize_applied.
Print Assumptions C18_ignored.
Print Assumptions C18_silent_iff.
Print Assumptions C18_classification.
Print Assumptions C18_csi_vte.
Print Assumptions C18_csi_vte_stream.
Print Assumptions C18_csi_numeric.
Print Assumptions C18_esc_vte.
Print Assumptions C18_osc_bel_vte.
Print Assumptions C18_osc_st_vte.
Print Assumptions C18_char_vte.
Print Assumptions C18_csi.
Print Assumptions C18_esc.
Print Assumptions C18_osc_bel.
Print Assumptions C18_osc_st.
Print Assumptions C18_char.
Print Assumptions C18_reported_sequence.
Print Assumptions C18_examples_misc.
Print Assumptions C18_examples_strings.
