(* C02all — property C02 (contents_diff / state_diff) WITHOUT class restriction, after the repair of
   finding D10 in Grid::write_contents_diff.

   The repair (Emit.clears_wrap, in the crate and in the model): when the diff of a row has drawn over
   a wide character of prev that ends in the last column (prev has a wide cell at column cols-2 where
   the current row has no contents), the receiver has cleared that row's wrap flag; the next row is
   then diffed with prev_wrapping = false, so that the head block of Row::write_contents_diff
   re-creates the wrap by printing the unchanged first cell of the next row again (if the first cells
   differ the ordinary output goes through the pending wrap, as before).

   THEOREM C02sem_all: for ALL reachable P, S of equal size at scrollback offset 0 the byte-level
   round trip DiffRound.diff_round_ok holds; also along arbitrary chains.  The loop of the old model
   is kept in DiffHistory.v with the D10 refutation as a regression witness (Props/C02.v).
   Exploration (REPORT): the 50 million ordered pairs of small reachable screens with soft-wrapped
   rows on which the old model failed exactly on the k10 pairs: 0 failing pairs on the new model. *)
Require Import Tac ListN Utf8 Width Attrs Cell Row Grid Screen Vte Perform Parser Term Emit.
Require Import RowInv GridInv TextInv ScreenInv ParseSer CellWf WfGrid WfInv WrapInv WrapInvScreen SgrSpec EmitSafe ObsSpec.
Require Import AttrsInv EmitTokens CellInv Recv RowPaint Redraw Cursor C01Main C15Main CapInv Idem LastRow C01Examples Bytes.
Require Import DiffRound DiffHistory DiffPaint DiffGrid DiffMain DiffRoundU DiffWrap DiffK10 DiffRoundK DiffRoundAll.
Open Scope N_scope.

(* ---- the repaired loop, restated ---- *)
Theorem C02all_clears_wrap_def : forall cols rw prw, clears_wrap cols rw prw =
  (2 <=? cols)
  && (match row_get prw (cols - 2) with Some c => cwide c | None => false end)
  && negb (match row_get rw (cols - 2) with Some c => has_contents c | None => false end).
Proof. reflexivity. Qed.
Print Assumptions C02all_clears_wrap_def.

Theorem C02all_loop_def : forall cols rw prw rest i w pw pos a acc,
  rows_diff_loop cols ((rw, prw) :: rest) i w pw pos a acc =
  (do '(ts, pos', a') <- row_diff rw prw 0 cols i w pw pos a;
   rows_diff_loop cols rest (i + 1) (wrapped rw) (wrapped prw && negb (clears_wrap cols rw prw)) pos' a' (acc ++ ts)).
Proof. reflexivity. Qed.
Print Assumptions C02all_loop_def.

(* ---- MAIN THEOREM ---- *)
Theorem C02sem_all : forall P S, reachable P -> reachable S -> sb_off (cur P) = 0 -> sb_off (cur S) = 0 ->
  grows (cur P) = grows (cur S) -> gcols (cur P) = gcols (cur S) -> diff_round_ok P S.
Proof. exact diff_round_ok_all. Qed.
Print Assumptions C02sem_all.

Theorem C02sem_all_strong : forall P S, reachable P -> reachable S -> sb_off (cur P) = 0 -> sb_off (cur S) = 0 ->
  grows (cur P) = grows (cur S) -> gcols (cur P) = gcols (cur S) ->
  exists r, diff_round P S = Ok r /\ obs (scr r) = obs S /\ log r = [] /\ ground (vt r) /\ canvas (scr r).
Proof. exact diff_round_all_strong. Qed.
Print Assumptions C02sem_all_strong.

(* ---- chains: arbitrary reachable snapshots of one size at offset 0 ---- *)
Theorem C02all_snap_def : forall rows cols s, snap_all rows cols s <->
  (reachable s /\ sb_off (cur s) = 0 /\ grows (cur s) = rows /\ gcols (cur s) = cols).
Proof. intros. reflexivity. Qed.
Print Assumptions C02all_snap_def.

Theorem C02sem_all_chain : forall rows cols S0 snaps,
  snap_all rows cols S0 -> Forall (snap_all rows cols) snaps ->
  exists r r', reproduce S0 = Ok r /\ diff_chain r S0 snaps = Ok r' /\
               obs (scr r') = obs (last_snap S0 snaps) /\ log r' = [] /\ ground (vt r').
Proof. exact diff_chain_round_all. Qed.
Print Assumptions C02sem_all_chain.

Theorem C02sem_all_chain_step : forall rows cols snaps prev r,
  snap_all rows cols prev -> Forall (snap_all rows cols) snaps ->
  pend r = [] ->   (* the receiving parser holds no bytes of an unfinished utf-8 character back *)
  ground (vt r) -> shows prev (scr r) (live (cur prev)) -> same_modes prev (scr r) ->
  exists r', diff_chain r prev snaps = Ok r' /\ log r' = log r /\ ground (vt r') /\
             shows (last_snap prev snaps) (scr r') (live (cur (last_snap prev snaps))) /\
             same_modes (last_snap prev snaps) (scr r') /\
             obs (scr r') = obs (last_snap prev snaps).
Proof. exact diff_chain_all. Qed.
Print Assumptions C02sem_all_chain_step.

(* ---- the levels below (no class hypothesis any more) ---- *)
Theorem C02sem_all_state_diff : forall S P R vr pvr ts,
  source_ok S vr -> source_ok P pvr ->
  (forall src, get vr (grows (cur S) - 1) = Some src -> wrapped src = false) ->
  grows (cur S) = grows (cur P) -> gcols (cur S) = gcols (cur P) ->
  shows P R pvr -> same_modes P R -> state_diff_t S P = Ok ts ->
  exists R', plays R ts R' /\ shows S R' vr /\ same_modes S R'.
Proof. exact state_diff_plays_all. Qed.
Print Assumptions C02sem_all_state_diff.

Theorem C02sem_all_grid_diff : forall R x px vr pvr pa,
  canvas R -> vrows_ok (gcols (g R)) vr -> vrows_ok (gcols (g R)) pvr ->
  (forall src, get vr (grows (g R) - 1) = Some src -> wrapped src = false) ->
  visible_rows x = Ok vr -> visible_rows px = Ok pvr ->
  len vr = grows (g R) -> len pvr = grows (g R) -> gcols x = gcols (g R) ->
  prow x < grows (g R) -> pcol x <= gcols (g R) ->
  cv R pvr (prow px) (pcol px) -> pen_ok pa ->
  exists ts a' R2,
    grid_contents_diff x px pa = Ok (ts, a') /\
    plays (rcv R pvr (prow px) (pcol px) pa) ts (rcv R2 vr (prow x) (pcol x) a') /\
    cv R2 vr (prow x) (pcol x) /\ same_base R R2 /\ pen_ok a'.
Proof. exact grid_diff_plays_all. Qed.
Print Assumptions C02sem_all_grid_diff.

(* the link between the row painter's "flag may be lost" condition and the loop's test *)
Theorem C02all_Wcond_clears : forall R s' p', Wcond R s' p' -> clears_wrap (gcols (g R)) s' p' = true.
Proof. exact Wcond_clears. Qed.
Print Assumptions C02all_Wcond_clears.

(* ---- the former counterexample class now round-trips: a k10 pair ---- *)
Theorem C02all_d10 : exists Pr Sc,
  after 2 2 d10_P = Ok Pr /\ after 2 2 d10_S = Ok Sc /\ k10 Pr Sc = true /\ diff_round_ok Pr Sc.
Proof.
  destruct (after 2 2 d10_P) as [Pr|] eqn:EP; [|vm_compute in EP; discriminate].
  destruct (after 2 2 d10_S) as [Sc|] eqn:ES; [|vm_compute in ES; discriminate].
  exists Pr, Sc.
  assert (1 <= 2 <= MAXDIM) as H2 by (unfold MAXDIM; lia).
  assert (reachable Pr) as RP by (eapply after_reachable; [exact H2|exact H2|exact EP]).
  assert (reachable Sc) as RS by (eapply after_reachable; [exact H2|exact H2|exact ES]).
  vm_compute in EP. vm_compute in ES. inv EP. inv ES.
  split; [reflexivity|]. split; [reflexivity|]. split; [vm_compute; reflexivity|].
  apply C02sem_all; auto.
Qed.
Print Assumptions C02all_d10.
