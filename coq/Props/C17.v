(* C17 — RIS.
   "ESC c returns the terminal to the state of a newly constructed parser of the current size
   and scrollback capacity: all cells blank with default attributes, cursor home and visible,
   default pen, all modes off, primary screen active, no scroll region, origin mode off, no
   saved cursor, empty scrollback at offset 0.  Every later input then behaves exactly as it
   would on a fresh parser; the Callbacks object is not touched." *)
Require Import Tac ListN Utf8 Attrs Cell Row Grid Screen Vte Perform Parser.
Require Import VteInv GridInv ScreenInv EventSpec RisSpec.
Open Scope N_scope.

(* ---- 1. what a newly constructed screen is ---- *)

(* Screen::new(r, c, cap) succeeds iff r >= 1 and is the closed term [fresh_screen r c cap] *)
Theorem C17_new_closed : forall r c cap s0,
  screen_new r c cap = Ok s0 -> 1 <= r /\ s0 = fresh_screen r c cap.
Proof. exact screen_new_closed. Qed.

Theorem C17_new_total : forall r c cap, 1 <= r -> screen_new r c cap = Ok (fresh_screen r c cap).
Proof. exact screen_new_total. Qed.

(* field by field.  "No saved cursor" is the saved position (0,0) with saved origin mode off and
   the saved pen = default: restoring it gives the home position, as on a new terminal. *)
Theorem C17_new_spec : forall r c cap s0,
  screen_new r c cap = Ok s0 ->
  grows (g s0) = r /\ gcols (g s0) = c /\
  len (live (g s0)) = r /\
  Forall (fun rw => rw = row_new c) (live (g s0)) /\
  (forall i j, i < r -> j < c -> drawing_cell (g s0) i j = Some cell_new) /\
  prow (g s0) = 0 /\ pcol (g s0) = 0 /\ sprow (g s0) = 0 /\ spcol (g s0) = 0 /\
  top (g s0) = 0 /\ bot (g s0) = r - 1 /\ origin (g s0) = false /\ sorigin (g s0) = false /\
  sb (g s0) = [] /\ sb_off (g s0) = 0 /\ sb_cap (g s0) = cap /\
  pen s0 = dflt /\ spen s0 = dflt /\
  keypad s0 = false /\ appcur s0 = false /\ hide s0 = false /\ paste s0 = false /\
  mmode s0 = MNone /\ menc s0 = EDefault /\ altmode s0 = false /\
  alt s0 = fresh_alt r c /\ live (alt s0) = [] /\ sb_cap (alt s0) = 0 /\ sb (alt s0) = [] /\
  grows (alt s0) = r /\ gcols (alt s0) = c.
Proof. exact screen_new_spec. Qed.

(* a blank row: c cells, all equal to [cell_new], not wrapped; [cell_new] has no contents, is
   neither wide nor a continuation, and carries the default attributes *)
Theorem C17_blank_row : forall c,
  wrapped (row_new c) = false /\ len (cells (row_new c)) = c /\
  Forall (fun x => x = cell_new) (cells (row_new c)) /\
  forall i, i < c -> row_get (row_new c) i = Some cell_new.
Proof. exact row_new_blank. Qed.
Theorem C17_blank_cell :
  ctext cell_new = [] /\ cwide cell_new = false /\ ccont cell_new = false /\ cattrs cell_new = dflt.
Proof. exact cell_new_blank. Qed.

(* the view through the scrollback offset (0) shows only blank cells *)
Theorem C17_fresh_visible : forall r c cap i j, i < r -> j < c ->
  visible_cell (fresh_grid r c cap) i j = Ok (Some cell_new).
Proof. exact fresh_visible. Qed.

(* ---- 2. the vte parser: after the two bytes ESC c it is EXACTLY in its initial state ---- *)

(* [ris_pre p] is what the ESC byte terminates: nothing in Ground without pending bytes and in
   every Escape / CSI / DCS-entry / DCS-param / DCS-intermediate / DCS-ignore / SOS-PM-APC state;
   [APrint U+FFFD] if an incomplete UTF-8 sequence was pending; [AUnhook] in DcsPassthrough;
   the dispatch of the string in OscString. *)
Theorem C17_vte : forall p, pwf p ->
  advance p [27; 99] = (p_init, ris_pre p ++ [AEsc [] false 99]).
Proof. exact ris_advance. Qed.

Theorem C17_vte_pre : forall p,
  (vst p = Ground -> partial p = [] -> ris_pre p = []) /\
  (vst p = Ground -> partial p <> [] -> ris_pre p = [APrint 65533]) /\
  (vst p = DcsPassthrough -> ris_pre p = [AUnhook]) /\
  (vst p = OscString -> ris_pre p = [AOsc (osc_slices (osc_put_param p)) false]) /\
  (vst p <> Ground -> vst p <> DcsPassthrough -> vst p <> OscString -> ris_pre p = []).
Proof. exact ris_pre_cases. Qed.

(* ---- 3. the parser ---- *)

(* the screen after ESC c is the one Screen::new builds for the current size and capacity; the
   vte state is the initial one; the callback policy is kept; the log only grows by the events of
   what the ESC byte terminated ([ris_events]) — the RIS itself reports nothing *)
(* [pend p = []]: no bytes of an unfinished utf-8 character are held back by the parser (K04a repair);
   with held-back bytes see C17_any *)
Theorem C17_process : forall p q,
  pend p = [] ->
  pwf (vt p) -> process p [27; 99] = Ok q ->
  let s0 := fresh_screen (grows (g (scr p))) (gcols (g (scr p))) (sb_cap (g (scr p))) in
  screen_new (grows (g (scr p))) (gcols (g (scr p))) (sb_cap (g (scr p))) = Ok s0 /\
  vt q = p_init /\ scr q = s0 /\ resizing q = resizing p /\
  log q = log p ++ ris_events (vt p).
Proof. exact ris_process. Qed.

Theorem C17_events_nil : forall v,
  ris_pre v = [] \/ ris_pre v = [AUnhook] -> ris_events v = [].
Proof. exact ris_events_nil. Qed.

(* "the Callbacks object is not touched" *)
Theorem C17_callbacks_untouched : forall p q,
  pend p = [] ->
  pwf (vt p) -> vst (vt p) = Ground -> partial (vt p) = [] ->
  process p [27; 99] = Ok q -> log q = log p.
Proof. exact ris_silent. Qed.

(* no panic *)
Theorem C17_total : forall p, pend p = [] -> pwf (vt p) -> 1 <= grows (g (scr p)) ->
  process p [27; 99] =
  Ok (mkParser p_init (fresh_screen (grows (g (scr p))) (gcols (g (scr p))) (sb_cap (g (scr p))))
               (log p ++ ris_events (vt p)) (resizing p) []).
Proof. exact ris_process_total. Qed.
Theorem C17_ok : forall p, parser_ok p -> exists q, process p [27; 99] = Ok q /\ parser_ok q.
Proof. exact ris_process_ok. Qed.
(* with any held-back bytes: vte ends exactly in its initial state and nothing is held back *)
Theorem C17_any : forall p q, parser_ok p -> process p [27; 99] = Ok q -> vt q = p_init /\ pend q = [].
Proof. exact ris_process_any. Qed.

(* ---- 4. later input ---- *)

(* the event log is write-only: running any API history from a parser with log [l] is running it
   from the same parser with an empty log and prepending [l] *)
Theorem C17_log_prefix_ok : forall ops v s l rz pd v' s' l' rz' pd',
  Parser.run (mkParser v s l rz pd) ops = Ok (mkParser v' s' l' rz' pd') <->
  exists e, Parser.run (mkParser v s [] rz pd) ops = Ok (mkParser v' s' e rz' pd') /\ l' = l ++ e.
Proof. exact run_log_prefix_ok. Qed.
Theorem C17_log_prefix_panic : forall ops v s l rz pd k,
  Parser.run (mkParser v s l rz pd) ops = Panic k <-> Parser.run (mkParser v s [] rz pd) ops = Panic k.
Proof. exact run_log_prefix_panic. Qed.

(* after ESC c, every later history (process / write / set_size / set_scrollback calls) behaves
   exactly as on Parser::new(current rows, current cols, current capacity): same vte state, same
   screen, same policy, logs that differ exactly by the prefix [log q]; both panic or neither *)
Theorem C17_main : forall p q,
  pend p = [] ->
  pwf (vt p) -> process p [27; 99] = Ok q ->
  exists pf,
    parser_new (grows (g (scr p))) (gcols (g (scr p))) (sb_cap (g (scr p))) (resizing p) = Ok pf /\
    q = with_log pf (log q) /\ log pf = [] /\
    log q = log p ++ ris_events (vt p) /\
    forall ops,
      match Parser.run pf ops with
      | Ok qf => exists q', Parser.run q ops = Ok q' /\
                   vt q' = vt qf /\ scr q' = scr qf /\ resizing q' = resizing qf /\
                   log q' = log q ++ log qf
      | Panic k => Parser.run q ops = Panic k
      end.
Proof. exact ris_then_fresh. Qed.

(* the same for every parser reachable through the API that holds no bytes back (no other
   hypothesis on the state) *)
Theorem C17_reachable : forall r c cap rz ops p0 p,
  1 <= r <= MAXDIM -> 1 <= c <= MAXDIM ->
  parser_new r c cap rz = Ok p0 -> Forall op_ok ops -> Parser.run p0 ops = Ok p ->
  pend p = [] ->
  exists q pf,
    process p [27; 99] = Ok q /\
    parser_new (grows (g (scr p))) (gcols (g (scr p))) (sb_cap (g (scr p))) (resizing p) = Ok pf /\
    vt q = vt pf /\ scr q = scr pf /\ resizing q = resizing pf /\
    log pf = [] /\ log q = log p ++ ris_events (vt p) /\
    forall ops',
      match Parser.run pf ops' with
      | Ok qf => exists q', Parser.run q ops' = Ok q' /\
                   vt q' = vt qf /\ scr q' = scr qf /\ resizing q' = resizing qf /\
                   log q' = log q ++ log qf
      | Panic k => Parser.run q ops' = Panic k
      end.
Proof. exact ris_reachable. Qed.

(* non-vacuity: a parser on the alternate screen, with colours, a scroll region, origin mode, a
   hidden cursor, a mouse mode, a saved cursor and an unterminated OSC string *)
Example C17_example :
  match busy_parser with
  | Ok p1 =>
    vst (vt p1) = OscString /\ altmode (scr p1) = true /\ hide (scr p1) = true /\
    mmode (scr p1) = MPressRelease /\ pen (scr p1) <> dflt /\
    match process p1 [27; 99], parser_new 5 10 3 false with
    | Ok q, Ok pf =>
      vt q = vt pf /\ scr q = scr pf /\ resizing q = resizing pf /\
      log q = [EIconName [104; 105]; ETitle [104; 105]]
    | _, _ => False
    end
  | Panic _ => False
  end.
Proof. exact ris_example. Qed.

Print Assumptions C17_new_closed.
Print Assumptions C17_new_spec.
Print Assumptions C17_fresh_visible.
Print Assumptions C17_vte.
Print Assumptions C17_process.
Print Assumptions C17_callbacks_untouched.
Print Assumptions C17_total.
Print Assumptions C17_ok.
Print Assumptions C17_any.
Print Assumptions C17_log_prefix_ok.
Print Assumptions C17_log_prefix_panic.
Print Assumptions C17_main.
Print Assumptions C17_reachable.
Print Assumptions C17_example.
