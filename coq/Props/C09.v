(* C09 — "After any sequence of SGR commands the pen is the one SGR semantics define ...
   attributes_formatted() sets exactly this pen on any receiving parser, and every pen-to-pen
   change the crate emits turns the first pen into the second."
   Proofs are in SgrSpec.v; this file restates the main theorems. *)
Require Import Tac Attrs Screen Vte Perform Term Emit SgrSpec.
Open Scope N_scope.

(* ---- (a) single parameters: the model agrees with the declarative table [sgr_table] ---- *)
Theorem C09_single : forall n rest a, n <> 38 -> n <> 48 ->
  sgr1 [n] rest a =
  match sgr_single n a with Some a' => SCont a' rest 0 | None => SCont a rest 1 end.
Proof. exact sgr1_single. Qed.

(* the table recognises exactly the parameters named in the property text *)
Theorem C09_known : forall n,
  sgr_known n = true <->
  (n = 0 \/ n = 1 \/ n = 2 \/ n = 3 \/ n = 4 \/ n = 7 \/ n = 22 \/ n = 23 \/ n = 24 \/ n = 27 \/
   30 <= n <= 37 \/ n = 39 \/ 40 <= n <= 47 \/ n = 49 \/ 90 <= n <= 97 \/ 100 <= n <= 107).
Proof. exact sgr_known_spec. Qed.
Theorem C09_single_known : forall n a, sgr_single n a = None <-> sgr_known n = false.
Proof. exact sgr_single_known. Qed.

(* 1 / 2 / 22: bold, dim, normal are mutually exclusive *)
Theorem C09_intensity : forall rest a,
  (exists a', sgr1 [1] rest a = SCont a' rest 0 /\ bold a' = true /\ dim a' = false) /\
  (exists a', sgr1 [2] rest a = SCont a' rest 0 /\ bold a' = false /\ dim a' = true) /\
  (exists a', sgr1 [22] rest a = SCont a' rest 0 /\ bold a' = false /\ dim a' = false).
Proof. exact sgr_intensity_exclusive. Qed.

(* 38 / 48: semicolon forms *)
Theorem C09_fg_256 : forall i rest a, i <= 255 ->
  sgr1 [38] ([5] :: [i] :: rest) a = SCont (set_fg (CIdx i) a) rest 0.
Proof. exact sgr1_38_5. Qed.
Theorem C09_bg_256 : forall i rest a, i <= 255 ->
  sgr1 [48] ([5] :: [i] :: rest) a = SCont (set_bg (CIdx i) a) rest 0.
Proof. exact sgr1_48_5. Qed.
Theorem C09_fg_rgb : forall r g b rest a, r <= 255 -> g <= 255 -> b <= 255 ->
  sgr1 [38] ([2] :: [r] :: [g] :: [b] :: rest) a = SCont (set_fg (CRgb r g b) a) rest 0.
Proof. exact sgr1_38_2. Qed.
Theorem C09_bg_rgb : forall r g b rest a, r <= 255 -> g <= 255 -> b <= 255 ->
  sgr1 [48] ([2] :: [r] :: [g] :: [b] :: rest) a = SCont (set_bg (CRgb r g b) a) rest 0.
Proof. exact sgr1_48_2. Qed.
(* colon forms *)
Theorem C09_fg_256_colon : forall i rest a, i <= 255 ->
  sgr1 [38; 5; i] rest a = SCont (set_fg (CIdx i) a) rest 0.
Proof. exact sgr1_38_colon_5. Qed.
Theorem C09_bg_256_colon : forall i rest a, i <= 255 ->
  sgr1 [48; 5; i] rest a = SCont (set_bg (CIdx i) a) rest 0.
Proof. exact sgr1_48_colon_5. Qed.
Theorem C09_fg_rgb_colon : forall r g b rest a, r <= 255 -> g <= 255 -> b <= 255 ->
  sgr1 [38; 2; r; g; b] rest a = SCont (set_fg (CRgb r g b) a) rest 0.
Proof. exact sgr1_38_colon_2. Qed.
Theorem C09_bg_rgb_colon : forall r g b rest a, r <= 255 -> g <= 255 -> b <= 255 ->
  sgr1 [48; 2; r; g; b] rest a = SCont (set_bg (CRgb r g b) a) rest 0.
Proof. exact sgr1_48_colon_2. Qed.
(* out of range, truncated, bad selector *)
Theorem C09_fg_256_range : forall i rest a, 255 < i -> sgr1 [38] ([5] :: [i] :: rest) a = SStop a 0.
Proof. exact sgr1_38_5_range. Qed.
Theorem C09_fg_rgb_range : forall r g b rest a, 255 < r \/ 255 < g \/ 255 < b ->
  sgr1 [38] ([2] :: [r] :: [g] :: [b] :: rest) a = SStop a 0.
Proof. exact sgr1_38_2_range. Qed.
Theorem C09_bg_256_range : forall i rest a, 255 < i -> sgr1 [48] ([5] :: [i] :: rest) a = SStop a 0.
Proof. exact sgr1_48_5_range. Qed.
Theorem C09_bg_rgb_range : forall r g b rest a, 255 < r \/ 255 < g \/ 255 < b ->
  sgr1 [48] ([2] :: [r] :: [g] :: [b] :: rest) a = SStop a 0.
Proof. exact sgr1_48_2_range. Qed.
Theorem C09_fg_truncated : forall a r g,
  sgr1 [38] [] a = SStop a 0 /\ sgr1 [38] [[5]] a = SStop a 0 /\ sgr1 [38] [[2]] a = SStop a 0 /\
  sgr1 [38] [[2]; [r]] a = SStop a 0 /\ sgr1 [38] [[2]; [r]; [g]] a = SStop a 0.
Proof. exact sgr1_38_truncated. Qed.
Theorem C09_bg_truncated : forall a r g,
  sgr1 [48] [] a = SStop a 0 /\ sgr1 [48] [[5]] a = SStop a 0 /\ sgr1 [48] [[2]] a = SStop a 0 /\
  sgr1 [48] [[2]; [r]] a = SStop a 0 /\ sgr1 [48] [[2]; [r]; [g]] a = SStop a 0.
Proof. exact sgr1_48_truncated. Qed.
Theorem C09_fg_bad_selector : forall x rest a, x <> 2 -> x <> 5 -> sgr1 [38] ([x] :: rest) a = SStop a 1.
Proof. exact sgr1_38_bad_selector. Qed.
Theorem C09_bg_bad_selector : forall x rest a, x <> 2 -> x <> 5 -> sgr1 [48] ([x] :: rest) a = SStop a 1.
Proof. exact sgr1_48_bad_selector. Qed.

(* unknown parameters are skipped without affecting later ones *)
Theorem C09_skip : forall p rest a, sgr1 p rest a = SCont a rest 1 ->
  forall fuel u, sgr_loop (S fuel) (p :: rest) a u = sgr_loop fuel rest a (u + 1).
Proof. exact sgr_loop_skip. Qed.
Theorem C09_unknown_single : forall n rest a, n <> 38 -> n <> 48 -> sgr_known n = false ->
  sgr1 [n] rest a = SCont a rest 1.
Proof. exact sgr1_unknown_single. Qed.
Theorem C09_unknown_first : forall p rest a, sgr1 p rest a = SCont a rest 1 -> rest <> [] ->
  sgr (p :: rest) a = (fst (sgr rest a), 1 + snd (sgr rest a)).
Proof. exact sgr_unknown_first. Qed.

(* reset *)
Theorem C09_reset : forall a, sgr [] a = (dflt, 0) /\ sgr [[0]] a = (dflt, 0).
Proof. intros a. split; reflexivity. Qed.

(* ---- (b) sequencing ---- *)
Theorem C09_app : forall ps qs a a' u, sgr_run ps a = Some (a', u) -> qs <> [] ->
  fst (sgr (ps ++ qs) a) = fst (sgr qs a').
Proof. exact sgr_run_app. Qed.
Theorem C09_app_full : forall ps qs a a' u, sgr_run ps a = Some (a', u) -> qs <> [] ->
  sgr (ps ++ qs) a = (fst (sgr qs a'), u + snd (sgr qs a')).
Proof. exact sgr_run_app_full. Qed.
Theorem C09_run_exact : forall ps a a' u, sgr_run ps a = Some (a', u) -> ps <> [] -> sgr ps a = (a', u).
Proof. exact sgr_run_exact. Qed.
Theorem C09_eval : forall ps a a' u, ps <> [] -> (sgr ps a = (a', u) <-> sgr_eval ps a 0 a' u).
Proof. exact sgr_eval_iff. Qed.

(* ---- (c) every pen-to-pen change the crate emits turns pen b into pen a, silently ---- *)
Theorem C09_diff : forall a b, pen_ok a ->
  match sgr_diff a b with
  | None => a = b
  | Some ps => sgr (csi_params ps) b = (a, 0)
  end.
Proof. exact SgrSpec.C09_diff. Qed.
Theorem C09_diff_reset_iff : forall a b, sgr_diff a b = Some [] <-> (a = dflt /\ a <> b).
Proof. exact sgr_diff_reset_iff. Qed.
Theorem C09_diff_none_iff : forall a b, sgr_diff a b = None <-> a = b.
Proof. exact sgr_diff_none_iff. Qed.
Theorem C09_diff_perform : forall rz s a ps, pen_ok a -> sgr_diff a (pen s) = Some ps ->
  perform rz s (ACsi (csi_params ps) [] false 109) = Ok (with_pen s a, []).
Proof. exact SgrSpec.C09_diff_perform. Qed.
Theorem C09_attrs_eqb : forall a b, attrs_eqb a b = true <-> a = b.
Proof. exact attrs_eqb_eq. Qed.

(* ---- (d) attributes_formatted ---- *)
Theorem C09_attributes_formatted_tokens : forall s,
  attributes_formatted_t s = t_clear_attrs :: t_attrs_diff (pen s) dflt.
Proof. reflexivity. Qed.
Theorem C09_attributes_formatted : forall s, pen_ok (pen s) -> forall b,
  let a1 := fst (sgr (csi_params []) b) in
  match sgr_diff (pen s) dflt with
  | None => a1 = pen s
  | Some ps => fst (sgr (csi_params ps) a1) = pen s
  end.
Proof. exact SgrSpec.C09_attributes_formatted. Qed.

(* ---- (e) reachable pens satisfy pen_ok ---- *)
Theorem C09_pen_ok_dflt : pen_ok dflt.
Proof. exact pen_ok_dflt. Qed.
Theorem C09_pen_ok : forall ps a, pen_ok a -> pen_ok (fst (sgr ps a)).
Proof. exact sgr_pen_ok. Qed.
Theorem C09_pen_ok_scr : forall s ps, pen_ok (pen s) -> pen_ok (pen (fst (scr_sgr s ps))).
Proof. exact scr_sgr_pen_ok. Qed.

(* ---- (f) finite sweep ---- *)
Theorem C09_sweep_256 : forall n, n <= 255 ->
  sgr1 [n] [] dflt = sweep_expect n dflt /\ sgr1 [n] [] sweep_pen = sweep_expect n sweep_pen.
Proof. exact sgr_sweep_256. Qed.

Print Assumptions C09_single.
Print Assumptions C09_known.
Print Assumptions C09_intensity.
Print Assumptions C09_fg_rgb.
Print Assumptions C09_bg_rgb_colon.
Print Assumptions C09_fg_truncated.
Print Assumptions C09_fg_bad_selector.
Print Assumptions C09_skip.
Print Assumptions C09_unknown_single.
Print Assumptions C09_unknown_first.
Print Assumptions C09_app.
Print Assumptions C09_app_full.
Print Assumptions C09_run_exact.
Print Assumptions C09_eval.
Print Assumptions C09_diff.
Print Assumptions C09_diff_reset_iff.
Print Assumptions C09_diff_perform.
Print Assumptions C09_attributes_formatted.
Print Assumptions C09_pen_ok.
Print Assumptions C09_pen_ok_scr.
Print Assumptions C09_sweep_256.
