(* C13b — transition clause of C13: "the cursor column is <= cols, and == cols only as the
   pending-wrap position after printing in the last column".

   C13_cursor (Props/C13.v) gives  pcol (cur s) <= gcols (cur s)  in every reachable state.
   This file says, for one parser action (perform rz s a = Ok (s', evs)), how the equality
   pcol = gcols ("pending") can arise, which actions keep the column, and which actions always
   leave the cursor strictly inside the line.  Vocabulary (PendingSpec.v / PrintSpec.v):
     cur s            the grid in use (alternate grid when altmode s), pcol / spcol its cursor
                      column / saved cursor column, gcols its width
     cwidth c         display width used by Screen::text (0, 1 or 2)
     glyph c a        the cell holding the single character c with attributes a
     cont_cell        the second half of a double-width character
     wrap_row x       the row the cursor is on after an automatic wrap from grid x *)
Require Import Tac ListN Utf8 Width Attrs Cell Row Grid Screen Vte Perform Parser.
Require Import RowInv GridInv TextInv ScreenInv PrintSpec ResizeSpec PendingSpec.
Open Scope N_scope.

(* ---- the definitions used in the statements, spelled out ---- *)

(* characters whose print leaves the cursor where it is *)
Theorem C13b_print_keeps_meaning : forall cols c,
  print_keeps cols c <->
  ((128 <= c < 160)                      (* C1 control: routed to execute, unhandled *)
   \/ c = 65533                          (* U+FFFD: reported as unhandled character *)
   \/ (wd c = None /\ c < 256)           (* C0 control / DEL: ignored by Screen::text *)
   \/ wd c = Some 0                      (* zero-width: appended to the previous cell *)
   \/ cols < cwidth c).                  (* wider than the whole line: dropped *)
Proof. intros. unfold print_keeps, text_keeps, REPL. tauto. Qed.
Print Assumptions C13b_print_keeps_meaning.

(* "c was printed and ends in the last column of the cursor row of s'" *)
Theorem C13b_printed_last_meaning : forall s s' c,
  printed_last s s' c <->
  (~ (128 <= c < 160) /\ c <> 65533 /\ altmode s' = altmode s /\
   1 <= cwidth c <= 2 /\ gcols (cur s') = gcols (cur s) /\ pcol (cur s') = gcols (cur s') /\
   ((* it fitted exactly: old column + width = cols, same row *)
    (pcol (cur s) + cwidth c = gcols (cur s) /\ prow (cur s') = prow (cur s)) \/
    (* it did not fit, the cursor wrapped, and the character is as wide as the line (cols <= 2) *)
    (gcols (cur s) < pcol (cur s) + cwidth c /\ cwidth c = gcols (cur s) /\ prow (cur s') = wrap_row (cur s))) /\
   (* the cells: the character at column cols - width, its continuation at cols - 1 if wide *)
   drawing_cell (cur s') (prow (cur s')) (gcols (cur s') - cwidth c) = Some (glyph c (pen s)) /\
   (cwidth c = 2 -> drawing_cell (cur s') (prow (cur s')) (gcols (cur s') - 1) = Some cont_cell)).
Proof. intros. unfold printed_last, ends_last, REPL. tauto. Qed.
Print Assumptions C13b_printed_last_meaning.

(* CSI finals (no intermediate) that move the column: CUF CUB CNL CPL CHA CUP DECSTBM *)
Theorem C13b_csi_moves_col_meaning : forall c,
  csi_moves_col c <-> (c = 67 \/ c = 68 \/ c = 69 \/ c = 70 \/ c = 71 \/ c = 72 \/ c = 114).
Proof. intros. reflexivity. Qed.
Print Assumptions C13b_csi_moves_col_meaning.

(* col_keeper cols a (used in case A below), by kind of action *)
Theorem C13b_col_keeper_meaning : forall cols,
  (forall c, col_keeper cols (APrint c) <-> print_keeps cols c) /\
  (forall b, col_keeper cols (AExecute b) <-> (b <> 8 /\ b <> 9 /\ b <> 13)) /\             (* not BS, HT, CR *)
  (forall ps ig c, col_keeper cols (ACsi ps [] ig c) <-> ~ csi_moves_col c) /\
  (forall ps i rest ig c, col_keeper cols (ACsi ps (i :: rest) ig c) <->
                          (i = 63 -> c = 104 \/ c = 108 -> ~ In [6] ps)) /\                 (* CSI ? h/l without origin mode *)
  (forall ig b, col_keeper cols (AEsc [] ig b) <-> (b <> 56 /\ b <> 99)) /\                 (* not DECRC, RIS *)
  (forall i rest ig b, col_keeper cols (AEsc (i :: rest) ig b)) /\
  (forall ps bell, col_keeper cols (AOsc ps bell)) /\
  (forall ps inter ig c, col_keeper cols (AHook ps inter ig c)) /\
  (forall b, col_keeper cols (APut b)) /\ col_keeper cols AUnhook.
Proof. intros. cbn. repeat match goal with |- _ /\ _ => split end; intros; tauto. Qed.
Print Assumptions C13b_col_keeper_meaning.

(* ---- 1. the transition theorem ---- *)
(* If the cursor is pending after an action, then the width is unchanged and
   A. it was pending before and the action is one that does not move the column, or
   B. the action printed a character that now ends in the last column, or
   C. DECRC (ESC 8) restored a saved column that was pending, or
   D. DECRST 1049 returned to the primary grid and restored its saved pending column, or
   E. DECRST 47 / DECSET 47 switched to the other grid, whose own cursor was pending.
   Horizontal moves, DECSTBM, origin mode, RIS and a performed resize do not appear: they
   always leave the cursor inside the line (theorems 3 and 4 below). *)
Theorem C13b_pending_only_by_print : forall rz s a s' evs,
  screen_ok s -> perform rz s a = Ok (s', evs) -> pcol (cur s') = gcols (cur s') ->
  gcols (cur s') = gcols (cur s) /\
  ( (pcol (cur s) = gcols (cur s) /\ altmode s' = altmode s /\ col_keeper (gcols (cur s)) a)
    \/ (exists c, a = APrint c /\ printed_last s s' c)
    \/ (exists ig, a = AEsc [] ig 56 /\ altmode s' = altmode s /\ spcol (cur s) = gcols (cur s))
    \/ (exists ps i ig, a = ACsi ps (63 :: i) ig 108 /\ In [1049] ps /\ altmode s' = false /\
                        spcol (g s) = gcols (g s))
    \/ (exists ps i ig, a = ACsi ps (63 :: i) ig 108 /\ In [47] ps /\ altmode s = true /\ altmode s' = false /\
                        pcol (g s) = gcols (g s))
    \/ (exists ps i ig, a = ACsi ps (63 :: i) ig 104 /\ In [47] ps /\ altmode s = false /\ altmode s' = true /\
                        pcol (alt s) = gcols (alt s)) ).
Proof. exact pending_only_by_print. Qed.
Print Assumptions C13b_pending_only_by_print.

(* ---- 2. case A is exact: these actions never move the column (so a pending cursor stays pending) ---- *)
Theorem C13b_col_fixed_meaning : forall cols,
  (forall c, col_fixed cols (APrint c) <-> print_keeps cols c) /\
  (forall b, col_fixed cols (AExecute b) <-> (b <> 8 /\ b <> 9 /\ b <> 13)) /\
  (forall ps ig c, col_fixed cols (ACsi ps [] ig c) <-> (~ csi_moves_col c /\ c <> 116)) /\
  (forall ps i rest ig c, col_fixed cols (ACsi ps (i :: rest) ig c) <->
                          (i = 63 -> c = 104 \/ c = 108 -> ~ In [6] ps /\ ~ In [47] ps /\ ~ In [1049] ps)) /\
  (forall ig b, col_fixed cols (AEsc [] ig b) <-> (b <> 56 /\ b <> 99)) /\
  (forall i rest ig b, col_fixed cols (AEsc (i :: rest) ig b)) /\
  (forall ps bell, col_fixed cols (AOsc ps bell)) /\
  (forall ps inter ig c, col_fixed cols (AHook ps inter ig c)) /\
  (forall b, col_fixed cols (APut b)) /\ col_fixed cols AUnhook.
Proof. intros. cbn. repeat match goal with |- _ /\ _ => split end; intros; tauto. Qed.
Print Assumptions C13b_col_fixed_meaning.

Theorem C13b_col_fixed_keeps : forall rz s a s' evs,
  screen_ok s -> perform rz s a = Ok (s', evs) -> col_fixed (gcols (cur s)) a ->
  altmode s' = altmode s /\ pcol (cur s') = pcol (cur s) /\ gcols (cur s') = gcols (cur s).
Proof. exact col_fixed_keeps. Qed.
Print Assumptions C13b_col_fixed_keeps.

Theorem C13b_pending_kept : forall rz s a s' evs,
  screen_ok s -> perform rz s a = Ok (s', evs) -> col_fixed (gcols (cur s)) a ->
  pcol (cur s) = gcols (cur s) -> pcol (cur s') = gcols (cur s').
Proof. exact pending_kept. Qed.
Print Assumptions C13b_pending_kept.

(* ---- 3. actions after which the cursor is never pending ---- *)
Theorem C13b_col_mover_meaning :
  (forall b, col_mover (AExecute b) <-> (b = 8 \/ b = 9 \/ b = 13)) /\                        (* BS HT CR *)
  (forall ps ig c, col_mover (ACsi ps [] ig c) <-> csi_moves_col c) /\
  (forall ps i rest ig c, col_mover (ACsi ps (i :: rest) ig c) <->
     (i = 63 /\ (c = 104 \/ c = 108) /\ In [6] ps /\ ~ In [47] ps /\ ~ In [1049] ps)) /\    (* origin mode *)
  (forall ig b, col_mover (AEsc [] ig b) <-> b = 99).                                         (* RIS *)
Proof. cbn. repeat match goal with |- _ /\ _ => split end; intros; tauto. Qed.
Print Assumptions C13b_col_mover_meaning.

Theorem C13b_movers_not_pending : forall rz s a s' evs,
  screen_ok s -> perform rz s a = Ok (s', evs) -> col_mover a -> pcol (cur s') < gcols (cur s').
Proof. exact movers_not_pending. Qed.
Print Assumptions C13b_movers_not_pending.

(* RIS homes the cursor of the primary grid *)
Theorem C13b_ris_not_pending : forall s s', screen_ok s -> scr_ris s = Ok s' ->
  altmode s' = false /\ pcol (cur s') = 0 /\ gcols (cur s') = gcols (cur s) /\ pcol (cur s') < gcols (cur s').
Proof. exact ris_not_pending. Qed.
Print Assumptions C13b_ris_not_pending.

(* the resize request CSI 8 ; r ; c t: nothing happens, or set_size is performed (resizing
   callbacks, size within 1..512) and the cursor and the saved cursor are inside the line *)
Theorem C13b_resize_request_not_pending : forall rz s ps ig s' evs,
  screen_ok s -> perform rz s (ACsi ps [] ig 116) = Ok (s', evs) ->
  s' = s \/
  (rz = true /\ exists r c, 1 <= r /\ 1 <= c /\ screen_set_size s r c = Ok s' /\
                            pcol (cur s') < gcols (cur s') /\ spcol (cur s') < gcols (cur s')).
Proof. exact resize_request_not_pending. Qed.
Print Assumptions C13b_resize_request_not_pending.

(* ---- 4. Screen::set_size never leaves a pending column or saved column, in either grid ---- *)
Theorem C13b_set_size_not_pending : forall s r c s', screen_ok s -> 1 <= r -> 1 <= c ->
  screen_set_size s r c = Ok s' ->
  gcols (g s') = c /\ gcols (alt s') = c /\
  pcol (g s') < gcols (g s') /\ spcol (g s') < gcols (g s') /\
  pcol (alt s') < gcols (alt s') /\ spcol (alt s') < gcols (alt s') /\
  pcol (cur s') < gcols (cur s') /\ spcol (cur s') < gcols (cur s').
Proof. exact set_size_not_pending. Qed.
Print Assumptions C13b_set_size_not_pending.

(* ---- 5. converse of case B: printing up to the last column does make the cursor pending ---- *)
Theorem C13b_print_to_last_col_pending : forall rz s c,
  screen_ok s -> ~ (128 <= c < 160) -> c <> REPL -> ~ (wd c = None /\ c < 256) ->
  1 <= cwidth c -> pcol (cur s) + cwidth c = gcols (cur s) ->
  exists s', perform rz s (APrint c) = Ok (s', []) /\
             pcol (cur s') = gcols (cur s') /\ prow (cur s') = prow (cur s) /\ altmode s' = altmode s /\
             printed_last s s' c.
Proof. exact print_to_last_col_pending. Qed.
Print Assumptions C13b_print_to_last_col_pending.

Theorem C13b_print_ascii_last_col_pending : forall rz s c,
  screen_ok s -> 32 <= c < 127 -> pcol (cur s) + 1 = gcols (cur s) ->
  exists s', perform rz s (APrint c) = Ok (s', []) /\
             pcol (cur s') = gcols (cur s') /\ prow (cur s') = prow (cur s) /\
             drawing_cell (cur s') (prow (cur s')) (gcols (cur s') - 1) = Some (glyph c (pen s)).
Proof. exact print_ascii_last_col_pending. Qed.
Print Assumptions C13b_print_ascii_last_col_pending.

(* ---- 6. no history-level invariant "pending => last cell of the cursor row occupied" ---- *)
(* probe bs = (pcol, prow, cols, cell in the last column of the cursor row) after processing the
   bytes bs on a fresh 2 x 3 screen *)
Theorem C13b_pending_is_not_occupancy :
  probe [97; 98; 99] = Ok (3, 0, 3, Some (glyph 99 dflt)) /\                        (* "abc": pending, 'c' in the last cell *)
  probe [97; 98; 99; 27; 91; 50; 75] = Ok (3, 0, 3, Some (blank dflt)) /\           (* then EL 2: still pending, cell blank *)
  probe [10; 97; 98; 99; 27; 91; 65] = Ok (3, 0, 3, Some (blank dflt)) /\           (* LF "abc" CUU: carried to an empty row *)
  probe [97; 98; 99; 13] = Ok (0, 0, 3, Some (glyph 99 dflt)) /\                    (* CR ends the pending state *)
  probe [97; 98; 99; 27; 55; 13; 27; 56] = Ok (3, 0, 3, Some (glyph 99 dflt)).      (* DECSC CR DECRC: case C *)
Proof.
  split; [exact pending_after_print|]. split; [exact pending_survives_erase|].
  split; [exact pending_carried_up|]. split; [exact pending_cleared_by_cr|exact pending_restored_by_decrc].
Qed.
Print Assumptions C13b_pending_is_not_occupancy.
