(* C02sem — the SEMANTIC statement of property C02 on the class U.

   C02: "For any two reachable screens P and S of equal size, a parser that reproduces P (fresh
   parser fed P.state_formatted()) and is then fed S.state_diff(P) ends in the observable visible
   state of S.  Also along chains."

   The unrestricted statement is false (Props/C02.v, C02_refuted: finding D10, a row that is
   soft-wrapped in both screens loses its flag).  Here it is PROVED for the class

       U := scrollback offset 0 (the caveat of C01) and no soft-wrapped visible row

   for P and for S (DiffRoundU.in_U).  Wide characters, combining characters, colours, a hidden
   cursor, a cursor in the pending-wrap column (pcol = cols) in P and/or S, the alternate screen
   in P or S are all inside the class.  The statement is the executable byte-level round trip
   DiffRound.diff_round_ok itself (bytes through the vte parser, via ParseSer), plus the chain
   statement, plus the action-level and row-level statements they are built from. *)
Require Import Tac ListN Utf8 Width Attrs Cell Row Grid Screen Vte Perform Parser Term Emit.
Require Import RowInv GridInv TextInv ScreenInv ParseSer CellWf WfInv WrapInv WrapInvScreen SgrSpec EmitSafe ObsSpec.
Require Import AttrsInv EmitTokens CellInv Recv RowPaint Redraw Cursor C01Main C15Main CapInv Idem LastRow C01Examples Bytes.
Require Import DiffRound DiffPaint DiffGrid DiffMain DiffRoundU.
Open Scope N_scope.

(* ---- the notions of the statement, restated ---- *)
Theorem C02sem_in_U_def : forall s, in_U s <->
  (sb_off (cur s) = 0 /\ Forall (fun rw => wrapped rw = false) (live (cur s))).
Proof. intros s. reflexivity. Qed.
Print Assumptions C02sem_in_U_def.

(* at scrollback offset 0 the live rows ARE the visible rows *)
Theorem C02sem_visible_def : forall s, sb_off (cur s) = 0 -> visible_rows (cur s) = Ok (live (cur s)).
Proof. intros s. apply ObsSpec.visible_rows_off0. Qed.
Print Assumptions C02sem_visible_def.

Theorem C02sem_round_def : forall Pr Sc, diff_round_ok Pr Sc <->
  exists r o,
    (do r0 <- (do r <- parser_new (grows (cur Pr)) (gcols (cur Pr)) 0 false;
               do ts <- state_formatted_t Pr; process r (ser_all ts));
     do ts <- state_diff_t Sc Pr; process r0 (ser_all ts)) = Ok r /\
    obs (scr r) = Ok o /\ obs Sc = Ok o.
Proof. intros Pr Sc. reflexivity. Qed.
Print Assumptions C02sem_round_def.

(* "R shows S": canvas receiver of S's size whose live rows, cursor, hide flag and pen are S's *)
Theorem C02sem_shows_def : forall S R vr, shows S R vr <->
  (canvas R /\ grows (g R) = grows (cur S) /\ gcols (g R) = gcols (cur S) /\ live (g R) = vr /\
   prow (g R) = prow (cur S) /\ pcol (g R) = pcol (cur S) /\ hide R = hide S /\ pen R = pen S).
Proof.
  intros S R vr. split.
  - intros [H1 H2 H3 H4 H5 H6 H7 H8]. auto 10.
  - intros (H1 & H2 & H3 & H4 & H5 & H6 & H7 & H8). split; auto.
Qed.
Print Assumptions C02sem_shows_def.

(* ---- MAIN THEOREM: C02 on class U, byte level ---- *)
Theorem C02sem_U : forall P S,
  reachable P -> reachable S -> in_U P -> in_U S ->
  grows (cur P) = grows (cur S) -> gcols (cur P) = gcols (cur S) ->
  diff_round_ok P S.
Proof. exact diff_round_ok_U. Qed.
Print Assumptions C02sem_U.

(* the same, with the side facts: no callback event, vte parser back in ground state *)
Theorem C02sem_U_strong : forall P S,
  reachable P -> reachable S -> in_U P -> in_U S ->
  grows (cur P) = grows (cur S) -> gcols (cur P) = gcols (cur S) ->
  exists r, diff_round P S = Ok r /\ obs (scr r) = obs S /\ log r = [] /\ ground (vt r) /\ canvas (scr r).
Proof. exact diff_round_U_strong. Qed.
Print Assumptions C02sem_U_strong.

(* ---- Stage 5: the larger class W — soft-wrapped rows allowed when UNTOUCHED ---- *)
(* a row flagged in either screen is flagged in both, has the same cells in both, and the row after
   it has the same cells in both (so the diff emits nothing for either row).  D10 (Props/C02.v) shows
   the last condition cannot simply be dropped: there row 0 is flagged and identical in both
   screens and only the row after it differs. *)
Theorem C02sem_untouched_wraps_def : forall vr pvr, untouched_wraps vr pvr <->
  forall i src prev, get vr i = Some src -> get pvr i = Some prev ->
    wrapped src = true \/ wrapped prev = true ->
    wrapped src = true /\ wrapped prev = true /\ cells src = cells prev /\
    forall s1 p1, get vr (i + 1) = Some s1 -> get pvr (i + 1) = Some p1 -> cells s1 = cells p1.
Proof. intros. reflexivity. Qed.
Print Assumptions C02sem_untouched_wraps_def.

Theorem C02sem_in_W_def : forall P S, in_W P S <->
  (sb_off (cur P) = 0 /\ sb_off (cur S) = 0 /\ untouched_wraps (live (cur S)) (live (cur P))).
Proof. intros. reflexivity. Qed.
Print Assumptions C02sem_in_W_def.

Theorem C02sem_U_in_W : forall P S, in_U P -> in_U S -> in_W P S.
Proof. exact in_U_W. Qed.
Print Assumptions C02sem_U_in_W.

Theorem C02sem_W : forall P S,
  reachable P -> reachable S -> in_W P S ->
  grows (cur P) = grows (cur S) -> gcols (cur P) = gcols (cur S) ->
  diff_round_ok P S.
Proof. exact diff_round_ok_W. Qed.
Print Assumptions C02sem_W.

Theorem C02sem_W_strong : forall P S,
  reachable P -> reachable S -> in_W P S ->
  grows (cur P) = grows (cur S) -> gcols (cur P) = gcols (cur S) ->
  exists r, diff_round P S = Ok r /\ obs (scr r) = obs S /\ log r = [] /\ ground (vt r) /\ canvas (scr r).
Proof. exact diff_round_W_strong. Qed.
Print Assumptions C02sem_W_strong.

(* chains in class W: every snapshot reachable and of the common size, consecutive pairs in W *)
Theorem C02sem_chain_W_def : forall rows cols prev s rest,
  chain_W rows cols prev (s :: rest) <->
  (reachable s /\ grows (cur s) = rows /\ gcols (cur s) = cols /\ in_W prev s /\ chain_W rows cols s rest).
Proof. intros. reflexivity. Qed.
Print Assumptions C02sem_chain_W_def.

Theorem C02sem_chain_W : forall rows cols S0 snaps,
  reachable S0 -> sb_off (cur S0) = 0 -> grows (cur S0) = rows -> gcols (cur S0) = cols ->
  chain_W rows cols S0 snaps ->
  exists r r', reproduce S0 = Ok r /\ diff_chain r S0 snaps = Ok r' /\
               obs (scr r') = obs (last_snap S0 snaps) /\ log r' = [] /\ ground (vt r').
Proof. exact diff_chain_round_W. Qed.
Print Assumptions C02sem_chain_W.

(* Stage 3 / Stage 2 in class W *)
Theorem C02sem_state_diff_W : forall S P R vr pvr ts,
  source_ok S vr -> source_ok P pvr -> untouched_wraps vr pvr ->
  grows (cur S) = grows (cur P) -> gcols (cur S) = gcols (cur P) ->
  shows P R pvr -> same_modes P R -> state_diff_t S P = Ok ts ->
  exists R', plays R ts R' /\ shows S R' vr /\ same_modes S R'.
Proof. exact state_diff_plays_W. Qed.
Print Assumptions C02sem_state_diff_W.

Theorem C02sem_grid_diff_W : forall R x px vr pvr pa,
  canvas R -> vrows_ok (gcols (g R)) vr -> Forall (srow_ok (gcols (g R))) pvr ->
  untouched_wraps vr pvr ->
  visible_rows x = Ok vr -> visible_rows px = Ok pvr ->
  len vr = grows (g R) -> len pvr = grows (g R) -> gcols x = gcols (g R) ->
  prow x < grows (g R) -> pcol x <= gcols (g R) ->
  cv R pvr (prow px) (pcol px) -> pen_ok pa ->
  exists ts a' R2,
    grid_contents_diff x px pa = Ok (ts, a') /\
    plays (rcv R pvr (prow px) (pcol px) pa) ts (rcv R2 vr (prow x) (pcol x) a') /\
    cv R2 vr (prow x) (pcol x) /\ same_base R R2 /\ pen_ok a'.
Proof. exact grid_diff_plays_W. Qed.
Print Assumptions C02sem_grid_diff_W.

(* ---- chains: reproduce S0, then diff(S1,S0), diff(S2,S1), ... ends showing the last snapshot ---- *)
Theorem C02sem_chain_U : forall rows cols S0 snaps,
  snap_ok rows cols S0 -> Forall (snap_ok rows cols) snaps ->
  exists r r', reproduce S0 = Ok r /\ diff_chain r S0 snaps = Ok r' /\
               obs (scr r') = obs (last_snap S0 snaps) /\ log r' = [] /\ ground (vt r').
Proof. exact diff_chain_round_U. Qed.
Print Assumptions C02sem_chain_U.

Theorem C02sem_snap_ok_def : forall rows cols s, snap_ok rows cols s <->
  (reachable s /\ in_U s /\ grows (cur s) = rows /\ gcols (cur s) = cols).
Proof. intros. reflexivity. Qed.
Print Assumptions C02sem_snap_ok_def.

(* the chain step on an arbitrary parser whose screen shows prev (not necessarily a fresh one) *)
Theorem C02sem_chain_step : forall rows cols snaps prev r,
  snap_ok rows cols prev -> Forall (snap_ok rows cols) snaps ->
  pend r = [] ->   (* the receiving parser holds no bytes of an unfinished utf-8 character back *)
  ground (vt r) -> shows prev (scr r) (live (cur prev)) -> same_modes prev (scr r) ->
  exists r', diff_chain r prev snaps = Ok r' /\ log r' = log r /\ ground (vt r') /\
             shows (last_snap prev snaps) (scr r') (live (cur (last_snap prev snaps))) /\
             same_modes (last_snap prev snaps) (scr r') /\
             obs (scr r') = obs (last_snap prev snaps).
Proof. exact diff_chain_U. Qed.
Print Assumptions C02sem_chain_step.

(* ---- action level (Recv.play), hypotheses on the sources spelled out as in C01 ---- *)
Theorem C02sem_play_U : forall P S R tsP tsD,
  source_ok P (live (cur P)) -> source_ok S (live (cur S)) ->
  unwrapped_rows (live (cur P)) -> unwrapped_rows (live (cur S)) -> sb_off (cur S) = 0 ->
  grows (cur S) = grows (cur P) -> gcols (cur S) = gcols (cur P) ->
  canvas R -> grows (g R) = grows (cur P) -> gcols (g R) = gcols (cur P) ->
  mmode R = MNone -> menc R = EDefault ->
  state_formatted_t P = Ok tsP -> state_diff_t S P = Ok tsD ->
  exists R1 R2, play false R tsP = Ok (R1, []) /\ play false R1 tsD = Ok (R2, []) /\
                canvas R2 /\ obs R2 = obs S.
Proof. exact diff_round_play_U. Qed.
Print Assumptions C02sem_play_U.

(* ---- Stage 3: state_diff / contents_diff on a receiver that shows P ---- *)
Theorem C02sem_state_diff : forall S P R vr pvr ts,
  source_ok S vr -> source_ok P pvr -> unwrapped_rows vr -> unwrapped_rows pvr ->
  grows (cur S) = grows (cur P) -> gcols (cur S) = gcols (cur P) ->
  shows P R pvr -> same_modes P R -> state_diff_t S P = Ok ts ->
  exists R', plays R ts R' /\ shows S R' vr /\ same_modes S R'.
Proof. exact state_diff_plays. Qed.
Print Assumptions C02sem_state_diff.

Theorem C02sem_contents_diff : forall S P R vr pvr ts,
  source_ok S vr -> source_ok P pvr -> unwrapped_rows vr -> unwrapped_rows pvr ->
  grows (cur S) = grows (cur P) -> gcols (cur S) = gcols (cur P) ->
  shows P R pvr -> contents_diff_t S P = Ok ts ->
  exists R', plays R ts R' /\ shows S R' vr /\
             keypad R' = keypad R /\ appcur R' = appcur R /\ paste R' = paste R /\
             mmode R' = mmode R /\ menc R' = menc R.
Proof. exact contents_diff_plays. Qed.
Print Assumptions C02sem_contents_diff.

(* ---- Stage 2: the grid part ---- *)
Theorem C02sem_grid_diff : forall R x px vr pvr pa,
  canvas R -> vrows_ok (gcols (g R)) vr -> Forall (srow_ok (gcols (g R))) pvr ->
  unwrapped_rows vr -> unwrapped_rows pvr ->
  visible_rows x = Ok vr -> visible_rows px = Ok pvr ->
  len vr = grows (g R) -> len pvr = grows (g R) -> gcols x = gcols (g R) ->
  prow x < grows (g R) -> pcol x <= gcols (g R) ->
  cv R pvr (prow px) (pcol px) -> pen_ok pa ->
  exists ts a' R2,
    grid_contents_diff x px pa = Ok (ts, a') /\
    plays (rcv R pvr (prow px) (pcol px) pa) ts (rcv R2 vr (prow x) (pcol x) a') /\
    cv R2 vr (prow x) (pcol x) /\ same_base R R2 /\ pen_ok a'.
Proof. exact grid_diff_plays. Qed.
Print Assumptions C02sem_grid_diff.

(* ---- Stage 1: the row painter of the diff ---- *)
(* receiver row i shows prev; src, prev not soft-wrapped; no wrap carry.  The tokens of
   Row::write_contents_diff turn row i into src and touch nothing else; when nothing differs
   nothing is emitted. *)
Theorem C02sem_row_diff : forall R i src prev l ri0 r c a,
  i < grows (g R) -> srow_ok (gcols (g R)) src -> srow_ok (gcols (g R)) prev ->
  cv R l r c -> pen_ok a -> get l i = Some ri0 -> cells ri0 = cells prev -> wrapped ri0 = false ->
  wrapped src = false -> wrapped prev = false ->
  exists ts r1 c1 a1 ri,
    row_diff src prev 0 (gcols (g R)) i false false (r, c) a = Ok (ts, (r1, c1), a1) /\
    plays (rcv R l r c a) ts (rcv R (set_at l i ri) r1 c1 a1) /\
    cv R (set_at l i ri) r1 c1 /\ pen_ok a1 /\
    cells ri = cells src /\ wrapped ri = false /\
    (cells src = cells prev -> ts = [] /\ r1 = r /\ c1 = c /\ a1 = a).
Proof. exact row_diff_paints. Qed.
Print Assumptions C02sem_row_diff.

(* the receiver-side lemma the diff needs beyond C01's plays_cell: printing a cell's text over
   ANY slot that is not the second half of a wide character *)
Theorem C02sem_print_cell_gen : forall R l r j a rw c, cv R l r j -> get l r = Some rw ->
  cell_wf c -> cell_cap c -> has_contents c = true ->
  j + adv_n c <= gcols (g R) -> fc (cells rw) j = false ->
  exists rw', printed rw rw' j c a /\
    plays (rcv R l r j a) [TChars (ctext c)] (rcv R (set_at l r rw') r (j + adv_n c) a).
Proof. exact plays_cell_gen. Qed.
Print Assumptions C02sem_print_cell_gen.

(* ------------------------------------------------------------------ *)
(* non-vacuity: a concrete pair in class U meeting every hypothesis     *)
(* ------------------------------------------------------------------ *)
(* 3 x 6.
   P:  ESC[31m "ab" U+4E16 (wide) "cd"              -> row 0 full, red, cursor PENDING at (0, 6)
       (nothing is printed after the pending wrap, so row 0 is not flagged)
   S:  "x" ESC[1m "y" CR LF U+1F600 (wide) "z" U+0301 (combining)  ESC[3;1H ESC[42m "123456"
       ESC[?25l ESC[?2004h                           -> cursor PENDING at (2, 6), hidden, paste mode *)
Definition exU_P : list N := [27;91;51;49;109;97;98;228;184;150;99;100].
Definition exU_S : list N :=
  [120;27;91;49;109;121;13;10;240;159;152;128;122;204;129;27;91;51;59;49;72;27;91;52;50;109;
   49;50;51;52;53;54;27;91;63;50;53;108;27;91;63;50;48;48;52;104].

Definition exU_facts : res (N * N * N * N * bool * bool * list bool * list bool) :=
  do Pr <- after 3 6 exU_P;
  do Sc <- after 3 6 exU_S;
  Ok (prow (cur Pr), pcol (cur Pr), prow (cur Sc), pcol (cur Sc), hide Sc, paste Sc,
      map wrapped (live (cur Pr)), map wrapped (live (cur Sc))).

(* both cursors are in the pending-wrap column, on different rows; no row is flagged *)
Lemma exU_facts_value :
  exU_facts = Ok (0, 6, 2, 6, true, true, [false; false; false], [false; false; false]).
Proof. vm_compute. reflexivity. Qed.

Theorem C02sem_example : exists Pr Sc,
  after 3 6 exU_P = Ok Pr /\ after 3 6 exU_S = Ok Sc /\
  reachable Pr /\ reachable Sc /\ in_U Pr /\ in_U Sc /\
  grows (cur Pr) = grows (cur Sc) /\ gcols (cur Pr) = gcols (cur Sc) /\
  pcol (cur Pr) = gcols (cur Pr) /\ pcol (cur Sc) = gcols (cur Sc) /\ prow (cur Pr) <> prow (cur Sc) /\
  diff_round_ok Pr Sc.
Proof.
  destruct (after 3 6 exU_P) as [Pr|] eqn:EP; [|vm_compute in EP; discriminate].
  destruct (after 3 6 exU_S) as [Sc|] eqn:ES; [|vm_compute in ES; discriminate].
  exists Pr, Sc.
  assert (1 <= 3 <= MAXDIM) as H3 by (unfold MAXDIM; lia).
  assert (1 <= 6 <= MAXDIM) as H6 by (unfold MAXDIM; lia).
  assert (reachable Pr) as RP by (eapply after_reachable; [exact H3|exact H6|exact EP]).
  assert (reachable Sc) as RS by (eapply after_reachable; [exact H3|exact H6|exact ES]).
  vm_compute in EP. vm_compute in ES. inv EP. inv ES.
  split; [reflexivity|]. split; [reflexivity|]. split; [exact RP|]. split; [exact RS|].
  match goal with |- in_U ?p /\ in_U ?s /\ _ =>
    assert (in_U p) as UP by (split; [reflexivity|repeat constructor]);
    assert (in_U s) as US by (split; [reflexivity|repeat constructor]) end.
  split; [exact UP|]. split; [exact US|].
  split; [reflexivity|]. split; [reflexivity|]. split; [reflexivity|]. split; [reflexivity|].
  split; [vm_compute; discriminate|].
  apply C02sem_U; auto.
Qed.
Print Assumptions C02sem_example.

(* cross-check by evaluation: the model's round trip on this pair indeed ends in obs S *)
Definition exU_check : res bool :=
  do Pr <- after 3 6 exU_P;
  do Sc <- after 3 6 exU_S;
  do r <- diff_round Pr Sc;
  do o1 <- obs (scr r);
  do o2 <- obs Sc;
  Ok (obs_eqb_rows (o_vis o1) (o_vis o2) && (fst (o_cur o1) =? fst (o_cur o2)) && (snd (o_cur o1) =? snd (o_cur o2))
      && Bool.eqb (o_hide o1) (o_hide o2) && attrs_eqb (o_pen o1) (o_pen o2)).
Lemma exU_check_value : exU_check = Ok true.
Proof. vm_compute. reflexivity. Qed.

(* ------------------------------------------------------------------ *)
(* non-vacuity of class W beyond U: a soft-wrapped row that is untouched *)
(* ------------------------------------------------------------------ *)
(* 3 x 4.  P: "abcdef" (row 0 = abcd, FLAGGED, row 1 = ef) CR LF "xy"
           S: "abcdef" CR LF U+4E16 (wide) ESC[7m "z" ESC[m ESC[1;4H "d"  -> cursor pending at (0, 4) on the flagged row *)
Definition exW_P : list N := [97;98;99;100;101;102;13;10;120;121].
Definition exW_S : list N := [97;98;99;100;101;102;13;10;228;184;150;27;91;55;109;122;27;91;109;27;91;49;59;52;72;100].

Definition exW_facts : res (list bool * list bool * N * N) :=
  do Pr <- after 3 4 exW_P;
  do Sc <- after 3 4 exW_S;
  Ok (map wrapped (live (cur Pr)), map wrapped (live (cur Sc)), prow (cur Sc), pcol (cur Sc)).
Lemma exW_facts_value : exW_facts = Ok ([true; false; false], [true; false; false], 0, 4).
Proof. vm_compute. reflexivity. Qed.

Lemma untouched_wraps_check (vr pvr : list row) :
  (forall i, (i < len vr)%N -> forall src prev, get vr i = Some src -> get pvr i = Some prev ->
     wrapped src = true \/ wrapped prev = true ->
     wrapped src = true /\ wrapped prev = true /\ cells src = cells prev /\
     forall s1 p1, get vr (i + 1) = Some s1 -> get pvr (i + 1) = Some p1 -> cells s1 = cells p1) ->
  untouched_wraps vr pvr.
Proof. intros H i src prev G1 G2. apply (H i); auto. eapply get_some_lt; eauto. Qed.

Theorem C02sem_example_W : exists Pr Sc,
  after 3 4 exW_P = Ok Pr /\ after 3 4 exW_S = Ok Sc /\
  reachable Pr /\ reachable Sc /\ in_W Pr Sc /\ ~ in_U Pr /\
  grows (cur Pr) = grows (cur Sc) /\ gcols (cur Pr) = gcols (cur Sc) /\
  diff_round_ok Pr Sc.
Proof.
  destruct (after 3 4 exW_P) as [Pr|] eqn:EP; [|vm_compute in EP; discriminate].
  destruct (after 3 4 exW_S) as [Sc|] eqn:ES; [|vm_compute in ES; discriminate].
  exists Pr, Sc.
  assert (1 <= 3 <= MAXDIM) as H3 by (unfold MAXDIM; lia).
  assert (1 <= 4 <= MAXDIM) as H4 by (unfold MAXDIM; lia).
  assert (reachable Pr) as RP by (eapply after_reachable; [exact H3|exact H4|exact EP]).
  assert (reachable Sc) as RS by (eapply after_reachable; [exact H3|exact H4|exact ES]).
  vm_compute in EP. vm_compute in ES. inv EP. inv ES.
  split; [reflexivity|]. split; [reflexivity|]. split; [exact RP|]. split; [exact RS|].
  match goal with |- in_W ?p ?s /\ _ => assert (in_W p s) as HW end.
  { split; [reflexivity|]. split; [reflexivity|]. cbn [cur altmode g live].
    apply untouched_wraps_check. intros i Hi.
    assert (i = 0 \/ i = 1 \/ i = 2) as [-> | [-> | ->]] by (unfold len in Hi; cbn [length] in Hi; lia);
      intros src prev G1 G2 Hw; vm_compute in G1, G2; inv G1; inv G2; cbn [wrapped] in *.
    - split; [reflexivity|]. split; [reflexivity|]. split; [reflexivity|].
      intros s1 p1 G1 G2. vm_compute in G1, G2. inv G1. inv G2. reflexivity.
    - destruct Hw; discriminate.
    - destruct Hw; discriminate. }
  split; [exact HW|]. split.
  { intros [_ U]. inv U. discriminate. }
  split; [reflexivity|]. split; [reflexivity|].
  apply C02sem_W; auto.
Qed.
Print Assumptions C02sem_example_W.
