(* C05 — printing: "Printing a character of display width w (1 or 2) stores it with exactly the
   current pen in the cell(s) at the cursor and advances the cursor by w; if it does not fit in the
   columns left, the cursor first moves to column 0 of the next line (scrolling at the bottom margin,
   staying put on the last line when that lies outside the scroll region) and the line it left is
   flagged wrapped exactly when its last column was occupied.  A zero-width character is appended to
   the cell of the preceding character (reaching back across a wrapped line end), never moves the
   cursor, and is dropped when there is no such cell or the cell is full.  Overwriting one half of a
   wide character destroys the other half (it becomes an empty cell, or a space when the first half
   is overwritten), and no other cell changes."

   Vocabulary (PrintSpec.v):
     cwidth ch            = match wd ch with Some n => n | None => 1 end   (the width Screen::text uses)
     lrow x r, lcell x r c  live row r / its cell c (total; defaults unused under grid_ok)
     set_row x r rw       = with_live x (set_at (live x) r rw)
     glyph ch a           = mkCell [ch] (char_is_wide ch) false a     (= cell_set ch a _)
     blank a              = mkCell [] false false a                   (= cell_clear a _)
     cont_cell            = mkCell [] false true dflt                 (second half of a wide character)
     place_row rw c ch w a  the row after printing at column c (nested row_set_cell, see PrintSpec.v)
     place x ch w a       = with_pcol (set_row x (prow x) (place_row (lrow x (prow x)) (pcol x) ch w a)) (pcol x + w)
     placed cs c ch w a j   pointwise value of the new row at column j
     touched cs c w j     the columns that printing may change
     wrap_grid x b        the grid after col_wrap when the character does not fit (b = new wrap flag)
     last_occupied x      has_contents || is_wide_continuation of the last cell of the cursor line
     zero_target x        the cell a zero-width character is appended to, if any
   Deviations of the model from the property text are listed at the end of this file. *)
Require Import Tac ListN Utf8 Width Attrs Cell Row Grid Screen Vte Perform RowInv GridInv PrintSpec.
Open Scope N_scope.

(* ---- widths ---- *)
Theorem C05_width_range : forall ch, wd ch = None \/ wd ch = Some 0 \/ wd ch = Some 1 \/ wd ch = Some 2.
Proof. exact wd_range. Qed.
Print Assumptions C05_width_range.

(* wd = None only for C0/DEL/C1 (< 160) and for U+17D8 (table collision, finding W1) *)
Theorem C05_width_none : forall ch, wd ch = None -> ch < 160 \/ ch = 6104.
Proof. exact wd_none_cases. Qed.
Print Assumptions C05_width_none.

(* ---- case 0: control characters and characters wider than the screen are dropped ---- *)
Theorem C05_control : forall x ch a, wd ch = None -> ch < 256 -> grid_text x ch a = Ok x.
Proof. exact grid_text_control. Qed.
Print Assumptions C05_control.

Theorem C05_too_wide : forall x ch a, gcols x < cwidth ch -> grid_text x ch a = Ok x.
Proof. exact grid_text_too_wide. Qed.
Print Assumptions C05_too_wide.

(* ---- case 1: the character fits ---- *)
Theorem C05_fits : forall x ch a, grid_ok x -> ~ (wd ch = None /\ ch < 256) ->
  1 <= cwidth ch -> pcol x + cwidth ch <= gcols x ->
  grid_text x ch a = Ok (place x ch (cwidth ch) a).
Proof. exact grid_text_fits. Qed.
Print Assumptions C05_fits.

(* the new row, column by column *)
Theorem C05_place_cells : forall x ch w a r' c', grid_ok x -> (w = 1 \/ w = 2) -> pcol x + w <= gcols x ->
  drawing_cell (place x ch w a) r' c' =
  if r' =? prow x then
    (let cs := cells (lrow x (prow x)) in let c := pcol x in
     if c' =? c then Some (glyph ch a)
     else if (c' =? c + 1) && (1 <? w) then Some cont_cell
     else if (c' + 1 =? c) && fc cs c then Some (blank a)
     else if (c' =? c + 1) && fw cs c then Some (glyph 32 a)
     else if (c' =? c + 2) && (1 <? w) && fw cs (c + 1) then Some (blank a)
     else get cs c')
  else drawing_cell x r' c'.
Proof. exact place_drawing_cell. Qed.
Print Assumptions C05_place_cells.

(* "no other cell changes": a cell outside the current row, or not in the touched set
   { c } + { c+1 if w = 2 or old cell c was wide } + { c-1 if old cell c was a continuation }
   + { c+2 if w = 2 and old cell c+1 was wide }, keeps its value *)
Theorem C05_no_other_cell : forall x ch w a r' c', grid_ok x -> (w = 1 \/ w = 2) -> pcol x + w <= gcols x ->
  r' <> prow x \/
  ~ (let cs := cells (lrow x (prow x)) in let c := pcol x in
     c' = c \/ (c' = c + 1 /\ (w = 2 \/ fw cs c = true)) \/ (c' + 1 = c /\ fc cs c = true) \/
     (c' = c + 2 /\ w = 2 /\ fw cs (c + 1) = true)) ->
  drawing_cell (place x ch w a) r' c' = drawing_cell x r' c'.
Proof. exact place_untouched. Qed.
Print Assumptions C05_no_other_cell.

(* nothing but the current row and the cursor column changes *)
Theorem C05_place_frame : forall x ch w a,
  let y := place x ch w a in
  grows y = grows x /\ gcols y = gcols x /\ prow y = prow x /\ pcol y = pcol x + w /\ sprow y = sprow x /\
  spcol y = spcol x /\ top y = top x /\ bot y = bot x /\ origin y = origin x /\ sorigin y = sorigin x /\
  sb y = sb x /\ sb_cap y = sb_cap x /\ sb_off y = sb_off x /\
  live y = set_at (live x) (prow x) (place_row (lrow x (prow x)) (pcol x) ch w a).
Proof. exact place_frame. Qed.
Print Assumptions C05_place_frame.

(* the character is stored with exactly the pen *)
Theorem C05_glyph : forall ch a,
  ctext (glyph ch a) = [ch] /\ cwide (glyph ch a) = (1 <? cwidth ch) /\ ccont (glyph ch a) = false /\
  cattrs (glyph ch a) = a.
Proof. exact glyph_fields. Qed.
Print Assumptions C05_glyph.

(* wrap flags: only the current row's flag can change, and only to false (when the second half of an
   overwritten wide character sat in the last column) *)
Theorem C05_place_wrapped : forall x ch w a r', grid_ok x ->
  wrapped (lrow (place x ch w a) r') =
  if (r' =? prow x) && (1 <? w) && fw (cells (lrow x (prow x))) (pcol x + 1) && (pcol x + 2 =? gcols x - 1)
  then false else wrapped (lrow x r').
Proof. exact place_wrapped. Qed.
Print Assumptions C05_place_wrapped.

Theorem C05_place_ok : forall x ch w a, grid_ok x -> (w = 1 \/ w = 2) -> pcol x + w <= gcols x ->
  char_is_wide ch = (1 <? w) -> grid_ok (place x ch w a) /\ frame x (place x ch w a).
Proof. exact place_ok. Qed.
Print Assumptions C05_place_ok.

(* ---- case 2: the character does not fit: col_wrap, then case 1 at column 0 ---- *)
Theorem C05_wraps : forall x ch a, grid_ok x -> ~ (wd ch = None /\ ch < 256) ->
  1 <= cwidth ch -> cwidth ch <= gcols x -> gcols x < pcol x + cwidth ch ->
  grid_text x ch a = Ok (place (wrap_grid x (last_occupied x)) ch (cwidth ch) a).
Proof. exact grid_text_wraps. Qed.
Print Assumptions C05_wraps.

(* the grid after the wrap satisfies the invariant, so C05_place_* apply to it *)
Theorem C05_wrap_grid_ok : forall x w b, grid_ok x -> w <= gcols x -> gcols x < pcol x + w ->
  grid_ok (wrap_grid x b) /\ frame x (wrap_grid x b).
Proof. exact wrap_grid_ok. Qed.
Print Assumptions C05_wrap_grid_ok.

Theorem C05_col_wrap : forall x w b, grid_ok x -> w <= gcols x -> gcols x < pcol x + w ->
  col_wrap x w b = Ok (wrap_grid x b).
Proof. exact col_wrap_eq. Qed.
Print Assumptions C05_col_wrap.

(* the cursor after a wrap: column 0 of wrap_row; after printing: column w *)
Theorem C05_wrap_cursor : forall x b,
  pcol (wrap_grid x b) = 0 /\
  prow (wrap_grid x b) = (if in_scroll_region x && (prow x =? bot x) then prow x
                          else if prow x + 1 <? grows x then prow x + 1 else prow x).
Proof. intros x b. split; [apply wrap_grid_pcol|apply wrap_grid_prow]. Qed.
Print Assumptions C05_wrap_cursor.

(* the three sub-cases are exhaustive *)
Theorem C05_wrap_cases : forall x, grid_ok x ->
  (in_scroll_region x = true /\ prow x = bot x) \/
  (in_scroll_region x && (prow x =? bot x) = false /\ prow x + 1 < grows x) \/
  (in_scroll_region x = false /\ prow x + 1 = grows x /\ bot x < prow x).
Proof. exact wrap_cases. Qed.
Print Assumptions C05_wrap_cases.

(* (a) next line, no scrolling: the line left gets flag b, nothing else changes *)
Theorem C05_wrap_next : forall x b, in_scroll_region x && (prow x =? bot x) = false -> prow x + 1 < grows x ->
  wrap_grid x b = with_pos (set_row x (prow x) (row_wrap b (lrow x (prow x)))) (prow x + 1) 0.
Proof. exact wrap_grid_next. Qed.
Print Assumptions C05_wrap_next.

(* (b) last line of the screen, outside the scroll region: the cursor stays on the line, column 0,
   and the line's wrap flag is CLEARED (whatever its last column contains) *)
Theorem C05_wrap_stay : forall x b, in_scroll_region x = false -> prow x + 1 = grows x ->
  wrap_grid x b = with_pos (set_row x (prow x) (row_wrap false (lrow x (prow x)))) (prow x) 0.
Proof. exact wrap_grid_stay. Qed.
Print Assumptions C05_wrap_stay.

(* (c) bottom margin: one scroll step (scroll1 = Grid::scroll_up(1)), cursor stays on the margin row;
   the line left is now one row higher and gets flag b — unless the screen has a single row
   (prow x = 0): then it is scrolled out with its old flag *)
Theorem C05_wrap_scroll : forall x b, in_scroll_region x = true -> prow x = bot x ->
  wrap_grid x b =
  let y := scroll1 (with_pos x (prow x) 0) in
  if 1 <=? prow x then set_row y (prow x - 1) (row_wrap b (lrow x (prow x))) else y.
Proof. exact wrap_grid_scroll. Qed.
Print Assumptions C05_wrap_scroll.

Theorem C05_scroll_up_1 : forall x, grid_ok x -> scroll_up x 1 = Ok (scroll1 x).
Proof. exact scroll_up_1. Qed.
Print Assumptions C05_scroll_up_1.

Theorem C05_wrap_scroll_rows : forall x b j, grid_ok x -> in_scroll_region x = true -> prow x = bot x -> j < grows x ->
  lrow (wrap_grid x b) j =
  if j <? top x then lrow x j
  else if j <? bot x then (if j + 1 =? bot x then row_wrap b (lrow x (bot x)) else lrow x (j + 1))
  else if j =? bot x then new_row x else lrow x j.
Proof. exact wrap_scroll_rows. Qed.
Print Assumptions C05_wrap_scroll_rows.

Theorem C05_wrap_left_line : forall x b, grid_ok x ->
  (in_scroll_region x && (prow x =? bot x) = false -> prow x + 1 < grows x ->
     lrow (wrap_grid x b) (prow x) = row_wrap b (lrow x (prow x))) /\
  (in_scroll_region x = false -> prow x + 1 = grows x ->
     lrow (wrap_grid x b) (prow x) = row_wrap false (lrow x (prow x))) /\
  (in_scroll_region x = true -> prow x = bot x -> 1 <= prow x ->
     lrow (wrap_grid x b) (prow x - 1) = row_wrap b (lrow x (prow x)) /\
     lrow (wrap_grid x b) (prow x) = new_row x) /\
  (in_scroll_region x = true -> prow x = bot x -> prow x = 0 ->
     wrap_grid x b = scroll1 (with_pos x 0 0) /\ lrow (wrap_grid x b) 0 = new_row x).
Proof. exact wrap_left_line. Qed.
Print Assumptions C05_wrap_left_line.

(* ---- case 3: zero-width characters ---- *)
Theorem C05_zero : forall x ch a, grid_ok x -> wd ch = Some 0 ->
  grid_text x ch a = Ok (match zero_target x with Some (r, c) => append_cell x r c ch | None => x end).
Proof. exact grid_text_zero. Qed.
Print Assumptions C05_zero.

Theorem C05_zero_target : forall x,
  zero_target x =
  if 0 <? pcol x then
    Some (prow x, if ccont (lcell x (prow x) (pcol x - 1)) then pcol x - 1 - 1 else pcol x - 1)
  else if (0 <? prow x) && wrapped (lrow x (prow x - 1)) then
    Some (prow x - 1, if ccont (lcell x (prow x - 1) (gcols x - 1)) then gcols x - 1 - 1 else gcols x - 1)
  else None.
Proof. reflexivity. Qed.
Print Assumptions C05_zero_target.

Theorem C05_append_cell : forall x r c ch r' c', grid_ok x -> r < grows x -> c < gcols x ->
  lcell (append_cell x r c ch) r' c' =
  if (r' =? r) && (c' =? c) then cell_append ch (lcell x r c) else lcell x r' c'.
Proof. exact lcell_append_cell. Qed.
Print Assumptions C05_append_cell.

Theorem C05_append_rest : forall x r c ch,
  let y := append_cell x r c ch in
  grows y = grows x /\ gcols y = gcols x /\ prow y = prow x /\ pcol y = pcol x /\ sprow y = sprow x /\
  spcol y = spcol x /\ top y = top x /\ bot y = bot x /\ origin y = origin x /\ sorigin y = sorigin x /\
  sb y = sb x /\ sb_cap y = sb_cap x /\ sb_off y = sb_off x /\
  (forall r', wrapped (lrow y r') = wrapped (lrow x r')).
Proof. exact append_cell_rest. Qed.
Print Assumptions C05_append_rest.

Theorem C05_zero_target_bounds : forall x r c, grid_ok x -> zero_target x = Some (r, c) -> r < grows x /\ c < gcols x.
Proof. exact zero_target_bounds. Qed.
Print Assumptions C05_zero_target_bounds.

(* Cell::append: full cells are left alone, an empty cell gets a space first *)
Theorem C05_cell_append : forall ch cl,
  (18 <= cell_len cl -> cell_append ch cl = cl) /\
  (ctext cl = [] -> cell_append ch cl = mkCell [32; ch] (cwide cl) (ccont cl) (cattrs cl)) /\
  (ctext cl <> [] -> cell_len cl < 18 ->
     cell_append ch cl = mkCell (ctext cl ++ [ch]) (cwide cl) (ccont cl) (cattrs cl)).
Proof.
  intros ch cl. split; [apply cell_append_full|split; [apply cell_append_empty|apply cell_append_some]].
Qed.
Print Assumptions C05_cell_append.

(* ---- all cases together; Screen::text never panics and keeps the invariant ---- *)
Theorem C05_cases : forall x ch a, grid_ok x ->
  (wd ch = None /\ ch < 256 /\ grid_text x ch a = Ok x) \/
  (~ (wd ch = None /\ ch < 256) /\ gcols x < cwidth ch /\ grid_text x ch a = Ok x) \/
  (wd ch = Some 0 /\ grid_text x ch a = Ok (zero_result x ch)) \/
  (~ (wd ch = None /\ ch < 256) /\ 1 <= cwidth ch <= 2 /\ pcol x + cwidth ch <= gcols x /\
     grid_text x ch a = Ok (place x ch (cwidth ch) a)) \/
  (~ (wd ch = None /\ ch < 256) /\ 1 <= cwidth ch <= 2 /\ cwidth ch <= gcols x /\ gcols x < pcol x + cwidth ch /\
     grid_text x ch a = Ok (place (wrap_grid x (last_occupied x)) ch (cwidth ch) a)).
Proof. exact grid_text_cases. Qed.
Print Assumptions C05_cases.

Theorem C05_post : forall x ch a, grid_ok x -> post x (grid_text x ch a).
Proof. exact grid_text_post_c05. Qed.
Print Assumptions C05_post.

(* ---- screen level: only the current grid is replaced; the pen is not changed ---- *)
Theorem C05_scr_text : forall s ch, scr_text s ch = do y <- grid_text (cur s) ch (pen s); Ok (with_cur s y).
Proof. exact scr_text_eq. Qed.
Print Assumptions C05_scr_text.

Theorem C05_scr_text_pen : forall s ch s', scr_text s ch = Ok s' ->
  pen s' = pen s /\ spen s' = spen s /\ altmode s' = altmode s /\ grid_text (cur s) ch (pen s) = Ok (cur s') /\
  (if altmode s then g s' = g s else alt s' = alt s).
Proof. exact scr_text_pen. Qed.
Print Assumptions C05_scr_text_pen.

(* ---- WrappedScreen::print routing ---- *)
Theorem C05_print_c1 : forall s c, 128 <= c < 160 -> do_print s c = do_execute s c.
Proof. exact do_print_c1. Qed.
Print Assumptions C05_print_c1.
Theorem C05_print_repl : forall s, do_print s 65533 = Ok (s, [EUnhChar 65533]).
Proof. exact do_print_repl. Qed.
Print Assumptions C05_print_repl.
Theorem C05_print_text : forall s c, ~ (128 <= c < 160) -> c <> 65533 ->
  do_print s c = do s1 <- scr_text s c; Ok (s1, []).
Proof. exact do_print_text. Qed.
Print Assumptions C05_print_text.

(* ================================================================== *)
(* Non-vacuity: the theorems applied to concrete grids                 *)
(* ================================================================== *)
Definition red : attrs := set_fg (CIdx 1) dflt.
Definition g0 (rows cols : N) : grid :=
  match grid_new rows cols 0 with
  | Ok x => allocate_rows x
  | Panic _ => mkGrid 0 0 0 0 0 0 [] 0 0 false false [] 0 0
  end.
Fixpoint run (x : grid) (l : list N) (a : attrs) : res grid :=
  match l with [] => Ok x | ch :: t => do y <- grid_text x ch a; run y t a end.
Definition unw (r : res grid) : grid := match r with Ok x => x | Panic _ => g0 1 1 end.
(* cell = (text, wide, continuation, carries the pen `red`); row = (cells, wrapped); then cursor row, column *)
Definition view (x : grid) :=
  (map (fun r => (map (fun c => (ctext c, cwide c, ccont c, attrs_eqb (cattrs c) red)) (cells r), wrapped r)) (live x),
   prow x, pcol x).

Lemma g0_ok rows cols : 1 <= rows <= MAXDIM -> 1 <= cols <= MAXDIM -> grid_ok (g0 rows cols).
Proof.
  intros Hr Hc. unfold g0. destruct (grid_new_ok0 rows cols 0 Hr Hc) as (x & -> & O & _).
  apply allocate_rows_post. exact O.
Qed.
Lemma run_ok l : forall x a y, grid_ok x -> run x l a = Ok y -> grid_ok y.
Proof.
  induction l as [|ch t IH]; intros x a y H E; cbn [run] in E.
  - now inv E.
  - destruct (C05_post x ch a H) as (z & Ez & Oz & _). rewrite Ez in E. cbn [bind] in E. eauto.
Qed.
Lemma with_pcol_ok x c : grid_ok x -> c <= gcols x -> grid_ok (with_pcol x c).
Proof. intros (K & Hr & Hc) Hle. apply ok_with_pos; auto. Qed.
Ltac dims := unfold MAXDIM; lia.
Ltac printable := let E := fresh in intros [E _]; vm_compute in E; discriminate E.

(* 1. a wide character (U+4E16) at column 3 of 4, last column empty: it goes to the next line and the
      line left is NOT flagged wrapped *)
Example ex_wide_at_margin :
  let x := unw (run (g0 2 4) [97; 98; 99] red) in
  grid_ok x /\ cwidth 19990 = 2 /\ gcols x < pcol x + 2 /\ last_occupied x = false /\
  grid_text x 19990 red = Ok (place (wrap_grid x false) 19990 2 red) /\
  view (place (wrap_grid x false) 19990 2 red) =
    ([([([97], false, false, true); ([98], false, false, true); ([99], false, false, true); ([], false, false, false)], false);
      ([([19990], true, false, true); ([], false, true, false); ([], false, false, false); ([], false, false, false)], false)],
     1, 2).
Proof.
  cbv zeta.
  assert (grid_ok (unw (run (g0 2 4) [97; 98; 99] red))) as H.
  { apply (run_ok [97; 98; 99] (g0 2 4) red); [apply g0_ok; dims|vm_compute; reflexivity]. }
  split; [exact H|]. split; [vm_compute; reflexivity|]. split; [vm_compute; reflexivity|].
  split; [vm_compute; reflexivity|]. split; [|vm_compute; reflexivity].
  match goal with |- grid_text ?y _ _ = _ =>
    change (grid_text y 19990 red = Ok (place (wrap_grid y (last_occupied y)) 19990 (cwidth 19990) red)) end.
  apply C05_wraps; [exact H|printable|vm_compute; discriminate|vm_compute; discriminate|vm_compute; reflexivity].
Qed.

(* 2. the same after a full line (cursor in the pending-wrap column 4): the line left IS flagged *)
Example ex_wide_after_full_line :
  let x := unw (run (g0 2 4) [97; 98; 99; 100] red) in
  grid_ok x /\ pcol x = 4 /\ last_occupied x = true /\
  view (place (wrap_grid x (last_occupied x)) 19990 (cwidth 19990) red) =
    ([([([97], false, false, true); ([98], false, false, true); ([99], false, false, true); ([100], false, false, true)], true);
      ([([19990], true, false, true); ([], false, true, false); ([], false, false, false); ([], false, false, false)], false)],
     1, 2).
Proof.
  cbv zeta. split; [|repeat split; vm_compute; reflexivity].
  apply (run_ok [97; 98; 99; 100] (g0 2 4) red); [apply g0_ok; dims|vm_compute; reflexivity].
Qed.

(* 3. overwriting the FIRST half of a wide character: the second half becomes a space with the pen *)
Example ex_overwrite_first_half :
  let x := with_pcol (unw (run (g0 2 4) [19990] red)) 0 in
  grid_ok x /\ fw (cells (lrow x 0)) 0 = true /\
  grid_text x 120 red = Ok (place x 120 1 red) /\
  view (place x 120 1 red) =
    ([([([120], false, false, true); ([32], false, false, true); ([], false, false, false); ([], false, false, false)], false);
      ([([], false, false, false); ([], false, false, false); ([], false, false, false); ([], false, false, false)], false)],
     0, 1).
Proof.
  cbv zeta.
  assert (grid_ok (with_pcol (unw (run (g0 2 4) [19990] red)) 0)) as H.
  { apply with_pcol_ok; [|vm_compute; discriminate].
    apply (run_ok [19990] (g0 2 4) red); [apply g0_ok; dims|vm_compute; reflexivity]. }
  split; [exact H|]. split; [vm_compute; reflexivity|]. split; [|vm_compute; reflexivity].
  match goal with |- _ = Ok (place ?y _ _ _) => change (grid_text y 120 red = Ok (place y 120 (cwidth 120) red)) end.
  apply C05_fits; [exact H|printable|vm_compute; discriminate|vm_compute; discriminate].
Qed.

(* 4. overwriting the SECOND half: the first half becomes an empty cell with the pen *)
Example ex_overwrite_second_half :
  let x := with_pcol (unw (run (g0 2 4) [19990] red)) 1 in
  grid_ok x /\ fc (cells (lrow x 0)) 1 = true /\
  grid_text x 120 red = Ok (place x 120 1 red) /\
  view (place x 120 1 red) =
    ([([([], false, false, true); ([120], false, false, true); ([], false, false, false); ([], false, false, false)], false);
      ([([], false, false, false); ([], false, false, false); ([], false, false, false); ([], false, false, false)], false)],
     0, 2).
Proof.
  cbv zeta.
  assert (grid_ok (with_pcol (unw (run (g0 2 4) [19990] red)) 1)) as H.
  { apply with_pcol_ok; [|vm_compute; discriminate].
    apply (run_ok [19990] (g0 2 4) red); [apply g0_ok; dims|vm_compute; reflexivity]. }
  split; [exact H|]. split; [vm_compute; reflexivity|]. split; [|vm_compute; reflexivity].
  match goal with |- _ = Ok (place ?y _ _ _) => change (grid_text y 120 red = Ok (place y 120 (cwidth 120) red)) end.
  apply C05_fits; [exact H|printable|vm_compute; discriminate|vm_compute; discriminate].
Qed.

(* 5. a wide character over the second half of one wide character and the first half of the next *)
Example ex_wide_over_two_halves :
  let x := with_pcol (unw (run (g0 2 4) [19990; 19990] red)) 1 in
  grid_ok x /\
  view (place x 19990 2 red) =
    ([([([], false, false, true); ([19990], true, false, true); ([], false, true, false); ([], false, false, true)], false);
      ([([], false, false, false); ([], false, false, false); ([], false, false, false); ([], false, false, false)], false)],
     0, 3).
Proof.
  cbv zeta. split; [|vm_compute; reflexivity].
  apply with_pcol_ok; [|vm_compute; discriminate].
  apply (run_ok [19990; 19990] (g0 2 4) red); [apply g0_ok; dims|vm_compute; reflexivity].
Qed.

(* 6. a combining mark (U+0301) at column 0 after a wrap is appended to the last cell of the line above *)
Example ex_combining_after_wrap :
  let x := with_pcol (unw (run (g0 2 2) [97; 98; 99] red)) 0 in
  grid_ok x /\ wd 769 = Some 0 /\ zero_target x = Some (0, 1) /\
  grid_text x 769 red = Ok (append_cell x 0 1 769) /\
  view (append_cell x 0 1 769) =
    ([([([97], false, false, true); ([98; 769], false, false, true)], true);
      ([([99], false, false, true); ([], false, false, false)], false)], 1, 0).
Proof.
  cbv zeta.
  assert (grid_ok (with_pcol (unw (run (g0 2 2) [97; 98; 99] red)) 0)) as H.
  { apply with_pcol_ok; [|vm_compute; discriminate].
    apply (run_ok [97; 98; 99] (g0 2 2) red); [apply g0_ok; dims|vm_compute; reflexivity]. }
  split; [exact H|]. split; [vm_compute; reflexivity|]. split; [vm_compute; reflexivity|].
  split; [|vm_compute; reflexivity].
  rewrite (C05_zero _ 769 red H) by (vm_compute; reflexivity).
  replace (zero_target _) with (Some (0, 1)) by (vm_compute; reflexivity). reflexivity.
Qed.

(* 7. a zero-width character with nothing before it is dropped *)
Example ex_combining_dropped : zero_target (g0 2 2) = None /\ grid_text (g0 2 2) 769 red = Ok (g0 2 2).
Proof. split; vm_compute; reflexivity. Qed.

(* 8. "staying put": 3 rows, scroll region rows 0..1, cursor on row 2 after "ab"; printing "c" overwrites
      column 0 of the same line, and the line's wrap flag is false although its last column is occupied *)
Example ex_stay_put :
  let x := unw (run (with_pos (with_region (g0 3 2) 0 1) 2 0) [97; 98] red) in
  grid_ok x /\ in_scroll_region x = false /\ prow x + 1 = grows x /\ last_occupied x = true /\
  view (place (wrap_grid x (last_occupied x)) 99 (cwidth 99) red) =
    ([([([], false, false, false); ([], false, false, false)], false);
      ([([], false, false, false); ([], false, false, false)], false);
      ([([99], false, false, true); ([98], false, false, true)], false)], 2, 1).
Proof.
  cbv zeta. split; [|repeat split; vm_compute; reflexivity].
  apply (run_ok [97; 98] (with_pos (with_region (g0 3 2) 0 1) 2 0) red); [|vm_compute; reflexivity].
  assert (grid_ok (g0 3 2)) as (K & _) by (apply g0_ok; dims).
  apply ok_with_pos; [|vm_compute; reflexivity|vm_compute; discriminate].
  apply okc_with_region; [exact K|vm_compute; reflexivity|left; lia].
Qed.

(* 9. wrapping at the bottom margin scrolls; the line left moves up and is flagged *)
Example ex_wrap_scroll :
  let x := unw (run (with_pos (g0 2 2) 1 0) [97; 98] red) in
  grid_ok x /\ in_scroll_region x = true /\ prow x = bot x /\
  view (place (wrap_grid x (last_occupied x)) 99 (cwidth 99) red) =
    ([([([97], false, false, true); ([98], false, false, true)], true);
      ([([99], false, false, true); ([], false, false, false)], false)], 1, 1).
Proof.
  cbv zeta. split; [|repeat split; vm_compute; reflexivity].
  apply (run_ok [97; 98] (with_pos (g0 2 2) 1 0) red); [|vm_compute; reflexivity].
  assert (grid_ok (g0 2 2)) as (K & _) by (apply g0_ok; dims).
  apply ok_with_pos; [exact K|vm_compute; reflexivity|vm_compute; discriminate].
Qed.

(* 10. finding W1: U+17D8 has width Some(3) in unicode-width 0.2.2, the table maps it to None, and the
       model prints it as a narrow character *)
Example ex_U17D8 : wd 6104 = Some 2 /\ cwidth 6104 = 2 /\ grid_text (g0 2 4) 6104 red = Ok (place (g0 2 4) 6104 2 red).
Proof. vm_compute. auto. Qed.

Print Assumptions ex_wide_at_margin.
Print Assumptions ex_overwrite_first_half.
Print Assumptions ex_overwrite_second_half.
Print Assumptions ex_combining_after_wrap.
Print Assumptions ex_stay_put.
Print Assumptions ex_wrap_scroll.
