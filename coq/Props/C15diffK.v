(* C15diffK — the rows_diff clause of C15 at full width with soft-wrapped rows allowed (see
   DiffWindowK.v): every row gets the current cells; rows not flagged in the current screen end
   unflagged. *)
Require Import Tac ListN Utf8 Width Attrs Cell Row Grid Screen Vte Perform Term Emit
  RowInv GridInv TextInv ScreenInv ParseSer CellWf WfGrid WfVte WfInv EraseSpec SgrSpec MoveSpec PrintSpec
  CellBytes EmitSafe WrapInv WrapInvScreen ObsSpec Recv RowPaint Redraw Cursor C01Main C15Main
  DiffPaint DiffGrid DiffMain DiffWrap DiffWindowK.
Open Scope N_scope.

Theorem C15diffK_full_done_def : forall ri src, full_done ri src <->
  (cells ri = cells src /\ (wrapped src = false -> wrapped ri = false)).
Proof. intros. reflexivity. Qed.
Print Assumptions C15diffK_full_done_def.

Theorem C15diffK_full : forall S P R vr pvr toks,
  source_ok S vr -> source_ok P pvr ->
  grows (cur S) = grows (cur P) -> gcols (cur S) = gcols (cur P) ->
  canvas R -> grows (g R) = grows (cur P) -> gcols (g R) = gcols (cur P) -> live (g R) = pvr ->
  rows_diff_t S P 0 (gcols (cur S)) = Ok toks ->
  exists R', play false R (window_protocol 0 0 toks) = Ok (R', []) /\ canvas R' /\
    grows (g R') = grows (g R) /\ gcols (g R') = gcols (g R) /\
    forall i, i < grows (cur S) -> exists ri src,
      get (live (g R')) i = Some ri /\ get vr i = Some src /\ full_done ri src.
Proof. exact C15_diff_full_K. Qed.
Print Assumptions C15diffK_full.
