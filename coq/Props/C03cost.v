(* C03 (cost clause) — "No single control sequence stalls processing: its cost does
   not grow with parameter values beyond the screen dimensions."

   CPU seconds cannot be proved.  What is proved is a bound on an ABSTRACT WORK
   MEASURE OF THE MODEL: [action_cost rz s a] is the counter of [perform_c], a copy
   of the model's [perform] written in a cost-counting monad (CostMonad.v /
   CostModel.v) in which every loop of the model ([iter_res], [for_range], [map],
   [fold_params], [sgr_loop]) is replaced by its counting twin with the same
   iteration-count expression and the same step, and the Vec primitives are
   charged the number of cells / row pointers they move (table in CostModel.v).
   [C03cost_tied] is the proof that the instrumented program is the model.
   The relation of these units to CPU time of the Rust crate is MEASURED by the
   test oracle (CPU-time cost oracle), not proved.

   Notation: R = grows (g s), C = gcols (g s);
     line_cost R C  = 2R + C + 1                 (one IL / SD iteration)
     base_bound R C = 33RC + 2R^2 + 2C^2 + 4R + 4C + 128
     resize_bound R C = 2RC + 1030R + 525314     (harness resize policy only)
   Proofs are in CostSpec.v and CostParser.v. *)
Require Import Tac ListN Grid Screen Vte Perform GridInv ScreenInv
  CostMonad CostModel CostGrid CostSpec CostParser.
Open Scope N_scope.

(* ---- the measure is tied to the model ---- *)

(* erasing the counter of the instrumented dispatcher gives the model's [perform]:
   same result, same panics, hence the same number of loop iterations *)
Theorem C03cost_tied : forall rz s a, fst (perform_c rz s a) = perform rz s a.
Proof. exact fst_perform_c. Qed.

(* the counting loop erases to the model loop ... *)
Theorem C03cost_iter_erase : forall A (f : A -> cres A) (h : A -> res A) n a,
  (forall a, fst (f a) = h a) -> fst (iter_c n f a) = iter_res n h a.
Proof. intros A f h n a H. now apply fst_iter_c_model. Qed.
(* ... and, when every step is charged k, its counter is k * (number of iterations)
   whenever the loop does not panic *)
Theorem C03cost_iter_count : forall A (f : A -> cres A) k n,
  (forall a, snd (f a) = k) ->
  forall a b, fst (iter_c n f a) = Ok b -> snd (iter_c n f a) = N.of_nat n * k.
Proof. exact @iter_c_count. Qed.

(* ---- 1. the bound ---- *)

(* every action with at most 32 parameters whose first parameter is a u16 (both hold
   for everything the parser delivers, C03cost_parser below) costs at most
   65535 * (2R + C + 1) + base_bound R C; the only term that involves a parameter
   value is the first one, and it comes from IL / SD only (item 2) *)
Theorem C03cost_bound : forall s a,
  screen_ok s -> params_ok a -> first_param a <= 65535 ->
  action_cost false s a <=
  65535 * line_cost (grows (g s)) (gcols (g s)) + base_bound (grows (g s)) (gcols (g s)).
Proof. exact cost_bound. Qed.

(* same, with the actual parameter n instead of 65535 *)
Theorem C03cost_bound_n : forall s a, screen_ok s -> params_ok a ->
  action_cost false s a <=
  first_param a * line_cost (grows (g s)) (gcols (g s)) + base_bound (grows (g s)) (gcols (g s)).
Proof. exact cost_bound_n. Qed.

(* ---- 2. parameter independence ---- *)

(* every action other than IL (CSI n L) and SD (CSI n T) is bounded by the screen
   dimensions alone: NO hypothesis on parameter values, only on their number *)
Theorem C03cost_param_free : forall s a,
  screen_ok s -> params_ok a -> is_il_sd a = false ->
  action_cost false s a <= base_bound (grows (g s)) (gcols (g s)).
Proof. exact cost_param_free. Qed.

(* IL and SD cost EXACTLY 1 + n * (2R + C + 1), n the canonicalised parameter: their loop
   runs n times without clamping (remove a row pointer: R, allocate a row: C, insert
   it: R, clear a flag: 1) *)
Theorem C03cost_il : forall rz s ps ig, screen_ok s ->
  action_cost rz s (ACsi ps [] ig 76) = 1 + canon1 ps 1 * line_cost (grows (g s)) (gcols (g s)).
Proof. exact cost_il. Qed.
Theorem C03cost_sd : forall rz s ps ig, screen_ok s ->
  action_cost rz s (ACsi ps [] ig 84) = 1 + canon1 ps 1 * line_cost (grows (g s)) (gcols (g s)).
Proof. exact cost_sd. Qed.

(* ---- 3. ICH and the D3 repair ---- *)

(* the repaired loop runs k = min(count, C - pcol) times on a row that grows from C to
   C + k cells before it is truncated *)
Theorem C03cost_ich_iterations : forall x n, grid_ok x ->
  snd (insert_cells_c x n) <=
  N.min n (gcols x - pcol x) * (gcols x + N.min n (gcols x - pcol x) + 4) + 2.
Proof. exact insert_cells_cost_k. Qed.
Theorem C03cost_ich : forall rz s ps ig, screen_ok s ->
  action_cost rz s (ACsi ps [] ig 64) <= 2 * gcols (g s) * gcols (g s) + 4 * gcols (g s) + 3.
Proof. exact ich_cost. Qed.
Theorem C03cost_ich_132 : forall x n, grid_ok x -> gcols x <= 132 -> snd (insert_cells_c x n) <= 35378.
Proof. exact ich_new_cost_132. Qed.

(* the unrepaired function ([insert_cells_old]: `count` iterations, then truncate) erases
   to its model ... *)
Theorem C03cost_ich_old_tied : forall x n, fst (insert_cells_old_c x n) = insert_cells_old x n.
Proof. exact fst_insert_cells_old_c. Qed.
(* ... and n iterations cost at least n (C+1) + n (n-1) / 2 *)
Theorem C03cost_ich_old_refuted : forall x n, grid_ok x -> pcol x < gcols x ->
  2 * n * (gcols x + 1) + n * n <= 2 * snd (insert_cells_old_c x n) + n.
Proof. exact ich_old_cost. Qed.
(* ESC [ 65535 @ : more than 2.1 * 10^9 units on any screen (>= 65535 * C in particular) *)
Theorem C03cost_ich_old_65535 : forall x, grid_ok x -> pcol x < gcols x ->
  65535 * gcols x + 2147450880 <= snd (insert_cells_old_c x 65535).
Proof. exact ich_old_cost_65535. Qed.

(* ---- 4. numbers ---- *)
Theorem C03cost_numeric : forall s a,
  screen_ok s -> params_ok a -> first_param a <= 65535 ->
  grows (g s) <= 50 -> gcols (g s) <= 132 -> action_cost false s a <= 15600000.
Proof. exact cost_numeric. Qed.
Theorem C03cost_numeric_transposed : forall s a,
  screen_ok s -> params_ok a -> first_param a <= 65535 ->
  grows (g s) <= 132 -> gcols (g s) <= 50 -> action_cost false s a <= 21000000.
Proof. exact cost_numeric_transposed. Qed.
Theorem C03cost_numeric_param_free : forall s a,
  screen_ok s -> params_ok a -> is_il_sd a = false ->
  grows (g s) <= 132 -> gcols (g s) <= 132 -> action_cost false s a <= 650000.
Proof. exact cost_numeric_param_free. Qed.

(* ---- the hypotheses hold for the parser's output ---- *)

(* [pb] (at most 32 accumulated parameters, all u16) holds initially and is preserved;
   every delivered action satisfies params_ok and first_param <= 65535 *)
Theorem C03cost_parser_init : pb p_init.
Proof. exact pb_init. Qed.
Theorem C03cost_parser : forall p bs, pb p ->
  pb (fst (advance p bs)) /\
  Forall (fun a => params_ok a /\ first_param a <= 65535) (snd (advance p bs)).
Proof. exact advance_bounded. Qed.
Theorem C03cost_parsed_action : forall p bs s a,
  pb p -> In a (snd (advance p bs)) -> screen_ok s ->
  action_cost false s a <=
  65535 * line_cost (grows (g s)) (gcols (g s)) + base_bound (grows (g s)) (gcols (g s)).
Proof. exact parsed_action_cost. Qed.

(* ---- the harness's resize policy ---- *)

(* with rz = true, CSI 8 ; r ; c t makes the application callback call Screen::set_size
   (r, c <= 512 enforced by the policy); nothing else changes, and the extra cost is at
   most resize_bound R C *)
Theorem C03cost_resize : forall s a, screen_ok s ->
  action_cost true s a <= action_cost false s a + resize_bound (grows (g s)) (gcols (g s)).
Proof. exact cost_resize. Qed.

Print Assumptions C03cost_tied.
Print Assumptions C03cost_iter_erase.
Print Assumptions C03cost_iter_count.
Print Assumptions C03cost_bound.
Print Assumptions C03cost_bound_n.
Print Assumptions C03cost_param_free.
Print Assumptions C03cost_il.
Print Assumptions C03cost_sd.
Print Assumptions C03cost_ich_iterations.
Print Assumptions C03cost_ich.
Print Assumptions C03cost_ich_132.
Print Assumptions C03cost_ich_old_tied.
Print Assumptions C03cost_ich_old_refuted.
Print Assumptions C03cost_ich_old_65535.
Print Assumptions C03cost_numeric.
Print Assumptions C03cost_numeric_transposed.
Print Assumptions C03cost_numeric_param_free.
Print Assumptions C03cost_parser_init.
Print Assumptions C03cost_parser.
Print Assumptions C03cost_parsed_action.
Print Assumptions C03cost_resize.
