(* C08 — insert / delete / scroll.
   "ICH and DCH shift the cells from the cursor to the end of the line right or left by n, dropping what
   is pushed past the edge and filling with default blanks, without touching other lines or the cells left
   of the cursor (except the first half of a wide character whose second half is deleted).  IL and DL
   (cursor inside the scroll region), SU, SD, LF at the bottom margin and RI at the top margin shift the
   lines between the cursor (or top margin) and the bottom margin by n, filling with blank default lines;
   lines outside the scroll region are never modified and the cursor does not move apart from LF/RI's own
   step.  A wide character split by an insert, delete or the line end is blanked rather than left
   half-present."   (IL/DL with the cursor outside the region and RI on line 0 above an active region are
   outside the contract.)

   Part 1: the k-fold loops of grid.rs equal ONE shift (closed forms, equations on the whole grid).
   Part 2: what the closed forms mean, index by index (the property as worded above).
   Part 3: the screen-level operations.   Part 4: worked examples (non-vacuity). *)
Require Import Tac ListN Attrs Cell Row Grid Screen RowInv GridInv ScreenInv ShiftSpec ShiftExamples.
Open Scope N_scope.

(* ================================================================== *)
(* Part 0: the vocabulary of the closed forms, index by index          *)
(* ================================================================== *)

(* shift_down blank l a b m : lines a..b of l moved down by m, m blanks at a *)
Theorem C08_get_shift_down : forall blank l a b m j, a <= b -> b < len l -> m <= b + 1 - a ->
  get (shift_down blank l a b m) j =
  if j <? a then get l j else if j <? a + m then Some blank else if j <=? b then get l (j - m) else get l j.
Proof. exact get_shift_down. Qed.
Print Assumptions C08_get_shift_down.

(* shift_up blank l a b m : lines a..b of l moved up by m, m blanks at the end of a..b *)
Theorem C08_get_shift_up : forall blank l a b m j, a <= b -> b < len l -> m <= b + 1 - a ->
  get (shift_up blank l a b m) j =
  if j <? a then get l j else if j <? b + 1 - m then get l (j + m) else if j <=? b then Some blank else get l j.
Proof. exact get_shift_up. Qed.
Print Assumptions C08_get_shift_up.

(* clear_wrap_at l i : line i loses its wrap flag, cells untouched *)
Theorem C08_get_clear_wrap_at : forall l i j,
  get (clear_wrap_at l i) j = if j =? i then option_map (row_wrap false) (get l i) else get l j.
Proof. exact get_clear_wrap_at. Qed.
Print Assumptions C08_get_clear_wrap_at.

(* down_form: n iterations of (remove line b; insert blank at a; clear the wrap flag of line b) *)
Theorem C08_down_form_def : forall blank l a b n,
  down_form blank l a b n =
  if n =? 0 then l else clear_wrap_at (shift_down blank l a b (N.min n (b + 1 - a))) b.
Proof. reflexivity. Qed.

(* the two relations used in Part 2, spelled out *)
Theorem C08_lines_down_def : forall cols l l' a b m clr,
  lines_down cols l l' a b m clr <->
  (len l' = len l /\
   (forall j, j < a \/ b < j -> get l' j = get l j) /\
   (forall j, a <= j < a + m -> get l' j = Some (row_new cols)) /\
   (forall j, a + m <= j <= b ->
      get l' j = option_map (fun r => if clr && (j =? b) then row_wrap false r else r) (get l (j - m)))).
Proof. intros. reflexivity. Qed.
Theorem C08_lines_up_def : forall cols l l' a b m,
  lines_up cols l l' a b m <->
  (len l' = len l /\
   (forall j, j < a \/ b < j -> get l' j = get l j) /\
   (forall j, a <= j -> j + m <= b -> get l' j = get l (j + m)) /\
   (forall j, a <= j -> b < j + m -> j <= b -> get l' j = Some (row_new cols))).
Proof. intros. reflexivity. Qed.

(* cells of the cursor row after DCH, k >= 1 (k = 0: dch_cells cs c 0 = cs) *)
Theorem C08_get_dch_cells : forall cs c k j, 1 <= k -> c + k <= len cs ->
  get (dch_cells cs c k) j =
  if j <? c then (if (j =? c - 1) && fc cs c then option_map clear_own (get cs j) else get cs j)
  else if j <? len cs - k then
         (if (j =? c) && fc cs (c + k) then option_map clear_own (get cs (j + k)) else get cs (j + k))
  else if j <? len cs then Some cell_new else None.
Proof. exact get_dch_cells. Qed.
Print Assumptions C08_get_dch_cells.

(* cells of the cursor row after ICH, k >= 1 (k = 0: ich_cells cs c 0 = cs on a well-paired row) *)
Theorem C08_get_ich_cells : forall cs c k j, c < len cs -> 1 <= k ->
  get (ich_cells cs c k) j =
  if j <? c then get cs j
  else if j <? c + k then (if j <? len cs then Some (if (j =? c) && fc cs c then cont_blank else cell_new) else None)
  else if j <? len cs then option_map (ich_moved cs c k j) (get cs (j - k)) else None.
Proof. exact get_ich_cells. Qed.
Print Assumptions C08_get_ich_cells.

Theorem C08_ich_moved_def : forall cs c k j x,
  ich_moved cs c k j x =
  let x1 := if (j =? c + k) && fc cs c then cell_set_cont false x else x in
  if (j =? len cs - 1) && cwide x1 then clear_own x1 else x1.
Proof. reflexivity. Qed.

Theorem C08_ich_moved_same : forall cs c k j x,
  j <> c + k \/ fc cs c = false -> j <> len cs - 1 \/ cwide x = false -> ich_moved cs c k j x = x.
Proof. exact ich_moved_same. Qed.
Print Assumptions C08_ich_moved_same.

Theorem C08_same_shape_def : forall x y,
  same_shape x y <->
  (grows y = grows x /\ gcols y = gcols x /\ prow y = prow x /\ pcol y = pcol x /\
   sprow y = sprow x /\ spcol y = spcol x /\ top y = top x /\ bot y = bot x /\
   origin y = origin x /\ sorigin y = sorigin x /\ sb_cap y = sb_cap x).
Proof. intros. reflexivity. Qed.

Theorem C08_k0_cells : forall cs c, dch_cells cs c 0 = cs /\ (cells_ok cs -> ich_cells cs c 0 = cs).
Proof. intros cs c. split; [apply dch_cells_0|apply ich_cells_0]. Qed.
Print Assumptions C08_k0_cells.

(* ================================================================== *)
(* Part 1: closed forms                                                *)
(* ================================================================== *)

(* SD n, any n (also 65535) *)
Theorem C08_SD_closed : forall x n, grid_ok x ->
  scroll_down x n = Ok (with_live x (down_form (row_new (gcols x)) (live x) (top x) (bot x) n)).
Proof. exact scroll_down_closed. Qed.
Print Assumptions C08_SD_closed.

(* IL n, cursor row inside the scroll region *)
Theorem C08_IL_closed : forall x n, grid_ok x -> top x <= prow x <= bot x ->
  insert_lines x n = Ok (with_live x (down_form (row_new (gcols x)) (live x) (prow x) (bot x) n)).
Proof. exact insert_lines_closed. Qed.
Print Assumptions C08_IL_closed.

(* DL n, cursor row inside the scroll region.  The loop runs min n (rows - prow) times, possibly more than
   the height of [prow, bot]; the result is still the shift by min n (bot + 1 - prow) *)
Theorem C08_DL_closed : forall x n, grid_ok x -> top x <= prow x <= bot x ->
  delete_lines x n =
  Ok (with_live x (shift_up (row_new (gcols x)) (live x) (prow x) (bot x) (N.min n (bot x + 1 - prow x)))).
Proof. exact delete_lines_closed. Qed.
Print Assumptions C08_DL_closed.

(* SU n.  The loop runs min n (rows - top) times; only the live lines and the scrollback change *)
Theorem C08_SU_closed : forall x n y, grid_ok x -> scroll_up x n = Ok y ->
  live y = shift_up (row_new (gcols x)) (live x) (top x) (bot x) (N.min n (bot x + 1 - top x)) /\
  (grows y = grows x /\ gcols y = gcols x /\ prow y = prow x /\ pcol y = pcol x /\
   sprow y = sprow x /\ spcol y = spcol x /\ top y = top x /\ bot y = bot x /\
   origin y = origin x /\ sorigin y = sorigin x /\ sb_cap y = sb_cap x).
Proof. exact scroll_up_closed. Qed.
Print Assumptions C08_SU_closed.

(* LF / VT / FF *)
Theorem C08_LF_closed : forall x, grid_ok x ->
  row_inc_scroll x 1 =
  if in_scroll_region x then
    if prow x =? bot x then (do y <- scroll_up x 1; Ok (y, 1))
    else Ok (with_prow x (prow x + 1), 0)
  else if prow x <? grows x - 1 then Ok (with_prow x (prow x + 1), 0)
  else Ok (x, 0).
Proof. exact lf_closed. Qed.
Print Assumptions C08_LF_closed.

(* RI; the last branch (line 0 above an active region) is outside the contract *)
Theorem C08_RI_closed : forall x, grid_ok x ->
  row_dec_scroll x 1 =
  if in_scroll_region x then
    if prow x =? top x then scroll_down x 1
    else Ok (with_prow x (prow x - 1))
  else if 0 <? prow x then Ok (with_prow x (prow x - 1))
  else scroll_down x 1.
Proof. exact ri_closed. Qed.
Print Assumptions C08_RI_closed.

(* DCH n, cursor column <= cols *)
Theorem C08_DCH_closed : forall x n rw, grid_ok x -> get (live x) (prow x) = Some rw ->
  delete_cells x n =
  Ok (with_live x (set_at (live x) (prow x)
        (mkRow (dch_cells (cells rw) (pcol x) (N.min n (gcols x - pcol x))) false))).
Proof. exact delete_cells_closed. Qed.
Print Assumptions C08_DCH_closed.

(* ICH n, cursor column <= cols *)
Theorem C08_ICH_closed : forall x n rw, grid_ok x -> get (live x) (prow x) = Some rw ->
  insert_cells x n =
  Ok (with_live x (set_at (live x) (prow x)
        (mkRow (ich_cells (cells rw) (pcol x) (N.min n (gcols x - pcol x))) false))).
Proof. exact insert_cells_closed. Qed.
Print Assumptions C08_ICH_closed.

(* ================================================================== *)
(* Part 2: the property                                                *)
(* ================================================================== *)

(* y = with_live x (live y) says: nothing but the live lines changed (cursor, margins, modes, scrollback) *)

Theorem C08_SD : forall x n, grid_ok x ->
  exists y, scroll_down x n = Ok y /\ y = with_live x (live y) /\
    lines_down (gcols x) (live x) (live y) (top x) (bot x) (N.min n (bot x + 1 - top x)) (0 <? n).
Proof. exact sd_spec. Qed.
Print Assumptions C08_SD.

Theorem C08_IL : forall x n, grid_ok x -> top x <= prow x <= bot x ->
  exists y, insert_lines x n = Ok y /\ y = with_live x (live y) /\
    lines_down (gcols x) (live x) (live y) (prow x) (bot x) (N.min n (bot x + 1 - prow x)) (0 <? n).
Proof. exact il_spec. Qed.
Print Assumptions C08_IL.

Theorem C08_DL : forall x n, grid_ok x -> top x <= prow x <= bot x ->
  exists y, delete_lines x n = Ok y /\ y = with_live x (live y) /\
    lines_up (gcols x) (live x) (live y) (prow x) (bot x) (N.min n (bot x + 1 - prow x)).
Proof. exact dl_spec. Qed.
Print Assumptions C08_DL.

Theorem C08_SU : forall x n, grid_ok x ->
  exists y, scroll_up x n = Ok y /\ grid_ok y /\ same_shape x y /\
    lines_up (gcols x) (live x) (live y) (top x) (bot x) (N.min n (bot x + 1 - top x)).
Proof. exact su_spec. Qed.
Print Assumptions C08_SU.

Theorem C08_LF : forall x, grid_ok x ->
  (top x <= prow x -> prow x = bot x ->
     exists y, row_inc_scroll x 1 = Ok (y, 1) /\ grid_ok y /\ same_shape x y /\
       lines_up (gcols x) (live x) (live y) (top x) (bot x) 1) /\
  ((top x <= prow x < bot x) \/ ((prow x < top x \/ bot x < prow x) /\ prow x < grows x - 1) ->
     row_inc_scroll x 1 = Ok (with_prow x (prow x + 1), 0)) /\
  (bot x < prow x -> prow x = grows x - 1 -> row_inc_scroll x 1 = Ok (x, 0)).
Proof. exact lf_spec. Qed.
Print Assumptions C08_LF.

Theorem C08_RI : forall x, grid_ok x ->
  (prow x = top x ->
     exists y, row_dec_scroll x 1 = Ok y /\ y = with_live x (live y) /\
       lines_down (gcols x) (live x) (live y) (top x) (bot x) 1 true) /\
  (prow x <> top x -> 0 < prow x -> row_dec_scroll x 1 = Ok (with_prow x (prow x - 1))).
Proof. exact ri_spec. Qed.
Print Assumptions C08_RI.

Theorem C08_DCH : forall x n rw, grid_ok x -> get (live x) (prow x) = Some rw ->
  let cs := cells rw in let c := pcol x in let cols := gcols x in let k := N.min n (cols - c) in
  exists rw', delete_cells x n = Ok (with_live x (set_at (live x) (prow x) rw')) /\
    wrapped rw' = false /\ row_ok cols rw' /\
    (k = 0 -> cells rw' = cs) /\
    (1 <= k ->
       (forall j, j < c -> j + 1 <> c \/ fc cs c = false -> get (cells rw') j = get cs j) /\
       (fc cs c = true -> get (cells rw') (c - 1) = option_map clear_own (get cs (c - 1))) /\
       (forall j, c <= j -> j + k < cols -> j <> c \/ fc cs (c + k) = false -> get (cells rw') j = get cs (j + k)) /\
       (fc cs (c + k) = true -> get (cells rw') c = option_map clear_own (get cs (c + k))) /\
       (forall j, cols <= j + k -> j < cols -> get (cells rw') j = Some cell_new)).
Proof. exact dch_spec. Qed.
Print Assumptions C08_DCH.

Theorem C08_ICH : forall x n rw, grid_ok x -> get (live x) (prow x) = Some rw -> pcol x < gcols x ->
  let cs := cells rw in let c := pcol x in let cols := gcols x in let k := N.min n (cols - c) in
  exists rw', insert_cells x n = Ok (with_live x (set_at (live x) (prow x) rw')) /\
    wrapped rw' = false /\ row_ok cols rw' /\
    (k = 0 -> cells rw' = cs) /\
    (1 <= k ->
       (forall j, j < c -> get (cells rw') j = get cs j) /\
       get (cells rw') c = Some (if fc cs c then cont_blank else cell_new) /\
       (forall j, c < j < c + k -> get (cells rw') j = Some cell_new) /\
       (forall j, c + k <= j < cols -> get (cells rw') j = option_map (ich_moved cs c k j) (get cs (j - k)))).
Proof. exact ich_spec. Qed.
Print Assumptions C08_ICH.

(* pending wrap (cursor column = cols) or a count of 0: no cell changes; both clear the wrap flag *)
Theorem C08_ICH_DCH_k0 : forall x n rw, grid_ok x -> get (live x) (prow x) = Some rw ->
  N.min n (gcols x - pcol x) = 0 ->
  insert_cells x n = Ok (with_live x (set_at (live x) (prow x) (row_wrap false rw))) /\
  delete_cells x n = Ok (with_live x (set_at (live x) (prow x) (row_wrap false rw))).
Proof. exact ich_dch_k0. Qed.
Print Assumptions C08_ICH_DCH_k0.

Theorem C08_ICH_DCH_pending_wrap : forall x n rw, grid_ok x -> get (live x) (prow x) = Some rw ->
  pcol x = gcols x ->
  insert_cells x n = Ok (with_live x (set_at (live x) (prow x) (row_wrap false rw))) /\
  delete_cells x n = Ok (with_live x (set_at (live x) (prow x) (row_wrap false rw))).
Proof. exact ich_dch_pending_wrap. Qed.
Print Assumptions C08_ICH_DCH_pending_wrap.

(* other lines and the cursor *)
Theorem C08_ICH_DCH_frame : forall x n y, grid_ok x -> insert_cells x n = Ok y \/ delete_cells x n = Ok y ->
  y = with_live x (live y) /\ len (live y) = len (live x) /\
  prow y = prow x /\ pcol y = pcol x /\
  (forall j, j <> prow x -> get (live y) j = get (live x) j).
Proof. exact ich_dch_frame. Qed.
Print Assumptions C08_ICH_DCH_frame.

(* outside the contract, for the record *)
Theorem C08_RI_row0_above_region : forall x, grid_ok x -> prow x = 0 -> 0 < top x ->
  row_dec_scroll x 1 = scroll_down x 1.
Proof. exact ri_row0_above_region. Qed.
Print Assumptions C08_RI_row0_above_region.

(* ================================================================== *)
(* Part 3: screen level                                                *)
(* ================================================================== *)

(* CSI L/M/S/T/@/P, LF and RI are the grid operations applied to the current grid ... *)
Theorem C08_scr_ops : forall s n,
  scr_il s n = on_cur s (fun x => insert_lines x n) /\
  scr_dl s n = on_cur s (fun x => delete_lines x n) /\
  scr_su s n = on_cur s (fun x => scroll_up x n) /\
  scr_sd s n = on_cur s (fun x => scroll_down x n) /\
  scr_ich s n = on_cur s (fun x => insert_cells x n) /\
  scr_dch s n = on_cur s (fun x => delete_cells x n) /\
  scr_lf s = on_cur s (fun x => do '(x1, _) <- row_inc_scroll x 1; Ok x1) /\
  scr_ri s = on_cur s (fun x => row_dec_scroll x 1).
Proof. exact scr_ops_on_cur. Qed.

(* ... and such an operation replaces the current grid (which satisfies grid_ok) and nothing else *)
Theorem C08_on_cur : forall s f s', on_cur s f = Ok s' <-> exists y, f (cur s) = Ok y /\ s' = with_cur s y.
Proof.
  intros s f s'. split; [apply on_cur_inv|]. intros (y & E & ->). now apply on_cur_ok.
Qed.
Print Assumptions C08_on_cur.

Theorem C08_with_cur : forall s y,
  cur (with_cur s y) = y /\ noncur (with_cur s y) = noncur s /\ altmode (with_cur s y) = altmode s /\
  pen (with_cur s y) = pen s /\ spen (with_cur s y) = spen s /\ keypad (with_cur s y) = keypad s /\
  appcur (with_cur s y) = appcur s /\ hide (with_cur s y) = hide s /\ paste (with_cur s y) = paste s /\
  mmode (with_cur s y) = mmode s /\ menc (with_cur s y) = menc s.
Proof. exact with_cur_spec. Qed.
Print Assumptions C08_with_cur.

Theorem C08_cur_ok : forall s, screen_ok s -> grid_ok (cur s).
Proof. exact cur_ok. Qed.
Print Assumptions C08_cur_ok.

(* two instances spelled out *)
Theorem C08_scr_il : forall s n, screen_ok s -> top (cur s) <= prow (cur s) <= bot (cur s) ->
  exists y, scr_il s n = Ok (with_cur s y) /\ y = with_live (cur s) (live y) /\
    lines_down (gcols (cur s)) (live (cur s)) (live y) (prow (cur s)) (bot (cur s))
               (N.min n (bot (cur s) + 1 - prow (cur s))) (0 <? n).
Proof.
  intros s n Hs Hin. destruct (il_spec (cur s) n (cur_ok _ Hs) Hin) as (y & E & Ey & L).
  exists y. split; [|split; assumption]. unfold scr_il. now apply on_cur_ok.
Qed.
Print Assumptions C08_scr_il.

Theorem C08_scr_lf_bottom : forall s, screen_ok s ->
  top (cur s) <= prow (cur s) -> prow (cur s) = bot (cur s) ->
  exists y, scr_lf s = Ok (with_cur s y) /\ grid_ok y /\ same_shape (cur s) y /\
    lines_up (gcols (cur s)) (live (cur s)) (live y) (top (cur s)) (bot (cur s)) 1.
Proof.
  intros s Hs Ht Eb. destruct (lf_spec (cur s) (cur_ok _ Hs)) as (A & _).
  destruct (A Ht Eb) as (y & E & Oy & S & L). exists y. split; [|auto].
  unfold scr_lf. apply on_cur_ok. rewrite E. reflexivity.
Qed.
Print Assumptions C08_scr_lf_bottom.

(* ================================================================== *)
(* Part 4: examples (the hypotheses are satisfiable; concrete behaviour) *)
(* ================================================================== *)

(* rowA = [W; C; a; W; C; b] with W a red wide character and C its continuation cell *)
Example C08_example_grids_ok : (forall col, col <= 6 -> grid_ok (g6 rowA col)) /\ (forall r, r < 5 -> grid_ok (g5 r)).
Proof. split; [exact g6_rowA_ok|exact g5_ok]. Qed.
Print Assumptions C08_example_grids_ok.

Example C08_example_dch :
  delete_cells (g6 rowA 1) 3 =
  Ok (with_live (g6 rowA 1)
        [mkRow [bl red; bl red; ch 98; cell_new; cell_new; cell_new] false; mkRow (repeatN (ch 122) 6) true]).
Proof. exact dch_example. Qed.

Example C08_example_ich :
  insert_cells (g6 rowA 1) 2 =
  Ok (with_live (g6 rowA 1)
        [mkRow [W; cont_blank; cell_new; bl red; ch 97; bl red] false; mkRow (repeatN (ch 122) 6) true]).
Proof. exact ich_example. Qed.

(* 5 lines a..e, region = lines 1..3, all wrapped; SU by rows - top = 4 > region height leaves line 4 alone *)
Example C08_example_su :
  scroll_up (g5 0) 1 = Ok (with_live (g5 0) [ln 97; ln 99; ln 100; blank1; ln 101]) /\
  scroll_up (g5 0) 4 = Ok (with_live (g5 0) [ln 97; blank1; blank1; blank1; ln 101]) /\
  scroll_up (g5 0) 65535 = Ok (with_live (g5 0) [ln 97; blank1; blank1; blank1; ln 101]).
Proof. exact su_example. Qed.

Example C08_example_sd :
  scroll_down (g5 0) 1 = Ok (with_live (g5 0) [ln 97; blank1; ln 98; mkRow [ch 99] false; ln 101]) /\
  scroll_down (g5 0) 65535 = Ok (with_live (g5 0) [ln 97; blank1; blank1; blank1; ln 101]).
Proof. exact sd_example. Qed.

Example C08_example_il_dl :
  insert_lines (g5 2) 1 = Ok (with_live (g5 2) [ln 97; ln 98; blank1; mkRow [ch 99] false; ln 101]) /\
  delete_lines (g5 2) 1 = Ok (with_live (g5 2) [ln 97; ln 98; ln 100; blank1; ln 101]) /\
  delete_lines (g5 2) 3 = Ok (with_live (g5 2) [ln 97; ln 98; blank1; blank1; ln 101]).
Proof. exact il_dl_example. Qed.

Example C08_example_lf_ri :
  row_inc_scroll (g5 3) 1 = Ok (with_live (g5 3) [ln 97; ln 99; ln 100; blank1; ln 101], 1) /\
  row_inc_scroll (g5 2) 1 = Ok (g5 3, 0) /\
  row_inc_scroll (g5 4) 1 = Ok (g5 4, 0) /\
  row_dec_scroll (g5 1) 1 = Ok (with_live (g5 1) [ln 97; blank1; ln 98; mkRow [ch 99] false; ln 101]) /\
  row_dec_scroll (g5 2) 1 = Ok (g5 1) /\
  row_dec_scroll (g5 4) 1 = Ok (g5 3).
Proof. exact lf_ri_example. Qed.
Print Assumptions C08_example_lf_ri.
