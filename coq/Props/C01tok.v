(* C01tok — support for the redraw properties C01 / C02 / C15:
   "everything the emitters produce re-parses exactly".
   Every token produced by contents_formatted, state_formatted, cursor_state_formatted,
   contents_diff, state_diff, rows_formatted, rows_diff, input_mode_formatted,
   input_mode_diff and attributes_formatted satisfies [token_ok] (ParseSer.v) on every
   screen that satisfies the three invariants
     screen_ok        (ScreenInv.v: structural invariant, sizes <= MAXDIM = 65520),
     screen_wf        (CellWf.v:    stored characters are storable, ...),
     screen_attrs_ok  (AttrsInv.v:  every stored attribute record has u8 colour components),
   hence, by [parse_ser], the serialized bytes fed to a parser in any ground state produce
   exactly the actions [flat_map acts_of ts].  The three invariants hold in every reachable state.
   Proofs are in AttrsInv.v and EmitTokens.v; this file restates the main theorems. *)
Require Import Tac ListN Attrs Cell Row Grid Screen Vte Perform Parser Term Emit.
Require Import GridInv ScreenInv ParseSer CellWf WfInv SgrSpec EmitSafe AttrsInv EmitTokens.
Open Scope N_scope.

(* ---- the new invariant ---- *)
(* cell_aok c := pen_ok (cattrs c);  row_aok r := Forall cell_aok (cells r);
   grid_aok x := Forall row_aok (live x) /\ Forall row_aok (sb x) *)
Theorem C01tok_attrs_def : forall s,
  screen_attrs_ok s <-> (grid_aok (g s) /\ grid_aok (alt s) /\ pen_ok (pen s) /\ pen_ok (spen s)).
Proof. intros s. reflexivity. Qed.
Print Assumptions C01tok_attrs_def.

(* it holds initially and is preserved by every action and every API call, with no side condition *)
Theorem C01tok_attrs_new : forall rows cols cap rz p,
  parser_new rows cols cap rz = Ok p -> screen_attrs_ok (scr p).
Proof. exact parser_new_attrs_ok. Qed.
Print Assumptions C01tok_attrs_new.

Theorem C01tok_attrs_perform : forall rz s a s' evs,
  perform rz s a = Ok (s', evs) -> screen_attrs_ok s -> screen_attrs_ok s'.
Proof. exact perform_attrs_ok. Qed.
Print Assumptions C01tok_attrs_perform.

Theorem C01tok_attrs_run : forall ops p q,
  screen_attrs_ok (scr p) -> run p ops = Ok q -> screen_attrs_ok (scr q).
Proof. exact run_attrs_ok. Qed.
Print Assumptions C01tok_attrs_run.

(* ---- 1. characters ---- *)
Theorem C01tok_char : forall z, storable z -> char_ok z = true.
Proof. exact storable_char_ok. Qed.
Print Assumptions C01tok_char.

Theorem C01tok_cell_text : forall c, cell_wf c -> token_ok (TChars (ctext c)) = true.
Proof. exact tchars_cell_ok. Qed.
Print Assumptions C01tok_cell_text.

Theorem C01tok_spaces : token_ok (TChars [32]) = true /\ forall n, token_ok (TChars (repeatN 32 n)) = true.
Proof. split; [exact tchars_32_ok|exact tchars_repeat32_ok]. Qed.
Print Assumptions C01tok_spaces.

(* ---- 2. SGR diffs: at most 14 parameters, each <= 255 ---- *)
Theorem C01tok_sgr_params : forall a b ps, pen_ok a -> sgr_diff a b = Some ps ->
  len ps <= 14 /\ Forall (fun x => x <= 255) ps.
Proof. exact sgr_diff_params. Qed.
Print Assumptions C01tok_sgr_params.

Theorem C01tok_attrs_diff : forall a b, pen_ok a -> forallb token_ok (t_attrs_diff a b) = true.
Proof. exact t_attrs_diff_ok. Qed.
Print Assumptions C01tok_attrs_diff.

(* ---- 3. cursor moves and fixed tokens ---- *)
(* whenever t_move_to succeeds its parameters r+1, c+1 fit (checked additions) *)
Theorem C01tok_move_to : forall r c ts, t_move_to r c = Ok ts -> forallb token_ok ts = true.
Proof. exact t_move_to_tok. Qed.
Print Assumptions C01tok_move_to.

Theorem C01tok_move_to_bounded : forall r c, r <= 65534 -> c <= 65534 ->
  exists ts, t_move_to r c = Ok ts /\ forallb token_ok ts = true.
Proof. exact t_move_to_ok'. Qed.
Print Assumptions C01tok_move_to_bounded.

Theorem C01tok_move_from_to : forall fr fc tr tc ts, tc <= 65535 ->
  t_move_from_to fr fc tr tc = Ok ts -> forallb token_ok ts = true.
Proof. exact t_move_from_to_tok. Qed.
Print Assumptions C01tok_move_from_to.

Theorem C01tok_move_from_to_bounded : forall fr fc tr tc, fr <= 65534 -> tr <= 65534 -> tc <= 65534 ->
  exists ts, t_move_from_to fr fc tr tc = Ok ts /\ forallb token_ok ts = true.
Proof. exact t_move_from_to_ok'. Qed.
Print Assumptions C01tok_move_from_to_bounded.

Theorem C01tok_move_right : forall n, n <= 65535 -> forallb token_ok (t_move_right n) = true.
Proof. exact t_move_right_ok. Qed.
Print Assumptions C01tok_move_right.

Theorem C01tok_erase_char : forall n, n <= 65535 -> forallb token_ok (t_erase_char n) = true.
Proof. exact t_erase_char_ok. Qed.
Print Assumptions C01tok_erase_char.

Theorem C01tok_fixed :
  forallb token_ok t_clear_screen = true /\ token_ok t_clear_row_forward = true /\
  token_ok t_clear_attrs = true /\ forallb token_ok t_crlf = true /\ token_ok t_bs = true /\
  token_ok t_save_cursor = true /\ token_ok t_restore_cursor = true /\
  (forall b, token_ok (t_hide_cursor b) = true) /\ (forall b, token_ok (t_keypad b) = true) /\
  (forall b, token_ok (t_appcur b) = true) /\ (forall b, token_ok (t_paste b) = true) /\
  (forall m p, forallb token_ok (t_mouse_mode m p) = true) /\
  (forall m p, forallb token_ok (t_mouse_enc m p) = true).
Proof.
  split; [exact t_clear_screen_ok|].
  split; [exact t_clear_row_forward_ok|].
  split; [exact t_clear_attrs_ok|].
  split; [exact t_crlf_ok|].
  split; [exact t_bs_ok|].
  split; [exact t_save_cursor_ok|].
  split; [exact t_restore_cursor_ok|].
  split; [exact t_hide_cursor_ok|].
  split; [exact t_keypad_ok|].
  split; [exact t_appcur_ok|].
  split; [exact t_paste_ok|].
  split; [exact t_mouse_mode_ok|].
  exact t_mouse_enc_ok.
Qed.
Print Assumptions C01tok_fixed.

(* ---- 4. rows and grids ---- *)
(* row_tok r := row_wf r /\ row_aok r /\ len (cells r) <= 65535 *)
Theorem C01tok_row_formatted : forall r start width rowi wrapping ppos pattrs ts pos a',
  row_tok r -> (forall a, pattrs = Some a -> pen_ok a) ->
  row_formatted r start width rowi wrapping ppos pattrs = Ok (ts, pos, a') ->
  forallb token_ok ts = true /\ pen_ok a'.
Proof. exact row_formatted_tok. Qed.
Print Assumptions C01tok_row_formatted.

(* nothing is required of the previous row *)
Theorem C01tok_row_diff : forall r prev start width rowi wrapping pwrapping ppos pattrs ts pos a',
  row_tok r -> pen_ok pattrs ->
  row_diff r prev start width rowi wrapping pwrapping ppos pattrs = Ok (ts, pos, a') ->
  forallb token_ok ts = true /\ pen_ok a'.
Proof. exact row_diff_tok. Qed.
Print Assumptions C01tok_row_diff.

(* with the bounds of EmitSafe.v: success and well-formedness together *)
Theorem C01tok_row_formatted_total : forall r start width rowi wrapping pr pc a,
  vrow_ok r -> row_wf r -> row_aok r -> rowi <= MAXDIM -> pr <= MAXDIM -> pen_ok a ->
  exists ts pos' a',
    row_formatted r start width rowi wrapping (Some (pr, pc)) (Some a) = Ok (ts, pos', a') /\
    forallb token_ok ts = true /\ pen_ok a'.
Proof. exact row_formatted_ok_tok. Qed.
Print Assumptions C01tok_row_formatted_total.

Theorem C01tok_row_diff_total : forall r prev start width rowi wrapping pwrapping pr pc a,
  vrow_ok r -> row_wf r -> row_aok r -> rowi <= MAXDIM -> pr <= MAXDIM -> pen_ok a ->
  exists ts pos' a',
    row_diff r prev start width rowi wrapping pwrapping (pr, pc) a = Ok (ts, pos', a') /\
    forallb token_ok ts = true /\ pen_ok a'.
Proof. exact row_diff_ok_tok. Qed.
Print Assumptions C01tok_row_diff_total.

(* grid_tok x := gcols x <= 65535 /\ pcol x <= 65535 /\
                 forall vr, visible_rows x = Ok vr -> Forall row_tok vr *)
Theorem C01tok_grid_tok : forall x, grid_ok x -> grid_wf x -> grid_aok x -> grid_tok x.
Proof. exact grid_tok_of. Qed.
Print Assumptions C01tok_grid_tok.

Theorem C01tok_cursor_position : forall x ppos pattrs ts,
  grid_tok x -> (forall a, pattrs = Some a -> pen_ok a) ->
  cursor_position_formatted x ppos pattrs = Ok ts -> forallb token_ok ts = true.
Proof. exact cursor_position_formatted_tok. Qed.
Print Assumptions C01tok_cursor_position.

Theorem C01tok_grid_formatted : forall x ts a,
  grid_tok x -> grid_contents_formatted x = Ok (ts, a) -> forallb token_ok ts = true /\ pen_ok a.
Proof. exact grid_contents_formatted_tok. Qed.
Print Assumptions C01tok_grid_formatted.

Theorem C01tok_grid_diff : forall x prev pattrs ts a,
  grid_tok x -> pen_ok pattrs -> grid_contents_diff x prev pattrs = Ok (ts, a) ->
  forallb token_ok ts = true /\ pen_ok a.
Proof. exact grid_contents_diff_tok. Qed.
Print Assumptions C01tok_grid_diff.

(* ---- 5. screens ---- *)
Theorem C01tok_contents_formatted : forall s ts,
  screen_ok s -> screen_wf s -> screen_attrs_ok s -> contents_formatted_t s = Ok ts ->
  forallb token_ok ts = true.
Proof. exact contents_formatted_tok. Qed.
Print Assumptions C01tok_contents_formatted.

Theorem C01tok_state_formatted : forall s ts,
  screen_ok s -> screen_wf s -> screen_attrs_ok s -> state_formatted_t s = Ok ts ->
  forallb token_ok ts = true.
Proof. exact state_formatted_tok. Qed.
Print Assumptions C01tok_state_formatted.

Theorem C01tok_cursor_state_formatted : forall s ts,
  screen_ok s -> screen_wf s -> screen_attrs_ok s -> cursor_state_formatted_t s = Ok ts ->
  forallb token_ok ts = true.
Proof. exact cursor_state_formatted_tok. Qed.
Print Assumptions C01tok_cursor_state_formatted.

Theorem C01tok_contents_diff : forall s p ts,
  screen_ok s -> screen_wf s -> screen_attrs_ok s -> screen_ok p -> screen_wf p -> screen_attrs_ok p ->
  contents_diff_t s p = Ok ts -> forallb token_ok ts = true.
Proof. exact contents_diff_tok. Qed.
Print Assumptions C01tok_contents_diff.

Theorem C01tok_state_diff : forall s p ts,
  screen_ok s -> screen_wf s -> screen_attrs_ok s -> screen_ok p -> screen_wf p -> screen_attrs_ok p ->
  state_diff_t s p = Ok ts -> forallb token_ok ts = true.
Proof. exact state_diff_tok. Qed.
Print Assumptions C01tok_state_diff.

(* stronger: of the previous screen only [pen_ok (pen p)] is used *)
Theorem C01tok_contents_diff_strong : forall s p ts,
  screen_ok s -> screen_wf s -> screen_attrs_ok s -> pen_ok (pen p) ->
  contents_diff_t s p = Ok ts -> forallb token_ok ts = true.
Proof. exact contents_diff_tok_strong. Qed.
Print Assumptions C01tok_contents_diff_strong.

Theorem C01tok_state_diff_strong : forall s p ts,
  screen_ok s -> screen_wf s -> screen_attrs_ok s -> pen_ok (pen p) ->
  state_diff_t s p = Ok ts -> forallb token_ok ts = true.
Proof. exact state_diff_tok_strong. Qed.
Print Assumptions C01tok_state_diff_strong.

Theorem C01tok_rows_formatted : forall s start width out,
  screen_ok s -> screen_wf s -> screen_attrs_ok s -> rows_formatted_t s start width = Ok out ->
  Forall (fun ts => forallb token_ok ts = true) out.
Proof. exact rows_formatted_tok. Qed.
Print Assumptions C01tok_rows_formatted.

Theorem C01tok_rows_diff : forall s p start width out,
  screen_ok s -> screen_wf s -> screen_attrs_ok s -> screen_ok p -> screen_wf p -> screen_attrs_ok p ->
  rows_diff_t s p start width = Ok out -> Forall (fun ts => forallb token_ok ts = true) out.
Proof. exact rows_diff_tok. Qed.
Print Assumptions C01tok_rows_diff.

(* stronger: nothing is used of the previous screen *)
Theorem C01tok_rows_diff_strong : forall s p start width out,
  screen_ok s -> screen_wf s -> screen_attrs_ok s ->
  rows_diff_t s p start width = Ok out -> Forall (fun ts => forallb token_ok ts = true) out.
Proof. exact rows_diff_tok_strong. Qed.
Print Assumptions C01tok_rows_diff_strong.

Theorem C01tok_input_mode_formatted : forall s, forallb token_ok (input_mode_formatted_t s) = true.
Proof. exact input_mode_formatted_ok. Qed.
Print Assumptions C01tok_input_mode_formatted.

Theorem C01tok_input_mode_diff : forall s p, forallb token_ok (input_mode_diff_t s p) = true.
Proof. exact input_mode_diff_ok. Qed.
Print Assumptions C01tok_input_mode_diff.

Theorem C01tok_attributes_formatted : forall s, pen_ok (pen s) ->
  forallb token_ok (attributes_formatted_t s) = true.
Proof. exact attributes_formatted_ok. Qed.
Print Assumptions C01tok_attributes_formatted.

(* ---- 6. the tie to bytes ---- *)
(* ok tokens: from any ground vte state the serialized bytes produce exactly [flat_map acts_of ts],
   the state is ground again, and a Parser processing the bytes performs exactly these actions *)
Theorem C01tok_reparse : forall ts, forallb token_ok ts = true ->
  forall v, ground v -> exists v',
    advance v (ser_all ts) = (v', flat_map acts_of ts) /\ ground v' /\
    forall r l rz,
      process (mkParser v r l rz []) (ser_all ts) =
      (do '(r', evs) <- perform_all rz r (flat_map acts_of ts) []; Ok (mkParser v' r' (l ++ evs) rz [])).
Proof. exact toks_ok_reparses. Qed.
Print Assumptions C01tok_reparse.

(* instance: contents_formatted (the other emitters: *_reparses in EmitTokens.v) *)
Theorem C01tok_contents_formatted_bytes : forall s ts v,
  screen_ok s -> screen_wf s -> screen_attrs_ok s -> contents_formatted_t s = Ok ts -> ground v ->
  exists v',
    advance v (ser_all ts) = (v', flat_map acts_of ts) /\ ground v' /\
    forall r l rz,
      process (mkParser v r l rz []) (ser_all ts) =
      (do '(r', evs) <- perform_all rz r (flat_map acts_of ts) []; Ok (mkParser v' r' (l ++ evs) rz [])).
Proof. intros s ts v H1 H2 H3 E. exact (contents_formatted_reparses s ts H1 H2 H3 E v). Qed.
Print Assumptions C01tok_contents_formatted_bytes.

Theorem C01tok_contents_diff_bytes : forall s p ts v,
  screen_ok s -> screen_wf s -> screen_attrs_ok s -> pen_ok (pen p) -> contents_diff_t s p = Ok ts -> ground v ->
  exists v',
    advance v (ser_all ts) = (v', flat_map acts_of ts) /\ ground v' /\
    forall r l rz,
      process (mkParser v r l rz []) (ser_all ts) =
      (do '(r', evs) <- perform_all rz r (flat_map acts_of ts) []; Ok (mkParser v' r' (l ++ evs) rz [])).
Proof. intros s p ts v H1 H2 H3 H4 E. exact (contents_diff_reparses s p ts H1 H2 H3 H4 E v). Qed.
Print Assumptions C01tok_contents_diff_bytes.

(* ---- 7. every reachable state ---- *)
(* reachable s := exists rows cols cap rz ops p q, 1 <= rows <= MAXDIM /\ 1 <= cols <= MAXDIM /\
     parser_new rows cols cap rz = Ok p /\ Forall op_ok ops /\ run p ops = Ok q /\ scr q = s *)
Theorem C01tok_reachable_inv : forall s, reachable s -> screen_ok s /\ screen_wf s /\ screen_attrs_ok s.
Proof. exact reachable_inv. Qed.
Print Assumptions C01tok_reachable_inv.

Theorem C01tok_reachable : forall s p start width, reachable s -> reachable p ->
  (exists ts, contents_formatted_t s = Ok ts /\ toks_ok ts /\ reparses ts) /\
  (exists ts, state_formatted_t s = Ok ts /\ toks_ok ts /\ reparses ts) /\
  (exists ts, cursor_state_formatted_t s = Ok ts /\ toks_ok ts /\ reparses ts) /\
  (exists ts, contents_diff_t s p = Ok ts /\ toks_ok ts /\ reparses ts) /\
  (exists ts, state_diff_t s p = Ok ts /\ toks_ok ts /\ reparses ts) /\
  (exists out, rows_formatted_t s start width = Ok out /\ Forall toks_ok out /\ Forall reparses out) /\
  (exists out, rows_diff_t s p start width = Ok out /\ Forall toks_ok out /\ Forall reparses out) /\
  (toks_ok (input_mode_formatted_t s) /\ reparses (input_mode_formatted_t s)) /\
  (toks_ok (input_mode_diff_t s p) /\ reparses (input_mode_diff_t s p)) /\
  (toks_ok (attributes_formatted_t s) /\ reparses (attributes_formatted_t s)).
Proof. exact reachable_tokens_ok. Qed.
Print Assumptions C01tok_reachable.
