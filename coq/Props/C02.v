(* C02 — contents_diff / state_diff turns a reproduction of prev into the current screen.

   Full statement (DiffRound.diff_round_ok): for reachable P and S of equal size, a fresh parser
   fed P.state_formatted() and then S.state_diff(P) ends with obs = obs S.

   Status: PROVED for all reachable pairs of equal size at scrollback offset 0 (Props/C02all.v,
   C02sem_all, with chains), AFTER the repair of finding D10 in Grid::write_contents_diff
   (Emit.clears_wrap: the rows loop no longer assumes that the receiver still has the wrap flag of a
   row when its own output for that row has drawn over a wide character ending in the last column).
   This file keeps the statement, the regression witness for the old loop, and the emitter-level
   facts:
   * with the loop as it was before the repair the statement was FALSE: C02_old_loop_refuted gives the
     witness (finding D10), which the repaired loop round-trips (C02_d10_repaired, C02_d10_round_trips);
   * for all reachable P, S (no size hypothesis): both emitters succeed, every token they
     emit re-parses from any ground parser state to exactly the intended actions, and a receiver
     Parser performs exactly those actions (C02_total, C02_bytes);
   * a diff against an observationally equal screen contains no token (C02_equal_obs; the first screen
     must be cell-wise well formed, screen_wf, since the repaired loop looks at the cells) and
     the diff depends only on the two observations (C02_factor). *)
Require Import Tac ListN Attrs Cell Row Grid Screen Vte Perform Parser Term Emit.
Require Import GridInv ScreenInv ParseSer CellWf WfInv SgrSpec EmitSafe AttrsInv EmitTokens ObsSpec DiffRound DiffHistory.
Open Scope N_scope.

(* ---- the statement, restated ---- *)
Theorem C02_statement_def : forall Pr Sc,
  diff_round_ok Pr Sc <->
  exists r o,
    (do r0 <- (do r <- parser_new (grows (cur Pr)) (gcols (cur Pr)) 0 false;
               do ts <- state_formatted_t Pr; process r (ser_all ts));
     do ts <- state_diff_t Sc Pr; process r0 (ser_all ts)) = Ok r /\
    obs (scr r) = Ok o /\ obs Sc = Ok o.
Proof. intros Pr Sc. reflexivity. Qed.
Print Assumptions C02_statement_def.

(* ---- finding D10, repaired ---- *)
(* With the rows loop as it was BEFORE the repair (DiffHistory.rows_diff_loop_old: prev_wrapping = the
   flag of prev's row) the unrestricted statement was false: *)
Theorem C02_old_loop_refuted : exists Pr Sc,
  reachable Pr /\ reachable Sc /\ grows (cur Pr) = grows (cur Sc) /\ gcols (cur Pr) = gcols (cur Sc) /\
  ~ diff_round_old_ok Pr Sc.
Proof. exact d10_refutes_old_loop. Qed.
Print Assumptions C02_old_loop_refuted.

(* the witness: 2x2, P = U+1F600 'l' CUP(1,2), S = P 'y'; with the old loop the receiver lost the wrap
   flag of row 0 ... *)
Theorem C02_old_loop_witness : d10_check_old = Ok (false, [false; false], [true; false]).
Proof. exact d10_check_old_value. Qed.
Print Assumptions C02_old_loop_witness.

(* ... with the repaired loop (Emit.clears_wrap) it keeps it: the witness round-trips *)
Theorem C02_d10_repaired : d10_check = Ok (true, [true; false], [true; false]).
Proof. exact d10_check_value. Qed.
Print Assumptions C02_d10_repaired.

Theorem C02_d10_round_trips : exists Pr Sc,
  after 2 2 d10_P = Ok Pr /\ after 2 2 d10_S = Ok Sc /\ reachable Pr /\ reachable Sc /\ diff_round_ok Pr Sc.
Proof. exact d10_round_trips. Qed.
Print Assumptions C02_d10_round_trips.

(* ---- totality and exact re-parse of the diff, every pair of reachable screens ---- *)
Theorem C02_total : forall s p, reachable s -> reachable p ->
  (exists ts, contents_diff_t s p = Ok ts /\ forallb token_ok ts = true /\ reparses ts) /\
  (exists ts, state_diff_t s p = Ok ts /\ forallb token_ok ts = true /\ reparses ts).
Proof.
  intros s p Hs Hp. destruct (reachable_tokens_ok s p 0 0 Hs Hp) as (_ & _ & _ & H4 & H5 & _).
  split; assumption.
Qed.
Print Assumptions C02_total.

Theorem C02_reparses_def : forall ts, reparses ts <->
  forall v, ground v -> exists v',
    advance v (ser_all ts) = (v', flat_map acts_of ts) /\ ground v' /\
    forall r l rz,
      process (mkParser v r l rz []) (ser_all ts) =
      (do '(r', evs) <- perform_all rz r (flat_map acts_of ts) []; Ok (mkParser v' r' (l ++ evs) rz [])).
Proof. intros ts. reflexivity. Qed.
Print Assumptions C02_reparses_def.

Theorem C02_bytes : forall s p ts v,
  screen_ok s -> screen_wf s -> screen_attrs_ok s -> pen_ok (pen p) -> contents_diff_t s p = Ok ts -> ground v ->
  exists v',
    advance v (ser_all ts) = (v', flat_map acts_of ts) /\ ground v' /\
    forall r l rz,
      process (mkParser v r l rz []) (ser_all ts) =
      (do '(r', evs) <- perform_all rz r (flat_map acts_of ts) []; Ok (mkParser v' r' (l ++ evs) rz [])).
Proof. intros s p ts v H1 H2 H3 H4 E. exact (contents_diff_reparses s p ts H1 H2 H3 H4 E v). Qed.
Print Assumptions C02_bytes.

(* the previous screen needs no invariant and no size relation for the emitters to succeed *)
Theorem C02_no_panic : forall s p, screen_ok s -> screen_ok p ->
  (exists ts, contents_diff_t s p = Ok ts) /\ (exists ts, state_diff_t s p = Ok ts).
Proof. intros s p Hs Hp. split; [apply contents_diff_ok|apply state_diff_ok]; assumption. Qed.
Print Assumptions C02_no_panic.

(* ---- a diff against an observationally equal screen is empty ---- *)
Theorem C02_equal_obs : forall s p o, screen_ok s -> screen_wf s -> screen_ok p -> obs s = Ok o -> obs p = Ok o ->
  contents_diff_t s p = Ok [] /\ state_diff_t s p = Ok [] /\ input_mode_diff_t s p = [].
Proof.
  intros s p o Hs Ws Hp Es Ep. destruct (ObsSpec.C19_obsdiff s p o Hs Ws Hp Es Ep) as (A & B & C & _).
  split; [exact A|]. split; [exact B|exact C].
Qed.
Print Assumptions C02_equal_obs.

(* hence for observationally equal P and S the C02 round trip is the C01 round trip of P *)
Theorem C02_equal_obs_round : forall Pr Sc o r, reachable Sc -> reachable Pr -> obs Sc = Ok o -> obs Pr = Ok o ->
  reproduce Pr = Ok r -> diff_round Pr Sc = Ok r.
Proof. exact diff_round_equal_obs. Qed.
Print Assumptions C02_equal_obs_round.

(* ---- non-vacuity: a non-trivial pair (unrelated histories, wide characters, colours, a wrapped
   row) on which the round trip holds ---- *)
Theorem C02_example : exists Pr Sc, reachable Pr /\ reachable Sc /\ diff_round_ok Pr Sc.
Proof. exact diff_round_example. Qed.
Print Assumptions C02_example.
