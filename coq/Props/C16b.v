(* C16b — resize: the cell clauses, the wrap flags, the exact clamps, the untouched history, the
   screen level and the resize callback.  (C16.v: no panic, invariant preserved, sizes reported,
   everything in bounds.)  Proofs: ResizeSpec.v; examples: ResizeExamples.v. *)
Require Import Tac ListN Attrs Cell Row Grid Screen Vte Perform Parser RowInv GridInv TextInv ScreenInv ResizeSpec.
Open Scope N_scope.

(* ---- screen level -------------------------------------------------------------------------- *)

(* set_size(r,c) on a reachable screen is Grid::set_size on the primary and on the alternate
   grid; pen, saved pen, all modes and the alternate-screen flag are unchanged; both results
   satisfy the full grid invariant (in particular the alternate grid is allocated afterwards). *)
Theorem C16_screen : forall s r c, screen_ok s -> 1 <= r <= MAXDIM -> 1 <= c <= MAXDIM ->
  exists g1 a1, grid_set_size (g s) r c = Ok g1 /\ grid_set_size (alt s) r c = Ok a1 /\
    grid_ok g1 /\ grid_ok a1 /\
    screen_set_size s r c =
    Ok (mkScreen g1 a1 (pen s) (spen s) (keypad s) (appcur s) (hide s) (altmode s) (paste s) (mmode s) (menc s)) /\
    screen_ok (mkScreen g1 a1 (pen s) (spen s) (keypad s) (appcur s) (hide s) (altmode s) (paste s) (mmode s) (menc s)).
Proof. exact screen_set_size_spec. Qed.
Print Assumptions C16_screen.

(* the same, as an inversion, without any hypothesis *)
Theorem C16_screen_only_grids : forall s r c s', screen_set_size s r c = Ok s' ->
  exists g1 a1, grid_set_size (g s) r c = Ok g1 /\ grid_set_size (alt s) r c = Ok a1 /\
    s' = mkScreen g1 a1 (pen s) (spen s) (keypad s) (appcur s) (hide s) (altmode s) (paste s) (mmode s) (menc s).
Proof. exact screen_set_size_inv. Qed.
Print Assumptions C16_screen_only_grids.

(* ---- 1. cells ------------------------------------------------------------------------------ *)

(* Every cell (i,j) of the new grid, i < r, j < c: if the old grid had a cell at (i,j) it is that
   cell — except that a WIDE cell landing in the new last column is replaced by a blank cell with
   the same attributes — and otherwise it is the default blank cell.  Holds for allocated and
   unallocated grids alike (grid_ok0); [drawing_cell x i j = None] exactly outside the old
   dimensions of an allocated grid, and everywhere in an unallocated one. *)
Theorem C16_cell : forall x r c y i j, grid_ok0 x -> 1 <= r <= MAXDIM -> 1 <= c <= MAXDIM ->
  grid_set_size x r c = Ok y -> i < r -> j < c ->
  drawing_cell y i j =
  Some (match drawing_cell x i j with
        | Some cl => if (j =? c - 1) && cwide cl then mkCell [] false false (cattrs cl) else cl
        | None => cell_new
        end).
Proof.
  intros x r c y i j H0 Hr Hc E Hi Hj.
  apply (resize_cell x r c y i j); try assumption; try lia. apply ok0_rows, H0.
Qed.
Print Assumptions C16_cell.

(* nothing exists outside the new dimensions *)
Theorem C16_cell_outside : forall x r c y i j, grid_ok0 x -> 1 <= r <= MAXDIM -> 1 <= c <= MAXDIM ->
  grid_set_size x r c = Ok y -> r <= i \/ c <= j -> drawing_cell y i j = None.
Proof.
  intros x r c y i j H0 Hr Hc E Hout.
  apply (resize_cell_outside x r c y i j); try assumption; try lia. apply ok0_rows, H0.
Qed.
Print Assumptions C16_cell_outside.

(* intersection of the old and new dimensions of an allocated grid: the old cell exists and is
   kept, up to the cut of a wide cell in the new last column *)
Theorem C16_cell_intersection : forall x r c y i j, grid_ok x -> 1 <= r -> 1 <= c ->
  grid_set_size x r c = Ok y -> i < r -> j < c -> i < grows x -> j < gcols x ->
  exists cl, drawing_cell x i j = Some cl /\
    drawing_cell y i j = Some (if (j =? c - 1) && cwide cl then mkCell [] false false (cattrs cl) else cl).
Proof. exact resize_cell_old. Qed.
Print Assumptions C16_cell_intersection.

(* newly exposed cells (below the old last row or right of the old last column) are default blanks *)
Theorem C16_cell_exposed : forall x r c y i j, grid_ok x -> 1 <= r -> 1 <= c ->
  grid_set_size x r c = Ok y -> i < r -> j < c -> grows x <= i \/ gcols x <= j ->
  drawing_cell y i j = Some cell_new.
Proof. exact resize_cell_new. Qed.
Print Assumptions C16_cell_exposed.

(* an unallocated grid (the alternate grid before its first use) comes out entirely blank *)
Theorem C16_cell_unallocated : forall x r c y i j, 1 <= grows x -> live x = [] -> 1 <= r -> 1 <= c ->
  grid_set_size x r c = Ok y -> i < r -> j < c -> drawing_cell y i j = Some cell_new.
Proof. exact resize_cell_unalloc. Qed.
Print Assumptions C16_cell_unallocated.

(* every intersection cell that is not in the new last column is unchanged, and when the grid
   does not get narrower ALL intersection cells are unchanged (the old last column is never wide) *)
Theorem C16_cell_kept : forall x r c y i j, grid_ok x -> 1 <= r -> 1 <= c ->
  grid_set_size x r c = Ok y -> i < r -> j < c -> i < grows x -> j < gcols x ->
  j + 1 < c \/ gcols x <= c -> drawing_cell y i j = drawing_cell x i j.
Proof. exact resize_cell_kept. Qed.
Print Assumptions C16_cell_kept.

(* the cut: a wide cell in the new last column means the grid got narrower, its continuation
   half sat in old column c (now cut off), and it becomes a blank with its own attributes *)
Theorem C16_cell_cut : forall x r c y i cl, grid_ok x -> 1 <= r -> 1 <= c ->
  grid_set_size x r c = Ok y -> i < r -> i < grows x ->
  drawing_cell x i (c - 1) = Some cl -> cwide cl = true ->
  c < gcols x /\
  (exists d, drawing_cell x i c = Some d /\ ccont d = true) /\
  drawing_cell y i (c - 1) = Some (mkCell [] false false (cattrs cl)).
Proof. exact resize_cell_cut. Qed.
Print Assumptions C16_cell_cut.

(* a continuation half inside the new width is unchanged and keeps its (unchanged) wide partner
   on its left: there is no other kind of cut *)
Theorem C16_cont_keeps_partner : forall x r c y i j cl, grid_ok x -> 1 <= r -> 1 <= c ->
  grid_set_size x r c = Ok y -> i < r -> j < c -> i < grows x ->
  drawing_cell x i j = Some cl -> ccont cl = true ->
  0 < j /\ drawing_cell y i j = Some cl /\
  exists w, cwide w = true /\ drawing_cell x i (j - 1) = Some w /\ drawing_cell y i (j - 1) = Some w.
Proof. exact resize_cont_keeps_partner. Qed.
Print Assumptions C16_cont_keeps_partner.

(* ---- 2. wrap flags ------------------------------------------------------------------------- *)

(* After set_size EVERY row is unwrapped — also when only the height changes, and even when the
   size does not change at all.  (Row::resize clears the flag unconditionally; confirmed on the
   Rust crate: set_size(4,6) and set_size(3,6) on a 3x6 screen with a wrapped first row both give
   row_wrapped(0) = false and split the logical line in contents().) *)
Theorem C16_unwrapped : forall x r c y, grid_ok0 x -> 1 <= r <= MAXDIM -> 1 <= c <= MAXDIM ->
  grid_set_size x r c = Ok y -> Forall (fun rw => wrapped rw = false) (live y).
Proof.
  intros x r c y H0 Hr Hc E. apply (resize_unwrapped x r c y); try assumption; try lia. apply ok0_rows, H0.
Qed.
Print Assumptions C16_unwrapped.

(* ---- 3. exact clamps ----------------------------------------------------------------------- *)

Theorem C16_clamps_exact : forall x r c y, grid_ok0 x -> 1 <= r <= MAXDIM -> 1 <= c <= MAXDIM ->
  grid_set_size x r c = Ok y ->
  let b1 := if bot x =? grows x - 1 then r - 1 else bot x in
  let b2 := if r <=? b1 then r - 1 else b1 in
  grows y = r /\ gcols y = c /\
  prow y = N.min (prow x) (r - 1) /\ pcol y = N.min (pcol x) (c - 1) /\
  sprow y = N.min (sprow x) (r - 1) /\ spcol y = N.min (spcol x) (c - 1) /\
  origin y = origin x /\ sorigin y = sorigin x /\
  bot y = b2 /\ top y = (if b2 <=? top x then 0 else top x).
Proof.
  intros x r c y H0 Hr Hc E b1 b2.
  apply (resize_clamps x r c y); try assumption; try lia. apply ok0_rows, H0.
Qed.
Print Assumptions C16_clamps_exact.

(* The scroll region in words (for a grid satisfying the region invariant):
   (a) bottom on the last line (incl. the full-screen region) and the top still above the new
       last line: top kept, bottom = new last line — a full-height region stays full-height;
   (b) proper region that still fits: kept;
   (c) proper region whose bottom no longer fits, at least two lines left: bottom clamped;
   (d) otherwise (it would become empty or a single line): reset to the full screen. *)
Theorem C16_region_cases : forall x r c y, grid_ok0 x -> 1 <= r <= MAXDIM -> 1 <= c <= MAXDIM ->
  grid_set_size x r c = Ok y ->
  (bot x = grows x - 1 /\ top x < r - 1 /\ top y = top x /\ bot y = r - 1) \/
  (bot x <> grows x - 1 /\ bot x < r /\ top y = top x /\ bot y = bot x) \/
  (bot x <> grows x - 1 /\ r <= bot x /\ top x < r - 1 /\ top y = top x /\ bot y = r - 1) \/
  (r - 1 <= top x /\ (r <= bot x \/ bot x = grows x - 1) /\ top y = 0 /\ bot y = r - 1).
Proof.
  intros x r c y H0 Hr Hc E. pose proof (ok0_rows _ H0) as Hg.
  destruct (resize_clamps x r c y) as (_ & _ & _ & _ & _ & _ & _ & _ & -> & ->); try assumption; try lia.
  apply resize_region_cases; [lia|]. destruct H0 as [Sh _]. apply (sh_region _ Sh).
Qed.
Print Assumptions C16_region_cases.

Theorem C16_region_full_stays_full : forall x r c y, grid_ok0 x -> 1 <= r <= MAXDIM -> 1 <= c <= MAXDIM ->
  grid_set_size x r c = Ok y -> top x = 0 -> bot x = grows x - 1 -> top y = 0 /\ bot y = r - 1.
Proof.
  intros x r c y H0 Hr Hc E Ht Hb. pose proof (ok0_rows _ H0) as Hg.
  destruct (resize_clamps x r c y) as (_ & _ & _ & _ & _ & _ & _ & _ & -> & ->); try assumption; try lia.
  apply resize_region_full; [lia|assumption|assumption].
Qed.
Print Assumptions C16_region_full_stays_full.

(* ---- 4. scrollback ------------------------------------------------------------------------- *)

(* the history rows (whatever their widths), the view offset and the capacity are untouched;
   no hypothesis needed *)
Theorem C16_scrollback_untouched : forall x r c y, grid_set_size x r c = Ok y ->
  sb y = sb x /\ sb_off y = sb_off x /\ sb_cap y = sb_cap x.
Proof. exact resize_scrollback. Qed.
Print Assumptions C16_scrollback_untouched.

(* ---- 6. the resize callback: CSI 8 ; r ; c t ----------------------------------------------- *)

(* requested size: req_rows/req_cols = the first value of the 2nd / 3rd parameter, the current
   size when the parameter is absent.  perform's first argument is the callback policy
   (true = the callbacks object calls set_size when 1 <= r,c <= 512). *)
Theorem C16_callback_exact : forall rz s sub1 rest ign,
  perform rz s (ACsi ((8 :: sub1) :: rest) [] ign 116) =
  let r := match rest with (x :: _) :: _ => x | _ => grows (cur s) end in
  let c := match rest with _ :: (x :: _) :: _ => x | _ => gcols (cur s) end in
  if rz && (1 <=? r) && (r <=? 512) && (1 <=? c) && (c <=? 512)
  then do s1 <- screen_set_size s r c; Ok (s1, [EResize r c])
  else Ok (s, [EResize r c]).
Proof. exact resize_callback_eq. Qed.
Print Assumptions C16_callback_exact.

Theorem C16_callback_iff : forall s sub1 rest ign s' evs, screen_ok s ->
  let r := req_rows s rest in let c := req_cols s rest in
  perform true s (ACsi ((8 :: sub1) :: rest) [] ign 116) = Ok (s', evs) ->
  evs = [EResize r c] /\
  (((1 <= r <= 512 /\ 1 <= c <= 512) /\ screen_set_size s r c = Ok s') \/
   (~ (1 <= r <= 512 /\ 1 <= c <= 512) /\ s' = s)).
Proof. exact resize_callback_iff. Qed.
Print Assumptions C16_callback_iff.

Theorem C16_callback_resizes : forall s sub1 rest ign, screen_ok s ->
  let r := req_rows s rest in let c := req_cols s rest in
  1 <= r <= 512 /\ 1 <= c <= 512 ->
  exists s1, screen_set_size s r c = Ok s1 /\ screen_ok s1 /\
             perform true s (ACsi ((8 :: sub1) :: rest) [] ign 116) = Ok (s1, [EResize r c]).
Proof. exact resize_callback_in. Qed.
Print Assumptions C16_callback_resizes.

Theorem C16_callback_out_of_policy : forall s sub1 rest ign,
  let r := req_rows s rest in let c := req_cols s rest in
  ~ (1 <= r <= 512 /\ 1 <= c <= 512) ->
  perform true s (ACsi ((8 :: sub1) :: rest) [] ign 116) = Ok (s, [EResize r c]).
Proof. exact resize_callback_out. Qed.
Print Assumptions C16_callback_out_of_policy.

Theorem C16_callback_not_resizing : forall s sub1 rest ign,
  perform false s (ACsi ((8 :: sub1) :: rest) [] ign 116) = Ok (s, [EResize (req_rows s rest) (req_cols s rest)]).
Proof. exact resize_callback_off. Qed.
Print Assumptions C16_callback_not_resizing.

(* other window operations are only reported as unhandled *)
Theorem C16_window_op_other : forall rz s op sub1 rest ign, op <> 8 ->
  perform rz s (ACsi ((op :: sub1) :: rest) [] ign 116) = Ok (s, [EUnhCsi None None ((op :: sub1) :: rest) 116]).
Proof. exact window_op_other. Qed.
Print Assumptions C16_window_op_other.

(* the grid in use (primary or alternate) before and after: the cell/clamp theorems above apply
   to what the application sees *)
Theorem C16_screen_current_grid : forall s r c s', screen_set_size s r c = Ok s' ->
  altmode s' = altmode s /\ grid_set_size (cur s) r c = Ok (cur s').
Proof. exact screen_set_size_cur. Qed.
Print Assumptions C16_screen_current_grid.
