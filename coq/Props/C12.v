(* C12 — scrollback as an ordered bounded history; the offset is purely a view. *)
Require Import Tac ListN Width Attrs Cell Row Grid Screen Vte Perform Parser RowInv GridInv.
Require Import SbSpec SbStrip SbFrame.
Open Scope N_scope.

(* ------------------------------------------------------------------------------------------ *)
(* 1. scroll_up on a grid satisfying the structural invariant: it never panics and is given by
      a closed form.  k = min n (rows - top) lines are scrolled; h = bot - top + 1 is the region
      height.  Rows outside [top, bot] never move, also when k > h (then the whole region is
      blank; no row from below the region is pulled in). *)
Theorem C12_scroll_up_closed_form : forall x n, grid_ok x ->
  scroll_up x n = Ok (su_result x (su_count x n)).
Proof. exact scroll_up_eq. Qed.

Theorem C12_scroll_up : forall x n y, grid_ok x -> scroll_up x n = Ok y ->
  let k := N.min n (grows x - top x) in
  let h := bot x - top x + 1 in
  live y = firstnN (top x) (live x) ++ firstnN (h - k) (skipnN (top x + k) (live x)) ++
           repeatN (row_new (gcols x)) (N.min k h) ++ skipnN (bot x + 1) (live x) /\
  (0 < sb_cap x /\ top x = 0 /\ bot x = grows x - 1 ->
     sb y = trim_front (sb x ++ firstnN k (live x)) (sb_cap x) /\
     sb_off y = (if 0 <? sb_off x then N.min (len (sb y)) (sb_off x + k) else 0)) /\
  (sb_cap x = 0 \/ top x <> 0 \/ bot x <> grows x - 1 -> sb y = sb x /\ sb_off y = sb_off x) /\
  y = with_sb (with_live x (live y)) (sb y) (sb_off y).
Proof. exact scroll_up_spec. Qed.

Theorem C12_scroll_up_never_panics : forall x n, grid_ok x -> exists y, scroll_up x n = Ok y /\ grid_ok y.
Proof. intros x n H. destruct (scroll_up_post x n H) as (y & E & Oy & _). eauto. Qed.

Theorem C12_scroll_up_outside_region : forall x n y i, grid_ok x -> scroll_up x n = Ok y ->
  i < top x \/ bot x < i -> get (live y) i = get (live x) i.
Proof. exact scroll_up_outside. Qed.

Theorem C12_scroll_up_inside_region : forall x n y i, grid_ok x -> scroll_up x n = Ok y ->
  top x <= i <= bot x ->
  get (live y) i = if i + N.min n (grows x - top x) <=? bot x then get (live x) (i + N.min n (grows x - top x))
                   else Some (row_new (gcols x)).
Proof. exact scroll_up_inside. Qed.

(* the recorded lines are the first k live rows, unmodified and in order; the history is the
   suffix of (old history ++ recorded lines) of length at most the capacity *)
Theorem C12_history_is_suffix : forall x n y, grid_ok x -> scroll_up x n = Ok y ->
  0 < sb_cap x -> top x = 0 -> bot x = grows x - 1 ->
  let k := N.min n (grows x) in
  let all := sb x ++ firstnN k (live x) in
  all = firstnN (len all - sb_cap x) all ++ sb y /\
  len (sb y) = N.min (len (sb x) + k) (sb_cap x) /\
  (forall i, i < k -> get (firstnN k (live x)) i = get (live x) i).
Proof. exact scroll_up_history. Qed.

(* pushing one line at a time with a pop_front when over capacity = trimming once *)
Theorem C12_trim_front_app : forall (a b : list row) cap,
  trim_front (trim_front a cap ++ b) cap = trim_front (a ++ b) cap.
Proof. intros. apply trim_front_app. Qed.

(* ------------------------------------------------------------------------------------------ *)
(* 2. capacity: fixed for the life of the parser (also across RIS and set_size); the bound
      len sb <= sb_cap is part of grid_ok and preserved by scroll_up (above). *)
Theorem C12_capacity_new : forall rows cols cap rz p,
  parser_new rows cols cap rz = Ok p -> sb_cap (g (scr p)) = cap.
Proof. exact parser_new_sb_cap. Qed.
Theorem C12_capacity_step : forall p o q, step p o = Ok q -> sb_cap (g (scr q)) = sb_cap (g (scr p)).
Proof. exact step_sb_cap. Qed.
Theorem C12_capacity_run : forall p ops q, run p ops = Ok q -> sb_cap (g (scr q)) = sb_cap (g (scr p)).
Proof. exact run_sb_cap. Qed.
Theorem C12_history_bound : forall x n y, grid_ok x -> scroll_up x n = Ok y -> len (sb y) <= sb_cap y.
Proof. intros x n y H E. destruct (scroll_up_post x n H) as (y' & E' & ((K & _) & _)). rewrite E in E'. inv E'. apply (gk_sbcap _ K). Qed.

(* a scroll can only touch the history if the capacity is positive and no region is active
   (no invariant needed) *)
Theorem C12_not_recorded : forall x n y, scroll_up x n = Ok y ->
  sb_cap y = sb_cap x /\
  (sb_cap x = 0 \/ scroll_region_active x = Ok true -> sb y = sb x /\ sb_cap y = sb_cap x /\ sb_off y = sb_off x).
Proof. exact scroll_up_inv. Qed.

(* ------------------------------------------------------------------------------------------ *)
(* 3. the view *)
Theorem C12_visible_rows : forall x, grid_ok x ->
  visible_rows x = Ok (firstnN (grows x) (lastnN (sb_off x) (sb x)) ++ firstnN (grows x - sb_off x) (live x)).
Proof. exact visible_rows_eq. Qed.
Theorem C12_visible_rows_small : forall x, grid_ok x -> sb_off x <= grows x ->
  visible_rows x = Ok (lastnN (sb_off x) (sb x) ++ firstnN (grows x - sb_off x) (live x)).
Proof. exact visible_rows_small. Qed.
Theorem C12_visible_rows_large : forall x, grid_ok x -> grows x <= sb_off x ->
  visible_rows x = Ok (firstnN (grows x) (skipnN (len (sb x) - sb_off x) (sb x))).
Proof. exact visible_rows_large. Qed.
Theorem C12_visible_rows_len : forall x v, grid_ok x -> visible_rows x = Ok v -> len v = grows x.
Proof. exact visible_rows_len. Qed.
Theorem C12_visible_rows_get : forall x v i, grid_ok x -> visible_rows x = Ok v -> i < grows x ->
  get v i = if i <? sb_off x then get (sb x) (len (sb x) - sb_off x + i) else get (live x) (i - sb_off x).
Proof. exact visible_rows_get. Qed.
Theorem C12_visible_rows_off0 : forall x, grid_ok x -> sb_off x = 0 -> visible_rows x = Ok (live x).
Proof. exact visible_rows_off0. Qed.
Theorem C12_set_scrollback : forall x k,
  grid_set_scrollback x k = with_sb x (sb x) (N.min k (len (sb x))).
Proof. reflexivity. Qed.
Theorem C12_set_scrollback_view : forall x k, grid_ok x ->
  let k' := N.min k (len (sb x)) in
  sb_off (grid_set_scrollback x k) = k' /\
  grid_ok (grid_set_scrollback x k) /\
  (k' <= grows x ->
     visible_rows (grid_set_scrollback x k) = Ok (lastnN k' (sb x) ++ firstnN (grows x - k') (live x))).
Proof. exact set_scrollback_view. Qed.

(* new output keeps the same lines in view while scrolled back, as long as they still fit *)
Theorem C12_view_stable : forall x n y, grid_ok x -> scroll_up x n = Ok y ->
  0 < sb_cap x -> top x = 0 -> bot x = grows x - 1 ->
  0 < sb_off x -> sb_off x + N.min n (grows x) <= sb_cap x ->
  sb_off y = sb_off x + N.min n (grows x) /\ visible_rows y = visible_rows x.
Proof. exact scroll_up_view_stable. Qed.

(* ------------------------------------------------------------------------------------------ *)
(* 4. the offset is purely a view (no invariant needed; panics included) *)
Theorem C12_view_only_eq : forall ops p,
  run (strip p) (filter not_sb ops) = mapr strip (run p ops).
Proof. exact run_strip. Qed.

Theorem C12_view_only : forall p ops q, run p ops = Ok q ->
  exists q', run (strip p) (filter (fun o => negb (is_sb o)) ops) = Ok q' /\ strip q = strip q'.
Proof. exact run_view_only. Qed.

Theorem C12_view_only_panic_free : forall p ops,
  is_ok (run p ops) = is_ok (run (strip p) (filter (fun o => negb (is_sb o)) ops)).
Proof. exact run_ok_iff_stripped. Qed.

Theorem C12_view_only_same_panic : forall p ops k, run p ops = Panic k ->
  run (strip p) (filter (fun o => negb (is_sb o)) ops) = Panic k.
Proof. exact run_panic_same. Qed.

Theorem C12_offset_irrelevant : forall p p' ops, strip p = strip p' ->
  mapr strip (run p ops) = mapr strip (run p' ops).
Proof. exact run_offset_irrelevant. Qed.

Theorem C12_view_only_fields : forall p ops q q',
  run p ops = Ok q -> run (strip p) (filter (fun o => negb (is_sb o)) ops) = Ok q' ->
  live (cur (scr q)) = live (cur (scr q')) /\
  prow (cur (scr q)) = prow (cur (scr q')) /\ pcol (cur (scr q)) = pcol (cur (scr q')) /\
  sb (cur (scr q)) = sb (cur (scr q')) /\ log q = log q' /\ vt q = vt q' /\
  sb_off (g (scr q')) = 0 /\ sb_off (alt (scr q')) = 0.
Proof. exact run_view_only_fields. Qed.

(* strip changes the two offsets and nothing else *)
Theorem C12_strip_meaning : forall x y, sg x = sg y <-> x = with_sb y (sb y) (sb_off x).
Proof. exact sg_eq. Qed.

(* ------------------------------------------------------------------------------------------ *)
(* 5. the alternate screen *)
Theorem C12_alt_nosb_new : forall rows cols cap rz p, parser_new rows cols cap rz = Ok p -> alt_nosb (scr p).
Proof. exact parser_new_alt_nosb. Qed.
Theorem C12_alt_nosb_step : forall p o q, step p o = Ok q -> alt_nosb (scr p) -> alt_nosb (scr q).
Proof. exact step_alt_nosb. Qed.
Theorem C12_alt_nosb_run : forall p ops q, run p ops = Ok q -> alt_nosb (scr p) -> alt_nosb (scr q).
Proof. exact run_alt_nosb. Qed.
Theorem C12_alt_nosb_reachable : forall rows cols cap rz p0 ops p,
  parser_new rows cols cap rz = Ok p0 -> run p0 ops = Ok p ->
  sb (alt (scr p)) = [] /\ sb_cap (alt (scr p)) = 0 /\ sb_cap (g (scr p)) = cap.
Proof.
  intros rows cols cap rz p0 ops p E0 E.
  pose proof (run_alt_nosb _ _ _ E (parser_new_alt_nosb _ _ _ _ _ E0)) as [H1 H2].
  rewrite (run_sb_cap _ _ _ E), (parser_new_sb_cap _ _ _ _ _ E0). auto.
Qed.
Theorem C12_alt_screen_does_not_record : forall rz s a s' e,
  perform rz s a = Ok (s', e) -> altmode s = true -> sb (g s') = sb (g s) \/ sb (g s') = [].
Proof. exact perform_alt_norecord. Qed.
Theorem C12_enter_alt_resets_offset : forall s, altmode s = false ->
  sb_off (g (enter_alternate_grid s)) = 0 /\ sb (g (enter_alternate_grid s)) = sb (g s) /\
  altmode (enter_alternate_grid s) = true.
Proof. exact enter_alt_resets_offset. Qed.
Theorem C12_decset_47 : forall s s' k, altmode s = false -> decset1 s [47] = Ok (s', k) ->
  sb_off (g s') = 0 /\ sb (g s') = sb (g s) /\ altmode s' = true.
Proof. exact decset_47_offset. Qed.
Theorem C12_decset_1049 : forall s s' k, altmode s = false -> decset1 s [1049] = Ok (s', k) ->
  sb_off (g s') = 0 /\ sb (g s') = sb (g s) /\ altmode s' = true.
Proof. exact decset_1049_offset. Qed.

(* ------------------------------------------------------------------------------------------ *)
(* non-vacuity *)
Definition row_first (r : row) : list N := match cells r with c :: _ => ctext c | [] => [] end.

(* 3 rows, capacity 2; "a b c d e f" on six lines: a, b, c scroll off, the history keeps b, c;
   set_scrollback 1 shows c, d, e *)
Example C12_example_history :
  (do p0 <- parser_new 3 4 2 false;
   do p <- run p0 [OpProcess [97;13;10;98;13;10;99;13;10;100;13;10;101;13;10;102]; OpSetScrollback 1];
   do v <- visible_rows (g (scr p));
   Ok (map row_first (sb (g (scr p))), map row_first (live (g (scr p))), sb_off (g (scr p)), map row_first v))
  = Ok ([[98]; [99]], [[100]; [101]; [102]], 1, [[99]; [100]; [101]]).
Proof. vm_compute. reflexivity. Qed.

(* set_scrollback 5 is clamped to the history length 2; further output while scrolled back
   keeps the offset at the (full) history length *)
Example C12_example_clamp :
  (do p0 <- parser_new 3 4 2 false;
   do p <- run p0 [OpProcess [97;13;10;98;13;10;99;13;10;100;13;10;101;13;10;102]; OpSetScrollback 5;
                    OpProcess [13;10;103]];
   Ok (map row_first (sb (g (scr p))), map row_first (live (g (scr p))), sb_off (g (scr p))))
  = Ok ([[99]; [100]], [[101]; [102]; [103]], 2).
Proof. vm_compute. reflexivity. Qed.

(* the same run with and without the set_scrollback calls differs in the offset only *)
Example C12_example_view_only :
  (do p0 <- parser_new 3 4 2 false;
   do p <- run p0 [OpProcess [97;13;10;98;13;10;99;13;10;100]; OpSetScrollback 1; OpProcess [13;10;101]];
   do q <- run p0 [OpProcess [97;13;10;98;13;10;99;13;10;100]; OpProcess [13;10;101]];
   Ok (sb_off (g (scr p)), sb_off (g (scr q)), map row_first (sb (g (scr p))), map row_first (sb (g (scr q))),
       map row_first (live (g (scr p))), map row_first (live (g (scr q)))))
  = Ok (2, 0, [[97]; [98]], [[97]; [98]], [[99]; [100]; [101]], [[99]; [100]; [101]]).
Proof. vm_compute. reflexivity. Qed.

(* a count larger than the region height: region rows 1-2 of 4 (CSI 1;2 r), CSI 5 S.
   Rows 3 and 4 ("c", "d") stay, nothing is recorded although the capacity is 2 *)
Example C12_example_region :
  (do p0 <- parser_new 4 4 2 false;
   do p <- run p0 [OpProcess [97;13;10;98;13;10;99;13;10;100; 27;91;49;59;50;114; 27;91;53;83]];
   Ok (map row_first (sb (g (scr p))), map row_first (live (g (scr p)))))
  = Ok ([], [[]; []; [99]; [100]]).
Proof. vm_compute. reflexivity. Qed.

(* on the alternate screen (CSI ? 47 h) nothing is recorded *)
Example C12_example_alt :
  (do p0 <- parser_new 2 4 2 false;
   do p <- run p0 [OpProcess [27;91;63;52;55;104; 97;13;10;98;13;10;99;13;10;100]];
   Ok (map row_first (sb (g (scr p))), map row_first (sb (alt (scr p))), map row_first (live (alt (scr p)))))
  = Ok ([], [], [[99]; [100]]).
Proof. vm_compute. reflexivity. Qed.

(* capacity 0: nothing is recorded *)
Example C12_example_cap0 :
  (do p0 <- parser_new 2 4 0 false;
   do p <- run p0 [OpProcess [97;13;10;98;13;10;99;13;10;100]];
   Ok (map row_first (sb (g (scr p))), map row_first (live (g (scr p)))))
  = Ok ([], [[99]; [100]]).
Proof. vm_compute. reflexivity. Qed.

(* every theorem above is closed under the global context *)
Print Assumptions C12_scroll_up_closed_form.
Print Assumptions C12_scroll_up.
Print Assumptions C12_scroll_up_never_panics.
Print Assumptions C12_scroll_up_outside_region.
Print Assumptions C12_scroll_up_inside_region.
Print Assumptions C12_history_is_suffix.
Print Assumptions C12_trim_front_app.
Print Assumptions C12_capacity_new.
Print Assumptions C12_capacity_step.
Print Assumptions C12_capacity_run.
Print Assumptions C12_history_bound.
Print Assumptions C12_not_recorded.
Print Assumptions C12_visible_rows.
Print Assumptions C12_visible_rows_small.
Print Assumptions C12_visible_rows_large.
Print Assumptions C12_visible_rows_len.
Print Assumptions C12_visible_rows_get.
Print Assumptions C12_visible_rows_off0.
Print Assumptions C12_set_scrollback.
Print Assumptions C12_set_scrollback_view.
Print Assumptions C12_view_stable.
Print Assumptions C12_view_only_eq.
Print Assumptions C12_view_only.
Print Assumptions C12_view_only_panic_free.
Print Assumptions C12_view_only_same_panic.
Print Assumptions C12_offset_irrelevant.
Print Assumptions C12_view_only_fields.
Print Assumptions C12_strip_meaning.
Print Assumptions C12_alt_nosb_new.
Print Assumptions C12_alt_nosb_step.
Print Assumptions C12_alt_nosb_run.
Print Assumptions C12_alt_nosb_reachable.
Print Assumptions C12_alt_screen_does_not_record.
Print Assumptions C12_enter_alt_resets_offset.
Print Assumptions C12_decset_47.
Print Assumptions C12_decset_1049.
Print Assumptions C12_example_history.
Print Assumptions C12_example_clamp.
Print Assumptions C12_example_view_only.
Print Assumptions C12_example_region.
Print Assumptions C12_example_alt.
Print Assumptions C12_example_cap0.
