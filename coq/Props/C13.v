(* C13 — structural invariants of the cell grid and cursor, for every reachable state. *)
Require Import Tac ListN Utf8 Width Attrs Cell Row Grid Screen Vte Perform Parser RowInv GridInv TextInv ScreenInv CellWf WfGrid WfVte WfInv.
Open Scope N_scope.

(* Every state reachable through the API (construction with legal dimensions, then any
   sequence of process/write chunks of arbitrary bytes, set_size within 1..65520 and
   set_scrollback) exists (no panic) and satisfies the invariant. *)
Theorem C13_reachable : forall rows cols cap rz ops,
  1 <= rows <= MAXDIM -> 1 <= cols <= MAXDIM -> Forall op_ok ops ->
  exists p q, parser_new rows cols cap rz = Ok p /\ run p ops = Ok q /\ parser_ok q.
Proof.
  intros rows cols cap rz ops Hr Hc Hops.
  destruct (parser_new_ok rows cols cap rz Hr Hc) as (p & Ep & Op).
  destruct (run_ok ops p Op Hops) as (q & Eq & Oq). eauto.
Qed.

(* the invariant is inductive over single API steps, so it holds after every step *)
Theorem C13_step : forall p o, parser_ok p -> op_ok o -> exists q, step p o = Ok q /\ parser_ok q.
Proof. exact step_ok. Qed.

(* --- what the invariant says about the live view (scrollback offset 0) --- *)

(* the live view is exactly rows x cols *)
Theorem C13_shape : forall s r c, screen_ok s ->
  ((exists rw cl, get (live (cur s)) r = Some rw /\ get (cells rw) c = Some cl) <->
   (r < grows (cur s) /\ c < gcols (cur s))).
Proof.
  intros s r c H. pose proof (cur_ok _ H) as (K & Hr & Hc). split.
  - intros (rw & cl & Hg & Hcl). split.
    + apply get_some_lt in Hg. now rewrite (gk_live _ K) in Hg.
    + pose proof (Forall_get _ _ _ _ (gk_rowsok _ K) Hg) as [Hl _]. apply get_some_lt in Hcl. now rewrite Hl in Hcl.
  - intros [Hr' Hc']. destruct (live_get (cur s) r (conj K (conj Hr Hc)) Hr') as (rw & Hg & [Hl Hok]).
    destruct (get_lt_some (cells rw) c) as (cl & Hcl); [now rewrite Hl|]. eauto.
Qed.

(* at offset 0 the visible rows are the live rows *)
Theorem C13_visible_live : forall s, screen_ok s -> sb_off (cur s) = 0 ->
  visible_rows (cur s) = Ok (live (cur s)).
Proof.
  intros s H Hoff. unfold visible_rows, subz. rewrite Hoff.
  destruct (N.leb_spec 0 (len (sb (cur s)))); [|lia]. cbn [bind].
  replace (len (sb (cur s)) - 0) with (len (sb (cur s))) by lia.
  unfold skipnN, len. rewrite Nat2N.id, skipn_all. unfold firstnN. rewrite firstn_nil. cbn [app].
  replace (N.of_nat (length (live (cur s))) - 0) with (N.of_nat (length (live (cur s)))) by lia.
  rewrite Nat2N.id, firstn_all. reflexivity.
Qed.

(* the cursor is inside: row < rows, column <= cols *)
Theorem C13_cursor : forall s, screen_ok s ->
  prow (cur s) < grows (cur s) /\ pcol (cur s) <= gcols (cur s).
Proof. intros s H. pose proof (cur_ok _ H) as (_ & Hr & Hc). auto. Qed.

(* wide / continuation pairing in every live row *)
Theorem C13_wide : forall s r rw c cl, screen_ok s ->
  get (live (cur s)) r = Some rw -> get (cells rw) c = Some cl -> cwide cl = true ->
  c + 1 < gcols (cur s) /\ ccont cl = false /\
  exists d, get (cells rw) (c + 1) = Some d /\ ccont d = true /\ cwide d = false.
Proof.
  intros s r rw c cl H Hg Hcl Hw. pose proof (cur_ok _ H) as (K & _).
  pose proof (Forall_get _ _ _ _ (gk_rowsok _ K) Hg) as [Hl Hok].
  destruct (ok_wide_next _ _ _ Hok Hcl Hw) as (d & Hd & Dc & Dw & Cc).
  split; [|split; [exact Cc|eauto]]. apply get_some_lt in Hd. now rewrite Hl in Hd.
Qed.

Theorem C13_cont : forall s r rw c cl, screen_ok s ->
  get (live (cur s)) r = Some rw -> get (cells rw) c = Some cl -> ccont cl = true ->
  0 < c /\ cwide cl = false /\
  exists d, get (cells rw) (c - 1) = Some d /\ cwide d = true /\ ccont d = false.
Proof.
  intros s r rw c cl H Hg Hcl Hc. pose proof (cur_ok _ H) as (K & _).
  pose proof (Forall_get _ _ _ _ (gk_rowsok _ K) Hg) as [Hl Hok].
  destruct (ok_cont_prev _ _ _ Hok Hcl Hc) as (Hi & d & Hd & Dw & Dc & Cw).
  split; [exact Hi|split; [exact Cw|eauto]].
Qed.

(* --- the contents of cells --- *)

(* every cell of every reachable state (live rows and scrollback, both screens) is well-formed *)
Theorem C13_cells_reachable : forall rows cols cap rz ops p q,
  1 <= rows <= MAXDIM -> 1 <= cols <= MAXDIM -> Forall op_ok ops ->
  parser_new rows cols cap rz = Ok p -> run p ops = Ok q -> screen_wf (scr q).
Proof.
  intros rows cols cap rz ops p q Hr Hc Hops Ep Eq.
  destruct (parser_new_ok rows cols cap rz Hr Hc) as (p' & Ep' & Op). rewrite Ep in Ep'. inv Ep'.
  eapply run_wf_strong; eauto. eapply parser_new_wf; eauto.
Qed.

(* what well-formedness means for one cell: a continuation cell is empty (and has default
   attributes); an empty cell is not wide; a non-empty cell is one character of non-zero width
   followed only by zero-width characters, at most 22 bytes of UTF-8, all characters storable
   scalar values; it is wide exactly when the first character is double-width *)
Theorem C13_cell_wf_meaning : forall c, cell_wf c ->
  (ccont c = true -> ctext c = [] /\ cattrs c = dflt) /\
  (has_contents c = true <-> ctext c <> []) /\
  (ctext c = [] -> cwide c = false) /\
  (forall ch rest, ctext c = ch :: rest ->
     wd ch <> Some 0 /\ (cwide c = true <-> wd ch = Some 2) /\ Forall (fun z => wd z = Some 0) rest) /\
  text_len (ctext c) <= 22 /\
  Forall (fun z => is_scalar z = true) (ctext c).
Proof.
  intros c H. split; [|split; [|split; [|split; [|split]]]].
  - intros Hc. split; [apply (proj1 H Hc)|eapply wf_cont_dflt; eauto].
  - apply wf_has_contents; exact H.
  - apply H.
  - apply H.
  - apply wf_text_len; exact H.
  - apply wf_scalar; exact H.
Qed.

(* non-vacuity: a concrete history with a wide character, a resize and a scrolled view *)
Example C13_example : exists p q,
  parser_new 3 5 2 false = Ok p /\
  run p [OpProcess [97; 228; 184; 150; 13; 10; 10; 10]; OpSetSize 2 4; OpSetScrollback 1; OpProcess [120]] = Ok q /\
  parser_ok q /\ sb_off (g (scr q)) = 1.
Proof.
  destruct (C13_reachable 3 5 2 false
    [OpProcess [97; 228; 184; 150; 13; 10; 10; 10]; OpSetSize 2 4; OpSetScrollback 1; OpProcess [120]])
    as (p & q & Ep & Eq & Oq).
  - unfold MAXDIM; lia.
  - unfold MAXDIM; lia.
  - repeat constructor; unfold MAXDIM; lia.
  - exists p, q. split; [exact Ep|]. split; [exact Eq|]. split; [exact Oq|].
    vm_compute in Ep. inv Ep. vm_compute in Eq. inv Eq. reflexivity.
Qed.
