(* C16 — resize keeps the state safe. (Cell preservation clauses: see ResizeSpec when available.) *)
Require Import Tac ListN Cell Row Grid Screen Vte Perform Parser RowInv GridInv TextInv ScreenInv.
Open Scope N_scope.

(* set_size(r,c) never panics on a reachable screen, both grids report (r,c), and the result
   satisfies the full invariant again: cursor, saved cursor and scroll region are inside the
   new bounds, every row has the new width, no wide character is cut in half. *)
Theorem C16_safe : forall s r c, screen_ok s -> 1 <= r <= MAXDIM -> 1 <= c <= MAXDIM ->
  exists s', screen_set_size s r c = Ok s' /\ screen_ok s' /\
    grows (g s') = r /\ gcols (g s') = c /\ grows (alt s') = r /\ gcols (alt s') = c.
Proof.
  intros s r c H Hr Hc. destruct (screen_set_size_ok s r c H Hr Hc) as (s' & E & O & R & C).
  exists s'. split; [exact E|]. split; [exact O|]. split; [exact R|]. split; [exact C|].
  split; [rewrite (so_rows _ O); exact R|rewrite (so_cols _ O); exact C].
Qed.

(* the clamps, spelled out *)
Theorem C16_clamp : forall s, screen_ok s ->
  let x := cur s in
  prow x < grows x /\ pcol x <= gcols x /\ sprow x < grows x /\ spcol x <= gcols x /\
  bot x < grows x /\ (top x < bot x \/ (top x = 0 /\ bot x = grows x - 1)).
Proof.
  intros s H x. pose proof (cur_ok _ H) as (K & Hr & Hc). fold x in K, Hr, Hc.
  repeat split; auto; try apply K.
Qed.

(* "After it every other property continues to hold": the invariant is the only state hypothesis
   of the other theorems, and no later input can panic or leave it — including DECRC, leaving the
   alternate screen, writing at the new right edge, and set_size called from the resize callback
   (perform with the resizing policy). *)
Theorem C16_after : forall p r c ops, parser_ok p -> 1 <= r <= MAXDIM -> 1 <= c <= MAXDIM -> Forall op_ok ops ->
  exists q, run p (OpSetSize r c :: ops) = Ok q /\ parser_ok q.
Proof.
  intros p r c ops H Hr Hc Hops. apply run_ok; [exact H|]. constructor; [split; assumption|exact Hops].
Qed.

Theorem C16_callback : forall s ps, screen_ok s ->
  exists s' evs, perform true s (ACsi ps [] false 116) = Ok (s', evs) /\ screen_ok s'.
Proof. intros s ps H. apply perform_ok. exact H. Qed.

(* scrollback history and capacity are kept by a resize *)
Theorem C16_history : forall s r c s', screen_ok s -> 1 <= r <= MAXDIM -> 1 <= c <= MAXDIM ->
  screen_set_size s r c = Ok s' -> sb (g s') = sb (g s) /\ sb_cap (g s') = sb_cap (g s).
Proof.
  intros s r c s' H Hr Hc E. unfold screen_set_size in E.
  destruct (grid_set_size_post (g s) r c (grid_ok_ok0 _ (so_g _ H)) Hr Hc) as (g1 & E1 & _ & _ & _ & Cap & Sb).
  rewrite E1 in E. cbn [bind] in E.
  destruct (grid_set_size_post (alt s) r c (so_alt _ H) Hr Hc) as (a1 & E2 & _).
  rewrite E2 in E. cbn [bind] in E. inv E. cbn. auto.
Qed.
