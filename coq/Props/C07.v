(* C07 — ED, EL and ECH (and the DEC selective forms) blank exactly the addressed range with the
   pen's attributes, also blank the other half of a wide character cut by a range boundary, clear a
   line's wrap flag exactly when its last column is blanked, and change nothing else; unknown modes
   change nothing.  Proofs are in EraseSpec.v; this file restates the main theorems. *)
Require Import Tac ListN Attrs Cell Row Grid Screen Vte Perform Parser RowInv GridInv ScreenInv EraseSpec.
Open Scope N_scope.

(* ---- row level: erasing the columns [lo, hi) one Row::erase at a time ---- *)
Theorem C07_row : forall cols rw a lo hi,
  row_ok cols rw -> cols <= 65535 -> lo <= hi -> hi <= cols ->
  exists rw', for_range (N.to_nat (hi - lo)) lo (fun col r => row_erase r col a) rw = Ok rw' /\
    row_ok cols rw' /\
    (forall c, get (cells rw') c =
       if (lo <=? c) && (c <? hi) then Some (mkCell [] false false a)
       else if ((lo <? hi) && (c + 1 =? lo) && fc (cells rw) lo) || ((lo <? hi) && (c =? hi) && fw (cells rw) (hi - 1))
            then option_map clear_own (get (cells rw) c)
       else get (cells rw) c) /\
    wrapped rw' = if blanked (cells rw) lo hi (cols - 1) then false else wrapped rw.
Proof.
  intros cols rw a lo hi Hrw Hc Hle Hhi.
  destruct (row_erase_range_spec cols rw a lo hi Hrw Hc Hle Hhi) as (rw' & E & Hrw' & [C W]).
  exists rw'. split; [exact E|]. split; [exact Hrw'|]. split; [exact C|exact W].
Qed.

(* the wrap flag: cleared iff the last column is blanked, i.e. iff the (non-empty) range reaches the
   end of the line, or stops at the last column while that column is the second half of a wide
   character whose first half is erased *)
Theorem C07_row_wrap_condition : forall cols cs lo hi,
  len cs = cols -> cells_ok cs -> lo <= hi -> hi <= cols -> 1 <= cols ->
  blanked cs lo hi (cols - 1) = (lo <? hi) && ((hi =? cols) || ((hi =? cols - 1) && fw cs (cols - 2))).
Proof. exact blanked_last. Qed.

(* ... and this is the model's own condition "some erased column i equals cols - (2 if wide else 1)" *)
Theorem C07_row_wrap_model : forall cols cs lo hi,
  len cs = cols -> cells_ok cs -> lo <= hi -> hi <= cols -> 1 <= cols ->
  (blanked cs lo hi (cols - 1) = true <-> exists i, lo <= i < hi /\ i = cols - (if fw cs i then 2 else 1)).
Proof. exact blanked_last_model. Qed.

(* ---- grid level: the seven operations ---- *)
Theorem C07_grid : forall op x a, grid_ok x ->
  exists rows', erase_grid op x a = Ok (with_live x rows') /\ erase_post op a x rows'.
Proof. exact erase_grid_spec. Qed.

(* the post-condition pins the result down completely *)
Theorem C07_grid_unique : forall op a x l1 l2, erase_post op a x l1 -> erase_post op a x l2 -> l1 = l2.
Proof. exact erase_post_unique. Qed.

(* the cells, pointwise *)
Theorem C07_cells : forall op a x rows', grid_ok x -> erase_post op a x rows' ->
  forall r c, drawing_cell (with_live x rows') r c =
    if in_range op (gcols x) (prow x) (pcol x) r c
    then (if (r <? grows x) && (c <? gcols x) then Some (blank a) else None)
    else if cut_half op x r c then option_map clear_own (drawing_cell x r c)
    else drawing_cell x r c.
Proof. exact erase_cells_pointwise. Qed.

(* the wrap flags, pointwise *)
Theorem C07_wrap : forall op a x rows', grid_ok x -> erase_post op a x rows' ->
  forall r, option_map wrapped (get rows' r) =
    option_map (fun rw => if in_range op (gcols x) (prow x) (pcol x) r (gcols x - 1) || cut_half op x r (gcols x - 1)
                          then false else wrapped rw) (get (live x) r).
Proof. exact erase_wrap_pointwise. Qed.

(* lines outside the range are untouched, whole lines inside it are Row::clear-ed *)
Theorem C07_rows_untouched : forall op a x rows', erase_post op a x rows' ->
  forall r, r <> prow x -> whole_row op (prow x) r = false -> get rows' r = get (live x) r.
Proof. exact erase_row_untouched. Qed.
Theorem C07_rows_cleared : forall op a x rows', erase_post op a x rows' ->
  forall r, r <> prow x -> whole_row op (prow x) r = true -> get rows' r = option_map (row_clear a) (get (live x) r).
Proof. exact erase_row_cleared. Qed.

(* ---- screen level ---- *)
Theorem C07_screen : forall op s, screen_ok s ->
  exists rows', scr_erase op s = Ok (with_cur s (with_live (cur s) rows'), 0) /\
                erase_post op (pen s) (cur s) rows' /\
                screen_ok (with_cur s (with_live (cur s) rows')).
Proof.
  intros op s H. destruct (scr_erase_spec op s (cur_ok _ H)) as (rows' & E & P).
  exists rows'. split; [exact E|]. split; [exact P|].
  apply with_cur_ok; [exact H|exact (erase_post_ok _ _ _ _ (cur_ok _ H) P)|apply frame_live].
Qed.

(* ---- perform: CSI J, CSI K, CSI X, CSI ? J, CSI ? K ---- *)
Theorem C07_perform_ed_el : forall rz s ps inter ig c op,
  screen_ok s -> erase_inter inter -> csi_erase_op c ps = Some op ->
  exists rows', perform rz s (ACsi ps inter ig c) = Ok (with_cur s (with_live (cur s) rows'), []) /\
                erase_post op (pen s) (cur s) rows'.
Proof. intros rz s ps inter ig c op H. apply perform_erase. now apply cur_ok. Qed.

Theorem C07_perform_ech : forall rz s ps ig, screen_ok s ->
  exists rows', perform rz s (ACsi ps [] ig 88) = Ok (with_cur s (with_live (cur s) rows'), []) /\
                erase_post (ECH (canon1 ps 1)) (pen s) (cur s) rows'.
Proof. intros rz s ps ig H. apply perform_ech. now apply cur_ok. Qed.

Theorem C07_unknown_mode : forall rz s ps inter ig c,
  erase_inter inter -> c = 74 \/ c = 75 -> 2 < canon1 ps 0 ->
  perform rz s (ACsi ps inter ig c) = Ok (s, [EUnhCsi (nth_error inter 0) (nth_error inter 1) ps c]).
Proof. exact perform_erase_unknown. Qed.

Theorem C07_unknown_mode_scr : forall s m, 2 < m -> scr_ed s m = Ok (s, 1) /\ scr_el s m = Ok (s, 1).
Proof. intros s m H. split; [now apply scr_ed_unknown|now apply scr_el_unknown]. Qed.

Theorem C07_dec_selective : forall rz s ps rest ig ig' c, c = 74 \/ c = 75 ->
  res_map (fun r => (fst r, map forget_inter (snd r))) (perform rz s (ACsi ps (63 :: rest) ig c)) =
  perform rz s (ACsi ps [] ig' c).
Proof. exact perform_dec_selective. Qed.

Theorem C07_ech_clipped : forall x n a, grid_ok x -> gcols x <= pcol x + n ->
  erase_cells x n a = erase_row_forward x a.
Proof. exact ech_clipped. Qed.

(* ------------------------------------------------------------------ *)
(* Non-vacuity: concrete screens                                       *)
(* ------------------------------------------------------------------ *)
Definition green := set_fg (CIdx 2) dflt.
Definition red := set_fg (CIdx 1) dflt.
Definition ch (a : attrs) (c : N) : cell := mkCell [c] false false a.
Definition wide1 (a : attrs) (c : N) : cell := mkCell [c] true false a.
Definition cont2 : cell := mkCell [] false true dflt.

(* "ab世de" with a, b and 世 in green; the line has wrapped into the next one *)
Definition rowA : row := mkRow [ch green 97; ch green 98; wide1 green 19990; cont2; ch dflt 100; ch dflt 101] true.
Definition rowB : row := mkRow [ch dflt 102; cell_new; cell_new; cell_new; cell_new; cell_new] false.
(* "abcd世": the wide character occupies the last two columns *)
Definition rowC : row := mkRow [ch dflt 97; ch dflt 98; ch dflt 99; ch dflt 100; wide1 dflt 19990; cont2] true.

Definition mkg (rows : list row) (r c : N) : grid := mkGrid 2 6 r c 0 0 rows 0 1 false false [] 0 0.
Definition mks (rows : list row) (r c : N) : screen :=
  mkScreen (mkg rows r c) (mkGrid 2 6 0 0 0 0 [] 0 1 false false [] 0 0) red dflt
           false false false false false MNone EDefault.

(* these screens are reachable: a 2x6 parser fed "ESC[32m ab世 ESC[m def ESC[A ESC[6G e ESC[31m"
   ends on line 0 in the pending-wrap column 6 with that line's wrap flag set *)
Example C07_ex_reachable :
  (do p <- parser_new 2 6 0 false;
   do q <- process p [27;91;51;50;109; 97;98;228;184;150; 27;91;109; 100;101;102; 27;91;65; 27;91;54;71; 101; 27;91;51;49;109];
   Ok (scr q)) = Ok (mks [rowA; rowB] 0 6).
Proof. vm_compute. reflexivity. Qed.
Example C07_ex_reachable_C :
  (do p <- parser_new 2 6 0 false;
   do q <- process p [97;98;99;100;228;184;150;102; 27;91;65; 27;91;53;71; 27;91;51;49;109];
   Ok (scr q)) = Ok (mks [rowC; rowB] 0 4).
Proof. vm_compute. reflexivity. Qed.

(* they satisfy the hypotheses of the theorems *)
Lemma mkg_ok rows r c : r < 2 -> c <= 6 -> Forall (fun rw => len (cells rw) = 6 /\ pairs_okb false (cells rw) = true) rows ->
  len rows = 2 -> grid_ok (mkg rows r c).
Proof.
  intros Hr Hc F L. split; [|cbn; lia]. split; cbn; try (unfold MAXDIM; lia); auto.
  eapply Forall_impl; [|exact F]. intros rw [H1 H2]. split; [exact H1|now apply cells_okb_sound].
Qed.

Example C07_ex_ok_A r c : r < 2 -> c <= 6 -> grid_ok (cur (mks [rowA; rowB] r c)).
Proof. intros. apply mkg_ok; [lia|lia|repeat constructor|reflexivity]. Qed.
Example C07_ex_ok_C r c : r < 2 -> c <= 6 -> grid_ok (cur (mks [rowC; rowB] r c)).
Proof. intros. apply mkg_ok; [lia|lia|repeat constructor|reflexivity]. Qed.

Definition bl (a : attrs) : cell := mkCell [] false false a.

(* (1) pending wrap (cursor column = cols = 6): EL 0 and ECH address no cell; nothing changes, the wrap flag stays *)
Example C07_ex_pending_el0 :
  perform false (mks [rowA; rowB] 0 6) (ACsi [] [] false 75) = Ok (mks [rowA; rowB] 0 6, []) /\
  perform false (mks [rowA; rowB] 0 6) (ACsi [[5]] [] false 88) = Ok (mks [rowA; rowB] 0 6, []).
Proof. vm_compute. split; reflexivity. Qed.
(* ... EL 1 from the pending-wrap column blanks the whole line with the pen and clears its wrap flag *)
Example C07_ex_pending_el1 :
  perform false (mks [rowA; rowB] 0 6) (ACsi [[1]] [] false 75) =
  Ok (mks [mkRow [bl red; bl red; bl red; bl red; bl red; bl red] false; rowB] 0 6, []).
Proof. vm_compute. reflexivity. Qed.
(* ... ED 0 from the pending-wrap column leaves the cursor line (and its flag) and clears the line below *)
Example C07_ex_pending_ed0 :
  perform false (mks [rowA; rowB] 0 6) (ACsi [] [] false 74) =
  Ok (mks [rowA; mkRow [bl red; bl red; bl red; bl red; bl red; bl red] false] 0 6, []).
Proof. vm_compute. reflexivity. Qed.

(* (2) a wide character straddling the boundary.  EL 0 with the cursor on the continuation half
   (column 3): columns 3..5 get the pen (red); the first half in column 2 is blanked too, keeping its
   own attributes (green); columns 0, 1 are untouched; the wrap flag is cleared *)
Example C07_ex_cut_lo :
  perform false (mks [rowA; rowB] 0 3) (ACsi [] [] false 75) =
  Ok (mks [mkRow [ch green 97; ch green 98; bl green; bl red; bl red; bl red] false; rowB] 0 3, []).
Proof. vm_compute. reflexivity. Qed.
(* ECH 1 with the cursor on the first half (column 2): column 2 gets the pen, the continuation half
   in column 3 is blanked with its own (default) attributes; everything else, and the flag, stays *)
Example C07_ex_cut_hi :
  perform false (mks [rowA; rowB] 0 2) (ACsi [[1]] [] false 88) =
  Ok (mks [mkRow [ch green 97; ch green 98; bl red; bl dflt; ch dflt 100; ch dflt 101] true; rowB] 0 2, []).
Proof. vm_compute. reflexivity. Qed.
(* EL 1 / ED 1 with the cursor on the first half *)
Example C07_ex_cut_hi_el1 :
  perform false (mks [rowA; rowB] 0 2) (ACsi [[1]] [] false 75) =
  Ok (mks [mkRow [bl red; bl red; bl red; bl dflt; ch dflt 100; ch dflt 101] true; rowB] 0 2, []) /\
  perform false (mks [rowB; rowA] 1 2) (ACsi [[1]] [] false 74) =
  Ok (mks [mkRow [bl red; bl red; bl red; bl red; bl red; bl red] false;
           mkRow [bl red; bl red; bl red; bl dflt; ch dflt 100; ch dflt 101] true] 1 2, []).
Proof. vm_compute. split; reflexivity. Qed.

(* (3) the wide character fills the last two columns: ECH 1 on its first half (column 4) addresses
   column 4 only, but the last column is blanked as the cut half, so the wrap flag is cleared *)
Example C07_ex_cut_last :
  perform false (mks [rowC; rowB] 0 4) (ACsi [] [] false 88) =
  Ok (mks [mkRow [ch dflt 97; ch dflt 98; ch dflt 99; ch dflt 100; bl red; bl dflt] false; rowB] 0 4, []).
Proof. vm_compute. reflexivity. Qed.
(* erasing only the continuation half in the last column: the first half is cut, the flag is cleared *)
Example C07_ex_cont_last :
  perform false (mks [rowC; rowB] 0 5) (ACsi [] [] false 75) =
  Ok (mks [mkRow [ch dflt 97; ch dflt 98; ch dflt 99; ch dflt 100; bl dflt; bl red] false; rowB] 0 5, []).
Proof. vm_compute. reflexivity. Qed.

(* (4) ECH with a huge count is clipped to the line *)
Example C07_ex_ech_clip :
  perform false (mks [rowA; rowB] 0 4) (ACsi [[65535]] [] false 88) =
  Ok (mks [mkRow [ch green 97; ch green 98; wide1 green 19990; cont2; bl red; bl red] false; rowB] 0 4, []).
Proof. vm_compute. reflexivity. Qed.

(* (5) unknown modes and the DEC selective forms *)
Example C07_ex_unknown :
  perform false (mks [rowA; rowB] 0 3) (ACsi [[3]] [] false 75) = Ok (mks [rowA; rowB] 0 3, [EUnhCsi None None [[3]] 75]) /\
  perform false (mks [rowA; rowB] 0 3) (ACsi [[3]] [63] false 74) = Ok (mks [rowA; rowB] 0 3, [EUnhCsi (Some 63) None [[3]] 74]).
Proof. vm_compute. split; reflexivity. Qed.
Example C07_ex_selective :
  perform false (mks [rowA; rowB] 0 3) (ACsi [] [63] false 75) = perform false (mks [rowA; rowB] 0 3) (ACsi [] [] false 75).
Proof. vm_compute. reflexivity. Qed.

(* the general theorem applied to a concrete screen *)
Example C07_ex_instance :
  exists rows', perform false (mks [rowA; rowB] 0 3) (ACsi [] [] false 75)
                = Ok (with_cur (mks [rowA; rowB] 0 3) (with_live (cur (mks [rowA; rowB] 0 3)) rows'), []) /\
                erase_post EL0 red (cur (mks [rowA; rowB] 0 3)) rows'.
Proof.
  apply (perform_erase false (mks [rowA; rowB] 0 3) [] [] false 75 EL0).
  - apply C07_ex_ok_A; lia.
  - left; reflexivity.
  - reflexivity.
Qed.

Print Assumptions C07_row.
Print Assumptions C07_row_wrap_condition.
Print Assumptions C07_row_wrap_model.
Print Assumptions C07_grid.
Print Assumptions C07_grid_unique.
Print Assumptions C07_cells.
Print Assumptions C07_wrap.
Print Assumptions C07_rows_untouched.
Print Assumptions C07_rows_cleared.
Print Assumptions C07_screen.
Print Assumptions C07_perform_ed_el.
Print Assumptions C07_perform_ech.
Print Assumptions C07_unknown_mode.
Print Assumptions C07_unknown_mode_scr.
Print Assumptions C07_dec_selective.
Print Assumptions C07_ech_clipped.
Print Assumptions C07_ex_instance.
Print Assumptions C07_ex_reachable.
