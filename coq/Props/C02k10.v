(* C02k10 — property C02 (contents_diff / state_diff) on the complement of the D10 class.

   k10 P S (executable, over the visible rows of the two screens):
       some row r, not the last, is soft-wrapped in BOTH screens, P has a WIDE character at column
       cols-2 of row r where S has NO contents (an empty cell or the second half of a wide character
       that starts at cols-3), and the first cells of row r+1 are EQUAL in P and S.
   What happens there (finding D10): the diff's own ECH (cutting P's wide character) or wide print
   (over its first half) makes the receiver clear the wrap flag of row r; the last cell of the row
   is then printed, which leaves the cursor in the pending-wrap column, and the flag would be
   re-created by the first output for row r+1 going through that wrap — but the first cell of row
   r+1 is unchanged, so nothing goes through it, and prev_wrapping = true keeps the re-creating
   block from firing.

   THEOREM (C02sem_K): for reachable P, S of equal size at scrollback offset 0 with k10 P S = false,
   the byte-level round trip DiffRound.diff_round_ok holds.  Class W of Props/C02sem.v (hence class U)
   is inside (C02k10_W_inside); the D10 witness has k10 = true (C02k10_d10).
   Exploration (REPORT): on 50 million ordered pairs of small reachable screens with soft-wrapped
   rows, diff_round_ok fails EXACTLY on the pairs with k10 = true, and only wrap flags differ there. *)
Require Import Tac ListN Utf8 Width Attrs Cell Row Grid Screen Vte Perform Parser Term Emit.
Require Import RowInv GridInv TextInv ScreenInv ParseSer CellWf WfGrid WfInv WrapInv WrapInvScreen SgrSpec EmitSafe ObsSpec.
Require Import AttrsInv EmitTokens CellInv Recv RowPaint Redraw Cursor C01Main C15Main CapInv Idem LastRow C01Examples Bytes.
Require Import DiffRound DiffPaint DiffGrid DiffMain DiffRoundU DiffWrap DiffK10 DiffRoundK.
Open Scope N_scope.

(* ---- the predicate, restated ---- *)
Theorem C02k10_cellat_def : forall r c, cellat r c = match get (cells r) c with Some x => x | None => cell_new end.
Proof. reflexivity. Qed.
Print Assumptions C02k10_cellat_def.

Theorem C02k10_at_def : forall cols p s p1 s1, k10_at cols p s p1 s1 =
  wrapped p && wrapped s && cwide (cellat p (cols - 2)) && negb (has_contents (cellat s (cols - 2)))
  && cell_eqb (cellat p1 0) (cellat s1 0).
Proof. reflexivity. Qed.
Print Assumptions C02k10_at_def.

(* k10_rows: some consecutive rows (r, r+1) satisfy k10_at *)
Theorem C02k10_rows_def : forall cols pv sv, k10_rows cols pv sv = true <->
  exists i p s p1 s1, get pv i = Some p /\ get sv i = Some s /\ get pv (i + 1) = Some p1 /\ get sv (i + 1) = Some s1 /\
                      k10_at cols p s p1 s1 = true.
Proof.
  intros cols pv sv. split; [apply k10_rows_true|].
  intros (i & p & s & p1 & s1 & G1 & G2 & G3 & G4 & E).
  destruct (k10_rows cols pv sv) eqn:Hk; [reflexivity|].
  rewrite (k10_rows_false cols pv sv i p s p1 s1 Hk G1 G2 G3 G4) in E. discriminate.
Qed.
Print Assumptions C02k10_rows_def.

Theorem C02k10_def : forall P S, k10 P S =
  (2 <=? gcols (cur P)) && k10_rows (gcols (cur P)) (live (cur P)) (live (cur S)).
Proof. reflexivity. Qed.
Print Assumptions C02k10_def.

(* ---- MAIN THEOREM ---- *)
Theorem C02sem_K : forall P S, reachable P -> reachable S -> sb_off (cur P) = 0 -> sb_off (cur S) = 0 ->
  grows (cur P) = grows (cur S) -> gcols (cur P) = gcols (cur S) ->
  k10 P S = false -> diff_round_ok P S.
Proof. exact diff_round_ok_K. Qed.
Print Assumptions C02sem_K.

Theorem C02sem_K_strong : forall P S, reachable P -> reachable S -> sb_off (cur P) = 0 -> sb_off (cur S) = 0 ->
  grows (cur P) = grows (cur S) -> gcols (cur P) = gcols (cur S) ->
  k10 P S = false ->
  exists r, diff_round P S = Ok r /\ obs (scr r) = obs S /\ log r = [] /\ ground (vt r) /\ canvas (scr r).
Proof. exact diff_round_K_strong. Qed.
Print Assumptions C02sem_K_strong.

(* ---- the earlier classes are inside ---- *)
Theorem C02k10_W_inside : forall P S, reachable P -> in_W P S -> k10 P S = false.
Proof. intros P S RP. apply in_W_not_k10. apply (reachable_inv _ RP). Qed.
Print Assumptions C02k10_W_inside.

Theorem C02k10_U_inside : forall P S, reachable P -> in_U P -> in_U S -> k10 P S = false.
Proof. intros P S RP. apply in_U_not_k10. apply (reachable_inv _ RP). Qed.
Print Assumptions C02k10_U_inside.

(* ---- the D10 witness is in k10 ---- *)
Theorem C02k10_d10 :
  (do Pr <- after 2 2 d10_P; do Sc <- after 2 2 d10_S; Ok (k10 Pr Sc)) = Ok true.
Proof. vm_compute. reflexivity. Qed.
Print Assumptions C02k10_d10.

(* ---- chains ---- *)
Theorem C02k10_chain_def : forall rows cols prev s rest,
  chain_K rows cols prev (s :: rest) <->
  (reachable s /\ sb_off (cur s) = 0 /\ grows (cur s) = rows /\ gcols (cur s) = cols /\
   k10 prev s = false /\ chain_K rows cols s rest).
Proof. intros. reflexivity. Qed.
Print Assumptions C02k10_chain_def.

Theorem C02sem_K_chain : forall rows cols S0 snaps,
  reachable S0 -> sb_off (cur S0) = 0 -> grows (cur S0) = rows -> gcols (cur S0) = cols ->
  chain_K rows cols S0 snaps ->
  exists r r', reproduce S0 = Ok r /\ diff_chain r S0 snaps = Ok r' /\
               obs (scr r') = obs (last_snap S0 snaps) /\ log r' = [] /\ ground (vt r').
Proof. exact diff_chain_round_K. Qed.
Print Assumptions C02sem_K_chain.

Theorem C02sem_K_chain_step : forall rows cols snaps prev r,
  reachable prev -> sb_off (cur prev) = 0 -> grows (cur prev) = rows -> gcols (cur prev) = cols ->
  chain_K rows cols prev snaps ->
  pend r = [] ->   (* the receiving parser holds no bytes of an unfinished utf-8 character back *)
  ground (vt r) -> shows prev (scr r) (live (cur prev)) -> same_modes prev (scr r) ->
  exists r', diff_chain r prev snaps = Ok r' /\ log r' = log r /\ ground (vt r') /\
             shows (last_snap prev snaps) (scr r') (live (cur (last_snap prev snaps))) /\
             same_modes (last_snap prev snaps) (scr r') /\
             obs (scr r') = obs (last_snap prev snaps).
Proof. exact diff_chain_K. Qed.
Print Assumptions C02sem_K_chain_step.

(* ---- the levels below ---- *)
(* Prop form of "not k10" used by the proofs *)
Theorem C02k10_free_def : forall cols pvr vr, K10free cols pvr vr <->
  forall i p s p1 s1, get pvr i = Some p -> get vr i = Some s -> get pvr (i + 1) = Some p1 -> get vr (i + 1) = Some s1 ->
    wrapped p = true -> wrapped s = true -> 2 <= cols -> fw (cells p) (cols - 2) = true ->
    (forall x, get (cells s) (cols - 2) = Some x -> has_contents x = false) ->
    get (cells s1) 0 <> get (cells p1) 0.
Proof. intros. reflexivity. Qed.
Print Assumptions C02k10_free_def.

Theorem C02sem_K_state_diff : forall S P R vr pvr ts,
  source_ok S vr -> source_ok P pvr -> K10free (gcols (cur S)) pvr vr ->
  (forall src, get vr (grows (cur S) - 1) = Some src -> wrapped src = false) ->
  grows (cur S) = grows (cur P) -> gcols (cur S) = gcols (cur P) ->
  shows P R pvr -> same_modes P R -> state_diff_t S P = Ok ts ->
  exists R', plays R ts R' /\ shows S R' vr /\ same_modes S R'.
Proof. exact state_diff_plays_K. Qed.
Print Assumptions C02sem_K_state_diff.

Theorem C02sem_K_grid_diff : forall R x px vr pvr pa,
  canvas R -> vrows_ok (gcols (g R)) vr -> vrows_ok (gcols (g R)) pvr ->
  K10free (gcols (g R)) pvr vr ->
  (forall src, get vr (grows (g R) - 1) = Some src -> wrapped src = false) ->
  visible_rows x = Ok vr -> visible_rows px = Ok pvr ->
  len vr = grows (g R) -> len pvr = grows (g R) -> gcols x = gcols (g R) ->
  prow x < grows (g R) -> pcol x <= gcols (g R) ->
  cv R pvr (prow px) (pcol px) -> pen_ok pa ->
  exists ts a' R2,
    grid_contents_diff x px pa = Ok (ts, a') /\
    plays (rcv R pvr (prow px) (pcol px) pa) ts (rcv R2 vr (prow x) (pcol x) a') /\
    cv R2 vr (prow x) (pcol x) /\ same_base R R2 /\ pen_ok a'.
Proof. exact grid_diff_plays_K. Qed.
Print Assumptions C02sem_K_grid_diff.

(* the row painter with both wrap carries, the wrap-re-creating block, printing / erasing through
   the pending wrap, the receiver clearing its own flag, and the flag-repair block.
   Receiver: row i shows prev exactly; when w (row i-1 flagged in S) the receiver's row i-1 (rprev)
   has an occupied last cell and is flagged already, or the cursor waits in its pending-wrap column
   and, if pw, the first cells of row i differ.
   Afterwards: row i-1 is flagged when w; row i has src's cells; its flag is clear when src is not
   flagged; when src is flagged it is set, or clear with the cursor pending at (i, cols) — and if
   prev was flagged too, then prev has a wide character at cols-2 where src has no contents. *)
Theorem C02sem_K_row_diff : forall R i src prev w pw l0 rprev r0 c0 a0,
  i < grows (g R) -> srow_ok (gcols (g R)) src -> srow_ok (gcols (g R)) prev ->
  row_wrapinv src -> row_wrapinv prev -> cv R l0 r0 c0 -> pen_ok a0 -> get l0 i = Some prev ->
  (w = true ->
     1 <= i /\ get l0 (i - 1) = Some rprev /\
     (exists lc, get (cells rprev) (gcols (g R) - 1) = Some lc /\ has_contents lc || ccont lc = true) /\
     (wrapped rprev = true \/ (r0 + 1 = i /\ c0 = gcols (g R) /\ (pw = true -> get (cells src) 0 <> get (cells prev) 0)))) ->
  exists ts r1 c1 a1 ri,
    row_diff src prev 0 (gcols (g R)) i w pw (r0, c0) a0 = Ok (ts, (r1, c1), a1) /\
    plays (rcv R l0 r0 c0 a0) ts (rcv R (set_at (wLfin i w l0 rprev) i ri) r1 c1 a1) /\
    cv R (set_at (wLfin i w l0 rprev) i ri) r1 c1 /\ pen_ok a1 /\ cells ri = cells src /\
    (wrapped src = false -> wrapped ri = false) /\
    (wrapped src = true -> wrapped ri = true \/
       (wrapped ri = false /\ r1 = i /\ c1 = gcols (g R) /\ (wrapped prev = true -> Wcond R src prev))).
Proof. exact row_diff_wrap. Qed.
Print Assumptions C02sem_K_row_diff.

Theorem C02k10_wLfin_def : forall i w l0 rprev,
  wLfin i w l0 rprev = if w then set_at l0 (i - 1) (row_wrap true rprev) else l0.
Proof. reflexivity. Qed.
Print Assumptions C02k10_wLfin_def.

Theorem C02k10_Wcond_def : forall R src prev, Wcond R src prev <->
  (2 <= gcols (g R) /\ fw (cells prev) (gcols (g R) - 2) = true /\
   forall x, get (cells src) (gcols (g R) - 2) = Some x -> has_contents x = false).
Proof. intros. reflexivity. Qed.
Print Assumptions C02k10_Wcond_def.

(* ------------------------------------------------------------------ *)
(* non-vacuity: pairs outside W in which the diff changes wrapped rows  *)
(* ------------------------------------------------------------------ *)
(* 3 x 4.
   A = "ab" U+4E16 "e"          row 0 = a b W W' FLAGGED, row 1 = e
   B = "ab" CUF "x" "q"         row 0 = a b _ x  FLAGGED, row 1 = q     (the D10 clearing happens: the ECH at
                                 column 2 cuts A's wide character; but row 1 starts differently, so the
                                 first print for row 1 goes through the pending wrap and re-creates the flag)
   C = "ab"                     no flagged row
   round trips  A -> B (flag cleared and re-created),  C -> A (flag created),  A -> C (flag removed) *)
Definition exK_A : list N := [97;98;228;184;150;101].
Definition exK_B : list N := [97;98;27;91;67;120;113].
Definition exK_C : list N := [97;98].

Definition exK_facts : res (list bool * list bool * list bool * bool * bool * bool) :=
  do A <- after 3 4 exK_A; do B <- after 3 4 exK_B; do C <- after 3 4 exK_C;
  Ok (map wrapped (live (cur A)), map wrapped (live (cur B)), map wrapped (live (cur C)),
      k10 A B, k10 C A, k10 A C).
Lemma exK_facts_value :
  exK_facts = Ok ([true; false; false], [true; false; false], [false; false; false], false, false, false).
Proof. vm_compute. reflexivity. Qed.

Theorem C02sem_K_example : exists A B C,
  after 3 4 exK_A = Ok A /\ after 3 4 exK_B = Ok B /\ after 3 4 exK_C = Ok C /\
  ~ in_W A B /\ ~ in_W C A /\ ~ in_W A C /\
  diff_round_ok A B /\ diff_round_ok C A /\ diff_round_ok A C.
Proof.
  destruct (after 3 4 exK_A) as [A|] eqn:EA; [|vm_compute in EA; discriminate].
  destruct (after 3 4 exK_B) as [B|] eqn:EB; [|vm_compute in EB; discriminate].
  destruct (after 3 4 exK_C) as [C|] eqn:EC; [|vm_compute in EC; discriminate].
  exists A, B, C.
  assert (1 <= 3 <= MAXDIM) as H3 by (unfold MAXDIM; lia).
  assert (1 <= 4 <= MAXDIM) as H4 by (unfold MAXDIM; lia).
  assert (reachable A) as RA by (eapply after_reachable; [exact H3|exact H4|exact EA]).
  assert (reachable B) as RB by (eapply after_reachable; [exact H3|exact H4|exact EB]).
  assert (reachable C) as RC by (eapply after_reachable; [exact H3|exact H4|exact EC]).
  vm_compute in EA. vm_compute in EB. vm_compute in EC. inv EA. inv EB. inv EC.
  do 3 (split; [reflexivity|]).
  split.
  { intros (_ & _ & HW). specialize (HW 0 _ _ eq_refl eq_refl (or_introl eq_refl)).
    destruct HW as (_ & _ & Ec & _). vm_compute in Ec. discriminate. }
  split.
  { intros (_ & _ & HW). specialize (HW 0 _ _ eq_refl eq_refl (or_introl eq_refl)).
    destruct HW as (_ & Ew & _). vm_compute in Ew. discriminate. }
  split.
  { intros (_ & _ & HW). specialize (HW 0 _ _ eq_refl eq_refl (or_intror eq_refl)).
    destruct HW as (Ew & _). vm_compute in Ew. discriminate. }
  split; [|split]; apply C02sem_K; auto; vm_compute; reflexivity.
Qed.
Print Assumptions C02sem_K_example.

(* cross-check by evaluation *)
Definition exK_round (bp bs : list N) : res bool :=
  do Pr <- after 3 4 bp; do Sc <- after 3 4 bs; do r <- diff_round Pr Sc;
  do o1 <- obs (scr r); do o2 <- obs Sc;
  Ok (obs_eqb_rows (o_vis o1) (o_vis o2) && (fst (o_cur o1) =? fst (o_cur o2)) && (snd (o_cur o1) =? snd (o_cur o2))).
Lemma exK_round_value : (exK_round exK_A exK_B, exK_round exK_C exK_A, exK_round exK_A exK_C) = (Ok true, Ok true, Ok true).
Proof. vm_compute. reflexivity. Qed.
