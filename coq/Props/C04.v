(* C04 — the result is independent of how the byte stream is chunked. *)
Require Import Tac Vte Screen Perform Parser VteInv VteChunk Chunking.
Open Scope N_scope.

(* Main theorem.  [clean v cs] says that no chunk of cs starts in the one situation in which
   vte 0.14.1 itself drops bytes (open finding K04a: a chunk boundary right after the lead byte of
   a 2-byte sequence, followed by [cont, ASCII, non-ASCII]); [k04a] is the exact trigger. *)
Theorem C04_main : forall p cs1 cs2,
  pwf (vt p) -> concat cs1 = concat cs2 -> clean (vt p) cs1 -> clean (vt p) cs2 ->
  process_chunks p cs1 = process_chunks p cs2.
Proof. exact process_chunking_independent. Qed.

(* a parser that has only ever been driven through the API has a well-formed vte state *)
Theorem C04_reachable_pwf : forall rows cols cap rz p, parser_new rows cols cap rz = Ok p -> pwf (vt p).
Proof. intros rows cols cap rz p E. unfold parser_new in E. bind_inv E. inv E. exact pwf_init. Qed.
Theorem C04_pwf_step : forall p bs q, pwf (vt p) -> process p bs = Ok q -> pwf (vt q).
Proof. exact process_pwf. Qed.

(* at the level of the vte model: the repaired parser is exactly compositional, and the real one
   equals the repaired one outside the trigger *)
Theorem C04_vte_app : forall p a b, pwf p ->
  let '(q, x) := advance' p a in let '(r, y) := advance' q b in
  exists z, advance' p (a ++ b) = (r, z) /\ norms z = norms (x ++ y).
Proof. exact advance'_app. Qed.
Theorem C04_vte_bug_exact : forall p bs, k04a p bs = false -> advance p bs = advance' p bs.
Proof. exact advance_eq_advance'. Qed.

(* io::Write is process and reports the whole buffer; flush is a no-op *)
Theorem C04_write : forall p bs, write p bs = (do q <- process p bs; Ok (q, len bs)).
Proof. reflexivity. Qed.
Theorem C04_flush : forall p, flush p = p.
Proof. reflexivity. Qed.

(* the finding: "éAé" cut after its first byte loses the A (vte 0.14.1) *)
Theorem C04_refuted : exists p a b,
  pwf p /\ k04a (fst (advance p a)) b = true /\
  snd (advance (fst (advance p a)) b) = [APrint 233; APrint 233] /\
  snd (advance p (a ++ b)) = [APrint 233; APrint 65; APrint 233].
Proof.
  exists p_init, [195], [169; 65; 195; 169].
  split; [exact pwf_init|]. vm_compute. auto.
Qed.

(* non-vacuity: a clean three-way cut of a stream with an escape sequence and a wide character *)
Example C04_clean_example :
  clean p_init [[27; 91]; [51; 49; 109; 228]; [184; 150; 65]] /\
  concat [[27; 91]; [51; 49; 109; 228]; [184; 150; 65]] = concat [[27; 91; 51; 49; 109; 228; 184; 150; 65]].
Proof. vm_compute. auto. Qed.
