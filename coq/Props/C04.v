(* C04 — the result is independent of how the byte stream is chunked.

   Since the repair of finding K04a (Parser.process holds back an incomplete utf-8 tail in the new
   field [pend] and gives vte only the bytes before it) this holds for EVERY chunking: [C04_all].
   The vte model itself is unchanged and still has the bug ([C04_vte_refuted]); what protects it is
   [C04_process_shields_vte]. *)
Require Import Tac Utf8 Vte Screen Perform Parser Utf8Lemmas VteInv VteChunk Pend Chunking.
Require Import GridInv ScreenInv.
Open Scope N_scope.

(* [parser_ok p] (ScreenInv.v) is the invariant of every parser made by parser_new and driven through
   the API:  screen_ok (scr p)  /\  pwf (vt p)  /\  (pend p = [] -> partial (vt p) = [])
             /\  incomplete_tail (pend p) = len (pend p)     (pend p is empty or an incomplete
   utf-8 sequence, hence at most 3 bytes) *)
Theorem C04_parser_ok_unfold : forall p,
  parser_ok p <->
  screen_ok (scr p) /\ pwf (vt p) /\ (pend p = [] -> partial (vt p) = []) /\
  incomplete_tail (pend p) = len (pend p).
Proof.
  intros p. split.
  - intros [O [W P T]]. auto.
  - intros (O & W & P & T). split; [exact O|]. split; assumption.
Qed.

(* MAIN THEOREM: no condition on the chunkings.  Equality of the whole outcome: the vte state, the
   screen, the callback log, the held-back bytes — or the same panic. *)
Theorem C04_all : forall p cs1 cs2,
  parser_ok p -> concat cs1 = concat cs2 -> process_chunks p cs1 = process_chunks p cs2.
Proof. intros p cs1 cs2 [_ I]. now apply process_chunking_independent. Qed.

(* in particular: any chunking gives what the unsplit stream gives *)
Corollary C04_unsplit : forall p cs, parser_ok p -> process_chunks p cs = process p (concat cs).
Proof.
  intros p cs H. rewrite (C04_all p cs [concat cs] H) by (cbn [concat]; now rewrite app_nil_r).
  cbn [process_chunks]. destruct (process p (concat cs)); reflexivity.
Qed.

(* the invariant is established by parser_new and kept by process (and by every API call:
   ScreenInv.step_ok / run_ok; together with "never panics": C13) *)
Theorem C04_reachable_ok : forall rows cols cap rz, 1 <= rows <= MAXDIM -> 1 <= cols <= MAXDIM ->
  exists p, parser_new rows cols cap rz = Ok p /\ parser_ok p.
Proof. exact parser_new_ok. Qed.
Theorem C04_ok_step : forall p bs, parser_ok p -> exists q, process p bs = Ok q /\ parser_ok q.
Proof. exact process_ok. Qed.

(* a parser that has only ever been driven through the API has a well-formed vte state *)
Theorem C04_reachable_pwf : forall rows cols cap rz p, parser_new rows cols cap rz = Ok p -> pwf (vt p).
Proof. intros rows cols cap rz p E. unfold parser_new in E. bind_inv E. inv E. exact pwf_init. Qed.
Theorem C04_pwf_step : forall p bs q, pwf (vt p) -> process p bs = Ok q -> pwf (vt q).
Proof. exact process_pwf. Qed.

(* what process gives to vte ([delivered]) and what it keeps ([held]): the buffer pend p ++ bs is
   split before its longest incomplete utf-8 suffix *)
Theorem C04_process_split : forall p bs,
  delivered p bs ++ held p bs = pend p ++ bs /\
  len (held p bs) = incomplete_tail (pend p ++ bs) /\ len (held p bs) <= 3 /\
  (held p bs = [] \/ decode1 (held p bs) = DIncomplete) /\
  process p bs =
    (let '(v, acts) := advance (vt p) (delivered p bs) in
     do '(s, evs) <- perform_all (resizing p) (scr p) acts [];
     Ok (mkParser v s (log p ++ evs) (resizing p) (held p bs))).
Proof.
  intros p bs. split; [apply delivered_held|]. split; [apply len_tl_part|].
  split; [unfold held; rewrite len_tl_part; apply incomplete_tail_le3|].
  split; [apply tl_part_inc|reflexivity].
Qed.

(* THE SHIELD.  vte's chunk-boundary bug needs a chunk that starts with the continuation of the
   sequence vte has buffered; process never produces one: every chunk it hands to vte is outside
   the trigger [k04a], so the bug-faithful [advance] coincides with the repaired [advance'] on it.
   (NOT true: "vte's partial buffer stays empty": process p [195;195] hands [195] to vte, see
   [C04_partial_not_empty]; the buffer is empty whenever nothing is held back.) *)
Theorem C04_process_shields_vte : forall p bs, parser_ok p ->
  k04a (vt p) (delivered p bs) = false /\
  advance (vt p) (delivered p bs) = advance' (vt p) (delivered p bs) /\
  forall q, process p bs = Ok q -> (pend q = [] -> partial (vt q) = []).
Proof.
  intros p bs [_ I]. pose proof (k04a_shielded p bs I) as K.
  split; [exact K|]. split; [exact (advance_eq_advance' _ _ K)|].
  intros q E. exact (pi_partial q (process_pend_inv p bs q I E)).
Qed.

(* a chunk that ends in a complete character, with nothing held back: everything is delivered,
   nothing is held back, and vte's partial buffer is empty afterwards *)
Theorem C04_complete_chunk : forall p bs q, parser_ok p -> pend p = [] -> incomplete_tail bs = 0 ->
  process p bs = Ok q ->
  delivered p bs = bs /\ pend q = [] /\ partial (vt q) = [].
Proof.
  intros p bs q [_ I] Hp Z E. split; [exact (delivered_clean p bs Hp Z)|].
  pose proof (process_clean_pend p bs q Hp Z E) as Hq. split; [exact Hq|].
  exact (pi_partial q (process_pend_inv p bs q I E) Hq).
Qed.

(* the vte fact behind it: a chunk without an incomplete tail, given to a vte whose partial buffer is
   empty, leaves it empty *)
Theorem C04_vte_no_partial : forall v bs,
  pwf v -> partial v = [] -> incomplete_tail bs = 0 -> partial (fst (advance v bs)) = [].
Proof. exact advance_partial_nil. Qed.

(* what [incomplete_tail] computes: the length of the longest suffix that is an incomplete utf-8
   sequence (decode1 = DIncomplete: a proper, non-empty prefix of a well-formed character) *)
Theorem C04_incomplete_tail_spec : forall bs,
  incomplete_tail bs <= 3 /\ incomplete_tail bs <= len bs /\
  (0 < incomplete_tail bs -> decode1 (skipnN (len bs - incomplete_tail bs) bs) = DIncomplete) /\
  (forall a t, bs = a ++ t -> decode1 t = DIncomplete -> len t <= incomplete_tail bs).
Proof.
  intros bs. split; [apply incomplete_tail_le3|]. split; [apply incomplete_tail_le_len|].
  split; [intros H; now apply incomplete_tail_inc|]. intros a t -> H. now apply incomplete_tail_ge.
Qed.
(* it depends on the held-back tail and the new bytes only *)
Theorem C04_incomplete_tail_app : forall bs c,
  incomplete_tail (bs ++ c) = incomplete_tail (skipnN (len bs - incomplete_tail bs) bs ++ c).
Proof. exact incomplete_tail_app. Qed.
(* input that ends in an ASCII byte or in a complete character has no incomplete tail *)
Theorem C04_tail_ascii : forall xs b, b < 128 -> incomplete_tail (xs ++ [b]) = 0.
Proof. exact incomplete_tail_app_ascii. Qed.
Theorem C04_tail_char : forall xs t c, decode1 t = DChar c (len t) -> incomplete_tail (xs ++ t) = 0.
Proof. exact incomplete_tail_app_char. Qed.

(* counterexample to the stronger invariant: after C3 C3 both pend and vte's buffer hold C3 *)
Example C04_partial_not_empty : forall p, parser_new 4 10 5 true = Ok p ->
  exists q, process p [195; 195] = Ok q /\ pend q = [195] /\ partial (vt q) = [195].
Proof. intros p E. vm_compute in E. inv E. eexists. split; [vm_compute; reflexivity|]. split; reflexivity. Qed.

(* at the level of the vte model: the repaired parser is exactly compositional, and the real one
   equals the repaired one outside the trigger *)
Theorem C04_vte_app : forall p a b, pwf p ->
  let '(q, x) := advance' p a in let '(r, y) := advance' q b in
  exists z, advance' p (a ++ b) = (r, z) /\ norms z = norms (x ++ y).
Proof. exact advance'_app. Qed.
Theorem C04_vte_bug_exact : forall p bs, k04a p bs = false -> advance p bs = advance' p bs.
Proof. exact advance_eq_advance'. Qed.
(* chunking independence of vte alone, for chunkings that avoid the trigger (as before) *)
Theorem C04_vte_clean : forall p cs1 cs2,
  pwf p -> concat cs1 = concat cs2 -> clean p cs1 -> clean p cs2 ->
  fst (advance_chunks p cs1) = fst (advance_chunks p cs2) /\
  norms (snd (advance_chunks p cs1)) = norms (snd (advance_chunks p cs2)).
Proof. exact chunking_independent. Qed.

(* io::Write is process and reports the whole buffer (also the held-back bytes count as written);
   flush is a no-op (held-back bytes stay held back) *)
Theorem C04_write : forall p bs, write p bs = (do q <- process p bs; Ok (q, len bs)).
Proof. reflexivity. Qed.
Theorem C04_flush : forall p, flush p = p.
Proof. reflexivity. Qed.

(* the finding, now a statement about the vte model alone: "éAé" cut after its first byte loses
   the A (vte 0.14.1) *)
Theorem C04_vte_refuted : exists p a b,
  pwf p /\ k04a (fst (advance p a)) b = true /\
  snd (advance (fst (advance p a)) b) = [APrint 233; APrint 233] /\
  snd (advance p (a ++ b)) = [APrint 233; APrint 65; APrint 233].
Proof.
  exists p_init, [195], [169; 65; 195; 169].
  split; [exact pwf_init|]. vm_compute. auto.
Qed.

(* ... and the same witness through process: the cut gives the same parser as the unsplit stream
   (the first call holds back C3 and gives vte nothing) *)
Example C04_witness_repaired : forall p, parser_new 4 10 5 true = Ok p ->
  process_chunks p [[195]; [169; 65; 195; 169]] = process_chunks p [[195; 169; 65; 195; 169]] /\
  (exists q, process p [195] = Ok q /\ pend q = [195] /\ vt q = vt p /\ scr q = scr p) /\
  (exists q, process_chunks p [[195]; [169; 65; 195; 169]] = Ok q /\ pend q = [] /\ partial (vt q) = []).
Proof.
  intros p E. vm_compute in E. inv E. split; [vm_compute; reflexivity|].
  split; eexists; (split; [vm_compute; reflexivity|]); repeat split; reflexivity.
Qed.

(* non-vacuity of the vte-level statement: a clean three-way cut of a stream with an escape sequence
   and a wide character *)
Example C04_clean_example :
  clean p_init [[27; 91]; [51; 49; 109; 228]; [184; 150; 65]] /\
  concat [[27; 91]; [51; 49; 109; 228]; [184; 150; 65]] = concat [[27; 91; 51; 49; 109; 228; 184; 150; 65]].
Proof. vm_compute. auto. Qed.

Print Assumptions C04_all.
Print Assumptions C04_unsplit.
Print Assumptions C04_process_shields_vte.
Print Assumptions C04_process_split.
Print Assumptions C04_vte_no_partial.
Print Assumptions C04_incomplete_tail_spec.
Print Assumptions C04_incomplete_tail_app.
Print Assumptions C04_tail_char.
Print Assumptions C04_complete_chunk.
Print Assumptions C04_ok_step.
Print Assumptions C04_reachable_ok.
Print Assumptions C04_vte_refuted.
Print Assumptions C04_witness_repaired.
Print Assumptions C04_partial_not_empty.
