(* ModeLast.v — C10, "always reflect the most recent relevant set or reset":
   each boolean mode is a pure last-writer-wins register over arbitrary action sequences, and
   each of the six modes evolves independently of the other five. *)
Require Import Tac ListN Utf8 Attrs Cell Row Grid Screen Vte Perform Term Emit ModeSpec.
Open Scope N_scope.

Definition param_is (n : N) (p : list N) : bool :=
  match p with [k] => k =? n | _ => false end.

(* What an action writes into the boolean mode controlled by DECSET/DECRST number n, where
   "h" stores hval: CSI ? .. h containing the parameter n writes hval, CSI ? .. l containing it
   writes (negb hval), ESC c writes false, everything else writes nothing. *)
Definition dec_write (n : N) (hval : bool) (a : action) : option bool :=
  match a with
  | ACsi ps (i :: _) _ c =>
    if i =? 63 then
      if c =? 104 then (if existsb (param_is n) ps then Some hval else None)
      else if c =? 108 then (if existsb (param_is n) ps then Some (negb hval) else None)
      else None
    else None
  | AEsc [] _ b => if b =? 99 then Some false else None
  | _ => None
  end.

Definition keypad_write (a : action) : option bool :=
  match a with
  | AEsc [] _ b => if b =? 61 then Some true else if b =? 62 then Some false
                   else if b =? 99 then Some false else None
  | _ => None
  end.

Definition upd {A} (o : option A) (old : A) : A := match o with Some v => v | None => old end.

(* the value left by the most recent writer, or the initial one *)
Definition last_write {A} (w : action -> option A) (acts : list action) (init : A) : A :=
  fold_left (fun acc a => upd (w a) acc) acts init.

Lemma run_field {F} (proj : modes -> F) (w : action -> option F) :
  (forall a m, proj (mode_effect a m) = upd (w a) (proj m)) ->
  forall acts m, proj (run_actions acts m) = last_write w acts (proj m).
Proof.
  intros Hw. unfold run_actions, last_write.
  induction acts as [|a rest IH]; intros m; cbn [fold_left]; [reflexivity|].
  rewrite IH, Hw. reflexivity.
Qed.

(* decide all the comparisons of a parameter number in the goal *)
Ltac param_goal :=
  repeat match goal with
         | |- context[N.eqb ?k ?c] =>
           destruct (N.eqb_spec k c); [subst; gsimp; try reflexivity|]
         end;
  try reflexivity.

Section BoolModes.
  (* per-parameter effect on the three DECSET booleans *)
  Lemma set_appcur_param m p : m_appcur (mode_param_set m p) = if param_is 1 p then true else m_appcur m.
  Proof. destruct p as [|k [|k2 r]]; try reflexivity. unfold mode_param_set, param_is. param_goal. Qed.
  Lemma rst_appcur_param m p : m_appcur (mode_param_reset m p) = if param_is 1 p then false else m_appcur m.
  Proof.
    destruct p as [|k [|k2 r]]; try reflexivity. unfold mode_param_reset, param_is, clear_mouse, clear_enc.
    param_goal; match goal with |- context[if ?b then _ else _] => destruct b end; reflexivity.
  Qed.
  Lemma set_hide_param m p : m_hide (mode_param_set m p) = if param_is 25 p then false else m_hide m.
  Proof. destruct p as [|k [|k2 r]]; try reflexivity. unfold mode_param_set, param_is. param_goal. Qed.
  Lemma rst_hide_param m p : m_hide (mode_param_reset m p) = if param_is 25 p then true else m_hide m.
  Proof.
    destruct p as [|k [|k2 r]]; try reflexivity. unfold mode_param_reset, param_is, clear_mouse, clear_enc.
    param_goal; match goal with |- context[if ?b then _ else _] => destruct b end; reflexivity.
  Qed.
  Lemma set_paste_param m p : m_paste (mode_param_set m p) = if param_is 2004 p then true else m_paste m.
  Proof. destruct p as [|k [|k2 r]]; try reflexivity. unfold mode_param_set, param_is. param_goal. Qed.
  Lemma rst_paste_param m p : m_paste (mode_param_reset m p) = if param_is 2004 p then false else m_paste m.
  Proof.
    destruct p as [|k [|k2 r]]; try reflexivity. unfold mode_param_reset, param_is, clear_mouse, clear_enc.
    param_goal; match goal with |- context[if ?b then _ else _] => destruct b end; reflexivity.
  Qed.
  Lemma keypad_param_set m p : m_keypad (mode_param_set m p) = m_keypad m.
  Proof. destruct p as [|k [|k2 r]]; try reflexivity. unfold mode_param_set. param_goal. Qed.
  Lemma keypad_param_reset m p : m_keypad (mode_param_reset m p) = m_keypad m.
  Proof.
    destruct p as [|k [|k2 r]]; try reflexivity. unfold mode_param_reset, clear_mouse, clear_enc.
    param_goal; match goal with |- context[if ?b then _ else _] => destruct b end; reflexivity.
  Qed.
End BoolModes.

(* a fold of per-parameter writes of a constant is one write if the parameter occurs *)
Lemma fold_const_write {F} (proj : modes -> F) (f : modes -> list N -> modes) (n : N) (v : F) :
  (forall m p, proj (f m p) = if param_is n p then v else proj m) ->
  forall ps m, proj (fold_left f ps m) = if existsb (param_is n) ps then v else proj m.
Proof.
  intros Hf. induction ps as [|p ps IH]; intros m; cbn [fold_left existsb]; [reflexivity|].
  rewrite IH, Hf. destruct (param_is n p); cbn [orb]; [|reflexivity].
  destruct (existsb (param_is n) ps); reflexivity.
Qed.
Lemma fold_no_write {F} (proj : modes -> F) (f : modes -> list N -> modes) :
  (forall m p, proj (f m p) = proj m) -> forall ps m, proj (fold_left f ps m) = proj m.
Proof.
  intros Hf. induction ps as [|p ps IH]; intros m; cbn [fold_left]; [reflexivity|].
  rewrite IH, Hf. reflexivity.
Qed.

Lemma dec_bool_effect (proj : modes -> bool) (n : N) (hval : bool) :
  (forall m p, proj (mode_param_set m p) = if param_is n p then hval else proj m) ->
  (forall m p, proj (mode_param_reset m p) = if param_is n p then negb hval else proj m) ->
  (forall b m, proj (set_keypad b m) = proj m) -> proj m_fresh = false ->
  forall a m, proj (mode_effect a m) = upd (dec_write n hval a) (proj m).
Proof.
  intros Hs Hr Hk Hf a m. destruct a as [c|b|ps it ig c|b| |ps bl|ps it ig c|it ig b]; try reflexivity.
  - unfold mode_effect, dec_write. destruct it as [|i r]; [reflexivity|].
    destruct (i =? 63); [|reflexivity].
    destruct (c =? 104).
    { rewrite (fold_const_write proj mode_param_set n hval Hs).
      destruct (existsb (param_is n) ps); reflexivity. }
    destruct (c =? 108).
    { rewrite (fold_const_write proj mode_param_reset n (negb hval) Hr).
      destruct (existsb (param_is n) ps); reflexivity. }
    reflexivity.
  - unfold mode_effect, dec_write. destruct it as [|i r]; [|reflexivity].
    destruct (N.eqb_spec b 61) as [->|H61]; [gsimp; apply Hk|].
    destruct (N.eqb_spec b 62) as [->|H62]; [gsimp; apply Hk|].
    destruct (b =? 99); [exact Hf | reflexivity].
Qed.

Lemma appcur_effect a m : m_appcur (mode_effect a m) = upd (dec_write 1 true a) (m_appcur m).
Proof. apply dec_bool_effect; [exact set_appcur_param | exact rst_appcur_param | reflexivity | reflexivity]. Qed.
Lemma hide_effect a m : m_hide (mode_effect a m) = upd (dec_write 25 false a) (m_hide m).
Proof. apply dec_bool_effect; [exact set_hide_param | exact rst_hide_param | reflexivity | reflexivity]. Qed.
Lemma paste_effect a m : m_paste (mode_effect a m) = upd (dec_write 2004 true a) (m_paste m).
Proof. apply dec_bool_effect; [exact set_paste_param | exact rst_paste_param | reflexivity | reflexivity]. Qed.
Lemma keypad_effect a m : m_keypad (mode_effect a m) = upd (keypad_write a) (m_keypad m).
Proof.
  destruct a as [c|b|ps it ig c|b| |ps bl|ps it ig c|it ig b]; try reflexivity.
  - unfold mode_effect, keypad_write. destruct it as [|i r]; [reflexivity|].
    destruct (i =? 63); [|reflexivity].
    destruct (c =? 104); [exact (fold_no_write m_keypad _ keypad_param_set ps m)|].
    destruct (c =? 108); [exact (fold_no_write m_keypad _ keypad_param_reset ps m)|]. reflexivity.
  - unfold mode_effect, keypad_write. destruct it as [|i r]; [|reflexivity].
    destruct (b =? 61); [reflexivity|]. destruct (b =? 62); [reflexivity|].
    destruct (b =? 99); reflexivity.
Qed.

(* The four boolean modes after ANY action sequence (arbitrary interleaving with other
   input) hold what the most recent relevant set / reset wrote, or their initial value. *)
Theorem C10_most_recent_keypad : forall acts m,
  m_keypad (run_actions acts m) = last_write keypad_write acts (m_keypad m).
Proof. exact (run_field m_keypad keypad_write keypad_effect). Qed.
Theorem C10_most_recent_appcur : forall acts m,
  m_appcur (run_actions acts m) = last_write (dec_write 1 true) acts (m_appcur m).
Proof. exact (run_field m_appcur _ appcur_effect). Qed.
Theorem C10_most_recent_hide : forall acts m,
  m_hide (run_actions acts m) = last_write (dec_write 25 false) acts (m_hide m).
Proof. exact (run_field m_hide _ hide_effect). Qed.
Theorem C10_most_recent_paste : forall acts m,
  m_paste (run_actions acts m) = last_write (dec_write 2004 true) acts (m_paste m).
Proof. exact (run_field m_paste _ paste_effect). Qed.

(* and for real screens *)
Corollary C10_most_recent_screen : forall rz acts s evs0 s' evs,
  perform_all rz s acts evs0 = Ok (s', evs) ->
  keypad s' = last_write keypad_write acts (keypad s) /\
  appcur s' = last_write (dec_write 1 true) acts (appcur s) /\
  hide s' = last_write (dec_write 25 false) acts (hide s) /\
  paste s' = last_write (dec_write 2004 true) acts (paste s).
Proof.
  intros rz acts s evs0 s' evs H. apply C10_independent_all in H.
  change (keypad s') with (m_keypad (modes_of s')). change (appcur s') with (m_appcur (modes_of s')).
  change (hide s') with (m_hide (modes_of s')). change (paste s') with (m_paste (modes_of s')).
  rewrite H, C10_most_recent_keypad, C10_most_recent_appcur, C10_most_recent_hide, C10_most_recent_paste.
  repeat split.
Qed.

(* ---- mouse mode and encoding: small automata that depend on nothing but themselves ---- *)
Definition mouse_param_set (x : mouse_mode) (p : list N) : mouse_mode :=
  match p with
  | [n] => if n =? 9 then MPress else if n =? 1000 then MPressRelease
           else if n =? 1002 then MButtonMotion else if n =? 1003 then MAnyMotion else x
  | _ => x
  end.
Definition clr_mm (y x : mouse_mode) : mouse_mode := if mouse_mode_eqb x y then MNone else x.
Definition mouse_param_reset (x : mouse_mode) (p : list N) : mouse_mode :=
  match p with
  | [n] => if n =? 9 then clr_mm MPress x else if n =? 1000 then clr_mm MPressRelease x
           else if n =? 1002 then clr_mm MButtonMotion x else if n =? 1003 then clr_mm MAnyMotion x else x
  | _ => x
  end.
Definition enc_param_set (x : mouse_enc) (p : list N) : mouse_enc :=
  match p with
  | [n] => if n =? 1005 then EUtf8 else if n =? 1006 then ESgr else x
  | _ => x
  end.
Definition clr_me (y x : mouse_enc) : mouse_enc := if mouse_enc_eqb x y then EDefault else x.
Definition enc_param_reset (x : mouse_enc) (p : list N) : mouse_enc :=
  match p with
  | [n] => if n =? 1005 then clr_me EUtf8 x else if n =? 1006 then clr_me ESgr x else x
  | _ => x
  end.

Definition field_step {F} (fset frst : F -> list N -> F) (off : F) (a : action) (x : F) : F :=
  match a with
  | ACsi ps (i :: _) _ c =>
    if i =? 63 then
      if c =? 104 then fold_left fset ps x else if c =? 108 then fold_left frst ps x else x
    else x
  | AEsc [] _ b => if b =? 99 then off else x
  | _ => x
  end.
Definition mouse_step := field_step mouse_param_set mouse_param_reset MNone.
Definition enc_step := field_step enc_param_set enc_param_reset EDefault.

Lemma mouse_set_param m p : m_mouse (mode_param_set m p) = mouse_param_set (m_mouse m) p.
Proof. destruct p as [|k [|k2 r]]; try reflexivity. unfold mode_param_set, mouse_param_set. param_goal. Qed.
Lemma mouse_rst_param m p : m_mouse (mode_param_reset m p) = mouse_param_reset (m_mouse m) p.
Proof.
  destruct p as [|k [|k2 r]]; try reflexivity.
  unfold mode_param_reset, mouse_param_reset, clear_mouse, clear_enc, clr_mm.
  param_goal; match goal with |- context[if ?b then _ else _] => destruct b end; reflexivity.
Qed.
Lemma enc_set_param m p : m_enc (mode_param_set m p) = enc_param_set (m_enc m) p.
Proof. destruct p as [|k [|k2 r]]; try reflexivity. unfold mode_param_set, enc_param_set. param_goal. Qed.
Lemma enc_rst_param m p : m_enc (mode_param_reset m p) = enc_param_reset (m_enc m) p.
Proof.
  destruct p as [|k [|k2 r]]; try reflexivity.
  unfold mode_param_reset, enc_param_reset, clear_mouse, clear_enc, clr_me.
  param_goal; match goal with |- context[if ?b then _ else _] => destruct b end; reflexivity.
Qed.

Lemma fold_proj {F} (proj : modes -> F) (f : modes -> list N -> modes) (h : F -> list N -> F) :
  (forall m p, proj (f m p) = h (proj m) p) ->
  forall ps m, proj (fold_left f ps m) = fold_left h ps (proj m).
Proof.
  intros Hf. induction ps as [|p ps IH]; intros m; cbn [fold_left]; [reflexivity|].
  rewrite IH, Hf. reflexivity.
Qed.

Lemma field_effect {F} (proj : modes -> F) fset frst off :
  (forall m p, proj (mode_param_set m p) = fset (proj m) p) ->
  (forall m p, proj (mode_param_reset m p) = frst (proj m) p) ->
  (forall b m, proj (set_keypad b m) = proj m) -> proj m_fresh = off ->
  forall a m, proj (mode_effect a m) = field_step fset frst off a (proj m).
Proof.
  intros Hs Hr Hk Hf a m. destruct a as [c|b|ps it ig c|b| |ps bl|ps it ig c|it ig b]; try reflexivity.
  - unfold mode_effect, field_step. destruct it as [|i r]; [reflexivity|].
    destruct (i =? 63); [|reflexivity].
    destruct (c =? 104); [exact (fold_proj proj _ _ Hs ps m)|].
    destruct (c =? 108); [exact (fold_proj proj _ _ Hr ps m)|]. reflexivity.
  - unfold mode_effect, field_step. destruct it as [|i r]; [|reflexivity].
    destruct (N.eqb_spec b 61) as [->|H61]; [gsimp; apply Hk|].
    destruct (N.eqb_spec b 62) as [->|H62]; [gsimp; apply Hk|].
    destruct (b =? 99); [exact Hf | reflexivity].
Qed.

(* the mouse mode after an action is a function of the action and the previous mouse mode only;
   likewise the encoding *)
Theorem C10_mouse_step : forall a m, m_mouse (mode_effect a m) = mouse_step a (m_mouse m).
Proof. apply field_effect; [exact mouse_set_param | exact mouse_rst_param | reflexivity | reflexivity]. Qed.
Theorem C10_enc_step : forall a m, m_enc (mode_effect a m) = enc_step a (m_enc m).
Proof. apply field_effect; [exact enc_set_param | exact enc_rst_param | reflexivity | reflexivity]. Qed.

(* each of the six modes evolves independently of the other five *)
Theorem C10_fieldwise : forall a m m',
  (m_keypad m = m_keypad m' -> m_keypad (mode_effect a m) = m_keypad (mode_effect a m')) /\
  (m_appcur m = m_appcur m' -> m_appcur (mode_effect a m) = m_appcur (mode_effect a m')) /\
  (m_hide m = m_hide m' -> m_hide (mode_effect a m) = m_hide (mode_effect a m')) /\
  (m_paste m = m_paste m' -> m_paste (mode_effect a m) = m_paste (mode_effect a m')) /\
  (m_mouse m = m_mouse m' -> m_mouse (mode_effect a m) = m_mouse (mode_effect a m')) /\
  (m_enc m = m_enc m' -> m_enc (mode_effect a m) = m_enc (mode_effect a m')).
Proof.
  intros a m m'.
  rewrite !keypad_effect, !appcur_effect, !hide_effect, !paste_effect, !C10_mouse_step, !C10_enc_step.
  repeat split; intros ->; reflexivity.
Qed.

(* mouse mode: a set always wins, a reset of the active mode gives None, a reset of another
   mode does nothing (the same for the encoding) — for all states at once *)
Theorem C10_mouse_set_reset : forall x,
  mouse_param_set x [9] = MPress /\ mouse_param_set x [1000] = MPressRelease /\
  mouse_param_set x [1002] = MButtonMotion /\ mouse_param_set x [1003] = MAnyMotion /\
  mouse_param_reset x [9] = (if mouse_mode_eqb x MPress then MNone else x) /\
  mouse_param_reset x [1000] = (if mouse_mode_eqb x MPressRelease then MNone else x) /\
  mouse_param_reset x [1002] = (if mouse_mode_eqb x MButtonMotion then MNone else x) /\
  mouse_param_reset x [1003] = (if mouse_mode_eqb x MAnyMotion then MNone else x).
Proof. intros x. repeat split. Qed.
Theorem C10_enc_set_reset : forall x,
  enc_param_set x [1005] = EUtf8 /\ enc_param_set x [1006] = ESgr /\
  enc_param_reset x [1005] = (if mouse_enc_eqb x EUtf8 then EDefault else x) /\
  enc_param_reset x [1006] = (if mouse_enc_eqb x ESgr then EDefault else x).
Proof. intros x. repeat split. Qed.
