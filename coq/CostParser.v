(* CostParser.v — the hypotheses of the cost theorems hold for every action the
   vte parser model emits: at most MAX_PARAMS = 32 parameters, each a u16
   (saturating accumulation), so the canonicalised first parameter is <= 65535. *)
Require Import Tac ListN Utf8 Grid Screen Vte Perform ScreenInv CostModel CostSpec.
Open Scope N_scope.

Definition u16s (l : list N) : Prop := Forall (fun x => x <= 65535) l.
Definition group_ok (gp : list N) : Prop := gp <> [] /\ u16s gp.

(* invariant of the parameter accumulator *)
Record pb (p : pstate) : Prop := mkPb {
  pb_len : plen p <= 32;
  pb_param : param p <= 65535;
  pb_groups : Forall group_ok (groups p);
  pb_opn : u16s (opn p) }.

Definition act_bounded (a : action) : Prop := params_ok a /\ first_param a <= 65535.
Definition non_csi (a : action) : Prop := match a with ACsi _ _ _ _ => False | _ => True end.

Lemma non_csi_bounded a : non_csi a -> act_bounded a.
Proof. destruct a; cbn; intros H; try contradiction; split; cbn; auto; lia. Qed.

Lemma pb_init : pb p_init.
Proof. split; cbn; try constructor; unfold plen; cbn; lia. Qed.

Lemma pb_same p q : groups q = groups p -> opn q = opn p -> param q = param p -> pb p -> pb q.
Proof. intros E1 E2 E3 [A B C D]. split; unfold plen in *; rewrite ?E1, ?E2, ?E3; auto. Qed.

Lemma pb_reset p : pb (reset_params p).
Proof. split; cbn; try constructor; unfold plen; cbn; lia. Qed.

Lemma len_groups_le gs : Forall group_ok gs -> len gs <= len (concat gs).
Proof.
  induction 1 as [|gp gs [Hne _] _ IH]; cbn [concat]; [unfold len; cbn; lia|].
  rewrite len_cons, len_app. destruct gp as [|x gp]; [congruence|]. rewrite len_cons. lia.
Qed.

Lemma len_params_of p : pb p -> len (params_of p) <= plen p.
Proof.
  intros [A B C D]. unfold params_of, plen in *. pose proof (len_groups_le _ C).
  rewrite len_app. destruct (opn p) as [|x o]; [cbn; lia|].
  change (len [x :: o]) with 1. rewrite len_cons. lia.
Qed.

Lemma params_of_u16 p : pb p -> Forall u16s (params_of p).
Proof.
  intros [A B C D]. unfold params_of. apply Forall_app. split.
  - eapply Forall_impl; [|exact C]. intros gp [_ H]. exact H.
  - destruct (opn p); [constructor|]. constructor; [exact D|constructor].
Qed.

Lemma first_param_u16 ps : Forall u16s ps -> canon1 ps 1 <= 65535.
Proof.
  intros H. unfold canon1, first_sub. destruct ps as [|[|x gp] ps]; cbn [hd_error].
  - gsimp. lia.
  - gsimp. lia.
  - inv H. inv H2. destruct (x =? 0); lia.
Qed.

Lemma pb_push p : pb p -> params_full p = false -> pb (push_param p).
Proof.
  intros [A B C D] F. unfold params_full, MAX_PARAMS in F. apply N.eqb_neq in F.
  unfold plen in A, F. unfold push_param. split; unfold plen; cbn [groups opn param].
  - rewrite concat_app, len_app. cbn [concat]. rewrite app_nil_r, len_app.
    change (len [param p]) with 1. change (len (@nil N)) with 0. lia.
  - exact B.
  - apply Forall_app. split; [exact C|]. constructor; [|constructor]. split.
    + destruct (opn p); discriminate.
    + apply Forall_app. split; [exact D|]. constructor; [exact B|constructor].
  - constructor.
Qed.

Lemma pb_dispatch_q p : pb p -> pb (if params_full p then set_ignoring p else push_param p).
Proof.
  intros H. destruct (params_full p) eqn:F; [eapply pb_same; [| | |exact H]; reflexivity|now apply pb_push].
Qed.

Lemma pb_action_param p : pb p -> pb (action_param p).
Proof.
  intros H. unfold action_param. destruct (params_full p) eqn:F.
  - eapply pb_same; [| | |exact H]; reflexivity.
  - destruct (pb_push p H F) as [A B C D]. split; cbn [groups opn param] in *; auto. lia.
Qed.

Lemma pb_action_subparam p : pb p -> pb (action_subparam p).
Proof.
  intros H. unfold action_subparam. destruct (params_full p) eqn:F.
  - eapply pb_same; [| | |exact H]; reflexivity.
  - destruct H as [A B C D]. unfold params_full, MAX_PARAMS in F. apply N.eqb_neq in F.
    unfold plen in *. split; unfold plen; cbn [groups opn param].
    + rewrite len_app. change (len [param p]) with 1. lia.
    + lia.
    + exact C.
    + apply Forall_app. split; [exact D|]. constructor; [exact B|constructor].
Qed.

Lemma pb_action_paramnext p b : pb p -> pb (action_paramnext p b).
Proof.
  intros H. unfold action_paramnext. destruct (params_full p).
  - eapply pb_same; [| | |exact H]; reflexivity.
  - destruct H as [A B C D]. split; cbn [groups opn param]; auto.
    unfold sat_add16, U16MAX. lia.
Qed.

Lemma pb_action_collect p b : pb p -> pb (action_collect p b).
Proof.
  intros H. unfold action_collect. destruct (len (inter p) =? 2); eapply pb_same; [| | |exact H| | | |exact H]; reflexivity.
Qed.

Lemma pb_set_vst p v : pb p -> pb (set_vst p v).
Proof. intros H. eapply pb_same; [| | |exact H]; reflexivity. Qed.
Lemma pb_set_osc p r o : pb p -> pb (set_osc p r o).
Proof. intros H. eapply pb_same; [| | |exact H]; reflexivity. Qed.
Lemma pb_set_partial p l : pb p -> pb (set_partial p l).
Proof. intros H. eapply pb_same; [| | |exact H]; reflexivity. Qed.
Lemma pb_osc_put p b : pb p -> pb (osc_put p b).
Proof. intros H. unfold osc_put. destruct (_ =? _); [exact H|now apply pb_set_osc]. Qed.
Lemma pb_osc_put_param p : pb p -> pb (osc_put_param p).
Proof.
  intros H. unfold osc_put_param. destruct (osc_params p); [now apply pb_set_osc|].
  destruct (_ =? _); [exact H|now apply pb_set_osc].
Qed.
Lemma pb_enter_escape p : pb (enter_escape p).
Proof. apply pb_reset. Qed.

Lemma csi_dispatch_pb p b : pb p ->
  pb (fst (csi_dispatch p b)) /\ Forall act_bounded (snd (csi_dispatch p b)).
Proof.
  intros H. unfold csi_dispatch. cbn [fst snd]. pose proof (pb_dispatch_q p H) as Hq.
  split; [now apply pb_set_vst|]. constructor; [|constructor].
  split; cbn [params_ok first_param].
  - eapply N.le_trans; [now apply len_params_of|apply (pb_len _ Hq)].
  - apply first_param_u16. now apply params_of_u16.
Qed.

Lemma action_hook_pb p b : pb p ->
  pb (fst (action_hook p b)) /\ Forall act_bounded (snd (action_hook p b)).
Proof.
  intros H. unfold action_hook. cbn [fst snd]. pose proof (pb_dispatch_q p H) as Hq.
  split; [now apply pb_set_vst|]. constructor; [|constructor]. apply non_csi_bounded. exact I.
Qed.

Lemma esc_dispatch_pb p b : pb p ->
  pb (fst (esc_dispatch p b)) /\ Forall act_bounded (snd (esc_dispatch p b)).
Proof.
  intros H. unfold esc_dispatch. cbn [fst snd]. split; [now apply pb_set_vst|].
  constructor; [|constructor]. apply non_csi_bounded. exact I.
Qed.

Lemma anywhere_pb p b : pb p ->
  pb (fst (anywhere p b)) /\ Forall act_bounded (snd (anywhere p b)).
Proof.
  intros H. unfold anywhere.
  repeat match goal with |- context[if ?c then _ else _] => destruct c end; cbn [fst snd];
    (split; [first [now apply pb_set_vst | apply pb_set_vst, pb_reset | exact H]|]);
    repeat constructor; cbn; lia.
Qed.

Lemma osc_end_pb p b : pb p ->
  pb (fst (osc_end p b)) /\ Forall non_csi (snd (osc_end p b)).
Proof.
  intros H. unfold osc_end. cbn [fst snd]. split; [apply pb_set_osc, pb_osc_put_param, H|].
  repeat constructor.
Qed.

Ltac pb_tac H :=
  first [ exact H | apply pb_reset | apply pb_enter_escape
        | apply pb_set_vst; pb_tac H | apply pb_action_collect; pb_tac H
        | apply pb_action_paramnext; pb_tac H | apply pb_action_subparam; pb_tac H
        | apply pb_action_param; pb_tac H | apply pb_set_osc; pb_tac H
        | apply pb_osc_put; pb_tac H | apply pb_osc_put_param; pb_tac H ].

Ltac acts_tac := repeat constructor; cbn; lia.

Ltac cs_case H :=
  repeat match goal with |- context[if ?c then _ else _] => destruct c end;
  first
  [ now apply csi_dispatch_pb | now apply action_hook_pb | now apply esc_dispatch_pb
  | now apply anywhere_pb
  | cbn [fst snd]; split; [pb_tac H|acts_tac] ].

Lemma change_state_pb p b : pb p ->
  pb (fst (change_state p b)) /\ Forall act_bounded (snd (change_state p b)).
Proof.
  intros H. unfold change_state. destruct (vst p);
  unfold adv_csi_entry, adv_csi_ignore, adv_csi_intermediate, adv_csi_param, adv_dcs_entry,
         adv_dcs_intermediate, adv_dcs_param, adv_dcs_passthrough, adv_esc, adv_esc_intermediate;
  try (cs_case H; fail).
  (* only OscString is left *)
    unfold adv_osc_string.
    pose proof (osc_end_pb p b H) as [O1 O2]. destruct (osc_end p b) as [q a]. cbn [fst snd] in O1, O2.
    assert (Oa : Forall act_bounded a) by (eapply Forall_impl; [|exact O2]; apply non_csi_bounded).
    repeat match goal with |- context[if ?c then _ else _] => destruct c end; cbn [fst snd];
      (split; [first [pb_tac H | pb_tac O1]|]); try exact Oa; try acts_tac.
    apply Forall_app. split; [exact Oa|acts_tac].
Qed.

Lemma ground_action_non_csi c : non_csi (ground_action c).
Proof. unfold ground_action. destruct (_ || _); exact I. Qed.

Lemma advance_ground_pb p bs q a n : pb p -> advance_ground p bs = (q, a, n) ->
  pb q /\ Forall act_bounded a.
Proof.
  intros H E. unfold advance_ground in E.
  destruct (find_esc bs =? 0); [inv E; split; [apply pb_enter_escape|constructor]|].
  destruct (from_utf8 (firstnN (find_esc bs) bs)) as [[chars valid] stop].
  assert (M : Forall act_bounded (map ground_action chars)).
  { apply Forall_map'. intros c _. apply non_csi_bounded, ground_action_non_csi. }
  destruct stop as [|el|].
  - destruct (find_esc bs <? len bs); inv E; (split; [pb_tac H|exact M]).
  - inv E. split; [exact H|]. apply Forall_app. split; [exact M|].
    constructor; [|constructor]. apply non_csi_bounded. destruct (_ && _); exact I.
  - destruct (find_esc bs <? len bs); inv E.
    + split; [apply pb_enter_escape|]. apply Forall_app. split; [exact M|acts_tac].
    + split; [now apply pb_set_partial|exact M].
Qed.

Lemma advance_partial_pb p bs q a n : pb p -> advance_partial p bs = (q, a, n) ->
  pb q /\ Forall act_bounded a.
Proof.
  intros H E. unfold advance_partial in E.
  destruct (from_utf8 _) as [[chars valid] stop].
  destruct stop.
  - inv E. split; [now apply pb_set_partial|acts_tac].
  - destruct (0 <? valid); inv E; (split; [now apply pb_set_partial|acts_tac]).
  - destruct (0 <? valid); inv E; (split; [now apply pb_set_partial|acts_tac]).
Qed.

Lemma advance_loop_pb fuel : forall p bs acc, pb p -> Forall act_bounded acc ->
  pb (fst (advance_loop fuel p bs acc)) /\ Forall act_bounded (snd (advance_loop fuel p bs acc)).
Proof.
  induction fuel as [|fuel IH]; intros p bs acc H Hacc; cbn [advance_loop]; [auto|].
  destruct bs as [|b rest]; [auto|].
  destruct (vst p);
  try (pose proof (change_state_pb p b H) as [S1 S2]; destruct (change_state p b) as [q a];
       cbn [fst snd] in S1, S2; apply IH; [exact S1|apply Forall_app; split; assumption]).
  destruct (advance_ground p (b :: rest)) as [[q a] n] eqn:G.
  apply advance_ground_pb in G as [G1 G2]; [|exact H].
  apply IH; [exact G1|apply Forall_app; split; assumption].
Qed.

(* every action delivered by the parser satisfies the hypotheses of [cost_bound] *)
Theorem advance_bounded p bs : pb p ->
  pb (fst (advance p bs)) /\ Forall act_bounded (snd (advance p bs)).
Proof.
  intros H. unfold advance. destruct (partial p) as [|b0 l0].
  - apply advance_loop_pb; [exact H|constructor].
  - destruct (advance_partial p bs) as [[q a] k] eqn:A.
    apply advance_partial_pb in A as [A1 A2]; [|exact H]. now apply advance_loop_pb.
Qed.

(* the two together: any action the parser can deliver, on any reachable screen *)
Theorem parsed_action_cost p bs s a : pb p -> In a (snd (advance p bs)) -> ScreenInv.screen_ok s ->
  action_cost false s a <=
  65535 * line_cost (Grid.grows (Screen.g s)) (Grid.gcols (Screen.g s)) +
  base_bound (Grid.grows (Screen.g s)) (Grid.gcols (Screen.g s)).
Proof.
  intros Hp Hin Hs. destruct (advance_bounded p bs Hp) as [_ F].
  rewrite Forall_forall in F. destruct (F a Hin) as [B1 B2]. now apply cost_bound.
Qed.
