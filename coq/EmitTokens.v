(* EmitTokens.v — every token produced by the emitters of Emit.v satisfies
   [token_ok] (ParseSer.v) whenever the screen satisfies the invariants, hence
   (by [parse_ser]) the emitted bytes re-parse to exactly [flat_map acts_of]. *)
Require Import Tac ListN Utf8 Width Attrs Cell Row Grid Screen Vte Perform Parser Term Emit.
Require Import RowInv GridInv TextInv ScreenInv ParseSer CellWf WfGrid WfInv SgrSpec EmitSafe AttrsInv.
Require Import PendTok.
Open Scope N_scope.

Definition toks_ok (ts : list token) : Prop := forallb token_ok ts = true.

Lemma toks_ok_nil : toks_ok []. Proof. reflexivity. Qed.
Lemma toks_ok_app a b : toks_ok a -> toks_ok b -> toks_ok (a ++ b).
Proof. unfold toks_ok. intros Ha Hb. rewrite forallb_app, Ha, Hb. reflexivity. Qed.
Lemma toks_ok_cons t ts : token_ok t = true -> toks_ok ts -> toks_ok (t :: ts).
Proof. unfold toks_ok. intros Ha Hb. cbn [forallb]. rewrite Ha, Hb. reflexivity. Qed.
Lemma toks_ok_one t : token_ok t = true -> toks_ok [t].
Proof. intros H. apply toks_ok_cons; [exact H|apply toks_ok_nil]. Qed.
Lemma toks_ok_app_inv a b : toks_ok (a ++ b) -> toks_ok a /\ toks_ok b.
Proof. unfold toks_ok. rewrite forallb_app. intros H. apply andb_prop in H. exact H. Qed.
Lemma toks_ok_repeatN t n : token_ok t = true -> toks_ok (repeatN t n).
Proof.
  intros H. unfold toks_ok, repeatN. induction (N.to_nat n) as [|k IH]; [reflexivity|].
  cbn [repeat forallb]. rewrite H, IH. reflexivity.
Qed.

Ltac tok :=
  repeat first [ apply toks_ok_nil | assumption
               | apply toks_ok_app | apply toks_ok_cons | apply toks_ok_one ].

(* ------------------------------------------------------------------ *)
(* 1. characters                                                        *)
(* ------------------------------------------------------------------ *)

Lemma storable_char_ok z : storable z -> char_ok z = true.
Proof.
  intros (Hs & H32 & Hc1 & _ & _). unfold char_ok. rewrite Hs. cbn [andb].
  destruct (N.leb_spec 32 z); [|lia]. cbn [andb].
  destruct (N.leb_spec 128 z), (N.ltb_spec z 160); cbn [andb negb]; try reflexivity. lia.
Qed.

Lemma chars_storable_ok cs : Forall storable cs -> forallb char_ok cs = true.
Proof.
  induction 1 as [|z cs Hz _ IH]; [reflexivity|]. cbn [forallb]. rewrite (storable_char_ok z Hz), IH. reflexivity.
Qed.

Lemma tchars_storable_ok cs : Forall storable cs -> token_ok (TChars cs) = true.
Proof. intros H. cbn [token_ok]. now apply chars_storable_ok. Qed.

Lemma tchars_cell_ok c : cell_wf c -> token_ok (TChars (ctext c)) = true.
Proof. intros H. apply tchars_storable_ok, wf_storable, H. Qed.

Lemma tchars_32_ok : token_ok (TChars [32]) = true.
Proof. vm_compute. reflexivity. Qed.

Lemma tchars_repeat32_ok n : token_ok (TChars (repeatN 32 n)) = true.
Proof. apply tchars_storable_ok, Forall_repeatN, storable_32. Qed.

(* ------------------------------------------------------------------ *)
(* 2. CSI tokens, SGR diffs                                             *)
(* ------------------------------------------------------------------ *)

Lemma csi_ok priv ps f : len ps <= 16 -> Forall (fun x => x <= 65535) ps -> 64 <= f <= 126 ->
  token_ok (TCsi priv ps f) = true.
Proof.
  intros Hl Hp Hf. cbn [token_ok].
  assert (forallb (fun x => x <=? 65535) ps = true) as ->.
  { apply forallb_forall. intros x Hx. rewrite Forall_forall in Hp. specialize (Hp x Hx). lia. }
  lia.
Qed.

(* a parameter list of at most n entries, each a u8 *)
Definition pl_ok (n : N) (l : list N) : Prop := len l <= n /\ Forall (fun x => x <= 255) l.

Lemma pl_ok_nil n : pl_ok n [].
Proof. split; [rewrite len_nil; lia|constructor]. Qed.
Lemma pl_ok_app n m a b : pl_ok n a -> pl_ok m b -> pl_ok (n + m) (a ++ b).
Proof. intros [L1 F1] [L2 F2]. split; [rewrite len_app; lia|apply Forall_app; split; assumption]. Qed.
Lemma pl_ok_if n (b : bool) l : pl_ok n l -> pl_ok n (if b then [] else l).
Proof. intros H. destruct b; [apply pl_ok_nil|exact H]. Qed.
Lemma pl_ok_1 x : x <= 255 -> pl_ok 1 [x].
Proof. intros H. split; [rewrite len_cons, len_nil; lia|constructor; [exact H|constructor]]. Qed.

Lemma fg_params_ok c : color_ok c -> pl_ok 5 (fg_params c).
Proof.
  destruct c as [|i|r gg b]; cbn [color_ok fg_params]; intros H.
  - split; [rewrite len_cons, len_nil; lia|repeat constructor; lia].
  - destruct (N.ltb_spec i 8); [|destruct (N.ltb_spec i 16)];
      (split; [rewrite ?len_cons, len_nil; lia|repeat constructor; lia]).
  - split; [rewrite !len_cons, len_nil; lia|repeat constructor; lia].
Qed.

Lemma bg_params_ok c : color_ok c -> pl_ok 5 (bg_params c).
Proof.
  destruct c as [|i|r gg b]; cbn [color_ok bg_params]; intros H.
  - split; [rewrite len_cons, len_nil; lia|repeat constructor; lia].
  - destruct (N.ltb_spec i 8); [|destruct (N.ltb_spec i 16)];
      (split; [rewrite ?len_cons, len_nil; lia|repeat constructor; lia]).
  - split; [rewrite !len_cons, len_nil; lia|repeat constructor; lia].
Qed.

Lemma inten_params_ok i : pl_ok 1 (inten_params i).
Proof. destruct i; apply pl_ok_1; lia. Qed.

(* the parameters only mention components of the first pen *)
Theorem sgr_diff_params a b ps : pen_ok a -> sgr_diff a b = Some ps -> pl_ok 14 ps.
Proof.
  intros [Hf Hb] E. unfold sgr_diff in E.
  destruct (negb (attrs_eqb a b) && attrs_eqb a dflt).
  { inv E. apply pl_ok_nil. }
  match type of E with match ?l with _ => _ end = _ => assert (pl_ok 14 l) as P; [|destruct l; [discriminate|now inv E]] end.
  change 14 with (5 + (5 + (1 + (1 + (1 + 1))))).
  repeat apply pl_ok_app; apply pl_ok_if.
  - now apply fg_params_ok.
  - now apply bg_params_ok.
  - apply inten_params_ok.
  - apply pl_ok_1. destruct (italic a); lia.
  - apply pl_ok_1. destruct (underline a); lia.
  - apply pl_ok_1. destruct (inverse a); lia.
Qed.

Theorem t_attrs_diff_ok a b : pen_ok a -> toks_ok (t_attrs_diff a b).
Proof.
  intros Ha. unfold t_attrs_diff. destruct (sgr_diff a b) as [ps|] eqn:E; [|apply toks_ok_nil].
  destruct (sgr_diff_params a b ps Ha E) as [L F]. apply toks_ok_one. apply csi_ok; try lia.
  eapply Forall_impl; [|exact F]. cbv beta. intros x Hx. lia.
Qed.

(* the exact bound mentioned in the task *)
Corollary t_attrs_diff_params a b ps : pen_ok a -> t_attrs_diff a b = [TCsi false ps 109] ->
  len ps <= 14 /\ Forall (fun x => x <= 255) ps.
Proof.
  intros Ha E. unfold t_attrs_diff in E. destruct (sgr_diff a b) as [ps'|] eqn:D; [|discriminate].
  inv E. exact (sgr_diff_params a b ps Ha D).
Qed.

(* ------------------------------------------------------------------ *)
(* 3. fixed tokens, cursor moves, mode tokens                           *)
(* ------------------------------------------------------------------ *)

Lemma t_clear_screen_ok : toks_ok t_clear_screen. Proof. vm_compute. reflexivity. Qed.
Lemma t_clear_row_forward_ok : token_ok t_clear_row_forward = true. Proof. vm_compute. reflexivity. Qed.
Lemma t_clear_attrs_ok : token_ok t_clear_attrs = true. Proof. vm_compute. reflexivity. Qed.
Lemma t_crlf_ok : toks_ok t_crlf. Proof. vm_compute. reflexivity. Qed.
Lemma t_bs_ok : token_ok t_bs = true. Proof. vm_compute. reflexivity. Qed.
Lemma t_lf_ok : token_ok (TCtl 10) = true. Proof. vm_compute. reflexivity. Qed.
Lemma t_save_cursor_ok : token_ok t_save_cursor = true. Proof. vm_compute. reflexivity. Qed.
Lemma t_restore_cursor_ok : token_ok t_restore_cursor = true. Proof. vm_compute. reflexivity. Qed.
Lemma t_hide_cursor_ok b : token_ok (t_hide_cursor b) = true. Proof. destruct b; vm_compute; reflexivity. Qed.
Lemma t_keypad_ok b : token_ok (t_keypad b) = true. Proof. destruct b; vm_compute; reflexivity. Qed.
Lemma t_appcur_ok b : token_ok (t_appcur b) = true. Proof. destruct b; vm_compute; reflexivity. Qed.
Lemma t_paste_ok b : token_ok (t_paste b) = true. Proof. destruct b; vm_compute; reflexivity. Qed.
Lemma t_mouse_mode_ok m p : toks_ok (t_mouse_mode m p). Proof. destruct m, p; vm_compute; reflexivity. Qed.
Lemma t_mouse_enc_ok m p : toks_ok (t_mouse_enc m p). Proof. destruct m, p; vm_compute; reflexivity. Qed.

Lemma csi1_ok n f : n <= 65535 -> 64 <= f <= 126 -> token_ok (TCsi false [n] f) = true.
Proof.
  intros Hn Hf. apply csi_ok; [rewrite len_cons, len_nil; lia| |exact Hf]. constructor; [exact Hn|constructor].
Qed.

Lemma t_move_right_ok n : n <= 65535 -> toks_ok (t_move_right n).
Proof.
  intros H. unfold t_move_right. destruct (n =? 0); [apply toks_ok_nil|].
  destruct (n =? 1); apply toks_ok_one; [vm_compute; reflexivity|apply csi1_ok; lia].
Qed.

Lemma t_erase_char_ok n : n <= 65535 -> toks_ok (t_erase_char n).
Proof.
  intros H. unfold t_erase_char. destruct (n =? 0); [apply toks_ok_nil|].
  destruct (n =? 1); apply toks_ok_one; [vm_compute; reflexivity|apply csi1_ok; lia].
Qed.

Lemma t_erase_char_1_ok : toks_ok (t_erase_char 1). Proof. vm_compute. reflexivity. Qed.

Lemma add16_inv a b c : add16 a b = Ok c -> c = a + b /\ a + b <= 65535.
Proof. unfold add16, U16MAX. destruct (N.leb_spec (a + b) 65535); intros E; inv E. split; [reflexivity|assumption]. Qed.
Lemma sub16_inv a b c : sub16 a b = Ok c -> c = a - b /\ b <= a.
Proof. unfold sub16. destruct (N.leb_spec b a); intros E; inv E. split; [reflexivity|assumption]. Qed.

(* the checked additions make the parameters fit: no hypothesis on r, c *)
Lemma t_move_to_tok r c ts : t_move_to r c = Ok ts -> toks_ok ts.
Proof.
  unfold t_move_to. destruct ((r =? 0) && (c =? 0)); intros E; [inv E; vm_compute; reflexivity|].
  binv E as r1 Er. binv E as c1 Ec. inv E. apply add16_inv in Er as [-> Hr]. apply add16_inv in Ec as [-> Hc].
  apply toks_ok_one. apply csi_ok; [rewrite !len_cons, len_nil; lia| |lia]. repeat constructor; lia.
Qed.

(* in the form of the task: arguments <= 65534 *)
Lemma t_move_to_ok' r c : r <= 65534 -> c <= 65534 -> exists ts, t_move_to r c = Ok ts /\ toks_ok ts.
Proof.
  intros Hr Hc. destruct (t_move_to_ok r c) as (ts & E); [exact Hr|exact Hc|]. exists ts. split; [exact E|].
  eapply t_move_to_tok; eauto.
Qed.

Lemma t_move_from_to_tok fr fc tr tc ts : tc <= 65535 -> t_move_from_to fr fc tr tc = Ok ts -> toks_ok ts.
Proof.
  intros Hc. unfold t_move_from_to. intros E. binv E as fr1 Ef.
  destruct ((tr =? fr1) && (tc =? 0)); [inv E; apply t_crlf_ok|].
  destruct ((fr =? tr) && (fc <? tc)); [inv E; apply t_move_right_ok; lia|].
  destruct (negb ((tr =? fr) && (tc =? fc))); [eapply t_move_to_tok; eauto|inv E; apply toks_ok_nil].
Qed.

Lemma move_opt_tok ppos tr tc ts : tc <= 65535 -> move_opt ppos tr tc = Ok ts -> toks_ok ts.
Proof.
  intros Hc. unfold move_opt. destruct ppos as [[pr pc]|]; intros E.
  - eapply t_move_from_to_tok; eauto.
  - eapply t_move_to_tok; eauto.
Qed.

(* in the form of the task: arguments <= 65534 (= POSMAX of EmitSafe.v) *)
Lemma t_move_from_to_ok' fr fc tr tc : fr <= 65534 -> tr <= 65534 -> tc <= 65534 ->
  exists ts, t_move_from_to fr fc tr tc = Ok ts /\ toks_ok ts.
Proof.
  intros Hf Hr Hc. destruct (t_move_from_to_ok fr fc tr tc) as (ts & E); [exact Hf|exact Hr|exact Hc|].
  exists ts. split; [exact E|]. eapply t_move_from_to_tok; [|exact E]. lia.
Qed.

(* mode tokens *)
Theorem input_mode_formatted_ok s : toks_ok (input_mode_formatted_t s).
Proof.
  unfold input_mode_formatted_t. apply toks_ok_app.
  - apply toks_ok_cons; [apply t_keypad_ok|]. apply toks_ok_cons; [apply t_appcur_ok|]. apply toks_ok_one, t_paste_ok.
  - apply toks_ok_app; [apply t_mouse_mode_ok|apply t_mouse_enc_ok].
Qed.

Theorem input_mode_diff_ok s p : toks_ok (input_mode_diff_t s p).
Proof.
  unfold input_mode_diff_t.
  repeat apply toks_ok_app; try apply t_mouse_mode_ok; try apply t_mouse_enc_ok;
    match goal with |- toks_ok (if ?b then _ else _) => destruct b end; try apply toks_ok_nil; apply toks_ok_one.
  - apply t_keypad_ok.
  - apply t_appcur_ok.
  - apply t_paste_ok.
Qed.

Theorem attributes_formatted_ok s : pen_ok (pen s) -> toks_ok (attributes_formatted_t s).
Proof.
  intros H. unfold attributes_formatted_t. apply toks_ok_cons; [apply t_clear_attrs_ok|]. now apply t_attrs_diff_ok.
Qed.

(* ------------------------------------------------------------------ *)
(* 4. the emitter state inside the row loop                             *)
(* ------------------------------------------------------------------ *)

(* everything emitted so far is ok, the tracked attributes are a legal pen, and
   an open erase run carries a legal pen and starts at a u16 column *)
Record tinv (e : est) : Prop := mkTinv {
  ti_out : toks_ok (eout e);
  ti_attrs : pen_ok (eattrs e);
  ti_erase : forall pc a, eerase e = Some (pc, a) -> pen_ok a /\ pc <= 65535 }.

Lemma tinv_e_out e ts : tinv e -> toks_ok ts -> tinv (e_out e ts).
Proof. intros [H1 H2 H3] Ht. split; cbn [e_out eout eattrs eerase]; auto. now apply toks_ok_app. Qed.

Lemma tinv_e_pos e r c : tinv e -> tinv (e_pos e r c).
Proof. intros [H1 H2 H3]. split; cbn [e_pos eout eattrs eerase]; auto. Qed.

Lemma tinv_e_erase_none e : tinv e -> tinv (e_erase e None).
Proof. intros [H1 H2 H3]. split; cbn [e_erase eout eattrs eerase]; auto. intros; discriminate. Qed.

Lemma tinv_e_erase_some e pc a : tinv e -> pen_ok a -> pc <= 65535 -> tinv (e_erase e (Some (pc, a))).
Proof.
  intros [H1 H2 H3] Ha Hpc. split; cbn [e_erase eout eattrs eerase]; auto.
  intros pc' a' E. inv E. split; assumption.
Qed.

Lemma tinv_e_attrs e a : tinv e -> pen_ok a -> tinv (e_attrs e a).
Proof.
  intros Hi Ha. unfold e_attrs. destruct (attrs_eqb (eattrs e) a); [exact Hi|].
  destruct Hi as [H1 H2 H3]. split; cbn [eout eattrs eerase]; auto.
  apply toks_ok_app; [exact H1|now apply t_attrs_diff_ok].
Qed.

Lemma tinv_e_move e tr tc e' : tc <= 65535 -> e_move e tr tc = Ok e' -> tinv e -> tinv e'.
Proof.
  intros Hc E Hi. unfold e_move in E. binv E as ts Ets. inv E. apply tinv_e_out; [exact Hi|].
  eapply t_move_from_to_tok; eauto.
Qed.

Lemma tinv_init pr pc a : pen_ok a -> tinv (mkE [] pr pc a None).
Proof. intros Ha. split; cbn; [apply toks_ok_nil|exact Ha|intros; discriminate]. Qed.

Lemma flush_erase_tok dm wr cols rowi e pc a stop e' :
  flush_erase dm wr cols rowi e pc a stop = Ok e' -> tinv e -> pen_ok a -> pc <= 65535 ->
  (forall col, stop = Some col -> col <= 65535) -> tinv e' /\ eerase e' = None.
Proof.
  unfold flush_erase. intros E Hi Ha Hpc Hstop. binv E as through Et. binv E as e1 E1. cbv zeta in E.
  assert (tinv e1) as Hi1.
  { destruct through.
    - inv E1. destruct (0 <? pc); apply tinv_e_out; try exact Hi.
      + apply toks_ok_one, tchars_repeat32_ok.
      + apply toks_ok_cons; [apply tchars_32_ok|apply toks_ok_one, t_bs_ok].
    - eapply tinv_e_move; eauto. }
  assert (tinv (e_attrs (e_pos e1 rowi pc) a)) as Hi2 by (apply tinv_e_attrs; [now apply tinv_e_pos|exact Ha]).
  destruct stop as [col|].
  - binv E as n En. inv E. apply sub16_inv in En as [-> Hle]. split; [|reflexivity].
    apply tinv_e_erase_none, tinv_e_out; [exact Hi2|]. apply t_erase_char_ok.
    specialize (Hstop col eq_refl). lia.
  - inv E. split; [|reflexivity]. apply tinv_e_erase_none, tinv_e_out; [exact Hi2|].
    apply toks_ok_one, t_clear_row_forward_ok.
Qed.

Lemma emit_cell_tok dm wr cols rowi e col c skip e' :
  emit_cell dm wr cols rowi e col c skip = Ok e' -> tinv e -> col <= 65535 -> cell_wf c -> cell_aok c -> tinv e'.
Proof.
  unfold emit_cell. intros E Hi Hcol Hwf Haok. binv E as e1 E1.
  assert (tinv e1) as Hi1.
  { destruct (eerase e) as [[pc a]|] eqn:Ee; [|now inv E1].
    destruct (ti_erase _ Hi pc a Ee) as [Ha Hpc].
    destruct (has_contents c || negb (attrs_eqb (cattrs c) a)); [|now inv E1].
    eapply flush_erase_tok in E1 as [W _]; eauto. intros col' Ec. now inv Ec. }
  destruct skip; [now inv E|].
  destruct (has_contents c).
  - binv E as e2 E2.
    assert (tinv e2) as Hi2.
    { destruct ((er e1 =? rowi) && (ec e1 =? col)); [now inv E2|].
      binv E2 as need En. binv E2 as em Em. inv E2. apply tinv_e_pos.
      destruct need; [eapply tinv_e_move; eauto|now inv Em]. }
    cbv zeta in E. binv E as nc Enc. inv E.
    apply tinv_e_out; [apply tinv_e_pos, tinv_e_attrs; assumption|].
    apply toks_ok_one, tchars_cell_ok, Hwf.
  - destruct (eerase e1) eqn:Ee1; inv E; [exact Hi1|]. now apply tinv_e_erase_some.
Qed.

Definition cs_ok (cs : list (cell * bool)) : Prop :=
  Forall (fun p : cell * bool => cell_wf (fst p) /\ cell_aok (fst p)) cs.

Lemma emit_loop_tok dm wr cols rowi : forall cs col pw e e',
  emit_loop dm wr cols rowi cs col pw e = Ok e' -> cs_ok cs -> (cs = [] \/ col + len cs <= 65536) ->
  tinv e -> tinv e'.
Proof.
  induction cs as [|[c skip] rest IH]; intros col pw e e' E Hcs Hb Hi; cbn [emit_loop] in E.
  - now inv E.
  - destruct Hb as [D|Hb]; [discriminate|]. rewrite len_cons in Hb.
    inversion Hcs as [|x xs [Hwf Haok] Hrest]; subst. cbn [fst] in *.
    destruct pw.
    + eapply IH; eauto. right. lia.
    + binv E as e1 E1. eapply IH; eauto; [right; lia|].
      eapply emit_cell_tok; eauto. lia.
Qed.

Lemma finish_erase_tok dm wr cols rowi e e' : finish_erase dm wr cols rowi e = Ok e' -> tinv e -> tinv e'.
Proof.
  unfold finish_erase. intros E Hi. destruct (eerase e) as [[pc a]|] eqn:Ee; [|now inv E].
  destruct (ti_erase _ Hi pc a Ee) as [Ha Hpc].
  eapply flush_erase_tok in E as [W _]; eauto. intros; discriminate.
Qed.

(* ------------------------------------------------------------------ *)
(* 5. windows                                                           *)
(* ------------------------------------------------------------------ *)

Lemma len_window {A} start width (l : list A) : len (window start width l) = N.min width (len l - start).
Proof. unfold window. rewrite len_firstnN, len_skipnN. reflexivity. Qed.

Lemma len_0_nil {A} (l : list A) : len l = 0 -> l = [].
Proof. destruct l; [reflexivity|]. rewrite len_cons. lia. Qed.

Lemma window_bound {A} start width (l : list A) : len l <= 65535 ->
  window start width l = [] \/ start + len (window start width l) <= 65536.
Proof.
  intros H. destruct (N.eq_dec (len (window start width l)) 0) as [Z|Z].
  - left. now apply len_0_nil.
  - right. rewrite len_window in *. lia.
Qed.

Lemma Forall_window {A} (P : A -> Prop) start width l : Forall P l -> Forall P (window start width l).
Proof. intros H. unfold window. now apply Forall_firstnN, Forall_skipnN. Qed.

Lemma Forall_map_to {A B} (P : B -> Prop) (f : A -> B) l : Forall (fun a => P (f a)) l -> Forall P (map f l).
Proof. induction 1; cbn [map]; constructor; auto. Qed.

Lemma map_bound {A B} (f : A -> B) l n : (l = [] \/ n + len l <= 65536) -> map f l = [] \/ n + len (map f l) <= 65536.
Proof. intros [->|H]; [left; reflexivity|right; rewrite len_map; exact H]. Qed.

(* ------------------------------------------------------------------ *)
(* 6. rows                                                              *)
(* ------------------------------------------------------------------ *)

(* what the row emitters need of a row: its cells are well formed, carry legal
   pens, and there are at most 65535 of them *)
Definition row_tok (r : row) : Prop := row_wf r /\ row_aok r /\ len (cells r) <= 65535.

Lemma row_tok_cells r : row_tok r -> Forall (fun c => cell_wf c /\ cell_aok c) (cells r).
Proof.
  intros (H1 & H2 & _). unfold row_wf, row_aok in *. rewrite Forall_forall in *. intros c Hc. split; auto.
Qed.

Lemma row_tok_get r i c : row_tok r -> get (cells r) i = Some c -> cell_wf c /\ cell_aok c.
Proof. intros H G. exact (Forall_get _ _ _ _ (row_tok_cells r H) G). Qed.

Theorem row_formatted_tok r start width rowi wrapping ppos pattrs ts pos a' :
  row_tok r -> (forall a, pattrs = Some a -> pen_ok a) ->
  row_formatted r start width rowi wrapping ppos pattrs = Ok (ts, pos, a') -> toks_ok ts /\ pen_ok a'.
Proof.
  intros Hr Hpa E. unfold row_formatted in E. cbv zeta in E.
  binv E as p Ep. destruct p as [pr pc].
  match type of E with bind (emit_loop _ _ _ _ _ _ _ ?X) _ = _ => set (e1 := X) in * end.
  assert (tinv e1) as Hi1.
  { assert (tinv (mkE [] pr pc match pattrs with Some a => a | None => dflt end None)) as Hi0.
    { apply tinv_init. destruct pattrs as [a|]; [now apply Hpa|exact pen_ok_dflt]. }
    unfold e1. destruct (row_get r start) as [fc|]; [|exact Hi0].
    destruct (wrapping && cell_eqb fc cell_new); [|exact Hi0].
    apply tinv_e_pos, tinv_e_out; [apply tinv_e_attrs; [exact Hi0|exact pen_ok_dflt]|].
    vm_compute. reflexivity. }
  binv E as e2 E2. binv E as e3 E3. inv E.
  assert (tinv e3) as [W1 W2 _]; [|split; assumption].
  eapply finish_erase_tok; eauto. eapply emit_loop_tok; eauto.
  - apply Forall_map_to. cbn [fst]. apply Forall_window, row_tok_cells, Hr.
  - apply map_bound, window_bound. apply Hr.
Qed.

Lemma list_eqb_eq (a : list N) : forall b, list_eqb N.eqb a b = true -> a = b.
Proof.
  induction a as [|x a IH]; intros [|y b]; cbn [list_eqb]; try discriminate; [reflexivity|].
  intros H. apply andb_prop in H as [H1 H2]. apply N.eqb_eq in H1. subst. f_equal. now apply IH.
Qed.

Lemma cell_eqb_ctext a b : cell_eqb a b = true -> ctext a = ctext b.
Proof.
  unfold cell_eqb. intros H. apply andb_prop in H as [H _]. apply andb_prop in H as [H _]. apply andb_prop in H as [H _].
  now apply list_eqb_eq.
Qed.

(* nothing is required of the previous row: its first cell is only printed
   when it equals the first cell of the new row *)
Theorem row_diff_tok r prev start width rowi wrapping pwrapping ppos pattrs ts pos a' :
  row_tok r -> pen_ok pattrs ->
  row_diff r prev start width rowi wrapping pwrapping ppos pattrs = Ok (ts, pos, a') -> toks_ok ts /\ pen_ok a'.
Proof.
  intros Hr Hpa E. unfold row_diff in E. cbv zeta in E.
  destruct (row_get r start) as [fc|] eqn:Gf; [|inv E; split; [apply toks_ok_nil|exact Hpa]].
  destruct (row_get prev start) as [pfc|] eqn:Gp; [|inv E; split; [apply toks_ok_nil|exact Hpa]].
  destruct (row_tok_get r start fc Hr Gf) as [Fwf Faok].
  binv E as pro Epro.
  assert (pro = true -> cell_eqb fc pfc = true) as Hpro.
  { intros ->. destruct (cell_eqb fc pfc); [reflexivity|]. rewrite andb_false_r in Epro. inv Epro. }
  match type of E with bind (emit_loop _ _ _ _ _ _ _ ?X) _ = _ => set (e1 := X) in * end.
  assert (tinv e1) as Hi1.
  { assert (tinv (mkE [] (fst ppos) (snd ppos) pattrs None)) as Hi0 by (now apply tinv_init).
    unfold e1. destruct pro; [|exact Hi0].
    apply tinv_e_pos, tinv_e_out; [apply tinv_e_attrs; [exact Hi0|exact Faok]|].
    apply toks_ok_app; [|apply toks_ok_app].
    - apply toks_ok_cons; [|apply toks_ok_one, t_bs_ok].
      destruct (negb (has_contents pfc)); [apply tchars_32_ok|].
      rewrite <- (cell_eqb_ctext fc pfc (Hpro eq_refl)). now apply tchars_cell_ok.
    - destruct (cwide pfc); [apply toks_ok_one, t_bs_ok|apply toks_ok_nil].
    - destruct (negb (has_contents pfc)); [apply t_erase_char_1_ok|apply toks_ok_nil]. }
  binv E as e2 E2. binv E as e3 E3. binv E as e4 E4. inv E.
  assert (tinv e3) as Hi3.
  { eapply finish_erase_tok; eauto. eapply emit_loop_tok; eauto.
    - apply Forall_map_to. cbn [fst]. apply Forall_window.
      apply (Forall_zip_fst (fun c => cell_wf c /\ cell_aok c)), row_tok_cells, Hr.
    - apply map_bound, window_bound. pose proof (zip_len_le (cells r) (cells prev)).
      destruct Hr as (_ & _ & L). lia. }
  assert (tinv e4) as [W1 W2 _]; [|split; assumption].
  destruct (negb (Bool.eqb (wrapped r) (wrapped prev))); [|now inv E4].
  binv E4 as lastc El. binv E4 as lc Elc. binv E4 as endc Eendc. binv E4 as em Em. cbv zeta in E4.
  binv E4 as endcell Eec.
  assert (endc <= 65535) as Hendc.
  { apply sub16_inv in El as [-> _]. destruct Hr as (_ & _ & L). unfold row_cols in *.
    destruct (ccont lc); [apply sub16_inv in Eendc as [-> _]|inv Eendc]; lia. }
  apply idx_inv in Eec. destruct (row_tok_get r endc endcell Hr Eec) as [Ewf Eaok].
  pose proof (tinv_e_move _ _ _ _ Hendc Em Hi3) as Him.
  set (e5 := if negb (wrapped r) then e_out (e_pos em rowi endc) (t_erase_char 1) else e_pos em rowi endc) in *.
  assert (tinv e5) as Hi5.
  { unfold e5. destruct (negb (wrapped r)); [apply tinv_e_out; [now apply tinv_e_pos|apply t_erase_char_1_ok]|now apply tinv_e_pos]. }
  destruct (has_contents endcell); [|now inv E4].
  cbv zeta in E4. binv E4 as nc Enc. inv E4.
  apply tinv_e_pos, tinv_e_out; [now apply tinv_e_attrs|]. now apply toks_ok_one, tchars_cell_ok.
Qed.

(* rows of a grid that satisfies the three invariants *)
Lemma vrow_tok r : vrow_ok r -> row_wf r -> row_aok r -> row_tok r.
Proof.
  intros (_ & _ & L) Hw Ha. split; [exact Hw|]. split; [exact Ha|]. unfold MAXDIM in L. lia.
Qed.

(* success (EmitSafe.v, with its position bounds) and token well-formedness together *)
Theorem row_formatted_ok_tok r start width rowi wrapping pr pc a :
  vrow_ok r -> row_wf r -> row_aok r -> rowi <= MAXDIM -> pr <= MAXDIM -> pen_ok a ->
  exists ts pos' a',
    row_formatted r start width rowi wrapping (Some (pr, pc)) (Some a) = Ok (ts, pos', a') /\
    toks_ok ts /\ pen_ok a'.
Proof.
  intros Hv Hw Ha Hrow Hpr Hpa.
  destruct (row_formatted_ok r start width rowi wrapping pr pc a Hv Hrow Hpr) as (ts & pr' & pc' & a' & E & _).
  exists ts, (pr', pc'), a'. split; [exact E|].
  eapply row_formatted_tok; [exact (vrow_tok r Hv Hw Ha)| |exact E]. intros a0 Ea. now inv Ea.
Qed.

Theorem row_diff_ok_tok r prev start width rowi wrapping pwrapping pr pc a :
  vrow_ok r -> row_wf r -> row_aok r -> rowi <= MAXDIM -> pr <= MAXDIM -> pen_ok a ->
  exists ts pos' a',
    row_diff r prev start width rowi wrapping pwrapping (pr, pc) a = Ok (ts, pos', a') /\
    toks_ok ts /\ pen_ok a'.
Proof.
  intros Hv Hw Ha Hrow Hpr Hpa.
  destruct (row_diff_ok r prev start width rowi wrapping pwrapping pr pc a Hv Hrow Hpr) as (ts & pr' & pc' & a' & E & _).
  exists ts, (pr', pc'), a'. split; [exact E|].
  eapply row_diff_tok; [exact (vrow_tok r Hv Hw Ha)|exact Hpa|exact E].
Qed.

(* ------------------------------------------------------------------ *)
(* 7. Grid::write_cursor_position_formatted                             *)
(* ------------------------------------------------------------------ *)

Lemma vcell_tok vr r c : Forall row_tok vr -> cell_wf (vcell vr r c) /\ cell_aok (vcell vr r c).
Proof.
  intros F. unfold vcell. destruct (get vr r) as [rw|] eqn:Er; [|split; [apply cell_new_wf|apply cell_new_aok]].
  unfold row_get. destruct (get (cells rw) c) as [x|] eqn:Ex; [|split; [apply cell_new_wf|apply cell_new_aok]].
  eapply row_tok_get; eauto. eapply Forall_get; eauto.
Qed.

Lemma redraw_cell_tok c pa : cell_wf c -> cell_aok c -> pen_ok pa -> toks_ok (redraw_cell c pa).
Proof.
  intros Hwf Haok Hpa. unfold redraw_cell.
  apply toks_ok_app; [now apply t_attrs_diff_ok|]. apply toks_ok_app; [|now apply t_attrs_diff_ok].
  now apply toks_ok_one, tchars_cell_ok.
Qed.

Lemma last_col_le cols lastc (b : bool) c :
  sub16 cols 1 = Ok lastc -> (if b then sub16 cols 2 else Ok lastc) = Ok c -> c <= cols /\ lastc <= cols.
Proof.
  intros E1 E2. apply sub16_inv in E1 as [-> _]. destruct b; [apply sub16_inv in E2 as [-> _]|inv E2]; lia.
Qed.

Lemma find_filled_tok vr cols : Forall row_tok vr -> forall n i ci cli,
  find_filled vr cols n = Ok (Some (i, ci, cli)) -> ci <= cols /\ cell_wf cli /\ cell_aok cli.
Proof.
  intros F. induction n as [|k IH]; intros i ci cli E; cbn [find_filled] in E; [discriminate|].
  cbv zeta in E. binv E as lastc El. binv E as c Ec.
  destruct (last_col_le _ _ _ _ El Ec) as [Hc _].
  destruct (has_contents (vcell vr (N.of_nat k) c)).
  - inv E. split; [exact Hc|]. now apply vcell_tok.
  - eapply IH; eauto.
Qed.

(* what the grid-level emitters need of a grid *)
Definition grid_tok (x : grid) : Prop :=
  gcols x <= 65535 /\ pcol x <= 65535 /\ forall vr, visible_rows x = Ok vr -> Forall row_tok vr.

Theorem cursor_position_formatted_tok x ppos pattrs ts :
  grid_tok x -> (forall a, pattrs = Some a -> pen_ok a) ->
  cursor_position_formatted x ppos pattrs = Ok ts -> toks_ok ts.
Proof.
  intros (Hcols & Hpcol & Hvr) Hpa E. unfold cursor_position_formatted in E. cbv zeta in E.
  set (pa := match pattrs with Some a => a | None => dflt end) in *.
  assert (pen_ok pa) as Hpa'.
  { unfold pa. destruct pattrs as [a|]; [now apply Hpa|exact pen_ok_dflt]. }
  match type of E with (if ?b then _ else _) = _ => destruct b end.
  2:{ eapply move_opt_tok; [|exact E]; lia. }
  binv E as vr Evr. specialize (Hvr vr Evr). binv E as lastc El. binv E as c Ec.
  destruct (last_col_le _ _ _ _ El Ec) as [Hc Hlastc].
  destruct (vcell_tok vr (prow x) c Hvr) as [Cwf Caok].
  destruct (has_contents (vcell vr (prow x) c)).
  - binv E as mv Emv. inv E. apply toks_ok_app; [eapply move_opt_tok; [|exact Emv]; lia|now apply redraw_cell_tok].
  - binv E as found Ef. destruct found as [[[i ci] cli]|].
    + destruct (find_filled_tok vr (gcols x) Hvr _ _ _ _ Ef) as (Hci & Fwf & Faok).
      binv E as pre Epre. inv E. apply toks_ok_app; [|apply toks_ok_repeatN, t_lf_ok].
      destruct ppos as [[pr pc]|].
      * destruct (negb (pr =? i) || (pc <? gcols x)); [|inv Epre; apply toks_ok_nil].
        binv Epre as mv Emv. inv Epre.
        apply toks_ok_app; [eapply t_move_from_to_tok; [|exact Emv]; lia|now apply redraw_cell_tok].
      * binv Epre as mv Emv. inv Epre.
        apply toks_ok_app; [eapply t_move_to_tok; eauto|now apply redraw_cell_tok].
    + binv E as mv Emv. inv E.
      destruct (vcell_tok vr (prow x) lastc Hvr) as [Ewf Eaok].
      apply toks_ok_app; [eapply move_opt_tok; [|exact Emv]; lia|].
      apply toks_ok_cons; [apply tchars_32_ok|].
      apply toks_ok_app; [now apply t_attrs_diff_ok|].
      apply toks_ok_cons; [apply t_save_cursor_ok|]. apply toks_ok_cons; [apply t_bs_ok|].
      apply toks_ok_cons; [vm_compute; reflexivity|]. apply toks_ok_cons; [apply t_restore_cursor_ok|].
      now apply t_attrs_diff_ok.
Qed.

(* ------------------------------------------------------------------ *)
(* 8. Grid::write_contents_formatted / write_contents_diff              *)
(* ------------------------------------------------------------------ *)

Lemma rows_formatted_loop_tok cols : forall vr i wrapping pos a acc ts pos' a',
  rows_formatted_loop cols vr i wrapping pos a acc = Ok (ts, pos', a') ->
  Forall row_tok vr -> pen_ok a -> toks_ok acc -> toks_ok ts /\ pen_ok a'.
Proof.
  induction vr as [|rw rest IH]; intros i wrapping pos a acc ts pos' a' E F Ha Hacc; cbn [rows_formatted_loop] in E.
  - inv E. split; assumption.
  - inversion F as [|x xs Frw Frest]; subst. binv E as p1 E1. destruct p1 as [[ts1 pos1] a1].
    destruct (row_formatted_tok _ _ _ _ _ _ _ _ _ _ Frw (fun a0 (Ea : Some a = Some a0) => eq_ind a pen_ok Ha a0 (f_equal (fun o => match o with Some z => z | None => a end) Ea)) E1) as [T1 A1].
    eapply IH; eauto. now apply toks_ok_app.
Qed.

Theorem grid_contents_formatted_tok x ts a :
  grid_tok x -> grid_contents_formatted x = Ok (ts, a) -> toks_ok ts /\ pen_ok a.
Proof.
  intros Hx E. unfold grid_contents_formatted in E. binv E as vr Evr. binv E as p1 E1. destruct p1 as [[ts1 pos1] a1].
  binv E as cur Ecur. inv E.
  destruct (rows_formatted_loop_tok _ _ _ _ _ _ _ _ _ _ E1) as [T1 A1];
    [apply Hx; exact Evr|exact pen_ok_dflt|apply toks_ok_nil|].
  split; [|exact A1].
  apply toks_ok_cons; [apply t_clear_attrs_ok|].
  apply toks_ok_cons; [vm_compute; reflexivity|]. apply toks_ok_cons; [vm_compute; reflexivity|].
  apply toks_ok_app; [exact T1|].
  eapply cursor_position_formatted_tok; eauto. intros a0 Ea. now inv Ea.
Qed.

Lemma rows_diff_loop_tok cols : forall vr i wrapping pwrapping pos a acc ts pos' a',
  rows_diff_loop cols vr i wrapping pwrapping pos a acc = Ok (ts, pos', a') ->
  Forall (fun p : row * row => row_tok (fst p)) vr -> pen_ok a -> toks_ok acc -> toks_ok ts /\ pen_ok a'.
Proof.
  induction vr as [|[rw prw] rest IH]; intros i wrapping pwrapping pos a acc ts pos' a' E F Ha Hacc; cbn [rows_diff_loop] in E.
  - inv E. split; assumption.
  - inversion F as [|x xs Frw Frest]; subst. cbn [fst] in Frw. binv E as p1 E1. destruct p1 as [[ts1 pos1] a1].
    destruct (row_diff_tok _ _ _ _ _ _ _ _ _ _ _ _ Frw Ha E1) as [T1 A1].
    eapply IH; eauto. now apply toks_ok_app.
Qed.

(* of the previous grid nothing is needed; of the previous pen only [pen_ok] *)
Theorem grid_contents_diff_tok x prev pattrs ts a :
  grid_tok x -> pen_ok pattrs -> grid_contents_diff x prev pattrs = Ok (ts, a) -> toks_ok ts /\ pen_ok a.
Proof.
  intros Hx Hpa E. unfold grid_contents_diff in E. binv E as vr Evr. binv E as pvr Epvr.
  binv E as p1 E1. destruct p1 as [[ts1 pos1] a1]. binv E as cur Ecur. inv E.
  destruct (rows_diff_loop_tok _ _ _ _ _ _ _ _ _ _ _ E1) as [T1 A1];
    [apply Forall_zip_fst, Hx; exact Evr|exact Hpa|apply toks_ok_nil|].
  split; [|exact A1]. apply toks_ok_app; [exact T1|].
  eapply cursor_position_formatted_tok; eauto. intros a0 Ea. now inv Ea.
Qed.

(* ------------------------------------------------------------------ *)
(* 9. from the invariants to [grid_tok]                                 *)
(* ------------------------------------------------------------------ *)

Lemma visible_rows_aok x l : visible_rows x = Ok l -> grid_aok x -> Forall row_aok l.
Proof.
  unfold visible_rows. intros E [Hl Hs]. binv E as k Ek. inv E. apply Forall_app; split.
  - apply Forall_firstnN, Forall_skipnN, Hs.
  - apply Forall_firstnN, Hl.
Qed.

Theorem grid_tok_of x : grid_ok x -> grid_wf x -> grid_aok x -> grid_tok x.
Proof.
  intros Hok Hwf Haok. pose proof Hok as (K & Hr & Hc). pose proof (gk_cols _ K) as Kc.
  assert (HD : MAXDIM = 65520) by reflexivity.
  split; [lia|]. split; [lia|]. intros vr Evr.
  destruct (visible_rows_ok x Hok) as (vr' & Evr' & _ & Fv). rewrite Evr in Evr'. inv Evr'.
  pose proof (visible_rows_wf _ _ Evr Hwf) as Fw. pose proof (visible_rows_aok _ _ Evr Haok) as Fa.
  rewrite Forall_forall in *. intros r Hin. split; [now apply Fw|]. split; [now apply Fa|].
  destruct (Fv r Hin) as (_ & _ & L). lia.
Qed.

(* the three invariants of a screen *)
Definition screen_inv (s : screen) : Prop := screen_ok s /\ screen_wf s /\ screen_attrs_ok s.

Lemma cur_tok s : screen_inv s -> grid_tok (cur s).
Proof. intros (H1 & H2 & H3). apply grid_tok_of; [now apply cur_ok|now apply cur_wf|now apply cur_aok]. Qed.

(* ------------------------------------------------------------------ *)
(* 10. Screen level                                                     *)
(* ------------------------------------------------------------------ *)

Theorem contents_formatted_tok s ts :
  screen_ok s -> screen_wf s -> screen_attrs_ok s -> contents_formatted_t s = Ok ts -> toks_ok ts.
Proof.
  intros H1 H2 H3 E. unfold contents_formatted_t in E. binv E as p1 E1. destruct p1 as [ts1 a]. inv E.
  destruct (grid_contents_formatted_tok _ _ _ (cur_tok s (conj H1 (conj H2 H3))) E1) as [T1 A1].
  apply toks_ok_cons; [apply t_hide_cursor_ok|]. apply toks_ok_app; [exact T1|].
  apply t_attrs_diff_ok, sa_pen, H3.
Qed.

Theorem state_formatted_tok s ts :
  screen_ok s -> screen_wf s -> screen_attrs_ok s -> state_formatted_t s = Ok ts -> toks_ok ts.
Proof.
  intros H1 H2 H3 E. unfold state_formatted_t in E. binv E as ts1 E1. inv E.
  apply toks_ok_app; [eapply contents_formatted_tok; eauto|apply input_mode_formatted_ok].
Qed.

Theorem cursor_state_formatted_tok s ts :
  screen_ok s -> screen_wf s -> screen_attrs_ok s -> cursor_state_formatted_t s = Ok ts -> toks_ok ts.
Proof.
  intros H1 H2 H3 E. unfold cursor_state_formatted_t in E. binv E as ts1 E1. inv E.
  apply toks_ok_cons; [apply t_hide_cursor_ok|].
  eapply cursor_position_formatted_tok; [apply (cur_tok s (conj H1 (conj H2 H3)))| |exact E1]. intros; discriminate.
Qed.

(* strongest form: of the previous screen only the pen matters *)
Theorem contents_diff_tok_strong s p ts :
  screen_ok s -> screen_wf s -> screen_attrs_ok s -> pen_ok (pen p) -> contents_diff_t s p = Ok ts -> toks_ok ts.
Proof.
  intros H1 H2 H3 Hp E. unfold contents_diff_t in E. binv E as p1 E1. destruct p1 as [ts1 a]. inv E.
  destruct (grid_contents_diff_tok _ _ _ _ _ (cur_tok s (conj H1 (conj H2 H3))) Hp E1) as [T1 A1].
  apply toks_ok_app; [destruct (Bool.eqb (hide s) (hide p)); [apply toks_ok_nil|apply toks_ok_one, t_hide_cursor_ok]|].
  apply toks_ok_app; [exact T1|]. apply t_attrs_diff_ok, sa_pen, H3.
Qed.

Theorem state_diff_tok_strong s p ts :
  screen_ok s -> screen_wf s -> screen_attrs_ok s -> pen_ok (pen p) -> state_diff_t s p = Ok ts -> toks_ok ts.
Proof.
  intros H1 H2 H3 Hp E. unfold state_diff_t in E. binv E as ts1 E1. inv E.
  apply toks_ok_app; [eapply contents_diff_tok_strong; eauto|apply input_mode_diff_ok].
Qed.

(* as stated in the task: the invariants on both screens *)
Theorem contents_diff_tok s p ts :
  screen_ok s -> screen_wf s -> screen_attrs_ok s -> screen_ok p -> screen_wf p -> screen_attrs_ok p ->
  contents_diff_t s p = Ok ts -> toks_ok ts.
Proof. intros H1 H2 H3 _ _ P3. apply contents_diff_tok_strong; auto. apply sa_pen, P3. Qed.

Theorem state_diff_tok s p ts :
  screen_ok s -> screen_wf s -> screen_attrs_ok s -> screen_ok p -> screen_wf p -> screen_attrs_ok p ->
  state_diff_t s p = Ok ts -> toks_ok ts.
Proof. intros H1 H2 H3 _ _ P3. apply state_diff_tok_strong; auto. apply sa_pen, P3. Qed.

Lemma rows_formatted_rows_tok fullw start width : forall vr i wrapping out,
  rows_formatted_rows fullw vr start width i wrapping = Ok out -> Forall row_tok vr -> Forall toks_ok out.
Proof.
  induction vr as [|rw rest IH]; intros i wrapping out E F; cbn [rows_formatted_rows] in E.
  - inv E. constructor.
  - inversion F as [|x xs Frw Frest]; subst. binv E as p1 E1. destruct p1 as [[ts1 pos1] a1].
    binv E as more Em. inv E. constructor; [|eapply IH; eauto].
    eapply row_formatted_tok; [exact Frw| |exact E1]. intros; discriminate.
Qed.

Theorem rows_formatted_tok s start width out :
  screen_ok s -> screen_wf s -> screen_attrs_ok s -> rows_formatted_t s start width = Ok out -> Forall toks_ok out.
Proof.
  intros H1 H2 H3 E. unfold rows_formatted_t in E. binv E as vr Evr.
  eapply rows_formatted_rows_tok; eauto. apply (cur_tok s (conj H1 (conj H2 H3))), Evr.
Qed.

Lemma rows_diff_rows_tok start width : forall vr i out,
  rows_diff_rows vr start width i = Ok out -> Forall (fun p : row * row => row_tok (fst p)) vr -> Forall toks_ok out.
Proof.
  induction vr as [|[rw prw] rest IH]; intros i out E F; cbn [rows_diff_rows] in E.
  - inv E. constructor.
  - inversion F as [|x xs Frw Frest]; subst. cbn [fst] in Frw. binv E as p1 E1. destruct p1 as [[ts1 pos1] a1].
    binv E as more Em. inv E. constructor; [|eapply IH; eauto].
    eapply row_diff_tok; [exact Frw|exact pen_ok_dflt|exact E1].
Qed.

(* nothing at all is needed of the previous screen *)
Theorem rows_diff_tok_strong s p start width out :
  screen_ok s -> screen_wf s -> screen_attrs_ok s -> rows_diff_t s p start width = Ok out -> Forall toks_ok out.
Proof.
  intros H1 H2 H3 E. unfold rows_diff_t in E. binv E as vr Evr. binv E as pvr Epvr.
  eapply rows_diff_rows_tok; eauto. apply Forall_zip_fst. apply (cur_tok s (conj H1 (conj H2 H3))), Evr.
Qed.

Theorem rows_diff_tok s p start width out :
  screen_ok s -> screen_wf s -> screen_attrs_ok s -> screen_ok p -> screen_wf p -> screen_attrs_ok p ->
  rows_diff_t s p start width = Ok out -> Forall toks_ok out.
Proof. intros H1 H2 H3 _ _ _. now apply rows_diff_tok_strong. Qed.

(* ------------------------------------------------------------------ *)
(* 11. the tie to bytes                                                 *)
(* ------------------------------------------------------------------ *)

(* the serialized tokens, fed to a vte parser in any ground state, produce
   exactly [flat_map acts_of ts] and leave the parser in a ground state; and a
   [Parser] that holds no bytes back ([pend] empty) and processes them performs exactly these
   actions and holds nothing back afterwards (serialised tokens end in a complete character) *)
Definition reparses (ts : list token) : Prop :=
  forall v, ground v -> exists v',
    advance v (ser_all ts) = (v', flat_map acts_of ts) /\ ground v' /\
    forall r l rz,
      process (mkParser v r l rz []) (ser_all ts) =
      (do '(r', evs) <- perform_all rz r (flat_map acts_of ts) []; Ok (mkParser v' r' (l ++ evs) rz [])).

Theorem toks_ok_reparses ts : toks_ok ts -> reparses ts.
Proof.
  intros H v Hg. destruct (parse_ser ts v Hg H) as (v' & E & G). exists v'. split; [exact E|]. split; [exact G|].
  intros r l rz. rewrite (process_ser_all (mkParser v r l rz []) ts eq_refl H). cbn [vt scr log resizing]. rewrite E. reflexivity.
Qed.

Theorem contents_formatted_reparses s ts :
  screen_ok s -> screen_wf s -> screen_attrs_ok s -> contents_formatted_t s = Ok ts -> reparses ts.
Proof. intros. eapply toks_ok_reparses, contents_formatted_tok; eauto. Qed.
Theorem state_formatted_reparses s ts :
  screen_ok s -> screen_wf s -> screen_attrs_ok s -> state_formatted_t s = Ok ts -> reparses ts.
Proof. intros. eapply toks_ok_reparses, state_formatted_tok; eauto. Qed.
Theorem cursor_state_formatted_reparses s ts :
  screen_ok s -> screen_wf s -> screen_attrs_ok s -> cursor_state_formatted_t s = Ok ts -> reparses ts.
Proof. intros. eapply toks_ok_reparses, cursor_state_formatted_tok; eauto. Qed.
Theorem contents_diff_reparses s p ts :
  screen_ok s -> screen_wf s -> screen_attrs_ok s -> pen_ok (pen p) -> contents_diff_t s p = Ok ts -> reparses ts.
Proof. intros. eapply toks_ok_reparses, contents_diff_tok_strong; eauto. Qed.
Theorem state_diff_reparses s p ts :
  screen_ok s -> screen_wf s -> screen_attrs_ok s -> pen_ok (pen p) -> state_diff_t s p = Ok ts -> reparses ts.
Proof. intros. eapply toks_ok_reparses, state_diff_tok_strong; eauto. Qed.
Theorem rows_formatted_reparses s start width out :
  screen_ok s -> screen_wf s -> screen_attrs_ok s -> rows_formatted_t s start width = Ok out -> Forall reparses out.
Proof.
  intros. eapply Forall_impl; [|eapply rows_formatted_tok; eauto]. apply toks_ok_reparses.
Qed.
Theorem rows_diff_reparses s p start width out :
  screen_ok s -> screen_wf s -> screen_attrs_ok s -> rows_diff_t s p start width = Ok out -> Forall reparses out.
Proof.
  intros. eapply Forall_impl; [|eapply rows_diff_tok_strong; eauto]. apply toks_ok_reparses.
Qed.
Theorem input_mode_formatted_reparses s : reparses (input_mode_formatted_t s).
Proof. apply toks_ok_reparses, input_mode_formatted_ok. Qed.
Theorem input_mode_diff_reparses s p : reparses (input_mode_diff_t s p).
Proof. apply toks_ok_reparses, input_mode_diff_ok. Qed.
Theorem attributes_formatted_reparses s : pen_ok (pen s) -> reparses (attributes_formatted_t s).
Proof. intros. now apply toks_ok_reparses, attributes_formatted_ok. Qed.

(* ------------------------------------------------------------------ *)
(* 12. every reachable state                                            *)
(* ------------------------------------------------------------------ *)

(* a screen reached from a fresh parser by any history of API calls whose
   arguments are in the contract ([op_ok]: sizes between 1 and MAXDIM) *)
Definition reachable (s : screen) : Prop :=
  exists rows cols cap rz ops p q,
    1 <= rows <= MAXDIM /\ 1 <= cols <= MAXDIM /\
    parser_new rows cols cap rz = Ok p /\ Forall op_ok ops /\ run p ops = Ok q /\ scr q = s.

Theorem reachable_inv s : reachable s -> screen_ok s /\ screen_wf s /\ screen_attrs_ok s.
Proof.
  intros (rows & cols & cap & rz & ops & p & q & Hr & Hc & En & Fo & Er & <-).
  destruct (parser_new_ok rows cols cap rz Hr Hc) as (p' & En' & Hok). rewrite En in En'. injection En' as <-.
  destruct (run_ok ops p Hok Fo) as (q' & Er' & Hokq). rewrite Er in Er'. injection Er' as <-.
  split; [exact (parser_ok_scr _ Hokq)|]. split.
  - exact (history_wf rows cols cap rz ops p q Hr Hc En Fo Er).
  - eapply run_attrs_ok; [|exact Er]. eapply parser_new_attrs_ok; exact En.
Qed.

(* all emitters, on all reachable screens: they succeed, every token is ok,
   and the bytes re-parse to the intended actions *)
Theorem reachable_tokens_ok s p start width : reachable s -> reachable p ->
  (exists ts, contents_formatted_t s = Ok ts /\ toks_ok ts /\ reparses ts) /\
  (exists ts, state_formatted_t s = Ok ts /\ toks_ok ts /\ reparses ts) /\
  (exists ts, cursor_state_formatted_t s = Ok ts /\ toks_ok ts /\ reparses ts) /\
  (exists ts, contents_diff_t s p = Ok ts /\ toks_ok ts /\ reparses ts) /\
  (exists ts, state_diff_t s p = Ok ts /\ toks_ok ts /\ reparses ts) /\
  (exists out, rows_formatted_t s start width = Ok out /\ Forall toks_ok out /\ Forall reparses out) /\
  (exists out, rows_diff_t s p start width = Ok out /\ Forall toks_ok out /\ Forall reparses out) /\
  (toks_ok (input_mode_formatted_t s) /\ reparses (input_mode_formatted_t s)) /\
  (toks_ok (input_mode_diff_t s p) /\ reparses (input_mode_diff_t s p)) /\
  (toks_ok (attributes_formatted_t s) /\ reparses (attributes_formatted_t s)).
Proof.
  intros Hs Hp. destruct (reachable_inv s Hs) as (S1 & S2 & S3). destruct (reachable_inv p Hp) as (P1 & P2 & P3).
  pose proof (sa_pen _ P3) as Ppen.
  split. { destruct (contents_formatted_ok s S1) as (ts & E). exists ts. split; [exact E|].
           pose proof (contents_formatted_tok s ts S1 S2 S3 E) as T. split; [exact T|now apply toks_ok_reparses]. }
  split. { destruct (state_formatted_ok s S1) as (ts & E). exists ts. split; [exact E|].
           pose proof (state_formatted_tok s ts S1 S2 S3 E) as T. split; [exact T|now apply toks_ok_reparses]. }
  split. { destruct (cursor_state_formatted_ok s S1) as (ts & E). exists ts. split; [exact E|].
           pose proof (cursor_state_formatted_tok s ts S1 S2 S3 E) as T. split; [exact T|now apply toks_ok_reparses]. }
  split. { destruct (contents_diff_ok s p S1 P1) as (ts & E). exists ts. split; [exact E|].
           pose proof (contents_diff_tok_strong s p ts S1 S2 S3 Ppen E) as T. split; [exact T|now apply toks_ok_reparses]. }
  split. { destruct (state_diff_ok s p S1 P1) as (ts & E). exists ts. split; [exact E|].
           pose proof (state_diff_tok_strong s p ts S1 S2 S3 Ppen E) as T. split; [exact T|now apply toks_ok_reparses]. }
  split. { destruct (rows_formatted_ok s start width S1) as (out & E). exists out. split; [exact E|].
           split; [exact (rows_formatted_tok s start width out S1 S2 S3 E)|exact (rows_formatted_reparses s start width out S1 S2 S3 E)]. }
  split. { destruct (rows_diff_ok s p start width S1 P1) as (out & E). exists out. split; [exact E|].
           split; [exact (rows_diff_tok_strong s p start width out S1 S2 S3 E)|exact (rows_diff_reparses s p start width out S1 S2 S3 E)]. }
  split. { split; [apply input_mode_formatted_ok|apply input_mode_formatted_reparses]. }
  split. { split; [apply input_mode_diff_ok|apply input_mode_diff_reparses]. }
  pose proof (sa_pen _ S3) as Spen.
  split; [now apply attributes_formatted_ok|now apply attributes_formatted_reparses].
Qed.

(* ------------------------------------------------------------------ *)
(* 13. the hypotheses are needed                                        *)
(* ------------------------------------------------------------------ *)

(* a pen with an out-of-range colour index (unreachable, see [run_attrs_ok])
   yields an SGR whose parameter does not fit a u16: not [token_ok] *)
Example ex_pen_ok_needed :
  forallb token_ok (t_attrs_diff (set_fg (CIdx 70000) dflt) dflt) = false.
Proof. vm_compute. reflexivity. Qed.

(* a cell holding a C1 control (unreachable, see [run_wf_strong]) is not [token_ok] *)
Example ex_storable_needed : token_ok (TChars [155]) = false.
Proof. vm_compute. reflexivity. Qed.
