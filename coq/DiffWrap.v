(* DiffWrap.v — the row painter of the diff emitter WITH the wrap machinery:
   wrap carries (wrapping / prev_wrapping), the block that re-creates a wrap by printing the
   unchanged first cell again, printing / erasing THROUGH the pending wrap, the receiver clearing
   its own flag (ECH over the last column, ECH cutting a wide character at column cols-2, a wide
   character printed over the first half of a wide character at column cols-2), and the final
   flag-repair block of Row::write_contents_diff.  Full width. *)
Require Import Tac ListN Utf8 Width Attrs Cell Row Grid Screen Vte Perform Term Emit
  RowInv GridInv TextInv ScreenInv ParseSer CellWf WfGrid WfVte WfInv EraseSpec SgrSpec MoveSpec PrintSpec
  CellBytes EmitSafe WrapInv ObsSpec Recv RowPaint DiffPaint.
Open Scope N_scope.

(* ------------------------------------------------------------------ *)
(* 1. printing a cell's text: on the line, or through a wrap            *)
(* ------------------------------------------------------------------ *)
(* as DiffPaint.printed, plus what happens to the wrap flag of the row and what a damaged
   neighbour looks like *)
Record printed2 (rw rw' : row) (j : N) (c : cell) (a : attrs) : Prop := mkPrinted2 {
  p2_at : get (cells rw') j = Some (painted c a);
  p2_cont : cwide c = true -> get (cells rw') (j + 1) = Some cont_cell;
  p2_far : forall k, k < j \/ j + adv_n c < k -> get (cells rw') k = get (cells rw) k;
  p2_next : fw (cells rw) (j + adv_n c - 1) = false ->
            get (cells rw') (j + adv_n c) = get (cells rw) (j + adv_n c);
  p2_flag : wrapped rw' = wrapped rw \/
            (wrapped rw' = false /\ cwide c = true /\ fw (cells rw) (j + 1) = true /\ j + 2 = len (cells rw) - 1) }.

(* the zero-width tail, after the first character has been placed on row r of l *)
Lemma print_rest R l r j a rw0 c ch rest :
  ctext c = ch :: rest -> cell_wf c -> cell_cap c -> row_ok (gcols (g R)) rw0 -> r < len l ->
  j + adv_n c <= gcols (g R) -> fc (cells rw0) j = false ->
  cv R (set_at l r (place_row rw0 j ch (adv_n c) a)) r (j + adv_n c) ->
  exists rw', printed2 rw0 rw' j c a /\
    plays (rcv R (set_at l r (place_row rw0 j ch (adv_n c) a)) r (j + adv_n c) a) [TChars rest]
          (rcv R (set_at l r rw') r (j + adv_n c) a).
Proof.
  intros Et W Cap [Lrw Okrw] Hr Hfit Fcj C1.
  destruct (wf_cwidth c ch rest W Et) as (Ew & Ecw & Hw1).
  pose proof (wf_rest_zero _ _ _ W Et) as Hz. pose proof (wf_storable _ W) as Hs. rewrite Et in Hs. inv Hs.
  assert (adv_n c = if cwide c then 2 else 1) as Ea by reflexivity.
  set (rw1 := place_row rw0 j ch (adv_n c) a) in *.
  assert (adv_n c = 1 \/ adv_n c = 2) as Hw12 by (rewrite Ea; destruct (cwide c); auto).
  assert (forall k, get (cells rw1) k = placed (cells rw0) j ch (adv_n c) a k) as Hpl.
  { intros k. unfold rw1. apply place_row_get; [exact Okrw|exact Hw12|lia]. }
  assert (len (cells rw1) = len (cells rw0)) as L1 by apply place_row_len.
  assert ((1 <? adv_n c) = cwide c) as Ew2 by (rewrite Ea; destruct (cwide c); reflexivity).
  assert (glyph ch a = mkCell [ch] (cwide c) false a) as Egl by (unfold glyph; now rewrite Ecw).
  assert (get (cells rw1) j = Some (mkCell [ch] (cwide c) false a)) as G1j.
  { rewrite Hpl. unfold placed. rewrite N.eqb_refl. now rewrite Egl. }
  assert (cwide c = true -> get (cells rw1) (j + 1) = Some cont_cell) as G1c.
  { intros Hwd. rewrite Hpl. unfold placed. destruct (N.eqb_spec (j + 1) j); [lia|].
    rewrite N.eqb_refl, Ew2, Hwd. reflexivity. }
  assert (put_raw rw1 j (mkCell [ch] (cwide c) false a) (cwide c) = rw1) as Eself.
  { apply put_raw_same; [rewrite L1, Lrw, <- Ea; exact Hfit|exact G1j|exact G1c]. }
  pose proof (plays_zero_run R l r j a rw1 (cwide c) rest [ch]) as PZ.
  rewrite <- Ea in PZ. rewrite Eself in PZ.
  specialize (PZ C1 Hr ltac:(rewrite L1, Lrw; exact Hfit) ltac:(discriminate) Hz H2).
  specialize (PZ ltac:(intros p z q E; apply (Cap ([ch] ++ p) z q); [rewrite Et, E; reflexivity|discriminate])).
  exists (put_raw rw1 j (mkCell ([ch] ++ rest) (cwide c) false a) (cwide c)).
  split; [|exact PZ].
  assert (j + (if cwide c then 2 else 1) <= len (cells rw1)) as Hfit1 by (rewrite L1, Lrw, <- Ea; exact Hfit).
  split.
  - rewrite put_raw_cells by exact Hfit1. rewrite N.eqb_refl. unfold painted. now rewrite Et.
  - intros Hwd. rewrite put_raw_cells by exact Hfit1. destruct (N.eqb_spec (j + 1) j); [lia|].
    rewrite N.eqb_refl, Hwd. reflexivity.
  - intros k Hk. rewrite put_raw_cells by exact Hfit1.
    destruct (N.eqb_spec k j); [lia|]. destruct (N.eqb_spec k (j + 1)) as [->|Nk1]; cbn [andb].
    + destruct (cwide c) eqn:Ewd; [rewrite Ea in Hk; lia|]. rewrite Ea in Hk. lia.
    + rewrite Hpl. unfold placed. rewrite Fcj, Ew2.
      destruct (N.eqb_spec k j); [lia|]. destruct (N.eqb_spec k (j + 1)); [lia|]. cbn [andb].
      rewrite andb_false_r.
      destruct (N.eqb_spec k (j + 2)) as [->|Nk2]; cbn [andb]; [|reflexivity].
      destruct (cwide c) eqn:Ewd; cbn [andb]; [rewrite Ea in Hk; lia|reflexivity].
  - intros Hfw. rewrite put_raw_cells by exact Hfit1. rewrite Hpl. unfold placed. rewrite Fcj, Ew2.
    rewrite Ea in *. destruct (cwide c) eqn:Ewd.
    + destruct (N.eqb_spec (j + 2) j); [lia|]. destruct (N.eqb_spec (j + 2) (j + 1)); [lia|]. cbn [andb].
      rewrite andb_false_r. rewrite N.eqb_refl. replace (j + 2 - 1) with (j + 1) in Hfw by lia.
      rewrite Hfw. reflexivity.
    + destruct (N.eqb_spec (j + 1) j); [lia|]. rewrite N.eqb_refl. cbn [andb].
      rewrite andb_false_r. replace (j + 1 - 1) with j in Hfw by lia. rewrite Hfw. cbn [andb].
      destruct (N.eqb_spec (j + 1) (j + 2)); [lia|reflexivity].
  - rewrite put_raw_wrapped. unfold rw1. rewrite place_row_wrapped, Ew2.
    destruct (cwide c) eqn:Ewd; cbn [andb]; [|now left].
    destruct (fw (cells rw0) (j + 1)) eqn:Efw; cbn [andb]; [|now left].
    destruct (N.eqb_spec (j + 2) (len (cells rw0) - 1)); [right; auto|now left].
Qed.

Theorem plays_cell_fit2 R l r j a rw c : cv R l r j -> get l r = Some rw ->
  cell_wf c -> cell_cap c -> has_contents c = true ->
  j + adv_n c <= gcols (g R) -> fc (cells rw) j = false ->
  exists rw', printed2 rw rw' j c a /\
    plays (rcv R l r j a) [TChars (ctext c)] (rcv R (set_at l r rw') r (j + adv_n c) a).
Proof.
  intros H Hg W Cap Hc Hfit Fcj.
  destruct (ctext c) as [|ch rest] eqn:Et; [unfold has_contents in Hc; rewrite Et in Hc; discriminate|].
  destruct (wf_cwidth c ch rest W Et) as (Ew & Ecw & Hw1).
  pose proof (wf_storable _ W) as Hs. rewrite Et in Hs. inv Hs.
  destruct (cv_get _ _ _ _ r H ltac:(apply H)) as (rw0 & Hg' & Okrw & _). rewrite Hg in Hg'. inv Hg'.
  assert (r < len l) as Hr by (eapply get_some_lt; eauto).
  pose proof (plays_char_fits R l r j a rw0 ch H Hg H2 Hw1 ltac:(lia)) as P1.
  rewrite Ew in P1.
  assert (cv R (set_at l r (place_row rw0 j ch (adv_n c) a)) r (j + adv_n c)) as C1.
  { eapply plays_cv; [exact H|exact P1|]. apply toks_scalar_chars. constructor; [exact H2|constructor]. }
  destruct (print_rest R l r j a rw0 c ch rest Et W Cap Okrw Hr Hfit Fcj C1) as (rw' & Hpr & P2).
  exists rw'. split; [exact Hpr|]. eapply plays_chars_cons; [exact P1|exact P2].
Qed.

(* a character that does not fit in the columns left wraps to the next line (no scrolling) and
   flags the line it leaves when that line's last cell is occupied *)
Lemma plays_char_wraps_gen R l r c0 a rprev rw ch lc : cv R l r c0 -> r + 1 < grows (g R) ->
  get l r = Some rprev -> get l (r + 1) = Some rw -> storable ch ->
  1 <= cwidth ch -> cwidth ch <= gcols (g R) -> gcols (g R) < c0 + cwidth ch ->
  get (cells rprev) (gcols (g R) - 1) = Some lc -> has_contents lc || ccont lc = true ->
  plays (rcv R l r c0 a) [TChars [ch]]
        (rcv R (set_at (set_at l r (row_wrap true rprev)) (r + 1) (place_row rw 0 ch (cwidth ch) a))
             (r + 1) (cwidth ch) a).
Proof.
  intros H Hlt Hp Hn S Hw Hle Hover Hlc Occ. pose proof (cv_altmode _ _ _ _ H) as A.
  destruct (cv_canvas _ _ _ _ H) as (_ & _ & _ & T & B & _).
  pose proof (cv_dims _ _ _ _ H) as [D1 D2].
  pose proof (grid_ok_cur_rcv R l r c0 a H) as Gk.
  pose proof (plays_char (rcv R l r c0 a) ch _ S
                (grid_text_wraps _ ch a Gk (storable_has_width _ S) Hw
                   ltac:(rewrite cur_rcv by exact A; exact Hle)
                   ltac:(rewrite cur_rcv by exact A; cbn [gcols pcol with_pos with_live]; exact Hover))) as P.
  rewrite with_cur_rcv in P by exact A. rewrite cur_rcv in P by exact A.
  set (x := with_pos (with_live (g R) l) r c0) in *.
  assert (PrintSpec.last_occupied x = true) as Lo.
  { assert (lcell x (prow x) (gcols x - 1) = lc) as El.
    { unfold lcell, x. cbn [prow gcols with_pos with_live]. rewrite (lrow_cur_rcv R l r _ rprev Hp), Hlc. reflexivity. }
    unfold PrintSpec.last_occupied. cbv zeta. rewrite El. exact Occ. }
  rewrite Lo in P.
  assert (wrap_grid x true = with_pos (with_live (g R) (set_at l r (row_wrap true rprev))) (r + 1) 0) as Ew.
  { rewrite wrap_grid_next.
    - unfold x. cbn [prow with_pos]. rewrite (lrow_cur_rcv R l r c0 rprev Hp). reflexivity.
    - unfold x. cbn [prow bot with_pos with_live]. rewrite B.
      destruct (N.eqb_spec r (grows (g R) - 1)); [lia|]. apply andb_false_r.
    - unfold x. cbn. exact Hlt. }
  rewrite Ew in P. unfold place in P. cbn [prow pcol with_pos] in P.
  assert (get (set_at l r (row_wrap true rprev)) (r + 1) = Some rw) as Hn'.
  { rewrite get_set_at. destruct (N.eqb_spec (r + 1) r); [lia|exact Hn]. }
  rewrite (lrow_cur_rcv R _ (r + 1) 0 rw Hn') in P.
  exact P.
Qed.

Theorem plays_cell_wrap2 R l r c0 a rprev rw c lc : cv R l r c0 -> r + 1 < grows (g R) ->
  get l r = Some rprev -> get l (r + 1) = Some rw ->
  get (cells rprev) (gcols (g R) - 1) = Some lc -> has_contents lc || ccont lc = true ->
  cell_wf c -> cell_cap c -> has_contents c = true ->
  adv_n c <= gcols (g R) -> gcols (g R) < c0 + adv_n c -> fc (cells rw) 0 = false ->
  exists rw', printed2 rw rw' 0 c a /\
    plays (rcv R l r c0 a) [TChars (ctext c)]
          (rcv R (set_at (set_at l r (row_wrap true rprev)) (r + 1) rw') (r + 1) (adv_n c) a).
Proof.
  intros H Hlt Hp Hg Hlc Occ W Cap Hc Hfit Hover Fc0.
  destruct (ctext c) as [|ch rest] eqn:Et; [unfold has_contents in Hc; rewrite Et in Hc; discriminate|].
  destruct (wf_cwidth c ch rest W Et) as (Ew & Ecw & Hw1).
  pose proof (wf_storable _ W) as Hs. rewrite Et in Hs. inv Hs.
  destruct (cv_get _ _ _ _ (r + 1) H Hlt) as (rw0 & Hg' & Okrw & _). rewrite Hg in Hg'. inv Hg'.
  pose proof (plays_char_wraps_gen R l r c0 a rprev rw0 ch lc H Hlt Hp Hg H2 Hw1 ltac:(lia) ltac:(lia) Hlc Occ) as P1.
  rewrite Ew in P1.
  set (l1 := set_at l r (row_wrap true rprev)) in *.
  assert (r + 1 < len l1) as Hr by (unfold l1; rewrite len_set_at; eapply get_some_lt; eauto).
  assert (cv R (set_at l1 (r + 1) (place_row rw0 0 ch (adv_n c) a)) (r + 1) (0 + adv_n c)) as C1.
  { eapply plays_cv; [exact H|exact P1|]. apply toks_scalar_chars. constructor; [exact H2|constructor]. }
  destruct (print_rest R l1 (r + 1) 0 a rw0 c ch rest Et W Cap Okrw Hr ltac:(lia) Fc0 C1) as (rw' & Hpr & P2).
  exists rw'. split; [exact Hpr|]. eapply plays_chars_cons; [exact P1|exact P2].
Qed.

Lemma len_zip' {A B} (a : list A) (b : list B) : len (zip a b) = N.min (len a) (len b).
Proof.
  revert b. induction a as [|x a IH]; intros b.
  - cbn [zip]. change (len (@nil (A * B))) with 0. change (len (@nil A)) with 0. lia.
  - destruct b as [|y b]; cbn [zip].
    + change (len (@nil (A * B))) with 0. change (len (@nil B)) with 0. lia.
    + rewrite !len_cons, IH. lia.
Qed.

(* ------------------------------------------------------------------ *)
(* 2. the row painter with wrap carries                                 *)
(* ------------------------------------------------------------------ *)
Section DiffWrap.
Variable R : screen.
Variable i : N.
Variables src prev : row.
Variables w pw : bool.                (* wrapping, prev_wrapping: the flags of row i-1 in S and in P *)
Variable l0 : list row.
Variable rprev : row.                 (* receiver row i-1 (meaningful when w = true) *)
Variables r0 c0 : N.
Variable a0 : attrs.

Local Notation cols := (gcols (g R)).
Local Notation rows := (grows (g R)).
Local Notation sc := (cells src).
Local Notation pcs := (cells prev).

Hypothesis Hi : i < rows.
Hypothesis Hsrc : srow_ok cols src.
Hypothesis Hprev : srow_ok cols prev.
Hypothesis Hswi : row_wrapinv src.
Hypothesis Hpwi : row_wrapinv prev.
Hypothesis Hcv0 : cv R l0 r0 c0.
Hypothesis Hpen0 : pen_ok a0.
Hypothesis Hri0 : get l0 i = Some prev.
(* the carry-in: when row i-1 is flagged in S, the receiver's row i-1 has an occupied last cell and
   either is flagged already, or the cursor waits in its pending-wrap column and the emitter is
   bound to go through the wrap (prev_wrapping = true: because the first cells differ) *)
Hypothesis Hw : w = true ->
  1 <= i /\ get l0 (i - 1) = Some rprev /\
  (exists lc, get (cells rprev) (cols - 1) = Some lc /\ has_contents lc || ccont lc = true) /\
  (wrapped rprev = true \/ (r0 + 1 = i /\ c0 = cols /\ (pw = true -> get sc 0 <> get pcs 0))).

(* how the receiver's flag of a row flagged in S can get lost: prev has a wide character at
   column cols-2 and S has no contents there *)
Definition Wcond : Prop :=
  2 <= cols /\ fw pcs (cols - 2) = true /\ (forall x, get sc (cols - 2) = Some x -> has_contents x = false).

Definition wflagged : list row := set_at l0 (i - 1) (row_wrap true rprev).
Definition wLof (e : est) : list row := if w && (er e =? i) then wflagged else l0.
Definition wLfin : list row := if w then wflagged else l0.

Record winvrow (ri : row) (b : N) : Prop := mkWinvrow {
  wv_flag : wrapped ri = wrapped prev \/ (wrapped ri = false /\ (wrapped src = true -> Wcond));
  wv_mid : forall k, k < b -> get (cells ri) k = get sc k;
  wv_post : forall k, b < k -> get (cells ri) k = get pcs k;
  wv_at : fc pcs b = false -> get (cells ri) b = get pcs b }.

Definition wrun_ok (j : N) (e : est) : Prop :=
  match eerase e with
  | Some (pc, ea) => pc < j /\ pen_ok ea /\ forall k, pc <= k < j -> get sc k = Some (EraseSpec.blank ea)
  | None => True
  end.

Definition winv (j : N) (pwf : bool) (e : est) : Prop :=
  exists ri,
    plays (rcv R l0 r0 c0 a0) (eout e) (rcv R (set_at (wLof e) i ri) (er e) (ec e) (eattrs e)) /\
    cv R (set_at (wLof e) i ri) (er e) (ec e) /\
    winvrow ri (bnd j pwf e) /\ pen_ok (eattrs e) /\ wrun_ok j e /\
    fc sc j = pwf /\ bnd j pwf e <= cols /\ (pwf = true -> eerase e = None) /\
    (w = true -> wrapped rprev = true \/ er e = i \/
                 (er e + 1 = i /\ ec e = cols /\ bnd j pwf e = 0 /\
                  (eerase e = None -> get sc 0 <> get pcs 0 /\ j = 0))).

(* with no run open, the last source cell is equal to prev's, or a second half, or has just been
   printed (the emitter stands right behind it) *)
Definition wtail (j : N) (pwf : bool) (e : est) : Prop :=
  eerase e = None -> pwf = false -> 0 < j ->
  forall c p, get sc (j - 1) = Some c -> get pcs (j - 1) = Some p ->
    c = p \/ ccont c = true \/ (has_contents c = true /\ er e = i /\ ec e = j).

Definition warrived (e : est) : Prop := w = true -> wrapped rprev = true \/ er e = i.

Lemma dw_dims : 1 <= rows <= MAXDIM /\ 1 <= cols <= MAXDIM.
Proof. exact (cv_dims _ _ _ _ Hcv0). Qed.

Lemma wflagged_same : w = true -> wrapped rprev = true -> wflagged = l0.
Proof.
  intros Ew Ef. destruct (Hw Ew) as (_ & G & _). unfold wflagged.
  apply set_at_self. rewrite G. f_equal. apply row_ext; [reflexivity|]. cbn. now rewrite Ef.
Qed.

Lemma wLof_arrived e : warrived e -> wLof e = wLfin.
Proof.
  intros Ha. unfold wLof, wLfin, warrived in *.
  destruct (Bool.bool_dec w true) as [Ew|Ew]; [|apply Bool.not_true_is_false in Ew; rewrite Ew; reflexivity].
  destruct (Ha Ew) as [Ef|Ei].
  - rewrite (wflagged_same Ew Ef). destruct (w && (er e =? i)), w; reflexivity.
  - rewrite Ei, N.eqb_refl, Ew. reflexivity.
Qed.

Lemma len_wflagged : len wflagged = rows.
Proof. unfold wflagged. rewrite len_set_at. apply Hcv0. Qed.
Lemma len_wLof e : len (wLof e) = rows.
Proof. unfold wLof. destruct (_ && _); [apply len_wflagged|apply Hcv0]. Qed.
Lemma len_wLfin : len wLfin = rows.
Proof. unfold wLfin. destruct w; [apply len_wflagged|apply Hcv0]. Qed.

Lemma dw_get_i (l : list row) ri : len l = rows -> get (set_at l i ri) i = Some ri.
Proof.
  intros Ll. rewrite get_set_at. destruct (N.eqb_spec i i); [|lia]. rewrite Ll.
  destruct (N.ltb_spec i rows); [reflexivity|lia].
Qed.

Lemma dw_ri_ok (l : list row) ri r c : len l = rows -> cv R (set_at l i ri) r c -> row_ok cols ri /\ row_wf ri.
Proof.
  intros Ll Hcv. destruct (cv_get _ _ _ _ i Hcv Hi) as (x & Gx & Ok' & Wf'). rewrite dw_get_i in Gx by exact Ll. inv Gx. auto.
Qed.

Lemma dw_src_get j : j < cols -> exists c, get sc j = Some c /\ cell_wf c /\ cell_cap c /\ pen_ok (cattrs c).
Proof.
  intros Hj. destruct Hsrc as [L O W C P]. destruct (get_lt_some sc j) as (c & Hc); [lia|].
  exists c. split; [exact Hc|]. split; [eapply row_wf_get; eauto|].
  split; [exact (Forall_get _ _ _ _ C Hc)|exact (Forall_get _ _ _ _ P Hc)].
Qed.

Lemma dw_fc_next j c : get sc j = Some c -> fc sc (j + 1) = cwide c.
Proof. intros H. rewrite <- (ok_pair _ (sr_ok _ _ Hsrc) j). now apply fw_get. Qed.

(* a wide cell of the receiver at or after the boundary is a wide cell of prev *)
Lemma dw_fw_ge ri b k : row_ok cols ri -> winvrow ri b -> b <= k -> fw (cells ri) k = true -> fw pcs k = true.
Proof.
  intros [Lri Okri] [F M Q A] Hk Hfw.
  pose proof (sr_ok _ _ Hprev) as Okp.
  destruct (N.eq_dec k b) as [->|Hne].
  - destruct (fc pcs b) eqn:Efc.
    + rewrite (ok_pair _ Okri b) in Hfw. unfold fc in Hfw at 1. rewrite (Q (b + 1)) in Hfw by lia.
      change (fc pcs (b + 1) = true) in Hfw. now rewrite (ok_pair _ Okp b).
    + unfold fw in *. rewrite <- (A eq_refl). exact Hfw.
  - unfold fw in *. rewrite <- (Q k) by lia. exact Hfw.
Qed.

(* the receiver cell at the boundary is never a second half *)
Lemma dw_fc_at ri b : row_ok cols ri -> winvrow ri b -> fc sc b = false -> fc (cells ri) b = false.
Proof.
  intros [Lri Okri] [F M Q A] Hfc.
  destruct (N.eq_dec b 0) as [->|Hne].
  - pose proof (ok_first _ (sr_ok _ _ Hprev)) as P0. unfold fc at 1. rewrite (A P0). exact P0.
  - pose proof (ok_pair _ Okri (b - 1)) as E. replace (b - 1 + 1) with b in E by lia. rewrite <- E.
    unfold fw. rewrite (M (b - 1)) by lia. change (fw sc (b - 1) = false).
    rewrite (ok_pair _ (sr_ok _ _ Hsrc) (b - 1)). replace (b - 1 + 1) with b by lia. exact Hfc.
Qed.

Lemma winvrow_adv ri b b' : winvrow ri b -> b <= b' ->
  (forall k, b <= k < b' -> get (cells ri) k = get sc k) -> winvrow ri b'.
Proof.
  intros [F M Q A] Hb Hk. split; auto.
  - intros k Hr. destruct (N.lt_ge_cases k b); [apply M; lia|apply Hk; lia].
  - intros k Hr. apply Q. lia.
  - intros Hf. destruct (N.eq_dec b' b) as [->|]; [now apply A|apply Q; lia].
Qed.

Lemma dw_cont_next (rw : row) j c : srow_ok cols rw -> get (cells rw) j = Some c -> cwide c = true ->
  get (cells rw) (j + 1) = Some cont_cell.
Proof.
  intros Hrw Hc Hwd. destruct (ok_wide_next _ _ _ (sr_ok _ _ Hrw) Hc Hwd) as (d & Hd & Dc & _).
  rewrite Hd. f_equal. apply wf_cont_cell; [|exact Dc]. eapply row_wf_get; [apply (sr_wf _ _ Hrw)|exact Hd].
Qed.

(* moving to (i, tc) once arrived (or when the receiver's row i-1 is flagged anyway) *)
Lemma dw_move e ri tc : cv R (set_at (wLof e) i ri) (er e) (ec e) -> warrived e -> tc < cols ->
  exists ts, e_move e i tc = Ok (e_out e ts) /\ toks_scalar ts /\
    plays (rcv R (set_at (wLof e) i ri) (er e) (ec e) (eattrs e)) ts (rcv R (set_at wLfin i ri) i tc (eattrs e)) /\
    cv R (set_at wLfin i ri) i tc.
Proof.
  intros Hcv Ha Htc. destruct dw_dims as [D1 D2]. unfold MAXDIM in *.
  pose proof (cv_r _ _ _ _ Hcv) as Hr.
  unfold e_move.
  destruct (t_move_from_to_ok (er e) (ec e) i tc) as (ts & Ets); try (unfold POSMAX; lia).
  rewrite Ets. cbn [bind]. exists ts. split; [reflexivity|].
  split; [eapply move_toks_scalar; eauto|].
  rewrite (wLof_arrived e Ha) in *.
  split; [eapply plays_move_from_to; eauto|]. eapply cv_pos; eauto. lia.
Qed.

(* the row just before ECH / EL at pc: done before pc, no second half at pc, prev after pc+1 and,
   unless prev has a second half there, at pc+1 *)
Record wpreflush (ri : row) (pc : N) : Prop := mkWpreflush {
  wp_flag : wrapped ri = wrapped prev \/ (wrapped ri = false /\ (wrapped src = true -> Wcond));
  wp_mid : forall k, k < pc -> get (cells ri) k = get sc k;
  wp_at : fc (cells ri) pc = false;
  wp_next : fc pcs (pc + 1) = false -> get (cells ri) (pc + 1) = get pcs (pc + 1);
  wp_post : forall k, pc + 1 < k -> get (cells ri) k = get pcs k }.

Lemma winvrow_preflush ri pc : row_ok cols ri -> winvrow ri pc -> fc sc pc = false -> wpreflush ri pc.
Proof.
  intros Okri Hri Hfc. pose proof (dw_fc_at ri pc Okri Hri Hfc) as F.
  destruct Hri as [Fl M Q A]. split; auto.
  - intros _. apply Q. lia.
  - intros k Hk. apply Q. lia.
Qed.

Lemma wpre_fw_ge ri pc k : row_ok cols ri -> wpreflush ri pc -> pc <= k -> fw (cells ri) k = true -> fw pcs k = true.
Proof.
  intros [Lri Okri] [Fl M At Nx Q] Hk Hfw. pose proof (sr_ok _ _ Hprev) as Okp.
  destruct (N.lt_ge_cases (pc + 1) k) as [Hgt|Hle].
  { unfold fw in *. rewrite <- (Q k) by lia. exact Hfw. }
  destruct (N.eq_dec k (pc + 1)) as [->|Hne].
  - destruct (fc pcs (pc + 1)) eqn:Efc.
    + rewrite (ok_pair _ Okri (pc + 1)) in Hfw. unfold fc in Hfw at 1. rewrite (Q (pc + 1 + 1)) in Hfw by lia.
      change (fc pcs (pc + 1 + 1) = true) in Hfw. now rewrite (ok_pair _ Okp (pc + 1)).
    + unfold fw in *. rewrite <- (Nx eq_refl). exact Hfw.
  - assert (k = pc) as -> by lia.
    rewrite (ok_pair _ Okp pc). destruct (fc pcs (pc + 1)) eqn:Efc; [reflexivity|]. exfalso.
    rewrite (ok_pair _ Okri pc) in Hfw. unfold fc in Hfw. rewrite (Nx eq_refl) in Hfw.
    change (fc pcs (pc + 1) = true) in Hfw. congruence.
Qed.

Lemma wrapinv_last_not_blank ea : wrapped src = true -> get sc (cols - 1) = Some (EraseSpec.blank ea) -> False.
Proof.
  intros Ew G. destruct (Hswi Ew) as (c & Hc & Ho). rewrite (sr_len _ _ Hsrc), G in Hc. inv Hc.
  destruct Ho; discriminate.
Qed.

(* erasing [pc, hi) *)
Lemma erased_winvrow ri ri' pc hi ea : row_ok cols ri -> wpreflush ri pc -> pc < hi -> hi <= cols ->
  (forall k, pc <= k < hi -> get sc k = Some (EraseSpec.blank ea)) ->
  erased ea cols pc hi ri ri' -> winvrow ri' hi.
Proof.
  intros Okri Hri Hlt Hhi Hrun [EC EW]. destruct dw_dims as [D1 D2].
  pose proof Hri as [Fl M At Nx Q].
  assert (forall k, cut_lo (cells ri) pc hi k = false) as NL.
  { intros k. unfold cut_lo. rewrite At. apply andb_false_r. }
  assert (forall k, k <> hi -> cut (cells ri) pc hi k = false) as NC.
  { intros k Hk. unfold cut. rewrite NL. unfold cut_hi. destruct (N.eqb_spec k hi); [lia|].
    rewrite andb_false_r. reflexivity. }
  split.
  - rewrite EW. destruct (blanked (cells ri) pc hi (cols - 1)) eqn:Eb; [|exact Fl].
    right. split; [reflexivity|]. intros Ews.
    unfold blanked in Eb. apply orb_prop in Eb as [Eb|Eb].
    + exfalso. unfold in_rng in Eb. apply andb_prop in Eb as [E1 E2]. apply N.leb_le in E1. apply N.ltb_lt in E2.
      apply (wrapinv_last_not_blank ea Ews). apply Hrun. lia.
    + destruct (N.eq_dec (cols - 1) hi) as [Eh|Eh]; [|rewrite NC in Eb by exact Eh; discriminate].
      unfold cut in Eb. rewrite NL in Eb. cbn [orb] in Eb. unfold cut_hi in Eb.
      apply andb_prop in Eb as [_ Efw].
      assert (hi - 1 = cols - 2) as E2 by lia. rewrite E2 in Efw.
      split; [lia|]. split; [apply (wpre_fw_ge ri pc (cols - 2) Okri Hri); [lia|exact Efw]|].
      intros x Hx. rewrite Hrun in Hx by lia. inv Hx. reflexivity.
  - intros k Hk. rewrite EC. unfold erased_cell, in_rng.
    destruct (N.leb_spec pc k); cbn [andb].
    + destruct (N.ltb_spec k hi); [|lia]. symmetry. apply Hrun. lia.
    + rewrite NC by lia. apply M. lia.
  - intros k Hk. rewrite EC. unfold erased_cell, in_rng.
    destruct (N.ltb_spec k hi); [lia|]. rewrite andb_false_r. rewrite NC by lia. apply Q. lia.
  - intros Hf. rewrite EC. unfold erased_cell, in_rng.
    destruct (N.ltb_spec hi hi); [lia|]. rewrite andb_false_r.
    assert (cut (cells ri) pc hi hi = false) as ->.
    { unfold cut. rewrite NL. unfold cut_hi. cbn [orb].
      destruct (fw (cells ri) (hi - 1)) eqn:Efw; [|apply andb_false_r].
      exfalso. pose proof (wpre_fw_ge ri pc (hi - 1) Okri Hri ltac:(lia) Efw) as C.
      rewrite (ok_pair _ (sr_ok _ _ Hprev) (hi - 1)) in C. replace (hi - 1 + 1) with hi in C by lia. congruence. }
    destruct (N.eq_dec hi (pc + 1)) as [->|Hne]; [now apply Nx|apply Q; lia].
Qed.

Lemma get_wflagged_prev ri : w = true -> get (set_at l0 i ri) (i - 1) = Some rprev.
Proof.
  intros Ew. destruct (Hw Ew) as (Hi1 & G & _). rewrite get_set_at. destruct (N.eqb_spec (i - 1) i); [lia|exact G].
Qed.

Lemma set_through ri ri' : w = true ->
  set_at (set_at (set_at l0 i ri) (i - 1) (row_wrap true rprev)) i ri' = set_at wLfin i ri'.
Proof.
  intros Ew. destruct (Hw Ew) as (Hi1 & _). unfold wLfin, wflagged. rewrite Ew.
  rewrite (set_at_comm l0 i (i - 1)) by lia. apply set_at_set_at.
Qed.

(* closing an erase run: move to (i, pc) — or, from the pending wrap with pc = 0, print a space
   through the wrap and step back — then set the pen and erase *)
Lemma dw_flush e ri pc ea stop hi :
  plays (rcv R l0 r0 c0 a0) (eout e) (rcv R (set_at (wLof e) i ri) (er e) (ec e) (eattrs e)) ->
  cv R (set_at (wLof e) i ri) (er e) (ec e) -> winvrow ri pc -> pen_ok ea -> pen_ok (eattrs e) ->
  (forall k, pc <= k < hi -> get sc k = Some (EraseSpec.blank ea)) ->
  (w = true -> wrapped rprev = true \/ er e = i \/ (er e + 1 = i /\ ec e = cols /\ pc = 0)) ->
  (stop = Some hi /\ pc < hi <= cols) \/ (stop = None /\ hi = cols /\ pc < cols) ->
  exists e' ri',
    flush_erase true w cols i e pc ea stop = Ok e' /\
    plays (rcv R l0 r0 c0 a0) (eout e') (rcv R (set_at wLfin i ri') i pc ea) /\
    cv R (set_at wLfin i ri') i pc /\
    er e' = i /\ ec e' = pc /\ eattrs e' = ea /\ eerase e' = None /\
    winvrow ri' hi.
Proof.
  intros Hp Hcv Hri Pea Pa Hrun Harr Hstop. destruct dw_dims as [D1 D2]. unfold MAXDIM in *.
  assert (pc < hi /\ hi <= cols) as [Hlt Hhi] by (destruct Hstop as [(_ & ?)|(_ & -> & ?)]; lia).
  assert (fc sc pc = false) as Hfc by (unfold fc; rewrite (Hrun pc) by lia; reflexivity).
  pose proof (cv_r _ _ _ _ Hcv) as Hr. pose proof (cv_c _ _ _ _ Hcv) as Hc.
  destruct (dw_ri_ok _ ri _ _ (len_wLof e) Hcv) as [Okri Wri].
  (* the first part: arrive at (i, pc) with a row ready to be erased *)
  assert (exists ts ri1,
    (do through <- (if w then do r1 <- add16 (er e) 1; Ok ((r1 =? i) && (cols <=? ec e) && (pc =? 0)) else Ok false);
     if through then Ok (if 0 <? pc then e_out e [TChars (repeatN 32 pc)] else e_out e [TChars [32]; t_bs])
     else e_move e i pc) = Ok (e_out e ts) /\
    plays (rcv R l0 r0 c0 a0) (eout e ++ ts) (rcv R (set_at wLfin i ri1) i pc (eattrs e)) /\
    cv R (set_at wLfin i ri1) i pc /\ row_ok cols ri1 /\ row_wf ri1 /\ wpreflush ri1 pc) as (ts & ri1 & Earr & P1 & C1 & Ok1 & Wf1 & Pre1).
  { destruct (Bool.bool_dec w true) as [Ew|Ew].
    - rewrite Ew. rewrite add16_ok by lia. cbn [bind].
      destruct ((er e + 1 =? i) && (cols <=? ec e) && (pc =? 0)) eqn:Et.
      + (* through the wrap *)
        apply andb_prop in Et as [Et E3]. apply andb_prop in Et as [E1 E2].
        apply N.eqb_eq in E1, E3. apply N.leb_le in E2. subst pc. assert (ec e = cols) as Ec by lia.
        change (0 <? 0) with false. cbv iota.
        assert (wLof e = l0) as EL.
        { unfold wLof. destruct (N.eqb_spec (er e) i); [lia|]. now rewrite andb_false_r. }
        rewrite EL, Ec in *.
        destruct (Hw Ew) as (Hi1 & Gp & (lc & Hlc & Occ) & _).
        assert (er e = i - 1) as Ere by lia.
        assert (get (set_at l0 i ri) (er e) = Some rprev) as G1 by (rewrite Ere; now apply get_wflagged_prev).
        assert (get (set_at l0 i ri) (er e + 1) = Some ri) as G2 by (rewrite E1; apply dw_get_i, Hcv0).
        pose proof (dw_fc_at ri 0 Okri Hri Hfc) as F0.
        destruct (plays_cell_wrap2 R (set_at l0 i ri) (er e) cols (eattrs e) rprev ri sp_cell lc Hcv ltac:(lia) G1 G2 Hlc Occ
                    sp_cell_wf sp_cell_cap eq_refl ltac:(cbn; lia) ltac:(cbn; lia) F0) as (ri1 & [T1 T2 T3 T4 T5] & Pw).
        cbn [ctext sp_cell] in Pw. change (adv_n sp_cell) with 1 in *.
        rewrite Ere in Pw. replace (i - 1 + 1) with i in Pw by lia.
        rewrite (set_through ri ri1 Ew) in Pw.
        assert (cv R (set_at wLfin i ri1) i 1) as Cw.
        { eapply plays_cv; [exact Hcv|rewrite Ere; exact Pw|]. apply toks_scalar_chars. constructor; [apply storable_32|constructor]. }
        pose proof (plays_bs R _ i 1 (eattrs e) Cw) as Pb. change (1 - 1) with 0 in Pb.
        assert (cv R (set_at wLfin i ri1) i 0) as C0 by (eapply cv_pos; eauto; lia).
        destruct (dw_ri_ok _ ri1 _ _ len_wLfin C0) as [Ok1 Wf1].
        exists [TChars [32]; t_bs], ri1. split; [reflexivity|].
        split; [eapply plays_app; [exact Hp|]; eapply plays_cons; [rewrite Ere; exact Pw|exact Pb]|].
        split; [exact C0|]. split; [exact Ok1|]. split; [exact Wf1|].
        destruct Hri as [Fl M Q A]. split.
        * destruct T5 as [E|(_ & E & _)]; [now rewrite E|discriminate].
        * intros k Hk. lia.
        * unfold fc. rewrite T1. reflexivity.
        * intros Hf. change (0 + 1) with 1 in *. rewrite T4; [apply Q; lia|].
          change (1 - 1) with 0. pose proof (ok_first _ (sr_ok _ _ Hprev)) as P0.
          unfold fw. rewrite (A P0). change (fw pcs 0 = false). rewrite (ok_pair _ (sr_ok _ _ Hprev) 0). exact Hf.
        * intros k Hk. rewrite T3 by lia. apply Q. lia.
      + (* an ordinary move *)
        assert (warrived e) as Ha.
        { intros _. destruct (Harr Ew) as [?|[?|(A1 & A2 & A3)]]; auto. exfalso.
          rewrite A1, A2, A3, N.eqb_refl in Et. destruct (N.leb_spec cols cols); [discriminate|lia]. }
        destruct (dw_move e ri pc Hcv Ha ltac:(lia)) as (ts & Em & Sc & Pm & Cm).
        exists ts, ri. split; [exact Em|]. split; [eapply plays_app; eauto|]. split; [exact Cm|].
        split; [exact Okri|]. split; [exact Wri|]. now apply winvrow_preflush.
    - apply Bool.not_true_is_false in Ew.
      assert (warrived e) as Ha by (intros E; congruence).
      rewrite Ew. cbn [bind].
      destruct (dw_move e ri pc Hcv Ha ltac:(lia)) as (ts & Em & Sc & Pm & Cm).
      exists ts, ri. split; [exact Em|]. split; [eapply plays_app; eauto|]. split; [exact Cm|].
      split; [exact Okri|]. split; [exact Wri|]. now apply winvrow_preflush. }
  unfold flush_erase.
  match goal with |- exists e' ri', (do through <- ?T; do e1 <- @?K through; @?K2 e1) = _ /\ _ =>
    assert ((do through <- T; K through) = Ok (e_out e ts)) as Ebind end.
  { exact Earr. }
  match goal with |- exists e' ri', ?lhs = _ /\ _ =>
    assert (lhs = (let e2 := e_attrs (e_pos (e_out e ts) i pc) ea in
                   match stop with
                   | Some col => do n <- sub16 col pc; Ok (e_erase (e_out e2 (t_erase_char n)) None)
                   | None => Ok (e_erase (e_out e2 [t_clear_row_forward]) None)
                   end)) as -> end.
  { clear - Ebind. destruct (if w then _ else _) as [t|k] eqn:E1; cbn [bind] in *; [|discriminate].
    destruct (if t then _ else _) as [e1|k] eqn:E2; cbn [bind] in *; [|discriminate]. inv Ebind. reflexivity. }
  cbv zeta.
  set (e1 := e_pos (e_out e ts) i pc).
  destruct (eout_e_attrs_plays R (set_at wLfin i ri1) i pc e1 ea Pea) as (ts2 & Eo2 & Sc2 & P2 & Ea2).
  change (eattrs e1) with (eattrs e) in P2. change (eout e1) with (eout e ++ ts) in Eo2.
  rewrite Ea2 in P2.
  pose proof (dw_get_i wLfin ri1 len_wLfin) as Gi.
  destruct Hstop as [(-> & _)|(-> & Ehi & _)].
  - rewrite sub16_ok by lia. cbn [bind].
    destruct (plays_ech R (set_at wLfin i ri1) i pc ea (hi - pc) ri1 C1 Gi Wf1 ltac:(lia))
      as (rw' & Er & Ok' & W' & P3).
    replace (N.min (pc + (hi - pc)) cols) with hi in Er by lia.
    rewrite set_at_set_at in P3.
    eexists _, rw'. split; [reflexivity|].
    cbn [e_erase e_out eout er ec eattrs eerase]. rewrite er_e_attrs, ec_e_attrs, Ea2, Eo2.
    split; [|split; [|do 4 (split; [reflexivity|])]].
    + rewrite <- !app_assoc. rewrite app_assoc. eapply plays_app; [exact P1|]. eapply plays_app; [exact P2|exact P3].
    + eapply plays_cv; [exact C1|exact P3|apply erase_toks_scalar].
    + exact (erased_winvrow ri1 rw' pc hi ea Ok1 Pre1 Hlt Hhi Hrun Er).
  - subst hi. destruct (plays_el0 R (set_at wLfin i ri1) i pc ea ri1 C1 Gi Wf1) as (rw' & Er & Ok' & W' & P3).
    rewrite set_at_set_at in P3.
    eexists _, rw'. split; [reflexivity|].
    cbn [e_erase e_out eout er ec eattrs eerase]. rewrite er_e_attrs, ec_e_attrs, Ea2, Eo2.
    split; [|split; [|do 4 (split; [reflexivity|])]].
    + rewrite <- !app_assoc. rewrite app_assoc. eapply plays_app; [exact P1|]. eapply plays_app; [exact P2|exact P3].
    + eapply plays_cv; [exact C1|exact P3|]. apply toks_scalar_nochars. intros cs Hin. cbn in Hin; intuition discriminate.
    + exact (erased_winvrow ri1 rw' pc cols ea Ok1 Pre1 Hlt Hhi Hrun Er).
Qed.

(* closing the run at column j keeps the invariant (the tail clause is re-established by the cell) *)
Lemma dw_flush_inv j e pc ea : winv j false e -> eerase e = Some (pc, ea) -> j <= cols ->
  exists e', flush_erase true w cols i e pc ea (Some j) = Ok e' /\ winv j false e' /\ eerase e' = None.
Proof.
  intros (ri & Hp & Hcv & Hri & Pa & Hrun & Hfc & Hb & Hpw & Harr) Ee Hj.
  unfold wrun_ok in Hrun. unfold bnd in Hri, Hb, Harr. rewrite Ee in Hrun, Hri, Hb, Harr.
  destruct Hrun as (R2 & R3 & R4).
  destruct (dw_flush e ri pc ea (Some j) j Hp Hcv Hri R3 Pa R4) as (e' & ri' & Ef & P' & C' & E1 & E2 & E3 & E4 & Hri').
  { intros Ew. destruct (Harr Ew) as [?|[?|(A1 & A2 & A3 & _)]]; auto. }
  { left. split; [reflexivity|lia]. }
  exists e'. split; [exact Ef|]. split; [|exact E4].
  exists ri'. assert (warrived e') as Ha by (intros _; now right).
  rewrite (wLof_arrived e' Ha), E1, E2, E3. unfold bnd, wrun_ok. rewrite E4.
  split; [exact P'|]. split; [exact C'|]. split; [exact Hri'|]. split; [exact R3|]. split; [exact I|].
  split; [exact Hfc|]. split; [lia|]. split; [discriminate|]. intros _. right. now left.
Qed.

Lemma dw_phase1 j e c : winv j false e -> get sc j = Some c -> j < cols ->
  exists e1,
    match eerase e with
    | Some (pc, a) =>
        if has_contents c || negb (attrs_eqb (cattrs c) a)
        then flush_erase true w cols i e pc a (Some j) else Ok e
    | None => Ok e
    end = Ok e1 /\ winv j false e1 /\
    (eerase e1 = None \/ exists pc, eerase e1 = Some (pc, cattrs c) /\ has_contents c = false).
Proof.
  intros Hinv Hc Hj. destruct (eerase e) as [[pc a]|] eqn:Ee.
  - destruct (has_contents c) eqn:Hhc; cbn [orb].
    + destruct (dw_flush_inv j e pc a Hinv Ee ltac:(lia)) as (e' & Ef & Hi' & En). exists e'. auto.
    + destruct (attrs_eqb (cattrs c) a) eqn:Ea; cbn [negb].
      * apply attrs_eqb_eq in Ea. subst a. exists e. split; [reflexivity|]. split; [exact Hinv|]. right. eauto.
      * destruct (dw_flush_inv j e pc a Hinv Ee ltac:(lia)) as (e' & Ef & Hi' & En). exists e'. auto.
  - exists e. auto.
Qed.

(* a skipped cell (equal in src and prev) *)
Lemma dw_skip j e c : winv j false e -> get sc j = Some c -> get pcs j = Some c -> j < cols ->
  cell_wf c ->
  (eerase e = None \/ exists pc, eerase e = Some (pc, cattrs c) /\ has_contents c = false) ->
  winv (j + 1) (cwide c) e /\ wtail (j + 1) (cwide c) e.
Proof.
  intros (ri & Hp & Hcv & Hri & Pa & Hrun & Hfc & Hb & Hpw & Harr) Hc Hpc Hj Wc Hcase.
  assert (ccont c = false) as Hk by (rewrite <- (fc_get _ _ _ Hc); exact Hfc).
  split.
  2:{ intros _ Epw _ c' p' G1 G2. replace (j + 1 - 1) with j in * by lia. left. congruence. }
  exists ri. split; [exact Hp|]. split; [exact Hcv|].
  destruct Hcase as [En|(pc & Ee & Hhc)].
  - unfold bnd, wrun_ok in *. rewrite En in *.
    split; [|split; [exact Pa|split; [exact I|]]].
    + eapply winvrow_adv; [exact Hri|destruct (cwide c); lia|].
      intros k Hk'. assert (fc pcs j = false) as Fp by (rewrite (fc_get _ _ _ Hpc); exact Hk).
      destruct (N.eq_dec k j) as [->|Hne].
      * rewrite (wv_at _ _ Hri Fp). congruence.
      * destruct (cwide c) eqn:Ew; [|lia]. assert (k = j + 1) as -> by lia.
        rewrite (wv_post _ _ Hri) by lia.
        rewrite (dw_cont_next src j c Hsrc Hc Ew), (dw_cont_next prev j c Hprev Hpc Ew). reflexivity.
    + split; [apply (dw_fc_next j c Hc)|]. split.
      { pose proof (adv_fits _ _ _ (sr_ok _ _ Hsrc) Hc) as Hfit. rewrite (sr_len _ _ Hsrc) in Hfit.
        unfold adv_n in Hfit. destruct (cwide c); lia. }
      split; [reflexivity|].
      intros Ew. destruct (Harr Ew) as [?|[?|(A1 & A2 & A3 & A4)]]; auto. exfalso.
      destruct (A4 eq_refl) as [Hne ->]. apply Hne. congruence.
  - assert (cwide c = false) as Ew.
    { destruct Wc as (_ & _ & W3 & _). apply W3. unfold has_contents in Hhc. destruct (ctext c); [reflexivity|discriminate]. }
    pose proof (wf_empty_blank c Wc Hhc Hk) as Eb.
    rewrite Ew. unfold bnd, wrun_ok in *. rewrite Ee in *. destruct Hrun as (R2 & R3 & R4).
    split; [exact Hri|]. split; [exact Pa|]. split.
    { split; [lia|]. split; [exact R3|]. intros k Hk'.
      destruct (N.eq_dec k j) as [->|]; [now rewrite Hc, Eb at 1|apply R4; lia]. }
    split; [rewrite (dw_fc_next j c Hc); exact Ew|]. split; [lia|]. split; [discriminate|].
    intros Ew'. destruct (Harr Ew') as [?|[?|(A1 & A2 & A3 & A4)]]; auto.
    right. right. repeat split; auto; discriminate.
Qed.

(* an empty cell that differs from prev: opens or continues an erase run *)
Lemma dw_run j e c : winv j false e -> get sc j = Some c -> j < cols -> has_contents c = false ->
  cell_wf c -> pen_ok (cattrs c) ->
  (eerase e = None \/ exists pc, eerase e = Some (pc, cattrs c)) ->
  let e' := match eerase e with None => e_erase e (Some (j, cattrs c)) | Some _ => e end in
  winv (j + 1) false e' /\ wtail (j + 1) false e'.
Proof.
  intros (ri & Hp & Hcv & Hri & Pa & Hrun & Hfc & Hb & Hpw & Harr) Hc Hj Hhc Wc Pc Hcase.
  assert (ccont c = false) as Hk by (rewrite <- (fc_get _ _ _ Hc); exact Hfc).
  pose proof (wf_empty_blank c Wc Hhc Hk) as Eb.
  assert (fc sc (j + 1) = false) as Hfc'.
  { rewrite (dw_fc_next j _ Hc). rewrite Eb. reflexivity. }
  destruct Hcase as [En|(pc & Ee)].
  - rewrite En. cbv zeta. split; [|intros E; discriminate E].
    exists ri. unfold bnd, wrun_ok in *. rewrite En in *.
    change (wLof (e_erase e (Some (j, cattrs c)))) with (wLof e). cbn [e_erase eout er ec eattrs eerase].
    split; [exact Hp|]. split; [exact Hcv|]. split; [exact Hri|]. split; [exact Pa|]. split.
    { split; [lia|]. split; [exact Pc|]. intros k Hk'. assert (k = j) as -> by lia. now rewrite Hc, Eb at 1. }
    split; [exact Hfc'|]. split; [lia|]. split; [discriminate|].
    intros Ew. destruct (Harr Ew) as [?|[?|(A1 & A2 & A3 & A4)]]; auto.
    right. right. repeat split; auto; discriminate.
  - rewrite Ee. cbv zeta. split; [|intros E; rewrite Ee in E; discriminate E].
    exists ri. unfold bnd, wrun_ok in *. rewrite Ee in *. destruct Hrun as (R2 & R3 & R4).
    split; [exact Hp|]. split; [exact Hcv|]. split; [exact Hri|]. split; [exact Pa|]. split.
    { split; [lia|]. split; [exact R3|]. intros k Hk'.
      destruct (N.eq_dec k j) as [->|]; [now rewrite Hc, Eb at 1|apply R4; lia]. }
    split; [exact Hfc'|]. split; [lia|]. split; [discriminate|].
    intros Ew. destruct (Harr Ew) as [?|[?|(A1 & A2 & A3 & A4)]]; auto.
    right. right. repeat split; auto; discriminate.
Qed.

(* the row after printing src's cell j at the boundary j *)
Lemma printed_winvrow ri ri' j c : row_ok cols ri -> winvrow ri j -> fc sc j = false ->
  get sc j = Some c -> has_contents c = true -> cell_wf c -> j < cols ->
  printed2 ri ri' j c (cattrs c) -> winvrow ri' (j + adv_n c).
Proof.
  intros Okri Hri Hfc Hc Hhc Wc Hj [T1 T2 T3 T4 T5].
  pose proof (adv_n_le c) as Hadv.
  pose proof (adv_fits _ _ _ (sr_ok _ _ Hsrc) Hc) as Hfit. rewrite (sr_len _ _ Hsrc) in Hfit.
  split.
  - destruct T5 as [E|(E & Ewd & Efw & Elen)]; [rewrite E; exact (wv_flag _ _ Hri)|].
    right. split; [exact E|]. intros _. rewrite (proj1 Okri) in Elen.
    assert (cols - 2 = j + 1) as E2 by lia. unfold Wcond. rewrite E2.
    split; [lia|]. split; [apply (dw_fw_ge ri j (j + 1) Okri Hri); [lia|exact Efw]|].
    intros x Hx. rewrite (dw_cont_next src j c Hsrc Hc Ewd) in Hx. inv Hx. reflexivity.
  - intros k Hk. destruct (N.lt_ge_cases k j) as [Hl|Hg].
    + rewrite T3 by lia. apply (wv_mid _ _ Hri). lia.
    + destruct (N.eq_dec k j) as [->|Nk].
      * rewrite T1, (painted_self c Wc Hhc). now rewrite Hc.
      * assert (k = j + 1 /\ cwide c = true) as [-> Ew] by (unfold adv_n in Hk; destruct (cwide c); split; auto; lia).
        rewrite (T2 Ew). symmetry. exact (dw_cont_next src j c Hsrc Hc Ew).
  - intros k Hk. rewrite T3 by lia. apply (wv_post _ _ Hri). lia.
  - intros Hf. rewrite T4.
    + apply (wv_post _ _ Hri). lia.
    + destruct (fw (cells ri) (j + adv_n c - 1)) eqn:Efw; [|reflexivity]. exfalso.
      pose proof (dw_fw_ge ri j (j + adv_n c - 1) Okri Hri ltac:(lia) Efw) as C.
      rewrite (ok_pair _ (sr_ok _ _ Hprev)) in C.
      replace (j + adv_n c - 1 + 1) with (j + adv_n c) in C by lia. congruence.
Qed.

(* a cell with contents: moved to (or reached through the pending wrap), pen set, text printed *)
Lemma dw_print j e c : winv j false e -> eerase e = None -> get sc j = Some c -> j < cols ->
  has_contents c = true -> cell_wf c -> cell_cap c -> pen_ok (cattrs c) ->
  exists e',
    (do e2 <- (if (er e =? i) && (ec e =? j) then Ok e
               else
                 do need <- (if w then
                               do r1 <- add16 (er e) 1;
                               if negb (r1 =? i) then Ok true
                               else do lim <- sub16 cols (wide_n c);
                                    Ok ((ec e <? lim) || negb (j =? 0))
                             else Ok true);
                 do e' <- (if need then e_move e i j else Ok e);
                 Ok (e_pos e' i j));
     let e3 := e_attrs e2 (cattrs c) in
     do nc <- add16 (ec e3) (adv_n c);
     Ok (e_out (e_pos e3 (er e3) nc) [TChars (ctext c)])) = Ok e' /\
    winv (j + 1) (cwide c) e' /\ wtail (j + 1) (cwide c) e'.
Proof.
  intros (ri & Hp & Hcv & Hri & Pa & Hrun & Hfc & Hb & Hpw & Harr) En Hc Hj Hhc Wc Cc Pc.
  destruct dw_dims as [D1 D2]. unfold MAXDIM in *.
  unfold bnd in Hri, Hb, Harr. rewrite En in Hri, Hb, Harr.
  pose proof (adv_fits _ _ _ (sr_ok _ _ Hsrc) Hc) as Hfit. rewrite (sr_len _ _ Hsrc) in Hfit.
  pose proof (adv_n_le c) as Hadv.
  pose proof (cv_r _ _ _ _ Hcv) as Hr. pose proof (cv_c _ _ _ _ Hcv) as Hcc.
  destruct (dw_ri_ok _ ri _ _ (len_wLof e) Hcv) as [Okri Wri].
  pose proof (dw_fc_at ri j Okri Hri Hfc) as Fri.
  (* arrival *)
  assert (exists e2,
            (if (er e =? i) && (ec e =? j) then Ok e
             else do need <- (if w then do r1 <- add16 (er e) 1;
                                          if negb (r1 =? i) then Ok true
                                          else do lim <- sub16 cols (wide_n c); Ok ((ec e <? lim) || negb (j =? 0))
                              else Ok true);
                  do e' <- (if need then e_move e i j else Ok e); Ok (e_pos e' i j)) = Ok e2 /\
            er e2 = i /\ ec e2 = j /\ eattrs e2 = eattrs e /\ eerase e2 = None /\
            ((plays (rcv R l0 r0 c0 a0) (eout e2) (rcv R (set_at wLfin i ri) i j (eattrs e)) /\
              cv R (set_at wLfin i ri) i j) \/
             (w = true /\ j = 0 /\ eout e2 = eout e /\ er e + 1 = i /\ cols < ec e + adv_n c /\ wLof e = l0)))
    as (e2 & -> & E1 & E2 & E3 & E4 & Hcase).
  { destruct (N.eqb_spec (er e) i) as [Ei|Ni]; [destruct (N.eqb_spec (ec e) j) as [Ej|Nj]|]; cbn [andb].
    - exists e. assert (warrived e) as Ha by (intros _; now right).
      rewrite (wLof_arrived e Ha), Ei, Ej in Hp, Hcv. split; [reflexivity|]. do 3 (split; [auto|]). split; [exact En|]. now left.
    - assert (warrived e) as Ha by (intros _; now right).
      destruct (dw_move e ri j Hcv Ha Hj) as (ts & Em & Sc & Pm & Cm).
      assert ((if w then do r1 <- add16 (er e) 1;
                          if negb (r1 =? i) then Ok true
                          else do lim <- sub16 cols (wide_n c); Ok ((ec e <? lim) || negb (j =? 0))
               else Ok true) = Ok true) as ->.
      { destruct w; [|reflexivity]. rewrite add16_ok by lia. cbn [bind]. rewrite Ei.
        destruct (N.eqb_spec (i + 1) i); [lia|reflexivity]. }
      cbn [bind]. rewrite Em. cbn [bind]. eexists; split; [reflexivity|].
      cbn [e_pos e_out er ec eattrs eerase eout]. do 3 (split; [reflexivity|]). split; [exact En|].
      left. split; [eapply plays_app; eauto|exact Cm].
    - destruct (Bool.bool_dec w true) as [Ew|Ew].
      + rewrite Ew. rewrite add16_ok by lia. cbn [bind].
        destruct (N.eqb_spec (er e + 1) i) as [E1|N1]; cbn [negb].
        * rewrite sub16_ok by (unfold wide_n; destruct (cwide c); lia). cbn [bind].
          destruct ((ec e <? cols - wide_n c) || negb (j =? 0)) eqn:En'.
          -- (* a move: the emitter cannot be waiting for the wrap *)
             assert (warrived e) as Ha.
             { intros _. destruct (Harr Ew) as [?|[?|(A1 & A2 & A3 & A4)]]; auto. exfalso.
               subst j. rewrite A2 in En'. destruct (N.ltb_spec cols (cols - wide_n c)); [lia|]. discriminate. }
             destruct (dw_move e ri j Hcv Ha Hj) as (ts & Em & Sc & Pm & Cm).
             cbn [bind]. rewrite Em. cbn [bind]. eexists; split; [reflexivity|].
             cbn [e_pos e_out er ec eattrs eerase eout]. do 3 (split; [reflexivity|]). split; [exact En|].
             left. split; [eapply plays_app; eauto|exact Cm].
          -- (* through the wrap *)
             apply orb_false_elim in En' as [En1 En2]. apply N.ltb_ge in En1.
             apply negb_false_iff, N.eqb_eq in En2. subst j.
             cbn [bind]. eexists; split; [reflexivity|].
             cbn [e_pos er ec eattrs eerase eout]. do 3 (split; [reflexivity|]). split; [exact En|].
             right. split; [reflexivity|]. split; [reflexivity|]. split; [reflexivity|]. split; [exact E1|].
             split; [unfold wide_n, adv_n in *; destruct (cwide c); lia|].
             unfold wLof. destruct (N.eqb_spec (er e) i); [lia|]. now rewrite andb_false_r.
        * assert (warrived e) as Ha.
          { intros _. destruct (Harr Ew) as [?|[?|(A1 & _)]]; [auto|auto|exfalso; lia]. }
          destruct (dw_move e ri j Hcv Ha Hj) as (ts & Em & Sc & Pm & Cm).
          cbn [bind]. rewrite Em. cbn [bind]. eexists; split; [reflexivity|].
          cbn [e_pos e_out er ec eattrs eerase eout]. do 3 (split; [reflexivity|]). split; [exact En|].
          left. split; [eapply plays_app; eauto|exact Cm].
      + apply Bool.not_true_is_false in Ew.
        assert (warrived e) as Ha by (intros E; congruence).
        destruct (dw_move e ri j Hcv Ha Hj) as (ts & Em & Sc & Pm & Cm).
        rewrite Ew. cbn [bind]. rewrite Em. cbn [bind]. eexists; split; [reflexivity|].
        cbn [e_pos e_out er ec eattrs eerase eout]. do 3 (split; [reflexivity|]). split; [exact En|].
        left. split; [eapply plays_app; eauto|exact Cm]. }
  cbn [bind]. cbv zeta.
  rewrite ec_e_attrs, er_e_attrs, E1, E2. rewrite add16_ok by lia. cbn [bind].
  eexists; split; [reflexivity|].
  (* the printed row *)
  assert (exists ri', printed2 ri ri' j c (cattrs c) /\
            plays (rcv R l0 r0 c0 a0) (eout (e_attrs e2 (cattrs c)) ++ [TChars (ctext c)])
                  (rcv R (set_at wLfin i ri') i (j + adv_n c) (cattrs c)) /\
            cv R (set_at wLfin i ri') i (j + adv_n c)) as (ri' & Hpr & Pfin & Cfin).
  { destruct Hcase as [[Pn Cn]|(Ew & -> & Eo & Er1 & Hover & EL)].
    - destruct (eout_e_attrs_plays R (set_at wLfin i ri) i j e2 (cattrs c) Pc) as (ts2 & Eo2 & Sc2 & P2 & Ea2).
      rewrite E3, Ea2 in P2.
      destruct (plays_cell_fit2 R (set_at wLfin i ri) i j (cattrs c) ri c Cn (dw_get_i wLfin ri len_wLfin) Wc Cc Hhc Hfit Fri)
        as (ri' & Hpr & P3).
      rewrite set_at_set_at in P3. exists ri'. split; [exact Hpr|]. rewrite Eo2. split.
      + eapply plays_app; [eapply plays_app; [exact Pn|exact P2]|exact P3].
      + eapply plays_cv; [exact Cn|exact P3|]. apply toks_scalar_chars, (wf_storable _ Wc).
    - rewrite EL in Hp, Hcv.
      destruct (Hw Ew) as (Hi1 & Gp & (lc & Hlc & Occ) & _).
      assert (er e = i - 1) as Ere by lia.
      assert (get (set_at l0 i ri) (er e) = Some rprev) as G1 by (rewrite Ere; now apply get_wflagged_prev).
      assert (get (set_at l0 i ri) (er e + 1) = Some ri) as G2 by (rewrite Er1; apply dw_get_i, Hcv0).
      destruct (eout_e_attrs_plays R (set_at l0 i ri) (er e) (ec e) e2 (cattrs c) Pc) as (ts2 & Eo2 & Sc2 & P2 & Ea2).
      rewrite E3, Ea2 in P2.
      destruct (plays_cell_wrap2 R (set_at l0 i ri) (er e) (ec e) (cattrs c) rprev ri c lc Hcv ltac:(lia) G1 G2 Hlc Occ
                  Wc Cc Hhc ltac:(lia) Hover Fri) as (ri' & Hpr & P3).
      rewrite Er1 in P3.
      assert (set_at (set_at (set_at l0 i ri) (er e) (row_wrap true rprev)) i ri' = set_at wLfin i ri') as ESet
        by (rewrite Ere; now apply set_through).
      rewrite ESet in P3.
      exists ri'. split; [exact Hpr|]. rewrite Eo2, Eo. change (0 + adv_n c) with (adv_n c) in *. split.
      + eapply plays_app; [eapply plays_app; [exact Hp|exact P2]|]. replace (0 + adv_n c) with (adv_n c) by lia. exact P3.
      + replace (0 + adv_n c) with (adv_n c) by lia.
        eapply plays_cv; [exact Hcv|exact P3|]. apply toks_scalar_chars, (wf_storable _ Wc). }
  assert (eattrs (e_attrs e2 (cattrs c)) = cattrs c) as Ea2.
  { unfold e_attrs. destruct (attrs_eqb (eattrs e2) (cattrs c)) eqn:Eq; [now apply attrs_eqb_eq in Eq|reflexivity]. }
  set (e' := e_out (e_pos (e_attrs e2 (cattrs c)) i (j + adv_n c)) [TChars (ctext c)]).
  assert (er e' = i) as Er' by reflexivity.
  assert (warrived e') as Ha' by (intros _; now right).
  assert ((if cwide c then j + 1 + 1 else j + 1) = j + adv_n c) as Eb by (unfold adv_n; destruct (cwide c); lia).
  split.
  - exists ri'. rewrite (wLof_arrived e' Ha'). unfold bnd, wrun_ok.
    cbn [e' e_out e_pos eout er ec eattrs eerase]. rewrite !eerase_e_attrs, !E4, Ea2, Eb.
    split; [exact Pfin|]. split; [exact Cfin|].
    split; [exact (printed_winvrow ri ri' j c Okri Hri Hfc Hc Hhc Wc Hj Hpr)|].
    split; [exact Pc|]. split; [exact I|]. split; [apply (dw_fc_next j c Hc)|]. split; [lia|].
    split; [reflexivity|]. intros _. right. now left.
  - intros _ Epw _ c' p' G1 G2. replace (j + 1 - 1) with j in * by lia. rewrite Hc in G1. inv G1.
    right. right. split; [exact Hhc|]. split; [reflexivity|].
    cbn [e' e_out e_pos ec]. unfold adv_n. rewrite Epw. reflexivity.
Qed.

(* one cell of the loop; p is the cell of prev in that column *)
Lemma dw_emit_cell j e c p : winv j false e -> get sc j = Some c -> get pcs j = Some p -> j < cols ->
  exists e', emit_cell true w cols i e j c (cell_eqb c p) = Ok e' /\
             winv (j + 1) (cwide c) e' /\ wtail (j + 1) (cwide c) e'.
Proof.
  intros Hinv Hc Hp Hj. destruct (dw_src_get j Hj) as (c' & Hc' & Wc & Cc & Pc). rewrite Hc in Hc'. inv Hc'.
  unfold emit_cell.
  destruct (dw_phase1 j e c' Hinv Hc Hj) as (e1 & -> & Hinv1 & Hcase). cbn [bind].
  destruct (cell_eqb c' p) eqn:Esk.
  - apply cell_eqb_eq in Esk. subst p. eexists; split; [reflexivity|].
    apply dw_skip; auto.
  - destruct (has_contents c') eqn:Hhc.
    + destruct Hcase as [En|(pc & _ & ?)]; [|discriminate].
      exact (dw_print j e1 c' Hinv1 En Hc Hj Hhc Wc Cc Pc).
    + assert (cwide c' = false) as ->.
      { destruct Wc as (_ & _ & W3 & _). apply W3. unfold has_contents in Hhc. destruct (ctext c'); [reflexivity|discriminate]. }
      pose proof (dw_run j e1 c' Hinv1 Hc Hj Hhc Wc Pc) as Hr. cbv zeta in Hr.
      destruct (eerase e1) as [[pc a]|] eqn:Ee1.
      * eexists; split; [reflexivity|]. apply Hr. destruct Hcase as [?|(pc' & E & _)]; [discriminate|]. right. inv E. eauto.
      * eexists; split; [reflexivity|]. apply Hr. now left.
Qed.

(* the second half of a wide cell of src is skipped by the loop *)
Lemma dw_cont_skip j e : winv j true e -> j < cols -> winv (j + 1) false e /\ wtail (j + 1) false e.
Proof.
  intros (ri & Hp & Hcv & Hri & Pa & Hrun & Hfc & Hb & Hpw & Harr) Hj.
  pose proof (Hpw eq_refl) as En. unfold bnd, wrun_ok in *. rewrite En in *.
  apply fc_true in Hfc as (d & Hd & Dc).
  destruct (ok_cont_prev _ _ _ (sr_ok _ _ Hsrc) Hd Dc) as (Hpos & d' & Hd' & Dw' & _ & Dw).
  split.
  - exists ri. unfold bnd, wrun_ok. rewrite !En.
    split; [exact Hp|]. split; [exact Hcv|]. split; [exact Hri|]. split; [exact Pa|]. split; [exact I|].
    split; [rewrite (dw_fc_next j d Hd); exact Dw|]. split; [exact Hb|]. split; [discriminate|].
    intros Ew. destruct (Harr Ew) as [?|[?|(A1 & A2 & A3 & _)]]; auto. lia.
  - intros _ _ _ c' p' G1 G2. replace (j + 1 - 1) with j in * by lia. rewrite Hd in G1. inv G1. right. now left.
Qed.

Lemma dw_emit_loop : forall zs j pwf e, winv j pwf e -> wtail j pwf e ->
  (forall k, k < len zs -> exists c p, get zs k = Some (c, p) /\ get sc (j + k) = Some c /\ get pcs (j + k) = Some p) ->
  j + len zs <= cols ->
  exists e' pwf', emit_loop true w cols i (map (fun cp : cell * cell => (fst cp, cell_eqb (fst cp) (snd cp))) zs) j pwf e = Ok e' /\
                  winv (j + len zs) pwf' e' /\ wtail (j + len zs) pwf' e'.
Proof.
  induction zs as [|[c p] zs IH]; intros j pwf e Hinv Ht Hseg Hlen.
  - exists e, pwf. split; [reflexivity|]. rewrite len_nil. replace (j + 0) with j by lia. auto.
  - rewrite len_cons in *. cbn [map emit_loop fst snd].
    assert (get sc j = Some c /\ get pcs j = Some p) as [Hc Hp].
    { destruct (Hseg 0 ltac:(lia)) as (c' & p' & G & G1 & G2). replace (j + 0) with j in * by lia.
      rewrite get_cons in G. cbn in G. inv G. auto. }
    assert (forall k, k < len zs -> exists c p, get zs k = Some (c, p) /\ get sc (j + 1 + k) = Some c /\ get pcs (j + 1 + k) = Some p) as Hseg'.
    { intros k Hk. destruct (Hseg (k + 1) ltac:(lia)) as (c' & p' & G & G1 & G2). rewrite get_cons in G.
      destruct (N.eqb_spec (k + 1) 0); [lia|]. replace (k + 1 - 1) with k in G by lia.
      replace (j + 1 + k) with (j + (k + 1)) by lia. eauto. }
    destruct pwf.
    + destruct (dw_cont_skip j e Hinv ltac:(lia)) as [Hi1 Ht1].
      destruct (IH (j + 1) false e Hi1 Ht1 Hseg' ltac:(lia)) as (e' & pw' & E & Hi' & Ht').
      exists e', pw'. split; [exact E|]. replace (j + (len zs + 1)) with (j + 1 + len zs) by lia. auto.
    + destruct (dw_emit_cell j e c p Hinv Hc Hp ltac:(lia)) as (e1 & -> & Hi1 & Ht1). cbn [bind].
      destruct (IH (j + 1) (cwide c) e1 Hi1 Ht1 Hseg' ltac:(lia)) as (e' & pw' & E & Hi' & Ht').
      exists e', pw'. split; [exact E|]. replace (j + (len zs + 1)) with (j + 1 + len zs) by lia. auto.
Qed.

(* ---- after the loop ---- *)
(* the receiver row after finish_erase: src's cells; the flag as far as it is known *)
Record wdone (ri : row) : Prop := mkWdone {
  wd_flag : wrapped ri = wrapped prev \/ (wrapped ri = false /\ (wrapped src = true -> Wcond));
  wd_cells : cells ri = sc }.

Lemma winvrow_done (l : list row) ri r c : len l = rows -> cv R (set_at l i ri) r c -> winvrow ri cols -> wdone ri.
Proof.
  intros Ll Hcv [F M Q A]. split; [exact F|].
  destruct (dw_ri_ok l ri r c Ll Hcv) as [[Lri _] _].
  apply list_ext_get. intros k. destruct (N.lt_ge_cases k cols) as [Hk|Hk]; [now apply M|].
  assert (get (cells ri) k = None) as -> by (apply get_none_ge; lia).
  symmetry. apply get_none_ge. rewrite (sr_len _ _ Hsrc). lia.
Qed.

(* the last cell of src *)
Lemma dw_last_cell : exists lc plc, get sc (cols - 1) = Some lc /\ get pcs (cols - 1) = Some plc.
Proof.
  destruct dw_dims as [D1 D2].
  destruct (get_lt_some sc (cols - 1)) as (lc & G1); [rewrite (sr_len _ _ Hsrc); lia|].
  destruct (get_lt_some pcs (cols - 1)) as (plc & G2); [rewrite (sr_len _ _ Hprev); lia|]. eauto.
Qed.

Lemma dw_finish e : winv cols false e -> wtail cols false e ->
  exists e' ri, finish_erase true w cols i e = Ok e' /\
    plays (rcv R l0 r0 c0 a0) (eout e') (rcv R (set_at wLfin i ri) (er e') (ec e') (eattrs e')) /\
    cv R (set_at wLfin i ri) (er e') (ec e') /\ pen_ok (eattrs e') /\ wdone ri /\ warrived e' /\
    (* the last cell: equal to prev's, or a second half, or just printed, or just erased with the pen *)
    (forall lc plc, get sc (cols - 1) = Some lc -> get pcs (cols - 1) = Some plc ->
       lc = plc \/ ccont lc = true \/ (has_contents lc = true /\ er e' = i /\ ec e' = cols) \/
       lc = EraseSpec.blank (eattrs e')).
Proof.
  intros (ri & Hp & Hcv & Hri & Pa & Hrun & Hfc & Hb & Hpw & Harr) Ht.
  destruct dw_dims as [D1 D2].
  unfold finish_erase. destruct (eerase e) as [[pc ea]|] eqn:Ee.
  - unfold wrun_ok, bnd in *. rewrite Ee in *. destruct Hrun as (R2 & R3 & R4).
    destruct (dw_flush e ri pc ea None cols Hp Hcv Hri R3 Pa R4) as (e' & ri' & Ef & P' & C' & E1 & E2 & E3 & E4 & Hri').
    { intros Ew. destruct (Harr Ew) as [?|[?|(A1 & A2 & A3 & _)]]; auto. }
    { right. repeat split; auto. }
    exists e', ri'. split; [exact Ef|]. rewrite E1, E2, E3.
    split; [exact P'|]. split; [exact C'|]. split; [exact R3|].
    pose proof (winvrow_done wLfin ri' i pc len_wLfin C' Hri') as Hd.
    split; [exact Hd|]. split; [intros _; now right|].
    intros lc plc G1 G2. right. right. right. rewrite R4 in G1 by lia. inv G1. reflexivity.
  - assert (warrived e) as Ha.
    { intros Ew. unfold bnd in Harr. rewrite Ee in Harr.
      destruct (Harr Ew) as [?|[?|(A1 & A2 & A3 & _)]]; auto. lia. }
    exists e, ri. split; [reflexivity|]. unfold bnd, wrun_ok in *. rewrite Ee in *.
    rewrite (wLof_arrived e Ha) in Hp, Hcv.
    split; [exact Hp|]. split; [exact Hcv|]. split; [exact Pa|].
    split; [exact (winvrow_done wLfin ri _ _ len_wLfin Hcv Hri)|]. split; [exact Ha|].
    intros lc plc G1 G2. destruct (Ht Ee eq_refl ltac:(lia) lc plc G1 G2) as [?|[?|?]]; auto.
Qed.

(* ---- the flag-repair block (wrapped src <> wrapped prev) ---- *)
Lemma reprint_cells rw1 ri' endc endcell : (forall k, k < endc -> get (cells rw1) k = get sc k) ->
  len (cells ri') = cols -> get sc endc = Some endcell -> has_contents endcell = true -> cell_wf endcell ->
  endc + adv_n endcell = cols -> printed2 rw1 ri' endc endcell (cattrs endcell) -> cells ri' = sc.
Proof.
  intros Hlow Lri Hc Hhc Wc Hend [T1 T2 T3 T4 T5].
  apply list_ext_get. intros k. destruct (N.lt_ge_cases k cols) as [Hk|Hk].
  - destruct (N.lt_ge_cases k endc) as [Hl|Hg]; [rewrite T3 by lia; now apply Hlow|].
    destruct (N.eq_dec k endc) as [->|Nk]; [rewrite T1, (painted_self _ Wc Hhc); now rewrite Hc|].
    assert (k = endc + 1 /\ cwide endcell = true) as [-> Ew]
      by (unfold adv_n in Hend; destruct (cwide endcell); split; auto; lia).
    rewrite (T2 Ew). symmetry. exact (dw_cont_next src endc endcell Hsrc Hc Ew).
  - assert (get (cells ri') k = None) as -> by (apply get_none_ge; lia).
    symmetry. apply get_none_ge. rewrite (sr_len _ _ Hsrc). lia.
Qed.

(* the end cell of src: the last cell, or the wide cell whose second half is the last cell *)
Lemma dw_end_cell : exists lc, get sc (cols - 1) = Some lc /\
  ((ccont lc = false /\ cwide lc = false) \/
   (ccont lc = true /\ 2 <= cols /\ exists d, get sc (cols - 2) = Some d /\ cwide d = true /\ ccont d = false /\ has_contents d = true)).
Proof.
  destruct dw_dims as [D1 D2]. destruct dw_last_cell as (lc & plc & G1 & _). exists lc. split; [exact G1|].
  destruct (ccont lc) eqn:Ek.
  - right. split; [reflexivity|]. destruct (ok_cont_prev _ _ _ (sr_ok _ _ Hsrc) G1 Ek) as (Hpos & d & Hd & Dw & Dc & _).
    split; [lia|]. exists d. replace (cols - 1 - 1) with (cols - 2) in Hd by lia.
    split; [exact Hd|]. split; [exact Dw|]. split; [exact Dc|].
    apply wf_wide_has_contents; [|exact Dw]. eapply row_wf_get; [apply (sr_wf _ _ Hsrc)|exact Hd].
  - left. split; [reflexivity|]. apply (ok_last_not_wide _ _ (sr_ok _ _ Hsrc)); [rewrite (sr_len _ _ Hsrc); lia|].
    rewrite (sr_len _ _ Hsrc). exact G1.
Qed.

Lemma dw_repair e ri : wrapped src <> wrapped prev ->
  plays (rcv R l0 r0 c0 a0) (eout e) (rcv R (set_at wLfin i ri) (er e) (ec e) (eattrs e)) ->
  cv R (set_at wLfin i ri) (er e) (ec e) -> pen_ok (eattrs e) -> wdone ri -> warrived e ->
  (forall lc plc, get sc (cols - 1) = Some lc -> get pcs (cols - 1) = Some plc ->
     lc = plc \/ ccont lc = true \/ (has_contents lc = true /\ er e = i /\ ec e = cols) \/
     lc = EraseSpec.blank (eattrs e)) ->
  exists e4 ri',
    (do lastc <- sub16 cols 1;
     do lc <- idx sc lastc;
     do endc <- (if ccont lc then sub16 cols 2 else Ok lastc);
     do e' <- e_move e i endc;
     let e'' := e_pos e' i endc in
     let e''' := if negb (wrapped src) then e_out e'' (t_erase_char 1) else e'' in
     do endcell <- idx sc endc;
     if has_contents endcell then
       let ea := e_attrs e''' (cattrs endcell) in
       do nc <- add16 (ec ea) (adv_n endcell);
       Ok (e_pos (e_out ea [TChars (ctext endcell)]) (er ea) nc)
     else Ok e''') = Ok e4 /\
    plays (rcv R l0 r0 c0 a0) (eout e4) (rcv R (set_at wLfin i ri') (er e4) (ec e4) (eattrs e4)) /\
    cv R (set_at wLfin i ri') (er e4) (ec e4) /\ pen_ok (eattrs e4) /\
    cells ri' = sc /\ wrapped ri' = false /\ (wrapped src = true -> er e4 = i /\ ec e4 = cols).
Proof.
  intros Hne Hp Hcv Pa [Fl Ec] Ha Hlast. destruct dw_dims as [D1 D2]. unfold MAXDIM in *.
  destruct dw_end_cell as (lc & Glc & Hend). destruct dw_last_cell as (lc' & plc & Glc' & Gplc).
  rewrite Glc in Glc'. injection Glc' as <-.
  rewrite sub16_ok by lia. cbn [bind]. rewrite (idx_ok _ _ _ Glc). cbn [bind].
  (* endc and endcell *)
  assert (exists endc endcell, (if ccont lc then sub16 cols 2 else Ok (cols - 1)) = Ok endc /\
            get sc endc = Some endcell /\ endc < cols /\ ccont endcell = false /\
            endc + adv_n endcell = cols /\ cell_wf endcell /\ cell_cap endcell /\ pen_ok (cattrs endcell) /\
            (ccont lc = true -> has_contents endcell = true) /\ (ccont lc = false -> endcell = lc /\ endc = cols - 1))
    as (endc & endcell & -> & Gend & Hlt & Kend & Eadv & Wend & Cend & Pend & Hc1 & Hc2).
  { destruct Hend as [(Ek & Ew)|(Ek & H2 & d & Hd & Dw & Dc & Dh)].
    - rewrite Ek. exists (cols - 1), lc. destruct (dw_src_get (cols - 1) ltac:(lia)) as (x & Gx & Wx & Cx & Px).
      rewrite Glc in Gx. inv Gx. split; [reflexivity|]. split; [exact Glc|]. split; [lia|]. split; [exact Ek|].
      split; [unfold adv_n; rewrite Ew; lia|]. split; [exact Wx|]. split; [exact Cx|]. split; [exact Px|].
      split; [congruence|auto].
    - rewrite Ek. rewrite sub16_ok by lia. exists (cols - 2), d.
      destruct (dw_src_get (cols - 2) ltac:(lia)) as (x & Gx & Wx & Cx & Px). rewrite Hd in Gx. inv Gx.
      split; [reflexivity|]. split; [exact Hd|]. split; [lia|]. split; [exact Dc|].
      split; [unfold adv_n; rewrite Dw; lia|]. split; [exact Wx|]. split; [exact Cx|]. split; [exact Px|].
      split; [auto|congruence]. }
  cbn [bind].
  destruct (dw_move e ri endc ltac:(rewrite (wLof_arrived e Ha); exact Hcv) Ha Hlt) as (ts & -> & Sc & Pm & Cm).
  rewrite (wLof_arrived e Ha) in Pm. cbn [bind]. cbv zeta. rewrite (idx_ok _ _ _ Gend). cbn [bind].
  destruct (dw_ri_ok _ ri _ _ len_wLfin Cm) as [Okri Wri].
  pose proof (dw_get_i wLfin ri len_wLfin) as Gi.
  assert (fc (cells ri) endc = false) as Fend by (rewrite Ec; rewrite (fc_get _ _ _ Gend); exact Kend).
  (* step 2: the optional ECH *)
  set (e2 := e_pos (e_out e ts) i endc).
  assert (exists rw1,
            plays (rcv R l0 r0 c0 a0) (eout (if negb (wrapped src) then e_out e2 (t_erase_char 1) else e2))
                  (rcv R (set_at wLfin i rw1) i endc (eattrs e)) /\
            cv R (set_at wLfin i rw1) i endc /\ wrapped rw1 = false /\ fc (cells rw1) endc = false /\
            (forall k, k < endc -> get (cells rw1) k = get sc k) /\
            (has_contents endcell = false -> cells rw1 = sc)) as (rw1 & P2 & C2 & U2 & F2 & Low2 & Hnc).
  { destruct (wrapped src) eqn:Ews; cbn [negb].
    - (* S flagged, P not: no ECH *)
      assert (wrapped prev = false) as Ewp by (destruct (wrapped prev); congruence).
      exists ri. split; [cbn [e2 e_pos e_out eout]; eapply plays_app; eauto|]. split; [exact Cm|].
      split; [destruct Fl as [E|[E _]]; congruence|]. split; [exact Fend|].
      split; [intros k _; now rewrite Ec|].
      intros Hnc. exfalso. destruct (Hswi Ews) as (x & Hx & Ho). rewrite (sr_len _ _ Hsrc), Glc in Hx. inv Hx.
      destruct (ccont x) eqn:Ek; [rewrite (Hc1 eq_refl) in Hnc; discriminate|].
      destruct (Hc2 eq_refl) as [-> _]. destruct Ho; congruence.
    - (* P flagged, S not: ECH 1 clears the flag *)
      assert (wrapped prev = true) as Ewp by (destruct (wrapped prev); congruence).
      destruct (plays_ech R (set_at wLfin i ri) i endc (eattrs e) 1 ri Cm Gi Wri ltac:(lia)) as (rw1 & [EC EW] & Ok1 & W1 & P3).
      replace (N.min (endc + 1) cols) with (endc + 1) in EC, EW by lia.
      rewrite set_at_set_at in P3.
      assert (forall k, cut_lo (cells ri) endc (endc + 1) k = false) as NL.
      { intros k. unfold cut_lo. rewrite Fend. apply andb_false_r. }
      exists rw1. split; [cbn [e2 e_pos e_out eout]; eapply plays_app; [eapply plays_app; eauto|exact P3]|].
      split; [eapply plays_cv; [exact Cm|exact P3|apply erase_toks_scalar]|].
      split.
      { rewrite EW. assert (blanked (cells ri) endc (endc + 1) (cols - 1) = true) as ->; [|reflexivity].
        unfold blanked. destruct (ccont lc) eqn:Ek.
        - (* endc = cols - 2, the wide end cell is cut *)
          destruct Hend as [(Ek' & _)|(_ & H2 & d & Hd & Dw & _)]; [congruence|].
          assert (endc = cols - 2) as ->.
          { destruct (N.eq_dec endc (cols - 2)); [assumption|]. exfalso.
            assert (adv_n endcell <= 2) by apply adv_n_le.
            assert (endc = cols - 1) as -> by lia. rewrite Glc in Gend. inv Gend. congruence. }
          rewrite Hd in Gend. inv Gend.
          unfold cut, cut_hi. replace (cols - 2 + 1) with (cols - 1) by lia. rewrite N.eqb_refl.
          replace (cols - 1 - 1) with (cols - 2) by lia. rewrite Ec, (fw_get _ _ _ Hd), Dw.
          destruct (N.ltb_spec (cols - 2) (cols - 1)); [|lia]. cbn [andb]. rewrite !orb_true_r. reflexivity.
        - destruct (Hc2 eq_refl) as [_ ->]. unfold in_rng.
          destruct (N.leb_spec (cols - 1) (cols - 1)), (N.ltb_spec (cols - 1) (cols - 1 + 1)); try lia; reflexivity. }
      split.
      { unfold fc. rewrite EC. unfold erased_cell, in_rng.
        destruct (N.leb_spec endc endc), (N.ltb_spec endc (endc + 1)); try lia. reflexivity. }
      split.
      { intros k Hk. rewrite EC. unfold erased_cell, in_rng. destruct (N.leb_spec endc k); [lia|]. cbn [andb].
        unfold cut. rewrite NL. unfold cut_hi. destruct (N.eqb_spec k (endc + 1)); [lia|].
        rewrite andb_false_r. cbn [orb]. now rewrite Ec. }
      intros Hnc.
      (* the end cell is the empty last cell: it must have been erased with the pen *)
      destruct (ccont lc) eqn:Ek; [rewrite (Hc1 eq_refl) in Hnc; discriminate|].
      destruct (Hc2 eq_refl) as [-> ->].
      assert (lc = EraseSpec.blank (eattrs e)) as Elc.
      { destruct (Hlast lc plc Glc Gplc) as [E|[E|[(E & _)|E]]]; [|congruence|congruence|exact E].
        exfalso. subst plc. destruct (Hpwi Ewp) as (x & Hx & Ho). rewrite (sr_len _ _ Hprev), Gplc in Hx. inv Hx.
        destruct Ho; congruence. }
      destruct Ok1 as [L1 _].
      apply list_ext_get. intros k. rewrite EC. unfold erased_cell, in_rng.
      destruct (N.leb_spec (cols - 1) k), (N.ltb_spec k (cols - 1 + 1)); cbn [andb].
      + assert (k = cols - 1) as -> by lia. rewrite Glc. f_equal. symmetry. exact Elc.
      + unfold cut. rewrite NL. unfold cut_hi. cbn [orb].
        replace (cols - 1 + 1 - 1) with (cols - 1) by lia.
        rewrite Ec, (fw_get _ _ _ Glc). destruct Hend as [(_ & ->)|(E & _)]; [|congruence].
        rewrite andb_false_r. reflexivity.
      + unfold cut. rewrite NL. unfold cut_hi. destruct (N.eqb_spec k (cols - 1 + 1)); [lia|].
        rewrite andb_false_r. cbn [orb]. now rewrite Ec.
      + lia. }
  set (e3 := if negb (wrapped src) then e_out e2 (t_erase_char 1) else e2) in *.
  assert (er e3 = i /\ ec e3 = endc /\ eattrs e3 = eattrs e) as (E1 & E2 & E3)
    by (unfold e3; destruct (negb (wrapped src)); cbn; auto).
  clearbody e3.
  destruct (has_contents endcell) eqn:Hhc.
  - (* reprint the end cell *)
    rewrite ec_e_attrs, er_e_attrs, E1, E2. rewrite add16_ok by lia. cbn [bind].
    destruct (eout_e_attrs_plays R (set_at wLfin i rw1) i endc e3 (cattrs endcell) Pend) as (ts2 & Eo2 & Sc2 & P4 & Ea2).
    rewrite E3, Ea2 in P4.
    destruct (plays_cell_fit2 R (set_at wLfin i rw1) i endc (cattrs endcell) rw1 endcell C2 (dw_get_i wLfin rw1 len_wLfin)
                Wend Cend Hhc ltac:(lia) F2) as (ri' & Hpr & P5).
    rewrite set_at_set_at in P5.
    assert (cv R (set_at wLfin i ri') i (endc + adv_n endcell)) as C5.
    { eapply plays_cv; [exact C2|exact P5|]. apply toks_scalar_chars, (wf_storable _ Wend). }
    destruct (dw_ri_ok _ ri' _ _ len_wLfin C5) as [[Lri' _] _].
    eexists _, ri'. split; [reflexivity|].
    cbn [e_out e_pos eout er ec eattrs]. rewrite Ea2, Eo2.
    split; [eapply plays_app; [eapply plays_app; [exact P2|exact P4]|exact P5]|].
    split; [exact C5|]. split; [exact Pend|].
    split; [exact (reprint_cells rw1 ri' endc endcell Low2 Lri' Gend Hhc Wend Eadv Hpr)|].
    split; [destruct (p2_flag _ _ _ _ _ Hpr) as [E|[E _]]; congruence|].
    intros _. split; [reflexivity|exact Eadv].
  - eexists _, rw1. split; [reflexivity|]. rewrite E1, E2, E3.
    split; [exact P2|]. split; [exact C2|]. split; [exact Pa|]. split; [now apply Hnc|]. split; [exact U2|].
    intros Ews. exfalso. destruct (Hswi Ews) as (x & Hx & Ho). rewrite (sr_len _ _ Hsrc), Glc in Hx. inv Hx.
    destruct (ccont x) eqn:Ek; [discriminate (Hc1 eq_refl)|].
    destruct (Hc2 eq_refl) as [-> _]. destruct Ho; congruence.
Qed.

(* ---- the start of the row: the block that re-creates the wrap ---- *)
(* printing a cell over itself changes nothing *)
Lemma print_self rw rw' j c : row_ok cols rw -> row_wf rw -> get (cells rw) j = Some c ->
  has_contents c = true -> len (cells rw') = cols -> printed2 rw rw' j c (cattrs c) -> rw' = rw.
Proof.
  intros [Lrw Okrw] Wrw Hc Hhc Lrw' [T1 T2 T3 T4 T5].
  pose proof (row_wf_get _ _ _ Wrw Hc) as Wc. pose proof (adv_n_le c) as Hadv.
  assert (cwide c = true -> get (cells rw) (j + 1) = Some cont_cell) as Hcont.
  { intros Ew. destruct (ok_wide_next _ _ _ Okrw Hc Ew) as (d & Hd & Dc & _). rewrite Hd. f_equal.
    apply wf_cont_cell; [eapply row_wf_get; eauto|exact Dc]. }
  assert (fw (cells rw) (j + adv_n c - 1) = false) as Fn.
  { unfold adv_n. destruct (cwide c) eqn:Ew.
    - replace (j + 2 - 1) with (j + 1) by lia. unfold fw. rewrite (Hcont eq_refl). reflexivity.
    - replace (j + 1 - 1) with j by lia. now rewrite (fw_get _ _ _ Hc). }
  apply row_ext.
  - apply list_ext_get. intros k.
    destruct (N.lt_ge_cases k j) as [Hl|Hg]; [apply T3; lia|].
    destruct (N.eq_dec k j) as [->|Nk]; [rewrite T1, (painted_self _ Wc Hhc); now rewrite Hc|].
    destruct (N.lt_ge_cases (j + adv_n c) k) as [Hl2|Hg2]; [apply T3; lia|].
    destruct (N.eq_dec k (j + adv_n c)) as [->|Nk2]; [now apply T4|].
    assert (k = j + 1 /\ cwide c = true) as [-> Ew] by (unfold adv_n in *; destruct (cwide c); split; auto; lia).
    rewrite (T2 Ew). symmetry. now apply Hcont.
  - destruct T5 as [E|(_ & Ew & Efw & _)]; [exact E|]. exfalso.
    unfold fw in Efw. rewrite (Hcont Ew) in Efw. discriminate.
Qed.

Definition west0 : est := mkE [] r0 c0 a0 None.

Lemma set_wflagged_i : w = true -> set_at wflagged i prev = wflagged.
Proof.
  intros Ew. destruct (Hw Ew) as (Hi1 & _). apply set_at_self. unfold wflagged. rewrite get_set_at.
  destruct (N.eqb_spec i (i - 1)); [lia|exact Hri0].
Qed.

Lemma winvrow_prev0 : winvrow prev 0.
Proof. split; auto. intros k Hk. lia. Qed.

Lemma dw_init fc0 pfc0 : get sc 0 = Some fc0 -> get pcs 0 = Some pfc0 ->
  exists pro,
    (if w && negb pw && cell_eqb fc0 pfc0 then
       do r1 <- add16 (er west0) 1;
       if r1 =? i then do lim <- sub16 cols (wide_n pfc0); Ok (lim <=? ec west0) else Ok false
     else Ok false) = Ok pro /\
    let e1 := if pro then
                let e' := e_attrs west0 (cattrs fc0) in
                let need_erase := negb (has_contents pfc0) in
                let txt := if need_erase then [32] else ctext pfc0 in
                e_pos (e_out e' ([TChars txt; t_bs] ++ (if cwide pfc0 then [t_bs] else [])
                                 ++ (if need_erase then t_erase_char 1 else []))) i 0
              else west0 in
    winv 0 false e1 /\ wtail 0 false e1.
Proof.
  intros G0 GP0. destruct dw_dims as [D1 D2]. unfold MAXDIM in *.
  pose proof (cv_r _ _ _ _ Hcv0) as Hr0. pose proof (cv_c _ _ _ _ Hcv0) as Hc0.
  assert (forall e, wtail 0 false e) as T0 by (intros e _ _ H; lia).
  (* the state when the block does not fire *)
  assert ((w = true -> wrapped rprev = true \/ (r0 + 1 = i /\ c0 = cols /\ get sc 0 <> get pcs 0)) ->
          winv 0 false west0) as Hplain.
  { intros Hst. exists prev.
    assert (wLof west0 = l0) as EL.
    { unfold wLof, west0. cbn [er]. destruct (Bool.bool_dec w true) as [Ew|Ew].
      - destruct (Hst Ew) as [Ef|(E & _)].
        + rewrite (wflagged_same Ew Ef). destruct (w && (r0 =? i)); reflexivity.
        + destruct (N.eqb_spec r0 i); [lia|]. now rewrite andb_false_r.
      - apply Bool.not_true_is_false in Ew. now rewrite Ew. }
    rewrite EL, (set_at_self _ _ _ Hri0). unfold bnd, wrun_ok, west0. cbn [eout er ec eattrs eerase].
    split; [apply plays_nil|]. split; [exact Hcv0|]. split; [exact winvrow_prev0|]. split; [exact Hpen0|].
    split; [exact I|]. split; [apply (ok_first _ (sr_ok _ _ Hsrc))|]. split; [lia|]. split; [discriminate|].
    intros Ew. destruct (Hst Ew) as [?|(E1 & E2 & E3)]; [now left|]. right. right. auto. }
  destruct (w && negb pw && cell_eqb fc0 pfc0) eqn:Econd.
  2:{ exists false. split; [reflexivity|]. cbv zeta. split; [|apply T0]. apply Hplain.
      intros Ew. destruct (Hw Ew) as (_ & _ & _ & [Ef|(E1 & E2 & E3)]); [now left|]. right.
      split; [exact E1|]. split; [exact E2|].
      destruct (Bool.bool_dec pw true) as [Epw|Epw]; [now apply E3|].
      apply Bool.not_true_is_false in Epw. rewrite Ew, Epw in Econd. cbn [andb negb] in Econd.
      intros Eq. rewrite G0, GP0 in Eq. injection Eq as Eq'. rewrite Eq' in Econd.
      rewrite (proj2 (cell_eqb_eq pfc0 pfc0) eq_refl) in Econd. discriminate. }
  apply andb_prop in Econd as [Econd Eeq]. apply andb_prop in Econd as [Ew Epw].
  apply cell_eqb_eq in Eeq. subst pfc0. apply negb_true_iff in Epw.
  cbn [er ec west0]. rewrite add16_ok by lia. cbn [bind].
  destruct (N.eqb_spec (r0 + 1) i) as [E1|N1].
  2:{ exists false. split; [reflexivity|]. cbv zeta. split; [|apply T0]. apply Hplain.
      intros _. destruct (Hw Ew) as (_ & _ & _ & [Ef|(E1 & _)]); [now left|lia]. }
  rewrite sub16_ok by (unfold wide_n; destruct (cwide fc0); lia). cbn [bind].
  destruct (N.leb_spec (cols - wide_n fc0) c0) as [Hlim|Hlim].
  2:{ exists false. split; [reflexivity|]. cbv zeta. split; [|apply T0]. apply Hplain.
      intros _. destruct (Hw Ew) as (_ & _ & _ & [Ef|(_ & E2 & _)]); [now left|]. unfold wide_n in Hlim. destruct (cwide fc0); lia. }
  (* the block fires *)
  exists true. split; [reflexivity|]. cbv zeta. split; [|apply T0].
  destruct (dw_src_get 0 ltac:(lia)) as (c & Gc & Wc & Cc & Pc). rewrite G0 in Gc. injection Gc as ->.
  assert (ccont c = false) as Kc by (rewrite <- (fc_get _ _ _ G0); apply (ok_first _ (sr_ok _ _ Hsrc))).
  destruct (Hw Ew) as (Hi1 & Gp & (lc & Hlc & Occ) & _).
  assert (r0 = i - 1) as Er0 by lia.
  assert (get l0 r0 = Some rprev) as G1 by (rewrite Er0; exact Gp).
  assert (get l0 (r0 + 1) = Some prev) as G2 by (rewrite E1; exact Hri0).
  assert (fc pcs 0 = false) as FP0 by apply (ok_first _ (sr_ok _ _ Hprev)).
  pose proof (adv_fits _ _ _ (sr_ok _ _ Hsrc) G0) as Hfit. rewrite (sr_len _ _ Hsrc) in Hfit.
  pose proof (adv_n_le c) as Hadv.
  assert (cols < c0 + adv_n c) as Hover by (unfold wide_n, adv_n in *; destruct (cwide c); lia).
  destruct (eout_e_attrs_plays R l0 r0 c0 west0 (cattrs c) Pc) as (ts1 & Eo1 & Sc1 & P1 & Ea1).
  cbn [eout eattrs west0 app] in Eo1, P1. rewrite Ea1 in P1.
  assert (forall rwx, set_at (set_at l0 r0 (row_wrap true rprev)) (r0 + 1) rwx = set_at wflagged i rwx) as ESet.
  { intros rwx. rewrite E1, Er0. reflexivity. }
  pose proof (cv_get _ _ _ _ i Hcv0 Hi) as (pr & Gpr & Okpr & Wpr). rewrite Hri0 in Gpr. injection Gpr as <-.
  (* the net effect: the receiver's row i-1 is flagged, row i is unchanged, cursor at (i, 0), pen = cattrs c *)
  assert (exists toks, eout (e_attrs west0 (cattrs c)) ++ toks =
             eout (e_attrs west0 (cattrs c)) ++ ([TChars (if negb (has_contents c) then [32] else ctext c); t_bs]
               ++ (if cwide c then [t_bs] else []) ++ (if negb (has_contents c) then t_erase_char 1 else [])) /\
            plays (rcv R l0 r0 c0 (cattrs c)) toks (rcv R wflagged i 0 (cattrs c)) /\ cv R wflagged i 0)
    as (toks & Etoks & Ptoks & Ctoks).
  { destruct (has_contents c) eqn:Hhc; cbn [negb].
    - destruct (plays_cell_wrap2 R l0 r0 c0 (cattrs c) rprev prev c lc Hcv0 ltac:(lia) G1 G2 Hlc Occ Wc Cc Hhc ltac:(lia) Hover FP0)
        as (prev' & Hpr & Pw).
      rewrite ESet in Pw. rewrite E1 in Pw.
      assert (cv R (set_at wflagged i prev') i (adv_n c)) as Cw.
      { eapply plays_cv; [exact Hcv0|exact Pw|]. apply toks_scalar_chars, (wf_storable _ Wc). }
      destruct (dw_ri_ok wflagged prev' _ _ len_wflagged Cw) as [[Lp' _] _].
      rewrite (print_self prev prev' 0 c Okpr Wpr GP0 Hhc Lp' Hpr) in Pw, Cw.
      rewrite (set_wflagged_i Ew) in Pw, Cw.
      pose proof (plays_bs R wflagged i (adv_n c) (cattrs c) Cw) as Pb1.
      assert (cv R wflagged i (adv_n c - 1)) as Cb1 by (eapply cv_pos; eauto; lia).
      destruct (cwide c) eqn:Ewd.
      + pose proof (plays_bs R wflagged i (adv_n c - 1) (cattrs c) Cb1) as Pb2.
        assert (adv_n c - 1 - 1 = 0) as Ez by (unfold adv_n; rewrite Ewd; lia). rewrite Ez in Pb2.
        eexists; split; [reflexivity|]. split; [|eapply cv_pos; eauto; lia].
        cbn [app]. eapply plays_cons; [exact Pw|]. eapply plays_cons; [exact Pb1|exact Pb2].
      + assert (adv_n c - 1 = 0) as Ez by (unfold adv_n; rewrite Ewd; lia). rewrite Ez in Pb1, Cb1.
        eexists; split; [reflexivity|]. split; [|exact Cb1].
        cbn [app]. eapply plays_cons; [exact Pw|exact Pb1].
    - assert (cwide c = false) as Ewd.
      { destruct Wc as (_ & _ & W3 & _). apply W3. unfold has_contents in Hhc. destruct (ctext c); [reflexivity|discriminate]. }
      pose proof (wf_empty_blank c Wc Hhc Kc) as Eb. rewrite Ewd.
      assert (cols < c0 + adv_n sp_cell) as Hover' by (unfold adv_n in *; rewrite Ewd in Hover; cbn; lia).
      destruct (plays_cell_wrap2 R l0 r0 c0 (cattrs c) rprev prev sp_cell lc Hcv0 ltac:(lia) G1 G2 Hlc Occ
                  sp_cell_wf sp_cell_cap eq_refl ltac:(cbn; lia) Hover' FP0) as (p1 & [T1 T2 T3 T4 T5] & Pw).
      rewrite ESet in Pw. rewrite E1 in Pw. cbn [ctext sp_cell] in Pw. change (adv_n sp_cell) with 1 in *.
      assert (cv R (set_at wflagged i p1) i 1) as Cw.
      { eapply plays_cv; [exact Hcv0|exact Pw|]. apply toks_scalar_chars. constructor; [apply storable_32|constructor]. }
      pose proof (plays_bs R _ i 1 (cattrs c) Cw) as Pb. change (1 - 1) with 0 in Pb.
      assert (cv R (set_at wflagged i p1) i 0) as Cb by (eapply cv_pos; eauto; lia).
      destruct (dw_ri_ok wflagged p1 _ _ len_wflagged Cb) as [Okp1 Wp1].
      destruct (plays_ech R (set_at wflagged i p1) i 0 (cattrs c) 1 p1 Cb (dw_get_i wflagged p1 len_wflagged) Wp1 ltac:(lia))
        as (p2 & [EC EW] & Okp2 & Wp2 & Pe).
      replace (N.min (0 + 1) cols) with 1 in EC, EW by lia. rewrite set_at_set_at in Pe.
      assert (fw (cells p1) 0 = false) as F10 by (unfold fw; rewrite T1; reflexivity).
      assert (forall k, cut (cells p1) 0 1 k = false) as NC.
      { intros k. unfold cut, cut_lo, cut_hi. change (1 - 1) with 0. rewrite F10, !andb_false_r.
        destruct (N.eqb_spec (k + 1) 0); [lia|]. rewrite andb_false_r. reflexivity. }
      assert (p2 = prev) as ->.
      { apply row_ext.
        - apply list_ext_get. intros k. rewrite EC. unfold erased_cell, in_rng. rewrite NC.
          destruct (N.leb_spec 0 k); [|lia]. destruct (N.ltb_spec k 1); cbn [andb].
          + assert (k = 0) as -> by lia. rewrite GP0. f_equal. symmetry. exact Eb.
          + destruct (N.eq_dec k 1) as [->|Nk].
            * change (get (cells p1) (0 + 1) = get (cells prev) (0 + 1)). apply T4. change (0 + 1 - 1) with 0.
              now rewrite (fw_get _ _ _ GP0).
            * apply T3. lia.
        - rewrite EW. unfold blanked. rewrite NC, orb_false_r. unfold in_rng.
          destruct T5 as [E5|(_ & E5 & _)]; [|discriminate].
          destruct (N.leb_spec 0 (cols - 1)); [|lia]. destruct (N.ltb_spec (cols - 1) 1); cbn [andb]; [|exact E5].
          (* one column: the row cannot be flagged, its only cell is empty *)
          destruct (wrapped prev) eqn:Ewp; [|reflexivity]. exfalso.
          destruct (Hpwi Ewp) as (x & Hx & Ho). rewrite (sr_len _ _ Hprev) in Hx.
          replace (cols - 1) with 0 in Hx by lia. rewrite GP0 in Hx. injection Hx as <-. destruct Ho; congruence. }
      assert (cv R (set_at wflagged i prev) i 0) as Ce
        by (eapply plays_cv; [exact Cb|exact Pe|apply erase_toks_scalar]).
      rewrite (set_wflagged_i Ew) in Pe, Ce.
      eexists; split; [reflexivity|]. split; [|exact Ce].
      cbn [app]. eapply plays_cons; [exact Pw|]. eapply plays_cons; [exact Pb|exact Pe]. }
  set (e1 := e_pos _ i 0).
  assert (warrived e1) as Ha by (intros _; now right).
  exists prev. rewrite (wLof_arrived e1 Ha). unfold wLfin. rewrite Ew, (set_wflagged_i Ew).
  unfold bnd, wrun_ok. cbn [e1 e_pos e_out eout er ec eattrs eerase]. rewrite eerase_e_attrs, Ea1. cbn [eerase west0].
  split.
  { apply app_inv_head in Etoks. rewrite <- Etoks. rewrite Eo1. eapply plays_app; [exact P1|exact Ptoks]. }
  split; [exact Ctoks|]. split; [exact winvrow_prev0|]. split; [exact Pc|]. split; [exact I|].
  split; [apply (ok_first _ (sr_ok _ _ Hsrc))|]. split; [lia|]. split; [discriminate|]. intros _. right. now left.
Qed.

Lemma dw_zip_seg k : k < len (window 0 cols (zip sc pcs)) ->
  exists c p, get (window 0 cols (zip sc pcs)) k = Some (c, p) /\ get sc (0 + k) = Some c /\ get pcs (0 + k) = Some p.
Proof.
  intros Hk. destruct (get_lt_some _ _ Hk) as ([c p] & G). exists c, p. split; [exact G|].
  apply get_window in G. now apply get_zip in G.
Qed.

Lemma dw_len_window : len (window 0 cols (zip sc pcs)) = cols.
Proof. unfold window. rewrite len_firstnN, len_skipnN, len_zip', (sr_len _ _ Hsrc), (sr_len _ _ Hprev). lia. Qed.

(* ------------------------------------------------------------------ *)
(* the row painter with carries                                         *)
(* ------------------------------------------------------------------ *)
(* Afterwards the receiver's row i-1 is flagged when w = true; row i has src's cells; its flag is
   clear when src is not flagged; when src is flagged it is set, or it is clear and the cursor
   waits in the pending-wrap column of row i (and if prev was flagged too, that is because prev
   has a wide character at column cols-2 where src has no contents) *)
Theorem row_diff_wrap :
  exists ts r1 c1 a1 ri,
    row_diff src prev 0 cols i w pw (r0, c0) a0 = Ok (ts, (r1, c1), a1) /\
    plays (rcv R l0 r0 c0 a0) ts (rcv R (set_at wLfin i ri) r1 c1 a1) /\
    cv R (set_at wLfin i ri) r1 c1 /\ pen_ok a1 /\ cells ri = sc /\
    (wrapped src = false -> wrapped ri = false) /\
    (wrapped src = true -> wrapped ri = true \/
       (wrapped ri = false /\ r1 = i /\ c1 = cols /\ (wrapped prev = true -> Wcond))).
Proof.
  destruct dw_dims as [D1 D2].
  destruct (dw_src_get 0 ltac:(lia)) as (fc0 & G0 & _).
  destruct (get_lt_some pcs 0) as (pfc0 & GP0); [rewrite (sr_len _ _ Hprev); lia|].
  unfold row_diff. unfold row_cols. rewrite (sr_len _ _ Hsrc).
  unfold row_get. rewrite G0, GP0. cbn [fst snd]. fold west0.
  destruct (dw_init fc0 pfc0 G0 GP0) as (pro & -> & Hinv1 & Ht1). cbn [bind]. cbv zeta in Hinv1, Ht1.
  match type of Hinv1 with winv 0 false ?e => set (e1 := e) in * end.
  destruct (dw_emit_loop (window 0 cols (zip sc pcs)) 0 false e1 Hinv1 Ht1) as (e2 & pw' & -> & Hinv2 & Ht2).
  { intros k Hk. now apply dw_zip_seg. }
  { rewrite dw_len_window. lia. }
  cbn [bind]. rewrite dw_len_window in Hinv2, Ht2. replace (0 + cols) with cols in * by lia.
  assert (pw' = false) as ->.
  { destruct Hinv2 as (ri & _ & _ & _ & _ & _ & Hfc & _). rewrite <- Hfc. apply fc_out. rewrite (sr_len _ _ Hsrc). lia. }
  destruct (dw_finish e2 Hinv2 Ht2) as (e3 & ri & -> & P3 & C3 & Pa3 & Hd & Ha3 & Hlast).
  cbn [bind].
  destruct dw_last_cell as (lc & plc & Glc & Gplc).
  destruct (Bool.eqb (wrapped src) (wrapped prev)) eqn:Eflags; cbn [negb].
  - (* flags agree: no repair *)
    apply eqb_prop in Eflags. cbn [bind].
    exists (eout e3), (er e3), (ec e3), (eattrs e3), ri.
    split; [reflexivity|]. split; [exact P3|]. split; [exact C3|]. split; [exact Pa3|]. split; [exact (wd_cells _ Hd)|].
    split.
    + intros Ews. destruct (wd_flag _ Hd) as [E|[E _]]; congruence.
    + intros Ews. destruct (wd_flag _ Hd) as [E|[E Hwc]]; [left; congruence|]. right.
      specialize (Hwc Ews). split; [exact E|].
      assert (er e3 = i /\ ec e3 = cols) as [-> ->]; [|auto].
      destruct Hwc as (H2 & Hfw & Hnc).
      (* prev's last cell is a second half, src's is not: they differ, and src's has contents *)
      assert (ccont plc = true) as Kp.
      { rewrite <- (fc_get _ _ _ Gplc). replace (cols - 1) with (cols - 2 + 1) by lia.
        rewrite <- (ok_pair _ (sr_ok _ _ Hprev)). exact Hfw. }
      assert (ccont lc = false) as Kl.
      { rewrite <- (fc_get _ _ _ Glc). replace (cols - 1) with (cols - 2 + 1) by lia.
        rewrite <- (ok_pair _ (sr_ok _ _ Hsrc)).
        destruct (dw_src_get (cols - 2) ltac:(lia)) as (x & Gx & Wx & _). rewrite (fw_get _ _ _ Gx).
        destruct (cwide x) eqn:Ex; [|reflexivity]. pose proof (Hnc x Gx) as Hn.
        rewrite (wf_wide_has_contents _ Wx Ex) in Hn. discriminate Hn. }
      destruct (Hswi Ews) as (x & Hx & Ho). rewrite (sr_len _ _ Hsrc), Glc in Hx. injection Hx as <-.
      destruct (Hlast lc plc Glc Gplc) as [E'|[E'|[(_ & E1 & E2)|E']]]; [congruence|congruence|auto|].
      rewrite E' in Ho. destruct Ho; discriminate.
  - (* flags differ: the repair block *)
    apply eqb_false_iff in Eflags.
    destruct (dw_repair e3 ri Eflags P3 C3 Pa3 Hd Ha3 Hlast) as (e4 & ri' & E4 & P4 & C4 & Pa4 & Ec4 & U4 & Hpos).
    cbv zeta in E4. cbv zeta. rewrite E4. cbn [bind].
    exists (eout e4), (er e4), (ec e4), (eattrs e4), ri'.
    split; [reflexivity|]. split; [exact P4|]. split; [exact C4|]. split; [exact Pa4|]. split; [exact Ec4|].
    split; [auto|]. intros Ews. right. destruct (Hpos Ews) as [-> ->].
    split; [exact U4|]. split; [reflexivity|]. split; [reflexivity|].
    intros Ewp. exfalso. apply Eflags. congruence.
Qed.

End DiffWrap.
