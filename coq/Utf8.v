(* Utf8.v — char::encode_utf8, char::len_utf8 and core::str::from_utf8's
   error reporting (valid_up_to, error_len), modelled after
   core::str::validations::run_utf8_validation. *)
Require Import Base.

Definition is_scalar (c : N) : bool :=
  (c <? 55296) || ((57343 <? c) && (c <=? 1114111)).

Definition utf8_len (c : N) : N :=
  if c <? 128 then 1 else if c <? 2048 then 2 else if c <? 65536 then 3 else 4.

Definition utf8_encode (c : N) : list N :=
  if c <? 128 then [c]
  else if c <? 2048 then [192 + c / 64; 128 + c mod 64]
  else if c <? 65536 then [224 + c / 4096; 128 + (c / 64) mod 64; 128 + c mod 64]
  else [240 + c / 262144; 128 + (c / 4096) mod 64; 128 + (c / 64) mod 64; 128 + c mod 64].

Definition encode_str (cs : list N) : list N := flat_map utf8_encode cs.

Definition is_cont (b : N) : bool := (128 <=? b) && (b <=? 191).

(* result of looking at the first character of a byte string *)
Inductive dec1 :=
| DChar (c : N) (n : N)     (* a valid scalar value using n bytes *)
| DErr (n : N)              (* invalid: error_len = Some n *)
| DIncomplete               (* input ends inside the sequence: error_len = None *)
| DEnd.                     (* empty input *)

Definition in_range (lo hi b : N) : bool := (lo <=? b) && (b <=? hi).

(* second-byte check of 3-byte sequences *)
Definition ok3 (first b : N) : bool :=
  if first =? 224 then in_range 160 191 b
  else if in_range 225 236 first then in_range 128 191 b
  else if first =? 237 then in_range 128 159 b
  else if in_range 238 239 first then in_range 128 191 b
  else false.

(* second-byte check of 4-byte sequences *)
Definition ok4 (first b : N) : bool :=
  if first =? 240 then in_range 144 191 b
  else if in_range 241 243 first then in_range 128 191 b
  else if first =? 244 then in_range 128 143 b
  else false.

Definition decode1 (bs : list N) : dec1 :=
  match bs with
  | [] => DEnd
  | b0 :: r =>
    if b0 <? 128 then DChar b0 1
    else if in_range 194 223 b0 then
      match r with
      | [] => DIncomplete
      | b1 :: _ => if is_cont b1 then DChar ((b0 - 192) * 64 + (b1 - 128)) 2 else DErr 1
      end
    else if in_range 224 239 b0 then
      match r with
      | [] => DIncomplete
      | b1 :: r1 =>
        if ok3 b0 b1 then
          match r1 with
          | [] => DIncomplete
          | b2 :: _ =>
            if is_cont b2 then DChar ((b0 - 224) * 4096 + (b1 - 128) * 64 + (b2 - 128)) 3
            else DErr 2
          end
        else DErr 1
      end
    else if in_range 240 244 b0 then
      match r with
      | [] => DIncomplete
      | b1 :: r1 =>
        if ok4 b0 b1 then
          match r1 with
          | [] => DIncomplete
          | b2 :: r2 =>
            if is_cont b2 then
              match r2 with
              | [] => DIncomplete
              | b3 :: _ =>
                if is_cont b3 then
                  DChar ((b0 - 240) * 262144 + (b1 - 128) * 4096 + (b2 - 128) * 64 + (b3 - 128)) 4
                else DErr 3
              end
            else DErr 2
          end
        else DErr 1
      end
    else DErr 1
  end.

(* from_utf8 on a whole slice: the decoded valid prefix, the number of bytes it
   used (valid_up_to), and how it stopped. *)
Inductive utf8_stop := UOk | UErr (n : N) | UPartial.

Fixpoint from_utf8_fuel (fuel : nat) (bs : list N) (acc : list N) (used : N)
  : list N * N * utf8_stop :=
  match fuel with
  | O => (rev acc, used, UOk)
  | S fuel =>
    match decode1 bs with
    | DEnd => (rev acc, used, UOk)
    | DChar c n => from_utf8_fuel fuel (skipnN n bs) (c :: acc) (used + n)
    | DErr n => (rev acc, used, UErr n)
    | DIncomplete => (rev acc, used, UPartial)
    end
  end.

Definition from_utf8 (bs : list N) : list N * N * utf8_stop :=
  from_utf8_fuel (S (length bs)) bs [] 0.
