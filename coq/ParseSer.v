(* ParseSer.v — the parse–serialize lemma: the bytes produced by [ser_all]
   re-parse (vte [advance]) to exactly the intended actions. *)
Require Import Tac Utf8 Vte Term Utf8Lemmas VteInv VteChunk.
Open Scope N_scope.

(* ------------------------------------------------------------------ *)
(* UTF-8 round trip                                                    *)
(* ------------------------------------------------------------------ *)

Lemma utf8_encode_len c : len (utf8_encode c) = utf8_len c.
Proof.
  unfold utf8_encode, utf8_len.
  destruct (c <? 128); [reflexivity|].
  destruct (c <? 2048); [reflexivity|].
  destruct (c <? 65536); reflexivity.
Qed.

Theorem decode1_encode c rest :
  is_scalar c = true -> decode1 (utf8_encode c ++ rest) = DChar c (utf8_len c).
Proof.
  intros Hs. unfold is_scalar in Hs. unfold utf8_encode, utf8_len.
  destruct (N.ltb_spec c 128) as [H1|H1].
  { cbn [app]. unfold decode1. destruct (N.ltb_spec c 128); [reflexivity|lia]. }
  destruct (N.ltb_spec c 2048) as [H2|H2].
  { cbn [app]. unfold decode1, in_range, is_cont.
    destruct (N.ltb_spec (192 + c / 64) 128); [lia|].
    replace ((194 <=? 192 + c / 64) && (192 + c / 64 <=? 223)) with true by lia.
    replace ((128 <=? 128 + c mod 64) && (128 + c mod 64 <=? 191)) with true by lia.
    f_equal. lia. }
  destruct (N.ltb_spec c 65536) as [H3|H3].
  { cbn [app]. unfold decode1, in_range, is_cont.
    destruct (N.ltb_spec (224 + c / 4096) 128); [lia|].
    replace ((194 <=? 224 + c / 4096) && (224 + c / 4096 <=? 223)) with false by lia.
    replace ((224 <=? 224 + c / 4096) && (224 + c / 4096 <=? 239)) with true by lia.
    replace (ok3 (224 + c / 4096) (128 + (c / 64) mod 64)) with true.
    2:{ unfold ok3, in_range.
        repeat match goal with |- context[if ?x then _ else _] => destruct x eqn:? end; lia. }
    replace ((128 <=? 128 + c mod 64) && (128 + c mod 64 <=? 191)) with true by lia.
    f_equal. lia. }
  cbn [app]. unfold decode1, in_range, is_cont.
  destruct (N.ltb_spec (240 + c / 262144) 128); [lia|].
  replace ((194 <=? 240 + c / 262144) && (240 + c / 262144 <=? 223)) with false by lia.
  replace ((224 <=? 240 + c / 262144) && (240 + c / 262144 <=? 239)) with false by lia.
  replace ((240 <=? 240 + c / 262144) && (240 + c / 262144 <=? 244)) with true by lia.
  replace (ok4 (240 + c / 262144) (128 + (c / 4096) mod 64)) with true.
  2:{ unfold ok4, in_range.
      repeat match goal with |- context[if ?x then _ else _] => destruct x eqn:? end; lia. }
  replace ((128 <=? 128 + (c / 64) mod 64) && (128 + (c / 64) mod 64 <=? 191)) with true by lia.
  replace ((128 <=? 128 + c mod 64) && (128 + c mod 64 <=? 191)) with true by lia.
  f_equal. lia.
Qed.

(* ------------------------------------------------------------------ *)
(* itoa round trip                                                     *)
(* ------------------------------------------------------------------ *)

Definition parse_digits (ds : list N) (acc : N) : N :=
  fold_left (fun a d => sat_add16 (sat_mul16 a 10) (d - 48)) ds acc.

Definition is_digit (d : N) : Prop := 48 <= d <= 57.

Lemma parse_digits_cons d ds acc :
  parse_digits (d :: ds) acc = parse_digits ds (sat_add16 (sat_mul16 acc 10) (d - 48)).
Proof. reflexivity. Qed.

Lemma digits_parse fuel : forall n acc,
  n < 10 ^ N.of_nat fuel -> n <= 65535 ->
  parse_digits (digits fuel n acc) 0 = parse_digits acc n.
Proof.
  induction fuel as [|fuel IH]; intros n acc Hf Hn.
  - cbn [digits]. change (10 ^ N.of_nat 0) with 1 in Hf. f_equal. lia.
  - cbn [digits].
    rewrite Nat2N.inj_succ, N.pow_succ_r' in Hf.
    destruct (N.ltb_spec n 10) as [H10|H10].
    + rewrite parse_digits_cons. f_equal.
      unfold sat_add16, sat_mul16, U16MAX. lia.
    + rewrite IH by lia.
      rewrite parse_digits_cons. f_equal.
      unfold sat_add16, sat_mul16, U16MAX. lia.
Qed.

Lemma digits_forall fuel : forall n acc,
  Forall is_digit acc -> Forall is_digit (digits fuel n acc).
Proof.
  induction fuel as [|fuel IH]; intros n acc Ha; cbn [digits]; [exact Ha|].
  destruct (N.ltb_spec n 10) as [H10|H10].
  - constructor; [unfold is_digit; lia|exact Ha].
  - apply IH. constructor; [unfold is_digit; lia|exact Ha].
Qed.

Lemma digits_nonnil fuel : forall n acc,
  (fuel <> 0)%nat \/ acc <> [] -> digits fuel n acc <> [].
Proof.
  induction fuel as [|fuel IH]; intros n acc H; cbn [digits].
  - destruct H as [H|H]; [congruence|exact H].
  - destruct (n <? 10); [discriminate|]. apply IH. right. discriminate.
Qed.

Theorem itoa_parse n : n <= 65535 -> parse_digits (itoa n) 0 = n.
Proof.
  intros Hn. unfold itoa. rewrite digits_parse; [reflexivity| |exact Hn].
  assert (E : 65535 < 10 ^ N.of_nat 20) by (vm_compute; reflexivity). lia.
Qed.

Theorem itoa_digits n : Forall is_digit (itoa n).
Proof. apply digits_forall. constructor. Qed.

Theorem itoa_nonnil n : itoa n <> [].
Proof. apply digits_nonnil. left. discriminate. Qed.

(* ------------------------------------------------------------------ *)
(* Definitions of the statement                                        *)
(* ------------------------------------------------------------------ *)

Definition csi_params (ps : list N) : list (list N) :=
  match ps with [] => [[0]] | _ => map (fun x => [x]) ps end.

Definition acts_of (t : token) : list action :=
  match t with
  | TCsi priv ps f => [ACsi (csi_params ps) (if priv then [63] else []) false f]
  | TEsc f => [AEsc [] false f]
  | TCtl b => [AExecute b]
  | TChars cs => map APrint cs
  end.

(* printable: a scalar value that is neither C0 nor C1 (DEL is allowed) *)
Definition char_ok (c : N) : bool :=
  is_scalar c && (32 <=? c) && negb ((128 <=? c) && (c <? 160)).

Definition token_ok (t : token) : bool :=
  match t with
  | TCsi _ ps f => (len ps <=? 16) && forallb (fun x => x <=? 65535) ps && (64 <=? f) && (f <=? 126)
  | TEsc f => (48 <=? f) && (f <=? 126) && negb (f =? 80) && negb (f =? 88) && negb (f =? 91)
              && negb (f =? 93) && negb (f =? 94) && negb (f =? 95)
  | TCtl b => (b <=? 31) && negb (b =? 27) && negb (b =? 24) && negb (b =? 26)
  | TChars cs => forallb char_ok cs
  end.

(* the weakest side conditions under which the result holds in this model:
   up to MAX_PARAMS = 32 parameters, and every C0 control except ESC *)
Definition token_okw (t : token) : bool :=
  match t with
  | TCsi _ ps f => (len ps <=? 32) && forallb (fun x => x <=? 65535) ps && (64 <=? f) && (f <=? 126)
  | TEsc f => (48 <=? f) && (f <=? 126) && negb (f =? 80) && negb (f =? 88) && negb (f =? 91)
              && negb (f =? 93) && negb (f =? 94) && negb (f =? 95)
  | TCtl b => (b <=? 31) && negb (b =? 27)
  | TChars cs => forallb char_ok cs
  end.

Definition ground (p : pstate) : Prop := vst p = Ground /\ partial p = [] /\ pwf p.

Lemma token_ok_okw t : token_ok t = true -> token_okw t = true.
Proof.
  destruct t as [priv ps f|f|b|cs]; cbn [token_ok token_okw]; intros H; try exact H.
  - destruct (forallb (fun x => x <=? 65535) ps); lia.
  - lia.
Qed.

Lemma ground_init : ground p_init.
Proof. split; [reflexivity|]. split; [reflexivity|]. apply pwf_init. Qed.

(* ------------------------------------------------------------------ *)
(* States met while parsing serialized tokens                          *)
(* ------------------------------------------------------------------ *)

Definition C (v : vstate) (iv : list N) (gs : list (list N)) (par : N) : pstate :=
  mkP v iv false gs [] par [] [] [].

Lemma ground_C iv gs par : ground (C Ground iv gs par).
Proof.
  split; [reflexivity|]. split; [reflexivity|].
  split; cbn; intros; try discriminate; try congruence; auto.
Qed.

Lemma enter_escape_ground p : ground p -> enter_escape p = C Escape [] [] 0.
Proof.
  intros (Hv & Hp & Hw).
  destruct (pwf_osc p Hw) as [Ho1 Ho2]; [congruence|].
  unfold enter_escape, reset_params, set_vst, C. cbn [vst osc_raw osc_params partial].
  rewrite Hp, Ho1, Ho2. reflexivity.
Qed.

Lemma advance_run p bs : partial p = [] -> advance p bs = run p bs.
Proof. intros Hp. unfold advance, run. rewrite Hp. reflexivity. Qed.

Lemma cat_app a b X : cat (a ++ b) X = cat a (cat b X).
Proof. symmetry. apply cat_cat. Qed.

(* decide the byte-class tests of a transition function *)
Ltac ifs :=
  repeat match goal with
  | |- context[if ?c then _ else _] =>
    first [ replace c with true by (unfold c0x, rng; lia)
          | replace c with false by (unfold c0x, rng; lia) ];
    cbv iota
  end.

Lemma run_step p b bs q a :
  vst p <> Ground -> change_state p b = (q, a) -> run p (b :: bs) = cat a (run q bs).
Proof. intros Hg E. rewrite run_nonground by exact Hg. rewrite E. reflexivity. Qed.

(* ---------- ESC final ---------- *)

Lemma cs_esc_final f :
  token_okw (TEsc f) = true ->
  change_state (C Escape [] [] 0) f = (C Ground [] [] 0, [AEsc [] false f]).
Proof.
  cbn [token_okw]. intros H.
  unfold change_state, C. cbn [vst]. unfold adv_esc. ifs.
  destruct (N.leb_spec f 79);
  destruct (N.leb_spec f 87);
  destruct (N.leb_spec f 90);
  destruct (N.eqb_spec f 92); ifs; reflexivity.
Qed.

Lemma run_tesc p f rest :
  ground p -> token_okw (TEsc f) = true ->
  run p (ser (TEsc f) ++ rest) = cat (acts_of (TEsc f)) (run (C Ground [] [] 0) rest).
Proof.
  intros Hg Hok. cbn [ser app acts_of].
  rewrite run_esc by exact (proj1 Hg). rewrite (enter_escape_ground p Hg).
  apply run_step; [discriminate|]. apply cs_esc_final. exact Hok.
Qed.

(* ---------- C0 controls ---------- *)

Lemma run_tctl p b rest :
  ground p -> token_okw (TCtl b) = true ->
  run p (ser (TCtl b) ++ rest) = cat (acts_of (TCtl b)) (run p rest).
Proof.
  intros Hg Hok. cbn [token_okw] in Hok. cbn [ser app acts_of].
  assert (D : decode1 (b :: rest) = DChar b 1).
  { unfold decode1. destruct (N.ltb_spec b 128); [reflexivity|lia]. }
  rewrite (run_char p (b :: rest) b 1 (proj1 Hg) D) by (cbn [hd]; lia).
  change (skipnN 1 (b :: rest)) with rest.
  unfold ground_action. replace ((b <=? 31) || rng 128 159 b) with true by lia.
  reflexivity.
Qed.

(* ---------- text ---------- *)

Lemma char_ok_spec c : char_ok c = true ->
  is_scalar c = true /\ 32 <= c /\ (c < 128 \/ 160 <= c).
Proof.
  unfold char_ok. intros H.
  destruct (is_scalar c); [|discriminate]. split; [reflexivity|]. lia.
Qed.

Lemma run_tchars cs : forall p rest,
  vst p = Ground -> forallb char_ok cs = true ->
  run p (encode_str cs ++ rest) = cat (map APrint cs) (run p rest).
Proof.
  induction cs as [|c cs IH]; intros p rest Hg Hok.
  - cbn [encode_str flat_map app map]. rewrite cat_nil. reflexivity.
  - cbn [forallb] in Hok. apply andb_prop in Hok. destruct Hok as [Hc Hcs].
    apply char_ok_spec in Hc. destruct Hc as (Hs & H32 & H160).
    unfold encode_str. cbn [flat_map]. fold (encode_str cs). rewrite <- app_assoc.
    pose proof (decode1_encode c (encode_str cs ++ rest) Hs) as D.
    pose proof (decode1_char_inv _ _ _ D) as (I1 & I2 & I3 & I4 & I5).
    rewrite (run_char p _ c (utf8_len c) Hg D).
    2:{ destruct I5 as [(_ & I5 & _)|(_ & _ & I5 & _)]; lia. }
    rewrite skipnN_app_ge by (rewrite utf8_encode_len; lia).
    rewrite utf8_encode_len, N.sub_diag, skipnN_0.
    rewrite (IH p rest Hg Hcs). cbn [map]. rewrite cat_cat. cbn [app].
    unfold ground_action, rng.
    replace ((c <=? 31) || (128 <=? c) && (c <=? 159)) with false by lia.
    reflexivity.
Qed.

Lemma run_ttchars p cs rest :
  ground p -> token_okw (TChars cs) = true ->
  run p (ser (TChars cs) ++ rest) = cat (acts_of (TChars cs)) (run p rest).
Proof. intros Hg Hok. apply run_tchars; [exact (proj1 Hg)|exact Hok]. Qed.

(* ---------- CSI ---------- *)

Definition single (x : N) : list N := [x].

Lemma len_concat_single l : len (concat (map single l)) = len l.
Proof.
  induction l as [|x l IH]; [reflexivity|].
  cbn [map concat single app]. rewrite !len_cons, IH. reflexivity.
Qed.

Lemma cs_esc_bracket : change_state (C Escape [] [] 0) 91 = (C CsiEntry [] [] 0, []).
Proof. vm_compute. reflexivity. Qed.

Lemma cs_entry_priv : change_state (C CsiEntry [] [] 0) 63 = (C CsiParam [63] [] 0, []).
Proof. vm_compute. reflexivity. Qed.

Definition csi_v (v : vstate) : Prop := v = CsiEntry \/ v = CsiParam.

Lemma csi_v_ng v iv gs par : csi_v v -> vst (C v iv gs par) <> Ground.
Proof. intros [-> | ->]; discriminate. Qed.

Lemma cs_digit v iv gs par d :
  csi_v v -> len (concat gs) < 32 -> is_digit d ->
  change_state (C v iv gs par) d =
  (C CsiParam iv gs (sat_add16 (sat_mul16 par 10) (d - 48)), []).
Proof.
  intros Hv Hl Hd. unfold is_digit in Hd.
  destruct Hv as [-> | ->]; unfold change_state, C; cbn [vst];
    unfold adv_csi_entry, adv_csi_param; ifs;
    unfold action_paramnext, params_full, plen, MAX_PARAMS;
    cbn [groups opn vst inter ignoring param osc_raw osc_params partial];
    rewrite len_nil; ifs; reflexivity.
Qed.

Lemma cs_semi iv gs par :
  len (concat gs) < 32 ->
  change_state (C CsiParam iv gs par) 59 = (C CsiParam iv (gs ++ [[par]]) 0, []).
Proof.
  intros Hl. unfold change_state, C; cbn [vst]. unfold adv_csi_param; ifs.
  unfold action_param, params_full, plen, MAX_PARAMS, push_param;
    cbn [groups opn vst inter ignoring param osc_raw osc_params partial];
    rewrite len_nil; ifs. reflexivity.
Qed.

Lemma cs_final v iv gs par f :
  csi_v v -> len (concat gs) < 32 -> 64 <= f <= 126 ->
  change_state (C v iv gs par) f =
  (C Ground iv (gs ++ [[par]]) par, [ACsi (gs ++ [[par]]) iv false f]).
Proof.
  intros Hv Hl Hf.
  destruct Hv as [-> | ->]; unfold change_state, C; cbn [vst];
    unfold adv_csi_entry, adv_csi_param; ifs;
    unfold csi_dispatch, params_full, plen, MAX_PARAMS, push_param, params_of, set_vst;
    cbn [groups opn vst inter ignoring param osc_raw osc_params partial];
    rewrite len_nil; ifs;
    cbn [groups opn vst inter ignoring param osc_raw osc_params partial app];
    rewrite app_nil_r; reflexivity.
Qed.

(* a run of digits in CsiParam *)
Lemma run_digits_param ds : forall iv gs par rest,
  len (concat gs) < 32 -> Forall is_digit ds ->
  run (C CsiParam iv gs par) (ds ++ rest) = run (C CsiParam iv gs (parse_digits ds par)) rest.
Proof.
  induction ds as [|d ds IH]; intros iv gs par rest Hl Hd; [reflexivity|].
  inversion Hd as [|d' ds' Hd1 Hd2]; subst.
  cbn [app]. rewrite parse_digits_cons.
  rewrite (run_step (C CsiParam iv gs par) d _ _ _ ltac:(discriminate) (cs_digit CsiParam iv gs par d (or_intror eq_refl) Hl Hd1)).
  rewrite cat_nil. apply IH; assumption.
Qed.

Lemma run_digits v ds iv gs par rest :
  csi_v v -> ds <> [] -> len (concat gs) < 32 -> Forall is_digit ds ->
  run (C v iv gs par) (ds ++ rest) = run (C CsiParam iv gs (parse_digits ds par)) rest.
Proof.
  intros Hv Hne Hl Hd. destruct ds as [|d ds]; [congruence|].
  inversion Hd as [|d' ds' Hd1 Hd2]; subst.
  cbn [app]. rewrite parse_digits_cons.
  rewrite (run_step _ d _ _ _ (csi_v_ng v iv gs par Hv) (cs_digit v iv gs par d Hv Hl Hd1)).
  rewrite cat_nil. apply run_digits_param; assumption.
Qed.

Lemma run_itoa v x iv gs rest :
  csi_v v -> len (concat gs) < 32 -> x <= 65535 ->
  run (C v iv gs 0) (itoa x ++ rest) = run (C CsiParam iv gs x) rest.
Proof.
  intros Hv Hl Hx.
  rewrite (run_digits v (itoa x) iv gs 0 rest Hv (itoa_nonnil x) Hl (itoa_digits x)).
  rewrite itoa_parse by exact Hx. reflexivity.
Qed.

Lemma join_params_cons2 x y r : join_params (x :: y :: r) = itoa x ++ 59 :: join_params (y :: r).
Proof. reflexivity. Qed.

Lemma run_join ps : forall v iv gs f rest,
  ps <> [] -> csi_v v -> len (concat gs) + len ps <= 32 ->
  Forall (fun x => x <= 65535) ps -> 64 <= f <= 126 ->
  run (C v iv gs 0) (join_params ps ++ f :: rest) =
  cat [ACsi (gs ++ map single ps) iv false f]
      (run (C Ground iv (gs ++ map single ps) (last ps 0)) rest).
Proof.
  induction ps as [|x ps IH]; intros v iv gs f rest Hne Hv Hl Hps Hf; [congruence|].
  inversion Hps as [|x' ps' Hx Hps2]; subst.
  rewrite len_cons in Hl.
  destruct ps as [|y r].
  - cbn [join_params map last single].
    rewrite run_itoa by (auto; lia).
    apply run_step; [discriminate|].
    apply cs_final; [right; reflexivity|lia|exact Hf].
  - rewrite join_params_cons2. rewrite <- app_assoc. cbn [app].
    rewrite run_itoa by (auto; lia).
    rewrite (run_step (C CsiParam iv gs x) 59 _ _ _ ltac:(discriminate) (cs_semi iv gs x ltac:(lia))).
    rewrite cat_nil.
    rewrite (IH CsiParam iv (gs ++ [[x]]) f rest ltac:(discriminate) (or_intror eq_refl)); [| |exact Hps2|exact Hf].
    + change (map single (x :: y :: r)) with ([[x]] ++ map single (y :: r)).
      rewrite !app_assoc. reflexivity.
    + rewrite concat_app, len_app. cbn [concat app]. rewrite len_cons, len_nil. lia.
Qed.

Definition csi_end (priv : bool) (ps : list N) : pstate :=
  C Ground (if priv then [63] else []) (csi_params ps) (last ps 0).

Lemma run_tcsi p priv ps f rest :
  ground p -> token_okw (TCsi priv ps f) = true ->
  run p (ser (TCsi priv ps f) ++ rest) =
  cat (acts_of (TCsi priv ps f)) (run (csi_end priv ps) rest).
Proof.
  intros Hg Hok. cbn [token_okw] in Hok.
  apply andb_prop in Hok. destruct Hok as [Hok Hf2].
  apply andb_prop in Hok. destruct Hok as [Hok Hf1].
  apply andb_prop in Hok. destruct Hok as [Hlen Hall].
  assert (Hps : Forall (fun x => x <= 65535) ps).
  { rewrite forallb_forall in Hall. apply Forall_forall. intros x Hx.
    specialize (Hall x Hx). lia. }
  assert (Hf : 64 <= f <= 126) by lia.
  assert (Hl : len ps <= 32) by lia.
  clear Hall Hf1 Hf2 Hlen.
  cbn [ser acts_of]. cbn [app].
  rewrite run_esc by exact (proj1 Hg). rewrite (enter_escape_ground p Hg).
  rewrite (run_step (C Escape [] [] 0) 91 _ _ _ ltac:(discriminate) cs_esc_bracket). rewrite cat_nil.
  unfold csi_end.
  assert (K : forall v iv, csi_v v ->
    run (C v iv [] 0) ((join_params ps ++ [f]) ++ rest) =
    cat [ACsi (csi_params ps) iv false f] (run (C Ground iv (csi_params ps) (last ps 0)) rest)).
  { intros v iv Hv. rewrite <- app_assoc. cbn [app].
    destruct ps as [|x r].
    - cbn [join_params app csi_params last].
      apply run_step; [apply csi_v_ng; exact Hv|].
      apply (cs_final v iv [] 0 f Hv); [cbn [concat]; rewrite (@len_nil N); lia|exact Hf].
    - rewrite (run_join (x :: r) v iv [] f rest ltac:(discriminate) Hv); [reflexivity| |exact Hps|exact Hf].
      cbn [concat]. rewrite (@len_nil N). lia. }
  destruct priv.
  - cbn [app].
    rewrite (run_step (C CsiEntry [] [] 0) 63 _ _ _ ltac:(discriminate) cs_entry_priv). rewrite cat_nil.
    apply K. right. reflexivity.
  - cbn [app]. apply K. left. reflexivity.
Qed.

(* ------------------------------------------------------------------ *)
(* One token followed by arbitrary further bytes, then all tokens      *)
(* ------------------------------------------------------------------ *)

(* the state after parsing [ser t] from a ground state [p] *)
Definition after (p : pstate) (t : token) : pstate :=
  match t with
  | TCsi priv ps _ => csi_end priv ps
  | TEsc _ => C Ground [] [] 0
  | TCtl _ => p
  | TChars _ => p
  end.

Lemma ground_after p t : ground p -> ground (after p t).
Proof. intros Hg. destruct t; cbn [after]; try exact Hg; apply ground_C. Qed.

Theorem run_token p t rest :
  ground p -> token_okw t = true ->
  run p (ser t ++ rest) = cat (acts_of t) (run (after p t) rest).
Proof.
  intros Hg Hok. destruct t as [priv ps f|f|b|cs]; cbn [after].
  - apply run_tcsi; assumption.
  - apply run_tesc; assumption.
  - apply run_tctl; assumption.
  - apply run_ttchars; assumption.
Qed.

Fixpoint after_all (p : pstate) (ts : list token) : pstate :=
  match ts with
  | [] => p
  | t :: ts => after_all (after p t) ts
  end.

Lemma ground_after_all ts : forall p, ground p -> ground (after_all p ts).
Proof.
  induction ts as [|t ts IH]; intros p Hg; cbn [after_all]; [exact Hg|].
  apply IH, ground_after, Hg.
Qed.

Theorem run_tokens ts : forall p rest,
  ground p -> forallb token_okw ts = true ->
  run p (ser_all ts ++ rest) = cat (flat_map acts_of ts) (run (after_all p ts) rest).
Proof.
  induction ts as [|t ts IH]; intros p rest Hg Hok.
  - cbn [ser_all flat_map app after_all]. rewrite cat_nil. reflexivity.
  - cbn [forallb] in Hok. apply andb_prop in Hok. destruct Hok as [Ht Hts].
    unfold ser_all. cbn [flat_map after_all]. fold (ser_all ts).
    rewrite <- app_assoc. rewrite (run_token p t _ Hg Ht).
    rewrite (IH (after p t) rest (ground_after p t Hg) Hts).
    rewrite cat_cat. reflexivity.
Qed.

(* the form suggested in the task: the loop itself, any sufficient fuel *)
Corollary advance_loop_token fuel p t rest acc :
  ground p -> token_okw t = true -> (length (ser t ++ rest) < fuel)%nat ->
  advance_loop fuel p (ser t ++ rest) acc =
  advance_loop (S (length rest)) (after p t) rest (acc ++ acts_of t).
Proof.
  intros Hg Hok Hf.
  rewrite advance_loop_run by exact Hf.
  rewrite (advance_loop_run (S (length rest))) by lia.
  rewrite run_token by assumption. rewrite cat_cat. reflexivity.
Qed.

Lemma forallb_ok_okw ts : forallb token_ok ts = true -> forallb token_okw ts = true.
Proof.
  induction ts as [|t ts IH]; cbn [forallb]; [auto|].
  intros H. apply andb_prop in H. destruct H as [H1 H2].
  rewrite (token_ok_okw t H1), (IH H2). reflexivity.
Qed.

(* ------------------------------------------------------------------ *)
(* Main theorems                                                       *)
(* ------------------------------------------------------------------ *)

Theorem parse_ser_w : forall ts p, ground p -> forallb token_okw ts = true ->
  advance p (ser_all ts) = (after_all p ts, flat_map acts_of ts) /\ ground (after_all p ts).
Proof.
  intros ts p Hg Hok. split; [|apply ground_after_all, Hg].
  rewrite advance_run by exact (proj1 (proj2 Hg)).
  rewrite <- (app_nil_r (ser_all ts)).
  rewrite (run_tokens ts p [] Hg Hok). rewrite run_nil.
  unfold cat. cbn [fst snd]. rewrite app_nil_r. reflexivity.
Qed.

Theorem parse_ser : forall ts p, ground p -> forallb token_ok ts = true ->
  exists q, advance p (ser_all ts) = (q, flat_map acts_of ts) /\ ground q.
Proof.
  intros ts p Hg Hok. exists (after_all p ts).
  apply parse_ser_w; [exact Hg|]. apply forallb_ok_okw, Hok.
Qed.

Corollary parse_ser_app : forall ts1 ts2 p, ground p ->
  forallb token_ok ts1 = true -> forallb token_ok ts2 = true ->
  exists q1 q2,
    advance p (ser_all ts1) = (q1, flat_map acts_of ts1) /\
    advance q1 (ser_all ts2) = (q2, flat_map acts_of ts2) /\ ground q2.
Proof.
  intros ts1 ts2 p Hg H1 H2.
  destruct (parse_ser ts1 p Hg H1) as (q1 & E1 & G1).
  destruct (parse_ser ts2 q1 G1 H2) as (q2 & E2 & G2).
  exists q1, q2. auto.
Qed.

(* serialising in one go or in two chunks gives the same result *)
Corollary parse_ser_concat : forall ts1 ts2 p, ground p ->
  forallb token_ok ts1 = true -> forallb token_ok ts2 = true ->
  exists q1 q2,
    advance p (ser_all ts1) = (q1, flat_map acts_of ts1) /\
    advance q1 (ser_all ts2) = (q2, flat_map acts_of ts2) /\
    advance p (ser_all ts1 ++ ser_all ts2) = (q2, flat_map acts_of ts1 ++ flat_map acts_of ts2) /\
    ground q2.
Proof.
  intros ts1 ts2 p Hg H1 H2.
  pose proof (forallb_ok_okw _ H1) as W1. pose proof (forallb_ok_okw _ H2) as W2.
  destruct (parse_ser_w ts1 p Hg W1) as (E1 & G1).
  destruct (parse_ser_w ts2 _ G1 W2) as (E2 & G2).
  exists (after_all p ts1), (after_all (after_all p ts1) ts2).
  split; [exact E1|]. split; [exact E2|]. split; [|exact G2].
  assert (W : forallb token_okw (ts1 ++ ts2) = true) by (rewrite forallb_app, W1, W2; reflexivity).
  destruct (parse_ser_w (ts1 ++ ts2) p Hg W) as (E & _).
  unfold ser_all in *. rewrite !flat_map_app in E. rewrite E. f_equal.
  clear. revert p. induction ts1 as [|t ts IH]; intros p; cbn [app after_all]; auto.
Qed.
