(* LastRow.v — at every moment the LAST live row of either grid is not flagged as wrapped:
   Grid::col_wrap flags row p only when the cursor lands on row p+1; IL / SD / RI clear the flag of
   the row that arrives at the bottom margin; set_size, clear and erase only clear flags.
   Consequence (C01): at scrollback offset 0 the redraw reproduces the FULL observation. *)
Require Import Tac ListN Utf8 Width Attrs Cell Row Grid Screen Vte Perform Parser.
Require Import Chunking.
Require Import RowInv GridInv TextInv ScreenInv WfGrid WfInv PrintSpec.
Open Scope N_scope.

Definition lastu (l : list row) : Prop := forall r, get l (len l - 1) = Some r -> wrapped r = false.
Definition grid_lastu (x : grid) : Prop := lastu (live x).
Definition screen_lastu (s : screen) : Prop := grid_lastu (g s) /\ grid_lastu (alt s).

(* ---- lists ---- *)
Lemma lastu_nil : lastu [].
Proof. intros r H. discriminate. Qed.

Lemma lastu_all l : Forall (fun r => wrapped r = false) l -> lastu l.
Proof. intros F r H. exact (Forall_get _ _ _ _ F H). Qed.

(* same length, no flag raised *)
Definition flags_le (l l' : list row) : Prop :=
  len l' = len l /\ forall i r r', get l i = Some r -> get l' i = Some r' -> wrapped r' = true -> wrapped r = true.

Lemma lastu_flags_le l l' : lastu l -> flags_le l l' -> lastu l'.
Proof.
  intros H [Hl Hf] r' G. rewrite Hl in G.
  destruct (get l (len l - 1)) as [r|] eqn:E.
  - destruct (wrapped r') eqn:W; [|reflexivity]. rewrite <- (H r E). symmetry. eapply Hf; eauto.
  - apply get_none_ge in E. apply get_some_lt in G. lia.
Qed.

Lemma flags_le_refl l : flags_le l l.
Proof. split; [reflexivity|]. intros i r r' G1 G2. rewrite G1 in G2. inv G2. auto. Qed.

Lemma flags_le_set l i r r' : get l i = Some r -> (wrapped r' = true -> wrapped r = true) -> flags_le l (set_at l i r').
Proof.
  intros G H. split; [apply len_set_at|]. intros k a b Ga Gb Wb. rewrite get_set_at in Gb.
  destruct (N.eqb_spec k i) as [->|].
  - destruct (i <? len l); inv Gb. rewrite G in Ga. inv Ga. auto.
  - rewrite Ga in Gb. inv Gb. exact Wb.
Qed.

(* a flag may be raised anywhere but on the last row *)
Lemma lastu_set_notlast l i r' : lastu l -> i + 1 < len l -> lastu (set_at l i r').
Proof.
  intros H Hi r G. rewrite len_set_at in G. rewrite get_set_at in G.
  destruct (N.eqb_spec (len l - 1) i); [lia|]. now apply H.
Qed.

(* ---- the two rotations ---- *)
(* IL / SD / RI: remove the row at b, insert a fresh row at p, clear the flag at b *)
Lemma lastu_rotate_down x a b l l' : lastu l -> a < len l -> b < len l ->
  (do '(_, l1) <- remove_at l a; do l2 <- insert_at l1 b (new_row x); wrap_false_at l2 a) = Ok l' ->
  lastu l' /\ len l' = len l.
Proof.
  intros H Ha Hb E. binv E as p1 E1. destruct p1 as [rm l1]. binv E as l2 E2.
  apply remove_at_inv in E1 as [G1 ->]. apply insert_at_inv in E2 as [L2 ->].
  unfold wrap_false_at in E. binv E as r Er. inv E. apply idx_inv in Er.
  set (l1 := firstnN a l ++ skipnN (a + 1) l) in *.
  assert (len l1 = len l - 1) as Ll1 by (unfold l1; apply len_remove; exact Ha).
  set (l2 := firstnN b l1 ++ new_row x :: skipnN b l1) in *.
  assert (len l2 = len l) as Ll2 by (unfold l2; rewrite len_insert by lia; lia).
  split; [|rewrite len_set_at; exact Ll2].
  intros r0 G. rewrite len_set_at, Ll2 in G. rewrite get_set_at in G.
  destruct (N.eqb_spec (len l - 1) a) as [Ea|Na].
  - destruct (a <? len l2); inv G. reflexivity.
  - (* a is not the last index: the last row is the old last row or the fresh one *)
    unfold l2 in G. rewrite get_insert in G by lia.
    destruct (N.ltb_spec (len l - 1) b); [lia|].
    destruct (N.eqb_spec (len l - 1) b); [inv G; reflexivity|].
    unfold l1 in G. rewrite get_remove in G by exact Ha.
    destruct (N.ltb_spec (len l - 1 - 1) a); [lia|].
    replace (len l - 1 - 1 + 1) with (len l - 1) in G by lia. now apply H.
Qed.

(* DL / SU / LF: insert a fresh row at b (<= len), remove the row at p (< len) *)
Lemma lastu_rotate_up x b p l l' rm : lastu l -> b <= len l -> p < len l -> 1 <= b ->
  (do l1 <- insert_at l b (new_row x); remove_at l1 p) = Ok (rm, l') ->
  lastu l' /\ len l' = len l.
Proof.
  intros H Hb Hp Hb1 E. binv E as l1 E1. apply insert_at_inv in E1 as [_ ->]. apply remove_at_inv in E as [G ->].
  set (l1 := firstnN b l ++ new_row x :: skipnN b l) in *.
  assert (len l1 = len l + 1) as Ll1 by (unfold l1; apply len_insert; exact Hb).
  split; [|rewrite len_remove by lia; lia].
  intros r0 G0. rewrite len_remove in G0 by lia. rewrite get_remove in G0 by lia. rewrite Ll1 in G0.
  replace (len l + 1 - 1 - 1) with (len l - 1) in G0 by lia.
  destruct (N.ltb_spec (len l - 1) p); [lia|].
  unfold l1 in G0. rewrite get_insert in G0 by exact Hb.
  replace (len l - 1 + 1) with (len l) in G0 by lia.
  destruct (N.ltb_spec (len l) b); [lia|].
  destruct (N.eqb_spec (len l) b); [inv G0; reflexivity|].
  now apply H.
Qed.

(* ---- rows: operations that never raise the flag ---- *)
Definition noraise (f : row -> res row) : Prop := forall rw rw', f rw = Ok rw' -> wrapped rw' = true -> wrapped rw = true.

Lemma clear_wide_flag r i r' : clear_wide r i = Ok r' -> wrapped r' = wrapped r.
Proof.
  unfold clear_wide. intros E. binv E as c Ec. destruct (cwide c).
  - binv E as j Ej. binv E as o Eo. inv E. reflexivity.
  - destruct (ccont c); [binv E as j Ej; binv E as o Eo; inv E; reflexivity|now inv E].
Qed.

Lemma row_erase_noraise i a : noraise (fun r => row_erase r i a).
Proof.
  intros r r' E W. unfold row_erase in E. binv E as c Ec. binv E as r1 E1. binv E as c1 Ec1. binv E as lim El. inv E.
  apply clear_wide_flag in E1. destruct (i =? lim); cbn in W; [discriminate|]. congruence.
Qed.

Lemma for_range_noraise (f : N -> row -> res row) n : (forall i, noraise (f i)) -> forall lo, noraise (for_range n lo f).
Proof.
  intros Hf. induction n as [|n IH]; intros lo rw rw' E W; cbn [for_range] in E; [now inv E|].
  binv E as r1 E1. eapply Hf; eauto. eapply IH; eauto.
Qed.

(* ---- grids ---- *)
Lemma same_cells_lastu x y : same_cells x y -> grid_lastu x -> grid_lastu y.
Proof. intros [E _] H. unfold grid_lastu. now rewrite E. Qed.

Lemma upd_row_lastu x r f y : upd_row x r f = Ok y -> noraise f -> grid_lastu x -> grid_lastu y.
Proof.
  unfold upd_row, drawing_row. intros E Hf H. binv E as rw Erw. apply unwrap_inv in Erw. binv E as rw' Erw'. inv E.
  unfold grid_lastu. cbn [live with_live]. eapply lastu_flags_le; [exact H|]. eapply flags_le_set; eauto.
Qed.

Lemma upd_cell_lastu x r c f y : upd_cell x r c f = Ok y -> grid_lastu x -> grid_lastu y.
Proof.
  unfold upd_cell, drawing_row. intros E H. binv E as rw Erw. apply unwrap_inv in Erw. binv E as cl Ecl. inv E.
  unfold grid_lastu. cbn [live with_live]. eapply lastu_flags_le; [exact H|]. eapply flags_le_set; eauto.
Qed.

Lemma erase_range_upd x a lo n y :
  upd_current_row x (fun rw => for_range n lo (fun col r => row_erase r col a) rw) = Ok y -> grid_lastu x -> grid_lastu y.
Proof.
  intros E H. eapply upd_row_lastu; eauto. apply for_range_noraise. intros i. apply row_erase_noraise.
Qed.

Lemma erase_row_forward_lastu x a y : erase_row_forward x a = Ok y -> grid_lastu x -> grid_lastu y.
Proof. unfold erase_row_forward. apply erase_range_upd. Qed.
Lemma erase_row_backward_lastu x a y : erase_row_backward x a = Ok y -> grid_lastu x -> grid_lastu y.
Proof. unfold erase_row_backward. intros E. binv E as m Em. revert E. apply erase_range_upd. Qed.
Lemma erase_cells_lastu x n a y : erase_cells x n a = Ok y -> grid_lastu x -> grid_lastu y.
Proof. unfold erase_cells. apply erase_range_upd. Qed.
Lemma erase_row_lastu x a y : erase_row x a = Ok y -> grid_lastu x -> grid_lastu y.
Proof.
  unfold erase_row, upd_current_row. intros E H. eapply upd_row_lastu; eauto.
  intros rw rw' Er W. inv Er. discriminate.
Qed.

Lemma clear_part_flags_le a k (l : list row) :
  flags_le l (firstn k l ++ map (row_clear a) (skipn k l)) /\
  flags_le l (map (row_clear a) (firstn k l) ++ skipn k l).
Proof.
  split; (split; [first [apply len_app_clear1|apply len_app_clear2]|]); intros i r r' G1 G2 W.
  - rewrite <- (firstn_skipn k l) in G1. rewrite get_app in G1, G2.
    destruct (i <? len (firstn k l)); [congruence|]. rewrite get_map in G2.
    destruct (get (skipn k l) _); inv G2. discriminate.
  - rewrite <- (firstn_skipn k l) in G1. rewrite get_app in G1, G2. rewrite len_map in G2.
    destruct (i <? len (firstn k l)); [|congruence]. rewrite get_map in G2.
    destruct (get (firstn k l) i); inv G2. discriminate.
Qed.

Lemma erase_all_forward_lastu x a y : erase_all_forward x a = Ok y -> grid_lastu x -> grid_lastu y.
Proof.
  unfold erase_all_forward. intros E H. eapply erase_row_forward_lastu; eauto.
  unfold grid_lastu. cbn [live with_live]. eapply lastu_flags_le; [exact H|]. apply clear_part_flags_le.
Qed.
Lemma erase_all_backward_lastu x a y : erase_all_backward x a = Ok y -> grid_lastu x -> grid_lastu y.
Proof.
  unfold erase_all_backward. intros E H. eapply erase_row_backward_lastu; eauto.
  unfold grid_lastu. cbn [live with_live]. eapply lastu_flags_le; [exact H|]. apply clear_part_flags_le.
Qed.
Lemma erase_all_lastu x a : grid_lastu (erase_all x a).
Proof.
  unfold grid_lastu, erase_all. cbn [live with_live]. apply lastu_all, Forall_map'. intros r _. reflexivity.
Qed.

Lemma insert_cells_lastu x n y : insert_cells x n = Ok y -> grid_lastu x -> grid_lastu y.
Proof.
  unfold insert_cells, upd_current_row. intros E H. binv E as wide Ew. binv E as room Er.
  eapply upd_row_lastu; eauto. intros rw rw' Erw W. binv Erw as rw1 E1.
  unfold row_truncate in Erw. binv Erw as j Ej. binv Erw as last El. inv Erw. discriminate.
Qed.
Lemma delete_cells_lastu x n y : delete_cells x n = Ok y -> grid_lastu x -> grid_lastu y.
Proof.
  unfold delete_cells, upd_current_row. intros E H. binv E as room Er.
  eapply upd_row_lastu; eauto. intros rw rw' Erw W. binv Erw as rw1 E1. inv Erw. discriminate.
Qed.

Lemma iter_lastu (f : list row -> res (list row)) n : forall l l', iter_res n f l = Ok l' ->
  (forall a b, f a = Ok b -> lastu a -> len a = len l -> lastu b /\ len b = len a) -> lastu l -> lastu l'.
Proof.
  induction n as [|n IH]; intros l l' E Hf H; cbn [iter_res] in E; [now inv E|].
  binv E as l1 E1. destruct (Hf _ _ E1 H eq_refl) as [H1 L1]. eapply IH; eauto.
  intros a b Eab Ha La. apply Hf; auto. congruence.
Qed.

Lemma insert_lines_lastu x n y : grid_ok x -> insert_lines x n = Ok y -> grid_lastu x -> grid_lastu y.
Proof.
  intros Hok E H. okdims. pose proof (gk_live _ K) as Ll. unfold insert_lines in E. binv E as l0 El. inv E.
  unfold grid_lastu. cbn [live with_live]. eapply iter_lastu; eauto.
  cbv beta. intros a b Eab Ha La. eapply lastu_rotate_down; eauto; lia.
Qed.
Lemma scroll_down_lastu x n y : grid_ok x -> scroll_down x n = Ok y -> grid_lastu x -> grid_lastu y.
Proof.
  intros Hok E H. okdims. pose proof (gk_live _ K) as Ll. unfold scroll_down in E. binv E as l0 El. inv E.
  unfold grid_lastu. cbn [live with_live]. eapply iter_lastu; eauto.
  cbv beta. intros a b Eab Ha La. eapply lastu_rotate_down; eauto; lia.
Qed.
Lemma delete_lines_lastu x n y : grid_ok x -> delete_lines x n = Ok y -> grid_lastu x -> grid_lastu y.
Proof.
  intros Hok E H. okdims. pose proof (gk_live _ K) as Ll. unfold delete_lines in E. binv E as room Er. binv E as l0 El. inv E.
  unfold grid_lastu. cbn [live with_live]. eapply iter_lastu; eauto.
  cbv beta. intros a b Eab Ha La. binv Eab as l1 E1. binv Eab as p2 E2. destruct p2 as [rm l2]. inv Eab.
  eapply (lastu_rotate_up x (bot x + 1) (prow x) a b rm); eauto; try lia. rewrite E1. exact E2.
Qed.

Lemma scroll_up_lastu x n y : grid_ok x -> scroll_up x n = Ok y -> grid_lastu x -> grid_lastu y.
Proof.
  intros Hok E H. okdims. pose proof (gk_live _ K) as Ll. unfold scroll_up in E. binv E as room Er. binv E as act Ea.
  assert (forall k g1 g2, iter_res k (fun g0 : grid =>
             do l1 <- insert_at (live g0) (bot g0 + 1) (new_row g0);
             do '(removed, l2) <- remove_at l1 (top g0);
             let g3 := with_live g0 l2 in
             if (0 <? sb_cap g3) && negb act
             then Ok (with_sb g3 (trim_front (sb g3 ++ [removed]) (sb_cap g3))
                        (if 0 <? sb_off g3 then N.min (len (trim_front (sb g3 ++ [removed]) (sb_cap g3))) (sb_off g3 + 1) else sb_off g3))
             else Ok g3) g1 = Ok g2 ->
           (grid_lastu g1 /\ len (live g1) = grows x /\ top g1 = top x /\ bot g1 = bot x) -> grid_lastu g2) as Hit.
  { induction k as [|k IH]; intros g1 g2 Ei (Hg1 & L1 & T1 & B1); cbn [iter_res] in Ei; [now inv Ei|].
    binv Ei as g1' E1. apply (IH _ _ Ei). clear Ei IH.
    binv E1 as l1 Ei1. binv E1 as p2 Ei2. destruct p2 as [rm l2].
    destruct (lastu_rotate_up g1 (bot g1 + 1) (top g1) (live g1) l2 rm Hg1) as [Hg2 L2]; try lia.
    { rewrite Ei1. exact Ei2. }
    destruct ((0 <? sb_cap (with_live g1 l2)) && negb act); inv E1; cbn; repeat split; auto; congruence. }
  eapply Hit; eauto.
Qed.

Lemma row_inc_scroll_lastu x n y k : grid_ok x -> row_inc_scroll x n = Ok (y, k) -> grid_lastu x -> grid_lastu y.
Proof.
  intros Hok E H. okdims. unfold row_inc_scroll in E. rewrite row_clamp_bottom_eq in E by (cbn; lia). cbn [bind] in E.
  destruct (in_scroll_region x) eqn:Ein.
  - binv E as g2 E2. inv E. eapply scroll_up_lastu; [|exact E2|exact H].
    unfold with_prow. apply ok_with_pos; cbn; auto; [now apply okc_with_pos|].
    unfold in_scroll_region in Ein. cbn. lia.
  - inv E. exact H.
Qed.

Lemma row_dec_scroll_lastu x n y : grid_ok x -> row_dec_scroll x n = Ok y -> grid_lastu x -> grid_lastu y.
Proof.
  intros Hok E H. okdims. unfold row_dec_scroll in E. rewrite row_clamp_top_eq in E. binv E as k Ek.
  eapply scroll_down_lastu; [|exact E|exact H].
  unfold with_prow. apply ok_with_pos; cbn; auto; [now apply okc_with_pos|].
  unfold sat_sub16. destruct (in_scroll_region x); lia.
Qed.

(* the only place where a flag is raised *)
Lemma col_wrap_lastu x width wrap y : grid_ok x -> width <= gcols x -> col_wrap x width wrap = Ok y -> grid_lastu x -> grid_lastu y.
Proof.
  intros Hok Hw E H. okdims. unfold col_wrap in E. binv E as lim El.
  destruct (lim <? pcol x); [|now inv E].
  binv E as p1 E1. destruct p1 as [g1 scrolled].
  assert (grid_ok (with_pcol x 0)) as G0 by (apply ok_with_pos; auto; lia).
  assert (grid_ok g1) as Ok1.
  { destruct (row_inc_scroll_post (with_pcol x 0) 1 G0) as (g1' & k' & E1' & Ok1 & _). congruence. }
  pose proof (row_inc_scroll_lastu _ _ _ _ G0 E1 H) as HL1.
  cbn [prow with_pcol with_pos] in E.
  destruct (scrolled <=? prow x); [|now inv E].
  binv E as pr1 Epr1. unfold add16 in Epr1. destruct (prow x - scrolled + 1 <=? U16MAX); inv Epr1.
  unfold upd_row, drawing_row in E. binv E as rw Erw. apply unwrap_inv in Erw. binv E as rw' Erw'. inv Erw'. inv E.
  unfold grid_lastu. cbn [live with_live].
  destruct (N.eqb_spec (prow x - scrolled + 1) (prow g1)) as [Ep|Np].
  - (* the flag may be raised: not on the last row *)
    apply lastu_set_notlast; [exact HL1|]. destruct Ok1 as (K1 & P1 & _). rewrite (gk_live _ K1). lia.
  - rewrite andb_false_r. eapply lastu_flags_le; [exact HL1|]. eapply flags_le_set; eauto. discriminate.
Qed.

Lemma append_at_lastu x r c ch y : append_at x r c ch = Ok y -> grid_lastu x -> grid_lastu y.
Proof.
  unfold append_at. intros E H. binv E as pc Epc. destruct (ccont pc).
  - binv E as c2 Ec2. binv E as d Ed. eapply upd_cell_lastu; eauto.
  - eapply upd_cell_lastu; eauto.
Qed.

Lemma text_zero_lastu x ch y : text_zero x ch = Ok y -> grid_lastu x -> grid_lastu y.
Proof.
  unfold text_zero. intros E H. destruct (0 <? pcol x).
  - binv E as c1 Ec1. eapply append_at_lastu; eauto.
  - destruct (0 <? prow x); [|now inv E]. binv E as r1 Er1. binv E as prev Ep.
    destruct (wrapped prev); [|now inv E]. binv E as c1 Ec1. eapply append_at_lastu; eauto.
Qed.

Lemma text_place_lastu x ch width a y : text_place x ch width a = Ok y -> grid_lastu x -> grid_lastu y.
Proof.
  unfold text_place. intros E H.
  binv E as c0 Ec0. binv E as x1 E1.
  assert (grid_lastu x1) as W1.
  { destruct (ccont c0); [|now inv E1]. binv E1 as cm Ecm. eapply upd_cell_lastu; eauto. }
  binv E as c0' Ec0'. binv E as x2 E2.
  assert (grid_lastu x2) as W2.
  { destruct (cwide c0'); [|now inv E2]. binv E2 as cp Ecp. eapply upd_cell_lastu; eauto. }
  binv E as x3 E3. pose proof (upd_cell_lastu _ _ _ _ _ E3 W2) as W3.
  destruct (1 <? width); [|inv E; exact W3].
  binv E as n0 En0. binv E as x5 E5.
  assert (grid_lastu x5) as W5.
  { destruct (cwide n0); [|inv E5; exact W3]. binv E5 as cn Ecn. binv E5 as x5a E5a. binv E5 as lastc El.
    assert (grid_lastu x5a) as W5a by (eapply upd_cell_lastu; [exact E5a|exact W3]).
    destruct (cn =? lastc); [|now inv E5].
    eapply upd_row_lastu; [exact E5| |exact W5a]. intros rw rw' Er W. inv Er. discriminate. }
  binv E as x6 E6. inv E. exact (upd_cell_lastu _ _ _ _ _ E6 W5).
Qed.

Theorem grid_text_lastu x ch a y : grid_ok x -> grid_text x ch a = Ok y -> grid_lastu x -> grid_lastu y.
Proof.
  intros Hok E H. unfold grid_text in E.
  set (width := match wd ch with Some n => n | None => 1 end) in *.
  assert ((if gcols x <? width then Ok x
           else do lim <- sub16 (gcols x) width;
                do wrap <- (if lim <? pcol x then
                              do lastc <- sub16 (gcols x) 1;
                              do lc <- unwrap (drawing_cell x (prow x) lastc);
                              Ok (has_contents lc || ccont lc)
                            else Ok false);
                do x1 <- col_wrap x width wrap;
                if width =? 0 then text_zero x1 ch else text_place x1 ch width a) = Ok y \/ y = x) as [E'|Eyx].
  { destruct (wd ch) as [w|] eqn:Ew; [left; exact E|].
    destruct (ch <? 256); [right; now inv E|left; exact E]. }
  2:{ subst y. exact H. }
  clear E.
  destruct (N.ltb_spec (gcols x) width) as [Lw|Lw]; [now inv E'|].
  binv E' as lim Elim. binv E' as wrap Ewrap. binv E' as x1 E1.
  pose proof (col_wrap_lastu _ _ _ _ Hok Lw E1 H) as W1.
  destruct (width =? 0); [eapply text_zero_lastu; eauto|eapply text_place_lastu; eauto].
Qed.

Lemma grid_set_size_lastu x rows cols y : grid_set_size x rows cols = Ok y -> grid_lastu y.
Proof.
  unfold grid_set_size. intros E. binv E as oldm Eo. binv E as newm En. binv E as newc Ec.
  rewrite row_clamp_top_false in E. binv E as p3 E3. destruct p3 as [g3 k3]. binv E as g4 E4. inv E.
  apply row_clamp_bottom_cells in E3. apply col_clamp_cells in E4.
  eapply same_cells_lastu; [apply with_saved_cells|].
  eapply same_cells_lastu; [exact E4|]. eapply same_cells_lastu; [exact E3|].
  unfold grid_lastu. cbn [live]. apply lastu_all.
  apply Forall_resize_list; [|reflexivity]. apply Forall_map'. intros r _. reflexivity.
Qed.

Lemma grid_clear_lastu x y : grid_clear x = Ok y -> grid_lastu y.
Proof.
  unfold grid_clear. intros E. binv E as b Eb. inv E. unfold grid_lastu. cbn [live].
  apply lastu_all, Forall_map'. intros r _. reflexivity.
Qed.

Lemma allocate_rows_lastu x : grid_lastu x -> grid_lastu (allocate_rows x).
Proof.
  intros H. unfold allocate_rows. destruct (live x) eqn:E; [|exact H].
  unfold grid_lastu. cbn [live with_live]. apply lastu_all, Forall_repeatN. reflexivity.
Qed.

Lemma grid_new_lastu rows cols cap x : grid_new rows cols cap = Ok x -> grid_lastu x.
Proof. unfold grid_new. intros E. binv E as b Eb. inv E. apply lastu_nil. Qed.

(* ------------------------------------------------------------------ *)
(* screens                                                              *)
(* ------------------------------------------------------------------ *)
Lemma cur_lastu s : screen_lastu s -> grid_lastu (cur s).
Proof. intros [H1 H2]. unfold cur. destruct (altmode s); assumption. Qed.

Lemma with_cur_lastu s y : screen_lastu s -> grid_lastu y -> screen_lastu (with_cur s y).
Proof. intros [H1 H2] Hy. unfold with_cur. destruct (altmode s); split; cbn; assumption. Qed.

Lemma screen_lastu_same s s' : g s' = g s -> alt s' = alt s -> screen_lastu s -> screen_lastu s'.
Proof. intros E1 E2 [H1 H2]. unfold screen_lastu. rewrite E1, E2. split; assumption. Qed.

Definition lup {A} (proj : A -> screen) (r : res A) : Prop := forall a, r = Ok a -> screen_lastu (proj a).
Notation lup1 := (lup sid).
Notation lup2 := (lup (@fst screen N)).
Notation lupe := (lup (@fst screen (list event))).

Lemma lup_ok {A} (proj : A -> screen) a : screen_lastu (proj a) -> lup proj (Ok a).
Proof. intros H a' E. inv E. exact H. Qed.

Lemma on_cur_lup s f : screen_lastu s -> (forall y, f (cur s) = Ok y -> grid_lastu y) -> lup1 (on_cur s f).
Proof.
  intros H Hf s' E. unfold on_cur in E. binv E as y Ey. inv E. unfold sid. apply with_cur_lastu; [exact H|now apply Hf].
Qed.

Lemma lup_lift1 {B} r (k : B) : lup1 r -> lup (@fst screen B) (do s1 <- r; Ok (s1, k)).
Proof. intros Hr a E. binv E as s1 E1. pose proof (Hr _ E1) as W. inv E. exact W. Qed.
Lemma lup_noev r : lup1 r -> lupe (noev r).
Proof. intros Hr a E. unfold noev in E. binv E as s1 E1. pose proof (Hr _ E1) as W. inv E. exact W. Qed.
Lemma lup_lift2 r (e : N -> list event) : lup2 r -> lupe (do '(s1, k) <- r; Ok (s1, e k)).
Proof. intros Hr a E. binv E as p1 E1. destruct p1 as [s1 k]. pose proof (Hr _ E1) as W. inv E. exact W. Qed.

Lemma screen_new_lastu rows cols cap : lup1 (screen_new rows cols cap).
Proof.
  intros s E. unfold screen_new in E. binv E as g0 Eg. binv E as a0 Ea. inv E.
  split; cbn [sid g alt].
  - apply allocate_rows_lastu. eapply grid_new_lastu; eauto.
  - eapply grid_new_lastu; eauto.
Qed.

Lemma screen_set_size_lastu s rows cols : lup1 (screen_set_size s rows cols).
Proof.
  intros s' E. unfold screen_set_size in E. binv E as g1 Eg. binv E as a1 Ea. inv E.
  split; cbn; eapply grid_set_size_lastu; eauto.
Qed.

Lemma screen_set_scrollback_lastu s k : screen_lastu s -> screen_lastu (screen_set_scrollback s k).
Proof.
  intros H. unfold screen_set_scrollback. apply with_cur_lastu; [exact H|].
  eapply same_cells_lastu; [apply grid_set_scrollback_cells|apply cur_lastu, H].
Qed.

Lemma enter_alternate_grid_lastu s : screen_lastu s -> screen_lastu (enter_alternate_grid s).
Proof.
  intros H. unfold enter_alternate_grid.
  pose proof (screen_set_scrollback_lastu s 0 H) as [H1 H2]. unfold screen_set_scrollback in H1, H2.
  split; cbn [g alt with_alt with_altmode]; [exact H1|]. apply allocate_rows_lastu. exact H2.
Qed.

Lemma scr_save_cursor_lastu s : screen_lastu s -> screen_lastu (scr_save_cursor s).
Proof.
  intros H. unfold scr_save_cursor.
  eapply screen_lastu_same; [| |apply with_cur_lastu; [exact H|]]; try reflexivity.
  eapply same_cells_lastu; [apply save_cursor_cells|apply cur_lastu, H].
Qed.
Lemma scr_restore_cursor_lastu s : screen_lastu s -> screen_lastu (scr_restore_cursor s).
Proof.
  intros H. unfold scr_restore_cursor. cbv zeta.
  eapply screen_lastu_same; [| |apply with_cur_lastu; [exact H|]]; try reflexivity.
  eapply same_cells_lastu; [apply restore_cursor_cells|apply cur_lastu, H].
Qed.

(* cursor-only operations on the current grid *)
Ltac cells_lu L :=
  let H := fresh "H" in let y := fresh "y" in let Ey := fresh "Ey" in
  intros H; apply on_cur_lup; [exact H|]; intros y Ey; cbv beta in Ey;
  first [ eapply same_cells_lastu; [eapply L; exact Ey|apply cur_lastu, H]
        | inv Ey; eapply same_cells_lastu; [apply L|apply cur_lastu, H] ].
(* operations that need the structural invariant of the grid *)
Ltac ok_lu L :=
  let Hok := fresh "Hok" in let H := fresh "H" in let y := fresh "y" in let Ey := fresh "Ey" in
  intros Hok H; apply on_cur_lup; [exact H|]; intros y Ey; cbv beta in Ey;
  eapply L; [apply cur_ok, Hok|exact Ey|apply cur_lastu, H].
(* operations that do not *)
Ltac any_lu L :=
  let H := fresh "H" in let y := fresh "y" in let Ey := fresh "Ey" in
  intros H; apply on_cur_lup; [exact H|]; intros y Ey; cbv beta in Ey;
  eapply L; [exact Ey|apply cur_lastu, H].

Lemma scr_text_lastu s ch : screen_ok s -> screen_lastu s -> lup1 (scr_text s ch).
Proof. unfold scr_text. ok_lu grid_text_lastu. Qed.
Lemma scr_bs_lastu s : screen_lastu s -> lup1 (scr_bs s). Proof. unfold scr_bs. cells_lu col_dec_cells. Qed.
Lemma scr_tab_lastu s : screen_lastu s -> lup1 (scr_tab s). Proof. unfold scr_tab. cells_lu col_tab_cells. Qed.
Lemma scr_cr_lastu s : screen_lastu s -> lup1 (scr_cr s). Proof. unfold scr_cr. cells_lu col_set_cells. Qed.
Lemma scr_lf_lastu s : screen_ok s -> screen_lastu s -> lup1 (scr_lf s).
Proof.
  intros Hok H. apply on_cur_lup; [exact H|]. intros y Ey. binv Ey as p1 E1. destruct p1 as [x1 k]. inv Ey.
  eapply row_inc_scroll_lastu; [apply cur_ok, Hok|exact E1|apply cur_lastu, H].
Qed.
Lemma scr_ri_lastu s : screen_ok s -> screen_lastu s -> lup1 (scr_ri s). Proof. unfold scr_ri. ok_lu row_dec_scroll_lastu. Qed.
Lemma scr_ris_lastu s : lup1 (scr_ris s). Proof. apply screen_new_lastu. Qed.

Lemma scr_ich_lastu s n : screen_lastu s -> lup1 (scr_ich s n). Proof. unfold scr_ich. any_lu insert_cells_lastu. Qed.
Lemma scr_cuu_lastu s n : screen_lastu s -> lup1 (scr_cuu s n). Proof. unfold scr_cuu. cells_lu row_dec_clamp_cells. Qed.
Lemma scr_cud_lastu s n : screen_lastu s -> lup1 (scr_cud s n). Proof. unfold scr_cud. cells_lu row_inc_clamp_cells. Qed.
Lemma scr_cuf_lastu s n : screen_lastu s -> lup1 (scr_cuf s n). Proof. unfold scr_cuf. cells_lu col_inc_clamp_cells. Qed.
Lemma scr_cub_lastu s n : screen_lastu s -> lup1 (scr_cub s n). Proof. unfold scr_cub. cells_lu col_dec_cells. Qed.
Lemma scr_il_lastu s n : screen_ok s -> screen_lastu s -> lup1 (scr_il s n). Proof. unfold scr_il. ok_lu insert_lines_lastu. Qed.
Lemma scr_dl_lastu s n : screen_ok s -> screen_lastu s -> lup1 (scr_dl s n). Proof. unfold scr_dl. ok_lu delete_lines_lastu. Qed.
Lemma scr_dch_lastu s n : screen_lastu s -> lup1 (scr_dch s n). Proof. unfold scr_dch. any_lu delete_cells_lastu. Qed.
Lemma scr_su_lastu s n : screen_ok s -> screen_lastu s -> lup1 (scr_su s n). Proof. unfold scr_su. ok_lu scroll_up_lastu. Qed.
Lemma scr_sd_lastu s n : screen_ok s -> screen_lastu s -> lup1 (scr_sd s n). Proof. unfold scr_sd. ok_lu scroll_down_lastu. Qed.
Lemma scr_ech_lastu s n : screen_lastu s -> lup1 (scr_ech s n). Proof. unfold scr_ech. any_lu erase_cells_lastu. Qed.

Lemma scr_cnl_lastu s n : screen_lastu s -> lup1 (scr_cnl s n).
Proof.
  intros H. apply on_cur_lup; [exact H|]. intros y Ey. binv Ey as x1 E1.
  eapply same_cells_lastu; [eapply row_inc_clamp_cells; eauto|].
  eapply same_cells_lastu; [eapply col_set_cells; eauto|]. apply cur_lastu, H.
Qed.
Lemma scr_cpl_lastu s n : screen_lastu s -> lup1 (scr_cpl s n).
Proof.
  intros H. apply on_cur_lup; [exact H|]. intros y Ey. binv Ey as x1 E1. inv Ey.
  eapply same_cells_lastu; [apply row_dec_clamp_cells|].
  eapply same_cells_lastu; [eapply col_set_cells; eauto|]. apply cur_lastu, H.
Qed.
Lemma scr_cha_lastu s n : screen_lastu s -> lup1 (scr_cha s n).
Proof.
  intros H. apply on_cur_lup; [exact H|]. intros y Ey. binv Ey as c Ec.
  eapply same_cells_lastu; [eapply col_set_cells; eauto|]. apply cur_lastu, H.
Qed.
Lemma scr_vpa_lastu s n : screen_lastu s -> lup1 (scr_vpa s n).
Proof.
  intros H. apply on_cur_lup; [exact H|]. intros y Ey. binv Ey as r Er.
  eapply same_cells_lastu; [eapply row_set_cells; eauto|]. apply cur_lastu, H.
Qed.
Lemma scr_cup_lastu s r c : screen_lastu s -> lup1 (scr_cup s r c).
Proof.
  intros H. apply on_cur_lup; [exact H|]. intros y Ey. binv Ey as r1 Er. binv Ey as c1 Ec.
  eapply same_cells_lastu; [eapply grid_set_pos_cells; eauto|]. apply cur_lastu, H.
Qed.
Lemma scr_decstbm_lastu s t b : screen_lastu s -> lup1 (scr_decstbm s t b).
Proof.
  intros H. apply on_cur_lup; [exact H|]. intros y Ey. binv Ey as t1 Et. binv Ey as b1 Eb.
  eapply same_cells_lastu; [eapply set_scroll_region_cells; eauto|]. apply cur_lastu, H.
Qed.

Lemma scr_ed_lastu s m : screen_lastu s -> lup2 (scr_ed s m).
Proof.
  intros H. unfold scr_ed.
  destruct (m =? 0); [apply lup_lift1; revert H; any_lu erase_all_forward_lastu|].
  destruct (m =? 1); [apply lup_lift1; revert H; any_lu erase_all_backward_lastu|].
  destruct (m =? 2).
  { apply lup_lift1. apply on_cur_lup; [exact H|]. intros y Ey. inv Ey. apply erase_all_lastu. }
  now apply lup_ok.
Qed.
Lemma scr_el_lastu s m : screen_lastu s -> lup2 (scr_el s m).
Proof.
  intros H. unfold scr_el.
  destruct (m =? 0); [apply lup_lift1; revert H; any_lu erase_row_forward_lastu|].
  destruct (m =? 1); [apply lup_lift1; revert H; any_lu erase_row_backward_lastu|].
  destruct (m =? 2); [apply lup_lift1; revert H; any_lu erase_row_lastu|].
  now apply lup_ok.
Qed.

Lemma set_origin_lastu s m : screen_lastu s -> lup1 (on_cur s (fun x => set_origin_mode x m)).
Proof. cells_lu set_origin_mode_cells. Qed.

Ltac same_lu H := apply lup_ok; cbn [fst]; revert H; apply screen_lastu_same; reflexivity.

Lemma clear_mouse_mode_lastu s m : screen_lastu s -> screen_lastu (clear_mouse_mode s m).
Proof. intros H. unfold clear_mouse_mode. destruct (mouse_mode_eqb _ _); [|exact H]. revert H. apply screen_lastu_same; reflexivity. Qed.
Lemma clear_mouse_enc_lastu s m : screen_lastu s -> screen_lastu (clear_mouse_enc s m).
Proof. intros H. unfold clear_mouse_enc. destruct (mouse_enc_eqb _ _); [|exact H]. revert H. apply screen_lastu_same; reflexivity. Qed.

Lemma decset1_lastu s p : screen_lastu s -> lup2 (decset1 s p).
Proof.
  intros H. unfold decset1. destruct (single p) as [n|]; [|now apply lup_ok].
  repeat match goal with
  | |- lup _ (if ?c then _ else _) => destruct c
  end;
  try (now apply lup_ok); try (same_lu H).
  - apply lup_lift1. now apply set_origin_lastu.
  - apply lup_ok. cbn [fst]. now apply enter_alternate_grid_lastu.
  - pose proof (scr_save_cursor_lastu s H) as [H1 H2].
    intros a E. binv E as a1 Ea. inv E. cbn [fst]. apply enter_alternate_grid_lastu.
    split; cbn [g alt with_alt]; [exact H1|]. eapply grid_clear_lastu; eauto.
Qed.

Lemma decrst1_lastu s p : screen_lastu s -> lup2 (decrst1 s p).
Proof.
  intros H. unfold decrst1. destruct (single p) as [n|]; [|now apply lup_ok].
  repeat match goal with
  | |- lup _ (if ?c then _ else _) => destruct c
  end;
  try (now apply lup_ok); try (same_lu H);
  try (apply lup_ok; cbn [fst]; first [now apply clear_mouse_mode_lastu | now apply clear_mouse_enc_lastu]).
  apply lup_lift1. now apply set_origin_lastu.
Qed.

Lemma fold_params_lastu f : (forall s p, screen_lastu s -> lup2 (f s p)) ->
  forall ps s n, screen_lastu s -> lup2 (fold_params f ps s n).
Proof.
  intros Hf. induction ps as [|p ps IH]; intros s n H; cbn [fold_params].
  - now apply lup_ok.
  - intros a E. binv E as p1 E1. destruct p1 as [s1 k]. eapply IH; [|exact E].
    apply (Hf s p H _ E1).
Qed.

Lemma scr_sgr_lastu s ps : screen_lastu s -> screen_lastu (fst (scr_sgr s ps)).
Proof.
  intros H. unfold scr_sgr. destruct (sgr ps (pen s)) as [a k]. cbn [fst]. revert H. apply screen_lastu_same; reflexivity.
Qed.

(* ---- perform ---- *)
Lemma do_execute_lastu s b : screen_ok s -> screen_lastu s -> lupe (do_execute s b).
Proof.
  intros Hok H. unfold do_execute.
  repeat match goal with |- lup _ (if ?c then _ else _) => destruct c end;
    try (now apply lup_ok); apply lup_lift1.
  - now apply scr_bs_lastu.
  - now apply scr_tab_lastu.
  - now apply scr_lf_lastu.
  - now apply scr_cr_lastu.
Qed.

Lemma do_print_lastu s c : screen_ok s -> screen_lastu s -> lupe (do_print s c).
Proof.
  intros Hok H. unfold do_print.
  destruct ((128 <=? c) && (c <? 160)); [now apply do_execute_lastu|].
  destruct (c =? REPL); [now apply lup_ok|].
  apply lup_lift1. now apply scr_text_lastu.
Qed.

Lemma do_esc_lastu s inter b : screen_ok s -> screen_lastu s -> lupe (do_esc s inter b).
Proof.
  intros Hok H. unfold do_esc. destruct inter; [|now apply lup_ok].
  repeat match goal with |- lup _ (if ?c then _ else _) => destruct c end;
    try (now apply lup_ok); try (same_lu H).
  - apply lup_ok. now apply scr_save_cursor_lastu.
  - apply lup_ok. now apply scr_restore_cursor_lastu.
  - apply lup_lift1. now apply scr_ri_lastu.
  - apply lup_lift1. apply scr_ris_lastu.
Qed.

Lemma do_csi_lastu rz s ps inter c : screen_ok s -> screen_lastu s -> lupe (do_csi rz s ps inter c).
Proof.
  intros Hok H. unfold do_csi. destruct inter as [|i inter'].
  - repeat match goal with |- lup _ (if ?c then _ else _) => destruct c end;
      try (now apply lup_ok);
      try (apply lup_noev;
           first [ now apply scr_ich_lastu | now apply scr_cuu_lastu | now apply scr_cud_lastu | now apply scr_cuf_lastu
                 | now apply scr_cub_lastu | now apply scr_cnl_lastu | now apply scr_cpl_lastu | now apply scr_cha_lastu
                 | now apply scr_il_lastu | now apply scr_dl_lastu | now apply scr_dch_lastu | now apply scr_su_lastu
                 | now apply scr_sd_lastu | now apply scr_ech_lastu | now apply scr_vpa_lastu ]).
    + destruct (canon2 ps 1 1) as [r cc]. apply lup_noev. now apply scr_cup_lastu.
    + apply lup_lift2. now apply scr_ed_lastu.
    + apply lup_lift2. now apply scr_el_lastu.
    + pose proof (scr_sgr_lastu s ps H) as O. destruct (scr_sgr s ps) as [s1 k]. now apply lup_ok.
    + destruct (canon2 ps 1 (grows (cur s))) as [t b]. apply lup_noev. now apply scr_decstbm_lastu.
    + destruct ps as [|[|op sub] rest]; try (now apply lup_ok).
      destruct (op =? 8); [|now apply lup_ok].
      match goal with |- lup _ (if ?c then _ else _) => destruct c end; [|now apply lup_ok].
      apply lup_lift1. apply screen_set_size_lastu.
  - destruct (i =? 63); [|now apply lup_ok].
    repeat match goal with |- lup _ (if ?c then _ else _) => destruct c end;
      try (now apply lup_ok); apply lup_lift2.
    + now apply scr_ed_lastu.
    + now apply scr_el_lastu.
    + apply fold_params_lastu; [apply decset1_lastu|exact H].
    + apply fold_params_lastu; [apply decrst1_lastu|exact H].
Qed.

Lemma do_osc_lastu s ps : screen_lastu s -> screen_lastu (fst (do_osc s ps)).
Proof.
  intros H. unfold do_osc. destruct ps as [|k [|v [|]]]; try exact H.
  repeat match goal with |- context[if ?c then _ else _] => destruct c end; exact H.
Qed.

Theorem perform_lastu rz s a s' evs : perform rz s a = Ok (s', evs) -> screen_ok s -> screen_lastu s -> screen_lastu s'.
Proof.
  intros E Hok H.
  assert (lupe (perform rz s a)) as W.
  { destruct a; cbn [perform]; try (now apply lup_ok).
    - now apply do_print_lastu.
    - now apply do_execute_lastu.
    - apply lup_ok. now apply do_osc_lastu.
    - now apply do_csi_lastu.
    - now apply do_esc_lastu. }
  apply (W _ E).
Qed.

Lemma perform_all_lastu rz acts : forall s evs s' evs', perform_all rz s acts evs = Ok (s', evs') ->
  screen_ok s -> screen_lastu s -> screen_lastu s'.
Proof.
  induction acts as [|a r IH]; intros s evs s' evs' E Hok H; cbn [perform_all] in E.
  - now inv E.
  - binv E as p1 E1. destruct p1 as [s1 e].
    destruct (perform_ok rz s a Hok) as (s1' & e' & E1' & Hok1). rewrite E1 in E1'. inv E1'.
    eapply IH; eauto. eapply perform_lastu; eauto.
Qed.

(* ---- the parser API ---- *)
Lemma process_lastu p bs q : process p bs = Ok q -> parser_ok p -> screen_lastu (scr p) -> screen_lastu (scr q).
Proof.
  rewrite process_unfold. intros E Hok H. destruct (advance (vt p) _) as [v acts].
  binv E as p1 E1. destruct p1 as [s evs]. inv E. cbn [scr]. pose proof (parser_ok_scr _ Hok) as Hscr. eapply perform_all_lastu; eauto.
Qed.

Lemma step_lastu p o q : step p o = Ok q -> parser_ok p -> screen_lastu (scr p) -> screen_lastu (scr q).
Proof.
  intros E Hok H. destruct o; cbn [step] in E.
  - eapply process_lastu; eauto.
  - unfold write in E. binv E as p1 E1. destruct p1 as [q1 k]. inv E. binv E1 as q2 E2. inv E1.
    eapply process_lastu; eauto.
  - binv E as s Es. inv E. cbn [scr]. apply (screen_set_size_lastu _ _ _ _ Es).
  - inv E. cbn [scr]. now apply screen_set_scrollback_lastu.
Qed.

Theorem run_lastu : forall ops p q, parser_ok p -> screen_lastu (scr p) -> Forall op_ok ops ->
  run p ops = Ok q -> screen_lastu (scr q).
Proof.
  induction ops as [|o r IH]; intros p q Hok H Fo E; cbn [run] in E.
  - now inv E.
  - inv Fo. binv E as p1 E1.
    destruct (step_ok p o Hok) as (p1' & E1' & Hok1); [assumption|]. rewrite E1 in E1'. inv E1'.
    eapply IH; eauto. eapply step_lastu; eauto.
Qed.

Theorem parser_new_lastu rows cols cap rz p : parser_new rows cols cap rz = Ok p -> screen_lastu (scr p).
Proof.
  unfold parser_new. intros E. binv E as s Es. inv E. cbn [scr]. apply (screen_new_lastu _ _ _ _ Es).
Qed.

(* every reachable screen: the last live row of the shown grid is not flagged *)
Theorem history_lastu rows cols cap rz ops p q :
  1 <= rows <= MAXDIM -> 1 <= cols <= MAXDIM ->
  parser_new rows cols cap rz = Ok p -> Forall op_ok ops -> run p ops = Ok q ->
  forall src, get (live (cur (scr q))) (grows (cur (scr q)) - 1) = Some src -> wrapped src = false.
Proof.
  intros Hr Hc En Fo E src G.
  destruct (parser_new_ok rows cols cap rz Hr Hc) as (p' & En' & Hok). assert (p' = p) as -> by congruence.
  destruct (run_ok ops p Hok Fo) as (q' & E' & Okq). assert (q' = q) as -> by congruence.
  pose proof (run_lastu ops p q Hok (parser_new_lastu _ _ _ _ _ En) Fo E) as HL.
  pose proof (cur_lastu _ HL) as HC. destruct (cur_ok _ (parser_ok_scr _ Okq)) as (K & _).
  apply HC. rewrite (gk_live _ K). exact G.
Qed.
