(* ShiftCells.v — closed forms of Grid::insert_cells (ICH) and Grid::delete_cells (DCH):
   the k-fold loops over Row::insert / Row::remove equal ONE shift of the cells right of the cursor. *)
Require Import Tac ListN Attrs Cell Row Grid RowInv GridInv ShiftLines.
Open Scope N_scope.

(* the cell at index i is blanked, keeping its own attributes (no-op outside the row) *)
Definition blank_at (cs : list cell) (i : N) : list cell :=
  match get cs i with Some x => set_at cs i (clear_own x) | None => cs end.

(* a wide first half left in the last column is blanked *)
Definition cut_wide (cs : list cell) : list cell :=
  if fw cs (len cs - 1) then blank_at cs (len cs - 1) else cs.

Lemma get_blank_at cs i j :
  get (blank_at cs i) j = if j =? i then option_map clear_own (get cs i) else get cs j.
Proof.
  unfold blank_at. destruct (get cs i) as [x|] eqn:E.
  - rewrite get_set_at. destruct (N.eqb_spec j i) as [->|]; [|reflexivity].
    apply get_some_lt in E. destruct (N.ltb_spec i (len cs)); [reflexivity|lia].
  - destruct (N.eqb_spec j i) as [->|]; [exact E|reflexivity].
Qed.
Lemma len_blank_at cs i : len (blank_at cs i) = len cs.
Proof. unfold blank_at. destruct (get cs i); [apply len_set_at|reflexivity]. Qed.
Lemma fw_blank_at cs i j : fw (blank_at cs i) j = if j =? i then false else fw cs j.
Proof. unfold fw. rewrite get_blank_at. destruct (j =? i); [destruct (get cs i)|]; reflexivity. Qed.
Lemma fc_blank_at cs i j : fc (blank_at cs i) j = if j =? i then false else fc cs j.
Proof. unfold fc. rewrite get_blank_at. destruct (j =? i); [destruct (get cs i)|]; reflexivity. Qed.

Lemma len_cut_wide cs : len (cut_wide cs) = len cs.
Proof. unfold cut_wide. destruct (fw cs (len cs - 1)); [apply len_blank_at|reflexivity]. Qed.
Lemma get_cut_wide cs j :
  get (cut_wide cs) j =
  if (j =? len cs - 1) && fw cs (len cs - 1) then option_map clear_own (get cs j) else get cs j.
Proof.
  unfold cut_wide. destruct (fw cs (len cs - 1)); [|now rewrite andb_false_r].
  rewrite get_blank_at, andb_true_r. destruct (N.eqb_spec j (len cs - 1)) as [->|]; reflexivity.
Qed.

Ltac cnorm :=
  rewrite ?get_app, ?len_app, ?len_cons, ?len_firstnN, ?len_skipnN, ?len_repeatN, ?len_set_at, ?len_blank_at,
          ?get_firstnN, ?get_skipnN, ?get_repeatN, ?get_cons, ?get_set_at, ?get_blank_at.
Ltac cclose := try reflexivity; try (f_equal; lia); try (f_equal; f_equal; lia); try lia.

(* ------------------------------------------------------------------ *)
(* Row::clear_wide, Row::remove, Row::truncate, Row::resize as functions on the cell list *)
(* ------------------------------------------------------------------ *)

Definition cw_cells (cs : list cell) (i : N) : list cell :=
  if fw cs i then blank_at cs (i + 1) else if fc cs i then blank_at cs (i - 1) else cs.

Definition rm_cells (cs : list cell) (i : N) : list cell :=
  firstnN i (cw_cells cs i) ++ skipnN (i + 1) (cw_cells cs i).

Lemma clear_wide_eq r i : cells_ok (cells r) -> len (cells r) <= 65535 -> i < len (cells r) ->
  clear_wide r i = Ok (mkRow (cw_cells (cells r) i) (wrapped r)).
Proof.
  intros Hok Hlen Hi. destruct (get_lt_some _ _ Hi) as (c & Hg).
  unfold clear_wide, cw_cells. rewrite (idx_get _ _ _ Hg). cbn [bind].
  rewrite (fw_get _ _ _ Hg), (fc_get _ _ _ Hg).
  destruct (cwide c) eqn:Ew.
  - destruct (ok_wide_next _ _ _ Hok Hg Ew) as (d & Hd & _).
    assert (i + 1 < len (cells r)) as Lj by (eapply get_some_lt; eauto).
    rewrite add16_ok by lia. cbn [bind]. rewrite (idx_get _ _ _ Hd). cbn [bind].
    unfold row_set_cell, blank_at. rewrite Hd. reflexivity.
  - destruct (ccont c) eqn:Ec.
    + destruct (ok_cont_prev _ _ _ Hok Hg Ec) as (Hi0 & d & Hd & _).
      rewrite sub16_ok by lia. cbn [bind]. rewrite (idx_get _ _ _ Hd). cbn [bind].
      unfold row_set_cell, blank_at. rewrite Hd. reflexivity.
    + destruct r; reflexivity.
Qed.

Lemma get_cw_cells_same cs i : fc cs 0 = false -> get (cw_cells cs i) i = get cs i.
Proof.
  intros F0.
  unfold cw_cells. destruct (fw cs i); [|destruct (fc cs i) eqn:E]; rewrite ?get_blank_at; try reflexivity.
  - destruct (N.eqb_spec i (i + 1)); [lia|reflexivity].
  - destruct (N.eqb_spec i (i - 1)) as [E0|]; [|reflexivity].
    assert (i = 0) as -> by lia. congruence.
Qed.
Lemma len_cw_cells cs i : len (cw_cells cs i) = len cs.
Proof. unfold cw_cells. destruct (fw cs i); [|destruct (fc cs i)]; rewrite ?len_blank_at; reflexivity. Qed.

Lemma row_remove_eq r i : cells_ok (cells r) -> len (cells r) <= 65535 -> i < len (cells r) ->
  row_remove r i = Ok (mkRow (rm_cells (cells r) i) false).
Proof.
  intros Hok Hlen Hi. unfold row_remove. rewrite clear_wide_eq by assumption. cbn [bind cells].
  destruct (get_lt_some _ _ Hi) as (c & Hg).
  assert (get (cw_cells (cells r) i) i = Some c) as Hg1 by (rewrite get_cw_cells_same; [exact Hg|apply Hok]).
  rewrite (remove_at_ok _ _ _ Hg1). reflexivity.
Qed.

Lemma row_truncate_eq r n : 1 <= n -> n <= len (cells r) ->
  row_truncate r n = Ok (mkRow (cut_wide (firstnN n (cells r))) false).
Proof.
  intros Hn Hl. unfold row_truncate, subz.
  destruct (N.leb_spec 1 n); [|lia]. cbn [bind].
  assert (len (firstnN n (cells r)) = n) as Lf by (rewrite len_firstnN; lia).
  destruct (get_lt_some (firstnN n (cells r)) (n - 1)) as (last & Hlast); [lia|].
  rewrite (idx_get _ _ _ Hlast). cbn [bind].
  unfold cut_wide, blank_at. rewrite Lf, (fw_get _ _ _ Hlast), Hlast. reflexivity.
Qed.

Lemma row_resize_eq r n : 1 <= n ->
  row_resize r n cell_new = mkRow (cut_wide (resize_list (cells r) n cell_new)) false.
Proof.
  intros Hn. unfold row_resize.
  destruct n as [|pn]; [lia|]. set (n := N.pos pn) in *.
  set (cs' := resize_list (cells r) n cell_new).
  assert (len cs' = n) as Lc by apply len_resize_list.
  rewrite Lc. unfold n at 1. cbv iota.
  destruct (get_lt_some cs' (n - 1)) as (last & Hlast); [lia|].
  rewrite Hlast. unfold cut_wide, blank_at. rewrite Lc, (fw_get _ _ _ Hlast), Hlast. reflexivity.
Qed.

(* ------------------------------------------------------------------ *)
(* DCH                                                                 *)
(* ------------------------------------------------------------------ *)

(* k >= 1 cells removed at c: the two wide characters that may be split are blanked first
   (first half at c-1 when c is a continuation cell; second half at c+k when c+k is one) ... *)
Definition del_prep (cs : list cell) (c k : N) : list cell :=
  let cs1 := if fc cs c then blank_at cs (c - 1) else cs in
  if fc cs (c + k) then blank_at cs1 (c + k) else cs1.

(* ... then the cells c .. c+k-1 are cut out *)
Definition del_form (cs : list cell) (c k : N) : list cell :=
  firstnN c (del_prep cs c k) ++ skipnN (c + k) (del_prep cs c k).

Lemma get_cut {A} (X : list A) c k i : c <= len X ->
  get (firstnN c X ++ skipnN (c + k) X) i = if i <? c then get X i else get X (i + k).
Proof. intros H. cnorm. lcases; cclose. Qed.

Lemma len_del_prep cs c k : len (del_prep cs c k) = len cs.
Proof. unfold del_prep. destruct (fc cs c), (fc cs (c + k)); rewrite ?len_blank_at; reflexivity. Qed.

Lemma get_del_prep cs c k i : 1 <= k ->
  get (del_prep cs c k) i =
  if (i =? c + k) && fc cs (c + k) then option_map clear_own (get cs i)
  else if (i =? c - 1) && fc cs c then option_map clear_own (get cs i)
  else get cs i.
Proof.
  intros Hk. unfold del_prep.
  destruct (fc cs c), (fc cs (c + k)); rewrite ?get_blank_at; lcases; cbn [andb]; subst; cclose.
Qed.

Lemma len_del_form cs c k : c + k <= len cs -> len (del_form cs c k) = len cs - k.
Proof. intros H. unfold del_form. cnorm. rewrite len_del_prep. lia. Qed.

Lemma get_del_form cs c k i : c <= len cs ->
  get (del_form cs c k) i = if i <? c then get (del_prep cs c k) i else get (del_prep cs c k) (i + k).
Proof. intros H. unfold del_form. apply get_cut. now rewrite len_del_prep. Qed.

Lemma rm_first cs c : cells_ok cs -> c < len cs -> rm_cells cs c = del_form cs c 1.
Proof.
  intros [H0 Hp Hb] Hc. unfold rm_cells, cw_cells, del_form, del_prep.
  pose proof (Hp c) as P. pose proof (Hb c) as B.
  destruct (fw cs c) eqn:Ew.
  - cbn in B. rewrite B, <- P. reflexivity.
  - rewrite <- P. destruct (fc cs c); reflexivity.
Qed.

Lemma rm_next cs c j : cells_ok cs -> 1 <= j -> c + j < len cs ->
  rm_cells (del_form cs c j) c = del_form cs c (j + 1).
Proof.
  intros [H0 Hp Hb] Hj Hc.
  pose proof (Hp (c + j)) as P. pose proof (Hb (c + j)) as B.
  replace (c + j + 1) with (c + (j + 1)) in P by lia.
  assert (fc cs c = true -> 1 <= c) as Hc1.
  { intros E. destruct (N.eqb_spec c 0) as [->|]; [congruence|lia]. }
  (* flags of the cell now at the cursor *)
  assert (fw (del_form cs c j) c = fw cs (c + j) /\ fc (del_form cs c j) c = false) as [FW FC].
  { unfold fw at 1, fc at 1. rewrite get_del_form by lia. destruct (N.ltb_spec c c); [lia|].
    rewrite get_del_prep by lia.
    destruct (N.eqb_spec (c + j) (c + j)); [|lia]. destruct (N.eqb_spec (c + j) (c - 1)); [lia|].
    cbn [andb]. destruct (fc cs (c + j)) eqn:E2.
    - rewrite andb_true_r in B. rewrite B. destruct (get cs (c + j)); split; reflexivity.
    - split; [reflexivity|exact E2]. }
  unfold rm_cells, cw_cells. rewrite FW, FC.
  destruct (fw cs (c + j)) eqn:Ew.
  - (* a wide first half is removed: its second half is blanked *)
    cbn in B.
    apply list_ext_get. intros i.
    rewrite get_cut by (rewrite len_blank_at, len_del_form; lia).
    rewrite !get_blank_at, !get_del_form by lia. rewrite !get_del_prep by lia.
    rewrite B, <- P.
    destruct (fc cs c) eqn:E1; [specialize (Hc1 eq_refl)|]; lcases; cbn [andb]; cclose.
  - apply list_ext_get. intros i.
    rewrite get_cut by (rewrite len_del_form; lia).
    rewrite !get_del_form by lia. rewrite !get_del_prep by lia.
    rewrite <- P.
    destruct (fc cs c) eqn:E1; [specialize (Hc1 eq_refl)|];
      destruct (fc cs (c + j)) eqn:E2; lcases; cbn [andb]; cclose.
Qed.

Lemma iter_res_snoc {A} (f : A -> res A) n a : iter_res (S n) f a = do b <- iter_res n f a; f b.
Proof.
  revert a. induction n as [|n IH]; intros a.
  - cbn [iter_res bind]. destruct (f a); reflexivity.
  - change (iter_res (S (S n)) f a) with (do a' <- f a; iter_res (S n) f a').
    change (iter_res (S n) f a) with (do a' <- f a; iter_res n f a').
    destruct (f a) as [a'|]; cbn [bind]; [apply IH|reflexivity].
Qed.

(* result of k iterations of the DCH loop on the cell list *)
Definition del_cells (cs : list cell) (c k : N) : list cell :=
  if k =? 0 then cs else del_form cs c k.

Lemma cells_ok_del_form cs c j w : cells_ok cs -> len cs <= 65535 -> 1 <= j -> c + j <= len cs ->
  iter_res (N.to_nat j) (fun r => row_remove r c) (mkRow cs w) = Ok (mkRow (del_form cs c j) false) /\
  cells_ok (del_form cs c j).
Proof.
  intros Hok Hlen Hj Hc.
  assert (forall m, (1 <= m)%nat -> c + N.of_nat m <= len cs ->
            iter_res m (fun r => row_remove r c) (mkRow cs w) = Ok (mkRow (del_form cs c (N.of_nat m)) false) /\
            cells_ok (del_form cs c (N.of_nat m))) as G.
  { induction m as [|m IH]; intros Hm Hcm; [lia|].
    destruct m as [|m].
    - cbn [iter_res]. rewrite row_remove_eq by (cbn [cells]; first [assumption|lia]). cbn [bind cells].
      rewrite rm_first by first [assumption|lia]. split; [reflexivity|].
      destruct (row_remove_ok (mkRow cs w) c) as (r' & E & _ & Ok' & _); cbn [cells]; try assumption; try lia.
      rewrite row_remove_eq in E by (cbn [cells]; first [assumption|lia]). inv E. cbn [cells] in Ok'.
      rewrite rm_first in Ok' by first [assumption|lia]. exact Ok'.
    - destruct IH as [E Ok']; [lia|lia|].
      rewrite iter_res_snoc.
      rewrite E. cbn [bind].
      assert (len (del_form cs c (N.of_nat (S m))) = len cs - N.of_nat (S m)) as L by (apply len_del_form; lia).
      rewrite row_remove_eq by (cbn [cells]; first [assumption|lia]). cbn [cells].
      rewrite rm_next by first [assumption|lia].
      replace (N.of_nat (S m) + 1) with (N.of_nat (S (S m))) by lia. split; [reflexivity|].
      destruct (row_remove_ok (mkRow (del_form cs c (N.of_nat (S m))) false) c) as (r' & E' & _ & Ok'' & _);
        cbn [cells]; try assumption; try lia.
      rewrite row_remove_eq in E' by (cbn [cells]; first [assumption|lia]). inv E'. cbn [cells] in Ok''.
      rewrite rm_next in Ok'' by first [assumption|lia].
      replace (N.of_nat (S (S m))) with (N.of_nat (S m) + 1) by lia. exact Ok''. }
  specialize (G (N.to_nat j)). rewrite N2Nat.id in G. apply G; lia.
Qed.

Lemma iter_remove_eq rw c k : cells_ok (cells rw) -> len (cells rw) <= 65535 -> c + k <= len (cells rw) ->
  iter_res (N.to_nat k) (fun r => row_remove r c) rw =
  Ok (if k =? 0 then rw else mkRow (del_cells (cells rw) c k) false).
Proof.
  intros Hok Hlen Hc. unfold del_cells. destruct (N.eqb_spec k 0) as [->|Hk]; [reflexivity|].
  destruct rw as [cs w]. cbn [cells] in *.
  apply cells_ok_del_form; auto; lia.
Qed.

(* the last cell of a well-paired row is not a wide first half *)
Lemma cut_wide_ok cs : cells_ok cs -> cut_wide cs = cs.
Proof.
  intros Hok. unfold cut_wide. destruct (fw cs (len cs - 1)) eqn:E; [|reflexivity].
  apply fw_true in E as (x & Hx & Hw).
  destruct (ok_wide_next _ _ _ Hok Hx Hw) as (d & Hd & _). apply get_some_lt in Hd, Hx. lia.
Qed.

Lemma resize_pad {A} (l : list A) n a : len l <= n -> resize_list l n a = l ++ repeatN a (n - len l).
Proof.
  intros H. unfold resize_list. destruct (N.leb_spec n (len l)); [|reflexivity].
  assert (n = len l) as -> by lia. replace (len l - len l) with 0 by lia.
  unfold len. rewrite Nat2N.id, firstn_all. cbn. now rewrite app_nil_r.
Qed.

(* cells of the cursor row after DCH: del_cells, then k default blanks appended *)
Definition dch_cells (cs : list cell) (c k : N) : list cell := del_cells cs c k ++ repeatN cell_new k.

Lemma len_del_cells cs c k : c + k <= len cs -> len (del_cells cs c k) = len cs - k.
Proof. intros H. unfold del_cells. destruct (N.eqb_spec k 0); [lia|now apply len_del_form]. Qed.

Lemma dch_row_eq rw c k cols : cells_ok (cells rw) -> len (cells rw) = cols ->
  1 <= len (cells rw) <= 65535 -> c + k <= len (cells rw) ->
  (do rw' <- iter_res (N.to_nat k) (fun r => row_remove r c) rw; Ok (row_resize rw' cols cell_new)) =
  Ok (mkRow (dch_cells (cells rw) c k) false).
Proof.
  intros Hok <- Hlen Hc. rewrite iter_remove_eq by first [assumption|lia]. cbn [bind].
  rewrite row_resize_eq by lia. f_equal. f_equal.
  assert (cells (if k =? 0 then rw else mkRow (del_cells (cells rw) c k) false) = del_cells (cells rw) c k) as ->.
  { unfold del_cells. destruct (k =? 0); reflexivity. }
  rewrite resize_pad by (rewrite len_del_cells; lia).
  rewrite len_del_cells by lia. replace (len (cells rw) - (len (cells rw) - k)) with k by lia.
  fold (dch_cells (cells rw) c k).
  unfold cut_wide.
  assert (len (dch_cells (cells rw) c k) = len (cells rw)) as L.
  { unfold dch_cells. rewrite len_app, len_repeatN, len_del_cells by lia. lia. }
  rewrite L.
  assert (fw (dch_cells (cells rw) c k) (len (cells rw) - 1) = false) as ->; [|reflexivity].
  unfold dch_cells, del_cells. destruct (N.eqb_spec k 0) as [->|Hk].
  - cbn [repeatN N.to_nat repeat]. rewrite app_nil_r.
    destruct (fw (cells rw) (len (cells rw) - 1)) eqn:E; [|reflexivity].
    apply fw_true in E as (x & Hx & Hw).
    destruct (ok_wide_next _ _ _ Hok Hx Hw) as (d & Hd & _). apply get_some_lt in Hd. lia.
  - unfold fw. rewrite get_app, len_del_form by lia.
    destruct (N.ltb_spec (len (cells rw) - 1) (len (cells rw) - k)); [lia|].
    rewrite get_repeatN. destruct (_ <? k); reflexivity.
Qed.

(* B.1  Grid::delete_cells *)
Theorem delete_cells_closed x n rw : grid_ok x -> get (live x) (prow x) = Some rw ->
  delete_cells x n =
  Ok (with_live x (set_at (live x) (prow x)
        (mkRow (dch_cells (cells rw) (pcol x) (N.min n (gcols x - pcol x))) false))).
Proof.
  intros H Hg. okdims. unfold delete_cells. rewrite sub16_ok by lia. cbn [bind].
  unfold upd_current_row, upd_row, drawing_row. rewrite Hg. cbn [unwrap bind].
  destruct (live_get x (prow x) H Hr) as (rw0 & Hg0 & Hl & Hok).
  assert (rw0 = rw) by congruence; subst rw0.
  rewrite (dch_row_eq rw (pcol x) _ (gcols x)) by (unfold MAXDIM in *; first [assumption|lia]).
  reflexivity.
Qed.
