(* Chunking.v — chunking independence of Parser::process.  Since the repair of finding K04a
   (Parser.process holds back an incomplete utf-8 tail, Parser.pend) it holds for EVERY chunking:
   the bytes that reach vte never trigger vte's own chunk-boundary bug. *)
Require Import Tac Utf8 Vte Screen Perform Parser Utf8Lemmas VteInv VteChunk Pend.
Open Scope N_scope.

Lemma perform_norm rz s a : perform rz s (norm a) = perform rz s a.
Proof.
  destruct a; cbn [norm]; try reflexivity.
  destruct ((128 <=? c) && (c <? 160)) eqn:E; [|reflexivity].
  cbn [perform]. unfold do_print. now rewrite E.
Qed.

Lemma perform_all_norms rz acts : forall s evs, perform_all rz s (norms acts) evs = perform_all rz s acts evs.
Proof.
  induction acts as [|a r IH]; intros s evs; cbn [norms map perform_all]; [reflexivity|].
  rewrite perform_norm. destruct (perform rz s a) as [[s1 e]|k]; cbn [bind]; [apply IH|reflexivity].
Qed.

Lemma perform_all_app rz a : forall b s evs,
  perform_all rz s (a ++ b) evs = (do '(s1, e1) <- perform_all rz s a evs; perform_all rz s1 b e1).
Proof.
  induction a as [|x a IH]; intros b s evs; cbn [app perform_all bind]; [reflexivity|].
  destruct (perform rz s x) as [[s1 e]|k]; cbn [bind]; [apply IH|reflexivity].
Qed.

(* events accumulate: performing with a non-empty accumulator just prefixes it *)
Lemma perform_all_acc rz acts : forall s evs,
  perform_all rz s acts evs = (do '(s1, e) <- perform_all rz s acts []; Ok (s1, evs ++ e)).
Proof.
  induction acts as [|a r IH]; intros s evs; cbn [perform_all bind].
  - now rewrite app_nil_r.
  - destruct (perform rz s a) as [[s1 e]|k]; cbn [bind]; [|reflexivity].
    rewrite (IH s1 (evs ++ e)), (IH s1 ([] ++ e)). cbn [app].
    destruct (perform_all rz s1 r []) as [[s2 e2]|k]; cbn [bind]; [|reflexivity].
    now rewrite app_assoc.
Qed.

(* feed a list of chunks through Parser::process *)
Fixpoint process_chunks (p : parser) (cs : list (list N)) : res parser :=
  match cs with
  | [] => Ok p
  | c :: r => do q <- process p c; process_chunks q r
  end.

(* ---------- the invariant that links vte's partial buffer to the held-back tail ---------- *)

(* [pend p] is empty or an incomplete utf-8 sequence (so at most 3 bytes); vte's state is
   well-formed; and vte's own partial buffer can be non-empty only while bytes are held back.
   NOTE: [partial (vt p) = []] is NOT invariant: process p [195;195] delivers [195] and holds back
   [195] (the two-byte suffix is an error, not incomplete), so vte itself buffers [195].  It is
   harmless, because the next byte vte sees is then the lead byte held back ([k04a_shielded]). *)
Record pend_inv (p : parser) : Prop := mkPendInv {
  pi_pwf : pwf (vt p);
  pi_partial : pend p = [] -> partial (vt p) = [];
  pi_pend : incomplete_tail (pend p) = len (pend p) }.

Lemma pend_inv_len p : pend_inv p -> len (pend p) <= 3.
Proof. intros [_ _ H]. rewrite <- H. apply incomplete_tail_le3. Qed.

Lemma pend_inv_inc p : pend_inv p -> pend p = [] \/ inc (pend p).
Proof. intros [_ _ H]. now apply incomplete_tail_self. Qed.

Lemma pend_inv_new rows cols cap rz p : parser_new rows cols cap rz = Ok p -> pend_inv p.
Proof.
  intros E. unfold parser_new in E. bind_inv E. inv E.
  split; cbn [vt pend]; [exact pwf_init|reflexivity|reflexivity].
Qed.

Lemma parser_new_pend rows cols cap rz p : parser_new rows cols cap rz = Ok p -> pend p = [].
Proof. intros E. unfold parser_new in E. bind_inv E. inv E. reflexivity. Qed.

(* what process hands to vte, and what it keeps *)
Definition delivered (p : parser) (bs : list N) : list N := hd_part (pend p ++ bs).
Definition held (p : parser) (bs : list N) : list N := tl_part (pend p ++ bs).

Lemma process_unfold p bs :
  process p bs =
  (let '(v, acts) := advance (vt p) (delivered p bs) in
   do '(s, evs) <- perform_all (resizing p) (scr p) acts [];
   Ok (mkParser v s (log p ++ evs) (resizing p) (held p bs))).
Proof. reflexivity. Qed.

Lemma delivered_held p bs : delivered p bs ++ held p bs = pend p ++ bs.
Proof. apply hd_tl_part. Qed.

(* nothing held back before, input ending in a complete character: all of it is delivered *)
Lemma delivered_clean p bs : pend p = [] -> incomplete_tail bs = 0 -> delivered p bs = bs.
Proof. intros Hp Z. unfold delivered. rewrite Hp. exact (hd_part_zero _ Z). Qed.

Lemma held_clean p bs : pend p = [] -> incomplete_tail bs = 0 -> held p bs = [].
Proof. intros Hp Z. unfold held. rewrite Hp. exact (tl_part_zero _ Z). Qed.

(* the delivered chunk is empty or starts with a byte that is not a continuation byte whenever
   vte's partial buffer is non-empty *)
Lemma delivered_lead p bs : pend_inv p -> partial (vt p) <> [] ->
  delivered p bs = [] \/ ~ contb (hd 0 (delivered p bs)).
Proof.
  unfold delivered.
  intros I Hp. destruct (pend_inv_inc p I) as [E|E]; [elim Hp; exact (pi_partial p I E)|].
  destruct (hd_part (pend p ++ bs)) as [|d0 d] eqn:Ed; [auto|right].
  assert (H0 : hd 0 (hd_part (pend p ++ bs)) = hd 0 (pend p)).
  { unfold hd_part. rewrite hd_firstnN.
    - apply hd_app. exact (inc_nonnil _ E).
    - assert (len (hd_part (pend p ++ bs)) <> 0) by (rewrite Ed, len_cons; lia).
      rewrite len_hd_part in H. lia. }
  rewrite Ed in H0. rewrite H0. pose proof (inc_hd _ E). unfold contb. lia.
Qed.

(* THE SHIELD: no call of process presents vte with its K04a trigger *)
Theorem k04a_shielded p bs : pend_inv p -> k04a (vt p) (delivered p bs) = false.
Proof.
  intros I. destruct (partial (vt p)) as [|u0 u] eqn:Ep; [unfold k04a; now rewrite Ep|].
  apply k04a_lead; [exact (pi_pwf p I)|]. apply delivered_lead; [exact I|rewrite Ep; discriminate].
Qed.

(* the parser state stays well-formed along any history *)
Lemma process_pwf p bs q : pwf (vt p) -> process p bs = Ok q -> pwf (vt q).
Proof.
  intros W. rewrite process_unfold. pose proof (advance_pwf (vt p) (delivered p bs) W) as W'.
  destruct (advance (vt p) _) as [v a]. cbn [fst] in W'.
  intros E. bind_inv E. destruct v0. inv E. exact W'.
Qed.

Lemma process_pend p bs q : process p bs = Ok q -> pend q = held p bs.
Proof.
  rewrite process_unfold. destruct (advance (vt p) _) as [v a].
  intros E. bind_inv E. destruct v0. inv E. reflexivity.
Qed.

Lemma process_vt p bs q : process p bs = Ok q -> vt q = fst (advance (vt p) (delivered p bs)).
Proof.
  rewrite process_unfold. destruct (advance (vt p) _) as [v a].
  intros E. bind_inv E. destruct v0. inv E. reflexivity.
Qed.

Theorem process_pend_inv p bs q : pend_inv p -> process p bs = Ok q -> pend_inv q.
Proof.
  intros I E. split.
  - exact (process_pwf p bs q (pi_pwf p I) E).
  - rewrite (process_pend p bs q E), (process_vt p bs q E). unfold held, delivered. intros T.
    assert (Z : incomplete_tail (pend p ++ bs) = 0) by (rewrite <- len_tl_part, T; reflexivity).
    rewrite (hd_part_zero _ Z).
    destruct (pend p) as [|x0 x] eqn:Ex.
    + apply advance_partial_nil; [exact (pi_pwf p I)|exact (pi_partial p I Ex)|exact Z].
    + apply advance_partial_nil_lead; [exact (pi_pwf p I)| |exact Z].
      rewrite <- Ex. destruct (pend_inv_inc p I) as [E0|E0]; [congruence|].
      split; [rewrite Ex; discriminate|].
      rewrite hd_app by (rewrite Ex; discriminate). pose proof (inc_hd _ E0). unfold contb. lia.
  - rewrite (process_pend p bs q E). apply tl_part_idem.
Qed.

(* process on a parser that holds nothing back, with input that ends in a complete character:
   everything goes to vte, nothing is held back (the behaviour of the unrepaired process) *)
Lemma process_clean p bs : pend p = [] -> incomplete_tail bs = 0 ->
  process p bs =
  (let '(v, acts) := advance (vt p) bs in
   do '(s, evs) <- perform_all (resizing p) (scr p) acts [];
   Ok (mkParser v s (log p ++ evs) (resizing p) [])).
Proof.
  intros Hp Z. rewrite process_unfold, (delivered_clean _ _ Hp Z), (held_clean _ _ Hp Z). reflexivity.
Qed.

Lemma process_clean_pend p bs q : pend p = [] -> incomplete_tail bs = 0 -> process p bs = Ok q -> pend q = [].
Proof. intros Hp Z E. rewrite (process_pend _ _ _ E). exact (held_clean _ _ Hp Z). Qed.

(* ---------- process in terms of the repaired vte model ---------- *)

(* deliver the complete part of a buffer to advance', keep the rest *)
Definition deliver (p : parser) (buf : list N) : res parser :=
  let '(v, acts) := advance' (vt p) (hd_part buf) in
  do '(s, evs) <- perform_all (resizing p) (scr p) (norms acts) [];
  Ok (mkParser v s (log p ++ evs) (resizing p) (tl_part buf)).

Lemma process_deliver p bs : pend_inv p -> process p bs = deliver p (pend p ++ bs).
Proof.
  intros I. rewrite process_unfold. unfold deliver. fold (delivered p bs). fold (held p bs).
  rewrite (advance_eq_advance' _ _ (k04a_shielded p bs I)).
  destruct (advance' (vt p) _) as [v a]. now rewrite perform_all_norms.
Qed.

Lemma deliver_app p buf c : pwf (vt p) ->
  deliver p (buf ++ c) = (do q <- deliver p buf; deliver q (pend q ++ c)).
Proof.
  intros W. unfold deliver at 1 2.
  rewrite hd_part_app, tl_part_app.
  pose proof (advance'_app (vt p) (hd_part buf) (hd_part (tl_part buf ++ c)) W) as APP.
  destruct (advance' (vt p) (hd_part buf)) as [v1 a1].
  destruct (advance' v1 (hd_part (tl_part buf ++ c))) as [v2 a2] eqn:E2.
  destruct APP as (z & -> & Hz). rewrite Hz, norms_app, perform_all_app.
  destruct (perform_all (resizing p) (scr p) (norms a1) []) as [[s1 e1]|k]; cbn [bind]; [|reflexivity].
  unfold deliver. cbn [vt scr log resizing pend]. rewrite E2.
  rewrite (perform_all_acc _ (norms a2) s1 e1).
  destruct (perform_all (resizing p) s1 (norms a2) []) as [[s2 e2]|k]; cbn [bind]; [|reflexivity].
  now rewrite app_assoc.
Qed.

Lemma deliver_pend p : pend_inv p -> deliver p (pend p) = Ok p.
Proof.
  intros I. unfold deliver.
  rewrite (hd_part_self _ (pi_pend p I)), (tl_part_self _ (pi_pend p I)).
  rewrite (advance'_nil _ (pi_pwf p I)). cbn [norms map perform_all bind]. rewrite app_nil_r.
  destruct p; reflexivity.
Qed.

(* feeding chunks = delivering the concatenation at once *)
Theorem process_chunks_deliver cs : forall p, pend_inv p ->
  process_chunks p cs = deliver p (pend p ++ concat cs).
Proof.
  induction cs as [|c r IH]; intros p I; cbn [process_chunks concat].
  - rewrite app_nil_r. symmetry. exact (deliver_pend p I).
  - rewrite app_assoc, (deliver_app _ _ _ (pi_pwf p I)), <- (process_deliver p c I).
    destruct (process p c) as [q|k] eqn:E; cbn [bind]; [|reflexivity].
    apply IH. exact (process_pend_inv p c q I E).
Qed.

(* chunking independence, no condition on the chunkings *)
Theorem process_chunking_independent p cs1 cs2 :
  pend_inv p -> concat cs1 = concat cs2 -> process_chunks p cs1 = process_chunks p cs2.
Proof. intros I E. rewrite !process_chunks_deliver by exact I. now rewrite E. Qed.

Lemma process_chunks_pend_inv cs : forall p q, pend_inv p -> process_chunks p cs = Ok q -> pend_inv q.
Proof.
  induction cs as [|c r IH]; intros p q I E; cbn [process_chunks] in E; [inv E; exact I|].
  bind_inv E. exact (IH _ _ (process_pend_inv _ _ _ I E0) E).
Qed.
