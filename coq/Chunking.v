(* Chunking.v — chunking independence lifted from the vte model to Parser::process. *)
Require Import Tac Utf8 Vte Screen Perform Parser VteInv VteChunk.
Open Scope N_scope.

Lemma perform_norm rz s a : perform rz s (norm a) = perform rz s a.
Proof.
  destruct a; cbn [norm]; try reflexivity.
  destruct ((128 <=? c) && (c <? 160)) eqn:E; [|reflexivity].
  cbn [perform]. unfold do_print. now rewrite E.
Qed.

Lemma perform_all_norms rz acts : forall s evs, perform_all rz s (norms acts) evs = perform_all rz s acts evs.
Proof.
  induction acts as [|a r IH]; intros s evs; cbn [norms map perform_all]; [reflexivity|].
  rewrite perform_norm. destruct (perform rz s a) as [[s1 e]|k]; cbn [bind]; [apply IH|reflexivity].
Qed.

Lemma perform_all_app rz a : forall b s evs,
  perform_all rz s (a ++ b) evs = (do '(s1, e1) <- perform_all rz s a evs; perform_all rz s1 b e1).
Proof.
  induction a as [|x a IH]; intros b s evs; cbn [app perform_all bind]; [reflexivity|].
  destruct (perform rz s x) as [[s1 e]|k]; cbn [bind]; [apply IH|reflexivity].
Qed.

(* events accumulate: performing with a non-empty accumulator just prefixes it *)
Lemma perform_all_acc rz acts : forall s evs,
  perform_all rz s acts evs = (do '(s1, e) <- perform_all rz s acts []; Ok (s1, evs ++ e)).
Proof.
  induction acts as [|a r IH]; intros s evs; cbn [perform_all bind].
  - now rewrite app_nil_r.
  - destruct (perform rz s a) as [[s1 e]|k]; cbn [bind]; [|reflexivity].
    rewrite (IH s1 (evs ++ e)), (IH s1 ([] ++ e)). cbn [app].
    destruct (perform_all rz s1 r []) as [[s2 e2]|k]; cbn [bind]; [|reflexivity].
    now rewrite app_assoc.
Qed.

(* feed a list of chunks through Parser::process *)
Fixpoint process_chunks (p : parser) (cs : list (list N)) : res parser :=
  match cs with
  | [] => Ok p
  | c :: r => do q <- process p c; process_chunks q r
  end.

(* ... which is the same as performing all actions of advance_chunks at once *)
Lemma process_chunks_eq cs : forall p,
  process_chunks p cs =
  (let '(v, acts) := advance_chunks (vt p) cs in
   do '(s, evs) <- perform_all (resizing p) (scr p) acts [];
   Ok (mkParser v s (log p ++ evs) (resizing p))).
Proof.
  induction cs as [|c r IH]; intros p; cbn [process_chunks advance_chunks].
  - cbn. rewrite app_nil_r. destruct p; reflexivity.
  - unfold process. destruct (advance (vt p) c) as [v1 a1] eqn:E1.
    destruct (advance_chunks v1 r) as [v2 a2] eqn:E2.
    rewrite perform_all_app.
    destruct (perform_all (resizing p) (scr p) a1 []) as [[s1 e1]|k]; cbn [bind]; [|reflexivity].
    rewrite IH. cbn [vt scr log resizing]. rewrite E2.
    rewrite (perform_all_acc _ a2 s1 e1).
    destruct (perform_all (resizing p) s1 a2 []) as [[s2 e2]|k]; cbn [bind]; [|reflexivity].
    now rewrite app_assoc.
Qed.

Theorem process_chunking_independent p cs1 cs2 :
  pwf (vt p) -> concat cs1 = concat cs2 -> clean (vt p) cs1 -> clean (vt p) cs2 ->
  process_chunks p cs1 = process_chunks p cs2.
Proof.
  intros W E C1 C2. rewrite !process_chunks_eq.
  destruct (chunking_independent (vt p) cs1 cs2 W E C1 C2) as [Hs Ha].
  destruct (advance_chunks (vt p) cs1) as [v1 a1], (advance_chunks (vt p) cs2) as [v2 a2].
  cbn [fst snd] in *. subst v2.
  rewrite <- (perform_all_norms _ a1), <- (perform_all_norms _ a2), Ha. reflexivity.
Qed.

(* the parser state stays well-formed along any history *)
Lemma process_pwf p bs q : pwf (vt p) -> process p bs = Ok q -> pwf (vt q).
Proof.
  intros W. unfold process. pose proof (advance_pwf (vt p) bs W) as W'.
  destruct (advance (vt p) bs) as [v a]. cbn [fst] in W'.
  intros E. bind_inv E. destruct v0. inv E. exact W'.
Qed.
