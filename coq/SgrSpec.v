(* SgrSpec.v — property C09: SGR semantics and pen encodings round trip.

   (a) declarative table [sgr_single] and its agreement with [sgr1]; extended colours,
       truncated / out-of-range forms; unknown parameters are skipped;
   (b) sequencing of [sgr] over a concatenation ([sgr_run], [sgr_steps]);
   (c) encoder round trip for [sgr_diff]  (C09_diff);
   (d) attributes_formatted                (C09_attributes_formatted);
   (e) [pen_ok] is an invariant of [sgr];
   (f) finite sweep 0..=255 as a sanity theorem. *)
Require Import Tac Attrs Screen Vte Perform Term Emit.
Open Scope N_scope.

(* The parameter list with which a token [TCsi false ps 109] reaches do_csi. *)
Definition csi_params (ps : list N) : list (list N) :=
  match ps with [] => [[0]] | _ => map (fun x => [x]) ps end.

(* evaluate comparisons between two numeric literals only (Tac.gsimp's [is_ground] also accepts
   variables) *)
Ltac is_pos_lit p :=
  lazymatch p with xH => idtac | xO ?q => is_pos_lit q | xI ?q => is_pos_lit q end.
Ltac is_N_lit n := lazymatch n with N0 => idtac | Npos ?p => is_pos_lit p end.
Ltac lsimp :=
  repeat match goal with
  | |- context[N.eqb ?a ?b] => is_N_lit a; is_N_lit b;
      let v := eval vm_compute in (N.eqb a b) in change (N.eqb a b) with v
  | |- context[N.leb ?a ?b] => is_N_lit a; is_N_lit b;
      let v := eval vm_compute in (N.leb a b) in change (N.leb a b) with v
  | |- context[N.ltb ?a ?b] => is_N_lit a; is_N_lit b;
      let v := eval vm_compute in (N.ltb a b) in change (N.ltb a b) with v
  end; cbv beta iota delta [andb orb negb].

(* ------------------------------------------------------------------------------------------ *)
(** * Small facts *)

Lemma u8_le : forall n, n <= 255 -> u8 n = Some n.
Proof. intros n H. unfold u8. destruct (N.leb_spec n 255); [reflexivity | lia]. Qed.

Lemma u8_gt : forall n, 255 < n -> u8 n = None.
Proof. intros n H. unfold u8. destruct (N.leb_spec n 255); [lia | reflexivity]. Qed.

Lemma u8_some : forall n m, u8 n = Some m -> m = n /\ n <= 255.
Proof.
  intros n m H. unfold u8 in H. destruct (N.leb_spec n 255) as [L|L]; [|discriminate].
  inv H. split; [reflexivity | exact L].
Qed.

(* ------------------------------------------------------------------------------------------ *)
(** * Reflection of the boolean equalities of Attrs.v *)

Lemma color_eqb_eq : forall a b, color_eqb a b = true <-> a = b.
Proof.
  intros a b; split.
  - destruct a as [|i|r g b0], b as [|j|r' g' b']; cbn [color_eqb]; intros H;
      try discriminate; try reflexivity.
    + apply N.eqb_eq in H. subst; reflexivity.
    + apply andb_true_iff in H. destruct H as [H Hb]. apply andb_true_iff in H. destruct H as [Hr Hg].
      apply N.eqb_eq in Hr, Hg, Hb. subst; reflexivity.
  - intros <-. destruct a as [|i|r g b0]; cbn [color_eqb]; rewrite ?N.eqb_refl; reflexivity.
Qed.

Lemma color_eqb_refl : forall a, color_eqb a a = true.
Proof. intros a. apply color_eqb_eq. reflexivity. Qed.

Lemma color_eqb_neq : forall a b, color_eqb a b = false <-> a <> b.
Proof.
  intros a b. split.
  - intros H E. apply color_eqb_eq in E. congruence.
  - intros H. destruct (color_eqb a b) eqn:E; [|reflexivity]. apply color_eqb_eq in E. contradiction.
Qed.

Lemma intensity_eqb_eq : forall a b, intensity_eqb a b = true <-> a = b.
Proof. intros a b; split; [destruct a, b; cbn; congruence | intros <-; destruct a; reflexivity]. Qed.

Lemma intensity_eqb_neq : forall a b, intensity_eqb a b = false <-> a <> b.
Proof.
  intros a b. split.
  - intros H E. apply intensity_eqb_eq in E. congruence.
  - intros H. destruct (intensity_eqb a b) eqn:E; [|reflexivity]. apply intensity_eqb_eq in E. contradiction.
Qed.

Lemma bool_eqb_eq : forall a b, Bool.eqb a b = true <-> a = b.
Proof. intros a b. split; [apply eqb_prop | intros <-; apply eqb_reflx]. Qed.

Lemma attrs_eqb_eq : forall a b, attrs_eqb a b = true <-> a = b.
Proof.
  intros a b; split.
  - unfold attrs_eqb. intros H.
    destruct a as [f1 b1 i1 t1 u1 v1], b as [f2 b2 i2 t2 u2 v2]. cbn [fg bg inten italic underline inverse] in H.
    apply andb_true_iff in H; destruct H as [H Hv].
    apply andb_true_iff in H; destruct H as [H Hu].
    apply andb_true_iff in H; destruct H as [H Ht].
    apply andb_true_iff in H; destruct H as [H Hi].
    apply andb_true_iff in H; destruct H as [Hf Hb].
    apply (proj1 (color_eqb_eq _ _)) in Hf. apply (proj1 (color_eqb_eq _ _)) in Hb.
    apply (proj1 (intensity_eqb_eq _ _)) in Hi.
    apply eqb_prop in Ht. apply eqb_prop in Hu. apply eqb_prop in Hv. subst. reflexivity.
  - intros <-. unfold attrs_eqb. rewrite !color_eqb_refl, !eqb_reflx.
    rewrite (proj2 (intensity_eqb_eq _ _) eq_refl). reflexivity.
Qed.

Lemma attrs_eqb_neq : forall a b, attrs_eqb a b = false <-> a <> b.
Proof.
  intros a b. split.
  - intros H E. apply attrs_eqb_eq in E. congruence.
  - intros H. destruct (attrs_eqb a b) eqn:E; [|reflexivity]. apply attrs_eqb_eq in E. contradiction.
Qed.

Lemma attrs_eq_dec : forall a b : attrs, {a = b} + {a <> b}.
Proof.
  intros a b. destruct (attrs_eqb a b) eqn:E.
  - left. apply attrs_eqb_eq, E.
  - right. apply attrs_eqb_neq, E.
Qed.

(* ------------------------------------------------------------------------------------------ *)
(** * (a) The declarative single-parameter table *)

(* One line per clause of the property text: an inclusive range of parameter values and the
   effect of parameter n of that range on the pen.  38 and 48 are not in the table. *)
Definition sgr_table : list (N * N * (N -> attrs -> attrs)) :=
  [ (0,   0,   fun _ _ => dflt);                       (* reset *)
    (1,   1,   fun _ => set_inten IBold);              (* bold *)
    (2,   2,   fun _ => set_inten IDim);               (* dim *)
    (3,   3,   fun _ => set_italic true);
    (4,   4,   fun _ => set_underline true);
    (7,   7,   fun _ => set_inverse true);
    (22,  22,  fun _ => set_inten INormal);            (* normal intensity *)
    (23,  23,  fun _ => set_italic false);
    (24,  24,  fun _ => set_underline false);
    (27,  27,  fun _ => set_inverse false);
    (30,  37,  fun n => set_fg (CIdx (n - 30)));       (* colours 0-7 *)
    (39,  39,  fun _ => set_fg CDefault);
    (40,  47,  fun n => set_bg (CIdx (n - 40)));
    (49,  49,  fun _ => set_bg CDefault);
    (90,  97,  fun n => set_fg (CIdx (n - 90 + 8)));   (* bright colours 8-15 *)
    (100, 107, fun n => set_bg (CIdx (n - 100 + 8))) ].

Definition in_entry (n : N) (e : N * N * (N -> attrs -> attrs)) : bool :=
  (fst (fst e) <=? n) && (n <=? snd (fst e)).

Definition sgr_single (n : N) (a : attrs) : option attrs :=
  match find (in_entry n) sgr_table with
  | Some e => Some (snd e n a)
  | None => None
  end.

(* the set of recognised single parameters, as a boolean *)
Definition sgr_known (n : N) : bool := existsb (in_entry n) sgr_table.

Lemma sgr_single_known : forall n a, sgr_single n a = None <-> sgr_known n = false.
Proof.
  intros n a. unfold sgr_single, sgr_known.
  induction sgr_table as [|e t IH]; cbn [find existsb].
  - split; reflexivity.
  - destruct (in_entry n e); cbn [orb]; [split; discriminate | exact IH].
Qed.

(* enumeration of an initial segment of N *)
Lemma N_below_Forall : forall (P : N -> Prop) (m : nat),
  Forall P (map N.of_nat (seq 0 m)) -> forall n, n < N.of_nat m -> P n.
Proof.
  intros P m F n H. rewrite Forall_forall in F. apply F. apply in_map_iff.
  exists (N.to_nat n). split; [lia|]. apply in_seq. lia.
Qed.

(* rewrite every comparison of the variable n against a literal, given bounds on n in context *)
Ltac cmp_lits n :=
  repeat match goal with
  | |- context[N.eqb n ?k] =>
      first [ replace (N.eqb n k) with false by (symmetry; apply N.eqb_neq; lia)
            | replace (N.eqb n k) with true by (symmetry; apply N.eqb_eq; lia) ]
  | |- context[N.leb n ?k] =>
      first [ replace (N.leb n k) with false by (symmetry; apply N.leb_gt; lia)
            | replace (N.leb n k) with true by (symmetry; apply N.leb_le; lia) ]
  | |- context[N.leb ?k n] =>
      first [ replace (N.leb k n) with true by (symmetry; apply N.leb_le; lia)
            | replace (N.leb k n) with false by (symmetry; apply N.leb_gt; lia) ]
  end.

Theorem sgr1_single : forall n rest a, n <> 38 -> n <> 48 ->
  sgr1 [n] rest a =
  match sgr_single n a with Some a' => SCont a' rest 0 | None => SCont a rest 1 end.
Proof.
  intros n rest a. destruct (N.lt_ge_cases n 108) as [L|L].
  - revert n L.
    refine (N_below_Forall
      (fun n => n <> 38 -> n <> 48 ->
         sgr1 [n] rest a =
         match sgr_single n a with Some a' => SCont a' rest 0 | None => SCont a rest 1 end)
      108%nat _).
    let l := eval vm_compute in (map N.of_nat (seq 0 108)) in
    change (map N.of_nat (seq 0 108)) with l.
    repeat (apply Forall_cons;
      [ cbv beta; intros H38 H48;
        first [ reflexivity | exfalso; apply H38; reflexivity | exfalso; apply H48; reflexivity ] | ]).
    apply Forall_nil.
  - intros _ _. cbv [sgr1 sgr_single sgr_table find in_entry fst snd].
    cmp_lits n. reflexivity.
Qed.

(* closed forms for each clause of the table (used by the encoder round trip) *)
Lemma sgr_single_None_ge : forall n a, 108 <= n -> sgr_single n a = None.
Proof. intros n a L. cbv [sgr_single sgr_table find in_entry fst snd]. cmp_lits n. reflexivity. Qed.

Lemma sgr1_reset : forall rest a, sgr1 [0] rest a = SCont dflt rest 0.
Proof. reflexivity. Qed.
Lemma sgr1_bold : forall rest a, sgr1 [1] rest a = SCont (set_inten IBold a) rest 0.
Proof. reflexivity. Qed.
Lemma sgr1_dim : forall rest a, sgr1 [2] rest a = SCont (set_inten IDim a) rest 0.
Proof. reflexivity. Qed.
Lemma sgr1_normal : forall rest a, sgr1 [22] rest a = SCont (set_inten INormal a) rest 0.
Proof. reflexivity. Qed.
Lemma sgr1_italic : forall (v : bool) rest a,
  sgr1 [if v then 3 else 23] rest a = SCont (set_italic v a) rest 0.
Proof. intros [|]; reflexivity. Qed.
Lemma sgr1_underline : forall (v : bool) rest a,
  sgr1 [if v then 4 else 24] rest a = SCont (set_underline v a) rest 0.
Proof. intros [|]; reflexivity. Qed.
Lemma sgr1_inverse : forall (v : bool) rest a,
  sgr1 [if v then 7 else 27] rest a = SCont (set_inverse v a) rest 0.
Proof. intros [|]; reflexivity. Qed.
Lemma sgr1_fg_default : forall rest a, sgr1 [39] rest a = SCont (set_fg CDefault a) rest 0.
Proof. reflexivity. Qed.
Lemma sgr1_bg_default : forall rest a, sgr1 [49] rest a = SCont (set_bg CDefault a) rest 0.
Proof. reflexivity. Qed.

Lemma sgr1_fg_low : forall i rest a, i < 8 ->
  sgr1 [i + 30] rest a = SCont (set_fg (CIdx i) a) rest 0.
Proof.
  intros i rest a H. remember (i + 30) as n eqn:En. replace i with (n - 30) by lia.
  assert (L : 30 <= n <= 37) by lia. clear En H. unfold sgr1. cmp_lits n. reflexivity.
Qed.
Lemma sgr1_bg_low : forall i rest a, i < 8 ->
  sgr1 [i + 40] rest a = SCont (set_bg (CIdx i) a) rest 0.
Proof.
  intros i rest a H. remember (i + 40) as n eqn:En. replace i with (n - 40) by lia.
  assert (L : 40 <= n <= 47) by lia. clear En H. unfold sgr1. cmp_lits n. reflexivity.
Qed.
Lemma sgr1_fg_bright : forall i rest a, 8 <= i < 16 ->
  sgr1 [i + 82] rest a = SCont (set_fg (CIdx i) a) rest 0.
Proof.
  intros i rest a H. remember (i + 82) as n eqn:En. replace i with (n - 82) by lia.
  assert (L : 90 <= n <= 97) by lia. clear En H. unfold sgr1. cmp_lits n. reflexivity.
Qed.
Lemma sgr1_bg_bright : forall i rest a, 8 <= i < 16 ->
  sgr1 [i + 92] rest a = SCont (set_bg (CIdx i) a) rest 0.
Proof.
  intros i rest a H. remember (i + 92) as n eqn:En. replace i with (n - 92) by lia.
  assert (L : 100 <= n <= 107) by lia. clear En H. unfold sgr1. cmp_lits n. reflexivity.
Qed.

(* Intensity: bold, dim and normal are mutually exclusive. *)
Lemma bold_dim_exclusive : forall a, bold a && dim a = false.
Proof. intros a. unfold bold, dim. destruct (inten a); reflexivity. Qed.

Theorem sgr_intensity_exclusive : forall rest a,
  (exists a', sgr1 [1] rest a = SCont a' rest 0 /\ bold a' = true /\ dim a' = false) /\
  (exists a', sgr1 [2] rest a = SCont a' rest 0 /\ bold a' = false /\ dim a' = true) /\
  (exists a', sgr1 [22] rest a = SCont a' rest 0 /\ bold a' = false /\ dim a' = false).
Proof.
  intros rest a. split; [|split]; eexists; (split; [reflexivity|]); split; reflexivity.
Qed.

Theorem sgr_single_intensity : forall a,
  (forall a', sgr_single 1 a = Some a' -> bold a' = true /\ dim a' = false) /\
  (forall a', sgr_single 2 a = Some a' -> bold a' = false /\ dim a' = true) /\
  (forall a', sgr_single 22 a = Some a' -> bold a' = false /\ dim a' = false).
Proof.
  intros a. split; [|split]; intros a' H; vm_compute in H; inv H; split; reflexivity.
Qed.

(* the other switches touch nothing else *)
Lemma sgr_single_switches : forall a,
  sgr_single 3 a = Some (set_italic true a) /\ sgr_single 23 a = Some (set_italic false a) /\
  sgr_single 4 a = Some (set_underline true a) /\ sgr_single 24 a = Some (set_underline false a) /\
  sgr_single 7 a = Some (set_inverse true a) /\ sgr_single 27 a = Some (set_inverse false a) /\
  sgr_single 0 a = Some dflt /\
  sgr_single 39 a = Some (set_fg CDefault a) /\ sgr_single 49 a = Some (set_bg CDefault a).
Proof. intros a. repeat split. Qed.

(** ** Extended colours: 38 / 48 *)

(* semicolon forms: total description, then the in-range / out-of-range corollaries *)
Lemma sgr1_38_5_gen : forall i rest a,
  sgr1 [38] ([5] :: [i] :: rest) a =
  if i <=? 255 then SCont (set_fg (CIdx i) a) rest 0 else SStop a 0.
Proof. intros. cbv [sgr1 ext_color single u8]. lsimp. dcmp; reflexivity. Qed.
Lemma sgr1_48_5_gen : forall i rest a,
  sgr1 [48] ([5] :: [i] :: rest) a =
  if i <=? 255 then SCont (set_bg (CIdx i) a) rest 0 else SStop a 0.
Proof. intros. cbv [sgr1 ext_color single u8]. lsimp. dcmp; reflexivity. Qed.
Lemma sgr1_38_2_gen : forall r g b rest a,
  sgr1 [38] ([2] :: [r] :: [g] :: [b] :: rest) a =
  if (r <=? 255) && (g <=? 255) && (b <=? 255)
  then SCont (set_fg (CRgb r g b) a) rest 0 else SStop a 0.
Proof.
  intros. cbv [sgr1 ext_color single u8]. lsimp.
  destruct (r <=? 255); [|reflexivity]. destruct (g <=? 255); [|reflexivity].
  destruct (b <=? 255); reflexivity.
Qed.
Lemma sgr1_48_2_gen : forall r g b rest a,
  sgr1 [48] ([2] :: [r] :: [g] :: [b] :: rest) a =
  if (r <=? 255) && (g <=? 255) && (b <=? 255)
  then SCont (set_bg (CRgb r g b) a) rest 0 else SStop a 0.
Proof.
  intros. cbv [sgr1 ext_color single u8]. lsimp.
  destruct (r <=? 255); [|reflexivity]. destruct (g <=? 255); [|reflexivity].
  destruct (b <=? 255); reflexivity.
Qed.

Ltac leb_true := repeat match goal with
  | H : ?x <= 255 |- context[?x <=? 255] => rewrite (proj2 (N.leb_le x 255) H) end.

Theorem sgr1_38_5 : forall i rest a, i <= 255 ->
  sgr1 [38] ([5] :: [i] :: rest) a = SCont (set_fg (CIdx i) a) rest 0.
Proof. intros i rest a H. rewrite sgr1_38_5_gen. leb_true. reflexivity. Qed.
Theorem sgr1_48_5 : forall i rest a, i <= 255 ->
  sgr1 [48] ([5] :: [i] :: rest) a = SCont (set_bg (CIdx i) a) rest 0.
Proof. intros i rest a H. rewrite sgr1_48_5_gen. leb_true. reflexivity. Qed.
Theorem sgr1_38_2 : forall r g b rest a, r <= 255 -> g <= 255 -> b <= 255 ->
  sgr1 [38] ([2] :: [r] :: [g] :: [b] :: rest) a = SCont (set_fg (CRgb r g b) a) rest 0.
Proof. intros r g b rest a Hr Hg Hb. rewrite sgr1_38_2_gen. leb_true. reflexivity. Qed.
Theorem sgr1_48_2 : forall r g b rest a, r <= 255 -> g <= 255 -> b <= 255 ->
  sgr1 [48] ([2] :: [r] :: [g] :: [b] :: rest) a = SCont (set_bg (CRgb r g b) a) rest 0.
Proof. intros r g b rest a Hr Hg Hb. rewrite sgr1_48_2_gen. leb_true. reflexivity. Qed.

(* out-of-range component: stop, nothing reported, pen unchanged *)
Theorem sgr1_38_5_range : forall i rest a, 255 < i -> sgr1 [38] ([5] :: [i] :: rest) a = SStop a 0.
Proof. intros i rest a H. rewrite sgr1_38_5_gen. destruct (N.leb_spec i 255); [lia | reflexivity]. Qed.
Theorem sgr1_48_5_range : forall i rest a, 255 < i -> sgr1 [48] ([5] :: [i] :: rest) a = SStop a 0.
Proof. intros i rest a H. rewrite sgr1_48_5_gen. destruct (N.leb_spec i 255); [lia | reflexivity]. Qed.
Theorem sgr1_38_2_range : forall r g b rest a, 255 < r \/ 255 < g \/ 255 < b ->
  sgr1 [38] ([2] :: [r] :: [g] :: [b] :: rest) a = SStop a 0.
Proof.
  intros r g b rest a H. rewrite sgr1_38_2_gen.
  destruct (N.leb_spec r 255), (N.leb_spec g 255), (N.leb_spec b 255); try reflexivity; lia.
Qed.
Theorem sgr1_48_2_range : forall r g b rest a, 255 < r \/ 255 < g \/ 255 < b ->
  sgr1 [48] ([2] :: [r] :: [g] :: [b] :: rest) a = SStop a 0.
Proof.
  intros r g b rest a H. rewrite sgr1_48_2_gen.
  destruct (N.leb_spec r 255), (N.leb_spec g 255), (N.leb_spec b 255); try reflexivity; lia.
Qed.

(* colon (sub-parameter) forms *)
Lemma sgr1_colon_5_gen : forall i rest a,
  sgr1 [38; 5; i] rest a = (if i <=? 255 then SCont (set_fg (CIdx i) a) rest 0 else SStop a 0) /\
  sgr1 [48; 5; i] rest a = (if i <=? 255 then SCont (set_bg (CIdx i) a) rest 0 else SStop a 0).
Proof. intros. cbv [sgr1 u8]. lsimp. split; dcmp; reflexivity. Qed.
Lemma sgr1_colon_2_gen : forall r g b rest a,
  sgr1 [38; 2; r; g; b] rest a =
    (if (r <=? 255) && (g <=? 255) && (b <=? 255)
     then SCont (set_fg (CRgb r g b) a) rest 0 else SStop a 0) /\
  sgr1 [48; 2; r; g; b] rest a =
    (if (r <=? 255) && (g <=? 255) && (b <=? 255)
     then SCont (set_bg (CRgb r g b) a) rest 0 else SStop a 0).
Proof.
  intros. cbv [sgr1 rgb_or_stop u8]. lsimp.
  split; (destruct (r <=? 255); [|reflexivity]); (destruct (g <=? 255); [|reflexivity]);
    destruct (b <=? 255); reflexivity.
Qed.

Theorem sgr1_38_colon_5 : forall i rest a, i <= 255 ->
  sgr1 [38; 5; i] rest a = SCont (set_fg (CIdx i) a) rest 0.
Proof. intros i rest a H. rewrite (proj1 (sgr1_colon_5_gen _ _ _)). leb_true. reflexivity. Qed.
Theorem sgr1_48_colon_5 : forall i rest a, i <= 255 ->
  sgr1 [48; 5; i] rest a = SCont (set_bg (CIdx i) a) rest 0.
Proof. intros i rest a H. rewrite (proj2 (sgr1_colon_5_gen _ _ _)). leb_true. reflexivity. Qed.
Theorem sgr1_38_colon_2 : forall r g b rest a, r <= 255 -> g <= 255 -> b <= 255 ->
  sgr1 [38; 2; r; g; b] rest a = SCont (set_fg (CRgb r g b) a) rest 0.
Proof. intros r g b rest a Hr Hg Hb. rewrite (proj1 (sgr1_colon_2_gen _ _ _ _ _)). leb_true. reflexivity. Qed.
Theorem sgr1_48_colon_2 : forall r g b rest a, r <= 255 -> g <= 255 -> b <= 255 ->
  sgr1 [48; 2; r; g; b] rest a = SCont (set_bg (CRgb r g b) a) rest 0.
Proof. intros r g b rest a Hr Hg Hb. rewrite (proj2 (sgr1_colon_2_gen _ _ _ _ _)). leb_true. reflexivity. Qed.

Theorem sgr1_colon_5_range : forall i rest a, 255 < i ->
  sgr1 [38; 5; i] rest a = SStop a 0 /\ sgr1 [48; 5; i] rest a = SStop a 0.
Proof.
  intros i rest a H. destruct (sgr1_colon_5_gen i rest a) as [E1 E2]. rewrite E1, E2.
  destruct (N.leb_spec i 255); [lia | split; reflexivity].
Qed.
Theorem sgr1_colon_2_range : forall r g b rest a, 255 < r \/ 255 < g \/ 255 < b ->
  sgr1 [38; 2; r; g; b] rest a = SStop a 0 /\ sgr1 [48; 2; r; g; b] rest a = SStop a 0.
Proof.
  intros r g b rest a H. destruct (sgr1_colon_2_gen r g b rest a) as [E1 E2]. rewrite E1, E2.
  destruct (N.leb_spec r 255), (N.leb_spec g 255), (N.leb_spec b 255);
    try (split; reflexivity); lia.
Qed.

(* truncated forms: stop, nothing reported, pen unchanged *)
Theorem sgr1_38_truncated : forall a r g,
  sgr1 [38] [] a = SStop a 0 /\
  sgr1 [38] [[5]] a = SStop a 0 /\
  sgr1 [38] [[2]] a = SStop a 0 /\
  sgr1 [38] [[2]; [r]] a = SStop a 0 /\
  sgr1 [38] [[2]; [r]; [g]] a = SStop a 0.
Proof.
  intros a r g. cbv [sgr1 ext_color single u8]. lsimp.
  repeat split; try reflexivity.
  - destruct (r <=? 255); reflexivity.
  - destruct (r <=? 255); [|reflexivity]. destruct (g <=? 255); reflexivity.
Qed.
Theorem sgr1_48_truncated : forall a r g,
  sgr1 [48] [] a = SStop a 0 /\
  sgr1 [48] [[5]] a = SStop a 0 /\
  sgr1 [48] [[2]] a = SStop a 0 /\
  sgr1 [48] [[2]; [r]] a = SStop a 0 /\
  sgr1 [48] [[2]; [r]; [g]] a = SStop a 0.
Proof.
  intros a r g. cbv [sgr1 ext_color single u8]. lsimp.
  repeat split; try reflexivity.
  - destruct (r <=? 255); reflexivity.
  - destruct (r <=? 255); [|reflexivity]. destruct (g <=? 255); reflexivity.
Qed.

(* a selector other than 2 or 5 (or one that carries sub-parameters): stop, ONE report,
   and everything after it is ignored *)
Theorem sgr1_38_bad_selector : forall x rest a, x <> 2 -> x <> 5 ->
  sgr1 [38] ([x] :: rest) a = SStop a 1.
Proof.
  intros x rest a H2 H5. cbv [sgr1 ext_color single]. lsimp.
  destruct (N.eqb_spec x 2); [contradiction|]. destruct (N.eqb_spec x 5); [contradiction|]. reflexivity.
Qed.
Theorem sgr1_48_bad_selector : forall x rest a, x <> 2 -> x <> 5 ->
  sgr1 [48] ([x] :: rest) a = SStop a 1.
Proof.
  intros x rest a H2 H5. cbv [sgr1 ext_color single]. lsimp.
  destruct (N.eqb_spec x 2); [contradiction|]. destruct (N.eqb_spec x 5); [contradiction|]. reflexivity.
Qed.
Theorem sgr1_ext_nonsingle_selector : forall p rest a, single p = None ->
  sgr1 [38] (p :: rest) a = SStop a 1 /\ sgr1 [48] (p :: rest) a = SStop a 1.
Proof. intros p rest a H. cbv [sgr1 ext_color]. lsimp. rewrite H. split; reflexivity. Qed.

(** ** Unknown parameters are skipped without affecting later ones *)

Theorem sgr_loop_skip : forall p rest a, sgr1 p rest a = SCont a rest 1 ->
  forall fuel u, sgr_loop (S fuel) (p :: rest) a u = sgr_loop fuel rest a (u + 1).
Proof. intros p rest a H fuel u. cbn [sgr_loop]. rewrite H. reflexivity. Qed.

(* classification: every single parameter outside the table (and not 38 / 48) is skipped ... *)
Theorem sgr1_unknown_single : forall n rest a, n <> 38 -> n <> 48 -> sgr_known n = false ->
  sgr1 [n] rest a = SCont a rest 1.
Proof.
  intros n rest a H38 H48 K. rewrite sgr1_single by assumption.
  rewrite (proj2 (sgr_single_known n a) K). reflexivity.
Qed.

(* ... [sgr_known] is exactly the list of the property text ... *)
Theorem sgr_known_spec : forall n,
  sgr_known n = true <->
  (n = 0 \/ n = 1 \/ n = 2 \/ n = 3 \/ n = 4 \/ n = 7 \/ n = 22 \/ n = 23 \/ n = 24 \/ n = 27 \/
   30 <= n <= 37 \/ n = 39 \/ 40 <= n <= 47 \/ n = 49 \/ 90 <= n <= 97 \/ 100 <= n <= 107).
Proof.
  intros n. cbv [sgr_known sgr_table existsb in_entry fst snd]. lia.
Qed.

(* ... and so is every parameter with sub-parameters that is not one of the colon colour forms *)
Theorem sgr1_unknown_shape : forall p rest a,
  length p <> 1%nat -> length p <> 3%nat -> length p <> 5%nat -> sgr1 p rest a = SCont a rest 1.
Proof.
  intros p rest a H1 H3 H5.
  destruct p as [|x0 [|x1 [|x2 [|x3 [|x4 [|x5 p]]]]]]; cbn [length] in *; try congruence; reflexivity.
Qed.
Theorem sgr1_unknown_colon3 : forall x y i rest a,
  ~ ((x = 38 \/ x = 48) /\ y = 5) -> sgr1 [x; y; i] rest a = SCont a rest 1.
Proof.
  intros x y i rest a H. unfold sgr1.
  destruct (N.eqb_spec x 38), (N.eqb_spec x 48), (N.eqb_spec y 5); cbn [andb]; try reflexivity;
    exfalso; apply H; lia.
Qed.
Theorem sgr1_unknown_colon5 : forall x y r g b rest a,
  ~ ((x = 38 \/ x = 48) /\ y = 2) -> sgr1 [x; y; r; g; b] rest a = SCont a rest 1.
Proof.
  intros x y r g b rest a H. unfold sgr1.
  destruct (N.eqb_spec x 38), (N.eqb_spec x 48), (N.eqb_spec y 2); cbn [andb]; try reflexivity;
    exfalso; apply H; lia.
Qed.

(** ** Reset *)
Theorem sgr_nil : forall a, sgr [] a = (dflt, 0).
Proof. reflexivity. Qed.
Theorem sgr_zero : forall a, sgr [[0]] a = (dflt, 0).
Proof. reflexivity. Qed.
Theorem sgr_csi_params_nil : forall a, sgr (csi_params []) a = (dflt, 0).
Proof. reflexivity. Qed.

(* ------------------------------------------------------------------------------------------ *)
(** * (b) Sequencing *)

(* What one step consumes: if [sgr1] continues, it has eaten a prefix [pre] of the remaining
   parameters, and it behaves the same whatever follows that prefix. *)
Lemma ext_color_consumes : forall rest a setc a' rest' k,
  ext_color rest a setc = SCont a' rest' k ->
  exists pre, rest = pre ++ rest' /\
    forall tl, ext_color (pre ++ tl) a setc = SCont a' tl k.
Proof.
  intros rest a setc a' rest' k H. unfold ext_color in H.
  destruct rest as [|p1 rest1]; [discriminate|].
  destruct (single p1) as [n1|] eqn:E1; [|discriminate].
  destruct (n1 =? 2) eqn:En2.
  - destruct rest1 as [|pr rest2]; [discriminate|].
    destruct (single pr) as [r|] eqn:Er; [|discriminate].
    destruct (u8 r) as [r'|] eqn:Ur; [|discriminate].
    destruct rest2 as [|pg rest3]; [discriminate|].
    destruct (single pg) as [gg|] eqn:Eg; [|discriminate].
    destruct (u8 gg) as [g'|] eqn:Ug; [|discriminate].
    destruct rest3 as [|pb rest4]; [discriminate|].
    destruct (single pb) as [b|] eqn:Eb; [|discriminate].
    destruct (u8 b) as [b'|] eqn:Ub; [|discriminate].
    inv H. exists [p1; pr; pg; pb]. split; [reflexivity|].
    intros tl. unfold ext_color. cbn [app]. rewrite E1, En2, Er, Ur, Eg, Ug, Eb, Ub. reflexivity.
  - destruct (n1 =? 5) eqn:En5; [|discriminate].
    destruct rest1 as [|pi rest2]; [discriminate|].
    destruct (single pi) as [i|] eqn:Ei; [|discriminate].
    destruct (u8 i) as [i'|] eqn:Ui; [|discriminate].
    inv H. exists [p1; pi]. split; [reflexivity|].
    intros tl. unfold ext_color. cbn [app]. rewrite E1, En2, En5, Ei, Ui. reflexivity.
Qed.

Lemma sgr1_consumes : forall p rest a a' rest' k,
  sgr1 p rest a = SCont a' rest' k ->
  exists pre, rest = pre ++ rest' /\ forall tl, sgr1 p (pre ++ tl) a = SCont a' tl k.
Proof.
  intros p rest a a' rest' k H.
  assert (Triv : forall (c : bool) x y z, (if c then SCont x rest y else z) = SCont a' rest' k ->
                 c = true -> rest' = rest) by (intros c x y z E ->; inv E; reflexivity).
  destruct p as [|x0 [|x1 [|x2 [|x3 [|x4 [|x5 p]]]]]].
  1, 3, 5, 7: (inv H; exists []; split; [reflexivity | intros tl; reflexivity]).
  - (* [n] *)
    destruct (N.eqb_spec x0 38) as [->|N38].
    { change (sgr1 [38] rest a) with (ext_color rest a (fun c => set_fg c a)) in H.
      apply ext_color_consumes in H. destruct H as (pre & E & F). exists pre. split; [exact E|].
      intros tl. exact (F tl). }
    destruct (N.eqb_spec x0 48) as [->|N48].
    { change (sgr1 [48] rest a) with (ext_color rest a (fun c => set_bg c a)) in H.
      apply ext_color_consumes in H. destruct H as (pre & E & F). exists pre. split; [exact E|].
      intros tl. exact (F tl). }
    rewrite sgr1_single in H by assumption.
    exists []. cbn [app]. split.
    + destruct (sgr_single x0 a); inv H; reflexivity.
    + intros tl. rewrite sgr1_single by assumption. destruct (sgr_single x0 a); inv H; reflexivity.
  - (* [x; y; i] *)
    exists []. cbn [app]. unfold sgr1 in *.
    destruct ((x0 =? 38) && (x1 =? 5)); [destruct (u8 x2); [|discriminate]|];
      [| destruct ((x0 =? 48) && (x1 =? 5)); [destruct (u8 x2); [|discriminate]|]];
      inv H; (split; [reflexivity | intros tl; reflexivity]).
  - (* [x; y; r; g; b] *)
    exists []. cbn [app]. unfold sgr1, rgb_or_stop in *.
    destruct ((x0 =? 38) && (x1 =? 2)); [|destruct ((x0 =? 48) && (x1 =? 2))];
      try (destruct (u8 x2); [|discriminate]; destruct (u8 x3); [|discriminate];
           destruct (u8 x4); [|discriminate]);
      inv H; (split; [reflexivity | intros tl; reflexivity]).
Qed.

Lemma sgr1_rest_app : forall p rest a a' rest' k qs,
  sgr1 p rest a = SCont a' rest' k -> sgr1 p (rest ++ qs) a = SCont a' (rest' ++ qs) k.
Proof.
  intros p rest a a' rest' k qs H. apply sgr1_consumes in H. destruct H as (pre & -> & F).
  rewrite <- app_assoc. apply F.
Qed.

Lemma sgr1_rest_len : forall p rest a a' rest' k,
  sgr1 p rest a = SCont a' rest' k -> (length rest' <= length rest)%nat.
Proof.
  intros p rest a a' rest' k H. apply sgr1_consumes in H. destruct H as (pre & -> & _).
  rewrite app_length. lia.
Qed.

(* the fuel of [sgr_loop] is irrelevant once it covers the list *)
Lemma sgr_loop_fuel : forall f1 f2 ps a u,
  (length ps <= f1)%nat -> (length ps <= f2)%nat -> sgr_loop f1 ps a u = sgr_loop f2 ps a u.
Proof.
  induction f1 as [|f1 IH]; intros f2 ps a u L1 L2.
  - destruct ps; [|cbn [length] in L1; lia]. destruct f2; reflexivity.
  - destruct ps as [|p rest]; [destruct f2; reflexivity|].
    destruct f2 as [|f2]; [cbn [length] in L2; lia|].
    cbn [sgr_loop length] in *. destruct (sgr1 p rest a) as [a' rest' k|a' k] eqn:E; [|reflexivity].
    apply sgr1_rest_len in E. apply IH; lia.
Qed.

(* the report counter only accumulates *)
Lemma sgr_loop_acc : forall fuel ps a u,
  sgr_loop fuel ps a u = (fst (sgr_loop fuel ps a 0), u + snd (sgr_loop fuel ps a 0)).
Proof.
  induction fuel as [|fuel IH]; intros ps a u.
  - cbn [sgr_loop fst snd]. f_equal; lia.
  - destruct ps as [|p rest]; cbn [sgr_loop].
    + cbn [fst snd]. f_equal; lia.
    + destruct (sgr1 p rest a) as [a' rest' k|a' k].
      * rewrite (IH rest' a' (u + k)), (IH rest' a' (0 + k)). cbn [fst snd]. f_equal; lia.
      * cbn [fst snd]. f_equal; lia.
Qed.

Lemma sgr_nonnil : forall ps a, ps <> [] -> sgr ps a = sgr_loop (length ps) ps a 0.
Proof. intros [|p ps] a H; [contradiction | reflexivity]. Qed.

(* "processing ps from pen a never stops and consumes exactly ps": relational form ... *)
Inductive sgr_steps : list (list N) -> attrs -> N -> attrs -> N -> Prop :=
| steps_nil : forall a u, sgr_steps [] a u a u
| steps_cons : forall p rest a u a1 rest1 k a2 u2,
    sgr1 p rest a = SCont a1 rest1 k ->
    sgr_steps rest1 a1 (u + k) a2 u2 ->
    sgr_steps (p :: rest) a u a2 u2.

(* ... and executable form: None on a stop, or when a 38/48 group is cut off by the end of ps
   (a truncated group is a stop, see sgr1_38_truncated) *)
Fixpoint sgr_run_loop (fuel : nat) (ps : list (list N)) (a : attrs) (u : N) : option (attrs * N) :=
  match ps with
  | [] => Some (a, u)
  | p :: rest =>
    match fuel with
    | O => None
    | S fuel =>
      match sgr1 p rest a with
      | SCont a1 rest1 k => sgr_run_loop fuel rest1 a1 (u + k)
      | SStop _ _ => None
      end
    end
  end.
Definition sgr_run (ps : list (list N)) (a : attrs) : option (attrs * N) :=
  sgr_run_loop (length ps) ps a 0.
Definition clean_prefix (ps : list (list N)) (a : attrs) : Prop :=
  exists a' u, sgr_run ps a = Some (a', u).

Lemma sgr_run_loop_steps : forall fuel ps a u a' u',
  sgr_run_loop fuel ps a u = Some (a', u') -> sgr_steps ps a u a' u'.
Proof.
  induction fuel as [|fuel IH]; intros ps a u a' u' H; destruct ps as [|p rest]; cbn [sgr_run_loop] in H.
  - inv H. constructor.
  - discriminate.
  - inv H. constructor.
  - destruct (sgr1 p rest a) as [a1 rest1 k|a1 k] eqn:E; [|discriminate].
    eapply steps_cons; [exact E | apply IH, H].
Qed.

Lemma sgr_steps_run_loop : forall ps a u a' u',
  sgr_steps ps a u a' u' -> forall fuel, (length ps <= fuel)%nat ->
  sgr_run_loop fuel ps a u = Some (a', u').
Proof.
  intros ps a u a' u' S. induction S as [a u|p rest a u a1 rest1 k a2 u2 E S IH]; intros fuel L.
  - destruct fuel; reflexivity.
  - destruct fuel as [|fuel]; [cbn [length] in L; lia|]. cbn [sgr_run_loop]. rewrite E.
    apply IH. apply sgr1_rest_len in E. cbn [length] in L. lia.
Qed.

Theorem sgr_run_iff_steps : forall ps a a' u,
  sgr_run ps a = Some (a', u) <-> sgr_steps ps a 0 a' u.
Proof.
  intros ps a a' u. split.
  - apply sgr_run_loop_steps.
  - intros S. apply (sgr_steps_run_loop _ _ _ _ _ S). lia.
Qed.

Lemma sgr_steps_app : forall ps a u a1 u1,
  sgr_steps ps a u a1 u1 -> forall qs a2 u2, sgr_steps qs a1 u1 a2 u2 ->
  sgr_steps (ps ++ qs) a u a2 u2.
Proof.
  intros ps a u a1 u1 S. induction S as [a u|p rest a u a1 rest1 k a2 u2 E S IH]; intros qs a3 u3 T.
  - exact T.
  - cbn [app]. eapply steps_cons; [apply sgr1_rest_app, E | apply IH, T].
Qed.

Lemma sgr_steps_acc : forall ps a u a' u',
  sgr_steps ps a u a' u' -> forall v, sgr_steps ps a (v + u) a' (v + u').
Proof.
  intros ps a u a' u' S. induction S as [a u|p rest a u a1 rest1 k a2 u2 E S IH]; intros v.
  - constructor.
  - eapply steps_cons; [exact E|]. replace (v + u + k) with (v + (u + k)) by lia. apply IH.
Qed.

(* a clean run followed by anything: the loop continues with qs from the resulting pen *)
Lemma sgr_steps_loop : forall ps a u a' u',
  sgr_steps ps a u a' u' -> forall qs fuel, (length (ps ++ qs) <= fuel)%nat ->
  sgr_loop fuel (ps ++ qs) a u = sgr_loop (length qs) qs a' u'.
Proof.
  intros ps a u a' u' S. induction S as [a u|p rest a u a1 rest1 k a2 u2 E S IH]; intros qs fuel L.
  - cbn [app] in *. apply sgr_loop_fuel; lia.
  - cbn [app length] in L. destruct fuel as [|fuel]; [lia|].
    cbn [app sgr_loop]. rewrite (sgr1_rest_app _ _ _ _ _ _ qs E).
    apply IH. apply sgr1_rest_len in E. rewrite app_length in *. lia.
Qed.

Theorem sgr_run_app_full : forall ps qs a a' u, sgr_run ps a = Some (a', u) -> qs <> [] ->
  sgr (ps ++ qs) a = (fst (sgr qs a'), u + snd (sgr qs a')).
Proof.
  intros ps qs a a' u R Q. apply sgr_run_iff_steps in R.
  rewrite sgr_nonnil by (intros E; apply app_eq_nil in E; destruct E; contradiction).
  rewrite (sgr_steps_loop _ _ _ _ _ R qs) by lia.
  rewrite (sgr_nonnil qs) by exact Q. apply sgr_loop_acc.
Qed.

Theorem sgr_run_app : forall ps qs a a' u, sgr_run ps a = Some (a', u) -> qs <> [] ->
  fst (sgr (ps ++ qs) a) = fst (sgr qs a').
Proof. intros ps qs a a' u R Q. rewrite (sgr_run_app_full _ _ _ _ _ R Q). reflexivity. Qed.

(* a clean run on its own *)
Theorem sgr_run_exact : forall ps a a' u, sgr_run ps a = Some (a', u) -> ps <> [] ->
  sgr ps a = (a', u).
Proof.
  intros ps a a' u R Q. apply sgr_run_iff_steps in R. rewrite sgr_nonnil by exact Q.
  rewrite <- (app_nil_r ps) at 2. rewrite (sgr_steps_loop _ _ _ _ _ R []).
  - reflexivity.
  - rewrite app_nil_r. lia.
Qed.

(* Fuel-free big-step reading of a whole SGR command (including stops): [sgr] computes exactly
   this relation, so the fuel argument of [sgr_loop] has no semantic content. *)
Inductive sgr_eval : list (list N) -> attrs -> N -> attrs -> N -> Prop :=
| ev_nil : forall a u, sgr_eval [] a u a u
| ev_cont : forall p rest a u a1 rest1 k a2 u2,
    sgr1 p rest a = SCont a1 rest1 k ->
    sgr_eval rest1 a1 (u + k) a2 u2 ->
    sgr_eval (p :: rest) a u a2 u2
| ev_stop : forall p rest a u a1 k,
    sgr1 p rest a = SStop a1 k ->
    sgr_eval (p :: rest) a u a1 (u + k).

Lemma sgr_eval_fun : forall ps a u a1 u1, sgr_eval ps a u a1 u1 ->
  forall a2 u2, sgr_eval ps a u a2 u2 -> a1 = a2 /\ u1 = u2.
Proof.
  intros ps a u a1 u1 E.
  induction E as [a u|p rest a u a1 rest1 k a2 u2 E1 E IH|p rest a u a1 k E1]; intros b v F.
  - inv F. split; reflexivity.
  - inv F; [|congruence].
    match goal with H : sgr1 p rest a = SCont _ _ _ |- _ => rewrite E1 in H; inv H end.
    apply IH. assumption.
  - inv F; [congruence|].
    match goal with H : sgr1 p rest a = SStop _ _ |- _ => rewrite E1 in H; inv H end.
    split; reflexivity.
Qed.

Lemma sgr_loop_eval : forall fuel ps a u, (length ps <= fuel)%nat ->
  sgr_eval ps a u (fst (sgr_loop fuel ps a u)) (snd (sgr_loop fuel ps a u)).
Proof.
  induction fuel as [|fuel IH]; intros ps a u L.
  - destruct ps; [constructor | cbn [length] in L; lia].
  - destruct ps as [|p rest]; [constructor|]. cbn [sgr_loop length] in *.
    destruct (sgr1 p rest a) as [a1 rest1 k|a1 k] eqn:E.
    + eapply ev_cont; [exact E|]. apply IH. apply sgr1_rest_len in E. lia.
    + cbn [fst snd]. apply ev_stop, E.
Qed.

Theorem sgr_eval_iff : forall ps a a' u, ps <> [] ->
  (sgr ps a = (a', u) <-> sgr_eval ps a 0 a' u).
Proof.
  intros ps a a' u Q. rewrite sgr_nonnil by exact Q.
  pose proof (sgr_loop_eval (length ps) ps a 0 (le_n _)) as E. split.
  - intros H. rewrite H in E. exact E.
  - intros F. destruct (sgr_eval_fun _ _ _ _ _ E _ _ F) as [<- <-].
    destruct (sgr_loop (length ps) ps a 0); reflexivity.
Qed.

Lemma sgr_steps_eval : forall ps a u a' u', sgr_steps ps a u a' u' -> sgr_eval ps a u a' u'.
Proof.
  intros ps a u a' u' S. induction S as [a u|p rest a u a1 rest1 k a2 u2 E S IH].
  - constructor.
  - eapply ev_cont; eassumption.
Qed.

(* why qs <> [] is needed: the empty list means reset *)
Example sgr_run_app_needs_nonempty :
  sgr_run [[1]] dflt = Some (set_inten IBold dflt, 0) /\
  fst (sgr ([[1]] ++ []) dflt) = set_inten IBold dflt /\ fst (sgr [] (set_inten IBold dflt)) = dflt.
Proof. repeat split. Qed.

(* a straddling group is not a clean prefix *)
Example sgr_run_straddle : sgr_run [[1]; [38]; [5]] dflt = None.
Proof. reflexivity. Qed.

(* unknown parameters, end to end: an unknown parameter in front adds one report and nothing else *)
Theorem sgr_unknown_first : forall p rest a, sgr1 p rest a = SCont a rest 1 -> rest <> [] ->
  sgr (p :: rest) a = (fst (sgr rest a), 1 + snd (sgr rest a)).
Proof.
  intros p rest a H Q. rewrite (sgr_nonnil rest) by exact Q.
  unfold sgr. cbn [length]. rewrite sgr_loop_skip by exact H. apply sgr_loop_acc.
Qed.

(* ------------------------------------------------------------------------------------------ *)
(** * (e) [pen_ok] is an invariant of [sgr] *)

Definition color_ok (c : color) : Prop :=
  match c with
  | CDefault => True
  | CIdx i => i <= 255
  | CRgb r g b => r <= 255 /\ g <= 255 /\ b <= 255
  end.
Definition pen_ok (a : attrs) : Prop := color_ok (fg a) /\ color_ok (bg a).

Lemma pen_ok_dflt : pen_ok dflt.
Proof. split; exact I. Qed.

Lemma pen_ok_set_fg : forall c a, color_ok c -> pen_ok a -> pen_ok (set_fg c a).
Proof. intros c a C [_ B]. split; assumption. Qed.
Lemma pen_ok_set_bg : forall c a, color_ok c -> pen_ok a -> pen_ok (set_bg c a).
Proof. intros c a C [F _]. split; assumption. Qed.
Lemma pen_ok_set_inten : forall i a, pen_ok a -> pen_ok (set_inten i a).
Proof. intros i a P. exact P. Qed.
Lemma pen_ok_set_italic : forall v a, pen_ok a -> pen_ok (set_italic v a).
Proof. intros v a P. exact P. Qed.
Lemma pen_ok_set_underline : forall v a, pen_ok a -> pen_ok (set_underline v a).
Proof. intros v a P. exact P. Qed.
Lemma pen_ok_set_inverse : forall v a, pen_ok a -> pen_ok (set_inverse v a).
Proof. intros v a P. exact P. Qed.

Definition res_pen (r : sgr_res) : attrs := match r with SCont a _ _ => a | SStop a _ => a end.

Lemma sgr_single_pen_ok : forall n a a', pen_ok a -> sgr_single n a = Some a' -> pen_ok a'.
Proof.
  intros n a a' P H. unfold sgr_single in H.
  destruct (find (in_entry n) sgr_table) as [e|] eqn:F; [|discriminate]. inv H.
  apply find_some in F. destruct F as [M B]. unfold in_entry in B.
  cbv [sgr_table In] in M.
  repeat (destruct M as [<-|M];
    [ cbn [fst snd] in *;
      first [ exact pen_ok_dflt | exact P
            | apply pen_ok_set_fg; [cbn [color_ok]; try exact I; lia | exact P]
            | apply pen_ok_set_bg; [cbn [color_ok]; try exact I; lia | exact P] ] | ]).
  contradiction.
Qed.

Lemma ext_color_pen_ok : forall rest a setc,
  pen_ok a -> (forall c, color_ok c -> pen_ok (setc c)) ->
  pen_ok (res_pen (ext_color rest a setc)).
Proof.
  intros rest a setc P S. unfold ext_color.
  destruct rest as [|p1 rest1]; [exact P|].
  destruct (single p1) as [n1|]; [|exact P].
  destruct (n1 =? 2).
  - destruct rest1 as [|pr rest2]; [exact P|].
    destruct (single pr) as [r|]; [|exact P].
    destruct (u8 r) as [r'|] eqn:Ur; [|exact P].
    destruct rest2 as [|pg rest3]; [exact P|].
    destruct (single pg) as [gg|]; [|exact P].
    destruct (u8 gg) as [g'|] eqn:Ug; [|exact P].
    destruct rest3 as [|pb rest4]; [exact P|].
    destruct (single pb) as [b|]; [|exact P].
    destruct (u8 b) as [b'|] eqn:Ub; [|exact P].
    apply u8_some in Ur, Ug, Ub. cbn [res_pen]. apply S. cbn [color_ok]. lia.
  - destruct (n1 =? 5); [|exact P].
    destruct rest1 as [|pi rest2]; [exact P|].
    destruct (single pi) as [i|]; [|exact P].
    destruct (u8 i) as [i'|] eqn:Ui; [|exact P].
    apply u8_some in Ui. cbn [res_pen]. apply S. cbn [color_ok]. lia.
Qed.

Lemma sgr1_pen_ok : forall p rest a, pen_ok a -> pen_ok (res_pen (sgr1 p rest a)).
Proof.
  intros p rest a P.
  destruct p as [|x0 [|x1 [|x2 [|x3 [|x4 [|x5 p]]]]]]; try exact P.
  - destruct (N.eqb_spec x0 38) as [->|N38].
    { apply ext_color_pen_ok; [exact P | intros c C; apply pen_ok_set_fg; assumption]. }
    destruct (N.eqb_spec x0 48) as [->|N48].
    { apply ext_color_pen_ok; [exact P | intros c C; apply pen_ok_set_bg; assumption]. }
    rewrite sgr1_single by assumption.
    destruct (sgr_single x0 a) as [a'|] eqn:E; cbn [res_pen]; [|exact P].
    eapply sgr_single_pen_ok; eassumption.
  - unfold sgr1.
    destruct ((x0 =? 38) && (x1 =? 5)); [|destruct ((x0 =? 48) && (x1 =? 5)); [|exact P]];
      (destruct (u8 x2) as [i|] eqn:U; [|exact P]); apply u8_some in U; cbn [res_pen];
      [apply pen_ok_set_fg | apply pen_ok_set_bg]; try exact P; cbn [color_ok]; lia.
  - unfold sgr1, rgb_or_stop.
    destruct ((x0 =? 38) && (x1 =? 2)); [|destruct ((x0 =? 48) && (x1 =? 2)); [|exact P]];
      (destruct (u8 x2) as [r|] eqn:Ur; [|exact P]); (destruct (u8 x3) as [g|] eqn:Ug; [|exact P]);
      (destruct (u8 x4) as [b|] eqn:Ub; [|exact P]); apply u8_some in Ur, Ug, Ub; cbn [res_pen];
      [apply pen_ok_set_fg | apply pen_ok_set_bg]; try exact P; cbn [color_ok]; lia.
Qed.

Lemma sgr_loop_pen_ok : forall fuel ps a u, pen_ok a -> pen_ok (fst (sgr_loop fuel ps a u)).
Proof.
  induction fuel as [|fuel IH]; intros ps a u P; [exact P|].
  destruct ps as [|p rest]; [exact P|]. cbn [sgr_loop].
  pose proof (sgr1_pen_ok p rest a P) as Q.
  destruct (sgr1 p rest a) as [a' rest' k|a' k]; cbn [res_pen] in Q; [apply IH, Q | exact Q].
Qed.

Theorem sgr_pen_ok : forall ps a, pen_ok a -> pen_ok (fst (sgr ps a)).
Proof.
  intros ps a P. destruct ps as [|p ps]; [exact pen_ok_dflt|].
  unfold sgr. apply sgr_loop_pen_ok, P.
Qed.

Theorem scr_sgr_pen_ok : forall s ps, pen_ok (pen s) -> pen_ok (pen (fst (scr_sgr s ps))).
Proof.
  intros s ps P. unfold scr_sgr. pose proof (sgr_pen_ok ps (pen s) P) as Q.
  destruct (sgr ps (pen s)) as [a k]. exact Q.
Qed.

(* ------------------------------------------------------------------------------------------ *)
(** * (c) Encoder round trip *)

Definition sing (x : N) : list N := [x].

Lemma csi_params_cons : forall n ps, csi_params (n :: ps) = map sing (n :: ps).
Proof. reflexivity. Qed.

Lemma steps_one : forall p rest a u a1 rest1 a2 u2,
  sgr1 p rest a = SCont a1 rest1 0 -> sgr_steps rest1 a1 u a2 u2 -> sgr_steps (p :: rest) a u a2 u2.
Proof.
  intros p rest a u a1 rest1 a2 u2 E S. eapply steps_cons; [exact E|]. rewrite N.add_0_r. exact S.
Qed.

(* each group of parameters sets one component of the pen and nothing else *)
Lemma seg_fg : forall c x u, color_ok c ->
  sgr_steps (map sing (fg_params c)) x u (set_fg c x) u.
Proof.
  intros c x u C. destruct c as [|i|r g b]; cbn [fg_params color_ok] in *.
  - eapply steps_one; [apply sgr1_fg_default | constructor].
  - destruct (N.ltb_spec i 8) as [L8|L8]; [|destruct (N.ltb_spec i 16) as [L16|L16]]; cbn [map sing].
    + eapply steps_one; [apply sgr1_fg_low; exact L8 | constructor].
    + eapply steps_one; [apply sgr1_fg_bright; lia | constructor].
    + eapply steps_one; [apply sgr1_38_5; exact C | constructor].
  - cbn [map sing]. eapply steps_one; [apply sgr1_38_2; lia | constructor].
Qed.
Lemma seg_bg : forall c x u, color_ok c ->
  sgr_steps (map sing (bg_params c)) x u (set_bg c x) u.
Proof.
  intros c x u C. destruct c as [|i|r g b]; cbn [bg_params color_ok] in *.
  - eapply steps_one; [apply sgr1_bg_default | constructor].
  - destruct (N.ltb_spec i 8) as [L8|L8]; [|destruct (N.ltb_spec i 16) as [L16|L16]]; cbn [map sing].
    + eapply steps_one; [apply sgr1_bg_low; exact L8 | constructor].
    + eapply steps_one; [apply sgr1_bg_bright; lia | constructor].
    + eapply steps_one; [apply sgr1_48_5; exact C | constructor].
  - cbn [map sing]. eapply steps_one; [apply sgr1_48_2; lia | constructor].
Qed.
Lemma seg_inten : forall i x u, sgr_steps (map sing (inten_params i)) x u (set_inten i x) u.
Proof. intros i x u. destruct i; (eapply steps_one; [reflexivity | constructor]). Qed.

Lemma set_fg_same : forall x, set_fg (fg x) x = x. Proof. intros []; reflexivity. Qed.
Lemma set_bg_same : forall x, set_bg (bg x) x = x. Proof. intros []; reflexivity. Qed.
Lemma set_inten_same : forall x, set_inten (inten x) x = x. Proof. intros []; reflexivity. Qed.
Lemma set_italic_same : forall x, set_italic (italic x) x = x. Proof. intros []; reflexivity. Qed.
Lemma set_underline_same : forall x, set_underline (underline x) x = x. Proof. intros []; reflexivity. Qed.
Lemma set_inverse_same : forall x, set_inverse (inverse x) x = x. Proof. intros []; reflexivity. Qed.

(* the same, guarded by the equality tests of sgr_diff *)
Lemma seg_fg_if : forall c c' x u, color_ok c -> fg x = c' ->
  sgr_steps (map sing (if color_eqb c c' then [] else fg_params c)) x u (set_fg c x) u.
Proof.
  intros c c' x u C E. destruct (color_eqb c c') eqn:Q; [|apply seg_fg, C].
  apply color_eqb_eq in Q. subst. rewrite set_fg_same. constructor.
Qed.
Lemma seg_bg_if : forall c c' x u, color_ok c -> bg x = c' ->
  sgr_steps (map sing (if color_eqb c c' then [] else bg_params c)) x u (set_bg c x) u.
Proof.
  intros c c' x u C E. destruct (color_eqb c c') eqn:Q; [|apply seg_bg, C].
  apply color_eqb_eq in Q. subst. rewrite set_bg_same. constructor.
Qed.
Lemma seg_inten_if : forall i i' x u, inten x = i' ->
  sgr_steps (map sing (if intensity_eqb i i' then [] else inten_params i)) x u (set_inten i x) u.
Proof.
  intros i i' x u E. destruct (intensity_eqb i i') eqn:Q; [|apply seg_inten].
  apply intensity_eqb_eq in Q. subst. rewrite set_inten_same. constructor.
Qed.
Lemma seg_italic_if : forall v v' x u, italic x = v' ->
  sgr_steps (map sing (if Bool.eqb v v' then [] else [if v then 3 else 23])) x u (set_italic v x) u.
Proof.
  intros v v' x u E. destruct (Bool.eqb v v') eqn:Q.
  - apply eqb_prop in Q. subst. rewrite set_italic_same. constructor.
  - eapply steps_one; [apply sgr1_italic | constructor].
Qed.
Lemma seg_underline_if : forall v v' x u, underline x = v' ->
  sgr_steps (map sing (if Bool.eqb v v' then [] else [if v then 4 else 24])) x u (set_underline v x) u.
Proof.
  intros v v' x u E. destruct (Bool.eqb v v') eqn:Q.
  - apply eqb_prop in Q. subst. rewrite set_underline_same. constructor.
  - eapply steps_one; [apply sgr1_underline | constructor].
Qed.
Lemma seg_inverse_if : forall v v' x u, inverse x = v' ->
  sgr_steps (map sing (if Bool.eqb v v' then [] else [if v then 7 else 27])) x u (set_inverse v x) u.
Proof.
  intros v v' x u E. destruct (Bool.eqb v v') eqn:Q.
  - apply eqb_prop in Q. subst. rewrite set_inverse_same. constructor.
  - eapply steps_one; [apply sgr1_inverse | constructor].
Qed.

(* the parameter list of sgr_diff outside the ESC[m case *)
Definition diff_params (self other : attrs) : list N :=
  (if color_eqb (fg self) (fg other) then [] else fg_params (fg self)) ++
  (if color_eqb (bg self) (bg other) then [] else bg_params (bg self)) ++
  (if intensity_eqb (inten self) (inten other) then [] else inten_params (inten self)) ++
  (if Bool.eqb (italic self) (italic other) then [] else [if italic self then 3 else 23]) ++
  (if Bool.eqb (underline self) (underline other) then [] else [if underline self then 4 else 24]) ++
  (if Bool.eqb (inverse self) (inverse other) then [] else [if inverse self then 7 else 27]).

Lemma sgr_diff_unfold : forall a b,
  sgr_diff a b =
  if negb (attrs_eqb a b) && attrs_eqb a dflt then Some []
  else match diff_params a b with [] => None | n :: l => Some (n :: l) end.
Proof.
  intros a b. unfold sgr_diff. fold (diff_params a b).
  destruct (negb _ && _); [reflexivity|]. destruct (diff_params a b); reflexivity.
Qed.

Lemma diff_params_steps : forall a b u, pen_ok a ->
  sgr_steps (map sing (diff_params a b)) b u a u.
Proof.
  intros a b u [Pf Pb].
  assert (Ea : set_inverse (inverse a) (set_underline (underline a) (set_italic (italic a)
                 (set_inten (inten a) (set_bg (bg a) (set_fg (fg a) b))))) = a)
    by (destruct a, b; reflexivity).
  enough (S : sgr_steps (map sing (diff_params a b)) b u
                (set_inverse (inverse a) (set_underline (underline a) (set_italic (italic a)
                   (set_inten (inten a) (set_bg (bg a) (set_fg (fg a) b)))))) u)
    by (rewrite Ea in S; exact S).
  clear Ea.
  unfold diff_params. rewrite !map_app.
  eapply sgr_steps_app; [apply seg_fg_if; [exact Pf | reflexivity]|].
  eapply sgr_steps_app; [apply seg_bg_if; [exact Pb | reflexivity]|].
  eapply sgr_steps_app; [apply seg_inten_if; reflexivity|].
  eapply sgr_steps_app; [apply seg_italic_if; reflexivity|].
  eapply sgr_steps_app; [apply seg_underline_if; reflexivity|].
  apply seg_inverse_if; reflexivity.
Qed.

Lemma diff_params_nil : forall a b, diff_params a b = [] <-> a = b.
Proof.
  intros a b. split.
  - intros E. unfold diff_params in E.
    repeat (apply app_eq_nil in E; let E1 := fresh "E" in destruct E as [E1 E]).
    destruct (color_eqb (fg a) (fg b)) eqn:Qf;
      [|destruct (fg a) as [|i|r g bb]; cbn [fg_params] in *;
        [discriminate | destruct (i <? 8); [discriminate | destruct (i <? 16); discriminate] | discriminate]].
    destruct (color_eqb (bg a) (bg b)) eqn:Qb;
      [|destruct (bg a) as [|i|r g bb]; cbn [bg_params] in *;
        [discriminate | destruct (i <? 8); [discriminate | destruct (i <? 16); discriminate] | discriminate]].
    destruct (intensity_eqb (inten a) (inten b)) eqn:Qi; [|destruct (inten a); discriminate].
    destruct (Bool.eqb (italic a) (italic b)) eqn:Qt; [|discriminate].
    destruct (Bool.eqb (underline a) (underline b)) eqn:Qu; [|discriminate].
    destruct (Bool.eqb (inverse a) (inverse b)) eqn:Qv; [|discriminate].
    apply attrs_eqb_eq. unfold attrs_eqb. rewrite Qf, Qb, Qi, Qt, Qu, Qv. reflexivity.
  - intros <-. unfold diff_params. rewrite !color_eqb_refl, !eqb_reflx.
    rewrite (proj2 (intensity_eqb_eq _ _) eq_refl). reflexivity.
Qed.

Theorem C09_diff : forall a b, pen_ok a ->
  match sgr_diff a b with
  | None => a = b
  | Some ps => sgr (csi_params ps) b = (a, 0)
  end.
Proof.
  intros a b P. rewrite sgr_diff_unfold.
  destruct (negb (attrs_eqb a b) && attrs_eqb a dflt) eqn:C.
  - apply andb_true_iff in C. destruct C as [_ C]. apply attrs_eqb_eq in C. subst a. reflexivity.
  - pose proof (diff_params_steps a b 0 P) as S.
    destruct (diff_params a b) as [|n l] eqn:E.
    + apply diff_params_nil, E.
    + rewrite csi_params_cons. apply sgr_run_exact; [|discriminate].
      apply sgr_run_iff_steps, S.
Qed.

(* when each shape of output occurs *)
Theorem sgr_diff_none_iff : forall a b, sgr_diff a b = None <-> a = b.
Proof.
  intros a b. rewrite sgr_diff_unfold. split.
  - destruct (negb (attrs_eqb a b) && attrs_eqb a dflt); [discriminate|].
    destruct (diff_params a b) eqn:E; [intros _; apply diff_params_nil, E | discriminate].
  - intros <-. rewrite (proj2 (attrs_eqb_eq a a) eq_refl). cbn [negb andb].
    rewrite (proj2 (diff_params_nil a a) eq_refl). reflexivity.
Qed.
Theorem sgr_diff_reset_iff : forall a b, sgr_diff a b = Some [] <-> (a = dflt /\ a <> b).
Proof.
  intros a b. rewrite sgr_diff_unfold. split.
  - destruct (negb (attrs_eqb a b) && attrs_eqb a dflt) eqn:C.
    + intros _. apply andb_true_iff in C. destruct C as [C1 C2].
      apply negb_true_iff in C1. split; [apply attrs_eqb_eq, C2 | apply attrs_eqb_neq, C1].
    + destruct (diff_params a b); discriminate.
  - intros [-> N]. apply attrs_eqb_neq in N. rewrite N. reflexivity.
Qed.

(* at the level of the performer: the CSI ... m action that a pen change denotes *)
Lemma perform_sgr : forall rz s ps ig,
  perform rz s (ACsi ps [] ig 109) =
  Ok (with_pen s (fst (sgr ps (pen s))),
      repeat_ev (snd (sgr ps (pen s))) (EUnhCsi None None ps 109)).
Proof.
  intros rz s ps ig. cbn [perform]. unfold do_csi, scr_sgr. lsimp.
  destruct (sgr ps (pen s)) as [a k]. reflexivity.
Qed.

Theorem C09_diff_perform : forall rz s a ps, pen_ok a -> sgr_diff a (pen s) = Some ps ->
  perform rz s (ACsi (csi_params ps) [] false 109) = Ok (with_pen s a, []).
Proof.
  intros rz s a ps P E. rewrite perform_sgr.
  pose proof (C09_diff a (pen s) P) as D. rewrite E in D. rewrite D. reflexivity.
Qed.

(* ------------------------------------------------------------------------------------------ *)
(** * (d) attributes_formatted *)

Lemma attributes_formatted_tokens : forall s,
  attributes_formatted_t s = t_clear_attrs :: t_attrs_diff (pen s) dflt.
Proof. reflexivity. Qed.

Lemma attributes_formatted_tokens' : forall s,
  attributes_formatted_t s =
  TCsi false [] 109 ::
  match sgr_diff (pen s) dflt with None => [] | Some ps => [TCsi false ps 109] end.
Proof. reflexivity. Qed.

Theorem C09_attributes_formatted : forall s, pen_ok (pen s) -> forall b,
  let a1 := fst (sgr (csi_params []) b) in
  match sgr_diff (pen s) dflt with
  | None => a1 = pen s
  | Some ps => fst (sgr (csi_params ps) a1) = pen s
  end.
Proof.
  intros s P b. cbn zeta. rewrite sgr_csi_params_nil. cbn [fst].
  pose proof (C09_diff (pen s) dflt P) as D.
  destruct (sgr_diff (pen s) dflt) as [ps|].
  - rewrite D. reflexivity.
  - symmetry. exact D.
Qed.

(* the same with the report counts: nothing is ever reported as unhandled *)
Theorem C09_attributes_formatted_full : forall s, pen_ok (pen s) -> forall b,
  sgr (csi_params []) b = (dflt, 0) /\
  match sgr_diff (pen s) dflt with
  | None => pen s = dflt
  | Some ps => sgr (csi_params ps) dflt = (pen s, 0)
  end.
Proof. intros s P b. split; [reflexivity | exact (C09_diff (pen s) dflt P)]. Qed.

(* ------------------------------------------------------------------------------------------ *)
(** * (f) Finite sweep 0..=255 *)

Definition nil_eqb {A} (x y : list A) : bool :=
  match x, y with [], [] => true | _, _ => false end.
Definition sgr_res_eqb (x y : sgr_res) : bool :=
  match x, y with
  | SCont a r u, SCont a' r' u' => attrs_eqb a a' && nil_eqb r r' && (u =? u')
  | SStop a u, SStop a' u' => attrs_eqb a a' && (u =? u')
  | _, _ => false
  end.
Lemma sgr_res_eqb_sound : forall x y, sgr_res_eqb x y = true -> x = y.
Proof.
  intros [a r u|a u] [a' r' u'|a' u'] H; cbn [sgr_res_eqb] in H; try discriminate.
  - apply andb_true_iff in H. destruct H as [H Hu]. apply andb_true_iff in H. destruct H as [Ha Hr].
    apply attrs_eqb_eq in Ha. apply N.eqb_eq in Hu. destruct r, r'; try discriminate. subst. reflexivity.
  - apply andb_true_iff in H. destruct H as [Ha Hu].
    apply attrs_eqb_eq in Ha. apply N.eqb_eq in Hu. subst. reflexivity.
Qed.

(* what the property text says about a lone parameter n, from pen a, with nothing after it *)
Definition sweep_expect (n : N) (a : attrs) : sgr_res :=
  if (n =? 38) || (n =? 48) then SStop a 0
  else match sgr_single n a with Some a' => SCont a' [] 0 | None => SCont a [] 1 end.

Definition sweep_pen : attrs := mkAttrs (CRgb 1 2 3) (CIdx 200) IBold true true true.

Definition sweep_check (a : attrs) : bool :=
  forallb (fun n => sgr_res_eqb (sgr1 [n] [] a) (sweep_expect n a)) (map N.of_nat (seq 0 256)).

Theorem sgr_sweep_256 : forall n, n <= 255 ->
  sgr1 [n] [] dflt = sweep_expect n dflt /\ sgr1 [n] [] sweep_pen = sweep_expect n sweep_pen.
Proof.
  intros n L.
  assert (M : In n (map N.of_nat (seq 0 256))).
  { apply in_map_iff. exists (N.to_nat n). split; [lia|]. apply in_seq. lia. }
  assert (C1 : sweep_check dflt = true) by (vm_compute; reflexivity).
  assert (C2 : sweep_check sweep_pen = true) by (vm_compute; reflexivity).
  unfold sweep_check in C1, C2. rewrite forallb_forall in C1, C2.
  split; apply sgr_res_eqb_sound; [apply C1 | apply C2]; exact M.
Qed.

(* ------------------------------------------------------------------------------------------ *)
(** * Non-vacuity *)

Definition ex_a : attrs := mkAttrs (CRgb 10 20 255) (CIdx 16) IDim true false true.
Definition ex_b : attrs := mkAttrs (CIdx 3) (CIdx 15) IBold false true true.

Example ex_pen_ok : pen_ok ex_a /\ pen_ok ex_b.
Proof. repeat split; cbn; lia. Qed.

(* RGB foreground, indexed background 16 (first index that needs 48;5), bold -> dim *)
Example ex_diff_ab : sgr_diff ex_a ex_b = Some [38; 2; 10; 20; 255; 48; 5; 16; 2; 3; 24].
Proof. vm_compute. reflexivity. Qed.
Example ex_round_ab : sgr (csi_params [38; 2; 10; 20; 255; 48; 5; 16; 2; 3; 24]) ex_b = (ex_a, 0).
Proof. vm_compute. reflexivity. Qed.
(* and back: background 15 still uses the one-parameter form 107 *)
Example ex_diff_ba : sgr_diff ex_b ex_a = Some [33; 107; 1; 23; 4].
Proof. vm_compute. reflexivity. Qed.
Example ex_round_ba : sgr (csi_params [33; 107; 1; 23; 4]) ex_a = (ex_b, 0).
Proof. vm_compute. reflexivity. Qed.
Example ex_diff_reset : sgr_diff dflt ex_a = Some [] /\ sgr (csi_params []) ex_a = (dflt, 0).
Proof. split; vm_compute; reflexivity. Qed.
Example ex_diff_same : sgr_diff ex_a ex_a = None.
Proof. vm_compute. reflexivity. Qed.

(* pen_ok is necessary in C09_diff: a pen with an out-of-range index does not round-trip
   (such a pen is unreachable, see sgr_pen_ok) *)
Example ex_pen_ok_needed :
  let a := set_fg (CIdx 256) dflt in
  sgr_diff a dflt = Some [38; 5; 256] /\ sgr (csi_params [38; 5; 256]) dflt = (dflt, 0).
Proof. split; vm_compute; reflexivity. Qed.

(* unknown parameters do not disturb later ones; a bad 38 selector swallows the rest *)
Example ex_unknown_skipped : sgr [[1]; [99]; [5; 5]; [4]] dflt = (set_underline true (set_inten IBold dflt), 2).
Proof. vm_compute. reflexivity. Qed.
Example ex_bad_selector_stops : sgr [[1]; [38]; [9]; [4]] dflt = (set_inten IBold dflt, 1).
Proof. vm_compute. reflexivity. Qed.
Example ex_mixed_forms :
  sgr [[38; 2; 1; 2; 3]; [48]; [5]; [200]; [1]] dflt =
  (mkAttrs (CRgb 1 2 3) (CIdx 200) IBold false false false, 0).
Proof. vm_compute. reflexivity. Qed.
