(* Redraw.v — Stage 3 of C01: the body of Grid::write_contents_formatted.
   Painting all visible rows, with the wrap carry, on a blank canvas re-creates
   them: cells of every row, wrap flags of every row but the last. *)
Require Import Tac ListN Utf8 Width Attrs Cell Row Grid Screen Vte Perform Term Emit
  RowInv GridInv TextInv ScreenInv ParseSer CellWf WfGrid WfVte WfInv EraseSpec SgrSpec MoveSpec PrintSpec
  CellBytes EmitSafe WrapInv Recv RowPaint.
Open Scope N_scope.

(* what is asked of the visible rows of the source *)
Definition vrows_ok (cols : N) (vr : list row) : Prop :=
  Forall (srow_ok cols) vr /\ Forall row_wrapinv vr.

(* the loop invariant J(i): rows < i reproduced (the flag of row i-1 still clear), rows >= i blank,
   and if row i-1 is wrapped in the source the cursor waits in its pending-wrap column *)
Record Jinv (R : screen) (vr : list row) (i : N) (l : list row) (r c : N) : Prop := mkJ {
  J_done : forall i', i' < i -> exists ri src, get l i' = Some ri /\ get vr i' = Some src /\
             cells ri = cells src /\ wrapped ri = (if i' + 1 <? i then wrapped src else false);
  J_blank : forall i', i <= i' < grows (g R) -> get l i' = Some (row_new (gcols (g R)));
  J_pend : forall src, 1 <= i -> get vr (i - 1) = Some src -> wrapped src = true ->
             r + 1 = i /\ c = gcols (g R) }.

Lemma occ_last cols src : srow_ok cols src -> row_wrapinv src -> wrapped src = true -> 1 <= cols ->
  occ src (0 + cols) = true /\
  exists lc, get (cells src) (cols - 1) = Some lc /\ has_contents lc || ccont lc = true.
Proof.
  intros Hs Hw Ew Hc. destruct (Hw Ew) as (lc & Hlc & Ho). rewrite (sr_len _ _ Hs) in Hlc.
  assert (has_contents lc || ccont lc = true) as Hb by (destruct Ho as [-> | ->]; [reflexivity|apply orb_true_r]).
  split; [|eauto]. unfold occ. replace (0 + cols - 1) with (cols - 1) by lia. rewrite Hlc. exact Hb.
Qed.

Lemma row_step R vr i wrapping l r c a src :
  canvas R -> vrows_ok (gcols (g R)) vr -> len vr = grows (g R) ->
  get vr i = Some src -> i < grows (g R) -> cv R l r c -> pen_ok a -> Jinv R vr i l r c ->
  ((i = 0 /\ wrapping = false) \/ (1 <= i /\ exists psrc, get vr (i - 1) = Some psrc /\ wrapping = wrapped psrc)) ->
  exists ts r1 c1 a1 l1,
    row_formatted src 0 (gcols (g R)) i wrapping (Some (r, c)) (Some a) = Ok (ts, (r1, c1), a1) /\
    plays (rcv R l r c a) ts (rcv R l1 r1 c1 a1) /\ cv R l1 r1 c1 /\ pen_ok a1 /\
    Jinv R vr (i + 1) l1 r1 c1.
Proof.
  intros HR [Hsr Hwi] Lvr Hsrc Hi Hcv Pa HJ Hwr.
  pose proof (cv_dims _ _ _ _ Hcv) as [D1 D2].
  pose proof (Forall_get _ _ _ _ Hsr Hsrc) as Sok. pose proof (Forall_get _ _ _ _ Hwi Hsrc) as Swi.
  (* the previous row *)
  assert (exists rprev, wrapping = true ->
            0 = 0 /\ r + 1 = i /\ c = gcols (g R) /\ get l r = Some rprev /\
            exists lc, get (cells rprev) (gcols (g R) - 1) = Some lc /\ has_contents lc || ccont lc = true)
    as (rprev & Hwrap).
  { destruct Hwr as [[-> ->]|(Hi1 & psrc & Hps & ->)]; [exists (row_new 1); discriminate|].
    destruct (J_done _ _ _ _ _ _ HJ (i - 1) ltac:(lia)) as (ri' & src' & G1 & G2 & Ec & _).
    rewrite Hps in G2. assert (psrc = src') as -> by congruence. exists ri'. intros Ew.
    destruct (J_pend _ _ _ _ _ _ HJ src' Hi1 Hps Ew) as [E1 E2].
    pose proof (Forall_get _ _ _ _ Hsr Hps) as Pok. pose proof (Forall_get _ _ _ _ Hwi Hps) as Pwi.
    destruct (occ_last _ _ Pok Pwi Ew ltac:(lia)) as (_ & lc & Hlc & Hb).
    split; [reflexivity|]. split; [exact E1|]. split; [exact E2|]. split; [replace r with (i - 1) by lia; exact G1|].
    exists lc. rewrite Ec. auto. }
  destruct (row_formatted_paints R i src wrapping 0 l (row_new (gcols (g R))) rprev r c a Hi Sok ltac:(lia)
              (ok_first _ (sr_ok _ _ Sok)) Hcv Pa (J_blank _ _ _ _ _ _ HJ i ltac:(lia)))
    with (width := gcols (g R))
    as (ts & r1 & c1 & a1 & ri & Erf & P1 & C1 & Pa1 & Hpr & Harr & Hocc); try lia.
  { intros k Hk. cbn [row_new cells]. rewrite get_repeatN. destruct (N.ltb_spec k (gcols (g R))); [reflexivity|lia]. }
  { reflexivity. }
  { exact Hwrap. }
  rewrite fc_out in Hpr, Hocc by (rewrite (sr_len _ _ Sok); lia).
  set (l1 := set_at (Lfin i wrapping l rprev) i ri) in *.
  (* the invariant for the next row *)
  assert (len l = grows (g R)) as Ll by apply Hcv.
  assert (len (Lfin i wrapping l rprev) = grows (g R)) as LL.
  { unfold Lfin, flagged. destruct wrapping; rewrite ?len_set_at; exact Ll. }
  assert (get l1 i = Some ri) as Gi.
  { unfold l1. rewrite get_set_at. destruct (N.eqb_spec i i); [|lia]. rewrite LL.
    destruct (N.ltb_spec i (grows (g R))); [reflexivity|lia]. }
  assert (cells ri = cells src) as Ecells.
  { assert (len (cells ri) = gcols (g R)) as Lx.
    { destruct (cv_get _ _ _ _ i C1 Hi) as (x & Gx & (Lx & _) & _). congruence. }
    apply list_ext_get. intros k. destruct (N.lt_ge_cases k (gcols (g R))) as [Hk|Hk].
    - apply (pr_mid _ _ _ _ _ _ Hpr). lia.
    - assert (get (cells ri) k = None) as -> by (apply get_none_ge; lia).
      symmetry. apply get_none_ge. rewrite (sr_len _ _ Sok). lia. }
  assert (Jinv R vr (i + 1) l1 r1 c1) as HJ1.
  { split.
    - intros i' Hi'. destruct (N.eq_dec i' i) as [->|Hne].
      + exists ri, src. split; [exact Gi|]. split; [exact Hsrc|]. split; [exact Ecells|].
        destruct (N.ltb_spec (i + 1) (i + 1)); [lia|]. apply (pr_unw _ _ _ _ _ _ Hpr).
      + destruct (J_done _ _ _ _ _ _ HJ i' ltac:(lia)) as (ri' & src' & G1 & G2 & Ec & Ew).
        unfold l1, Lfin, flagged. rewrite get_set_at. destruct (N.eqb_spec i' i); [lia|].
        destruct (Bool.bool_dec wrapping true) as [Ewr|Ewr].
        * rewrite Ewr. rewrite get_set_at. destruct (N.eqb_spec i' (i - 1)) as [->|Hn1].
          -- destruct (N.ltb_spec (i - 1) (len l)); [|lia].
             destruct (Hwrap Ewr) as (_ & E1 & _ & Gp & _). replace r with (i - 1) in Gp by lia.
             rewrite G1 in Gp. assert (ri' = rprev) as -> by congruence.
             exists (row_wrap true rprev), src'. split; [reflexivity|]. split; [exact G2|]. split; [exact Ec|].
             cbn [row_wrap wrapped]. destruct (N.ltb_spec (i - 1 + 1) (i + 1)); [|lia].
             destruct Hwr as [[-> _]|(Hi1 & psrc & Hps & Ewp)]; [lia|]. rewrite Hps in G2. assert (psrc = src') as -> by congruence. congruence.
          -- exists ri', src'. split; [exact G1|]. split; [exact G2|]. split; [exact Ec|].
             rewrite Ew. destruct (N.ltb_spec (i' + 1) i), (N.ltb_spec (i' + 1) (i + 1)); try lia; reflexivity.
        * apply Bool.not_true_is_false in Ewr. rewrite Ewr.
          exists ri', src'. split; [exact G1|]. split; [exact G2|]. split; [exact Ec|].
          rewrite Ew. destruct (N.ltb_spec (i' + 1) i), (N.ltb_spec (i' + 1) (i + 1)); try lia; try reflexivity.
          assert (i' = i - 1) as -> by lia.
          destruct Hwr as [[-> _]|(Hi1 & psrc & Hps & Ewp)]; [lia|]. rewrite Hps in G2. assert (psrc = src') as -> by congruence. congruence.
    - intros i' Hi'. unfold l1, Lfin, flagged. rewrite get_set_at. destruct (N.eqb_spec i' i); [lia|].
      destruct wrapping; [rewrite get_set_at; destruct (N.eqb_spec i' (i - 1)); [lia|]|];
        apply (J_blank _ _ _ _ _ _ HJ); lia.
    - intros src' _ Hs' Ew'. replace (i + 1 - 1) with i in Hs' by lia. rewrite Hsrc in Hs'. assert (src' = src) as -> by congruence.
      destruct (occ_last _ _ Sok Swi Ew' ltac:(lia)) as (Ho & _).
      destruct (Hocc Ho) as [-> ->]. split; [reflexivity|lia]. }
  exists ts, r1, c1, a1, l1. auto.
Qed.

Lemma rows_loop_paints R vr : canvas R -> vrows_ok (gcols (g R)) vr -> len vr = grows (g R) ->
  forall rest i wrapping l r c a acc,
    (forall k, k < len rest -> get rest k = get vr (i + k)) -> i + len rest = grows (g R) ->
    cv R l r c -> pen_ok a -> Jinv R vr i l r c ->
    ((i = 0 /\ wrapping = false) \/ (1 <= i /\ exists src, get vr (i - 1) = Some src /\ wrapping = wrapped src)) ->
    exists ts r' c' a' l',
      rows_formatted_loop (gcols (g R)) rest i wrapping (r, c) a acc = Ok (acc ++ ts, (r', c'), a') /\
      plays (rcv R l r c a) ts (rcv R l' r' c' a') /\ cv R l' r' c' /\ pen_ok a' /\
      Jinv R vr (grows (g R)) l' r' c'.
Proof.
  intros HR Hvr Lvr. induction rest as [|src rest IH]; intros i wrapping l r c a acc Hseg Hlen Hcv Pa HJ Hwr.
  - rewrite len_nil in Hlen. replace i with (grows (g R)) in HJ by lia.
    exists [], r, c, a, l. cbn [rows_formatted_loop]. rewrite app_nil_r.
    split; [reflexivity|]. split; [apply plays_nil|]. auto.
  - rewrite len_cons in *. cbn [rows_formatted_loop].
    assert (get vr i = Some src) as Hsrc.
    { specialize (Hseg 0 ltac:(lia)). replace (i + 0) with i in Hseg by lia. rewrite <- Hseg. reflexivity. }
    destruct (row_step R vr i wrapping l r c a src HR Hvr Lvr Hsrc ltac:(lia) Hcv Pa HJ Hwr)
      as (ts & r1 & c1 & a1 & l1 & -> & P1 & C1 & Pa1 & HJ1).
    cbn [bind].
    destruct (IH (i + 1) (wrapped src) l1 r1 c1 a1 (acc ++ ts)) as (ts2 & r2 & c2 & a2 & l2 & E2 & P2 & C2 & Pa2 & HJ2); auto.
    { intros k Hk. specialize (Hseg (k + 1) ltac:(lia)). rewrite get_cons in Hseg.
      destruct (N.eqb_spec (k + 1) 0); [lia|]. replace (k + 1 - 1) with k in Hseg by lia.
      replace (i + 1 + k) with (i + (k + 1)) by lia. exact Hseg. }
    { lia. }
    { right. split; [lia|]. exists src. replace (i + 1 - 1) with i by lia. auto. }
    exists (ts ++ ts2), r2, c2, a2, l2. rewrite E2, app_assoc.
    split; [reflexivity|]. split; [eapply plays_app; eauto|]. auto.
Qed.
