(* AltSpec.v — C11, parts 1 and 2: DECSC/DECRC and the isolation of the two grids.
   No invariant on the screen is assumed anywhere in this file (panics are covered: every
   statement is of the form  "operation = Ok result -> ...").
   [sveq x y]: the saved-cursor slot of a grid (sprow, spcol, sorigin) is untouched.
   [iso s s']: the altmode flag is kept and the grid that is NOT shown is untouched. *)
Require Import Tac ListN Width Attrs Cell Row Grid Screen Vte Perform Parser SbFrame.
Open Scope N_scope.

(* ------------------------------------------------------------------------------------------ *)
(* The side conditions on actions *)

(* a DECSET/DECRST parameter that switches screens: exactly [47] or [1049] *)
Definition is_switch_param (p : list N) : bool :=
  match single p with Some n => (n =? 47) || (n =? 1049) | None => false end.

(* ESC c *)
Definition is_ris (a : action) : bool :=
  match a with AEsc [] _ b => b =? 99 | _ => false end.
(* ESC 7 *)
Definition is_decsc (a : action) : bool :=
  match a with AEsc [] _ b => b =? 55 | _ => false end.
(* CSI ? ... h / CSI ? ... l  with a parameter [47] or [1049] *)
Definition is_switch (a : action) : bool :=
  match a with
  | ACsi ps (i :: _) _ c => (i =? 63) && ((c =? 104) || (c =? 108)) && existsb is_switch_param ps
  | _ => false
  end.
(* CSI 8 ; .. t  (reaches Screen::set_size only through a resizing callback) *)
Definition is_resize_req (a : action) : bool :=
  match a with
  | ACsi ((op :: _) :: _) [] _ c => (c =? 116) && (op =? 8)
  | _ => false
  end.

Definition switch_free (rz : bool) (a : action) : bool :=
  negb (is_ris a) && negb (is_switch a) && negb (rz && is_resize_req a).

(* additionally not ESC 7 *)
Definition save_free (rz : bool) (a : action) : bool := switch_free rz a && negb (is_decsc a).

Lemma is_switch_param_spec p : is_switch_param p = true <-> p = [47] \/ p = [1049].
Proof.
  unfold is_switch_param, single. destruct p as [|n [|m p]]; try (split; [discriminate|intros [H|H]; discriminate]).
  split.
  - intros H. apply orb_prop in H as [H|H]; apply N.eqb_eq in H; subst; auto.
  - intros [H|H]; inv H; reflexivity.
Qed.

Lemma existsb_switch_param_spec ps : existsb is_switch_param ps = true <-> In [47] ps \/ In [1049] ps.
Proof.
  rewrite existsb_exists. split.
  - intros (p & Hin & Hp). apply is_switch_param_spec in Hp as [->| ->]; auto.
  - intros [H|H]; eexists; (split; [exact H|reflexivity]).
Qed.

Lemma switch_free_inv rz a : switch_free rz a = true ->
  is_ris a = false /\ is_switch a = false /\ (rz = true -> is_resize_req a = false).
Proof.
  unfold switch_free. intros H. apply andb_prop in H as [H H3]. apply andb_prop in H as [H1 H2].
  apply negb_true_iff in H1, H2, H3. split; [exact H1|split; [exact H2|]]. intros ->. exact H3.
Qed.

Lemma save_free_inv rz a : save_free rz a = true -> switch_free rz a = true /\ is_decsc a = false.
Proof. unfold save_free. intros H. apply andb_prop in H as [H1 H2]. apply negb_true_iff in H2. auto. Qed.

(* ------------------------------------------------------------------------------------------ *)
(* Part 2: isolation *)

Definition iso (s s' : screen) : Prop :=
  altmode s' = altmode s /\ (altmode s = true -> g s' = g s) /\ (altmode s = false -> alt s' = alt s).

Lemma iso_refl s : iso s s. Proof. split; [|split]; auto. Qed.
Lemma iso_trans a b c : iso a b -> iso b c -> iso a c.
Proof.
  unfold iso. intros (A1 & A2 & A3) (B1 & B2 & B3). split; [congruence|split]; intros H.
  - rewrite B2 by congruence. auto.
  - rewrite B3 by congruence. auto.
Qed.

Lemma iso_with_cur s x : iso s (with_cur s x).
Proof. unfold iso, with_cur. destruct (altmode s) eqn:E; sproj; (split; [|split]); congruence. Qed.

Lemma iso_on_cur s f s' : on_cur s f = Ok s' -> iso s s'.
Proof. unfold on_cur. intros E. bind_inv E. inv E. apply iso_with_cur. Qed.

(* setters of fields other than the grids and altmode *)
Lemma iso_same s s' : g s' = g s -> alt s' = alt s -> altmode s' = altmode s -> iso s s'.
Proof. intros H1 H2 H3. split; [|split]; auto. Qed.

Lemma iso_scr_save_cursor s : iso s (scr_save_cursor s).
Proof.
  unfold scr_save_cursor. eapply iso_trans; [apply (iso_with_cur s (save_cursor (cur s)))|].
  apply iso_same; reflexivity.
Qed.
Lemma iso_scr_restore_cursor s : iso s (scr_restore_cursor s).
Proof.
  unfold scr_restore_cursor. cbv zeta. eapply iso_trans; [apply (iso_with_cur s (restore_cursor (cur s)))|].
  apply iso_same; reflexivity.
Qed.
Lemma iso_clear_mouse_mode s m : iso s (clear_mouse_mode s m).
Proof. unfold clear_mouse_mode. destruct (mouse_mode_eqb _ _); apply iso_same; reflexivity. Qed.
Lemma iso_clear_mouse_enc s m : iso s (clear_mouse_enc s m).
Proof. unfold clear_mouse_enc. destruct (mouse_enc_eqb _ _); apply iso_same; reflexivity. Qed.
Lemma iso_scr_sgr s ps s' k : scr_sgr s ps = (s', k) -> iso s s'.
Proof. unfold scr_sgr. destruct (sgr ps (pen s)) as [a n]. intros E. inv E. apply iso_same; reflexivity. Qed.

Lemma iso_scr_ed s mode s' k : scr_ed s mode = Ok (s', k) -> iso s s'.
Proof. unfold scr_ed. intros E. sbinv E; try apply iso_refl; eapply iso_on_cur; eassumption. Qed.
Lemma iso_scr_el s mode s' k : scr_el s mode = Ok (s', k) -> iso s s'.
Proof. unfold scr_el. intros E. sbinv E; try apply iso_refl; eapply iso_on_cur; eassumption. Qed.

(* finish an iso goal whose right-hand side is a known operation *)
Ltac isofin :=
  first [ apply iso_refl
        | solve [apply iso_same; reflexivity]
        | match goal with H : _ = Ok ?v |- iso _ ?v => solve [refine (iso_on_cur _ _ _ H)] end
        | apply iso_scr_save_cursor | apply iso_scr_restore_cursor
        | apply iso_clear_mouse_mode | apply iso_clear_mouse_enc
        | solve [eapply iso_scr_ed; eassumption] | solve [eapply iso_scr_el; eassumption]
        | solve [eapply iso_scr_sgr; eassumption] ].

Lemma iso_decset1 s p s' k : is_switch_param p = false -> decset1 s p = Ok (s', k) -> iso s s'.
Proof.
  unfold is_switch_param, decset1. destruct (single p) as [n|]; [|intros _ E; inv E; apply iso_refl].
  destruct (n =? 47) eqn:E47; [discriminate|]. destruct (n =? 1049) eqn:E1049; [discriminate|].
  intros _ E. sbinv E; isofin.
Qed.

Lemma iso_decrst1 s p s' k : is_switch_param p = false -> decrst1 s p = Ok (s', k) -> iso s s'.
Proof.
  unfold is_switch_param, decrst1. destruct (single p) as [n|]; [|intros _ E; inv E; apply iso_refl].
  destruct (n =? 47) eqn:E47; [discriminate|]. destruct (n =? 1049) eqn:E1049; [discriminate|].
  intros _ E. sbinv E; isofin.
Qed.

Lemma fold_params_rel (R : screen -> screen -> Prop) (ok : list N -> bool) f :
  (forall s, R s s) -> (forall a b c, R a b -> R b c -> R a c) ->
  (forall s p s' k, ok p = true -> f s p = Ok (s', k) -> R s s') ->
  forall ps s n s' k, forallb ok ps = true -> fold_params f ps s n = Ok (s', k) -> R s s'.
Proof.
  intros Hr Ht Hf. induction ps as [|p ps IH]; intros s n s' k Hp E; cbn [fold_params] in E.
  - inv E. apply Hr.
  - cbn [forallb] in Hp. apply andb_prop in Hp as [Hp1 Hp2]. bind_inv E. destruct v as [s1 k1].
    eapply Ht; [eapply Hf; [exact Hp1|exact E0]|eapply IH; [exact Hp2|exact E]].
Qed.

Lemma existsb_false_forallb {A} (f : A -> bool) l : existsb f l = false -> forallb (fun x => negb (f x)) l = true.
Proof.
  induction l as [|a l IH]; cbn [existsb forallb]; [reflexivity|]. intros H.
  apply orb_false_elim in H as [H1 H2]. rewrite H1, (IH H2). reflexivity.
Qed.

Lemma iso_scr_decset s ps s' k : existsb is_switch_param ps = false -> scr_decset s ps = Ok (s', k) -> iso s s'.
Proof.
  intros H. apply existsb_false_forallb in H. unfold scr_decset.
  apply (fold_params_rel iso (fun p => negb (is_switch_param p))); [apply iso_refl|apply iso_trans| |exact H].
  intros s0 p s0' k0 Hp. apply negb_true_iff in Hp. now apply iso_decset1.
Qed.
Lemma iso_scr_decrst s ps s' k : existsb is_switch_param ps = false -> scr_decrst s ps = Ok (s', k) -> iso s s'.
Proof.
  intros H. apply existsb_false_forallb in H. unfold scr_decrst.
  apply (fold_params_rel iso (fun p => negb (is_switch_param p))); [apply iso_refl|apply iso_trans| |exact H].
  intros s0 p s0' k0 Hp. apply negb_true_iff in Hp. now apply iso_decrst1.
Qed.

Lemma iso_do_execute s b s' e : do_execute s b = Ok (s', e) -> iso s s'.
Proof. unfold do_execute. intros E. sbinv E; isofin. Qed.

Lemma iso_do_print s c s' e : do_print s c = Ok (s', e) -> iso s s'.
Proof.
  unfold do_print. intros E. destruct ((128 <=? c) && (c <? 160)); [eapply iso_do_execute; exact E|].
  sbinv E; isofin.
Qed.

Lemma iso_do_esc s inter ign b s' e : is_ris (AEsc inter ign b) = false -> do_esc s inter b = Ok (s', e) -> iso s s'.
Proof.
  unfold do_esc, is_ris. intros Hr E. destruct inter as [|i inter]; [|inv E; apply iso_refl].
  rewrite Hr in E.
  sbinv E; isofin.
Qed.

Lemma iso_do_csi rz s ps inter ign c s' e :
  is_switch (ACsi ps inter ign c) = false -> (rz = true -> is_resize_req (ACsi ps inter ign c) = false) ->
  do_csi rz s ps inter c = Ok (s', e) -> iso s s'.
Proof.
  unfold do_csi. cbv zeta. intros Hsw Hrz E. destruct inter as [|i inter].
  - clear Hsw.
    repeat match type of E with
    | (if ?b =? ?n then _ else _) = Ok _ => let Eb := fresh "Eb" in destruct (b =? n) eqn:Eb
    | noev _ = Ok _ => apply noev_inv in E
    end; try isofin.
    + destruct (canon2 ps 1 1) as [r cc]. apply noev_inv in E. isofin.
    + sbinv E. isofin.
    + sbinv E. isofin.
    + destruct (scr_sgr s ps) as [s1 k] eqn:Es. inv E. isofin.
    + destruct (canon2 ps 1 (grows (cur s))) as [t b]. apply noev_inv in E. isofin.
    + destruct ps as [|[|op p0] rest]; try (inv E; apply iso_refl).
      destruct (op =? 8) eqn:Eop; [|inv E; apply iso_refl].
      destruct rz; [|cbn [andb] in E; inv E; apply iso_refl].
      specialize (Hrz eq_refl). cbn [is_resize_req] in Hrz. rewrite Eop in Hrz.
      match goal with H : (c =? 116) = true |- _ => rewrite H in Hrz end. discriminate.
    + inv E. isofin.
  - cbn [is_switch] in Hsw.
    destruct (i =? 63); [|inv E; apply iso_refl]. cbn [andb] in Hsw.
    destruct (c =? 74); [sbinv E; isofin|]. destruct (c =? 75); [sbinv E; isofin|].
    destruct (c =? 104).
    + cbn [orb andb] in Hsw. sbinv E. eapply iso_scr_decset; eassumption.
    + destruct (c =? 108); [|inv E; apply iso_refl].
      cbn [orb andb] in Hsw. sbinv E. eapply iso_scr_decrst; eassumption.
Qed.

Lemma do_osc_fst s ps : fst (do_osc s ps) = s.
Proof.
  unfold do_osc. destruct ps as [|k [|v [|w ps]]]; try reflexivity.
  repeat match goal with |- context[if ?b then _ else _] => destruct b end; reflexivity.
Qed.

Theorem iso_perform rz s a s' e : switch_free rz a = true -> perform rz s a = Ok (s', e) -> iso s s'.
Proof.
  intros Hf. apply switch_free_inv in Hf as (Hr & Hs & Hz).
  destruct a as [c|b|ps inter ign c|b| |ps bell|ps inter ign c|inter ign b]; cbn [perform]; intros E.
  - eapply iso_do_print; exact E.
  - eapply iso_do_execute; exact E.
  - inv E. apply iso_refl.
  - inv E. apply iso_refl.
  - inv E. apply iso_refl.
  - inv E. rewrite <- (do_osc_fst s ps) at 1. rewrite H0. apply iso_refl.
  - eapply iso_do_csi; eassumption.
  - eapply iso_do_esc; eassumption.
Qed.

Theorem iso_perform_all rz acts : forall s evs s' e,
  Forall (fun a => switch_free rz a = true) acts -> perform_all rz s acts evs = Ok (s', e) -> iso s s'.
Proof.
  induction acts as [|a rest IH]; intros s evs s' e F E; cbn [perform_all] in E.
  - inv E. apply iso_refl.
  - inv F. bind_inv E. destruct v as [s1 e1].
    eapply iso_trans; [eapply iso_perform; [eassumption|exact E0]|eapply IH; [eassumption|exact E]].
Qed.

(* the statements of the task *)
Theorem alt_isolation rz s a s' evs : altmode s = true -> switch_free rz a = true ->
  perform rz s a = Ok (s', evs) -> g s' = g s /\ altmode s' = true.
Proof. intros Ha Hf E. destruct (iso_perform _ _ _ _ _ Hf E) as (H1 & H2 & _). split; [auto|congruence]. Qed.

Theorem alt_isolation_all rz acts s evs0 s' evs : altmode s = true ->
  Forall (fun a => switch_free rz a = true) acts ->
  perform_all rz s acts evs0 = Ok (s', evs) -> g s' = g s /\ altmode s' = true.
Proof. intros Ha F E. destruct (iso_perform_all _ _ _ _ _ _ F E) as (H1 & H2 & _). split; [auto|congruence]. Qed.

Theorem primary_isolation rz s a s' evs : altmode s = false -> switch_free rz a = true ->
  perform rz s a = Ok (s', evs) -> alt s' = alt s /\ altmode s' = false.
Proof. intros Ha Hf E. destruct (iso_perform _ _ _ _ _ Hf E) as (H1 & _ & H3). split; [auto|congruence]. Qed.

Theorem primary_isolation_all rz acts s evs0 s' evs : altmode s = false ->
  Forall (fun a => switch_free rz a = true) acts ->
  perform_all rz s acts evs0 = Ok (s', evs) -> alt s' = alt s /\ altmode s' = false.
Proof. intros Ha F E. destruct (iso_perform_all _ _ _ _ _ _ F E) as (H1 & _ & H3). split; [auto|congruence]. Qed.

(* ------------------------------------------------------------------------------------------ *)
(* the side conditions, spelled out *)
Lemma is_ris_spec a : is_ris a = true <-> exists ign, a = AEsc [] ign 99.
Proof.
  split.
  - destruct a as [c|b|ps inter ign c|b| |ps bell|ps inter ign c|inter ign b]; try discriminate.
    cbn [is_ris]. destruct inter; [|discriminate]. intros H. apply N.eqb_eq in H. subst. eauto.
  - intros (ign & ->). reflexivity.
Qed.
Lemma is_decsc_spec a : is_decsc a = true <-> exists ign, a = AEsc [] ign 55.
Proof.
  split.
  - destruct a as [c|b|ps inter ign c|b| |ps bell|ps inter ign c|inter ign b]; try discriminate.
    cbn [is_decsc]. destruct inter; [|discriminate]. intros H. apply N.eqb_eq in H. subst. eauto.
  - intros (ign & ->). reflexivity.
Qed.
Lemma is_switch_spec a : is_switch a = true <->
  exists ps rest ign c, a = ACsi ps (63 :: rest) ign c /\ (c = 104 \/ c = 108) /\ (In [47] ps \/ In [1049] ps).
Proof.
  split.
  - destruct a as [c|b|ps inter ign c|b| |ps bell|ps inter ign c|inter ign b]; try discriminate.
    cbn [is_switch]. destruct inter as [|i rest]; [discriminate|]. intros H.
    apply andb_prop in H as [H H3]. apply andb_prop in H as [H1 H2].
    apply N.eqb_eq in H1. subst i. apply existsb_switch_param_spec in H3.
    exists ps, rest, ign, c. split; [reflexivity|split; [|exact H3]].
    apply orb_prop in H2 as [H2|H2]; apply N.eqb_eq in H2; auto.
  - intros (ps & rest & ign & c & -> & Hc & Hp). cbn [is_switch].
    apply existsb_switch_param_spec in Hp. rewrite Hp. destruct Hc as [-> | ->]; reflexivity.
Qed.
Lemma is_resize_req_spec a : is_resize_req a = true <-> exists sub ps ign, a = ACsi ((8 :: sub) :: ps) [] ign 116.
Proof.
  split.
  - destruct a as [c|b|ps inter ign c|b| |ps bell|ps inter ign c|inter ign b]; try discriminate.
    cbn [is_resize_req]. destruct ps as [|[|op sub] ps]; try discriminate. destruct inter; [|discriminate].
    intros H. apply andb_prop in H as [H1 H2]. apply N.eqb_eq in H1, H2. subst. eauto.
  - intros (sub & ps & ign & ->). reflexivity.
Qed.

Theorem switch_free_spec rz a : switch_free rz a = false <->
  (exists ign, a = AEsc [] ign 99) \/
  (exists ps rest ign c, a = ACsi ps (63 :: rest) ign c /\ (c = 104 \/ c = 108) /\ (In [47] ps \/ In [1049] ps)) \/
  (rz = true /\ exists sub ps ign, a = ACsi ((8 :: sub) :: ps) [] ign 116).
Proof.
  rewrite <- is_ris_spec, <- is_switch_spec, <- is_resize_req_spec. unfold switch_free.
  destruct (is_ris a), (is_switch a), rz, (is_resize_req a); cbn; split; intros H; auto;
    try discriminate; repeat (destruct H as [H|H]; try discriminate); destruct H; discriminate.
Qed.

Theorem save_free_spec rz a : save_free rz a = true <->
  switch_free rz a = true /\ forall ign, a <> AEsc [] ign 55.
Proof.
  unfold save_free. split.
  - intros H. apply andb_prop in H as [H1 H2]. split; [exact H1|]. intros ign ->. discriminate.
  - intros [H1 H2]. rewrite H1. cbn [andb]. apply negb_true_iff. destruct (is_decsc a) eqn:E; [|reflexivity].
    apply is_decsc_spec in E as (ign & ->). exfalso. apply (H2 ign). reflexivity.
Qed.
