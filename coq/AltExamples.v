(* AltExamples.v — C11, non-vacuity: a 3x4 screen with text, wrap flags, a scroll region,
   scrollback (capacity 5, two lines, view offset 1), origin mode, a pen and a saved cursor that
   differs from the cursor; all four entry/exit combinations through the real byte-level parser. *)
Require Import String Ascii.
Require Import Tac ListN Utf8 Attrs Cell Row Grid Screen Vte Perform Parser RowInv GridInv ScreenInv SbFrame.
Require Import AltSpec AltSaved AltRound.
Open Scope N_scope.

Definition b (s : string) : list N := map N_of_ascii (list_ascii_of_string s).
Definition esc (s : string) : list N := 27 :: b s.

(* 18 letters on 4 columns: 2 lines go to the history, 3 wrapped rows stay; region rows 1-2;
   CUP 2;3, red, DECSC; bold, origin mode on, CUP 2;2 (relative to the region) *)
Definition setup_ops : list api_op :=
  [OpProcess (b "abcdefghijklmnopqr" ++ esc "[1;2r" ++ esc "[2;3H" ++ esc "[31m" ++ esc "7"
              ++ esc "[1m" ++ esc "[?6h" ++ esc "[2;2H");
   OpSetScrollback 1].

Definition prim : option parser :=
  match parser_new 3 4 5 false with
  | Ok p => match run p setup_ops with Ok q => Some q | Panic _ => None end
  | Panic _ => None
  end.

Definition red : attrs := set_fg (CIdx 1) dflt.
Definition red_bold : attrs := set_inten IBold red.

Example ex_primary_state :
  match prim with
  | Some p =>
    let x := g (scr p) in
    altmode (scr p) = false /\
    (prow x, pcol x, origin x) = (1, 1, true) /\ (sprow x, spcol x, sorigin x) = (1, 2, false) /\
    (top x, bot x) = (0, 1) /\ len (sb x) = 2 /\ sb_cap x = 5 /\ sb_off x = 1 /\
    map wrapped (live x) = [true; true; false] /\ map wrapped (sb x) = [true; true] /\
    pen (scr p) = red_bold /\ spen (scr p) = red /\ live (alt (scr p)) = []
  | None => False
  end.
Proof. vm_compute. repeat split. Qed.

(* what is drawn on the alternate screen: text that scrolls, an erase, another region, origin mode
   off, cursor moves, a green pen and a DECSC / DECRC pair, insert/delete lines, a scroll *)
Definition alt_bytes : list N :=
  b "XYZW12345678" ++ [13; 10; 10; 10] ++ esc "[2J" ++ esc "[2;3r" ++ esc "[?6l" ++ esc "[3;4H" ++ b "Q"
  ++ esc "[32m" ++ esc "7" ++ esc "[H" ++ esc "8" ++ esc "[L" ++ esc "[M" ++ esc "[2S" ++ esc "[T" ++ b "end".
(* the same without DECSC *)
Definition alt_bytes_nosave : list N :=
  b "XYZW12345678" ++ [13; 10; 10; 10] ++ esc "[2J" ++ esc "[2;3r" ++ esc "[?6l" ++ esc "[3;4H" ++ b "Q"
  ++ esc "[32m" ++ esc "[H" ++ esc "[L" ++ esc "[M" ++ esc "[2S" ++ esc "[T" ++ b "end".

Definition enter_bytes (e : N) : list N := if e =? 47 then esc "[?47h" else esc "[?1049h".
Definition leave_bytes (x : N) : list N := if x =? 47 then esc "[?47l" else esc "[?1049l".

Definition after (p : parser) (bs : list N) : option screen :=
  match process p bs with Ok q => Some (scr q) | Panic _ => None end.

(* the byte streams parse to the actions the theorems talk about, and satisfy the side conditions *)
Example ex_actions :
  snd (advance p_init (enter_bytes 47)) = [ENTER 47 false] /\
  snd (advance p_init (enter_bytes 1049)) = [ENTER 1049 false] /\
  snd (advance p_init (leave_bytes 47)) = [LEAVE 47 false] /\
  snd (advance p_init (leave_bytes 1049)) = [LEAVE 1049 false] /\
  forallb (switch_free true) (snd (advance p_init alt_bytes)) = true /\
  forallb (save_free true) (snd (advance p_init alt_bytes)) = false /\
  forallb (save_free true) (snd (advance p_init alt_bytes_nosave)) = true /\
  length (snd (advance p_init alt_bytes)) = 32%nat.
Proof. vm_compute. repeat split. Qed.

(* while on the alternate screen: the primary grid is the one at entry (offset reset), the
   alternate grid has been drawn on, and (1049) it started blank *)
Example ex_inside :
  match prim with
  | Some p =>
    let s := scr p in
    match after p (enter_bytes 1049), after p (enter_bytes 1049 ++ alt_bytes), after p (enter_bytes 47 ++ alt_bytes) with
    | Some s1, Some s2, Some s2' =>
      altmode s1 = true /\ alt s1 = blank_grid 3 4 /\ g s1 = with_sb (save_cursor (g s)) (sb (g s)) 0 /\
      spen s1 = red_bold /\
      altmode s2 = true /\ g s2 = g s1 /\ alt s2 <> alt s1 /\ sb (alt s2) = [] /\
      altmode s2' = true /\ g s2' = with_sb (g s) (sb (g s)) 0 /\ sb (alt s2') = []
    | _, _, _ => False
    end
  | None => False
  end.
Proof. vm_compute. repeat split; discriminate. Qed.

(* the four round trips: closed form of the whole primary grid record afterwards *)
Example ex_round_trips :
  match prim with
  | Some p =>
    let s := scr p in
    let x := g s in
    match after p (enter_bytes 47 ++ alt_bytes ++ leave_bytes 47),
          after p (enter_bytes 1049 ++ alt_bytes ++ leave_bytes 47),
          after p (enter_bytes 47 ++ alt_bytes ++ leave_bytes 1049),
          after p (enter_bytes 1049 ++ alt_bytes ++ leave_bytes 1049) with
    | Some s44, Some s14, Some s41, Some s11 =>
      (* 47/47: only the view offset changed *)
      g s44 = with_sb x (sb x) 0 /\ altmode s44 = false /\
      (* 1049/47: cursor unchanged, saved slot overwritten with the cursor at entry *)
      g s14 = with_sb (with_saved x 1 1 true) (sb x) 0 /\ altmode s14 = false /\
      (* 47/1049: cursor := the primary's previously saved position and origin mode *)
      g s41 = with_sb (with_origin (with_pos x 1 2) false) (sb x) 0 /\ altmode s41 = false /\
      (* 1049/1049: cursor and origin mode as at entry *)
      g s11 = with_sb (with_saved x 1 1 true) (sb x) 0 /\ altmode s11 = false /\
      (* in all four: cells, wrap flags, region, history *)
      live (g s44) = live x /\ live (g s14) = live x /\ live (g s41) = live x /\ live (g s11) = live x /\
      sb (g s44) = sb x /\ sb (g s14) = sb x /\ sb (g s41) = sb x /\ sb (g s11) = sb x
    | _, _, _, _ => False
    end
  | None => False
  end.
Proof. vm_compute. repeat split. Qed.

(* the pen: without DECSC in between, 1049 exit restores the pen of the 1049 entry (or, after a
   47 entry, the pen saved earlier on the primary screen).  With a DECSC on the alternate
   screen the saved pen (one field shared by both grids) is the alternate screen's: the cursor
   position and origin mode of the primary come back, its pen does not. *)
Definition green_bold : attrs := set_fg (CIdx 2) red_bold.
Example ex_pen :
  match prim with
  | Some p =>
    match after p (enter_bytes 1049 ++ alt_bytes_nosave ++ leave_bytes 1049),
          after p (enter_bytes 47 ++ alt_bytes_nosave ++ leave_bytes 1049),
          after p (enter_bytes 1049 ++ alt_bytes ++ leave_bytes 1049),
          after p (enter_bytes 1049 ++ alt_bytes ++ leave_bytes 47) with
    | Some a, Some b', Some c, Some d =>
      pen a = red_bold /\ pen b' = red /\ pen c = green_bold /\ pen d = green_bold /\
      (prow (g c), pcol (g c), origin (g c)) = (1, 1, true)
    | _, _, _, _ => False
    end
  | None => False
  end.
Proof. vm_compute. repeat split. Qed.

(* DECSC; ordinary input; DECRC on the primary screen *)
Example ex_decsc_decrc :
  match prim with
  | Some p =>
    match after p (esc "7" ++ alt_bytes_nosave ++ esc "8") with
    | Some s' =>
      (prow (g s'), pcol (g s'), origin (g s'), pen s') = (1, 1, true, red_bold) /\ g s' <> g (scr p)
    | None => False
    end
  | None => False
  end.
Proof. vm_compute. split; [reflexivity|discriminate]. Qed.

(* the side conditions are needed: RIS, a 47/1049 switch or (resizing callbacks) CSI 8 t on the
   alternate screen do change the primary grid *)
Definition prim_rz : option parser :=
  match parser_new 3 4 5 true with
  | Ok p => match run p setup_ops with Ok q => Some q | Panic _ => None end
  | Panic _ => None
  end.
Example ex_side_conditions :
  match prim, prim_rz with
  | Some p, Some pz =>
    match after p (enter_bytes 47), after p (enter_bytes 47 ++ esc "c"),
          after pz (enter_bytes 47), after pz (enter_bytes 47 ++ esc "[8;2;2t"),
          after p (enter_bytes 47 ++ esc "[8;2;2t") with
    | Some s1, Some s2, Some z1, Some z2, Some s3 =>
      live (g s2) <> live (g s1) /\ live (g z2) <> live (g z1) /\ g s3 = g s1
    | _, _, _, _, _ => False
    end
  | _, _ => False
  end.
Proof. vm_compute. repeat split; discriminate. Qed.

(* the theorems apply to the example (their hypotheses hold of it) *)
Example ex_theorem_applies :
  match prim with
  | Some p =>
    forall e x s3 evs, e = 47 \/ e = 1049 -> x = 47 \/ x = 1049 ->
      perform_all false (scr p) (ENTER e false :: snd (advance p_init alt_bytes) ++ [LEAVE x false]) [] = Ok (s3, evs) ->
      live (g s3) = live (g (scr p)) /\ sb (g s3) = sb (g (scr p)) /\ sb_off (g s3) = 0
  | None => False
  end.
Proof.
  destruct prim as [p|] eqn:Ep; [|vm_compute in Ep; discriminate].
  assert (altmode (scr p) = false) as Ha by (vm_compute in Ep; inv Ep; reflexivity).
  intros e x s3 evs He Hx E.
  assert (Forall (fun a => switch_free false a = true) (snd (advance p_init alt_bytes))) as F.
  { apply Forall_forall. apply forallb_forall. vm_compute. reflexivity. }
  pose proof (round_trip_common _ _ _ _ _ _ _ _ _ _ Ha He Hx F E) as H. tauto.
Qed.
