(* ModeExamples.v — non-vacuity examples for C10 on concrete screens, through the real
   byte-level parser (Parser.process) and serializer (Term.ser_all). *)
Require Import Tac ListN Utf8 Attrs Cell Row Grid Screen Vte Perform Parser Term Emit ModeSpec ModeState ModeLast.
Open Scope N_scope.

Definition modes_after (rows cols : N) (bs : list N) : option modes :=
  match parser_new rows cols 0 false with
  | Ok p => match process p bs with Ok q => Some (modes_of (scr q)) | Panic _ => None end
  | Panic _ => None
  end.

(* ESC =  ESC[?1;1000;1006h  "A"  ESC[?1002l  ESC[?2004h  ESC[?25l :
   several modes in one sequence, interleaved text, a reset of a non-active mouse mode *)
Definition ex_bytes : list N :=
  [27; 61] ++ [27; 91; 63; 49; 59; 49; 48; 48; 48; 59; 49; 48; 48; 54; 104] ++ [65]
  ++ [27; 91; 63; 49; 48; 48; 50; 108] ++ [27; 91; 63; 50; 48; 48; 52; 104] ++ [27; 91; 63; 50; 53; 108].

Example ex_modes_after :
  modes_after 3 10 ex_bytes = Some (mkM true true true true MPressRelease ESgr).
Proof. vm_compute. reflexivity. Qed.

(* ESC[?1000h ESC[?1002l keeps PressRelease; a following ESC[?1000l clears it;
   ESC[?1006h ESC[?1005l keeps SGR *)
Example ex_reset_other_mode :
  modes_after 3 10 ([27; 91; 63; 49; 48; 48; 48; 104] ++ [27; 91; 63; 49; 48; 48; 50; 108])
    = Some (set_mouse MPressRelease m_fresh) /\
  modes_after 3 10 ([27; 91; 63; 49; 48; 48; 48; 104] ++ [27; 91; 63; 49; 48; 48; 50; 108]
                    ++ [27; 91; 63; 49; 48; 48; 48; 108]) = Some m_fresh /\
  modes_after 3 10 ([27; 91; 63; 49; 48; 48; 54; 104] ++ [27; 91; 63; 49; 48; 48; 53; 108])
    = Some (set_enc ESgr m_fresh).
Proof. vm_compute. repeat split. Qed.

(* ESC c resets all six *)
Example ex_ris : modes_after 3 10 (ex_bytes ++ [27; 99]) = Some m_fresh.
Proof. vm_compute. reflexivity. Qed.

(* round trip through bytes: state_formatted of the example screen, serialized and fed to a
   fresh parser, reproduces all six modes (and the input-mode part alone reproduces five) *)
Definition ex_screen : option screen :=
  match parser_new 3 10 0 false with
  | Ok p => match process p ex_bytes with Ok q => Some (scr q) | Panic _ => None end
  | Panic _ => None
  end.

Example ex_state_formatted_roundtrip :
  match ex_screen with
  | Some s =>
    match state_formatted_t s with
    | Ok ts => modes_after 3 10 (ser_all ts) = Some (modes_of s)
               /\ run_modes ts m_fresh = modes_of s
    | Panic _ => False
    end
  | None => False
  end.
Proof. vm_compute. split; reflexivity. Qed.

Example ex_input_mode_formatted_roundtrip :
  match ex_screen with
  | Some s =>
    option_map five (modes_after 3 10 (ser_all (input_mode_formatted_t s))) = Some (five (modes_of s))
    /\ input_mode_formatted_t s =
       [TEsc 61; TCsi true [1] 104; TCsi true [2004] 104; TCsi true [1000] 104; TCsi true [1006] 104]
  | None => False
  end.
Proof. vm_compute. split; reflexivity. Qed.

(* diff against a screen with other modes and other contents: replayed on that screen's
   parser it reproduces all six modes; the input-mode diff alone lists exactly the changes *)
Definition ex_prev_bytes : list N :=
  [66; 67] ++ [27; 91; 63; 49; 48; 48; 51; 104] ++ [27; 91; 63; 49; 48; 48; 53; 104] ++ [27; 91; 63; 49; 104].

Example ex_state_diff_roundtrip :
  match parser_new 3 10 0 false with
  | Ok p0 =>
    match process p0 ex_bytes, process p0 ex_prev_bytes with
    | Ok q, Ok pp =>
      match state_diff_t (scr q) (scr pp) with
      | Ok ts =>
        match process pp (ser_all ts) with
        | Ok r => modes_of (scr r) = modes_of (scr q) /\ modes_of (scr pp) <> modes_of (scr q)
        | Panic _ => False
        end
        /\ input_mode_diff_t (scr q) (scr pp)
           = [TEsc 61; TCsi true [2004] 104; TCsi true [1000] 104; TCsi true [1006] 104]
      | Panic _ => False
      end
    | _, _ => False
    end
  | Panic _ => False
  end.
Proof. vm_compute. repeat split. discriminate. Qed.

(* the diff is empty although contents, attributes and cursor visibility differ *)
Example ex_diff_empty :
  match parser_new 3 10 0 false with
  | Ok p0 =>
    match process p0 ex_bytes, process p0 (ex_bytes ++ [27; 91; 51; 49; 109; 88; 89; 27; 91; 63; 50; 53; 104]) with
    | Ok q, Ok q2 => input_mode_diff_t (scr q2) (scr q) = [] /\ scr q2 <> scr q /\ hide (scr q2) <> hide (scr q)
    | _, _ => False
    end
  | Panic _ => False
  end.
Proof. vm_compute. repeat split; discriminate. Qed.

(* acts_of agrees with the real vte parser on the serialized form of all 20 mode tokens,
   and these tokens are exactly the 20 elementary sequences of the table *)
Definition all_mode_tokens : list token :=
  [t_keypad true; t_keypad false; t_appcur true; t_appcur false;
   t_hide_cursor false; t_hide_cursor true; t_paste true; t_paste false]
  ++ flat_map (fun n => [TCsi true [n] 104; TCsi true [n] 108]) [9; 1000; 1002; 1003; 1005; 1006].

Example ex_acts_of_agrees :
  map (fun t => snd (advance p_init (ser t))) all_mode_tokens = map acts_of all_mode_tokens
  /\ flat_map acts_of all_mode_tokens = mode_actions
  /\ forallb is_mode_token all_mode_tokens = true.
Proof. vm_compute. repeat split. Qed.
