(* ShiftExamples.v — a checker for the row invariant on concrete rows, concrete grids that satisfy
   grid_ok, and worked examples (non-vacuity of the C08 theorems; behaviour outside the contract). *)
Require Import Tac ListN Attrs Cell Row Grid Screen RowInv GridInv ShiftSpec.
Open Scope N_scope.

(* ---- boolean check of cells_ok ---- *)
Fixpoint pair_okb (prev : bool) (cs : list cell) : bool :=
  match cs with
  | [] => negb prev
  | x :: t => Bool.eqb (ccont x) prev && negb (cwide x && ccont x) && pair_okb (cwide x) t
  end.

Lemma fw_nil i : fw [] i = false.
Proof. unfold fw, get. now destruct (N.to_nat i). Qed.
Lemma fc_nil i : fc [] i = false.
Proof. unfold fc, get. now destruct (N.to_nat i). Qed.
Lemma fw_cons x t i : fw (x :: t) i = if i =? 0 then cwide x else fw t (i - 1).
Proof. unfold fw. rewrite get_cons. now destruct (i =? 0). Qed.
Lemma fc_cons x t i : fc (x :: t) i = if i =? 0 then ccont x else fc t (i - 1).
Proof. unfold fc. rewrite get_cons. now destruct (i =? 0). Qed.

Lemma pair_okb_sound cs : forall p, pair_okb p cs = true ->
  fc cs 0 = p /\ (forall i, fw cs i = fc cs (i + 1)) /\ (forall i, fw cs i && fc cs i = false).
Proof.
  induction cs as [|x t IH]; intros p Hb; cbn [pair_okb] in Hb.
  - destruct p; [discriminate|]. split; [apply fc_nil|]. split; intros i; rewrite ?fw_nil, ?fc_nil; reflexivity.
  - apply andb_prop in Hb as [Hb H3]. apply andb_prop in Hb as [H1 H2].
    apply eqb_prop in H1. apply negb_true_iff in H2.
    destruct (IH _ H3) as (F0 & P & B).
    split; [|split].
    + rewrite fc_cons. exact H1.
    + intros i. rewrite fw_cons, fc_cons.
      destruct (N.eqb_spec (i + 1) 0); [lia|]. destruct (N.eqb_spec i 0) as [->|Hi].
      * replace (0 + 1 - 1) with 0 by lia. now rewrite F0.
      * replace (i + 1 - 1) with (i - 1 + 1) by lia. apply P.
    + intros i. rewrite fw_cons, fc_cons. destruct (N.eqb_spec i 0); [exact H2|apply B].
Qed.

Lemma pair_okb_cells_ok cs : pair_okb false cs = true -> cells_ok cs.
Proof. intros H. destruct (pair_okb_sound cs false H) as (A & B & C). split; assumption. Qed.

Ltac row_ok_tac := split; [vm_compute; reflexivity | apply pair_okb_cells_ok; vm_compute; reflexivity].
Ltac grid_ok_tac :=
  split; [split; cbn; unfold MAXDIM; try lia; try (vm_compute; reflexivity);
          repeat (constructor; [row_ok_tac|]); try constructor
         | cbn; lia].

(* ---- concrete cells ---- *)
Definition ch (c : N) : cell := mkCell [c] false false dflt.
Definition red : attrs := set_fg (CIdx 1) dflt.
Definition chr (c : N) : cell := mkCell [c] false false red.
Definition W : cell := mkCell [19990] true false red.       (* a wide character, first half, red *)
Definition C : cell := mkCell [] false true red.            (* its continuation cell *)
Definition bl (a : attrs) : cell := mkCell [] false false a.

(* one row of 6 cells, cursor row 0; 2 rows *)
Definition g6 (r0 : list cell) (col : N) : grid :=
  mkGrid 2 6 0 col 0 0 [mkRow r0 true; mkRow (repeatN (ch 122) 6) true] 0 1 false false [] 0 0.

Definition rowA : list cell := [W; C; ch 97; W; C; ch 98].

Lemma g6_rowA_ok col : col <= 6 -> grid_ok (g6 rowA col).
Proof. intros H. grid_ok_tac. Qed.

(* DCH 3 with the cursor on the second half of a wide character: the first half (col 0) is blanked with
   its own attributes, cols 1-3 are deleted, the orphaned second half that arrives at col 1 is blanked,
   three default blanks fill the end, the wrap flag is cleared; the other row is untouched *)
Example dch_example :
  delete_cells (g6 rowA 1) 3 =
  Ok (with_live (g6 rowA 1)
        [mkRow [bl red; bl red; ch 98; cell_new; cell_new; cell_new] false; mkRow (repeatN (ch 122) 6) true]).
Proof. vm_compute. reflexivity. Qed.

(* ICH 2 with the cursor on the second half of a wide character: the wide character keeps a (blank)
   continuation cell, the old continuation cell moves right without its flag, and the wide first half
   that lands in the last column (its second half is pushed out) is blanked *)
Example ich_example :
  insert_cells (g6 rowA 1) 2 =
  Ok (with_live (g6 rowA 1)
        [mkRow [W; cont_blank; cell_new; bl red; ch 97; bl red] false; mkRow (repeatN (ch 122) 6) true]).
Proof. vm_compute. reflexivity. Qed.

(* counts larger than the room (65535): everything right of the cursor goes *)
Example dch_example_max :
  delete_cells (g6 rowA 2) 65535 =
  Ok (with_live (g6 rowA 2)
        [mkRow [W; C; cell_new; cell_new; cell_new; cell_new] false; mkRow (repeatN (ch 122) 6) true]).
Proof. vm_compute. reflexivity. Qed.
Example ich_example_max :
  insert_cells (g6 rowA 2) 65535 =
  Ok (with_live (g6 rowA 2)
        [mkRow [W; C; cell_new; cell_new; cell_new; cell_new] false; mkRow (repeatN (ch 122) 6) true]).
Proof. vm_compute. reflexivity. Qed.

(* pending wrap (cursor column = cols): only the wrap flag changes *)
Example pending_wrap_example :
  insert_cells (g6 rowA 6) 1 = Ok (with_live (g6 rowA 6) [mkRow rowA false; mkRow (repeatN (ch 122) 6) true]) /\
  delete_cells (g6 rowA 6) 1 = Ok (with_live (g6 rowA 6) [mkRow rowA false; mkRow (repeatN (ch 122) 6) true]).
Proof. vm_compute. auto. Qed.

(* ---- lines: 5 rows x 1 column, region rows 1..3, every row wrapped ---- *)
Definition ln (c : N) : row := mkRow [ch c] true.
Definition g5 (r : N) : grid :=
  mkGrid 5 1 r 0 0 0 [ln 97; ln 98; ln 99; ln 100; ln 101] 1 3 false false [] 0 0.
Definition blank1 : row := row_new 1.

Lemma g5_ok r : r < 5 -> grid_ok (g5 r).
Proof. intros H. grid_ok_tac. Qed.

(* SU by 4 = rows - top > height of the region (3): the region is all blank, row 4 below it is untouched *)
Example su_example :
  scroll_up (g5 0) 1 = Ok (with_live (g5 0) [ln 97; ln 99; ln 100; blank1; ln 101]) /\
  scroll_up (g5 0) 4 = Ok (with_live (g5 0) [ln 97; blank1; blank1; blank1; ln 101]) /\
  scroll_up (g5 0) 65535 = Ok (with_live (g5 0) [ln 97; blank1; blank1; blank1; ln 101]).
Proof. vm_compute. auto. Qed.

(* SD: the row that ends at the bottom margin loses its wrap flag *)
Example sd_example :
  scroll_down (g5 0) 1 = Ok (with_live (g5 0) [ln 97; blank1; ln 98; mkRow [ch 99] false; ln 101]) /\
  scroll_down (g5 0) 65535 = Ok (with_live (g5 0) [ln 97; blank1; blank1; blank1; ln 101]).
Proof. vm_compute. auto. Qed.

Example il_dl_example :
  insert_lines (g5 2) 1 = Ok (with_live (g5 2) [ln 97; ln 98; blank1; mkRow [ch 99] false; ln 101]) /\
  delete_lines (g5 2) 1 = Ok (with_live (g5 2) [ln 97; ln 98; ln 100; blank1; ln 101]) /\
  delete_lines (g5 2) 3 = Ok (with_live (g5 2) [ln 97; ln 98; blank1; blank1; ln 101]).
Proof. vm_compute. auto. Qed.

Example lf_ri_example :
  row_inc_scroll (g5 3) 1 = Ok (with_live (g5 3) [ln 97; ln 99; ln 100; blank1; ln 101], 1) /\
  row_inc_scroll (g5 2) 1 = Ok (g5 3, 0) /\
  row_inc_scroll (g5 4) 1 = Ok (g5 4, 0) /\
  row_dec_scroll (g5 1) 1 = Ok (with_live (g5 1) [ln 97; blank1; ln 98; mkRow [ch 99] false; ln 101]) /\
  row_dec_scroll (g5 2) 1 = Ok (g5 1) /\
  row_dec_scroll (g5 4) 1 = Ok (g5 3).
Proof. vm_compute. auto 10. Qed.

(* ---- outside the contract (documented, not part of C08) ---- *)
(* IL with the cursor below the region modifies lines outside the region *)
Remark il_below_region_example :
  insert_lines (g5 4) 1 = Ok (with_live (g5 4) [ln 97; ln 98; ln 99; mkRow [ch 101] false; blank1]).
Proof. vm_compute. reflexivity. Qed.
(* DL with the cursor above the region deletes a line above the region *)
Remark dl_above_region_example :
  delete_lines (g5 0) 1 = Ok (with_live (g5 0) [ln 98; ln 99; ln 100; blank1; ln 101]).
Proof. vm_compute. reflexivity. Qed.
(* RI on line 0 above an active region scrolls the region *)
Remark ri_row0_example :
  row_dec_scroll (g5 0) 1 = Ok (with_live (g5 0) [ln 97; blank1; ln 98; mkRow [ch 99] false; ln 101]).
Proof. vm_compute. reflexivity. Qed.
