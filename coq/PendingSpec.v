(* PendingSpec.v — the transition clause of C13: when can the cursor column equal the
   number of columns (the "pending wrap" position)?

   screen_ok gives pcol (cur s) <= gcols (cur s).  Here: one action can produce
   pcol = gcols only by (A) leaving an already pending column alone, (B) printing a
   character that ends in the last column, (C) DECRC restoring a saved pending column,
   (D) DECRST 1049 restoring the primary grid's saved pending column, (E) DECSET/DECRST 47
   switching to the other grid whose own cursor was pending.  Every other action
   (horizontal moves, DECSTBM, origin mode, RIS, resize) leaves pcol < gcols. *)
Require Import Tac ListN Utf8 Width Attrs Cell Row Grid Screen Vte Perform Parser.
Require Import RowInv GridInv TextInv ScreenInv PrintSpec ResizeSpec.
Open Scope N_scope.

(* ================================================================== *)
(* 1. grid operations that leave the cursor column alone               *)
(* ================================================================== *)
Definition keeps (x y : grid) : Prop := pcol y = pcol x /\ gcols y = gcols x.

Lemma keeps_refl x : keeps x x. Proof. split; reflexivity. Qed.
Lemma keeps_trans x y z : keeps x y -> keeps y z -> keeps x z.
Proof. intros [A B] [C D]. split; congruence. Qed.

Lemma keeps_with_live x l : keeps x (with_live x l). Proof. split; reflexivity. Qed.
Lemma keeps_with_prow x r : keeps x (with_prow x r). Proof. split; reflexivity. Qed.

Lemma upd_row_keeps x r f y : upd_row x r f = Ok y -> keeps x y.
Proof. intros E. destruct (upd_row_fields _ _ _ _ E) as (_ & A & B & _). split; auto. Qed.

Lemma erase_row_forward_keeps x a y : erase_row_forward x a = Ok y -> keeps x y.
Proof. apply upd_row_keeps. Qed.
Lemma erase_row_backward_keeps x a y : erase_row_backward x a = Ok y -> keeps x y.
Proof. unfold erase_row_backward. intros E. bind_inv E. eapply upd_row_keeps; exact E. Qed.
Lemma erase_row_keeps x a y : erase_row x a = Ok y -> keeps x y.
Proof. apply upd_row_keeps. Qed.
Lemma erase_cells_keeps x n a y : erase_cells x n a = Ok y -> keeps x y.
Proof. apply upd_row_keeps. Qed.
Lemma erase_all_keeps x a : keeps x (erase_all x a).
Proof. apply keeps_with_live. Qed.
Lemma erase_all_forward_keeps x a y : erase_all_forward x a = Ok y -> keeps x y.
Proof.
  unfold erase_all_forward. intros E. apply erase_row_forward_keeps in E.
  eapply keeps_trans; [apply keeps_with_live|exact E].
Qed.
Lemma erase_all_backward_keeps x a y : erase_all_backward x a = Ok y -> keeps x y.
Proof.
  unfold erase_all_backward. intros E. apply erase_row_backward_keeps in E.
  eapply keeps_trans; [apply keeps_with_live|exact E].
Qed.

Lemma insert_cells_keeps x n y : insert_cells x n = Ok y -> keeps x y.
Proof. unfold insert_cells. intros E. bind_inv E. bind_inv E. eapply upd_row_keeps; exact E. Qed.
Lemma delete_cells_keeps x n y : delete_cells x n = Ok y -> keeps x y.
Proof. unfold delete_cells. intros E. bind_inv E. eapply upd_row_keeps; exact E. Qed.
Lemma insert_lines_keeps x n y : insert_lines x n = Ok y -> keeps x y.
Proof. unfold insert_lines. intros E. bind_inv E. inv E. apply keeps_with_live. Qed.
Lemma delete_lines_keeps x n y : delete_lines x n = Ok y -> keeps x y.
Proof. unfold delete_lines. intros E. bind_inv E. bind_inv E. inv E. apply keeps_with_live. Qed.
Lemma scroll_down_keeps x n y : scroll_down x n = Ok y -> keeps x y.
Proof. unfold scroll_down. intros E. bind_inv E. inv E. apply keeps_with_live. Qed.

Lemma scroll_up_keeps x n y : scroll_up x n = Ok y -> keeps x y.
Proof.
  unfold scroll_up. intros E. repeat bind_inv E.
  eapply (iter_res_inv (fun z => keeps x z)); [exact E|apply keeps_refl|].
  intros z z' Ez Kz. repeat bind_inv Ez. destruct v2 as [rem l2].
  eapply keeps_trans; [exact Kz|].
  destruct ((0 <? sb_cap (with_live z l2)) && negb v0); inv Ez; split; reflexivity.
Qed.

Lemma row_clamp_bottom_keeps x lim y k : row_clamp_bottom x lim = Ok (y, k) -> keeps x y.
Proof.
  unfold row_clamp_bottom. intros E. bind_inv E.
  destruct (v <? prow x); inv E; split; reflexivity.
Qed.
Lemma row_clamp_top_keeps x lim : keeps x (fst (row_clamp_top x lim)).
Proof. unfold row_clamp_top. destruct (lim && (prow x <? top x)); split; reflexivity. Qed.

Lemma row_inc_clamp_keeps x n y : row_inc_clamp x n = Ok y -> keeps x y.
Proof.
  unfold row_inc_clamp. intros E. bind_inv E. destruct v as [y1 k]. inv E.
  apply row_clamp_bottom_keeps in E0. eapply keeps_trans; [apply keeps_with_prow|exact E0].
Qed.
Lemma row_dec_clamp_keeps x n : keeps x (row_dec_clamp x n).
Proof.
  unfold row_dec_clamp. eapply keeps_trans; [apply keeps_with_prow|apply row_clamp_top_keeps].
Qed.
Lemma row_set_keeps x i y : row_set x i = Ok y -> keeps x y.
Proof.
  unfold row_set, row_clamp. intros E. bind_inv E.
  destruct (v <? prow (with_prow x i)); inv E; split; reflexivity.
Qed.
Lemma row_inc_scroll_keeps x n y k : row_inc_scroll x n = Ok (y, k) -> keeps x y.
Proof.
  unfold row_inc_scroll. intros E. bind_inv E. destruct v as [y1 k1].
  apply row_clamp_bottom_keeps in E0.
  assert (keeps x y1) as K1 by (eapply keeps_trans; [apply keeps_with_prow|exact E0]).
  destruct (in_scroll_region x).
  - bind_inv E. inv E. apply scroll_up_keeps in E1. eapply keeps_trans; eauto.
  - now inv E.
Qed.
Lemma row_dec_scroll_keeps x n y : row_dec_scroll x n = Ok y -> keeps x y.
Proof.
  unfold row_dec_scroll. intros E.
  pose proof (row_clamp_top_keeps (with_prow x (sat_sub16 (prow x) n)) (in_scroll_region x)) as K1.
  destruct (row_clamp_top (with_prow x (sat_sub16 (prow x) n)) (in_scroll_region x)) as [y1 lines].
  cbn [fst] in K1. bind_inv E. apply scroll_down_keeps in E.
  eapply keeps_trans; [apply keeps_with_prow|]. eapply keeps_trans; eauto.
Qed.

(* ================================================================== *)
(* 2. grid operations after which the column is inside the line        *)
(* ================================================================== *)
Lemma col_clamp_lt x y : 1 <= gcols x -> col_clamp x = Ok y -> pcol y < gcols y /\ gcols y = gcols x.
Proof. intros H E. rewrite col_clamp_eq in E by exact H. inv E. cbn. split; [lia|reflexivity]. Qed.

Lemma col_set_lt x i y : 1 <= gcols x -> col_set x i = Ok y -> pcol y < gcols y /\ gcols y = gcols x.
Proof. intros H E. rewrite col_set_eq in E by exact H. inv E. cbn. split; [lia|reflexivity]. Qed.
Lemma col_inc_clamp_lt x n y : 1 <= gcols x -> col_inc_clamp x n = Ok y -> pcol y < gcols y /\ gcols y = gcols x.
Proof. intros H E. rewrite col_inc_clamp_eq in E by exact H. inv E. cbn. split; [lia|reflexivity]. Qed.
Lemma col_tab_lt x y : 1 <= gcols x -> col_tab x = Ok y -> pcol y < gcols y /\ gcols y = gcols x.
Proof.
  intros H E. unfold col_tab in E. bind_inv E. apply col_clamp_lt in E; [|exact H]. exact E.
Qed.
Lemma col_dec_lt x n : 1 <= gcols x -> pcol x <= gcols x -> 1 <= n ->
  pcol (col_dec x n) < gcols (col_dec x n) /\ gcols (col_dec x n) = gcols x.
Proof. intros H Hp Hn. cbn. unfold sat_sub16. split; [lia|reflexivity]. Qed.
Lemma grid_set_pos_lt x r c y : 1 <= grows x -> 1 <= gcols x -> grid_set_pos x r c = Ok y ->
  pcol y < gcols y /\ gcols y = gcols x.
Proof. intros Hr H E. rewrite grid_set_pos_eq in E by assumption. inv E. cbn. split; [lia|reflexivity]. Qed.
Lemma set_scroll_region_lt x t b y : 1 <= grows x -> 1 <= gcols x -> set_scroll_region x t b = Ok y ->
  pcol y < gcols y /\ gcols y = gcols x.
Proof.
  intros Hr H E. rewrite set_scroll_region_eq in E by assumption. inv E. cbv zeta.
  destruct (t <? N.min b (grows x - 1)); cbn; (split; [lia|reflexivity]).
Qed.
Lemma set_origin_mode_lt x m y : 1 <= grows x -> 1 <= gcols x -> set_origin_mode x m = Ok y ->
  pcol y < gcols y /\ gcols y = gcols x.
Proof. intros Hr H E. unfold set_origin_mode in E. apply grid_set_pos_lt in E; auto. Qed.

(* ================================================================== *)
(* 3. printing                                                         *)
(* ================================================================== *)
(* characters for which Screen::text leaves the cursor where it is: C0/C1 controls below
   U+0100, zero-width (combining) characters, and characters wider than the whole line *)
Definition text_keeps (cols ch : N) : Prop :=
  (wd ch = None /\ ch < 256) \/ wd ch = Some 0 \/ cols < cwidth ch.

(* the character ch was stored so that it ends in the last column of the cursor row of y:
   either it fitted exactly (old column + width = cols), or it did not fit, the cursor wrapped
   to column 0 of row wrap_row x and the character is as wide as the whole line (cols = 1 or 2) *)
Definition ends_last (x y : grid) (ch : N) (a : attrs) : Prop :=
  1 <= cwidth ch <= 2 /\ gcols y = gcols x /\ pcol y = gcols y /\
  ((pcol x + cwidth ch = gcols x /\ prow y = prow x) \/
   (gcols x < pcol x + cwidth ch /\ cwidth ch = gcols x /\ prow y = wrap_row x)) /\
  drawing_cell y (prow y) (gcols y - cwidth ch) = Some (glyph ch a) /\
  (cwidth ch = 2 -> drawing_cell y (prow y) (gcols y - 1) = Some cont_cell).

Lemma place_ends x ch w a : grid_ok x -> (w = 1 \/ w = 2) -> pcol x + w = gcols x ->
  drawing_cell (place x ch w a) (prow x) (gcols x - w) = Some (glyph ch a) /\
  (w = 2 -> drawing_cell (place x ch w a) (prow x) (gcols x - 1) = Some cont_cell).
Proof.
  intros H Hw Hfit. destruct (place_cursor_cells x ch w a H Hw) as (P1 & P2); [lia|].
  replace (gcols x - w) with (pcol x) by lia. split; [exact P1|].
  intros ->. replace (gcols x - 1) with (pcol x + 1) by lia. now apply P2.
Qed.

Theorem grid_text_pending x ch a y : grid_ok x -> grid_text x ch a = Ok y -> pcol y = gcols y ->
  (keeps x y /\ prow y = prow x /\ text_keeps (gcols x) ch) \/ ends_last x y ch a.
Proof.
  intros H E Hp. unfold text_keeps.
  destruct (grid_text_cases x ch a H) as
    [(W & Hc & E1) | [(_ & Hw & E1) | [(W & E1) | [(_ & Hw & Hfit & E1) | (_ & Hw & Hle & Hover & E1)]]]];
    rewrite E1 in E; inv E.
  - left. split; [apply keeps_refl|]. split; [reflexivity|]. left. auto.
  - left. split; [apply keeps_refl|]. split; [reflexivity|]. right; right. exact Hw.
  - left. destruct (zero_result_cursor x ch) as (Zr & Zc).
    split; [|split; [exact Zr|right; left; exact W]].
    split; [exact Zc|]. unfold zero_result. destruct (zero_target x) as [[r c]|]; reflexivity.
  - right. change (pcol x + cwidth ch = gcols x) in Hp.
    destruct (place_ends x ch (cwidth ch) a H) as (P1 & P2); [lia|exact Hp|].
    split; [exact Hw|]. split; [reflexivity|]. split; [exact Hp|].
    split; [left; split; [exact Hp|reflexivity]|].
    split; [exact P1|exact P2].
  - right. set (x' := wrap_grid x (last_occupied x)) in *.
    destruct (wrap_grid_ok x (cwidth ch) (last_occupied x) H Hle Hover) as (Ox' & Fx').
    fold x' in Ox', Fx'.
    assert (pcol x' = 0) as P0 by apply wrap_grid_pcol.
    assert (prow x' = wrap_row x) as R0 by apply wrap_grid_prow.
    pose proof (fr_cols _ _ Fx') as C0.
    change (pcol x' + cwidth ch = gcols x') in Hp.
    destruct (place_ends x' ch (cwidth ch) a Ox') as (P1 & P2); [lia|exact Hp|].
    split; [exact Hw|]. split; [exact C0|]. split; [exact Hp|].
    split; [right; split; [exact Hover|split; [lia|exact R0]]|].
    split; [exact P1|exact P2].
Qed.

(* ================================================================== *)
(* 4. screen level                                                     *)
(* ================================================================== *)
(* the action left the current grid's cursor column (and the choice of grid) alone *)
Definition skeep (s s' : screen) : Prop :=
  altmode s' = altmode s /\ pcol (cur s') = pcol (cur s) /\ gcols (cur s') = gcols (cur s).
(* after the action the cursor is inside the line *)
Definition inside (s' : screen) : Prop := pcol (cur s') < gcols (cur s').

Lemma skeep_refl s : skeep s s. Proof. repeat split. Qed.

Lemma cur_with_cur' s y : cur (with_cur s y) = y /\ altmode (with_cur s y) = altmode s.
Proof. unfold cur, with_cur. destruct (altmode s) eqn:E; cbn; rewrite ?E; auto. Qed.

Lemma on_cur_inv' s f s' : on_cur s f = Ok s' -> exists y, f (cur s) = Ok y /\ cur s' = y /\ altmode s' = altmode s.
Proof.
  unfold on_cur. intros E. bind_inv E. inv E. exists v. split; [exact E0|apply cur_with_cur'].
Qed.

Lemma on_cur_skeep s f s' : (forall y, f (cur s) = Ok y -> keeps (cur s) y) -> on_cur s f = Ok s' -> skeep s s'.
Proof.
  intros Hf E. destruct (on_cur_inv' _ _ _ E) as (y & Ey & Ec & Ea). destruct (Hf y Ey) as [A B].
  unfold skeep. rewrite Ec. split; [exact Ea|split; assumption].
Qed.
Lemma on_cur_inside s f s' : (forall y, f (cur s) = Ok y -> pcol y < gcols y /\ gcols y = gcols (cur s)) ->
  on_cur s f = Ok s' -> inside s'.
Proof.
  intros Hf E. destruct (on_cur_inv' _ _ _ E) as (y & Ey & Ec & Ea). destruct (Hf y Ey) as [A B].
  unfold inside. rewrite Ec. exact A.
Qed.

Lemma cur_dims s : screen_ok s -> 1 <= grows (cur s) /\ 1 <= gcols (cur s) /\ pcol (cur s) <= gcols (cur s).
Proof.
  intros H. pose proof (cur_ok _ H) as (K & _ & Hc). pose proof (gk_rows _ K). pose proof (gk_cols _ K). lia.
Qed.

(* --- keepers --- *)
Lemma scr_lf_keep s s' : scr_lf s = Ok s' -> skeep s s'.
Proof.
  apply on_cur_skeep. intros y E. bind_inv E. destruct v as [y1 k]. inv E.
  eapply row_inc_scroll_keeps; eauto.
Qed.
Lemma scr_ri_keep s s' : scr_ri s = Ok s' -> skeep s s'.
Proof. apply on_cur_skeep. intros y E. eapply row_dec_scroll_keeps; eauto. Qed.
Lemma scr_ich_keep s n s' : scr_ich s n = Ok s' -> skeep s s'.
Proof. apply on_cur_skeep. intros y E. eapply insert_cells_keeps; eauto. Qed.
Lemma scr_cuu_keep s n s' : scr_cuu s n = Ok s' -> skeep s s'.
Proof. apply on_cur_skeep. intros y E. inv E. apply row_dec_clamp_keeps. Qed.
Lemma scr_cud_keep s n s' : scr_cud s n = Ok s' -> skeep s s'.
Proof. apply on_cur_skeep. intros y E. eapply row_inc_clamp_keeps; eauto. Qed.
Lemma scr_vpa_keep s n s' : scr_vpa s n = Ok s' -> skeep s s'.
Proof. apply on_cur_skeep. intros y E. bind_inv E. eapply row_set_keeps; eauto. Qed.
Lemma scr_il_keep s n s' : scr_il s n = Ok s' -> skeep s s'.
Proof. apply on_cur_skeep. intros y E. eapply insert_lines_keeps; eauto. Qed.
Lemma scr_dl_keep s n s' : scr_dl s n = Ok s' -> skeep s s'.
Proof. apply on_cur_skeep. intros y E. eapply delete_lines_keeps; eauto. Qed.
Lemma scr_dch_keep s n s' : scr_dch s n = Ok s' -> skeep s s'.
Proof. apply on_cur_skeep. intros y E. eapply delete_cells_keeps; eauto. Qed.
Lemma scr_su_keep s n s' : scr_su s n = Ok s' -> skeep s s'.
Proof. apply on_cur_skeep. intros y E. eapply scroll_up_keeps; eauto. Qed.
Lemma scr_sd_keep s n s' : scr_sd s n = Ok s' -> skeep s s'.
Proof. apply on_cur_skeep. intros y E. eapply scroll_down_keeps; eauto. Qed.
Lemma scr_ech_keep s n s' : scr_ech s n = Ok s' -> skeep s s'.
Proof. apply on_cur_skeep. intros y E. eapply erase_cells_keeps; eauto. Qed.

Lemma scr_ed_keep s m s' k : scr_ed s m = Ok (s', k) -> skeep s s'.
Proof.
  unfold scr_ed. intros E.
  destruct (m =? 0); [bind_inv E; inv E; revert E0; apply on_cur_skeep; intros y E; eapply erase_all_forward_keeps; eauto|].
  destruct (m =? 1); [bind_inv E; inv E; revert E0; apply on_cur_skeep; intros y E; eapply erase_all_backward_keeps; eauto|].
  destruct (m =? 2); [bind_inv E; inv E; revert E0; apply on_cur_skeep; intros y E; inv E; apply erase_all_keeps|].
  inv E. apply skeep_refl.
Qed.
Lemma scr_el_keep s m s' k : scr_el s m = Ok (s', k) -> skeep s s'.
Proof.
  unfold scr_el. intros E.
  destruct (m =? 0); [bind_inv E; inv E; revert E0; apply on_cur_skeep; intros y E; eapply erase_row_forward_keeps; eauto|].
  destruct (m =? 1); [bind_inv E; inv E; revert E0; apply on_cur_skeep; intros y E; eapply erase_row_backward_keeps; eauto|].
  destruct (m =? 2); [bind_inv E; inv E; revert E0; apply on_cur_skeep; intros y E; eapply erase_row_keeps; eauto|].
  inv E. apply skeep_refl.
Qed.
Lemma scr_sgr_keep s ps s' k : scr_sgr s ps = (s', k) -> skeep s s'.
Proof. unfold scr_sgr. destruct (sgr ps (pen s)) as [a k']. intros E. inv E. repeat split. Qed.
Lemma scr_save_cursor_keep s : skeep s (scr_save_cursor s).
Proof.
  unfold scr_save_cursor, skeep, cur, with_cur. destruct (altmode s) eqn:E; cbn; rewrite ?E; repeat split.
Qed.

(* --- operations that put the cursor inside the line --- *)
Lemma scr_bs_inside s s' : screen_ok s -> scr_bs s = Ok s' -> inside s'.
Proof.
  intros H. destruct (cur_dims s H) as (Hr & Hc & Hp). apply on_cur_inside. intros y E. inv E.
  apply col_dec_lt; auto; lia.
Qed.
Lemma scr_tab_inside s s' : screen_ok s -> scr_tab s = Ok s' -> inside s'.
Proof.
  intros H. destruct (cur_dims s H) as (Hr & Hc & Hp). apply on_cur_inside. intros y E.
  now apply col_tab_lt.
Qed.
Lemma scr_cr_inside s s' : screen_ok s -> scr_cr s = Ok s' -> inside s'.
Proof.
  intros H. destruct (cur_dims s H) as (Hr & Hc & Hp). apply on_cur_inside. intros y E.
  eapply col_set_lt; eauto.
Qed.
Lemma scr_cuf_inside s n s' : screen_ok s -> scr_cuf s n = Ok s' -> inside s'.
Proof.
  intros H. destruct (cur_dims s H) as (Hr & Hc & Hp). apply on_cur_inside. intros y E.
  eapply col_inc_clamp_lt; eauto.
Qed.
Lemma scr_cub_inside s n s' : screen_ok s -> 1 <= n -> scr_cub s n = Ok s' -> inside s'.
Proof.
  intros H Hn. destruct (cur_dims s H) as (Hr & Hc & Hp). apply on_cur_inside. intros y E. inv E.
  apply col_dec_lt; auto.
Qed.
Lemma scr_cnl_inside s n s' : screen_ok s -> scr_cnl s n = Ok s' -> inside s'.
Proof.
  intros H. destruct (cur_dims s H) as (Hr & Hc & Hp). apply on_cur_inside. intros y E. bind_inv E.
  destruct (col_set_lt _ _ _ Hc E0) as (A & B). destruct (row_inc_clamp_keeps _ _ _ E) as (C & D).
  split; [lia|congruence].
Qed.
Lemma scr_cpl_inside s n s' : screen_ok s -> scr_cpl s n = Ok s' -> inside s'.
Proof.
  intros H. destruct (cur_dims s H) as (Hr & Hc & Hp). apply on_cur_inside. intros y E. bind_inv E. inv E.
  destruct (col_set_lt _ _ _ Hc E0) as (A & B). destruct (row_dec_clamp_keeps v n) as (C & D).
  split; [lia|congruence].
Qed.
Lemma scr_cha_inside s n s' : screen_ok s -> scr_cha s n = Ok s' -> inside s'.
Proof.
  intros H. destruct (cur_dims s H) as (Hr & Hc & Hp). apply on_cur_inside. intros y E. bind_inv E.
  eapply col_set_lt; eauto.
Qed.
Lemma scr_cup_inside s r c s' : screen_ok s -> scr_cup s r c = Ok s' -> inside s'.
Proof.
  intros H. destruct (cur_dims s H) as (Hr & Hc & Hp). apply on_cur_inside. intros y E. bind_inv E. bind_inv E.
  eapply grid_set_pos_lt; eauto.
Qed.
Lemma scr_decstbm_inside s t b s' : screen_ok s -> scr_decstbm s t b = Ok s' -> inside s'.
Proof.
  intros H. destruct (cur_dims s H) as (Hr & Hc & Hp). apply on_cur_inside. intros y E. bind_inv E. bind_inv E.
  eapply set_scroll_region_lt; eauto.
Qed.

(* ================================================================== *)
(* 5. DECSET / DECRST                                                  *)
(* ================================================================== *)
Lemma single_inv p n : single p = Some n -> p = [n].
Proof. destruct p as [|a [|b t]]; cbn; intros E; inv E. reflexivity. Qed.
Lemma single_none_ne p n : single p = None -> p <> [n].
Proof. intros E ->. discriminate. Qed.

Lemma on_cur_inv2 s f s' : on_cur s f = Ok s' -> exists y, f (cur s) = Ok y /\ s' = with_cur s y.
Proof. unfold on_cur. intros E. bind_inv E. inv E. eauto. Qed.

Lemma enter_alt_cols s :
  altmode (enter_alternate_grid s) = true /\
  pcol (alt (enter_alternate_grid s)) = pcol (alt s) /\
  gcols (alt (enter_alternate_grid s)) = gcols (alt s) /\
  gcols (g (enter_alternate_grid s)) = gcols (g s).
Proof.
  unfold enter_alternate_grid, with_cur, cur, allocate_rows.
  destruct (altmode s); cbn; match goal with |- context[match ?l with [] => _ | _ => _ end] => destruct l end;
    repeat split.
Qed.

Ltac ifeq E :=
  repeat match type of E with
  | (if ?a =? ?b then _ else _) = _ =>
      let Hne := fresh "Hne" in let Heq := fresh "Heq" in
      destruct (N.eqb_spec a b) as [Heq|Hne]; [try subst a|]
  end.

(* one DECSET parameter *)
Lemma decset1_col s p s1 k : screen_ok s -> decset1 s p = Ok (s1, k) ->
  gcols (g s1) = gcols (g s) /\
  (altmode s = true -> altmode s1 = true) /\
  (pcol (alt s1) = gcols (g s) -> pcol (alt s) = gcols (g s)) /\
  (pcol (cur s1) = gcols (g s) ->
     (pcol (cur s) = gcols (g s) /\ altmode s1 = altmode s /\ p <> [6]) \/
     (p = [47] /\ altmode s = false /\ altmode s1 = true /\ pcol (alt s) = gcols (g s))).
Proof.
  intros H E. pose proof (so_cols _ H) as Hca. destruct (cur_dims s H) as (Hr & Hc & Hp).
  assert (gcols (cur s) = gcols (g s)) as Hcg by (unfold cur; destruct (altmode s); auto).
  unfold decset1 in E. destruct (single p) as [n|] eqn:Es.
  2:{ inv E. split; [reflexivity|]. split; [auto|]. split; [auto|]. intros Q. left.
      split; [exact Q|]. split; [reflexivity|]. now apply single_none_ne. }
  apply single_inv in Es. subst p.
  ifeq E.
  all: try (inv E; split; [reflexivity|]; split; [auto|]; split; [auto|]; intros Q; left;
            split; [exact Q|]; split; [reflexivity|]; intros Q'; injection Q' as Q'; lia).
  - (* 6: origin mode homes the cursor *)
    bind_inv E. inv E. destruct (on_cur_inv2 _ _ _ E0) as (y & Ey & ->).
    destruct (set_origin_mode_lt _ _ _ Hr Hc Ey) as (A & B).
    unfold with_cur, cur in *. destruct (altmode s) eqn:Ea; cbn; rewrite ?Ea.
    + split; [reflexivity|]. split; [auto|]. split; [lia|]. intros Q; lia.
    + split; [exact B|]. split; [discriminate|]. split; [auto|]. intros Q; lia.
  - (* 47 *)
    inv E. destruct (enter_alt_cols s) as (A & B & C & D).
    split; [exact D|]. split; [auto|]. split; [rewrite B; auto|].
    intros Q. unfold cur in Q. rewrite A in Q. rewrite B in Q.
    destruct (altmode s) eqn:Ea.
    + left. unfold cur. rewrite Ea. split; [exact Q|]. split; [exact A|]. discriminate.
    + right. auto.
  - (* 1049: the alternate grid is cleared, cursor at 0 *)
    bind_inv E. inv E.
    assert (pcol v = 0 /\ gcols v = gcols (alt (scr_save_cursor s))) as (V1 & V2)
      by (unfold grid_clear in E0; bind_inv E0; inv E0; split; reflexivity).
    assert (gcols (alt (scr_save_cursor s)) = gcols (alt s) /\ gcols (g (scr_save_cursor s)) = gcols (g s)) as (S1 & S2)
      by (unfold scr_save_cursor, with_cur, cur; destruct (altmode s); split; reflexivity).
    destruct (enter_alt_cols (with_alt (scr_save_cursor s) v)) as (A & B & C & D).
    change (alt (with_alt (scr_save_cursor s) v)) with v in B, C.
    change (g (with_alt (scr_save_cursor s) v)) with (g (scr_save_cursor s)) in D.
    split; [rewrite D; exact S2|]. split; [auto|]. split; [rewrite B; lia|].
    intros Q. unfold cur in Q. rewrite A, B in Q. lia.
Qed.

(* one DECRST parameter *)
Lemma decrst1_col s p s1 k : screen_ok s -> decrst1 s p = Ok (s1, k) ->
  gcols (g s1) = gcols (g s) /\
  (altmode s1 = true -> altmode s = true) /\
  spcol (g s1) = spcol (g s) /\
  (pcol (g s1) = gcols (g s) -> pcol (g s) = gcols (g s) \/ (p = [1049] /\ spcol (g s) = gcols (g s))) /\
  (pcol (cur s1) = gcols (g s) ->
     (pcol (cur s) = gcols (g s) /\ altmode s1 = altmode s /\ p <> [6]) \/
     (p = [47] /\ altmode s = true /\ altmode s1 = false /\ pcol (g s) = gcols (g s)) \/
     (p = [1049] /\ altmode s1 = false /\ spcol (g s) = gcols (g s))).
Proof.
  intros H E. pose proof (so_cols _ H) as Hca. destruct (cur_dims s H) as (Hr & Hc & Hp).
  assert (gcols (cur s) = gcols (g s)) as Hcg by (unfold cur; destruct (altmode s); auto).
  unfold decrst1 in E. destruct (single p) as [n|] eqn:Es.
  2:{ inv E. split; [reflexivity|]. split; [auto|]. split; [reflexivity|]. split; [auto|]. intros Q. left.
      split; [exact Q|]. split; [reflexivity|]. now apply single_none_ne. }
  apply single_inv in Es. subst p.
  assert (forall t : screen, g t = g s -> alt t = alt s -> altmode t = altmode s -> n <> 6 ->
            gcols (g t) = gcols (g s) /\ (altmode t = true -> altmode s = true) /\ spcol (g t) = spcol (g s) /\
            (pcol (g t) = gcols (g s) -> pcol (g s) = gcols (g s) \/ ([n] = [1049] /\ spcol (g s) = gcols (g s))) /\
            (pcol (cur t) = gcols (g s) ->
               (pcol (cur s) = gcols (g s) /\ altmode t = altmode s /\ [n] <> [6]) \/
               ([n] = [47] /\ altmode s = true /\ altmode t = false /\ pcol (g s) = gcols (g s)) \/
               ([n] = [1049] /\ altmode t = false /\ spcol (g s) = gcols (g s)))) as Same.
  { intros t Eg Ea Em Hn. unfold cur. rewrite Eg, Ea, Em.
    split; [reflexivity|]. split; [auto|]. split; [reflexivity|]. split; [auto|]. intros Q. left.
    split; [exact Q|]. split; [reflexivity|]. intros Q'; injection Q' as Q'; lia. }
  ifeq E.
  all: try solve [inv E; apply Same; try reflexivity; try lia;
            try (unfold clear_mouse_mode; match goal with |- context[if ?c then _ else _] => destruct c end; reflexivity);
            try (unfold clear_mouse_enc; match goal with |- context[if ?c then _ else _] => destruct c end; reflexivity)].
  - (* 6: origin mode homes the cursor *)
    bind_inv E. inv E. destruct (on_cur_inv2 _ _ _ E0) as (y & Ey & ->).
    destruct (set_origin_mode_lt _ _ _ Hr Hc Ey) as (A & B).
    assert (spcol y = spcol (cur s)) as Sp.
    { unfold set_origin_mode in Ey. rewrite grid_set_pos_eq in Ey by exact Hr || exact Hc. inv Ey. reflexivity. }
    unfold with_cur, cur in *. destruct (altmode s) eqn:Ea; cbn; rewrite ?Ea.
    + split; [reflexivity|]. split; [auto|]. split; [reflexivity|]. split; [auto|]. intros Q; lia.
    + split; [exact B|]. split; [auto|]. split; [exact Sp|]. split; [intros Q; lia|]. intros Q; lia.
  - (* 47 *)
    inv E. unfold exit_alternate_grid, cur. cbn.
    split; [reflexivity|]. split; [discriminate|]. split; [reflexivity|]. split; [auto|].
    intros Q. destruct (altmode s) eqn:Ea.
    + right; left. auto.
    + left. split; [exact Q|]. split; [reflexivity|]. discriminate.
  - (* 1049 *)
    inv E. unfold scr_restore_cursor, exit_alternate_grid, with_cur, cur. cbn.
    split; [reflexivity|]. split; [discriminate|]. split; [reflexivity|].
    split; [intros Q; right; auto|]. intros Q. right; right. auto.
Qed.

(* the whole parameter list of CSI ? h *)
Lemma decset_fold_col ps : forall s n s' k, screen_ok s -> fold_params decset1 ps s n = Ok (s', k) ->
  gcols (g s') = gcols (g s) /\
  (pcol (cur s') = gcols (g s) ->
     (pcol (cur s) = gcols (g s) /\ altmode s' = altmode s /\ ~ In [6] ps) \/
     (In [47] ps /\ altmode s = false /\ altmode s' = true /\ pcol (alt s) = gcols (g s))).
Proof.
  induction ps as [|p ps IH]; intros s n s' k H E; cbn [fold_params] in E.
  - inv E. split; [reflexivity|]. intros Q. left. split; [exact Q|]. split; [reflexivity|]. intros [].
  - bind_inv E. destruct v as [s1 k1].
    destruct (decset1_ok s p H) as (s1' & k1' & E1 & H1). rewrite E0 in E1. inv E1.
    destruct (decset1_col _ _ _ _ H E0) as (C1 & M1 & A1 & P1).
    destruct (IH _ _ _ _ H1 E) as (C2 & P2). rewrite C1 in C2, P2.
    split; [exact C2|]. intros Q. destruct (P2 Q) as [(Q1 & M2 & N6) | (I47 & M2 & M3 & Q1)].
    + destruct (P1 Q1) as [(Q0 & M0 & Np) | (Ep & M0 & M0' & Q0)].
      * left. split; [exact Q0|]. split; [congruence|]. intros [Ei|Ei]; [congruence|auto].
      * right. split; [left; auto|]. split; [exact M0|]. split; [congruence|exact Q0].
    + right. split; [right; exact I47|].
      split; [destruct (altmode s); [rewrite M1 in M2 by reflexivity; discriminate|reflexivity]|].
      split; [exact M3|]. now apply A1.
Qed.

(* the whole parameter list of CSI ? l *)
Lemma decrst_fold_col ps : forall s n s' k, screen_ok s -> fold_params decrst1 ps s n = Ok (s', k) ->
  gcols (g s') = gcols (g s) /\
  (pcol (cur s') = gcols (g s) ->
     (pcol (cur s) = gcols (g s) /\ altmode s' = altmode s /\ ~ In [6] ps) \/
     (In [47] ps /\ altmode s = true /\ altmode s' = false /\ pcol (g s) = gcols (g s)) \/
     (In [1049] ps /\ altmode s' = false /\ spcol (g s) = gcols (g s))).
Proof.
  induction ps as [|p ps IH]; intros s n s' k H E; cbn [fold_params] in E.
  - inv E. split; [reflexivity|]. intros Q. left. split; [exact Q|]. split; [reflexivity|]. intros [].
  - bind_inv E. destruct v as [s1 k1].
    destruct (decrst1_ok s p H) as (s1' & k1' & E1 & H1). rewrite E0 in E1. inv E1.
    destruct (decrst1_col _ _ _ _ H E0) as (C1 & M1 & S1 & G1 & P1).
    destruct (IH _ _ _ _ H1 E) as (C2 & P2). rewrite C1 in C2, P2. rewrite S1 in P2.
    split; [exact C2|]. intros Q.
    destruct (P2 Q) as [(Q1 & M2 & N6) | [(I47 & M2 & M3 & Q1) | (I1049 & M3 & Q1)]].
    + destruct (P1 Q1) as [(Q0 & M0 & Np) | [(Ep & M0 & M0' & Q0) | (Ep & M0 & Q0)]].
      * left. split; [exact Q0|]. split; [congruence|]. intros [Ei|Ei]; [congruence|auto].
      * right; left. split; [left; auto|]. split; [exact M0|]. split; [congruence|exact Q0].
      * right; right. split; [left; auto|]. split; [congruence|exact Q0].
    + destruct (G1 Q1) as [Q0 | (Ep & Q0)].
      * right; left. split; [right; exact I47|]. split; [auto|]. split; [exact M3|exact Q0].
      * right; right. split; [left; auto|]. split; [exact M3|exact Q0].
    + right; right. split; [right; exact I1049|]. split; [exact M3|exact Q1].
Qed.

(* ================================================================== *)
(* 6. DECRC, RIS, resize                                               *)
(* ================================================================== *)
Lemma scr_restore_cursor_col s :
  altmode (scr_restore_cursor s) = altmode s /\
  pcol (cur (scr_restore_cursor s)) = spcol (cur s) /\
  gcols (cur (scr_restore_cursor s)) = gcols (cur s).
Proof.
  unfold scr_restore_cursor, with_cur, cur. destruct (altmode s) eqn:E; cbn; rewrite ?E; repeat split.
Qed.

(* RIS homes the cursor *)
Theorem ris_not_pending s s' : screen_ok s -> scr_ris s = Ok s' ->
  altmode s' = false /\ pcol (cur s') = 0 /\ gcols (cur s') = gcols (cur s) /\ inside s'.
Proof.
  intros H E. pose proof (so_cols _ H) as Hca. destruct (cur_dims s H) as (Hr & Hc & Hp).
  assert (gcols (cur s) = gcols (g s)) as Hcg by (unfold cur; destruct (altmode s); auto).
  unfold scr_ris, screen_new, grid_new in E. repeat bind_inv E. inv E.
  bind_inv E0. inv E0. bind_inv E1. inv E1.
  unfold inside, cur, allocate_rows in *. cbn. repeat split; try lia.
Qed.

(* Grid::set_size clamps the column and the saved column to cols - 1 *)
Lemma grid_set_size_cols x rows cols y : 1 <= grows x -> 1 <= rows -> 1 <= cols ->
  grid_set_size x rows cols = Ok y ->
  gcols y = cols /\ pcol y = N.min (pcol x) (cols - 1) /\ spcol y = N.min (spcol x) (cols - 1).
Proof. intros Hg Hr Hc E. apply grid_set_size_inv in E; auto. subst y. repeat split. Qed.

(* task item 3: a set_size never leaves a pending column, nor a pending saved column, in either grid *)
Theorem set_size_not_pending s r c s' : screen_ok s -> 1 <= r -> 1 <= c ->
  screen_set_size s r c = Ok s' ->
  gcols (g s') = c /\ gcols (alt s') = c /\
  pcol (g s') < gcols (g s') /\ spcol (g s') < gcols (g s') /\
  pcol (alt s') < gcols (alt s') /\ spcol (alt s') < gcols (alt s') /\
  pcol (cur s') < gcols (cur s') /\ spcol (cur s') < gcols (cur s').
Proof.
  intros H Hr Hc E. unfold screen_set_size in E. bind_inv E. bind_inv E. inv E.
  pose proof (so_g _ H) as (Kg & _). pose proof (gk_rows _ Kg) as Rg.
  pose proof (ok0_rows _ (so_alt _ H)) as Ra.
  destruct (grid_set_size_cols _ _ _ _ (proj1 Rg) Hr Hc E0) as (A1 & A2 & A3).
  destruct (grid_set_size_cols _ _ _ _ Ra Hr Hc E1) as (B1 & B2 & B3).
  unfold cur. cbn. destruct (altmode s); repeat split; lia.
Qed.

(* ================================================================== *)
(* 7. the dispatchers                                                  *)
(* ================================================================== *)
Lemma do_execute_col s b s' evs : screen_ok s -> do_execute s b = Ok (s', evs) ->
  (skeep s s' /\ b <> 8 /\ b <> 9 /\ b <> 13) \/ ((b = 8 \/ b = 9 \/ b = 13) /\ inside s').
Proof.
  intros H E. unfold do_execute in E.
  destruct (N.eqb_spec b 7) as [Q|N7]; [inv E; left; split; [apply skeep_refl|lia]|].
  destruct (N.eqb_spec b 8) as [Q|N8]; [bind_inv E; inv E; right; split; [auto|eapply scr_bs_inside; eauto]|].
  destruct (N.eqb_spec b 9) as [Q|N9]; [bind_inv E; inv E; right; split; [auto|eapply scr_tab_inside; eauto]|].
  destruct ((b =? 10) || (b =? 11) || (b =? 12)) eqn:Elf.
  { bind_inv E. inv E. left. split; [eapply scr_lf_keep; eauto|lia]. }
  destruct (N.eqb_spec b 13) as [Q|N13]; [bind_inv E; inv E; right; split; [auto|eapply scr_cr_inside; eauto]|].
  destruct ((b =? 14) || (b =? 15)); inv E; left; (split; [apply skeep_refl|lia]).
Qed.

(* what a print does to the column: cases A and B of the main theorem *)
Definition print_keeps (cols c : N) : Prop :=
  (128 <= c < 160) \/ c = REPL \/ text_keeps cols c.

Definition printed_last (s s' : screen) (c : N) : Prop :=
  ~ (128 <= c < 160) /\ c <> REPL /\ altmode s' = altmode s /\ ends_last (cur s) (cur s') c (pen s).

Lemma do_print_col s c s' evs : screen_ok s -> do_print s c = Ok (s', evs) ->
  pcol (cur s') = gcols (cur s') ->
  (skeep s s' /\ print_keeps (gcols (cur s)) c) \/ printed_last s s' c.
Proof.
  intros H E Hp. unfold do_print in E. unfold print_keeps.
  destruct (N.leb_spec 128 c) as [L1|L1], (N.ltb_spec c 160) as [L2|L2]; cbn [andb] in E.
  1:{ destruct (do_execute_col _ _ _ _ H E) as [(K & _) | (B & _)]; [left; split; [exact K|left; lia]|lia]. }
  all: destruct (N.eqb_spec c REPL) as [Q|NR]; [inv E; left; split; [apply skeep_refl|right; left; reflexivity]|].
  all: bind_inv E; inv E; destruct (on_cur_inv' _ _ _ E0) as (y & Ey & Ec & Ea);
       rewrite Ec in Hp;
       destruct (grid_text_pending _ _ _ _ (cur_ok _ H) Ey Hp) as [((K1 & K2) & _ & TK) | EL];
       [left; split; [unfold skeep; rewrite Ec; auto|right; right; exact TK]
       |right; unfold printed_last; rewrite Ec; split; [lia|auto]].
Qed.

Lemma do_esc_col s inter b s' evs : screen_ok s -> do_esc s inter b = Ok (s', evs) ->
  (skeep s s' /\ (inter = [] -> b <> 56 /\ b <> 99)) \/
  (inter = [] /\ b = 56 /\ altmode s' = altmode s /\ pcol (cur s') = spcol (cur s) /\ gcols (cur s') = gcols (cur s)) \/
  (inter = [] /\ b = 99 /\ inside s').
Proof.
  intros H E. unfold do_esc in E. destruct inter as [|i inter'].
  2:{ inv E. left. split; [apply skeep_refl|discriminate]. }
  ifeq E.
  - inv E. left. split; [apply scr_save_cursor_keep|intros _; lia].
  - inv E. right; left. destruct (scr_restore_cursor_col s) as (A & B & C). auto 6.
  - inv E. left. split; [split; [reflexivity|split; reflexivity]|intros _; lia].
  - inv E. left. split; [split; [reflexivity|split; reflexivity]|intros _; lia].
  - bind_inv E. inv E. left. split; [eapply scr_ri_keep; eauto|intros _; lia].
  - bind_inv E. inv E. right; right. split; [reflexivity|]. split; [reflexivity|].
    eapply ris_not_pending; eauto.
  - inv E. left. split; [split; [reflexivity|split; reflexivity]|intros _; lia].
  - inv E. left. split; [split; [reflexivity|split; reflexivity]|intros _; lia].
  - inv E. left. split; [split; [reflexivity|split; reflexivity]|intros _; lia].
Qed.

Definition csi_moves_col (c : N) : Prop :=
  c = 67 \/ c = 68 \/ c = 69 \/ c = 70 \/ c = 71 \/ c = 72 \/ c = 114.

Lemma do_csi_plain_col rz s ps c s' evs : screen_ok s -> do_csi rz s ps [] c = Ok (s', evs) ->
  (skeep s s' /\ ~ csi_moves_col c) \/ ((csi_moves_col c \/ c = 116) /\ inside s').
Proof.
  intros H E. unfold do_csi in E. unfold csi_moves_col. ifeq E.
  - (* ICH *) unfold noev in E; bind_inv E; inv E. left. split; [eapply scr_ich_keep; eauto|lia].
  - (* CUU *) unfold noev in E; bind_inv E; inv E. left. split; [eapply scr_cuu_keep; eauto|lia].
  - (* CUD *) unfold noev in E; bind_inv E; inv E. left. split; [eapply scr_cud_keep; eauto|lia].
  - (* CUF *) unfold noev in E; bind_inv E; inv E. right. split; [lia|]. eapply scr_cuf_inside; eauto.
  - (* CUB *) unfold noev in E; bind_inv E; inv E. right. split; [lia|]. eapply scr_cub_inside; [exact H|apply canon1_pos|eauto].
  - (* CNL *) unfold noev in E; bind_inv E; inv E. right. split; [lia|]. eapply scr_cnl_inside; eauto.
  - (* CPL *) unfold noev in E; bind_inv E; inv E. right. split; [lia|]. eapply scr_cpl_inside; eauto.
  - (* CHA *) unfold noev in E; bind_inv E; inv E. right. split; [lia|]. eapply scr_cha_inside; eauto.
  - (* CUP *) destruct (canon2 ps 1 1) as [r cc]. unfold noev in E; bind_inv E; inv E. right. split; [lia|]. eapply scr_cup_inside; eauto.
  - (* ED *) bind_inv E. destruct v as [s1 k]. inv E. left. split; [eapply scr_ed_keep; eauto|lia].
  - (* EL *) bind_inv E. destruct v as [s1 k]. inv E. left. split; [eapply scr_el_keep; eauto|lia].
  - (* IL *) unfold noev in E; bind_inv E; inv E. left. split; [eapply scr_il_keep; eauto|lia].
  - (* DL *) unfold noev in E; bind_inv E; inv E. left. split; [eapply scr_dl_keep; eauto|lia].
  - (* DCH *) unfold noev in E; bind_inv E; inv E. left. split; [eapply scr_dch_keep; eauto|lia].
  - (* SU *) unfold noev in E; bind_inv E; inv E. left. split; [eapply scr_su_keep; eauto|lia].
  - (* SD *) unfold noev in E; bind_inv E; inv E. left. split; [eapply scr_sd_keep; eauto|lia].
  - (* ECH *) unfold noev in E; bind_inv E; inv E. left. split; [eapply scr_ech_keep; eauto|lia].
  - (* VPA *) unfold noev in E; bind_inv E; inv E. left. split; [eapply scr_vpa_keep; eauto|lia].
  - (* SGR *) destruct (scr_sgr s ps) as [s1 k] eqn:Es. inv E. left. split; [eapply scr_sgr_keep; eauto|lia].
  - (* DECSTBM *) destruct (canon2 ps 1 (grows (cur s))) as [t b]. unfold noev in E; bind_inv E; inv E.
    right. split; [lia|]. eapply scr_decstbm_inside; eauto.
  - (* CSI t *)
    assert (skeep s s /\ ~ (116 = 67 \/ 116 = 68 \/ 116 = 69 \/ 116 = 70 \/ 116 = 71 \/ 116 = 72 \/ 116 = 114)) as Same
      by (split; [apply skeep_refl|lia]).
    destruct ps as [|[|op sub] rest]; try (inv E; left; exact Same).
    destruct (op =? 8); [|inv E; left; exact Same].
    match type of E with (if ?cnd then _ else _) = _ => destruct cnd eqn:Ec end; [|inv E; left; exact Same].
    bind_inv E. inv E. right. split; [lia|].
    eapply set_size_not_pending; [exact H| | |exact E0]; lia.
  - inv E. left. split; [apply skeep_refl|lia].
Qed.

Lemma cur_cols s : screen_ok s -> gcols (cur s) = gcols (g s) /\ gcols (alt s) = gcols (g s).
Proof. intros H. pose proof (so_cols _ H). unfold cur. destruct (altmode s); auto. Qed.

(* CSI with an intermediate: only CSI ? ... h / l can touch the cursor *)
Lemma do_csi_dec_col rz s ps i rest c s' evs : screen_ok s -> do_csi rz s ps (i :: rest) c = Ok (s', evs) ->
  pcol (cur s') = gcols (cur s') ->
  gcols (cur s') = gcols (cur s) /\
  ((pcol (cur s) = gcols (cur s) /\ altmode s' = altmode s /\ (i = 63 -> c = 104 \/ c = 108 -> ~ In [6] ps)) \/
   (i = 63 /\ c = 108 /\ In [1049] ps /\ altmode s' = false /\ spcol (g s) = gcols (g s)) \/
   (i = 63 /\ c = 108 /\ In [47] ps /\ altmode s = true /\ altmode s' = false /\ pcol (g s) = gcols (g s)) \/
   (i = 63 /\ c = 104 /\ In [47] ps /\ altmode s = false /\ altmode s' = true /\ pcol (alt s) = gcols (alt s))).
Proof.
  intros H E Hp. destruct (do_csi_ok rz s ps (i :: rest) c H) as (s2 & e2 & E2 & H').
  rewrite E in E2. inv E2.
  destruct (cur_cols _ H) as (Cc & Ca). destruct (cur_cols _ H') as (Cc' & Ca').
  assert (forall t, skeep s t -> pcol (cur t) = gcols (cur t) -> (i = 63 -> c = 104 \/ c = 108 -> ~ In [6] ps) ->
            gcols (cur t) = gcols (cur s) /\
            ((pcol (cur s) = gcols (cur s) /\ altmode t = altmode s /\ (i = 63 -> c = 104 \/ c = 108 -> ~ In [6] ps)) \/
             (i = 63 /\ c = 108 /\ In [1049] ps /\ altmode t = false /\ spcol (g s) = gcols (g s)) \/
             (i = 63 /\ c = 108 /\ In [47] ps /\ altmode s = true /\ altmode t = false /\ pcol (g s) = gcols (g s)) \/
             (i = 63 /\ c = 104 /\ In [47] ps /\ altmode s = false /\ altmode t = true /\ pcol (alt s) = gcols (alt s))))
    as Keep.
  { intros t (K1 & K2 & K3) Q N6. split; [exact K3|]. left. split; [congruence|]. split; [exact K1|exact N6]. }
  unfold do_csi in E.
  destruct (N.eqb_spec i 63) as [Hi|Hi]; [subst i|inv E; apply Keep; [apply skeep_refl|exact Hp|intros; lia]].
  ifeq E.
  - bind_inv E. destruct v as [s1 k]. inv E. apply Keep; [eapply scr_ed_keep; eauto|exact Hp|intros _ [Q|Q]; discriminate Q].
  - bind_inv E. destruct v as [s1 k]. inv E. apply Keep; [eapply scr_el_keep; eauto|exact Hp|intros _ [Q|Q]; discriminate Q].
  - (* DECSET *)
    bind_inv E. destruct v as [s1 k]. inv E. unfold scr_decset in E0.
    destruct (decset_fold_col _ _ _ _ _ H E0) as (C1 & P1).
    split; [congruence|]. rewrite Cc', C1 in Hp.
    destruct (P1 Hp) as [(Q & M & N6) | (I47 & M0 & M1 & Q)].
    + left. split; [congruence|]. split; [exact M|]. intros _ _. exact N6.
    + right; right; right. rewrite Ca. auto 8.
  - (* DECRST *)
    bind_inv E. destruct v as [s1 k]. inv E. unfold scr_decrst in E0.
    destruct (decrst_fold_col _ _ _ _ _ H E0) as (C1 & P1).
    split; [congruence|]. rewrite Cc', C1 in Hp.
    destruct (P1 Hp) as [(Q & M & N6) | [(I47 & M0 & M1 & Q) | (I1049 & M1 & Q)]].
    + left. split; [congruence|]. split; [exact M|]. intros _ _. exact N6.
    + right; right; left. auto 8.
    + right; left. auto 8.
  - inv E. apply Keep; [apply skeep_refl|exact Hp|intros _ [Q|Q]; lia].
Qed.

(* ================================================================== *)
(* 8. the transition theorem                                           *)
(* ================================================================== *)
(* actions that leave the cursor column of the current grid alone (cols = width of the grid) *)
Definition col_keeper (cols : N) (a : action) : Prop :=
  match a with
  | APrint c => print_keeps cols c                       (* C1 control, U+FFFD, C0 control, zero-width, too wide *)
  | AExecute b => b <> 8 /\ b <> 9 /\ b <> 13            (* everything but BS, HT, CR *)
  | ACsi ps [] _ c => ~ csi_moves_col c                  (* everything but CUF CUB CNL CPL CHA CUP DECSTBM *)
  | ACsi ps (i :: _) _ c => i = 63 -> c = 104 \/ c = 108 -> ~ In [6] ps   (* DECSET/DECRST without origin mode *)
  | AEsc [] _ b => b <> 56 /\ b <> 99                    (* everything but DECRC, RIS *)
  | _ => True
  end.

Theorem pending_only_by_print rz s a s' evs :
  screen_ok s -> perform rz s a = Ok (s', evs) -> pcol (cur s') = gcols (cur s') ->
  gcols (cur s') = gcols (cur s) /\
  ( (* A: it was already pending and the action does not move the column *)
    (pcol (cur s) = gcols (cur s) /\ altmode s' = altmode s /\ col_keeper (gcols (cur s)) a)
    \/ (* B: a character was printed and ends in the last column *)
    (exists c, a = APrint c /\ printed_last s s' c)
    \/ (* C: DECRC restores a saved pending column *)
    (exists ig, a = AEsc [] ig 56 /\ altmode s' = altmode s /\ spcol (cur s) = gcols (cur s))
    \/ (* D: DECRST 1049 restores the primary grid's saved pending column *)
    (exists ps i ig, a = ACsi ps (63 :: i) ig 108 /\ In [1049] ps /\ altmode s' = false /\ spcol (g s) = gcols (g s))
    \/ (* E1: DECRST 47 switches back to the primary grid, whose cursor was pending *)
    (exists ps i ig, a = ACsi ps (63 :: i) ig 108 /\ In [47] ps /\ altmode s = true /\ altmode s' = false /\
                     pcol (g s) = gcols (g s))
    \/ (* E2: DECSET 47 switches to the alternate grid, whose cursor was pending *)
    (exists ps i ig, a = ACsi ps (63 :: i) ig 104 /\ In [47] ps /\ altmode s = false /\ altmode s' = true /\
                     pcol (alt s) = gcols (alt s)) ).
Proof.
  intros H E Hp.
  assert (forall t, skeep s t -> pcol (cur t) = gcols (cur t) -> col_keeper (gcols (cur s)) a ->
            gcols (cur t) = gcols (cur s) /\
            ((pcol (cur s) = gcols (cur s) /\ altmode t = altmode s /\ col_keeper (gcols (cur s)) a) \/
             (exists c, a = APrint c /\ printed_last s t c) \/
             (exists ig, a = AEsc [] ig 56 /\ altmode t = altmode s /\ spcol (cur s) = gcols (cur s)) \/
             (exists ps i ig, a = ACsi ps (63 :: i) ig 108 /\ In [1049] ps /\ altmode t = false /\ spcol (g s) = gcols (g s)) \/
             (exists ps i ig, a = ACsi ps (63 :: i) ig 108 /\ In [47] ps /\ altmode s = true /\ altmode t = false /\
                              pcol (g s) = gcols (g s)) \/
             (exists ps i ig, a = ACsi ps (63 :: i) ig 104 /\ In [47] ps /\ altmode s = false /\ altmode t = true /\
                              pcol (alt s) = gcols (alt s)))) as Keep.
  { intros t (K1 & K2 & K3) Q CK. split; [exact K3|]. left. split; [congruence|]. split; [exact K1|exact CK]. }
  destruct a as [c|b|ps inter ig c|b| |ps bell|ps inter ig c|inter ig b]; cbn [perform] in E.
  - (* print *)
    destruct (do_print_col _ _ _ _ H E Hp) as [(K & PK) | PL].
    + apply Keep; assumption.
    + split; [|right; left; eauto]. destruct PL as (_ & _ & _ & (_ & C & _)). exact C.
  - (* execute *)
    destruct (do_execute_col _ _ _ _ H E) as [(K & NB) | (_ & I)]; [apply Keep; assumption|].
    unfold inside in I. lia.
  - inv E. apply Keep; [apply skeep_refl|exact Hp|exact I].
  - inv E. apply Keep; [apply skeep_refl|exact Hp|exact I].
  - inv E. apply Keep; [apply skeep_refl|exact Hp|exact I].
  - (* OSC *)
    assert (fst (do_osc s ps) = s) as Eo.
    { unfold do_osc. destruct ps as [|k [|v [|]]]; try reflexivity.
      repeat match goal with |- context[if ?cnd then _ else _] => destruct cnd end; reflexivity. }
    inv E. rewrite H1 in Eo. cbn [fst] in Eo. subst s'. apply Keep; [apply skeep_refl|exact Hp|exact I].
  - (* CSI *)
    destruct inter as [|i rest].
    + destruct (do_csi_plain_col _ _ _ _ _ _ H E) as [(K & NM) | (_ & I)]; [apply Keep; assumption|].
      unfold inside in I. lia.
    + destruct (do_csi_dec_col _ _ _ _ _ _ _ _ H E Hp) as (C & [(Q & M & N6) | [(-> & -> & R) | [(-> & -> & R) | (-> & -> & R)]]]).
      * split; [exact C|]. left. auto.
      * split; [exact C|]. right; right; right; left. exists ps, rest, ig. split; [reflexivity|exact R].
      * split; [exact C|]. right; right; right; right; left. exists ps, rest, ig. split; [reflexivity|exact R].
      * split; [exact C|]. right; right; right; right; right. exists ps, rest, ig. split; [reflexivity|exact R].
  - (* ESC *)
    destruct (do_esc_col _ _ _ _ _ H E) as [(K & NB) | [(-> & -> & M & Q & C) | (_ & _ & I)]].
    + apply Keep; [exact K|exact Hp|]. destruct inter; [now apply NB|exact I].
    + split; [exact C|]. right; right; left. exists ig. split; [reflexivity|]. split; [exact M|congruence].
    + unfold inside in I. lia.
Qed.

(* ================================================================== *)
(* 9. corollaries: actions after which the cursor is never pending     *)
(* ================================================================== *)
(* BS, HT, CR; CUF CUB CNL CPL CHA CUP DECSTBM; RIS; DECSET/DECRST lists that set or reset origin
   mode (6) and contain no 47 / 1049 *)
Definition col_mover (a : action) : Prop :=
  match a with
  | AExecute b => b = 8 \/ b = 9 \/ b = 13
  | ACsi ps [] _ c => csi_moves_col c
  | ACsi ps (i :: _) _ c => i = 63 /\ (c = 104 \/ c = 108) /\ In [6] ps /\ ~ In [47] ps /\ ~ In [1049] ps
  | AEsc [] _ b => b = 99
  | _ => False
  end.

Theorem movers_not_pending rz s a s' evs :
  screen_ok s -> perform rz s a = Ok (s', evs) -> col_mover a -> pcol (cur s') < gcols (cur s').
Proof.
  intros H E M. destruct (perform_ok rz s a H) as (s2 & e2 & E2 & H'). rewrite E in E2. inv E2.
  destruct (cur_dims _ H') as (_ & _ & Le).
  destruct (N.eq_dec (pcol (cur s2)) (gcols (cur s2))) as [Q|Q]; [exfalso|lia].
  destruct (pending_only_by_print _ _ _ _ _ H E Q) as
    (_ & [(_ & _ & CK) | [(c & -> & _) | [(ig & -> & _) | [(ps & i & ig & -> & I & _) | [(ps & i & ig & -> & I & _) | (ps & i & ig & -> & I & _)]]]]]).
  - destruct a as [c|b|ps inter ig c|b| |ps bell|ps inter ig c|inter ig b]; cbn in M, CK; try contradiction.
    + lia.
    + destruct inter as [|i rest]; [contradiction|]. destruct M as (-> & Hc & I6 & _). now apply CK.
    + destruct inter; [lia|contradiction].
  - exact M.
  - cbn in M. lia.
  - cbn in M. tauto.
  - cbn in M. tauto.
  - cbn in M. tauto.
Qed.

(* a resize request CSI 8 ; r ; c t either leaves the screen alone (no resizing callbacks, or
   a size outside 1..512) or performs set_size, after which the cursor is inside the line *)
Theorem resize_request_not_pending rz s ps ig s' evs :
  screen_ok s -> perform rz s (ACsi ps [] ig 116) = Ok (s', evs) ->
  s' = s \/
  (rz = true /\ exists r c, 1 <= r /\ 1 <= c /\ screen_set_size s r c = Ok s' /\
                            pcol (cur s') < gcols (cur s') /\ spcol (cur s') < gcols (cur s')).
Proof.
  intros H E. cbn [perform] in E. unfold do_csi in E. ifeq E; try lia.
  destruct ps as [|[|op sub] rest]; try (inv E; left; reflexivity).
  destruct (op =? 8); [|inv E; left; reflexivity].
  match type of E with (if ?cnd then _ else _) = _ => destruct cnd eqn:Ec end; [|inv E; left; reflexivity].
  bind_inv E. inv E. right. split; [destruct rz; [reflexivity|discriminate Ec]|].
  eexists _, _. split; [|split; [|split; [exact E0|]]]; [lia|lia|].
  eapply set_size_not_pending; [exact H| | |exact E0]; lia.
Qed.

(* ================================================================== *)
(* 10. the converse: printing up to the last column makes the cursor pending *)
(* ================================================================== *)
Theorem print_to_last_col_pending rz s c :
  screen_ok s -> ~ (128 <= c < 160) -> c <> REPL -> ~ (wd c = None /\ c < 256) ->
  1 <= cwidth c -> pcol (cur s) + cwidth c = gcols (cur s) ->
  exists s', perform rz s (APrint c) = Ok (s', []) /\
             pcol (cur s') = gcols (cur s') /\ prow (cur s') = prow (cur s) /\ altmode s' = altmode s /\
             printed_last s s' c.
Proof.
  intros H N1 N2 Nc Hw Hfit. cbn [perform]. rewrite do_print_text by assumption.
  rewrite scr_text_eq. rewrite grid_text_fits; [|apply (cur_ok _ H)|exact Nc|exact Hw|lia]. cbn [bind].
  eexists; split; [reflexivity|].
  destruct (cur_with_cur' s (place (cur s) c (cwidth c) (pen s))) as (Ec & Ea).
  assert (pcol (cur (with_cur s (place (cur s) c (cwidth c) (pen s)))) =
          gcols (cur (with_cur s (place (cur s) c (cwidth c) (pen s))))) as Q by (rewrite Ec; exact Hfit).
  split; [exact Q|]. split; [rewrite Ec; reflexivity|]. split; [exact Ea|].
  assert (perform rz s (APrint c) = Ok (with_cur s (place (cur s) c (cwidth c) (pen s)), [])) as E.
  { cbn [perform]. rewrite do_print_text by assumption. rewrite scr_text_eq.
    rewrite grid_text_fits; [reflexivity|apply (cur_ok _ H)|exact Nc|exact Hw|lia]. }
  destruct (pending_only_by_print _ _ _ _ _ H E Q) as
    (_ & [(_ & _ & CK) | [(c' & Ec' & PL) | [(ig & Ei & _) | [(ps & i & ig & Ei & _) | [(ps & i & ig & Ei & _) | (ps & i & ig & Ei & _)]]]]]);
    try discriminate Ei.
  - exfalso. cbn in CK. unfold print_keeps, text_keeps in CK.
    destruct CK as [CK | [CK | [CK | [CK | CK]]]]; try tauto; try lia.
    unfold cwidth in Hw. rewrite CK in Hw. lia.
  - inv Ec'. exact PL.
Qed.

Lemma wd_ascii c : 32 <= c < 127 -> wd c = Some 1.
Proof.
  intros Hc.
  assert (forallb (fun k => option_eqb N.eqb (wd (32 + N.of_nat k)) (Some 1)) (seq 0 95) = true) as F
    by (vm_compute; reflexivity).
  rewrite forallb_forall in F. specialize (F (N.to_nat (c - 32))).
  replace (32 + N.of_nat (N.to_nat (c - 32))) with c in F by lia.
  assert (In (N.to_nat (c - 32)) (seq 0 95)) as I by (apply in_seq; lia).
  specialize (F I). destruct (wd c) as [w|]; cbn in F; [|discriminate].
  apply N.eqb_eq in F. now subst w.
Qed.

(* task item 2: a printable ASCII character printed in column cols - 1 leaves the cursor pending *)
Corollary print_ascii_last_col_pending rz s c :
  screen_ok s -> 32 <= c < 127 -> pcol (cur s) + 1 = gcols (cur s) ->
  exists s', perform rz s (APrint c) = Ok (s', []) /\
             pcol (cur s') = gcols (cur s') /\ prow (cur s') = prow (cur s) /\
             drawing_cell (cur s') (prow (cur s')) (gcols (cur s') - 1) = Some (glyph c (pen s)).
Proof.
  intros H Hc Hfit. pose proof (wd_ascii c Hc) as W.
  assert (cwidth c = 1) as W1 by (unfold cwidth; now rewrite W).
  destruct (print_to_last_col_pending rz s c H) as (s' & E & Q & R & M & PL);
    try (unfold REPL; lia); [rewrite W; intros [? _]; discriminate|].
  exists s'. split; [exact E|]. split; [exact Q|]. split; [exact R|].
  destruct PL as (_ & _ & _ & (_ & _ & _ & _ & D & _)). rewrite W1 in D. exact D.
Qed.

(* ================================================================== *)
(* 11. the other direction of case A: these actions never move the column *)
(* ================================================================== *)
Lemma grid_text_keeps x ch a y : grid_ok x -> text_keeps (gcols x) ch -> grid_text x ch a = Ok y -> keeps x y.
Proof.
  intros H TK E. unfold text_keeps in TK.
  destruct (grid_text_cases x ch a H) as
    [(W & Hc & E1) | [(_ & Hw & E1) | [(W & E1) | [(Nc & Hw & Hfit & E1) | (Nc & Hw & Hle & Hover & E1)]]]];
    rewrite E1 in E; inv E; try apply keeps_refl.
  - destruct (zero_result_cursor x ch) as (_ & Zc). split; [exact Zc|].
    unfold zero_result. destruct (zero_target x) as [[r c]|]; reflexivity.
  - exfalso. destruct TK as [TK | [TK | TK]]; [tauto| |lia]. unfold cwidth in Hw. rewrite TK in Hw. lia.
  - exfalso. destruct TK as [TK | [TK | TK]]; [tauto| |lia]. unfold cwidth in Hw. rewrite TK in Hw. lia.
Qed.

Definition same_grids (s s' : screen) : Prop := g s' = g s /\ alt s' = alt s /\ altmode s' = altmode s.

Lemma same_grids_skeep s s' : same_grids s s' -> skeep s s'.
Proof. intros (A & B & C). unfold skeep, cur. rewrite A, B, C. repeat split. Qed.

Lemma decset1_plain s p s1 k : p <> [6] -> p <> [47] -> p <> [1049] -> decset1 s p = Ok (s1, k) -> same_grids s s1.
Proof.
  intros N6 N47 N1049 E. unfold decset1 in E. destruct (single p) as [n|] eqn:Es; [|inv E; repeat split].
  apply single_inv in Es. subst p. ifeq E; try congruence; inv E; repeat split.
Qed.
Lemma decrst1_plain s p s1 k : p <> [6] -> p <> [47] -> p <> [1049] -> decrst1 s p = Ok (s1, k) -> same_grids s s1.
Proof.
  intros N6 N47 N1049 E. unfold decrst1 in E. destruct (single p) as [n|] eqn:Es; [|inv E; repeat split].
  apply single_inv in Es. subst p. ifeq E; try congruence; inv E; try (repeat split; fail).
  all: first [unfold clear_mouse_mode; destruct (mouse_mode_eqb _ _) | unfold clear_mouse_enc; destruct (mouse_enc_eqb _ _)];
       repeat split.
Qed.

Lemma fold_plain f :
  (forall s p s1 k, p <> [6] -> p <> [47] -> p <> [1049] -> f s p = Ok (s1, k) -> same_grids s s1) ->
  forall ps s n s' k, ~ In [6] ps -> ~ In [47] ps -> ~ In [1049] ps ->
  fold_params f ps s n = Ok (s', k) -> same_grids s s'.
Proof.
  intros Hf. induction ps as [|p ps IH]; intros s n s' k N6 N47 N1049 E; cbn [fold_params] in E.
  - inv E. repeat split.
  - bind_inv E. destruct v as [s1 k1]. cbn [In] in N6, N47, N1049.
    destruct (Hf s p s1 k1) as (A & B & C); [intros Q; apply N6; auto|intros Q; apply N47; auto|intros Q; apply N1049; auto|exact E0|].
    destruct (IH s1 (n + k1) s' k) as (A' & B' & C'); [tauto|tauto|tauto|exact E|].
    split; [congruence|split; congruence].
Qed.

(* actions that never move the cursor column of the current grid nor switch grids: vertical
   moves (LF VT FF RI CUU CUD VPA), erases (ED EL ECH, DECSED DECSEL), IL DL ICH DCH SU SD,
   SGR, DECSC, keypad / mouse / cursor-key / cursor-visibility / paste modes, BEL, SI, SO, OSC,
   DCS, unhandled sequences, and prints of controls, zero-width and too-wide characters.
   (The resize request CSI t is left out here: see resize_request_not_pending.) *)
Definition col_fixed (cols : N) (a : action) : Prop :=
  match a with
  | APrint c => print_keeps cols c
  | AExecute b => b <> 8 /\ b <> 9 /\ b <> 13
  | ACsi ps [] _ c => ~ csi_moves_col c /\ c <> 116
  | ACsi ps (i :: _) _ c => i = 63 -> c = 104 \/ c = 108 -> ~ In [6] ps /\ ~ In [47] ps /\ ~ In [1049] ps
  | AEsc [] _ b => b <> 56 /\ b <> 99
  | _ => True
  end.

Theorem col_fixed_keeps rz s a s' evs :
  screen_ok s -> perform rz s a = Ok (s', evs) -> col_fixed (gcols (cur s)) a ->
  altmode s' = altmode s /\ pcol (cur s') = pcol (cur s) /\ gcols (cur s') = gcols (cur s).
Proof.
  intros H E CF. change (skeep s s').
  destruct a as [c|b|ps inter ig c|b| |ps bell|ps inter ig c|inter ig b]; cbn [perform] in E; cbn in CF.
  - (* print *)
    unfold do_print in E. unfold print_keeps in CF.
    destruct (N.leb_spec 128 c) as [L1|L1], (N.ltb_spec c 160) as [L2|L2]; cbn [andb] in E.
    1:{ destruct (do_execute_col _ _ _ _ H E) as [(K & _) | (B & _)]; [exact K|lia]. }
    all: destruct (N.eqb_spec c REPL) as [Q|NR]; [inv E; apply skeep_refl|].
    all: destruct CF as [CF | [CF | CF]]; [lia|contradiction|].
    all: bind_inv E; inv E; revert E0; apply on_cur_skeep; intros y Ey;
         eapply grid_text_keeps; [apply (cur_ok _ H)|exact CF|exact Ey].
  - destruct (do_execute_col _ _ _ _ H E) as [(K & _) | (B & _)]; [exact K|lia].
  - inv E. apply skeep_refl.
  - inv E. apply skeep_refl.
  - inv E. apply skeep_refl.
  - assert (fst (do_osc s ps) = s) as Eo.
    { unfold do_osc. destruct ps as [|k [|v [|]]]; try reflexivity.
      repeat match goal with |- context[if ?cnd then _ else _] => destruct cnd end; reflexivity. }
    inv E. rewrite H1 in Eo. cbn [fst] in Eo. subst s'. apply skeep_refl.
  - destruct inter as [|i rest].
    + destruct (do_csi_plain_col _ _ _ _ _ _ H E) as [(K & _) | (B & _)]; [exact K|tauto].
    + unfold do_csi in E.
      destruct (N.eqb_spec i 63) as [Hi|Hi]; [subst i|inv E; apply skeep_refl].
      ifeq E.
      * bind_inv E. destruct v as [s1 k]. inv E. eapply scr_ed_keep; eauto.
      * bind_inv E. destruct v as [s1 k]. inv E. eapply scr_el_keep; eauto.
      * bind_inv E. destruct v as [s1 k]. inv E. destruct CF as (N6 & N47 & N1049); [reflexivity|auto|].
        apply same_grids_skeep. eapply (fold_plain decset1 decset1_plain); eauto.
      * bind_inv E. destruct v as [s1 k]. inv E. destruct CF as (N6 & N47 & N1049); [reflexivity|auto|].
        apply same_grids_skeep. eapply (fold_plain decrst1 decrst1_plain); eauto.
      * inv E. apply skeep_refl.
  - destruct (do_esc_col _ _ _ _ _ H E) as [(K & _) | [(-> & -> & _) | (-> & -> & _)]]; [exact K|lia|lia].
Qed.

(* in particular a pending cursor stays pending under these actions *)
Corollary pending_kept rz s a s' evs :
  screen_ok s -> perform rz s a = Ok (s', evs) -> col_fixed (gcols (cur s)) a ->
  pcol (cur s) = gcols (cur s) -> pcol (cur s') = gcols (cur s').
Proof. intros H E CF Q. destruct (col_fixed_keeps _ _ _ _ _ H E CF) as (_ & A & B). congruence. Qed.

(* ================================================================== *)
(* 12. examples; the history-level reading is NOT an invariant         *)
(* ================================================================== *)
(* pcol, prow, cols and the cell in the last column of the cursor row after processing bs on a
   fresh 2 x 3 screen *)
Definition probe (bs : list N) : res (N * N * N * option cell) :=
  do p <- parser_new 2 3 0 false; do q <- process p bs;
  let x := cur (scr q) in Ok (pcol x, prow x, gcols x, drawing_cell x (prow x) (gcols x - 1)).

(* "abc": the cursor is pending (3 = cols) and the last cell holds 'c' *)
Example pending_after_print : probe [97; 98; 99] = Ok (3, 0, 3, Some (glyph 99 dflt)).
Proof. vm_compute. reflexivity. Qed.

(* "abc" ESC [ 2 K: the cursor is still pending but the last cell of its row is blank, so
   "pending => last cell of the cursor row occupied" is not an invariant of reachable states *)
Example pending_survives_erase : probe [97; 98; 99; 27; 91; 50; 75] = Ok (3, 0, 3, Some (blank dflt)).
Proof. vm_compute. reflexivity. Qed.

(* LF "abc" ESC [ A: the pending column is carried by CUU to a row that was never written *)
Example pending_carried_up : probe [10; 97; 98; 99; 27; 91; 65] = Ok (3, 0, 3, Some (blank dflt)).
Proof. vm_compute. reflexivity. Qed.

(* "abc" CR: a horizontal move ends the pending state *)
Example pending_cleared_by_cr : probe [97; 98; 99; 13] = Ok (0, 0, 3, Some (glyph 99 dflt)).
Proof. vm_compute. reflexivity. Qed.

(* "abc" ESC 7, CR, ESC 8: DECRC restores the saved pending column (case C) *)
Example pending_restored_by_decrc : probe [97; 98; 99; 27; 55; 13; 27; 56] = Ok (3, 0, 3, Some (glyph 99 dflt)).
Proof. vm_compute. reflexivity. Qed.

(* "abc" CSI ? 47 h: the alternate grid's cursor is at 0; CSI ? 47 l: back to the pending
   primary cursor (case E1) *)
Example pending_after_switch_back :
  probe [97; 98; 99; 27; 91; 63; 52; 55; 104] = Ok (0, 0, 3, Some (blank dflt)) /\
  probe [97; 98; 99; 27; 91; 63; 52; 55; 104; 27; 91; 63; 52; 55; 108] = Ok (3, 0, 3, Some (glyph 99 dflt)).
Proof. split; vm_compute; reflexivity. Qed.

(* case B, second alternative: 2 x 2 screen, "a" then a double-width character (U+4E16): it does
   not fit in the one remaining column, the cursor wraps to row 1 and the character fills the
   whole line, so the cursor is pending although the old column (1) was not *)
Example pending_after_wrap_wide :
  (do p <- parser_new 2 2 0 false; do q <- process p [97; 228; 184; 150];
   let x := cur (scr q) in Ok (pcol x, prow x, gcols x, drawing_cell x 1 0, drawing_cell x 1 1))
  = Ok (2, 1, 2, Some (glyph 19990 dflt), Some cont_cell).
Proof. vm_compute. reflexivity. Qed.

(* one-column screen: every printed narrow character leaves the cursor pending *)
Example pending_one_column :
  (do p <- parser_new 2 1 0 false; do q <- process p [97; 98];
   let x := cur (scr q) in Ok (pcol x, prow x, gcols x, drawing_cell x 0 0, drawing_cell x 1 0))
  = Ok (1, 1, 1, Some (glyph 97 dflt), Some (glyph 98 dflt)).
Proof. vm_compute. reflexivity. Qed.
